package c08

import (
	"encoding/json"
	"fmt"
	"os"
	"path/filepath"
	"sort"
	"strings"
	"testing"
	"time"

	"github.com/codelaboratoryltd/bng/pkg/radius"
	"pgregory.net/rapid"

	"bngverif/internal/vstat"
)

func TestMain(m *testing.M) { vstat.Main(m, "C08") }

type fataler = vstat.Fataler

var (
	survey     = os.Getenv("VERIF_C08_SURVEY") != ""
	surveySeen = map[string]int{}
)

func surveyOnce(sig, msg string) {
	surveySeen[sig]++
	if surveySeen[sig] <= 4 {
		if f, err := os.OpenFile(os.Getenv("VERIF_C08_SURVEY"), os.O_APPEND|os.O_CREATE|os.O_WRONLY, 0o644); err == nil {
			fmt.Fprintf(f, "SURVEY %s: %s\n\n", sig, msg)
			f.Close()
		}
	}
}

// betweenPersistAndTransmit: the crash point lies after a durable write and before the transmit it protects.
func betweenPersistAndTransmit(c *crashSel) bool {
	if c == nil {
		return false
	}
	switch c.Site {
	case "persist-session.after", "stop.send.before", "persist-pending.after", "recover.send.before", "retry.send.before":
		return true
	}
	return false
}

// judge runs the oracle on one executed run, reports every violation through
// its signature (listed findings are counted and skipped) and records the case.
func judge(t fataler, h *history, sel *crashSel, o *outcome, mode string) {
	t.Helper()
	if o.trouble != "" {
		t.Fatalf("INCONCLUSIVE harness trouble: %s", o.trouble)
	}
	if len(o.bad) > 0 {
		// the client produced a datagram the server could not decode as an Accounting-Request
		vstat.Fail(t, "C08/record/undecodable", "%s\nhistory: %v", strings.Join(o.bad, "; "), h)
	}
	if sel != nil && !o.fired {
		// the selected marker was not reached in this re-run (run-to-run scheduling differences inside
		// the manager): still a valid crash-free run, judged as such
		vstat.Class("crash-marker-not-reached", 1)
		if survey {
			var ms []string
			for _, m := range o.markers {
				ms = append(ms, fmt.Sprintf("op%d:%s", m.Op, m.crashSel))
			}
			surveyOnce("not-reached", fmt.Sprintf("sel=%v\nhistory: %v\nmarkers of re-run: %s\nserver saw: %s", sel, h, strings.Join(ms, " "), logString(o)))
		}
	}
	vs := evaluate(h, o)
	for _, v := range vs {
		crash := "none"
		if sel != nil {
			crash = sel.String()
		}
		if survey {
			// development aid (VERIF_C08_SURVEY=1): tally signatures instead of failing
			vstat.Class("survey:"+v.sig, 1)
			surveyOnce(v.sig, fmt.Sprintf("%s\ncrash point: %s\nhistory: %v\nserver saw: %s", v.msg, crash, h, logString(o)))
			continue
		}
		vstat.Fail(t, v.sig, "%s\ncrash point: %s\nhistory: %v\nserver saw: %s", v.msg, crash, h, logString(o))
	}
	cls := []string{"mode:" + mode}
	ntCrash := sel != nil && o.fired && betweenPersistAndTransmit(sel)
	if o.stopDown {
		cls = append(cls, "nt:outage-overlaps-stop")
	}
	if ntCrash {
		cls = append(cls, "nt:crash-between-persist-and-transmit")
	}
	if o.big {
		cls = append(cls, "nt:counter>2^32")
	}
	if sel != nil && o.fired {
		cls = append(cls, "crash-site:"+sel.Site)
	}
	hasG, hasC, hasUn := false, false, false
	for _, op := range h.Ops {
		hasG = hasG || op.K == "graceful"
		hasC = hasC || op.K == "crash"
	}
	for i, st := range o.sess {
		_ = i
		if !st.startCalled {
			hasUn = true
		}
	}
	if hasG {
		cls = append(cls, "has:graceful-restart")
	}
	if hasC {
		cls = append(cls, "has:crash-op")
	}
	if hasUn {
		cls = append(cls, "has:unstarted-session")
	}
	if len(vs) > 0 {
		cls = append(cls, "hit-known-finding")
	} else {
		cls = append(cls, "clean")
	}
	if len(h.Plan) > 0 {
		cls = append(cls, "has:outage-pattern")
	}
	// a Start was rejected or lost (the shape the generator draws less often while KF-C08-4/5 are listed)
	startFailed := false
	for _, e := range o.log {
		startFailed = startFailed || (e.Type == tStart && !e.Accepted)
	}
	for _, sr := range o.sends {
		startFailed = startFailed || (sr.Site == "start" && sr.Lost)
	}
	if startFailed {
		cls = append(cls, "has:start-failed")
	}
	for _, v := range vs {
		cls = append(cls, "sig:"+v.sig) // share of runs per signature (listed ones included)
	}
	// observed, not asserted (the statement orders Stop against Start only): an Interim-Update accepted after
	// the session's Stop — a queued interim retried late, or one still travelling when the Stop was sent
	stopAt, obsSeen := map[string]int{}, map[string]bool{}
	for _, e := range o.log {
		if e.Type == tStop && e.Accepted {
			if _, ok := stopAt[e.SID]; !ok {
				stopAt[e.SID] = e.Seq
			}
		}
		if at, ok := stopAt[e.SID]; ok && e.Type == tInterim && e.Accepted && e.Seq > at {
			how := "obs:interim-accepted-after-stop/queued-retry"
			if e.Send != nil && e.Send.Site == "interim" {
				how = "obs:interim-accepted-after-stop/in-flight"
			}
			if !obsSeen[how] {
				obsSeen[how] = true
				cls = append(cls, how)
			}
			stopAt[e.SID] = 1 << 30 // once per session
		}
	}
	lc, slowRetry, lostReq := latencyClasses(o)
	cls = append(cls, lc...)
	if slowRetry {
		cls = append(cls, "nt:retry-in-flight-beyond-base-delay")
	}
	if lostReq {
		cls = append(cls, "nt:request-lost-by-timeout")
	}
	nt := o.stopDown || ntCrash || o.big || slowRetry || lostReq
	hb, _ := json.Marshal(h)
	selS := ""
	if sel != nil {
		selS = sel.String()
	}
	vstat.Case(nt, vstat.Hash(hb, selS), func() any {
		return map[string]any{"history": h.String(), "crash": selS, "records": len(o.log), "markers": len(o.markers)}
	}, cls...)
}

// latencyClasses: which latency classes and slow-server shapes the run actually contained (per case, from
// the sends seen at the dial hook and the records they became).
func latencyClasses(o *outcome) (cls []string, slowRetry, lostReq bool) {
	set := map[string]bool{}
	rejected := map[*sendRec]bool{}
	typ := map[*sendRec]uint32{}
	for _, e := range o.log {
		if e.Send != nil {
			typ[e.Send] = e.Type
			if !e.Accepted {
				rejected[e.Send] = true
			}
		}
	}
	any := false
	for _, s := range o.sends {
		if s.LatMs > 0 {
			any = true
		}
		lost := s.Lost && s.LatMs >= clientTimeoutMs
		set[latClass(s.LatMs, lost)] = true
		if s.LatMs > 0 {
			set["lat-on:"+s.Site] = true
		}
		if lost {
			lostReq = true
		}
		if s.Site == "retry" && !s.Lost && s.End-s.Begin > 1000*time.Millisecond {
			slowRetry = true
			if s.End-s.Begin > 2000*time.Millisecond {
				set["slow:retry-in-flight>base+tick"] = true
			}
			if typ[s] == tStop {
				set["slow:queued-stop-in-flight>base"] = true
			}
			// another record failed (rejected or lost) and was queued while this attempt occupied the processor
			for _, q := range o.sends {
				if q != s && q.Epoch == s.Epoch && q.Site != "retry" && (rejected[q] || q.Lost) && q.End > s.Begin && q.End < s.End {
					set["slow:record-queued-while-retry-in-flight"] = true
				}
			}
		}
		if s.Site == "interim" && !s.Lost && s.End > s.Begin {
			for _, q := range o.sends {
				if q.SID == s.SID && (q.Site == "stop" || q.Site == "drain") && q.Begin >= s.Begin && q.Begin < s.End {
					set["slow:stop-while-interim-in-flight"] = true
				}
			}
		}
	}
	if any {
		set["has:latency"] = true
	}
	if slowRetry {
		set["slow:retry-in-flight>base"] = true
	}
	for k := range set {
		cls = append(cls, k)
	}
	sort.Strings(cls)
	return cls, slowRetry, lostReq
}

func uniqueMarkers(ms []markerRec) []crashSel {
	seen := map[crashSel]bool{}
	var out []crashSel
	for _, m := range ms {
		if !seen[m.crashSel] {
			seen[m.crashSel] = true
			out = append(out, m.crashSel)
		}
	}
	return out
}

// TestPropHistories: crash-free histories with outages, 64-bit counters, graceful stop + restart.
// Decides clauses (1) (2) (3, no crash) (4) (5).
func TestPropHistories(t *testing.T) {
	vstat.Checks(1000, 20000)
	rapid.Check(t, func(rt *rapid.T) {
		h := genHistory(rt, genMode{graceful: true, maxOps: 12, latPct: 50})
		judge(rt, h, nil, execute(t, h, nil), "no-crash")
	})
}

// TestPropCounters: counter-heavy histories (interims on, values around 2^32 and 2^64-1).
func TestPropCounters(t *testing.T) {
	vstat.Checks(600, 10000)
	rapid.Check(t, func(rt *rapid.T) {
		h := genHistory(rt, genMode{graceful: true, maxOps: 10, bigCtrs: true, latPct: 30})
		h.Cfg.Interim, h.Cfg.InterimS = true, 10
		judge(rt, h, nil, execute(t, h, nil), "counters")
	})
}

// TestPropCrashOps: a crash (kill without drain/persist) at quiescent points between operations,
// then restart on the same directory.  Needs no markers inside accounting.go.
func TestPropCrashOps(t *testing.T) {
	vstat.Checks(1000, 20000)
	rapid.Check(t, func(rt *rapid.T) {
		h := genHistory(rt, genMode{graceful: true, crashOps: true, maxOps: 12, latPct: 50})
		judge(rt, h, nil, execute(t, h, nil), "crash-op")
	})
}

// TestPropSlowServer: histories against a slow RADIUS server — every history carries per-request latencies
// (virtual time) weighted to the region between RetryBaseDelay + one retry tick and the client timeout, with
// Stops that fail first so that records sit in the retry queue while other sends are in flight.  Decides
// clause (2) for the retry queue's two delivery paths (channel, ticker) and clauses (1) (3) under latency.
func TestPropSlowServer(t *testing.T) {
	vstat.Checks(1200, 12000)
	rapid.Check(t, func(rt *rapid.T) {
		h := genHistory(rt, genMode{graceful: true, maxOps: 12, latPct: 100, slow: true})
		judge(rt, h, nil, execute(t, h, nil), "slow-server")
	})
}

// TestPropSlowServerCrashOps: the same with crashes at quiescent points (requests travelling at the moment of
// the crash are dropped with the process).
func TestPropSlowServerCrashOps(t *testing.T) {
	vstat.Checks(800, 8000)
	rapid.Check(t, func(rt *rapid.T) {
		h := genHistory(rt, genMode{graceful: true, crashOps: true, maxOps: 12, latPct: 100, slow: true})
		judge(rt, h, nil, execute(t, h, nil), "slow-server-crash-op")
	})
}

// crashEnum: dry-run the history to learn its crash-point markers, then re-run it once per marker
// with the process crashing exactly there (fault enumeration over the generated history).
func crashEnum(t *testing.T, rt *rapid.T, m genMode, mode string) {
	h := genHistory(rt, m)
	dry := execute(t, h, nil)
	judge(rt, h, nil, dry, mode+"-dry")
	ms := uniqueMarkers(dry.markers)
	vstat.Class("crash-points-enumerated", int64(len(ms)))
	for i := range ms {
		sel := ms[i]
		judge(rt, h, &sel, execute(t, h, &sel), mode)
	}
}

func markersOrSkip(t *testing.T) bool {
	if radius.VerifMarkersCompiledIn() {
		vstat.Note("crash_markers", "compiled in: crash at every persistence/transmit marker is enumerated")
		return true
	}
	vstat.Note("crash_markers", "NOT compiled in (fixes/C08-hook-markers.patch not applied to the tree under test): crash-point enumeration skipped; crashes are injected only at quiescent points between operations")
	t.Log("crash markers not compiled in; enumeration skipped")
	return false
}

// TestPropCrashEnum: crash at every marker of short histories without restarts in the history itself.
func TestPropCrashEnum(t *testing.T) {
	if !markersOrSkip(t) {
		return
	}
	vstat.Checks(80, 1500)
	rapid.Check(t, func(rt *rapid.T) {
		crashEnum(t, rt, genMode{maxOps: 8, fewAdv: true, latPct: 35}, "crash-enum")
	})
}

// TestPropCrashEnumRestarts: the same, over histories that also contain graceful stop + restart and
// crash ops, so that markers inside Stop()/drain and inside recovery are crash points too.
func TestPropCrashEnumRestarts(t *testing.T) {
	if !markersOrSkip(t) {
		return
	}
	vstat.Checks(70, 1200)
	rapid.Check(t, func(rt *rapid.T) {
		crashEnum(t, rt, genMode{graceful: true, crashOps: true, maxOps: 7, fewAdv: true, noInterim: true, restarts: true, latPct: 35}, "crash-enum-restarts")
	})
}

// --- replay of saved JSON cases (./check C08 --replay <file.json>) ---------------------------------

type savedCase struct {
	History *history  `json:"history"`
	Crash   *crashSel `json:"crash,omitempty"`
}

func TestReplayFile(t *testing.T) {
	p := os.Getenv("VERIF_REPLAY_FILE")
	var files []string
	if p != "" {
		files = []string{p}
	} else if d := os.Getenv("VERIF_REPLAYS"); d != "" {
		files, _ = filepath.Glob(filepath.Join(d, "*.json"))
	}
	for _, f := range files {
		b, err := os.ReadFile(f)
		if err != nil {
			t.Fatalf("INCONCLUSIVE cannot read %s: %v", f, err)
		}
		var c savedCase
		if err := json.Unmarshal(b, &c); err != nil || c.History == nil {
			t.Fatalf("INCONCLUSIVE %s is not a C08 case: %v", f, err)
		}
		if c.Crash != nil && !radius.VerifMarkersCompiledIn() {
			t.Logf("%s needs crash markers; skipped", f)
			continue
		}
		judge(t, c.History, c.Crash, execute(t, c.History, c.Crash), "replay-file")
	}
	_ = fmt.Sprint
}
