package c08

import (
	"fmt"

	"github.com/codelaboratoryltd/bng/pkg/radius"
	"pgregory.net/rapid"

	"bngverif/internal/vstat"
)

type genMode struct {
	graceful  bool // allow gracefulStop+restart ops
	crashOps  bool // allow crash ops at quiescent points
	maxOps    int
	bigCtrs   bool // counters-focused histories
	fewAdv    bool // keep advances short (crash enumeration: fewer markers)
	noInterim bool
	restarts  bool // bias towards gracefulStop/crash ops and outages around them
	latPct    int  // percentage of histories that carry request latencies (virtual time, latency_test.go)
	slow      bool // slow-server histories: latencies weighted to > RetryBaseDelay + tick, records queued around them
}

// latency values (ms) by class, relative to RetryBaseDelay = 1 s, the 1 s retry tick and the 3 s client timeout
var (
	latSub  = []int{1, 300, 999}      // below the base delay
	latMid  = []int{1001, 1500, 1999} // above the base delay, inside base + one tick
	latHigh = []int{2001, 2500, 2999} // beyond base + one tick, just inside the client timeout
	latLost = []int{3001, 5001}       // beyond the client timeout (beyond the manager's 5 s context): lost
)

// genLat draws the latencies of the first sends of one (session, kind) stream; later sends travel in no time.
func genLat(rt *rapid.T, label string, slow bool) []int {
	n := rapid.IntRange(1, 4).Draw(rt, label+"N")
	out := make([]int, 0, n)
	for i := 0; i < n; i++ {
		c := rapid.IntRange(0, 9).Draw(rt, label+"Class")
		if slow { // 0 | sub | mid mid | high x5 | lost
			c = []int{0, 3, 4, 4, 6, 6, 6, 6, 6, 9}[c]
		}
		switch {
		case c <= 2:
			out = append(out, 0)
		case c == 3:
			out = append(out, rapid.SampledFrom(latSub).Draw(rt, label))
		case c <= 5:
			out = append(out, rapid.SampledFrom(latMid).Draw(rt, label))
		case c <= 8:
			out = append(out, rapid.SampledFrom(latHigh).Draw(rt, label))
		default:
			out = append(out, rapid.SampledFrom(latLost).Draw(rt, label))
		}
	}
	return out
}

var edge64 = []uint64{0, 1, 1<<32 - 1, 1 << 32, 1<<32 + 1, 1<<33 + 5, 1<<63 - 1, 1 << 63, 1<<64 - 1, 1<<64 - 2, 0xFFFFFFFF00000000, 0x00000001FFFFFFFF}

func genCounter(rt *rapid.T, label string) uint64 {
	switch rapid.IntRange(0, 9).Draw(rt, label+"Kind") {
	case 0, 1, 2, 3:
		return rapid.SampledFrom(edge64).Draw(rt, label+"Edge")
	case 4, 5:
		return rapid.Uint64().Draw(rt, label)
	case 6:
		return uint64(rapid.Uint32().Draw(rt, label)) // below 2^32: no gigaword attribute
	case 7:
		return uint64(rapid.IntRange(1, 0xFFFF).Draw(rt, label+"Giga"))<<32 | uint64(rapid.Uint32().Draw(rt, label+"Low"))
	default:
		return uint64(rapid.IntRange(0, 100000).Draw(rt, label))
	}
}

// genPattern draws the per-request up/down pattern of one (session, type) stream.
func genPattern(rt *rapid.T, label string, pNonEmptyPct int) []bool {
	if rapid.IntRange(0, 99).Draw(rt, label+"Has") >= pNonEmptyPct {
		return nil
	}
	n := rapid.IntRange(1, 4).Draw(rt, label+"Downs")
	p := make([]bool, 0, n+2)
	for i := 0; i < n; i++ {
		p = append(p, true)
	}
	if rapid.IntRange(0, 3).Draw(rt, label+"Tail") == 0 {
		p = append(p, false, true)
	}
	return p
}

func genHistory(rt *rapid.T, m genMode) *history {
	h := &history{Plan: map[string][]bool{}}
	withLat := m.latPct > 0 && rapid.IntRange(0, 99).Draw(rt, "withLat") < m.latPct
	pct := func(normal, slow int) int {
		if m.slow {
			return slow
		}
		return normal
	}
	addLat := func(sid string) {
		for _, k := range []struct {
			kind string
			pct  int
		}{{"d", pct(35, 30)}, {"r", pct(60, 85)}, {"i", pct(30, 40)}} {
			if rapid.IntRange(0, 99).Draw(rt, "lat"+k.kind+"Has") < k.pct {
				if h.Lat == nil {
					h.Lat = map[string][]int{}
				}
				h.Lat[sid+"|"+k.kind] = genLat(rt, "lat"+k.kind, m.slow)
			}
		}
	}
	h.Cfg = cfgSpec{
		MaxRetries: rapid.SampledFrom([]int{3, 3, 4, 6, 10}).Draw(rt, "maxRetries"),
		MaxDelayS:  rapid.SampledFrom([]int{2, 4, 8, 60}).Draw(rt, "maxDelay"),
		Interim:    !m.noInterim && rapid.IntRange(0, 4).Draw(rt, "interimOn") > 0,
		InterimS:   rapid.SampledFrom([]int{10, 10, 20, 60}).Draw(rt, "interimS"),
		Drain:      rapid.IntRange(0, 4).Draw(rt, "drain") > 0,
		DownCode:   rapid.SampledFrom([]int{3, 2, 11, 42}).Draw(rt, "downCode"), // Access-Reject, Access-Accept, Access-Challenge, Disconnect-NAK
	}
	if m.slow && h.Cfg.Interim {
		h.Cfg.InterimS = 10 // interims at every check tick: they overlap stops and other sends more often
	}
	if m.fewAdv && h.Cfg.MaxDelayS > 8 {
		h.Cfg.MaxDelayS = 8
	}
	if m.fewAdv && h.Cfg.MaxRetries > 6 {
		h.Cfg.MaxRetries = 6
	}
	n := rapid.IntRange(1, 3).Draw(rt, "nSessions")
	tag := rapid.StringMatching(`[a-z0-9]{3}`).Draw(rt, "idTag")
	macBase := rapid.SliceOfN(rapid.Byte(), 6, 6).Draw(rt, "macBase")
	ipBase := rapid.SliceOfN(rapid.Byte(), 4, 4).Draw(rt, "ipBase")
	// the Start stream of a session fails rarely once the stop-before-start findings are listed
	startPct := 40
	if vstat.IsListed("C08/stop-before-start/start-failed-earlier") || vstat.IsListed("C08/stop-without-start/after-crash") {
		startPct = 12
	}
	for i := 0; i < n; i++ {
		sp := sessSpec{ID: fmt.Sprintf("sess-%s-%d", tag, i)}
		sp.User = rapid.SampledFrom([]string{"alice", "bob", "02:00:5e:10:00:0", "user@realm", "u"}).Draw(rt, "user") + fmt.Sprint(i)
		sp.MAC = append([]byte(nil), macBase...)
		sp.MAC[5] = macBase[5] + byte(i)
		sp.IP = append([]byte(nil), ipBase...)
		sp.IP[0] = 10
		sp.IP[3] = ipBase[3] + byte(i)
		if rapid.IntRange(0, 3).Draw(rt, "hasClass") > 0 {
			sp.Class = append(rapid.SliceOfN(rapid.Byte(), 1, 6).Draw(rt, "class"), byte(i))
		}
		if m.bigCtrs || rapid.Bool().Draw(rt, "ctr0") {
			sp.In0, sp.Out0 = genCounter(rt, "in0"), genCounter(rt, "out0")
		}
		h.Sess = append(h.Sess, sp)
		if p := genPattern(rt, "patStart", startPct); p != nil {
			h.Plan[planKey(sp.ID, tStart)] = p
		}
		if p := genPattern(rt, "patStop", pct(50, 70)); p != nil {
			h.Plan[planKey(sp.ID, tStop)] = p
		}
		if p := genPattern(rt, "patInterim", 30); p != nil {
			h.Plan[planKey(sp.ID, tInterim)] = p
		}
		if withLat && radius.VerifMarkersCompiledIn() {
			addLat(sp.ID)
		}
	}
	if withLat && !radius.VerifMarkersCompiledIn() {
		addLat("*") // without the markers the sending session is unknown: one stream per kind
	}
	hz := h.Cfg.horizon()
	deltas := []int{1, 1, 2, 3, 5, 10, 11, 21, hz}
	if m.fewAdv {
		deltas = []int{1, 1, 2, 3, 5, 11}
	}
	nOps := rapid.IntRange(2, m.maxOps).Draw(rt, "nOps")
	started := make([]bool, n)
	active := make([]bool, n)
	h.Ops = append(h.Ops, op{K: "start", S: 0})
	started[0], active[0] = true, true
	pick := func(cond func(int) bool) (int, bool) {
		var c []int
		for i := 0; i < n; i++ {
			if cond(i) {
				c = append(c, i)
			}
		}
		if len(c) == 0 {
			return 0, false
		}
		return rapid.SampledFrom(c).Draw(rt, "sess"), true
	}
	for len(h.Ops) < nOps {
		kinds := []string{"advance", "advance", "advance", "counters", "counters", "outage"}
		if _, ok := pick(func(i int) bool { return !started[i] }); ok {
			kinds = append(kinds, "start", "start", "start")
		}
		if _, ok := pick(func(i int) bool { return active[i] }); ok {
			kinds = append(kinds, "stop", "stop", "stop", "stop")
		}
		kinds = append(kinds, "stop-any")
		if m.graceful {
			kinds = append(kinds, "graceful")
		}
		if m.crashOps {
			kinds = append(kinds, "crash", "crash")
		}
		if m.restarts {
			kinds = append(kinds, "graceful", "graceful", "crash", "outage")
		}
		if m.bigCtrs {
			kinds = append(kinds, "counters", "counters", "advance")
		}
		if withLat {
			kinds = append(kinds, "slow", "pause")
		}
		switch k := rapid.SampledFrom(kinds).Draw(rt, "op"); k {
		case "advance":
			h.Ops = append(h.Ops, op{K: "advance", D: rapid.SampledFrom(deltas).Draw(rt, "delta")})
		case "counters":
			s := rapid.IntRange(0, n-1).Draw(rt, "sess")
			h.Ops = append(h.Ops, op{K: "counters", S: s, In: genCounter(rt, "in"), Out: genCounter(rt, "out")})
		case "outage":
			h.Ops = append(h.Ops, op{K: "outage", On: rapid.IntRange(0, 2).Draw(rt, "on") > 0})
		case "slow": // every request travels at least this long from now on (0 = back to the per-stream plan)
			h.Ops = append(h.Ops, op{K: "slow", D: rapid.SampledFrom([]int{0, 0, 300, 1500, 2500, 2999, 3001}).Draw(rt, "slowMs")})
		case "pause": // sub-second advance: shifts the phase of later operations against the 1 s retry tick
			h.Ops = append(h.Ops, op{K: "pause", D: rapid.SampledFrom([]int{100, 500, 900}).Draw(rt, "pauseMs")})
		case "start":
			s, _ := pick(func(i int) bool { return !started[i] })
			started[s], active[s] = true, true
			h.Ops = append(h.Ops, op{K: "start", S: s})
		case "stop":
			s, _ := pick(func(i int) bool { return active[i] })
			active[s] = false
			h.Ops = append(h.Ops, op{K: "stop", S: s, Cause: uint32(rapid.IntRange(0, 18).Draw(rt, "cause"))})
		case "stop-any": // includes sessions never started / already stopped / belonging to a previous incarnation
			s := rapid.IntRange(0, n-1).Draw(rt, "sess")
			active[s] = false
			h.Ops = append(h.Ops, op{K: "stop", S: s, Cause: uint32(rapid.IntRange(1, 18).Draw(rt, "cause"))})
		case "graceful", "crash":
			for i := range active {
				active[i] = false
			}
			h.Ops = append(h.Ops, op{K: k, D: rapid.SampledFrom([]int{0, 0, 1, 7}).Draw(rt, "downtime")})
		}
	}
	return h
}
