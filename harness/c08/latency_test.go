package c08

// Request latency in VIRTUAL time, on the real transport.
//
// pkg/radius sends every Accounting-Request through layeh's radius.Exchange, i.e.
// through the exported radius.DefaultClient, whose net.Dialer is an exported field.
// Dialer.ControlContext runs on the sending goroutine (inside the synctest bubble)
// after the UDP socket has been created and before it is connected and written to.
// Sleeping there on a timer is a durable block, so virtual time advances while the
// "request is travelling": SendAccounting takes d virtual seconds, the retry ticker,
// the back-off and the client timeout all run against it, and nothing waits in a
// network read (DESIGN §1.5: the scripted server still answers at once, the latency
// sits on the request path).  A latency >= the client timeout ends with the
// context's own error before anything is written: the request is silently lost and
// the client gives up exactly at its timeout — the one failure mode the bubble could
// not express before.
//
// Nothing of the code under test is replaced: the real Client.SendAccounting, the
// real layeh Exchange, a real UDP socket on loopback, the real scripted server.
//
// Which latency a send gets is a function of the generated plan keyed by
// (Acct-Session-Id, kind of call site), not of arrival order.  The session id comes
// from the crash-point marker the same goroutine passed just before SendAccounting
// (verifCrashPoint("<site>.send.before", id)), the call site from the goroutine's
// stack.  The hook also binds the socket to 127.0.0.1:0 itself so that it knows the
// source port: that links every record the server logs to the send it came from
// (site, begin, end), which is what the violation signatures are classified by.

import (
	"context"
	"errors"
	"runtime"
	"strings"
	"syscall"
	"time"

	lradius "layeh.com/radius"
)

const clientTimeoutMs = 3000

// sendRec is one SendAccounting as seen at the dial hook.
type sendRec struct {
	Site  string // start stop interim retry drain recover (from the stack)
	Path  string // for retry: "ticker" (retryPendingRecords) or "channel" (pendingQueue); otherwise = Site
	SID   string // "*" when the tree under test has no crash markers
	Port  int    // UDP source port, 0 if the bind failed
	Begin time.Duration
	End   time.Duration // when the request was handed to the socket (= when the server saw it), or given up
	LatMs int
	Lost  bool // never reached the socket: latency >= client timeout, context cancelled, process dead
	Epoch int
	used  bool
}

var errDeadProcess = errors.New("c08: the process has crashed")

func goid() uint64 {
	var b [48]byte
	n := runtime.Stack(b[:], false)
	// "goroutine 123 [running, synctest bubble 1]:"
	f := strings.Fields(string(b[:n]))
	var id uint64
	if len(f) >= 2 {
		for _, c := range f[1] {
			if c < '0' || c > '9' {
				return 0
			}
			id = id*10 + uint64(c-'0')
		}
	}
	return id
}

// callSite names the accounting call site and retry path of the calling goroutine.
func callSite() (site, path string) {
	var pcs [64]uintptr
	n := runtime.Callers(2, pcs[:])
	fr := runtime.CallersFrames(pcs[:n])
	viaTicker, viaProcessor := false, false
	for {
		f, more := fr.Next()
		fn := f.Function
		if strings.Contains(fn, "bng/pkg/radius.") {
			switch {
			case strings.Contains(fn, "sendAccountingStopSync"):
				site = first(site, "drain")
			case strings.Contains(fn, "sendAccountingStop"):
				site = first(site, "stop")
			case strings.Contains(fn, "sendInterimUpdate"):
				site = first(site, "interim")
			case strings.Contains(fn, "recoverOrphanedSessions"):
				site = first(site, "recover")
			case strings.Contains(fn, "processPendingRecord"):
				site = first(site, "retry")
			case strings.Contains(fn, ").StartSession"):
				site = first(site, "start")
			case strings.Contains(fn, "retryPendingRecords"):
				viaTicker = true
			case strings.Contains(fn, "pendingRecordProcessor"):
				viaProcessor = true
			}
		}
		if !more {
			break
		}
	}
	if site == "" {
		site = "other"
	}
	path = site
	if site == "retry" {
		switch {
		case viaTicker:
			path = "ticker"
		case viaProcessor:
			path = "channel"
		}
	}
	return site, path
}

func first(a, b string) string {
	if a != "" {
		return a
	}
	return b
}

func latKind(site string) string {
	switch site {
	case "retry":
		return "r"
	case "interim":
		return "i"
	}
	return "d"
}

// noteSend is called from the crash-marker hook for every "<site>.send.before" marker.
func (r *runner) noteSend(sid string) {
	if g := goid(); g != 0 {
		r.pendingSend[g] = sid // caller holds r.mu
	}
}

// control is the Dialer.ControlContext of layeh's DefaultClient while a case runs.
func (r *runner) control(ctx context.Context, network, address string, c syscall.RawConn) error {
	if !strings.HasSuffix(address, r.srvAddrSuffix) {
		return nil
	}
	site, path := callSite()
	g := goid()
	r.mu.Lock()
	sid, ok := r.pendingSend[g]
	delete(r.pendingSend, g)
	if !ok {
		sid = "*"
	}
	dead, deadCh, epoch := r.dead, r.deadCh, r.epoch
	r.mu.Unlock()
	if dead {
		return errDeadProcess // a crashed process sends nothing
	}
	sr := &sendRec{Site: site, Path: path, SID: sid, Epoch: epoch, Begin: time.Since(r.t0)}
	ms, lost := r.srv.latency(sid, latKind(site))
	sr.LatMs = ms
	_ = c.Control(func(fd uintptr) {
		if err := syscall.Bind(int(fd), &syscall.SockaddrInet4{Addr: [4]byte{127, 0, 0, 1}}); err != nil {
			return
		}
		if sa, err := syscall.Getsockname(int(fd)); err == nil {
			if in4, ok := sa.(*syscall.SockaddrInet4); ok {
				sr.Port = in4.Port
			}
		}
	})
	r.mu.Lock()
	r.sends = append(r.sends, sr)
	r.mu.Unlock()
	finish := func(err error) error {
		r.mu.Lock()
		sr.End = time.Since(r.t0)
		if err != nil {
			sr.Lost = true
		}
		r.mu.Unlock()
		return err
	}
	if ms > 0 {
		tm := time.NewTimer(time.Duration(ms) * time.Millisecond)
		defer tm.Stop()
		select {
		case <-tm.C:
		case <-ctx.Done(): // the client's own timeout (or the manager's cancel): the request never left
			return finish(ctx.Err())
		case <-deadCh:
			return finish(errDeadProcess)
		}
	}
	if lost { // cannot happen (the timeout fires first); kept so that "lost" never reaches the server
		return finish(context.DeadlineExceeded)
	}
	if r.isDead() {
		return finish(errDeadProcess)
	}
	select {
	case <-ctx.Done():
		return finish(ctx.Err())
	default:
	}
	return finish(nil)
}

func (r *runner) installLatency() {
	r.srvAddrSuffix = ":" + itoa(r.srv.port())
	lradius.DefaultClient.Dialer.ControlContext = r.control
}

func uninstallLatency() { lradius.DefaultClient.Dialer.ControlContext = nil }

func itoa(n int) string {
	if n == 0 {
		return "0"
	}
	s := ""
	for n > 0 {
		s = string(rune('0'+n%10)) + s
		n /= 10
	}
	return s
}

// linkSends attaches to every server record the send it came from (same UDP source port, in order).
func linkSends(log []rec, sends []*sendRec) {
	for i := range log {
		for _, s := range sends {
			if !s.used && !s.Lost && s.Port != 0 && s.Port == log[i].Port {
				s.used = true
				log[i].Send = s
				break
			}
		}
	}
}

// dupShape classifies a Stop that was sent again within one run: who sent the later copy, and was the
// earlier copy still in flight (two concurrent sends of a record that is still pending) or already
// acknowledged to the client.
func dupShape(a, b rec) string {
	if a.Send == nil || b.Send == nil {
		return "unclassified"
	}
	x, y := a.Send, b.Send // x began first
	if y.Begin < x.Begin {
		x, y = y, x
	}
	if y.Begin < x.End {
		return y.Path + "-resends-in-flight-record"
	}
	return y.Path + "-resends-acknowledged-record"
}

func latClass(ms int, lost bool) string {
	switch {
	case lost:
		return "lat:lost(>=client-timeout)"
	case ms == 0:
		return "lat:0"
	case ms < 1000:
		return "lat:<retry-base-delay"
	case ms <= 2000:
		return "lat:base..base+tick"
	default:
		return "lat:>base+tick,<timeout"
	}
}
