package c12

import (
	"testing"

	"bngverif/internal/vstat"
)

func TestMain(m *testing.M) { vstat.Main(m, "C12") }
