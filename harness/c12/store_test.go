package c12

// fstore: the harness's own implementation of allocator.Store (DESIGN §2 C12).
//
//   * contents are an ordered log (insertion order; an overwrite keeps its place);
//   * Query returns the matching records in an explicitly supplied order (a
//     generated permutation) - the real stores iterate a Go map;
//   * every Get/Put/Delete/Query is a numbered "store operation": operation n can
//     be scheduled to fail (no effect, error returned), and the store can be told
//     to freeze after operation k (the node stops there: nothing later persists);
//   * watch callbacks - including the echo of the node's own writes, which both
//     real stores (nexus.MemoryStore, nexus.DistributedStore) hand to `go cb(...)`
//     and therefore deliver asynchronously and in no particular order - are
//     queued and delivered only by explicit deliver() calls.

import (
	"context"
	"encoding/json"
	"errors"
	"fmt"
	"sort"
	"strings"
	"sync"

	"github.com/codelaboratoryltd/bng/pkg/allocator"
)

var (
	errInjected = errors.New("injected store failure")
	errStopped  = errors.New("node stopped")
	errNotFound = errors.New("key not found")
)

type rec struct {
	key string
	val []byte
}

type event struct {
	key     string
	val     []byte
	deleted bool
	remote  bool // written by another node (true) or echo of this node's own write (false)
	seq     int
}

type watcher struct {
	prefix string
	cb     func(key string, value []byte, deleted bool)
}

type fstore struct {
	mu       sync.Mutex
	recs     []rec
	watchers []watcher
	pending  []event
	nops     int          // store operations performed so far
	failAt   map[int]bool // operation numbers (1-based) that fail
	stopAt   int          // freeze after this operation completed (0 = never)
	frozen   bool
	order    []int // ranking used by Query: record at log position i sorts by order[i%len(order)]
	evseq    int
	// bookkeeping for signatures
	lastFailed     []string // store ops that failed since clearFailed()
	lastFailedKeys []string // the same as "<op> <key>"
	oplog          []string
}

func newFstore(contents []rec, order []int) *fstore {
	s := &fstore{order: order, failAt: map[int]bool{}}
	for _, r := range contents {
		s.recs = append(s.recs, rec{r.key, append([]byte(nil), r.val...)})
	}
	return s
}

func (s *fstore) snapshot() []rec {
	s.mu.Lock()
	defer s.mu.Unlock()
	out := make([]rec, len(s.recs))
	for i, r := range s.recs {
		out[i] = rec{r.key, append([]byte(nil), r.val...)}
	}
	return out
}

// begin numbers the operation; returns an error if it must not take effect.
func (s *fstore) begin(name, key string) error {
	if s.frozen {
		return errStopped
	}
	s.nops++
	s.oplog = append(s.oplog, fmt.Sprintf("#%d %s %s", s.nops, name, key))
	if s.failAt[s.nops] {
		s.lastFailed = append(s.lastFailed, name)
		s.lastFailedKeys = append(s.lastFailedKeys, name+" "+key)
		s.end()
		return errInjected
	}
	return nil
}

func (s *fstore) end() {
	if s.stopAt != 0 && s.nops >= s.stopAt {
		s.frozen = true
	}
}

func (s *fstore) find(key string) int {
	for i := range s.recs {
		if s.recs[i].key == key {
			return i
		}
	}
	return -1
}

func (s *fstore) Get(ctx context.Context, key string) ([]byte, error) {
	s.mu.Lock()
	defer s.mu.Unlock()
	if err := s.begin("get", key); err != nil {
		return nil, err
	}
	defer s.end()
	if i := s.find(key); i >= 0 {
		return append([]byte(nil), s.recs[i].val...), nil
	}
	return nil, errNotFound
}

func (s *fstore) Put(ctx context.Context, key string, value []byte) error {
	s.mu.Lock()
	defer s.mu.Unlock()
	if err := s.begin("put", key); err != nil {
		return err
	}
	defer s.end()
	s.apply(key, value, false, false)
	return nil
}

func (s *fstore) Delete(ctx context.Context, key string) error {
	s.mu.Lock()
	defer s.mu.Unlock()
	if err := s.begin("delete", key); err != nil {
		return err
	}
	defer s.end()
	s.apply(key, nil, true, false)
	return nil
}

// apply changes the contents and queues the watch event (caller holds mu).
func (s *fstore) apply(key string, value []byte, deleted, remote bool) {
	i := s.find(key)
	if deleted {
		if i >= 0 {
			s.recs = append(s.recs[:i], s.recs[i+1:]...)
		}
	} else {
		v := append([]byte(nil), value...)
		if i >= 0 {
			s.recs[i].val = v
		} else {
			s.recs = append(s.recs, rec{key, v})
		}
	}
	for _, w := range s.watchers {
		if strings.HasPrefix(key, w.prefix) {
			s.evseq++
			s.pending = append(s.pending, event{key, append([]byte(nil), value...), deleted, remote, s.evseq})
			break
		}
	}
}

// remoteWrite is a change made by another node: it reaches the local replica
// (contents change) and is announced through the watch.
func (s *fstore) remoteWrite(key string, value []byte, deleted bool) {
	s.mu.Lock()
	defer s.mu.Unlock()
	s.apply(key, value, deleted, true)
}

func (s *fstore) Query(ctx context.Context, prefix string) ([]allocator.KeyValue, error) {
	s.mu.Lock()
	defer s.mu.Unlock()
	if err := s.begin("query", prefix); err != nil {
		return nil, err
	}
	defer s.end()
	type ranked struct {
		r    rec
		rank int
		pos  int
	}
	var rs []ranked
	for i, r := range s.recs {
		if strings.HasPrefix(r.key, prefix) {
			rk := i
			if len(s.order) > 0 {
				rk = s.order[i%len(s.order)]
			}
			rs = append(rs, ranked{r, rk, i})
		}
	}
	sort.SliceStable(rs, func(a, b int) bool { return rs[a].rank < rs[b].rank })
	out := make([]allocator.KeyValue, len(rs))
	for i, x := range rs {
		out[i] = allocator.KeyValue{Key: x.r.key, Value: append([]byte(nil), x.r.val...)}
	}
	return out, nil
}

func (s *fstore) Watch(prefix string, cb func(key string, value []byte, deleted bool)) {
	s.mu.Lock()
	defer s.mu.Unlock()
	s.watchers = append(s.watchers, watcher{prefix, cb})
}

// dropWatchers: the node that registered them is gone; its undelivered events die with it.
func (s *fstore) dropWatchers() {
	s.mu.Lock()
	defer s.mu.Unlock()
	s.watchers = nil
	s.pending = nil
}

func (s *fstore) npending() int {
	s.mu.Lock()
	defer s.mu.Unlock()
	return len(s.pending)
}

// take removes and returns pending event i.
func (s *fstore) take(i int) (event, []watcher) {
	s.mu.Lock()
	defer s.mu.Unlock()
	ev := s.pending[i]
	s.pending = append(s.pending[:i], s.pending[i+1:]...)
	return ev, append([]watcher(nil), s.watchers...)
}

// deliver hands pending event i to the watchers synchronously (the real stores
// use one goroutine per callback; handleRemoteChange serialises on the
// allocator's mutex, so sequential delivery in a chosen order covers exactly
// the observable schedules).
func (s *fstore) deliver(i int) event {
	ev, ws := s.take(i)
	for _, w := range ws {
		if strings.HasPrefix(ev.key, w.prefix) {
			var v []byte
			if !ev.deleted {
				v = append([]byte(nil), ev.val...)
			}
			w.cb(ev.key, v, ev.deleted)
		}
	}
	return ev
}

// pendingFor lists indices of pending events for key (in queue order).
func (s *fstore) pendingFor(key string) []int {
	s.mu.Lock()
	defer s.mu.Unlock()
	var out []int
	for i, e := range s.pending {
		if e.key == key {
			out = append(out, i)
		}
	}
	return out
}

func (s *fstore) pendingCopy() []event {
	s.mu.Lock()
	defer s.mu.Unlock()
	return append([]event(nil), s.pending...)
}

func (s *fstore) clearFailed() []string {
	s.mu.Lock()
	defer s.mu.Unlock()
	f := s.lastFailed
	s.lastFailed = nil
	s.lastFailedKeys = nil
	return f
}

// failedKeys: "<op> <key>" of the store ops that failed since clearFailed() (call before clearFailed).
func (s *fstore) failedKeys() []string {
	s.mu.Lock()
	defer s.mu.Unlock()
	return append([]string(nil), s.lastFailedKeys...)
}

func (s *fstore) seq() int {
	s.mu.Lock()
	defer s.mu.Unlock()
	return s.evseq
}

func (s *fstore) ops() int {
	s.mu.Lock()
	defer s.mu.Unlock()
	return s.nops
}

func (s *fstore) isFrozen() bool {
	s.mu.Lock()
	defer s.mu.Unlock()
	return s.frozen
}

// storedPrefixes parses the records under keyPrefix: subscriber -> prefix (CIDR string as stored).
func storedPrefixes(recs []rec, keyPrefix string) (map[string]string, []string) {
	out := map[string]string{}
	var orderSubs []string
	for _, r := range recs {
		if !strings.HasPrefix(r.key, keyPrefix) {
			continue
		}
		var a struct {
			SubscriberID string `json:"subscriber_id"`
			Prefix       string `json:"prefix"`
		}
		if json.Unmarshal(r.val, &a) != nil {
			continue
		}
		sub := r.key[len(keyPrefix):]
		out[sub] = a.Prefix
		orderSubs = append(orderSubs, sub)
	}
	return out, orderSubs
}
