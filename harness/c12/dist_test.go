package c12

// Restart / replication / store-failure equivalence for allocator.DistributedAllocator.
//
// A case is a fully pre-generated history (so it can be re-executed exactly):
// the runner first executes it once without interference to count the store
// operations N, then re-executes it N times freezing the store after operation
// k (the node stops there) and N times with operation j failing.  At every stop
// point a new allocator is built on the same store contents, for several
// enumeration orders of Query, and compared with the store and with the old
// node's answers.

import (
	"context"
	"encoding/json"
	"fmt"
	"math/big"
	"net"
	"sort"
	"strings"
	"testing"
	"testing/synctest"
	"time"

	"github.com/codelaboratoryltd/bng/pkg/allocator"
	"pgregory.net/rapid"

	"bngverif/internal/pools"
	"bngverif/internal/vstat"
)

// defaultSubs is the historical 6-subscriber alphabet (scheme "token"); every generated case draws its own
// alphabet from pools.GenIDScheme (MAC strings, hex DUIDs, circuit-ids with "/" and ":", ids that are
// prefixes/suffixes/last path elements of each other, ids containing the pool id or the key prefix, unicode,
// 200-byte ids).
var defaultSubs = []string{"s0", "s1", "s2", "s3", "s4", "s5"}

const nSubs = 6

const poolID = "p1"

// siblingPools: ids of OTHER pools whose records live in the same store ("/allocation/<pool>/<subscriber>").
// Their keys must neither be loaded nor watched by the pool under test; "p10" and "p1-b" start with its id.
var siblingPools = []string{"p10", "p1-b", "p10", "p", "P1"}

const keyPrefix = "/allocation/" + poolID + "/"
const epochPeriod = time.Hour

type op struct {
	Kind string // alloc allocMAC renew release advance tick remotePut remoteDel deliver restart
	Sub  int
	Arg  int
}

func (o op) String() string { return fmt.Sprintf("%s(#%d,%d)", o.Kind, o.Sub%nSubs, o.Arg) }

type distCase struct {
	Mode     string // session | lease
	CIDR     string
	Unit     int
	Grace    int
	Ops      []op
	QOrder   []int    // ranking for Query results
	Racy     bool     // deliveries may be late (after later local ops on the key) and out of per-key order
	Exercise bool     // do not steer around listed findings
	Sibling  string   // id of another pool that keeps records in the same store ("" = "p10")
	IDScheme string   // name of the subscriber-id alphabet
	IDs      []string // the alphabet: nSubs distinct ids (nil: defaultSubs)
}

// ids returns the case's subscriber-id alphabet.
func (cs *distCase) ids() []string {
	if len(cs.IDs) == 0 {
		return defaultSubs
	}
	return cs.IDs
}

func (cs *distCase) sub(i int) string { ids := cs.ids(); return ids[i%len(ids)] }

func (cs *distCase) sibling() string {
	if cs.Sibling == "" {
		return "p10"
	}
	return cs.Sibling
}

type violation struct {
	sig string
	msg string
}

func (v *violation) String() string { return v.sig + ": " + v.msg }

type runCfg struct {
	stopAt int
	failAt map[int]bool
}

type runOut struct {
	nops     int
	viol     *violation
	classes  map[string]bool
	stopRecs int // records in the store at the stop point (-1: no stop)
	restarts int
	trace    []string
}

// ---- geometry helpers -------------------------------------------------------

func prefixAt(cidr string, unit int, idx int) *net.IPNet {
	_, pool, _ := net.ParseCIDR(cidr)
	_, bits := pool.Mask.Size()
	off := new(big.Int).Lsh(big.NewInt(int64(idx)), uint(bits-unit))
	base := new(big.Int).SetBytes(pool.IP)
	raw := base.Add(base, off).Bytes()
	ip := make(net.IP, bits/8)
	if len(raw) > len(ip) {
		raw = raw[len(raw)-len(ip):]
	}
	copy(ip[len(ip)-len(raw):], raw)
	return &net.IPNet{IP: ip, Mask: net.CIDRMask(unit, bits)}
}

func poolUnits(cidr string, unit int) int {
	_, pool, _ := net.ParseCIDR(cidr)
	ones, _ := pool.Mask.Size()
	d := unit - ones
	if d > 20 {
		d = 20
	}
	return 1 << d
}

// ---- the node under test ----------------------------------------------------

type node struct {
	cs     *distCase
	st     *fstore
	da     *allocator.DistributedAllocator
	cancel context.CancelFunc
	ctx    context.Context
	out    *runOut

	touched map[string]uint64 // lease: epoch of the last allocate/renew/load the model saw
	expired map[string]bool   // lease: model says the lease ran out (store record may linger)
	// evidence for the listed finding <mode>/after-racy-delivery (KF-C12-5a/5b): which subscribers' memory was
	// changed by an event that was STALE w.r.t. the store when it was delivered (and has not been brought back
	// in line with the store since), and which addresses those events dropped / resurrected
	staleSubs  map[string]string // subscriber -> description of the stale event that changed its memory
	revived    map[string]string // lease: subscriber whose lapsed lease a late echo of its own (still stored) put revived in memory
	staleAddrs map[string]string // address -> subscriber whose stale event dropped / resurrected it
	steer      steering
	// evidence for the listed findings store-duplicate-address/expired-record* (KF-C12-6/6b/7)
	lastTickFailedKeys []string        // "<op> <key>" of the store calls that failed during the most recent epoch-loop tick
	manualAdvance      bool            // the epoch last moved through AdvanceEpoch (no cleanup pass runs then)
	loadTouched        map[string]bool // lease: the in-memory lease stems from a restart's load and was not renewed since
	notUp              bool            // the last Start failed (its load was made to fail): this node never served
	preDisagree        bool            // memory and store disagreed about the call's subscriber before the call began
}

type steering struct {
	leaseRestart bool // lease reload known broken: skip restart comparison
	leaseRemote  bool // lease remote put known broken: no remote puts for new addresses
	racy         bool // late/reordered findings listed: racy only in exercise cases
}

func (n *node) cfg() allocator.DistributedConfig {
	mode := allocator.PoolModeSession
	unit := n.cs.Unit
	if n.cs.Mode == "lease" {
		mode = allocator.PoolModeLease
	}
	return allocator.DistributedConfig{PoolID: poolID, BaseNetwork: n.cs.CIDR, PrefixLen: unit, Mode: mode,
		EpochPeriod: epochPeriod, EpochGrace: n.cs.Grace}
}

func (n *node) effGrace() uint64 {
	if n.cs.Grace <= 0 {
		return 1
	}
	return uint64(n.cs.Grace)
}

func (n *node) lease() bool { return n.cs.Mode == "lease" }

func (n *node) logf(f string, a ...any) { n.out.trace = append(n.out.trace, fmt.Sprintf(f, a...)) }

func (n *node) class(c string) { n.out.classes[c] = true }

// fail reports a violation under its precise signature.
func (n *node) fail(kind, f string, a ...any) *violation {
	return n.failOn(kind, nil, nil, f, a...)
}

// staleKinds: what the recorded root cause of KF-C12-5a/5b (a watch event carrying a stale snapshot is applied
// blindly) can produce: a live allocation dropped from / a released one resurrected in memory (memory != store),
// the dropped address handed to a second subscriber, a current event refused because a ghost holds its address.
var staleKinds = map[string]bool{"store-duplicate-address": true, "mem-store-disagree": true,
	"stop-memory-differs-from-store": true, "remote-put-not-applied": true, "echo-put-not-applied": true}

// failOn: subs / addrs name the subscribers and addresses the violation is about.  It is reported under the
// listed signature <mode>/after-racy-delivery only with evidence that a stale event caused it: the kind is one
// the root cause can produce AND one of the violated subscribers had its memory changed by an event that was
// stale when delivered (and not repaired since), or the violated address is one such an event dropped or
// resurrected.  Anything else noticed in a run that merely contained late / reordered deliveries keeps its
// precise signature.
func (n *node) failOn(kind string, subs, addrs []string, f string, a ...any) *violation {
	sig := "C12/dist-" + n.cs.Mode + "/" + kind
	base := kind
	if i := strings.Index(kind, "/"); i >= 0 {
		base = kind[:i]
	}
	msg := fmt.Sprintf(f, a...)
	if staleKinds[base] {
		why := ""
		for _, s := range subs {
			if d, ok := n.staleSubs[s]; ok && why == "" {
				why = d
			}
		}
		for _, ad := range addrs {
			if o, ok := n.staleSubs[n.staleAddrs[ad]]; ok && ad != "" && why == "" {
				why = "address " + ad + ": " + o
			}
		}
		if why != "" {
			sig = "C12/dist-" + n.cs.Mode + "/after-racy-delivery"
			msg = "[" + kind + " after " + why + "] " + msg
		} else {
			for _, s := range subs {
				if d, ok := n.revived[s]; ok {
					sig = "C12/dist-" + n.cs.Mode + "/after-lapsed-lease-revived-by-late-echo"
					msg = "[" + kind + " after " + d + "] " + msg
					break
				}
			}
		}
	}
	return &violation{sig, msg + "\n  pool " + n.cs.CIDR + fmt.Sprintf(" unit /%d grace %d", n.cs.Unit, n.cs.Grace) +
		"\n  trace: " + strings.Join(n.out.trace, "; ") + "\n  store ops: " + strings.Join(n.st.oplog, ", ")}
}

// failT keeps the precise signature whatever was delivered before (restart comparisons, injected store failures).
func (n *node) failT(kind string, _ bool, f string, a ...any) *violation {
	return n.failOn(kind, nil, nil, f, a...)
}

// markStale records that an event which was stale w.r.t. the store at delivery time changed sub's memory.
func (n *node) markStale(sub, desc string, addrs ...string) {
	n.staleSubs[sub] = desc
	for _, ad := range addrs {
		if ad != "" {
			n.staleAddrs[ad] = sub
		}
	}
	n.class("delivery:stale-applied")
}

// healStale: a subscriber whose memory names the stored address again (re-allocated, released, or a current
// event applied) no longer carries the damage of the stale event.
func (n *node) healStale(st map[string]string) {
	for s := range n.staleSubs {
		if n.get(s) == st[s] {
			delete(n.staleSubs, s)
			for ad, o := range n.staleAddrs {
				if o == s {
					delete(n.staleAddrs, ad)
				}
			}
		}
	}
}

func (n *node) storedEpoch(sub string) (uint64, bool) {
	for _, r := range n.st.snapshot() {
		if r.key == keyPrefix+sub {
			var a struct {
				Epoch uint64 `json:"epoch"`
			}
			if json.Unmarshal(r.val, &a) == nil {
				return a.Epoch, true
			}
		}
	}
	return 0, false
}

func (n *node) get(sub string) string {
	p, ok := n.da.Get(sub)
	if !ok || p == nil {
		return ""
	}
	return p.String()
}

func (n *node) stored() map[string]string {
	m, _ := storedPrefixes(n.st.snapshot(), keyPrefix)
	return m
}

func (n *node) epoch() uint64 { return n.da.GetCurrentEpoch() }

func (n *node) touch(sub string) {
	if n.lease() {
		n.touched[sub] = n.epoch()
		delete(n.expired, sub)
		delete(n.loadTouched, sub)
	}
}

func (n *node) untouch(sub string) {
	delete(n.touched, sub)
	delete(n.expired, sub)
	delete(n.loadTouched, sub)
}

// ageLeases applies the documented expiry rule after the epoch moved.
func (n *node) ageLeases() {
	if !n.lease() {
		return
	}
	cur := n.epoch()
	for s, at := range n.touched {
		if cur-at > n.effGrace() {
			delete(n.touched, s)
			n.expired[s] = true
			n.class("lease-expired")
		}
	}
}

func (n *node) pendingRemoteFor(sub string) bool {
	for _, e := range n.st.pendingCopy() {
		if e.remote && e.key == keyPrefix+sub {
			return true
		}
	}
	return false
}

// checkAgree: memory and store must name the same address for every subscriber
// whose state is settled (no undelivered change from another node, lease not
// run out).  api/failed describe the call that just returned (for the signature).
func (n *node) checkAgree(api, subject string, failed []string, held bool) *violation {
	st := n.stored()
	seen := map[string]string{}
	for _, s := range n.cs.ids() {
		mem := n.get(s)
		if mem != "" {
			if o, dup := seen[mem]; dup {
				return n.fail("duplicate-in-memory", "after %s: Get(%s) and Get(%s) both answer %s", api, o, s, mem)
			}
			seen[mem] = s
			_, pn, err := net.ParseCIDR(mem)
			if err == nil {
				if back, ok := n.da.GetByPrefix(pn); !ok || back != s {
					return n.fail("reverse-lookup-mismatch", "after %s: Get(%s)=%s but GetByPrefix(%s)=%q", api, s, mem, mem, back)
				}
			}
		}
		if n.pendingRemoteFor(s) || n.expired[s] {
			continue
		}
		if s != subject && len(n.st.pendingFor(keyPrefix+s)) > 0 {
			continue // not touched by this call and still has events in flight: judged when they are delivered
		}
		if mem != st[s] {
			if s == subject && len(failed) > 0 && !n.preDisagree {
				kind := "mem-store-disagree/" + api + "-failed-" + strings.Join(failed, "+")
				if held {
					kind += "-held"
				}
				return n.failT(kind, false, "after %s(%s) with failed store ops %v: memory says %s=%q, store says %q", api, subject, failed, s, mem, st[s])
			}
			return n.failOn("mem-store-disagree/"+api, []string{s}, []string{mem, st[s]}, "after %s(%s): memory says %s=%q, store says %q", api, subject, s, mem, st[s])
		}
	}
	n.healStale(st)
	return nil
}

// settleKey delivers queued events, oldest first, until none is left for key.
func (n *node) settleKey(key string) *violation {
	for {
		idx := n.st.pendingFor(key)
		if len(idx) == 0 {
			return nil
		}
		if v := n.deliverAt(0); v != nil { // oldest first, whatever its key: keeps the schedule in order
			return v
		}
	}
}

func (n *node) settleAll() *violation {
	for n.st.npending() > 0 {
		if v := n.deliverAt(0); v != nil {
			return v
		}
	}
	return nil
}

func (n *node) settleRemote() *violation {
	for {
		found := -1
		for i, e := range n.st.pendingCopy() {
			if e.remote {
				found = i
				break
			}
		}
		if found < 0 {
			return nil
		}
		// deliver everything up to and including it, oldest first (keeps order)
		for i := 0; i <= found; i++ {
			if v := n.deliverAt(0); v != nil {
				return v
			}
		}
	}
}

// deliverAt delivers pending event i and checks the replication clause.
func (n *node) deliverAt(i int) *violation {
	pend := n.st.pendingCopy()
	ev := pend[i]
	if !strings.HasPrefix(ev.key, keyPrefix) {
		// an event for another pool's key: this pool did not subscribe to it (the harness store only queues it if
		// the registered watch prefix is wider than the pool's own key prefix); whatever it does to the pool's
		// memory is judged against the pool's own records
		n.st.deliver(i)
		n.logf("deliver#%d(foreign key %s,%s)", ev.seq, ev.key, evDesc(ev))
		n.class("delivery:foreign-key")
		return n.checkAgree("deliver-foreign-key", "", nil, false)
	}
	firstForKey := true
	for j := 0; j < i; j++ {
		if pend[j].key == ev.key {
			firstForKey = false
		}
	}
	// is the event still what the store holds (same address / same absence)?
	cur, has := "", false
	for _, r := range n.st.snapshot() {
		if r.key == ev.key {
			cur, has = recPrefix(r.val), true
		}
	}
	stale := (ev.deleted && has) || (!ev.deleted && (!has || cur != recPrefix(ev.val)))
	// out-of-queue-order delivery is a schedule both real stores can produce (one goroutine per callback); by
	// itself it is no evidence of anything: only a STALE event that changes memory is (below)
	if !firstForKey {
		n.class("delivery:reordered-same-key")
	} else if i != 0 {
		n.class("delivery:reordered-other-key")
	}
	sub := strings.TrimPrefix(ev.key, keyPrefix)
	pre := n.get(sub)
	if strings.Contains(sub, "/") {
		// the handler must take the id from the key as a whole, not its last path element
		if ev.deleted {
			n.class("delivery:delete-event-id-with-slash")
		} else {
			n.class("delivery:put-event-id-with-slash")
		}
	}
	n.st.deliver(i)
	n.logf("deliver#%d(%s,%s,remote=%v)=%s", ev.seq, sub, evDesc(ev), ev.remote, n.get(sub))
	if stale {
		// late: the key was written again after this event was queued.  Harmless if it changed nothing.
		n.class("stale-event-delivered")
		if post := n.get(sub); post != pre {
			n.markStale(sub, fmt.Sprintf("the stale event #%d (%s) for %s was applied while the store held %q: memory %q -> %q", ev.seq, evDesc(ev), sub, cur, pre, post),
				pre, post, recPrefix(ev.val))
			// the model's lease bookkeeping follows what memory did (SetAllocation sets the current generation,
			// Release ends the lease), so that the lease's later expiry is not mistaken for a disagreement
			if post == "" {
				n.untouch(sub)
			} else {
				n.touch(sub)
			}
		}
		return nil
	}
	if !ev.remote {
		// echo of the node's own write that is still what the store holds: the handler cannot tell it from
		// an announcement, and applying it must leave memory naming the stored address
		if !ev.deleted {
			got, want := n.get(sub), recPrefix(ev.val)
			ignoredExpired := n.expired[sub] && got == "" // lease ran out in memory: ignoring the echo is fine
			if got != want && !ignoredExpired {
				return n.failOn("echo-put-not-applied", []string{sub}, []string{got, want}, "delivered the echo of put(%s,%s), which the store still holds; Get(%s) answers %q", sub, want, sub, got)
			}
			if n.expired[sub] && got == want {
				n.touch(sub) // the lease is live again at the current epoch
				// ... in memory only: the stored record keeps its old epoch and the next clean-up pass removes it
				n.revived[sub] = fmt.Sprintf("the late echo #%d of %s's own put revived its lapsed lease in memory; the stored record kept its old epoch", ev.seq, sub)
			} else if _, tracked := n.touched[sub]; !tracked && got == want && got != "" {
				// memory had lost the lease to an earlier (stale) event and this echo put it back: SetAllocation
				// stamps the current epoch, so the model's lease starts now too (otherwise its later, legitimate
				// expiry in memory would be mistaken for a disagreement with the store)
				n.touch(sub)
			}
		}
		return nil
	}
	if ev.deleted {
		if got := n.get(sub); got != "" {
			return n.fail("remote-delete-not-applied", "delivered delete(%s) announced by another node; Get(%s) still answers %s", sub, sub, got)
		}
		n.untouch(sub)
		return nil
	}
	var a struct {
		Prefix string `json:"prefix"`
	}
	_ = json.Unmarshal(ev.val, &a)
	if got := n.get(sub); got != a.Prefix {
		return n.failOn("remote-put-not-applied", []string{sub}, []string{got, a.Prefix}, "delivered put(%s,%s) announced by another node; Get(%s) answers %q", sub, a.Prefix, sub, got)
	}
	if pre == "" {
		n.touch(sub) // a re-announcement for a held address does not renew the local lease: keep the older mark
	}
	return nil
}

func recPrefix(val []byte) string {
	var a struct {
		Prefix string `json:"prefix"`
	}
	_ = json.Unmarshal(val, &a)
	return a.Prefix
}

func evDesc(e event) string {
	if e.deleted {
		return "del"
	}
	var a struct {
		Prefix string `json:"prefix"`
	}
	_ = json.Unmarshal(e.val, &a)
	return "put " + a.Prefix
}

func (n *node) start(st *fstore) error {
	da, err := allocator.NewDistributedAllocator(n.cfg(), st)
	if err != nil {
		return fmt.Errorf("constructor: %w", err)
	}
	ctx, cancel := context.WithCancel(context.Background())
	n.da, n.ctx, n.cancel, n.st = da, ctx, cancel, st
	return da.Start(ctx)
}

func (n *node) stop() {
	if n.cancel != nil {
		n.cancel()
		n.cancel = nil
	}
	if n.lease() {
		synctest.Wait()
	}
}

// freeIdx lists unit indices free in both store and memory (ascending, bounded).
func (n *node) freeIdx() []int {
	used := map[string]bool{}
	for _, p := range n.stored() {
		used[p] = true
	}
	for _, s := range n.cs.ids() {
		if g := n.get(s); g != "" {
			used[g] = true
		}
	}
	for _, e := range n.st.pendingCopy() {
		if !e.deleted {
			var a struct {
				Prefix string `json:"prefix"`
			}
			if json.Unmarshal(e.val, &a) == nil {
				used[a.Prefix] = true
			}
		}
	}
	total := poolUnits(n.cs.CIDR, n.cs.Unit)
	lo, hi := 0, total
	unit := n.cs.Unit
	if n.lease() {
		lo, hi = 1, total-1
		unit = 32 // DistributedAllocator hands out /32 in lease mode
	}
	var out []int
	for i := lo; i < hi && len(out) < 12; i++ {
		p := prefixAt(n.cs.CIDR, n.cs.Unit, i)
		if n.lease() {
			p.Mask = net.CIDRMask(unit, 32)
		}
		if !used[p.String()] {
			out = append(out, i)
		}
	}
	return out
}

func (n *node) unitPrefix(i int) string {
	p := prefixAt(n.cs.CIDR, n.cs.Unit, i)
	if n.lease() {
		p.Mask = net.CIDRMask(32, 32)
	}
	return p.String()
}

func (n *node) remoteRecord(sub, prefix string) []byte {
	b, _ := json.Marshal(allocator.DistributedAllocation{PoolID: poolID, SubscriberID: sub, Prefix: prefix,
		Epoch: n.epoch(), AllocatedAt: time.Unix(1700000000, 0).UTC()})
	return b
}

// ---- executing one history --------------------------------------------------

func runDist(t *testing.T, cs *distCase, rc runCfg) *runOut {
	out := &runOut{classes: map[string]bool{}, stopRecs: -1}
	body := func() {
		n := &node{cs: cs, out: out, touched: map[string]uint64{}, expired: map[string]bool{},
			staleSubs: map[string]string{}, staleAddrs: map[string]string{}, loadTouched: map[string]bool{}, revived: map[string]string{}}
		if !cs.Exercise {
			n.steer = steering{
				leaseRestart: cs.Mode == "lease" && vstat.IsListed("C12/dist-lease/restart-differs-from-store"),
				leaseRemote:  cs.Mode == "lease" && vstat.IsListed("C12/dist-lease/remote-put-not-applied"),
			}
		}
		st := newFstore(nil, cs.QOrder)
		st.stopAt = rc.stopAt
		for k := range rc.failAt {
			st.failAt[k] = true
		}
		err := n.start(st)
		defer func() { n.stop() }()
		if err != nil {
			out.nops = st.ops()
			if len(st.clearFailed()) > 0 {
				return // the initial Query failed: the node does not come up; nothing to compare
			}
			out.viol = n.fail("start-error", "Start on an empty store failed: %v", err)
			return
		}
		out.viol = n.execute()
		out.nops = n.st.ops()
	}
	if cs.Mode == "lease" {
		synctest.Test(t, func(t *testing.T) { body() })
	} else {
		body()
	}
	return out
}

func (n *node) execute() *violation {
	cs := n.cs
	for _, o := range cs.Ops {
		if v := n.step(o); v != nil {
			return v
		}
		if n.st.isFrozen() {
			return n.stopPoint()
		}
	}
	// quiescence: deliver everything that is still queued, oldest first
	if v := n.settleAll(); v != nil {
		return v
	}
	if v := n.checkAgree("quiescence", "", nil, false); v != nil {
		return v
	}
	if n.st.isFrozen() {
		return n.stopPoint()
	}
	// clean stop at the end of the history
	return n.stopPoint()
}

func (n *node) step(o op) *violation {
	cs := n.cs
	sub := cs.sub(o.Sub)
	key := keyPrefix + sub
	ctx := context.Background()
	localPre := func() *violation {
		// events of this key that are still queued
		// Two nodes writing one key concurrently is last-writer-wins by construction of the store and
		// not what is being checked: announcements for this key are always delivered before a local
		// call on it.  Echoes of the node's own writes may stay queued in racy schedules.
		if len(n.st.pendingFor(key)) > 0 && (!cs.Racy || n.pendingRemoteFor(sub)) {
			if v := n.settleKey(key); v != nil {
				return v
			}
		}
		// did memory and store already disagree about this subscriber before the call (after a stale event)?
		n.preDisagree = !n.expired[sub] && n.get(sub) != n.stored()[sub]
		return nil
	}
	switch o.Kind {
	case "alloc", "allocMAC":
		if v := localPre(); v != nil {
			return v
		}
		held := n.get(sub)
		if held == "" {
			// a new local allocation races with undelivered announcements by construction of any
			// asynchronous replication; that race is not what is being checked: deliver them first
			if v := n.settleRemote(); v != nil {
				return v
			}
		}
		n.st.clearFailed()
		var p *net.IPNet
		var err error
		if o.Kind == "alloc" {
			p, err = n.da.Allocate(ctx, sub)
		} else {
			p, err = n.da.AllocateWithMAC(ctx, sub, net.HardwareAddr{2, 0, 0, 0, 0, byte(o.Sub)})
		}
		failed := n.st.clearFailed()
		n.logf("%s(%s)=%v,%s", o.Kind, sub, p, okerr(err))
		if n.st.isFrozen() {
			return nil
		}
		if err == nil {
			n.touch(sub)
			st := n.stored()
			if st[sub] != p.String() {
				return n.fail("alloc-not-persisted", "%s(%s) returned %s, store holds %q", o.Kind, sub, p, st[sub])
			}
			for o2, p2 := range st {
				if o2 != sub && p2 == p.String() {
					if n.expired[o2] {
						// the model's own epoch bookkeeping says o2's lease ran out (not renewed for more than grace
						// epochs, never released since).  Why is its record still in the store?
						es, _ := n.storedEpoch(o2)
						cur := n.epoch()
						// the epoch loop's cleanup removes records with epoch < current-2: was this one due at the latest tick?
						due := cur >= 3 && es < cur-2
						hit := ""
						for _, fk := range n.lastTickFailedKeys {
							if fk == "query "+keyPrefix || fk == "delete "+keyPrefix+o2 {
								hit = fk
							}
						}
						kind := "store-duplicate-address/expired-record"
						why := "cleanup not yet due"
						switch {
						case due && hit != "":
							kind += "-cleanup-failed" // the cleanup pass of the latest tick would have removed it, and its store call failed
							why = "cleanup was due, its store call [" + hit + "] was made to fail"
						case due && n.manualAdvance:
							why = "cleanup was due but the epoch was advanced through AdvanceEpoch, which runs no cleanup"
						case due:
							// the cleanup pass ran, every store call it made succeeded, the record was due - and is still there
							kind += "-survived-cleanup"
							why = "cleanup was due at the latest tick and none of its store calls failed"
						case n.loadTouched[o2]:
							kind += "-after-restart" // the node restarted after o2's last renewal: the stored epoch stems from the previous incarnation's counter
							why = "cleanup not yet due by the stored epoch, which stems from before the restart"
						}
						return n.failT(kind, false, "%s(%s) returned %s which the store still records for %s (lease ran out in memory; record epoch %d, current epoch %d: %s)", o.Kind, sub, p, o2, es, cur, why)
					}
					return n.failOn("store-duplicate-address", []string{sub, o2}, []string{p.String()}, "%s(%s) returned %s which the store records for %s", o.Kind, sub, p, o2)
				}
			}
			if held != "" {
				n.class("op:realloc-held")
			}
		}
		if len(failed) > 0 {
			n.class("failure:" + o.Kind)
		}
		return n.checkAgree("alloc", sub, failed, held != "")
	case "renew":
		if v := localPre(); v != nil {
			return v
		}
		held := n.get(sub)
		n.st.clearFailed()
		err := n.da.Renew(ctx, sub)
		failed := n.st.clearFailed()
		n.logf("renew(%s)=%s", sub, okerr(err))
		if n.st.isFrozen() {
			return nil
		}
		if err == nil && held != "" && n.lease() {
			n.touch(sub)
		}
		if len(failed) > 0 {
			n.class("failure:renew")
			if held != "" && n.lease() {
				n.touch(sub) // memory generation was renewed before the store call
			}
		}
		return n.checkAgree("renew", sub, failed, held != "")
	case "release":
		if v := localPre(); v != nil {
			return v
		}
		held := n.get(sub)
		n.st.clearFailed()
		err := n.da.Release(ctx, sub)
		failed := n.st.clearFailed()
		n.logf("release(%s)=%s", sub, okerr(err))
		if n.st.isFrozen() {
			return nil
		}
		if err == nil {
			n.untouch(sub)
		}
		if len(failed) > 0 {
			n.class("failure:release")
		}
		return n.checkAgree("release", sub, failed, held != "")
	case "advance":
		if !n.lease() {
			return nil
		}
		e := n.da.AdvanceEpoch()
		n.manualAdvance = true
		n.logf("advance->%d", e)
		n.ageLeases()
		n.class("op:advance")
		return n.checkAgree("advance", "", nil, false)
	case "tick":
		if !n.lease() {
			return nil
		}
		if n.steer.leaseRemote {
			// listed: lease mode re-allocates instead of applying a put event; an event delivered after its
			// lease ran out in memory hits that.  Steer: nothing stays queued across an epoch boundary.
			if v := n.settleAll(); v != nil {
				return v
			}
		}
		n.st.clearFailed()
		time.Sleep(epochPeriod)
		synctest.Wait()
		n.lastTickFailedKeys, n.manualAdvance = n.st.failedKeys(), false
		failed := n.st.clearFailed()
		n.logf("tick->%d", n.epoch())
		n.ageLeases()
		n.class("op:tick")
		if n.st.isFrozen() {
			return nil
		}
		if len(failed) > 0 {
			n.class("failure:tick-cleanup")
		}
		return n.checkAgree("tick", "", nil, false)
	case "remotePut":
		if n.steer.leaseRemote {
			return nil
		}
		st := n.stored()
		free := n.freeIdx()
		var prefix string
		cls := ""
		switch {
		case o.Arg%8 == 7 && st[sub] != "":
			prefix, cls = st[sub], "same" // re-announcement of what is stored (e.g. renewal by the other node)
		case len(free) == 0:
			return nil
		case o.Arg%3 == 0:
			prefix, cls = n.unitPrefix(free[0]), "first-free"
		default:
			i := free[(o.Arg/3)%len(free)]
			prefix = n.unitPrefix(i)
			cls = "other-free"
			if i == free[0] {
				cls = "first-free"
			}
		}
		if st[sub] != "" && st[sub] != prefix {
			cls += "-move"
		}
		n.class("remote:put-" + cls)
		if strings.Contains(sub, "/") {
			n.class("remote:put-id-with-slash")
		}
		if strings.HasPrefix(cls, "other-free") {
			n.class("nt:remote-not-first-free")
		}
		n.st.remoteWrite(key, n.remoteRecord(sub, prefix), false)
		n.logf("remotePut(%s,%s)", sub, prefix)
		return nil
	case "siblingPut", "siblingDel":
		// another pool ("p10", "p1-b", ...) keeps its records in the same store, for the same subscriber ids and
		// - pools of different routing instances reuse private ranges - the same addresses
		skey := "/allocation/" + cs.sibling() + "/" + sub
		if o.Kind == "siblingDel" {
			found := false
			for _, r := range n.st.snapshot() {
				found = found || r.key == skey
			}
			if !found {
				return nil
			}
			n.st.remoteWrite(skey, nil, true)
			n.logf("siblingDel(%s,%s)", cs.sibling(), sub)
		} else {
			total := poolUnits(cs.CIDR, cs.Unit)
			lo, hi := 0, total
			if n.lease() {
				lo, hi = 1, total-1
			}
			if hi-lo > 12 {
				hi = lo + 12
			}
			if hi <= lo {
				return nil
			}
			prefix := n.unitPrefix(lo + o.Arg%(hi-lo))
			b, _ := json.Marshal(allocator.DistributedAllocation{PoolID: cs.sibling(), SubscriberID: sub, Prefix: prefix,
				Epoch: n.epoch(), AllocatedAt: time.Unix(1700000000, 0).UTC()})
			n.st.remoteWrite(skey, b, false)
			n.logf("siblingPut(%s,%s,%s)", cs.sibling(), sub, prefix)
		}
		n.class("sibling-pool-records")
		return n.checkAgree("sibling-pool-write", "", nil, false)
	case "remoteDel":
		if _, ok := n.stored()[sub]; !ok {
			// nothing recorded for the drawn subscriber: the other node releases one that has a record
			// (construction over rejection; the choice is a function of the case)
			var have, haveSep []string
			st := n.stored()
			for _, s := range cs.ids() {
				if _, ok := st[s]; ok {
					have = append(have, s)
					if strings.Contains(s, "/") {
						haveSep = append(haveSep, s)
					}
				}
			}
			if len(have) == 0 {
				return nil
			}
			if len(haveSep) > 0 && o.Arg%2 == 0 {
				have = haveSep // every other time one whose id contains the key separator, if there is one
			}
			sub = have[(o.Arg/2)%len(have)]
			key = keyPrefix + sub
		}
		n.class("remote:del")
		if strings.Contains(sub, "/") {
			n.class("remote:del-id-with-slash")
		}
		n.st.remoteWrite(key, nil, true)
		n.logf("remoteDel(%s)", sub)
		return nil
	case "deliver":
		pend := n.st.pendingCopy()
		if len(pend) == 0 {
			return nil
		}
		var cands []int
		if cs.Racy {
			for i := range pend {
				cands = append(cands, i)
			}
		} else {
			cands = []int{0} // in-order schedule: the only freedom is how late the oldest event arrives
		}
		i := cands[o.Arg%len(cands)]
		if v := n.deliverAt(i); v != nil {
			return v
		}
		return n.checkAgree("deliver", "", nil, false)
	case "restart":
		if n.steer.leaseRestart {
			return nil
		}
		n.class("op:restart")
		before := n.beforeSnapshot()
		contents := n.st.snapshot()
		n.logf("restart")
		n.stop()
		old := n.st
		old.dropWatchers()
		// continue on the same store object (same contents, same numbering of operations)
		if err := n.start(old); err != nil {
			if old.isFrozen() || len(old.clearFailed()) > 0 {
				// the load itself was interrupted / failed: the node does not come up; end of this run
				n.logf("start failed: %v", err)
				old.frozen = true
				n.notUp = true
				return nil
			}
			return n.failT("restart-start-error", false, "Start on the store contents failed: %v", err)
		}
		if old.isFrozen() {
			return nil
		}
		if len(old.clearFailed()) > 0 {
			return nil
		}
		n.touched, n.expired = map[string]uint64{}, map[string]bool{}
		if v := n.compareRestart(n, contents, before, "in-history"); v != nil {
			return v
		}
		// memory was rebuilt from the store
		n.staleSubs, n.staleAddrs, n.loadTouched = map[string]string{}, map[string]string{}, map[string]bool{}
		n.lastTickFailedKeys = nil
		for s := range n.stored() {
			n.touch(s)
			n.loadTouched[s] = true
		}
		return nil
	}
	return nil
}

func okerr(err error) string {
	if err == nil {
		return "ok"
	}
	return "err"
}

// beforeSnapshot: what the stopping node answers, for subscribers whose state is settled.
func (n *node) beforeSnapshot() map[string]string {
	b := map[string]string{}
	for _, s := range n.cs.ids() {
		if n.notUp || n.pendingRemoteFor(s) || n.expired[s] {
			b[s] = "?"
			continue
		}
		b[s] = n.get(s)
	}
	return b
}

// compareRestart checks a freshly started node r against the store contents and the old node's answers.
func (n *node) compareRestart(r *node, contents []rec, before map[string]string, how string) *violation {
	st, order := storedPrefixes(contents, keyPrefix)
	seen := map[string]string{}
	for _, s := range order {
		want := st[s]
		got := r.get(s)
		if got != want {
			return n.failT("restart-differs-from-store", false, "[%s] store records %s=%s; after restart Get(%s)=%q (before the stop: %q)", how, s, want, s, got, before[s])
		}
		if b := before[s]; b != "?" && b != want {
			return n.failOn("stop-memory-differs-from-store", []string{s}, []string{b, want}, "[%s] at the stop point memory said %s=%q, store records %q", how, s, b, want)
		}
		_, pn, err := net.ParseCIDR(want)
		if err == nil {
			if back, ok := r.da.GetByPrefix(pn); !ok || back != s {
				return n.failT("restart-reverse-lookup", false, "[%s] after restart GetByPrefix(%s)=%q, store records it for %s", how, want, back, s)
			}
		}
	}
	for _, s := range n.cs.ids() {
		g := r.get(s)
		if g == "" {
			continue
		}
		if o, dup := seen[g]; dup {
			return n.failT("restart-duplicate", false, "[%s] after restart %s is answered for both %s and %s", how, g, o, s)
		}
		seen[g] = s
		if _, rec := st[s]; !rec {
			return n.failT("restart-invented", false, "[%s] after restart Get(%s)=%s although the store has no record for it", how, s, g)
		}
	}
	return nil
}

// stopPoint: the node stopped (store frozen after operation k, or end of history).
// Build new nodes on the same contents for several Query orders.
func (n *node) stopPoint() *violation {
	if n.steer.leaseRestart {
		return nil
	}
	contents := n.st.snapshot()
	before := n.beforeSnapshot()
	_, order := storedPrefixes(contents, keyPrefix)
	nrec := len(order)
	n.out.stopRecs = nrec
	n.logf("STOP(records=%d)", nrec)
	n.stop()
	orders := queryOrders(nrec, n.cs.QOrder)
	for _, qo := range orders {
		r := &node{cs: n.cs, out: n.out}
		st := newFstore(contents, qo)
		if err := r.start(st); err != nil {
			r.stop()
			return n.failT("restart-start-error", false, "Start on the store contents failed: %v", err)
		}
		v := n.compareRestart(r, contents, before, fmt.Sprintf("query order %v", qo))
		r.stop()
		n.out.restarts++
		if v != nil {
			return v
		}
		if nrec >= 2 && !isIdentity(qo, nrec) {
			n.class("nt:restart>=2records-permuted")
		}
	}
	return nil
}

func isIdentity(qo []int, n int) bool {
	for i := 0; i < n && i < len(qo); i++ {
		if qo[i] != i {
			return false
		}
	}
	return true
}

// queryOrders: all orders for <=3 records, otherwise identity, the generated one and its reverse.
func queryOrders(n int, gen []int) [][]int {
	id := make([]int, 8)
	for i := range id {
		id[i] = i
	}
	if n <= 1 {
		return [][]int{id}
	}
	if n <= 3 {
		var out [][]int
		var rec func(cur []int, used int)
		rec = func(cur []int, used int) {
			if len(cur) == n {
				o := append([]int(nil), cur...)
				for i := n; i < 8; i++ {
					o = append(o, i)
				}
				out = append(out, o)
				return
			}
			for i := 0; i < n; i++ {
				if used&(1<<i) == 0 {
					rec(append(cur, i), used|1<<i)
				}
			}
		}
		rec(nil, 0)
		return out
	}
	rev := make([]int, len(gen))
	for i := range gen {
		rev[i] = 7 - gen[i]
	}
	return [][]int{id, gen, rev}
}

// ---- generation -------------------------------------------------------------

type weights map[string]int

func genOps(rt *rapid.T, w weights, maxLen int) []op {
	var kinds []string
	var names []string
	for k := range w {
		names = append(names, k)
	}
	sort.Strings(names)
	for _, k := range names {
		for i := 0; i < w[k]; i++ {
			kinds = append(kinds, k)
		}
	}
	n := rapid.IntRange(3, maxLen).Draw(rt, "nops")
	ops := make([]op, n)
	for i := range ops {
		ops[i] = op{
			Kind: rapid.SampledFrom(kinds).Draw(rt, "kind"),
			Sub:  rapid.IntRange(0, nSubs-1).Draw(rt, "sub"),
			Arg:  rapid.IntRange(0, 47).Draw(rt, "arg"),
		}
	}
	return ops
}

func genSessionGeom(rt *rapid.T) (string, int, string) {
	switch c := rapid.SampledFrom([]string{"tiny", "v4", "v4unit", "v6pd", "v6"}).Draw(rt, "geom"); c {
	case "tiny":
		bits := rapid.IntRange(1, 3).Draw(rt, "unitBits")
		pl := rapid.IntRange(20, 32-bits).Draw(rt, "poolLen")
		b := net.IPv4(10, byte(rapid.IntRange(0, 255).Draw(rt, "b1")), byte(rapid.IntRange(0, 255).Draw(rt, "b2")), byte(rapid.IntRange(0, 255).Draw(rt, "b3"))).To4()
		nw := &net.IPNet{IP: b.Mask(net.CIDRMask(pl, 32)), Mask: net.CIDRMask(pl, 32)}
		return nw.String(), pl + bits, "tiny"
	case "v4":
		pl := rapid.IntRange(22, 28).Draw(rt, "poolLen")
		b := net.IPv4(100, 64, byte(rapid.IntRange(0, 255).Draw(rt, "b2")), byte(rapid.IntRange(0, 255).Draw(rt, "b3"))).To4()
		nw := &net.IPNet{IP: b.Mask(net.CIDRMask(pl, 32)), Mask: net.CIDRMask(pl, 32)}
		return nw.String(), 32, "v4/32"
	case "v4unit":
		pl := rapid.IntRange(16, 26).Draw(rt, "poolLen")
		d := rapid.IntRange(2, 5).Draw(rt, "delta")
		b := net.IPv4(172, 16, byte(rapid.IntRange(0, 255).Draw(rt, "b2")), 0).To4()
		nw := &net.IPNet{IP: b.Mask(net.CIDRMask(pl, 32)), Mask: net.CIDRMask(pl, 32)}
		return nw.String(), pl + d, "v4/sub"
	case "v6pd":
		pair := rapid.SampledFrom([][2]int{{48, 56}, {48, 60}, {56, 60}, {44, 48}}).Draw(rt, "pair")
		b := net.ParseIP("2001:db8::")
		b[4] = byte(rapid.IntRange(0, 255).Draw(rt, "b4"))
		nw := &net.IPNet{IP: b.Mask(net.CIDRMask(pair[0], 128)), Mask: net.CIDRMask(pair[0], 128)}
		return nw.String(), pair[1], "v6pd"
	default:
		pair := rapid.SampledFrom([][2]int{{48, 64}, {56, 64}, {64, 72}, {120, 128}, {124, 128}}).Draw(rt, "pair")
		b := net.ParseIP("2001:db8:1::")
		b[6] = byte(rapid.IntRange(0, 255).Draw(rt, "b6"))
		nw := &net.IPNet{IP: b.Mask(net.CIDRMask(pair[0], 128)), Mask: net.CIDRMask(pair[0], 128)}
		return nw.String(), pair[1], "v6"
	}
}

func genLeaseGeom(rt *rapid.T) (string, int, string) {
	pl := rapid.SampledFrom([]int{29, 29, 28, 28, 27, 24, 30}).Draw(rt, "poolLen")
	b := net.IPv4(10, byte(rapid.IntRange(0, 255).Draw(rt, "b1")), byte(rapid.IntRange(0, 255).Draw(rt, "b2")), byte(rapid.IntRange(0, 255).Draw(rt, "b3"))).To4()
	nw := &net.IPNet{IP: b.Mask(net.CIDRMask(pl, 32)), Mask: net.CIDRMask(pl, 32)}
	return nw.String(), 32, fmt.Sprintf("lease/%d", pl)
}

// oneIn is true with probability 2^-bits.
func oneIn(rt *rapid.T, label string, bits int) bool {
	all := true
	for i := 0; i < bits; i++ {
		if !rapid.Bool().Draw(rt, label) {
			all = false
		}
	}
	return all
}

func genCase(rt *rapid.T, mode string, w weights, maxLen int, racyBits int) *distCase {
	cs := &distCase{Mode: mode}
	var g string
	if mode == "lease" {
		cs.CIDR, cs.Unit, g = genLeaseGeom(rt)
		cs.Grace = rapid.SampledFrom([]int{0, 1, 1, 2}).Draw(rt, "grace")
	} else {
		cs.CIDR, cs.Unit, g = genSessionGeom(rt)
	}
	_ = g
	cs.QOrder = rapid.Permutation([]int{0, 1, 2, 3, 4, 5, 6, 7}).Draw(rt, "queryOrder")
	// (rapid's integer ranges favour small values, so shares are drawn as coin flips)
	sch := pools.GenIDScheme(nSubs, poolID).Draw(rt, "ids")
	cs.IDScheme, cs.IDs = sch.Name, sch.IDs
	cs.Sibling = rapid.SampledFrom(siblingPools).Draw(rt, "siblingPool")
	cs.Racy = oneIn(rt, "racy", racyBits)
	cs.Exercise = oneIn(rt, "exercise", 3)
	cs.Ops = genOps(rt, w, maxLen)
	return cs
}

// ---- the property driver ----------------------------------------------------

// explore runs the whole enumeration for one generated history.
func explore(t *testing.T, rt vstat.Fataler, cs *distCase, doStops, doFails bool, extraFail [][]int) {
	agg := map[string]bool{"mode:" + cs.Mode: true}
	scheme := cs.IDScheme
	if scheme == "" {
		scheme = "token"
	}
	agg["ids:"+scheme] = true
	for _, id := range cs.ids() {
		if strings.Contains(id, "/") {
			agg["ids:some-id-contains-slash"] = true
		}
		for _, o := range cs.ids() {
			if o != id && strings.HasPrefix(o, id+"/") {
				agg["ids:one-id-nests-under-another"] = true
			}
		}
	}
	if cs.Racy {
		agg["sched:racy"] = true
	} else {
		agg["sched:in-order"] = true
	}
	if cs.Exercise {
		agg["exercise-known"] = true
	}
	merge := func(o *runOut) {
		for c := range o.classes {
			agg[c] = true
		}
	}
	report := func(o *runOut, what string) bool {
		if o.viol == nil {
			return false
		}
		return vstat.Fail(rt, o.viol.sig, "%s: %s", what, o.viol.msg) || true
	}
	runs := 0
	dry := runDist(t, cs, runCfg{})
	runs++
	merge(dry)
	known := report(dry, "plain run")
	N := dry.nops
	if !known {
		if doStops {
			for k := 1; k <= N; k++ {
				o := runDist(t, cs, runCfg{stopAt: k})
				runs++
				merge(o)
				if report(o, fmt.Sprintf("stop after store op %d of %d", k, N)) {
					agg["known-hit"] = true
				}
			}
			agg["enum:stops"] = true
		}
		if doFails {
			for j := 1; j <= N; j++ {
				o := runDist(t, cs, runCfg{failAt: map[int]bool{j: true}})
				runs++
				merge(o)
				if report(o, fmt.Sprintf("store op %d of %d fails", j, N)) {
					agg["known-hit"] = true
				}
			}
			for _, fs := range extraFail {
				m := map[int]bool{}
				for _, j := range fs {
					if N > 0 {
						m[1+j%N] = true
					}
				}
				if len(m) < 2 {
					continue
				}
				o := runDist(t, cs, runCfg{failAt: m})
				runs++
				merge(o)
				var which []int
				for j := range m {
					which = append(which, j)
				}
				sort.Ints(which)
				if report(o, fmt.Sprintf("store ops %v of %d fail", which, N)) {
					agg["known-hit"] = true
				}
				agg["enum:multi-failure"] = true
			}
			agg["enum:failures"] = true
		}
	} else {
		agg["known-hit"] = true
	}
	nt := agg["nt:restart>=2records-permuted"] || agg["nt:remote-not-first-free"]
	var cls []string
	for c := range agg {
		cls = append(cls, c)
	}
	sort.Strings(cls)
	vstat.Class("runs", int64(runs))
	var sb strings.Builder
	for _, o := range cs.Ops {
		sb.WriteString(o.String())
		sb.WriteByte(';')
	}
	fp := vstat.Hash(cs.Mode, cs.CIDR, cs.Unit, cs.Grace, fmt.Sprint(cs.QOrder), cs.Racy, sb.String(), strings.Join(cs.ids(), "\x00"), cs.sibling())
	vstat.Case(nt, fp, func() any {
		return map[string]any{"mode": cs.Mode, "pool": cs.CIDR, "unit": cs.Unit, "grace": cs.Grace, "query_order": cs.QOrder,
			"racy": cs.Racy, "ops": sb.String(), "store_ops": N, "runs": runs, "id_scheme": scheme, "ids": cs.ids(), "sibling_pool": cs.sibling()}
	}, cls...)
}

var wRestart = weights{"alloc": 6, "allocMAC": 2, "renew": 2, "release": 4, "restart": 1, "deliver": 2, "siblingPut": 1}
var wRestartLease = weights{"alloc": 6, "allocMAC": 2, "renew": 3, "release": 3, "tick": 4, "restart": 1, "deliver": 2, "siblingPut": 1}
var wReplica = weights{"alloc": 4, "allocMAC": 1, "renew": 1, "release": 3, "remotePut": 5, "remoteDel": 4, "deliver": 6, "restart": 1, "siblingPut": 2, "siblingDel": 1}
var wReplicaLease = weights{"alloc": 4, "allocMAC": 1, "renew": 2, "release": 3, "remotePut": 5, "remoteDel": 4, "deliver": 6, "tick": 2, "restart": 1, "siblingPut": 2, "siblingDel": 1}

func genExtraFail(rt *rapid.T) [][]int {
	n := rapid.IntRange(0, 2).Draw(rt, "nMultiFail")
	out := make([][]int, n)
	for i := range out {
		out[i] = rapid.SliceOfN(rapid.IntRange(0, 63), 2, 3).Draw(rt, "failSet")
	}
	return out
}

// TestPropRestartSession: local histories, session mode; stop after every store op, failure at every store op.
func TestPropRestartSession(t *testing.T) {
	vstat.Checks(600, 12000)
	rapid.Check(t, func(rt *rapid.T) {
		cs := genCase(rt, "session", wRestart, 14, 3)
		explore(t, rt, cs, true, true, genExtraFail(rt))
	})
}

// TestPropRestartLease: the same in lease mode (virtual time drives the real epoch loop).
func TestPropRestartLease(t *testing.T) {
	vstat.Checks(900, 18000)
	rapid.Check(t, func(rt *rapid.T) {
		cs := genCase(rt, "lease", wRestartLease, 12, 3)
		explore(t, rt, cs, true, true, genExtraFail(rt))
	})
}

// TestPropReplicaSession: local ops interleaved with announcements from another node and explicit deliveries.
func TestPropReplicaSession(t *testing.T) {
	vstat.Checks(1500, 24000)
	rapid.Check(t, func(rt *rapid.T) {
		cs := genCase(rt, "session", wReplica, 16, 2)
		explore(t, rt, cs, true, false, nil)
	})
}

// TestPropReplicaLease: the same in lease mode.
func TestPropReplicaLease(t *testing.T) {
	vstat.Checks(1700, 28000)
	rapid.Check(t, func(rt *rapid.T) {
		cs := genCase(rt, "lease", wReplicaLease, 14, 2)
		explore(t, rt, cs, true, false, nil)
	})
}
