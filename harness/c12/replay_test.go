package c12

// Minimal reproductions of the listed known findings.  Each asserts through the
// same signature the generated tier uses: silent while the finding is listed,
// failing again if a fix that removed the listing is reverted.

import (
	"context"
	"encoding/json"
	"net"
	"testing"

	"github.com/codelaboratoryltd/bng/pkg/allocator"

	"bngverif/internal/vstat"
)

var idOrder = []int{0, 1, 2, 3, 4, 5, 6, 7}
var revOrder = []int{7, 6, 5, 4, 3, 2, 1, 0}

// expectDist runs one scripted history; if it violates, the violation must carry the expected signature.
func expectDist(t *testing.T, name string, cs *distCase, rc runCfg, wantSig string) {
	t.Helper()
	cs.Exercise = true
	o := runDist(t, cs, rc)
	vstat.Case(true, vstat.Hash("replay", name), nil, "replay:"+name)
	if o.viol == nil {
		return // repaired tree: nothing to report
	}
	if o.viol.sig != wantSig {
		t.Fatalf("VIOLATION sig=%s: replay %s expected signature %s: %s", o.viol.sig, name, wantSig, o.viol.msg)
	}
	vstat.Fail(t, o.viol.sig, "replay %s: %s", name, o.viol.msg)
}

// KF-C12-1: lease-mode reload re-allocates next-free in Query order instead of applying the stored address.
func TestReplayLeaseReloadIgnoresStoredAddress(t *testing.T) {
	cs := &distCase{Mode: "lease", CIDR: "10.0.0.0/29", Unit: 32, QOrder: idOrder,
		Ops: []op{{"alloc", 0, 0}, {"alloc", 1, 0}}}
	// the stop at the end of the history restarts under both enumeration orders of the two records
	expectDist(t, "lease-reload", cs, runCfg{}, "C12/dist-lease/restart-differs-from-store")
	// insertion order alone is enough once the first address was given back
	cs2 := &distCase{Mode: "lease", CIDR: "10.0.0.0/29", Unit: 32, QOrder: idOrder,
		Ops: []op{{"alloc", 0, 0}, {"alloc", 1, 0}, {"release", 0, 0}}}
	expectDist(t, "lease-reload-gap", cs2, runCfg{}, "C12/dist-lease/restart-differs-from-store")
}

// KF-C12-2: lease-mode handleRemoteChange re-allocates next-free instead of applying the announced address.
func TestReplayLeaseRemotePutIgnoresAnnouncedAddress(t *testing.T) {
	cs := &distCase{Mode: "lease", CIDR: "10.0.0.0/29", Unit: 32, QOrder: idOrder,
		Ops: []op{{"remotePut", 0, 4}, {"deliver", 0, 0}}}
	expectDist(t, "lease-remote-put", cs, runCfg{}, "C12/dist-lease/remote-put-not-applied")
}

// KF-C12-2c: the same through the echo of the node's own Put arriving after the lease ran out in memory
// (the store still holds the record): the subscriber is re-allocated at another address than stored.
func TestReplayLeaseEchoAfterExpiry(t *testing.T) {
	cs := &distCase{Mode: "lease", CIDR: "10.0.0.0/29", Unit: 32, Grace: 0, QOrder: idOrder,
		Ops: []op{{"alloc", 1, 0}, {"alloc", 0, 0}, {"release", 0, 0}, {"alloc", 2, 0}, {"deliver", 0, 0}, {"tick", 0, 0}, {"tick", 0, 0}, {"deliver", 0, 0}}}
	expectDist(t, "lease-echo-after-expiry", cs, runCfg{}, "C12/dist-lease/echo-put-not-applied")
}

// KF-C12-3: Allocate for a subscriber that already holds an address re-saves the record; if that Put fails the
// "rollback" releases the pre-existing allocation from memory while the store keeps it.
func TestReplayRollbackReleasesExistingAllocation(t *testing.T) {
	for _, mode := range []string{"session", "lease"} {
		cs := &distCase{Mode: mode, CIDR: "10.0.0.0/29", Unit: 32, QOrder: idOrder,
			Ops: []op{{"alloc", 0, 0}, {"alloc", 0, 0}}}
		// store ops: #1 Query (Start), #2 Put, #3 Put (the re-save)
		expectDist(t, "rollback-"+mode, cs, runCfg{failAt: map[int]bool{3: true}}, "C12/dist-"+mode+"/mem-store-disagree/alloc-failed-put-held")
	}
}

// KF-C12-4: Release frees memory first; a failing store Delete leaves the record in the store.
func TestReplayReleaseFailedDelete(t *testing.T) {
	for _, mode := range []string{"session", "lease"} {
		cs := &distCase{Mode: mode, CIDR: "10.0.0.0/29", Unit: 32, QOrder: idOrder,
			Ops: []op{{"alloc", 0, 0}, {"release", 0, 0}}}
		expectDist(t, "release-"+mode, cs, runCfg{failAt: map[int]bool{3: true}}, "C12/dist-"+mode+"/mem-store-disagree/release-failed-delete-held")
	}
}

// KF-C12-5: watch callbacks carry a snapshot and are applied whatever the store holds by then.  Both real
// stores start one goroutine per callback, so the echo of the node's own Delete can run after the node has
// re-allocated the subscriber: memory forgets it, and the next subscriber is handed the same address.
func TestReplayStaleEchoDuplicatesAddress(t *testing.T) {
	cs := &distCase{Mode: "session", CIDR: "10.0.0.0/29", Unit: 32, QOrder: idOrder, Racy: true,
		Ops: []op{{"alloc", 0, 0}, {"release", 0, 0}, {"alloc", 0, 0}, {"deliver", 0, 1}, {"alloc", 1, 0}}}
	expectDist(t, "stale-delete-echo", cs, runCfg{}, "C12/dist-session/after-racy-delivery")
	// the echo of the own Put arriving after the echo of the own Delete resurrects a released allocation
	cs2 := &distCase{Mode: "session", CIDR: "10.0.0.0/29", Unit: 32, QOrder: idOrder, Racy: true,
		Ops: []op{{"alloc", 0, 0}, {"release", 0, 0}, {"deliver", 0, 1}, {"deliver", 0, 0}}}
	expectDist(t, "stale-put-echo", cs2, runCfg{}, "C12/dist-session/after-racy-delivery")
	cs4 := &distCase{Mode: "lease", CIDR: "10.0.0.0/29", Unit: 32, QOrder: idOrder, Racy: true,
		Ops: []op{{"alloc", 0, 0}, {"release", 0, 0}, {"alloc", 0, 0}, {"deliver", 0, 1}, {"alloc", 1, 0}}}
	expectDist(t, "stale-delete-echo-lease", cs4, runCfg{}, "C12/dist-lease/after-racy-delivery")
	cs3 := &distCase{Mode: "lease", CIDR: "10.0.0.0/29", Unit: 32, QOrder: idOrder, Racy: true,
		Ops: []op{{"alloc", 0, 0}, {"release", 0, 0}, {"deliver", 0, 1}, {"deliver", 0, 0}}}
	expectDist(t, "stale-put-echo-lease", cs3, runCfg{}, "C12/dist-lease/after-racy-delivery")
}

// KF-C12-6: default grace 1: memory reclaims a lease two epochs after its last renewal, the epoch loop's
// store cleanup only three epochs after: in between the address is handed out again while the store still
// records it for the previous subscriber (two subscribers, one address, in the authoritative store).
func TestReplayLeaseExpiredRecordReused(t *testing.T) {
	cs := &distCase{Mode: "lease", CIDR: "10.0.0.0/29", Unit: 32, Grace: 0, QOrder: idOrder,
		Ops: []op{{"alloc", 0, 0}, {"tick", 0, 0}, {"tick", 0, 0}, {"alloc", 1, 0}}}
	expectDist(t, "expired-record", cs, runCfg{}, "C12/dist-lease/store-duplicate-address/expired-record")
	// KF-C12-7: one tick later the cleanup pass is due to remove the record (stored epoch 2 < 5-2), but its own
	// store call fails (#1 Query (Start), #2 Put, #3 Query (tick->3), #4 Query (tick->4), #5 Query (tick->5) fails):
	// the record stays and the address is handed out.  (A failure in a pass that would not have removed the record
	// anyway - e.g. #4 here - is plain KF-C12-6.)
	cs2 := &distCase{Mode: "lease", CIDR: "10.0.0.0/29", Unit: 32, Grace: 0, QOrder: idOrder,
		Ops: []op{{"alloc", 0, 0}, {"tick", 0, 0}, {"tick", 0, 0}, {"tick", 0, 0}, {"alloc", 1, 0}}}
	expectDist(t, "expired-record-cleanup-failed", cs2, runCfg{failAt: map[int]bool{5: true}}, "C12/dist-lease/store-duplicate-address/expired-record-cleanup-failed")
	// the same when the pass's Delete of that record fails (#5 Query, #6 Delete)
	cs3 := &distCase{Mode: "lease", CIDR: "10.0.0.0/29", Unit: 32, Grace: 0, QOrder: idOrder,
		Ops: []op{{"alloc", 0, 0}, {"tick", 0, 0}, {"tick", 0, 0}, {"tick", 0, 0}, {"alloc", 1, 0}}}
	expectDist(t, "expired-record-cleanup-delete-failed", cs3, runCfg{failAt: map[int]bool{6: true}}, "C12/dist-lease/store-duplicate-address/expired-record-cleanup-failed")
	// a failure in a cleanup pass that was not due to remove the record is not KF-C12-7 but the plain window of KF-C12-6
	cs4 := &distCase{Mode: "lease", CIDR: "10.0.0.0/29", Unit: 32, Grace: 0, QOrder: idOrder,
		Ops: []op{{"alloc", 0, 0}, {"tick", 0, 0}, {"tick", 0, 0}, {"alloc", 1, 0}}}
	expectDist(t, "expired-record-irrelevant-cleanup-failure", cs4, runCfg{failAt: map[int]bool{4: true}}, "C12/dist-lease/store-duplicate-address/expired-record")
}

// KF-C12-6b: the epoch counter is not persisted: a restarted node counts from 2 again while the records keep
// the epochs of the previous incarnation, so the cleanup never considers them old although memory reclaims
// the leases: same reuse of an address the store still records.
func TestReplayLeaseExpiredRecordReusedAfterRestart(t *testing.T) {
	cs := &distCase{Mode: "lease", CIDR: "10.0.0.0/29", Unit: 32, Grace: 0, QOrder: idOrder,
		Ops: []op{{"alloc", 0, 0}, {"tick", 0, 0}, {"tick", 0, 0}, {"alloc", 0, 0}, {"restart", 0, 0}, {"tick", 0, 0}, {"tick", 0, 0}, {"alloc", 1, 0}}}
	expectDist(t, "expired-record-after-restart", cs, runCfg{}, "C12/dist-lease/store-duplicate-address/expired-record-after-restart")
}

// KF-C12-8: EpochBitmapAllocator.MarshalJSON computes base_network as pool+(32-unit): wrong unless unit is /32.
func TestReplayEpochMarshalBaseNetwork(t *testing.T) {
	a, err := allocator.NewEpochBitmapAllocator(allocator.EpochBitmapConfig{BaseNetwork: "10.0.0.0/24", PrefixLength: 30})
	if err != nil {
		t.Fatalf("INCONCLUSIVE constructor: %v", err)
	}
	data, _ := json.Marshal(a)
	var st allocator.EpochBitmapState
	_ = json.Unmarshal(data, &st)
	vstat.Case(true, vstat.Hash("replay", "epoch-base"), nil, "replay:epoch-base-network")
	if st.BaseNetwork != "10.0.0.0/24" {
		r := &allocator.EpochBitmapAllocator{}
		uerr := json.Unmarshal(data, r)
		_, at, _ := a.Stats()
		var rt uint64
		if uerr == nil {
			_, rt, _ = r.Stats()
		}
		vstat.Fail(t, "C12/epoch-unit-not-32/marshal-wrong-base-network", "pool 10.0.0.0/24 allocating /30 serialises base_network=%q; restored (err=%v) usable=%d, original usable=%d", st.BaseNetwork, uerr, rt, at)
	}
}

// KF-C12-9: the epoch allocator's scan hint is not serialised: after leases ran out the restored instance
// picks a different free address for the next new subscriber than the original does.
func TestReplayEpochHintNotSerialised(t *testing.T) {
	ctx := context.Background()
	a, _ := allocator.NewEpochBitmapAllocator(allocator.EpochBitmapConfig{BaseNetwork: "10.0.0.0/28", PrefixLength: 32, GracePeriod: 1})
	a.Allocate(ctx, "s0") // .1
	a.Allocate(ctx, "s1") // .2, hint 3
	a.Release(ctx, "s0")  // hint 1
	a.Allocate(ctx, "s0") // .1 again, hint 2
	data, _ := json.Marshal(a)
	r := &allocator.EpochBitmapAllocator{}
	if err := json.Unmarshal(data, r); err != nil {
		t.Fatalf("VIOLATION sig=C12/epoch/unmarshal-error: %v", err)
	}
	for _, x := range []*allocator.EpochBitmapAllocator{a, r} {
		x.AdvanceEpoch()
		x.AdvanceEpoch() // both leases ran out; .1 and .2 are free again on both instances
	}
	ia, _ := a.Allocate(ctx, "s0")
	ir, _ := r.Allocate(ctx, "s0")
	vstat.Case(true, vstat.Hash("replay", "epoch-hint"), nil, "replay:epoch-hint")
	if !ia.Equal(ir) {
		vstat.Fail(t, "C12/epoch/restore-continuation-differs/alloc-picks-other-free-address", "alloc(s0),alloc(s1),release(s0),alloc(s0), serialise/restore, advance x2, alloc(s0): original %v, restored %v", ia, ir)
	}
}

// KF-C12-10: SaveAllocation with a new prefix for an existing (pool, subscriber) leaves the old address in the
// IP index; the index is rebuilt on restore, so GetByIP(old address) answers differently afterwards.
func TestReplayMemStoreStaleIPIndex(t *testing.T) {
	ctx := context.Background()
	s := allocator.NewMemoryAllocationStore()
	_, p0, _ := net.ParseCIDR("10.1.0.1/32")
	_, p1, _ := net.ParseCIDR("10.1.0.2/32")
	s.SaveAllocation(ctx, allocator.AllocationRecord{SubscriberID: "s0", PoolID: "v4", Prefix: p0})
	s.SaveAllocation(ctx, allocator.AllocationRecord{SubscriberID: "s0", PoolID: "v4", Prefix: p1})
	data, _ := json.Marshal(s)
	r := allocator.NewMemoryAllocationStore()
	if err := json.Unmarshal(data, r); err != nil {
		t.Fatalf("VIOLATION sig=C12/memstore/unmarshal-error: %v", err)
	}
	ra, ea := s.GetByIP(ctx, p0.IP)
	rr, er := r.GetByIP(ctx, p0.IP)
	vstat.Case(true, vstat.Hash("replay", "memstore-ip"), nil, "replay:memstore-stale-ip-index")
	if (ea == nil) != (er == nil) {
		vstat.Fail(t, "C12/memstore/restore-query-differs/GetByIP/after-resave-different-prefix", "GetByIP(10.1.0.1) original: %v,%v restored: %v,%v", ra, ea, rr, er)
	}
}

// KF-C12-11: IPAllocator.SetAllocation moving a subscriber frees its old index without lowering the scan hint,
// and the hint is not serialised: the restored instance hands the freed prefix to the next subscriber, the
// original skips it.
func TestReplayBitmapHintAfterSetAllocationMove(t *testing.T) {
	a, _ := allocator.NewIPAllocator("10.2.0.0/28", 32)
	a.Allocate("s0")
	a.Allocate("s1")
	if err := a.SetAllocation("s0", prefixAt("10.2.0.0/28", 32, 5)); err != nil {
		t.Fatalf("INCONCLUSIVE SetAllocation: %v", err)
	}
	data, _ := json.Marshal(a)
	r := &allocator.IPAllocator{}
	if err := json.Unmarshal(data, r); err != nil {
		t.Fatalf("VIOLATION sig=C12/bitmap/unmarshal-error: %v", err)
	}
	pa, _ := a.Allocate("s2")
	pr, _ := r.Allocate("s2")
	vstat.Case(true, vstat.Hash("replay", "bitmap-hint"), nil, "replay:bitmap-hint")
	if ipn(pa) != ipn(pr) {
		vstat.Fail(t, "C12/bitmap/restore-continuation-differs/alloc/after-setallocation-move", "alloc(s0),alloc(s1),SetAllocation(s0,idx5), serialise/restore, alloc(s2): original %s, restored %s", ipn(pa), ipn(pr))
	}
}

// KF-C12-12 / KF-C12-13: pkg/dhcpv6 passes the client DUID as raw bytes (string(clientIDOption.Data)) to
// PoolAllocator.AllocateWithOptions as SubscriberID and DUID.  Two clients whose DUID-LLs differ in one MAC byte
// >= 0x80 (not valid UTF-8): encoding/json writes U+FFFD for such bytes, so after MarshalJSON -> UnmarshalJSON
// neither the IPAllocator nor the MemoryAllocationStore knows either client by its id, and the two records of the
// store collapse into one.
func TestReplayNonUTF8SubscriberIDs(t *testing.T) {
	ctx := context.Background()
	d1 := string([]byte{0x00, 0x03, 0x00, 0x01, 0x02, 0x00, 0x5e, 0x2f, 0x80, 0x01})
	d2 := string([]byte{0x00, 0x03, 0x00, 0x01, 0x02, 0x00, 0x5e, 0x2f, 0x81, 0x01})
	st := allocator.NewMemoryAllocationStore()
	pa, err := allocator.NewPoolAllocatorWithType(allocator.PoolAllocatorConfig{PoolID: "v6", BaseNetwork: "2001:db8:200::/120", PrefixLength: 128, PoolType: allocator.PoolTypeIPv6Address, Store: st})
	if err != nil {
		t.Fatalf("INCONCLUSIVE constructor: %v", err)
	}
	for i, d := range []string{d1, d2} {
		if _, err := pa.AllocateWithOptions(ctx, allocator.AllocateOptions{SubscriberID: d, DUID: d, IAID: uint32(i + 1)}); err != nil {
			t.Fatalf("INCONCLUSIVE AllocateWithOptions: %v", err)
		}
	}
	{ // the store
		data, _ := json.Marshal(st)
		r := allocator.NewMemoryAllocationStore()
		uerr := json.Unmarshal(data, r)
		a1, _ := st.GetBySubscriber(ctx, d1)
		r1, _ := r.GetBySubscriber(ctx, d1)
		vstat.Case(true, vstat.Hash("replay", "memstore-non-utf8"), nil, "replay:memstore-non-utf8-id")
		if uerr != nil || len(a1) != len(r1) || st.Count() != r.Count() {
			vstat.Fail(t, "C12/memstore/"+kindNonUTF8, "two DHCPv6 clients with DUIDs % x / % x: original store Count=%d GetBySubscriber(d1)=%d record(s); restored (err=%v) Count=%d GetBySubscriber(d1)=%d record(s)", d1, d2, st.Count(), len(a1), uerr, r.Count(), len(r1))
		}
	}
	{ // the bitmap allocator PoolAllocator wraps
		a, _ := allocator.NewIPAllocator("2001:db8:200::/120", 128)
		a.Allocate(d1)
		a.Allocate(d2)
		data, _ := json.Marshal(a)
		r := &allocator.IPAllocator{}
		uerr := json.Unmarshal(data, r)
		vstat.Case(true, vstat.Hash("replay", "bitmap-non-utf8"), nil, "replay:bitmap-non-utf8-id")
		if uerr != nil || ipn(a.Lookup(d1)) != ipn(r.Lookup(d1)) || ipn(a.Lookup(d2)) != ipn(r.Lookup(d2)) {
			vstat.Fail(t, "C12/bitmap/"+kindNonUTF8, "Allocate(% x), Allocate(% x), serialise/restore (err=%v): Lookup(d1) original %s restored %s; Lookup(d2) original %s restored %s", d1, d2, uerr, ipn(a.Lookup(d1)), ipn(r.Lookup(d1)), ipn(a.Lookup(d2)), ipn(r.Lookup(d2)))
		}
	}
}
