package c12

// Serialise -> restore equivalence for allocator.IPAllocator, EpochBitmapAllocator and
// MemoryAllocationStore: after MarshalJSON -> UnmarshalJSON every query, and every step of an
// identical generated continuation, must answer the same on the original and the restored instance.

import (
	"context"
	"encoding/json"
	"fmt"
	"net"
	"sort"
	"strings"
	"testing"
	"time"
	"unicode/utf8"

	"github.com/codelaboratoryltd/bng/pkg/allocator"
	"pgregory.net/rapid"

	"bngverif/internal/pools"
	"bngverif/internal/vstat"
)

type sop struct {
	Kind string
	Sub  int
	Arg  int
}

func (o sop) String() string { return fmt.Sprintf("%s(%d,%d)", o.Kind, o.Sub, o.Arg) }

func genSops(rt *rapid.T, label string, kinds []string, lo, hi int) []sop {
	n := rapid.IntRange(lo, hi).Draw(rt, label+"N")
	out := make([]sop, n)
	for i := range out {
		out[i] = sop{rapid.SampledFrom(kinds).Draw(rt, label+"Kind"), rapid.IntRange(0, nSubs-1).Draw(rt, label+"Sub"), rapid.IntRange(0, 15).Draw(rt, label+"Arg")}
	}
	return out
}

func sopsString(ops []sop) string {
	var sb strings.Builder
	for _, o := range ops {
		sb.WriteString(o.String())
		sb.WriteByte(';')
	}
	return sb.String()
}

// guard runs f and turns a panic into an error string.
func guard(f func()) (p string) {
	defer func() {
		if r := recover(); r != nil {
			p = fmt.Sprint(r)
		}
	}()
	f()
	return ""
}

type diff struct{ query, detail string }

func cmp(d **diff, query string, a, b any) {
	if *d != nil {
		return
	}
	as, bs := fmt.Sprint(a), fmt.Sprint(b)
	if as != bs {
		*d = &diff{query, fmt.Sprintf("original answers %s, restored answers %s", as, bs)}
	}
}

func ipn(p *net.IPNet) string {
	if p == nil {
		return "<none>"
	}
	return p.String()
}

func errClass(err error) string {
	if err == nil {
		return "ok"
	}
	return "err"
}

// kindNonUTF8: everything noticed after restoring an instance that held subscriber ids which are not valid
// UTF-8 (raw DHCPv6 DUIDs) is one finding: encoding/json replaces the offending bytes by U+FFFD on the way out,
// so the ids are not restored (and ids that differ only in such bytes become one id).
const kindNonUTF8 = "restore-differs/non-utf8-subscriber-id"

// The listed signature must identify that ROOT CAUSE, not "something differed in a case whose alphabet has a
// non-UTF-8 id".  A failure is classified kindNonUTF8 only with all of this evidence:
//   - its kind belongs to the restore family (restoreFamily);
//   - an id that is not valid UTF-8 was part of the serialised state (held an allocation / had a record when
//     MarshalJSON ran) - ids that only appear in the alphabet, or only after the restore, never pass through JSON;
//   - the SAME generated history over the twin alphabet (only the bytes that are not valid UTF-8 replaced by valid
//     stand-ins; NUL / control bytes / separators and valid ids unchanged) shows no failure at all: the difference is caused by the ids' bytes, by nothing else;
//   - right after the restore no entry of a VALID id differs (Lookup / GetBySubscriber of a valid id, the owner
//     of a valid id's prefix): mangling cannot touch those.
//
// Everything else keeps the plain signature (restore-query-differs/<query>, restore-continuation-differs/<op>, ...),
// which is not listed.
func restoreFamily(kind string) bool {
	return strings.HasPrefix(kind, "restore-") || kind == "unmarshal-error" || kind == "remarshal-differs" || kind == "panic"
}

// sfail is the first failure of one serialise/restore case.
type sfail struct {
	kind, sfx, msg string
	validEntry     string // right after the restore: an entry of a valid-UTF-8 id that differs ("" if none)
	invalidInState bool   // an id that is not valid UTF-8 was part of the serialised state
}

// twinIDs replaces, in every id, exactly the bytes that are not part of a valid UTF-8 sequence by a valid stand-in
// (byte b -> U+0100+b, injective), and keeps every other byte - NUL, control bytes, '/' - as it is: the twin
// differs from the original in nothing but UTF-8 validity.  Valid ids are unchanged.
func twinIDs(ids []string) []string {
	out := make([]string, len(ids))
	for i, id := range ids {
		var sb strings.Builder
		for j := 0; j < len(id); {
			r, n := utf8.DecodeRuneInString(id[j:])
			if r == utf8.RuneError && n == 1 {
				sb.WriteRune(rune(0x100) + rune(id[j]))
			} else {
				sb.WriteString(id[j : j+n])
			}
			j += n
		}
		out[i] = sb.String()
	}
	return out
}

// classifyNonUTF8 decides the kind a failure is reported under (see above); twin re-runs the case over the twin alphabet.
func classifyNonUTF8(f *sfail, ids []string, twin func(ids []string) *sfail) (kind, note string) {
	kind = f.kind + f.sfx
	if !restoreFamily(f.kind) || !f.invalidInState {
		return kind, ""
	}
	if f.validEntry != "" {
		return kind, "\n  not attributed to the non-UTF-8 ids: an entry of a valid id differs: " + f.validEntry
	}
	if tf := twin(twinIDs(ids)); tf != nil {
		return kind, fmt.Sprintf("\n  not attributed to the non-UTF-8 ids: the same history over valid stand-in ids %q fails too (%s: %s)", twinIDs(ids), tf.kind+tf.sfx, tf.msg)
	}
	return kindNonUTF8, ""
}

// mixRaw: half of the raw-DUID alphabets keep three raw ids and get three valid ones (the hex spelling a DUID has
// everywhere else), so that valid and non-UTF-8 ids share one instance.
func mixRaw(rt *rapid.T, sch pools.IDScheme) pools.IDScheme {
	if sch.Name != "duid-raw" || !rapid.Bool().Draw(rt, "mixRawWithValid") {
		return sch
	}
	ids := append([]string(nil), sch.IDs...)
	for i := range ids {
		if i%2 == 1 {
			ids[i] = fmt.Sprintf("%x", ids[i])
		}
	}
	return pools.IDScheme{Name: "duid-raw-mixed", IDs: ids}
}

// ---- IPAllocator --------------------------------------------------------------

func genBitmapGeom(rt *rapid.T) (string, int, string) {
	if rapid.IntRange(0, 5).Draw(rt, "hugeGeom") == 0 {
		pair := rapid.SampledFrom([][2]int{{48, 128}, {32, 96}, {64, 128}, {0, 64}}).Draw(rt, "hugePair")
		b := net.ParseIP("2001:db8::")
		n := &net.IPNet{IP: b.Mask(net.CIDRMask(pair[0], 128)), Mask: net.CIDRMask(pair[0], 128)}
		return n.String(), pair[1], "huge"
	}
	return genSessionGeom(rt)
}

func bitmapProbes(cidr string, unit int) []*net.IPNet {
	var out []*net.IPNet
	n := poolUnits(cidr, unit)
	if n > 12 {
		n = 12
	}
	for i := 0; i < n; i++ {
		out = append(out, prefixAt(cidr, unit, i))
	}
	_, outside, _ := net.ParseCIDR("203.0.113.7/32")
	out = append(out, outside)
	_, wrongLen, _ := net.ParseCIDR(cidr) // pool prefix itself: wrong length unless unit == pool length
	out = append(out, wrongLen)
	return out
}

func compareBitmap(a, r *allocator.IPAllocator, cidr string, unit int, ids []string) *diff {
	var d *diff
	aa, at, au := a.Stats()
	ra, rtot, ru := r.Stats()
	cmp(&d, "Stats", fmt.Sprint(aa, at, au), fmt.Sprint(ra, rtot, ru))
	cmp(&d, "IsIPv6", a.IsIPv6(), r.IsIPv6())
	cmp(&d, "PrefixLength", a.PrefixLength(), r.PrefixLength())
	cmp(&d, "BaseNetwork", a.BaseNetwork().String(), r.BaseNetwork().String())
	for _, s := range ids {
		cmp(&d, "Lookup", ipn(a.Lookup(s)), ipn(r.Lookup(s)))
	}
	for _, p := range bitmapProbes(cidr, unit) {
		cmp(&d, "LookupByPrefix", a.LookupByPrefix(p), r.LookupByPrefix(p))
		cmp(&d, "IsAllocated", a.IsAllocated(p), r.IsAllocated(p))
		cmp(&d, "Contains", a.Contains(p), r.Contains(p))
	}
	list := func(x *allocator.IPAllocator) string {
		var l []string
		for _, al := range x.ListAllocations() {
			l = append(l, fmt.Sprintf("%s=%s@%d", al.SubscriberID, ipn(al.Prefix), al.Index))
		}
		sort.Strings(l)
		return strings.Join(l, ",")
	}
	cmp(&d, "ListAllocations", list(a), list(r))
	return d
}

// applyBitmap applies one op; returns a printable result.  moved reports a SetAllocation that
// changed a subscriber's prefix (see the steering note in TestPropSerialBitmap).
func applyBitmap(x *allocator.IPAllocator, o sop, cidr string, unit int, allowMove bool, ids []string) (res string, moved bool) {
	s := ids[o.Sub]
	units := poolUnits(cidr, unit)
	idx := o.Arg % (units + 1) // one past the end: out of range
	switch o.Kind {
	case "alloc":
		p, err := x.Allocate(s)
		return ipn(p) + "," + errClass(err), false
	case "allocSpecific":
		return errClass(x.AllocateSpecific(s, prefixAt(cidr, unit, idx))), false
	case "release":
		return errClass(x.Release(s)), false
	case "releasePrefix":
		return errClass(x.ReleasePrefix(prefixAt(cidr, unit, idx))), false
	case "setAllocation":
		p := prefixAt(cidr, unit, idx)
		cur := x.Lookup(s)
		if cur != nil && cur.String() == p.String() {
			// repeating SetAllocation for the pair a subscriber already holds double-counts
			// (known finding C05/bitmap/stats-mismatch/setallocation-repeat, owned by C05): not repeated here
			return "skipped", false
		}
		if cur != nil && !allowMove {
			return "skipped", false // steering around the listed scan-hint finding (see TestPropSerialBitmap)
		}
		err := x.SetAllocation(s, p)
		return errClass(err), err == nil && cur != nil
	}
	return "", false
}

var bitmapKinds = []string{"alloc", "alloc", "alloc", "allocSpecific", "release", "release", "releasePrefix", "setAllocation"}

func TestPropSerialBitmap(t *testing.T) {
	vstat.Checks(2000, 40000)
	rapid.Check(t, func(rt *rapid.T) {
		cidr, unit, gclass := genBitmapGeom(rt)
		if _, err := allocator.NewIPAllocator(cidr, unit); err != nil {
			rt.Fatalf("generator produced a geometry the constructor rejects: %v", err)
		}
		// IPAllocator is what PoolAllocator wraps, and pkg/dhcpv6 hands PoolAllocator the raw client DUID as
		// subscriber id: the raw-DUID alphabet is part of this allocator's domain
		sch := mixRaw(rt, pools.GenIDSchemeRaw(nSubs, "p1").Draw(rt, "ids"))
		ids := sch.IDs
		pre := genSops(rt, "pre", bitmapKinds, 0, 20)
		post := genSops(rt, "post", bitmapKinds, 1, 12)
		intoUsed := rapid.IntRange(0, 3).Draw(rt, "restoreIntoUsed") == 0
		// SetAllocation moving a subscriber frees its old index without lowering the scan hint, and the hint is
		// not serialised (listed finding): such moves are generated only in the "exercise" share of cases.
		exercise := oneIn(rt, "exercise", 2)
		allowMove := exercise || !vstat.IsListed("C12/bitmap/restore-continuation-differs/alloc/after-setallocation-move")
		run := func(ids []string) (*sfail, []string, bool, uint64) {
			return bitmapCase(cidr, unit, ids, pre, post, intoUsed, allowMove)
		}
		f, hist, moved, aa := run(ids)
		if f != nil {
			kind, note := classifyNonUTF8(f, ids, func(tw []string) *sfail { tf, _, _, _ := run(tw); return tf })
			known := vstat.Fail(rt, "C12/bitmap/"+kind, "%s%s\n  pool %s unit /%d ids(%s) %q\n  history: %s", f.msg, note, cidr, unit, sch.Name, ids, strings.Join(hist, "; "))
			if known && kind == kindNonUTF8 {
				vstat.Case(false, 0, nil, "impl:bitmap", "ids:"+sch.Name, "known-hit")
			}
			return
		}
		cls := []string{"impl:bitmap", "geom:" + gclass, "ids:" + sch.Name}
		if intoUsed {
			cls = append(cls, "restore-into-used-instance")
		}
		if moved {
			cls = append(cls, "setallocation-move")
		}
		nt := aa >= 1 && len(pre) >= 3
		vstat.Case(nt, vstat.Hash("bitmap", cidr, unit, sopsString(pre), sopsString(post), intoUsed, strings.Join(ids, "\x00")), func() any {
			return map[string]any{"impl": "bitmap", "pool": cidr, "unit": unit, "id_scheme": sch.Name, "ids": ids, "history": hist}
		}, cls...)
	})
}

// bitmapCase runs one generated serialise/restore case of IPAllocator over the given id alphabet and returns its
// first failure (nil: none), the history, whether a SetAllocation move happened and the allocation count.
func bitmapCase(cidr string, unit int, ids []string, pre, post []sop, intoUsed, allowMove bool) (f *sfail, hist []string, moved bool, aa uint64) {
	a, err := allocator.NewIPAllocator(cidr, unit)
	if err != nil {
		return &sfail{kind: "constructor-error", msg: err.Error()}, nil, false, 0
	}
	for _, o := range pre {
		res, mv := applyBitmap(a, o, cidr, unit, allowMove, ids)
		moved = moved || mv
		hist = append(hist, o.String()+"="+res)
	}
	invalidInState := false
	for _, id := range ids {
		if !utf8.ValidString(id) && a.Lookup(id) != nil {
			invalidInState = true
		}
	}
	fail := func(kind, format string, args ...any) {
		f = &sfail{kind: kind, msg: fmt.Sprintf(format, args...), invalidInState: invalidInState}
	}
	data, err := json.Marshal(a)
	if err != nil {
		fail("marshal-error", "MarshalJSON: %v", err)
		return
	}
	r := &allocator.IPAllocator{}
	if intoUsed {
		r, _ = allocator.NewIPAllocator("192.0.2.0/28", 32)
		r.Allocate("zz")
		r.Allocate(ids[1])
	}
	if err := json.Unmarshal(data, r); err != nil {
		fail("unmarshal-error", "UnmarshalJSON of the allocator's own output: %v\n  json: %s", err, data)
		return
	}
	hist = append(hist, "RESTORE")
	if d := compareBitmap(a, r, cidr, unit, ids); d != nil {
		fail("restore-query-differs/"+d.query, "%s: %s", d.query, d.detail)
		for _, id := range ids {
			if !utf8.ValidString(id) || f.validEntry != "" {
				continue
			}
			pa, pr := a.Lookup(id), r.Lookup(id)
			if ipn(pa) != ipn(pr) {
				f.validEntry = fmt.Sprintf("Lookup(%q): original %s, restored %s", id, ipn(pa), ipn(pr))
			} else if pa != nil && (r.LookupByPrefix(pa) != id || !r.IsAllocated(pa)) {
				f.validEntry = fmt.Sprintf("%q holds %s: restored LookupByPrefix answers %q, IsAllocated %v", id, ipn(pa), r.LookupByPrefix(pa), r.IsAllocated(pa))
			}
		}
		return
	}
	for _, o := range post {
		var ra, rr string
		var mv bool
		if p := guard(func() {
			ra, mv = applyBitmap(a, o, cidr, unit, allowMove, ids)
			rr, _ = applyBitmap(r, o, cidr, unit, allowMove, ids)
		}); p != "" {
			fail("panic", "%s panicked: %s", o, p)
			return
		}
		hist = append(hist, o.String()+"="+ra)
		sfx := ""
		if moved {
			sfx = "/after-setallocation-move"
		}
		if ra != rr {
			fail("restore-continuation-differs/"+o.Kind+sfx, "%s: original %s, restored %s", o, ra, rr)
			return
		}
		if d := compareBitmap(a, r, cidr, unit, ids); d != nil {
			fail("restore-continuation-differs/"+d.query+sfx, "after %s %s: %s", o, d.query, d.detail)
			return
		}
		moved = moved || mv
	}
	d2, _ := json.Marshal(r)
	d1, _ := json.Marshal(a)
	if string(d1) != string(d2) {
		fail("remarshal-differs", "original serialises to %s, restored to %s", d1, d2)
		return
	}
	aa, _, _ = a.Stats()
	return
}

// ---- EpochBitmapAllocator -----------------------------------------------------

func epochProbes(cidr string, total int) []net.IP {
	var out []net.IP
	n := total
	if n > 12 {
		n = 12
	}
	for i := 0; i < n; i++ {
		out = append(out, prefixAt(cidr, 32, i).IP)
	}
	out = append(out, net.ParseIP("203.0.113.7"))
	return out
}

func compareEpoch(a, r *allocator.EpochBitmapAllocator, cidr string, total int, ids []string) *diff {
	var d *diff
	if p := guard(func() {
		cmp(&d, "GetCurrentEpoch", a.GetCurrentEpoch(), r.GetCurrentEpoch())
		aa, at, au := a.Stats()
		ra, rtot, ru := r.Stats()
		cmp(&d, "Stats", fmt.Sprint(aa, at, au), fmt.Sprint(ra, rtot, ru))
		for _, s := range ids {
			cmp(&d, "Lookup", a.Lookup(s), r.Lookup(s))
		}
		for _, ip := range epochProbes(cidr, total) {
			cmp(&d, "LookupByIP", a.LookupByIP(ip), r.LookupByIP(ip))
		}
	}); p != "" {
		return &diff{"panic", p}
	}
	return d
}

func applyEpoch(x *allocator.EpochBitmapAllocator, o sop, ids []string) string {
	ctx := context.Background()
	s := ids[o.Sub]
	switch o.Kind {
	case "alloc":
		ip, err := x.Allocate(ctx, s)
		return fmt.Sprint(ip) + "," + errClass(err)
	case "renew":
		return errClass(x.Renew(ctx, s))
	case "release":
		return errClass(x.Release(ctx, s))
	case "advance":
		return fmt.Sprint(x.AdvanceEpoch())
	}
	return ""
}

var epochKinds = []string{"alloc", "alloc", "alloc", "renew", "release", "advance", "advance"}

func TestPropSerialEpoch(t *testing.T) {
	vstat.Checks(2500, 50000)
	rapid.Check(t, func(rt *rapid.T) {
		pl := rapid.SampledFrom([]int{24, 27, 28, 29, 29, 30}).Draw(rt, "poolLen")
		unit := 32
		uclass := "unit/32"
		if oneIn(rt, "unitNot32", 3) {
			unit = rapid.IntRange(pl+1, 31).Draw(rt, "unit")
			uclass = "unit-not-32"
		}
		b := net.IPv4(10, byte(rapid.IntRange(0, 255).Draw(rt, "b1")), byte(rapid.IntRange(0, 255).Draw(rt, "b2")), byte(rapid.IntRange(0, 255).Draw(rt, "b3"))).To4()
		pool := &net.IPNet{IP: b.Mask(net.CIDRMask(pl, 32)), Mask: net.CIDRMask(pl, 32)}
		cidr := pool.String()
		grace := uint64(rapid.SampledFrom([]int{0, 1, 1, 2}).Draw(rt, "grace"))
		cfg := allocator.EpochBitmapConfig{BaseNetwork: cidr, PrefixLength: unit, GracePeriod: grace}
		a, err := allocator.NewEpochBitmapAllocator(cfg)
		if err != nil {
			rt.Fatalf("constructor rejects generated config %+v: %v", cfg, err)
		}
		total := 1 << (unit - pl)
		sch := pools.GenIDScheme(nSubs, "p1").Draw(rt, "ids")
		ids := sch.IDs
		pre := genSops(rt, "pre", epochKinds, 0, 20)
		post := genSops(rt, "post", epochKinds, 1, 14)
		intoUsed := rapid.IntRange(0, 3).Draw(rt, "restoreIntoUsed") == 0
		exercise := oneIn(rt, "exercise", 2)
		const hintSig = "C12/epoch/restore-continuation-differs/alloc-picks-other-free-address"
		if vstat.IsListed(hintSig) && !exercise {
			// The scan hint is not serialised (listed finding): it only matters once a slot below it is free
			// again without Release, i.e. after a lease ran out.  Steer: no lease runs out in these cases.
			eff := int(grace)
			if eff == 0 {
				eff = 1
			}
			adv := 0
			cap := func(ops []sop) {
				for i := range ops {
					if ops[i].Kind == "advance" {
						if adv >= eff {
							ops[i].Kind = "renew"
						} else {
							adv++
						}
					}
				}
			}
			cap(pre)
			cap(post)
		}
		var hist []string
		expiries := 0
		for _, o := range pre {
			hist = append(hist, o.String()+"="+applyEpoch(a, o, ids))
			if o.Kind == "advance" {
				expiries++
			}
		}
		impl := "epoch"
		if unit != 32 {
			impl = "epoch-unit-not-32"
		}
		fail := func(kind, f string, args ...any) bool {
			// one signature space for both unit classes (only the serialised-pool check below is unit specific)
			return vstat.Fail(rt, "C12/epoch/"+kind, "%s\n  config %+v ids(%s) %q\n  history: %s", fmt.Sprintf(f, args...), cfg, sch.Name, ids, strings.Join(hist, "; "))
		}
		data, err := json.Marshal(a)
		if err != nil {
			fail("marshal-error", "MarshalJSON: %v", err)
			return
		}
		// the serialised form is the exported EpochBitmapState: it must record the configured pool
		var st allocator.EpochBitmapState
		if err := json.Unmarshal(data, &st); err == nil {
			if st.BaseNetwork != cidr || st.PrefixLength != unit {
				if vstat.Fail(rt, "C12/"+impl+"/marshal-wrong-base-network", "allocator configured with %s allocating /%d serialises base_network=%q prefix_length=%d", cidr, unit, st.BaseNetwork, st.PrefixLength) {
					// listed: the restored instance is a different pool; nothing further is comparable
					vstat.Case(false, 0, nil, "impl:"+impl, "known-hit")
					return
				}
			}
		}
		r := &allocator.EpochBitmapAllocator{}
		if intoUsed {
			r, _ = allocator.NewEpochBitmapAllocator(allocator.EpochBitmapConfig{BaseNetwork: "192.0.2.0/28", PrefixLength: 32, GracePeriod: 2})
			r.Allocate(context.Background(), "zz")
			r.Allocate(context.Background(), ids[1])
			r.AdvanceEpoch()
		}
		if err := json.Unmarshal(data, r); err != nil {
			fail("unmarshal-error", "UnmarshalJSON of the allocator's own output: %v\n  json: %s", err, data)
			return
		}
		hist = append(hist, "RESTORE")
		if d := compareEpoch(a, r, cidr, total, ids); d != nil {
			if fail("restore-query-differs/"+d.query, "%s: %s", d.query, d.detail) {
				return
			}
		}
		for _, o := range post {
			var ra, rr string
			otherFree := false
			if p := guard(func() {
				ra = applyEpoch(a, o, ids)
				aFreeInR := o.Kind == "alloc" && strings.HasSuffix(ra, ",ok") && r.LookupByIP(net.ParseIP(strings.TrimSuffix(ra, ",ok"))) == ""
				rr = applyEpoch(r, o, ids)
				// both succeeded, and each instance's choice was free on the other one: only the choice among free addresses differs
				otherFree = aFreeInR && ra != rr && strings.HasSuffix(rr, ",ok") && a.LookupByIP(net.ParseIP(strings.TrimSuffix(rr, ",ok"))) == ""
			}); p != "" {
				fail("panic", "%s panicked: %s", o, p)
				return
			}
			hist = append(hist, o.String()+"="+ra)
			if ra != rr {
				kind := "restore-continuation-differs/" + o.Kind
				if otherFree {
					kind += "-picks-other-free-address"
				}
				if fail(kind, "%s: original %s, restored %s", o, ra, rr) {
					vstat.Case(true, vstat.Hash("epoch", cidr, unit, grace, sopsString(pre), sopsString(post), intoUsed, strings.Join(ids, "\x00")), nil, "impl:"+impl, "known-hit")
				}
				return
			}
			if d := compareEpoch(a, r, cidr, total, ids); d != nil {
				fail("restore-continuation-differs/"+d.query, "after %s %s: %s", o, d.query, d.detail)
				return
			}
		}
		d1, _ := json.Marshal(a)
		d2, _ := json.Marshal(r)
		if string(d1) != string(d2) {
			fail("remarshal-differs", "original serialises to %s, restored to %s", d1, d2)
			return
		}
		cls := []string{"impl:" + impl, uclass, fmt.Sprintf("grace:%d", grace), "ids:" + sch.Name}
		if intoUsed {
			cls = append(cls, "restore-into-used-instance")
		}
		if expiries >= 2 {
			cls = append(cls, "advances>=2-before-serialise")
		}
		if exercise {
			cls = append(cls, "exercise-known")
		}
		vstat.Case(len(pre) >= 3, vstat.Hash("epoch", cidr, unit, grace, sopsString(pre), sopsString(post), intoUsed, strings.Join(ids, "\x00")), func() any {
			return map[string]any{"impl": impl, "config": fmt.Sprintf("%+v", cfg), "id_scheme": sch.Name, "ids": ids, "history": hist}
		}, cls...)
	})
}

// ---- MemoryAllocationStore ----------------------------------------------------

type msPool struct {
	id   string
	cidr string
	unit int
	typ  allocator.PoolType
}

var msPools = []msPool{
	{"v4", "10.1.0.0/28", 32, allocator.PoolTypeIPv4Address},
	{"pd", "2001:db8:100::/48", 56, allocator.PoolTypeIPv6Prefix},
	{"v6", "2001:db8:200::/64", 128, allocator.PoolTypeIPv6Address},
}

func recString(r allocator.AllocationRecord) string {
	exp := "-"
	if r.ExpiresAt != nil {
		exp = fmt.Sprint(r.ExpiresAt.UnixNano())
	}
	var md []string
	for k, v := range r.Metadata {
		md = append(md, k+"="+v)
	}
	sort.Strings(md)
	return fmt.Sprintf("%s|%s|%s|%s|%s|%s|%d|%d|%s|%s", r.SubscriberID, r.PoolID, r.PoolType, ipn(r.Prefix), r.MAC, r.DUID, r.IAID,
		r.AllocatedAt.UnixNano(), exp, strings.Join(md, ","))
}

func recsString(rs []allocator.AllocationRecord, err error) string {
	var l []string
	for _, r := range rs {
		l = append(l, recString(r))
	}
	sort.Strings(l)
	return strings.Join(l, " ; ") + " " + errClass(err)
}

func compareMemStore(a, r *allocator.MemoryAllocationStore, probes []net.IP, ids []string) *diff {
	ctx := context.Background()
	var d *diff
	cmp(&d, "Count", a.Count(), r.Count())
	la, ea := a.ListPools(ctx)
	lr, er := r.ListPools(ctx)
	sort.Strings(la)
	sort.Strings(lr)
	cmp(&d, "ListPools", fmt.Sprint(la, ea), fmt.Sprint(lr, er))
	for _, p := range append(msPools, msPool{id: "nopool"}) {
		cmp(&d, "GetByPool", recsString(a.GetByPool(ctx, p.id)), recsString(r.GetByPool(ctx, p.id)))
		aa, at, ae := a.GetPoolUtilization(ctx, p.id)
		ra, rtot, re := r.GetPoolUtilization(ctx, p.id)
		cmp(&d, "GetPoolUtilization", fmt.Sprint(aa, at, ae), fmt.Sprint(ra, rtot, re))
	}
	for _, s := range ids {
		cmp(&d, "GetBySubscriber", recsString(a.GetBySubscriber(ctx, s)), recsString(r.GetBySubscriber(ctx, s)))
	}
	for _, pt := range []allocator.PoolType{allocator.PoolTypeIPv4Address, allocator.PoolTypeIPv6Address, allocator.PoolTypeIPv6Prefix, ""} {
		cmp(&d, "GetByPoolType", recsString(a.GetByPoolType(ctx, pt)), recsString(r.GetByPoolType(ctx, pt)))
	}
	byIP := func(x *allocator.MemoryAllocationStore, ip net.IP) string {
		rec, err := x.GetByIP(ctx, ip)
		if err != nil || rec == nil {
			return "none," + errClass(err)
		}
		return recString(*rec)
	}
	for _, ip := range probes {
		cmp(&d, "GetByIP", byIP(a, ip), byIP(r, ip))
	}
	return d
}

// msState is the harness's own view of who holds what (so generated saves look like a real caller's).
type msState struct {
	held map[string]string // pool/sub -> prefix
}

func (m *msState) freeIdx(p msPool, want int) int {
	used := map[string]bool{}
	for k, v := range m.held {
		if strings.HasPrefix(k, p.id+"/") {
			used[v] = true
		}
	}
	n := poolUnits(p.cidr, p.unit)
	if n > 14 {
		n = 14
	}
	for i := 0; i < n; i++ {
		j := (want + i) % n
		if !used[prefixAt(p.cidr, p.unit, j).String()] {
			return j
		}
	}
	return -1
}

// applyMemStore applies a direct store operation built only from (op, model state).
func applyMemStore(x *allocator.MemoryAllocationStore, m *msState, o sop, commit bool, allowMove bool, ids []string) (string, string) {
	ctx := context.Background()
	p := msPools[o.Arg%len(msPools)]
	s := ids[o.Sub]
	k := p.id + "/" + s
	class := ""
	switch o.Kind {
	case "save":
		prefix, has := m.held[k]
		if has && allowMove && o.Arg >= 12 {
			if i := m.freeIdx(p, o.Arg); i >= 0 {
				prefix = prefixAt(p.cidr, p.unit, i).String() // upsert with a new prefix without removing first
				class = "resave-different-prefix"
			}
		}
		if !has {
			i := m.freeIdx(p, o.Arg)
			if i < 0 {
				return "full", ""
			}
			prefix = prefixAt(p.cidr, p.unit, i).String()
		} else if class == "" {
			class = "resave-same-prefix"
		}
		_, pn, _ := net.ParseCIDR(prefix)
		rec := allocator.AllocationRecord{SubscriberID: s, PoolID: p.id, PoolType: p.typ, Prefix: pn,
			AllocatedAt: time.Unix(1700000000+int64(o.Arg), int64(o.Sub)*1000+7)}
		switch o.Arg % 4 {
		case 1:
			rec.MAC = fmt.Sprintf("02:00:00:00:00:%02x", o.Sub)
		case 2:
			rec.DUID, rec.IAID = fmt.Sprintf("0003000102000000%04x", o.Arg), uint32(o.Arg)+1
			e := time.Unix(1800000000, 0)
			rec.ExpiresAt = &e
		case 3:
			rec.Metadata = map[string]string{"circuit": fmt.Sprintf("c%d", o.Arg), "isp": "x"}
		}
		err := x.SaveAllocation(ctx, rec)
		if err == nil && commit {
			m.held[k] = prefix
		}
		return errClass(err), class
	case "remove":
		err := x.RemoveAllocation(ctx, p.id, s)
		if commit {
			delete(m.held, k)
		}
		return errClass(err), ""
	case "setTotal":
		x.SetPoolTotal(p.id, 16+o.Arg)
		return "ok", ""
	}
	return "", ""
}

var msKinds = []string{"save", "save", "save", "remove", "setTotal"}

func TestPropSerialMemStore(t *testing.T) {
	vstat.Checks(2000, 40000)
	rapid.Check(t, func(rt *rapid.T) {
		// the store's real writer is PoolAllocator on behalf of pkg/dhcpv6 (raw client DUID as subscriber id)
		sch := mixRaw(rt, pools.GenIDSchemeRaw(nSubs, msPools[0].id).Draw(rt, "ids"))
		ids := sch.IDs
		viaPool := genSops(rt, "pool", []string{"palloc", "palloc", "palloc", "prelease"}, 0, 12)
		pre := genSops(rt, "pre", msKinds, 0, 10)
		post := genSops(rt, "post", msKinds, 1, 10)
		allowMove := !vstat.IsListed("C12/memstore/restore-query-differs/GetByIP/after-resave-different-prefix") || oneIn(rt, "exercise", 3)
		intoUsed := rapid.IntRange(0, 3).Draw(rt, "restoreIntoUsed") == 0
		run := func(ids []string) *msOut { return memStoreCase(ids, viaPool, pre, post, allowMove, intoUsed) }
		o := run(ids)
		if o.ctorErr != nil {
			rt.Fatalf("pool allocator: %v", o.ctorErr)
		}
		known := false
		if f := o.f; f != nil {
			kind, note := classifyNonUTF8(f, ids, func(tw []string) *sfail { return run(tw).f })
			known = vstat.Fail(rt, "C12/memstore/"+kind, "%s%s\n  ids(%s) %q\n  history: %s", f.msg, note, sch.Name, ids, strings.Join(o.hist, "; "))
			if !known {
				return
			}
		}
		cls := []string{"impl:memstore", "ids:" + sch.Name}
		if intoUsed {
			cls = append(cls, "restore-into-used-instance")
		}
		if o.moved {
			cls = append(cls, "resave-different-prefix")
		}
		if known {
			cls = append(cls, "known-hit")
		}
		if o.pools >= 2 {
			cls = append(cls, "records-in>=2-pools")
		}
		vstat.Case(o.count >= 2, vstat.Hash("memstore", sopsString(viaPool), sopsString(pre), sopsString(post), intoUsed, allowMove, strings.Join(ids, "\x00")), func() any {
			return map[string]any{"impl": "memstore", "id_scheme": sch.Name, "ids": ids, "history": o.hist}
		}, cls...)
	})
}

type msOut struct {
	f       *sfail
	hist    []string
	moved   bool
	count   int
	pools   int
	ctorErr error
}

// memStoreCase runs one generated serialise/restore case of MemoryAllocationStore over the given id alphabet
// (stops at its first failure).
func memStoreCase(ids []string, viaPool, pre, post []sop, allowMove, intoUsed bool) *msOut {
	out := &msOut{}
	ctx := context.Background()
	a := allocator.NewMemoryAllocationStore()
	// a real caller: PoolAllocators persisting into the store
	var pas []*allocator.PoolAllocator
	for _, p := range msPools {
		pa, err := allocator.NewPoolAllocatorWithType(allocator.PoolAllocatorConfig{PoolID: p.id, BaseNetwork: p.cidr, PrefixLength: p.unit, PoolType: p.typ, Store: a})
		if err != nil {
			out.ctorErr = err
			return out
		}
		pas = append(pas, pa)
	}
	m := &msState{held: map[string]string{}}
	probeSet := map[string]net.IP{"203.0.113.7": net.ParseIP("203.0.113.7")}
	note := func() {
		for _, v := range m.held {
			ip, _, _ := net.ParseCIDR(v)
			probeSet[ip.String()] = ip
		}
	}
	for _, o := range viaPool {
		i := o.Arg % len(msPools)
		s := ids[o.Sub]
		k := msPools[i].id + "/" + s
		if o.Kind == "palloc" {
			p, err := pas[i].Allocate(ctx, s, fmt.Sprintf("02:00:00:00:01:%02x", o.Sub))
			out.hist = append(out.hist, fmt.Sprintf("pool[%s].Allocate(%q)=%s,%s", msPools[i].id, s, ipn(p), errClass(err)))
			if err == nil {
				m.held[k] = p.String()
			}
		} else {
			err := pas[i].Release(ctx, s)
			out.hist = append(out.hist, fmt.Sprintf("pool[%s].Release(%q)=%s", msPools[i].id, s, errClass(err)))
			if err == nil {
				delete(m.held, k)
			}
		}
		note()
	}
	for _, o := range pre {
		res, c := applyMemStore(a, m, o, true, allowMove, ids)
		out.moved = out.moved || c == "resave-different-prefix"
		out.hist = append(out.hist, o.String()+"="+res)
		note()
	}
	finish := func() *msOut {
		out.count = a.Count()
		poolsSeen := map[string]bool{}
		for k := range m.held {
			poolsSeen[strings.SplitN(k, "/", 2)[0]] = true
		}
		out.pools = len(poolsSeen)
		return out
	}
	invalidInState := false
	for _, id := range ids {
		if rs, _ := a.GetBySubscriber(ctx, id); !utf8.ValidString(id) && len(rs) > 0 {
			invalidInState = true
		}
	}
	fail := func(kind, format string, args ...any) {
		sfx := ""
		if out.moved {
			sfx = "/after-resave-different-prefix"
		}
		out.f = &sfail{kind: kind, sfx: sfx, msg: fmt.Sprintf(format, args...), invalidInState: invalidInState}
	}
	data, err := json.Marshal(a)
	if err != nil {
		fail("marshal-error", "MarshalJSON: %v", err)
		return finish()
	}
	r := allocator.NewMemoryAllocationStore()
	if intoUsed {
		_, pn, _ := net.ParseCIDR("192.0.2.9/32")
		r.SaveAllocation(ctx, allocator.AllocationRecord{SubscriberID: "zz", PoolID: "old", Prefix: pn})
		r.SetPoolTotal("old", 3)
	}
	if err := json.Unmarshal(data, r); err != nil {
		fail("unmarshal-error", "UnmarshalJSON of the store's own output: %v\n  json: %s", err, data)
		return finish()
	}
	out.hist = append(out.hist, "RESTORE")
	probes := func() []net.IP {
		var ks []string
		for k := range probeSet {
			ks = append(ks, k)
		}
		sort.Strings(ks)
		o := []net.IP{net.ParseIP("192.0.2.9")}
		for _, k := range ks {
			o = append(o, probeSet[k])
		}
		return o
	}
	if d := compareMemStore(a, r, probes(), ids); d != nil {
		fail("restore-query-differs/"+d.query, "%s: %s", d.query, d.detail)
		for _, id := range ids {
			if !utf8.ValidString(id) || out.f.validEntry != "" {
				continue
			}
			ra, rr := recsString(a.GetBySubscriber(ctx, id)), recsString(r.GetBySubscriber(ctx, id))
			if ra != rr {
				out.f.validEntry = fmt.Sprintf("GetBySubscriber(%q): original %s, restored %s", id, ra, rr)
			}
		}
		return finish()
	}
	for _, o := range post {
		var ra, rr, c string
		if p := guard(func() {
			ra, c = applyMemStore(a, m, o, false, allowMove, ids)
			rr, _ = applyMemStore(r, m, o, true, allowMove, ids)
		}); p != "" {
			fail("panic", "%s panicked: %s", o, p)
			return finish()
		}
		out.moved = out.moved || c == "resave-different-prefix"
		out.hist = append(out.hist, o.String()+"="+ra)
		note()
		if ra != rr {
			fail("restore-continuation-differs/"+o.Kind, "%s: original %s, restored %s", o, ra, rr)
			return finish()
		}
		if d := compareMemStore(a, r, probes(), ids); d != nil {
			fail("restore-continuation-differs/"+d.query, "after %s %s: %s", o, d.query, d.detail)
			return finish()
		}
	}
	return finish()
}
