package c12

// Refused operations change nothing.
//
// The statement's clause "a store write failure leaves memory and store in agreement" and "no address is
// assigned to two subscribers" are decided here for the operations whose DOCUMENTED outcome is a refusal:
// SaveAllocation of a prefix another subscriber holds (by a fresh subscriber, and as a re-save by a subscriber
// that already has a record), SetAllocation / AllocateSpecific conflicts, out-of-range values, Release /
// ReleasePrefix / RemoveAllocation of unknown ids.  Oracle: whenever an operation returns an error (or is a
// removal of something that is not there) EVERY query answers exactly as before the call; operations the model
// knows to conflict must be refused; after every step the indexes agree with the harness's own record of who
// holds what and no value has two holders; serialise -> restore still gives an instance that answers every
// query identically.  Follow-up operations target the addresses a refused call touched (the address the
// requester keeps, the contested address).  The same through PoolAllocator after a restart: restored store,
// fresh allocator (empty bitmap), subscribers returning in another order.

import (
	"context"
	"encoding/json"
	"fmt"
	"net"
	"sort"
	"strings"
	"testing"
	"time"

	"github.com/codelaboratoryltd/bng/pkg/allocator"
	"pgregory.net/rapid"

	"bngverif/internal/pools"
	"bngverif/internal/vstat"
)

// qa is one query and its printable answer.
type qa struct{ q, v string }

// firstDiff returns the first query whose answer changed.
func firstDiff(before, after []qa) (string, string) {
	for i := range before {
		if i >= len(after) || before[i].q != after[i].q {
			return "query-set", "the set of queries changed"
		}
		if before[i].v != after[i].v {
			return before[i].q, fmt.Sprintf("%s answered %q before the call, %q after it", before[i].q, before[i].v, after[i].v)
		}
	}
	return "", ""
}

const ghostID = "ghost-subscriber/never-used"

// ---- MemoryAllocationStore ----------------------------------------------------------

// rfPools: three pools with disjoint ranges; only the first rfUnits units of each are used, so that conflicts are dense.
var rfPools = []msPool{
	{"v4", "10.1.0.0/28", 32, allocator.PoolTypeIPv4Address},
	{"pd", "2001:db8:100::/48", 56, allocator.PoolTypeIPv6Prefix},
}

const rfUnits = 6

func rfProbes() []net.IP {
	out := []net.IP{net.ParseIP("203.0.113.7")}
	for _, p := range rfPools {
		for i := 0; i < rfUnits+1; i++ {
			out = append(out, prefixAt(p.cidr, p.unit, i).IP)
		}
	}
	return out
}

// memAnswers asks the store everything.
func memAnswers(x *allocator.MemoryAllocationStore, ids []string, probes []net.IP) []qa {
	ctx := context.Background()
	var out []qa
	out = append(out, qa{"Count", fmt.Sprint(x.Count())})
	lp, e := x.ListPools(ctx)
	sort.Strings(lp)
	out = append(out, qa{"ListPools", fmt.Sprint(lp, errClass(e))})
	for _, p := range append(append([]msPool{}, rfPools...), msPool{id: "nopool"}) {
		out = append(out, qa{"GetByPool", recsString(x.GetByPool(ctx, p.id))})
		a, t, e := x.GetPoolUtilization(ctx, p.id)
		out = append(out, qa{"GetPoolUtilization", fmt.Sprint(a, t, errClass(e))})
	}
	for _, s := range append(append([]string{}, ids...), ghostID) {
		out = append(out, qa{"GetBySubscriber", recsString(x.GetBySubscriber(ctx, s))})
	}
	for _, pt := range []allocator.PoolType{allocator.PoolTypeIPv4Address, allocator.PoolTypeIPv6Address, allocator.PoolTypeIPv6Prefix} {
		out = append(out, qa{"GetByPoolType", recsString(x.GetByPoolType(ctx, pt))})
	}
	for _, ip := range probes {
		rec, err := x.GetByIP(ctx, ip)
		if err != nil || rec == nil {
			out = append(out, qa{"GetByIP", "none," + errClass(err)})
		} else {
			out = append(out, qa{"GetByIP", recString(*rec)})
		}
	}
	return out
}

// rfModel is the harness's own record of who holds what (pool/sub -> prefix), built from accepted operations.
type rfModel struct {
	held map[string]map[string]string // pool -> sub -> prefix
}

func newRfModel() *rfModel { return &rfModel{held: map[string]map[string]string{}} }

func (m *rfModel) holder(pool, prefix string) string {
	for s, p := range m.held[pool] {
		if p == prefix {
			return s
		}
	}
	return ""
}

func (m *rfModel) set(pool, sub, prefix string) {
	if m.held[pool] == nil {
		m.held[pool] = map[string]string{}
	}
	m.held[pool][sub] = prefix
}

func (m *rfModel) records() int {
	n := 0
	for _, h := range m.held {
		n += len(h)
	}
	return n
}

// pick returns the k-th (mod n) element of ids that satisfies want, in alphabet order ("" if none).
func pickID(ids []string, k int, want func(string) bool) string {
	var c []string
	for _, s := range ids {
		if want(s) {
			c = append(c, s)
		}
	}
	if len(c) == 0 {
		return ""
	}
	return c[k%len(c)]
}

func (m *rfModel) freeIdx(p msPool, k int) int {
	for i := 0; i < rfUnits; i++ {
		j := (k + i) % rfUnits
		if m.holder(p.id, prefixAt(p.cidr, p.unit, j).String()) == "" {
			return j
		}
	}
	return -1
}

var rfMemKinds = []string{"save-new", "save-new", "save-new", "save-same", "save-move", "save-conflict-new", "save-conflict-move", "save-conflict-move",
	"follow-up", "follow-up", "remove", "remove-unknown", "restore"}

// memStoreConsistent compares the store with the model: every held record is found under its subscriber and under
// its address, and no address has two records.
func memStoreConsistent(x *allocator.MemoryAllocationStore, m *rfModel) (kind, msg string) {
	ctx := context.Background()
	for _, p := range rfPools {
		recs, _ := x.GetByPool(ctx, p.id)
		seen := map[string]string{}
		for _, r := range recs {
			k := ipn(r.Prefix)
			if o, dup := seen[k]; dup {
				return "duplicate-address", fmt.Sprintf("pool %s records %s for both %q and %q", p.id, k, o, r.SubscriberID)
			}
			seen[k] = r.SubscriberID
		}
		if len(recs) != len(m.held[p.id]) {
			return "index-disagrees/GetByPool", fmt.Sprintf("pool %s lists %d records, %d were accepted and not removed", p.id, len(recs), len(m.held[p.id]))
		}
		for s, pref := range m.held[p.id] {
			if seen[pref] != s {
				return "index-disagrees/GetByPool", fmt.Sprintf("pool %s: %q was saved with %s, GetByPool names %q for it", p.id, s, pref, seen[pref])
			}
			ip, _, _ := net.ParseCIDR(pref)
			rec, err := x.GetByIP(ctx, ip)
			if err != nil || rec == nil {
				return "index-disagrees/GetByIP", fmt.Sprintf("pool %s: %q holds %s but GetByIP(%s) finds nothing (%v)", p.id, s, pref, ip, err)
			}
			if rec.SubscriberID != s || rec.PoolID != p.id {
				return "index-disagrees/GetByIP", fmt.Sprintf("pool %s: %q holds %s but GetByIP(%s) names %q in pool %s", p.id, s, pref, ip, rec.SubscriberID, rec.PoolID)
			}
			found := false
			rs, _ := x.GetBySubscriber(ctx, s)
			for _, r := range rs {
				if r.PoolID == p.id && ipn(r.Prefix) == pref {
					found = true
				}
			}
			if !found {
				return "index-disagrees/GetBySubscriber", fmt.Sprintf("pool %s: %q holds %s but GetBySubscriber does not list it (%s)", p.id, s, pref, recsString(rs, nil))
			}
		}
	}
	return "", ""
}

func TestPropRefusedMemStore(t *testing.T) {
	vstat.Checks(2500, 50000)
	rapid.Check(t, func(rt *rapid.T) {
		ctx := context.Background()
		sch := pools.GenIDScheme(nSubs, rfPools[0].id).Draw(rt, "ids")
		ids := sch.IDs
		ops := genSops(rt, "op", rfMemKinds, 4, 24)
		x := allocator.NewMemoryAllocationStore()
		for _, p := range rfPools {
			x.SetPoolTotal(p.id, 16)
		}
		m := newRfModel()
		probes := rfProbes()
		var hist []string
		cls := map[string]bool{"impl:memstore-refused": true, "ids:" + sch.Name: true}
		refusedWith2 := false
		known := false
		fail := func(kind, f string, args ...any) bool {
			k := vstat.Fail(rt, "C12/memstore/"+kind, "%s\n  ids(%s) %q\n  history: %s", fmt.Sprintf(f, args...), sch.Name, ids, strings.Join(hist, "; "))
			known = known || k
			return k
		}
		// the last refused save: the address its requester keeps, the contested address, the pool, the two parties
		var last struct {
			pool      msPool
			kept      string
			contested string
			req, hold string
			valid     bool
		}
		save := func(p msPool, sub, prefix string, arg int) error {
			_, pn, _ := net.ParseCIDR(prefix)
			rec := allocator.AllocationRecord{SubscriberID: sub, PoolID: p.id, PoolType: p.typ, Prefix: pn,
				AllocatedAt: time.Unix(1700000000+int64(arg), 7), MAC: fmt.Sprintf("02:00:00:00:00:%02x", arg)}
			return x.SaveAllocation(ctx, rec)
		}
	steps:
		for _, o := range ops {
			p := rfPools[o.Arg%len(rfPools)]
			has := func(s string) bool { _, ok := m.held[p.id][s]; return ok }
			hasNot := func(s string) bool { return !has(s) }
			before := memAnswers(x, ids, probes)
			var err error
			expectRefusal, noop := false, false
			desc := ""
			kind := o.Kind
			switch o.Kind {
			case "save-new":
				s := pickID(ids, o.Sub, hasNot)
				i := m.freeIdx(p, o.Arg)
				if s == "" || i < 0 {
					continue
				}
				pref := prefixAt(p.cidr, p.unit, i).String()
				err = save(p, s, pref, o.Arg)
				desc = fmt.Sprintf("save(%s,#%d,%s)", p.id, idx(ids, s), pref)
				if err == nil {
					m.set(p.id, s, pref)
				}
			case "save-same":
				s := pickID(ids, o.Sub, has)
				if s == "" {
					continue
				}
				pref := m.held[p.id][s]
				err = save(p, s, pref, o.Arg)
				desc = fmt.Sprintf("save-same(%s,#%d,%s)", p.id, idx(ids, s), pref)
			case "save-move":
				s := pickID(ids, o.Sub, has)
				i := m.freeIdx(p, o.Arg)
				if s == "" || i < 0 {
					continue
				}
				pref := prefixAt(p.cidr, p.unit, i).String()
				err = save(p, s, pref, o.Arg)
				desc = fmt.Sprintf("save-move(%s,#%d,%s->%s)", p.id, idx(ids, s), m.held[p.id][s], pref)
				if err == nil {
					m.set(p.id, s, pref)
				}
			case "save-conflict-new", "save-conflict-move":
				// the requester: a subscriber without / with a record in the pool; the target: a prefix ANOTHER subscriber holds
				var s string
				if o.Kind == "save-conflict-new" {
					s = pickID(ids, o.Sub, hasNot)
				} else {
					s = pickID(ids, o.Sub, has)
				}
				h := pickID(ids, o.Arg/2, func(c string) bool { return has(c) && c != s })
				if s == "" || h == "" {
					continue
				}
				pref := m.held[p.id][h]
				expectRefusal = true
				err = save(p, s, pref, o.Arg)
				desc = fmt.Sprintf("%s(%s,#%d keeps %q,%s held by #%d)", o.Kind, p.id, idx(ids, s), m.held[p.id][s], pref, idx(ids, h))
				last.pool, last.kept, last.contested, last.req, last.hold, last.valid = p, m.held[p.id][s], pref, s, h, true
				if err == nil {
					m.set(p.id, s, pref) // accepted although held: reported below; keep the model in step with the store
				}
			case "follow-up":
				// a third subscriber is saved on an address the last refused save touched
				if !last.valid {
					continue
				}
				p = last.pool
				has = func(s string) bool { _, ok := m.held[p.id][s]; return ok }
				target := last.kept
				kind = "follow-up-on-kept-address"
				if target == "" || o.Arg%3 == 0 {
					target, kind = last.contested, "follow-up-on-contested-address"
				}
				s := pickID(ids, o.Sub, func(c string) bool { return c != last.req && c != last.hold })
				if s == "" {
					continue
				}
				holder := m.holder(p.id, target)
				expectRefusal = holder != "" && holder != s
				err = save(p, s, target, o.Arg)
				desc = fmt.Sprintf("%s(%s,#%d keeps %q,%s held by #%d)", kind, p.id, idx(ids, s), m.held[p.id][s], target, idx(ids, holder))
				if err == nil {
					m.set(p.id, s, target)
				}
				cls["refused:"+kind] = cls["refused:"+kind] || expectRefusal
			case "remove":
				s := pickID(ids, o.Sub, has)
				if s == "" {
					continue
				}
				err = x.RemoveAllocation(ctx, p.id, s)
				desc = fmt.Sprintf("remove(%s,#%d)", p.id, idx(ids, s))
				if err == nil {
					delete(m.held[p.id], s)
				}
			case "remove-unknown":
				// nothing is recorded under (pool, subscriber): a subscriber without a record in this pool (it may
				// have one in the other pool), a subscriber never seen, or a pool that does not exist
				noop = true
				switch o.Arg % 3 {
				case 0:
					s := pickID(ids, o.Sub, hasNot)
					if s == "" {
						continue
					}
					err = x.RemoveAllocation(ctx, p.id, s)
					desc = fmt.Sprintf("remove-unknown(%s,#%d)", p.id, idx(ids, s))
				case 1:
					err = x.RemoveAllocation(ctx, p.id, ghostID)
					desc = fmt.Sprintf("remove-unknown(%s,ghost)", p.id)
				default:
					err = x.RemoveAllocation(ctx, "nopool", ids[o.Sub])
					desc = fmt.Sprintf("remove-unknown(nopool,#%d)", o.Sub)
				}
			case "restore":
				data, merr := json.Marshal(x)
				if merr != nil {
					fail("marshal-error", "MarshalJSON: %v", merr)
					break steps
				}
				r := allocator.NewMemoryAllocationStore()
				if uerr := json.Unmarshal(data, r); uerr != nil {
					fail("unmarshal-error", "UnmarshalJSON of the store's own output: %v", uerr)
					break steps
				}
				hist = append(hist, "RESTORE")
				if q, d := firstDiff(before, memAnswers(r, ids, probes)); q != "" {
					sfx := ""
					if cls["refused-op"] {
						sfx = "/after-refused-op"
					}
					if fail("restore-query-differs/"+q+sfx, "restored store: %s", d) {
						break steps
					}
				}
				x = r // the history continues on the restored instance
				cls["restore-mid-history"] = true
				continue
			}
			hist = append(hist, desc+"="+errClass(err))
			after := memAnswers(x, ids, probes)
			if err != nil || noop {
				cls["refused-op"] = true
				cls["refused:"+kind] = true
				if m.records() >= 2 {
					refusedWith2 = true
				}
				if q, d := firstDiff(before, after); q != "" {
					if fail("refused-op-changed-state/"+kind+"/"+q, "%s was refused (%v) but changed the store: %s", desc, err, d) {
						break steps
					}
				}
			}
			if expectRefusal && err == nil {
				if fail("conflicting-op-accepted/"+kind, "%s was accepted although another subscriber holds the prefix", desc) {
					break steps
				}
			}
			if !expectRefusal && !noop && err != nil {
				if fail("op-refused-without-conflict/"+kind, "%s was refused (%v) although nobody else holds the prefix", desc, err) {
					break steps
				}
			}
			if k, msg := memStoreConsistent(x, m); k != "" {
				if fail(k+"/"+kind, "after %s: %s", desc, msg) {
					break steps
				}
			}
		}
		if known {
			cls["known-hit"] = true
		}
		var cl []string
		for c, on := range cls {
			if on {
				cl = append(cl, c)
			}
		}
		sort.Strings(cl)
		vstat.Case(refusedWith2, vstat.Hash("memstore-refused", sopsString(ops), strings.Join(ids, "\x00")), func() any {
			return map[string]any{"impl": "memstore-refused", "id_scheme": sch.Name, "ids": ids, "history": hist}
		}, cl...)
	})
}

func idx(ids []string, s string) int {
	for i, x := range ids {
		if x == s {
			return i
		}
	}
	return -1
}

// ---- IPAllocator -------------------------------------------------------------------------

func bitmapAnswers(a *allocator.IPAllocator, cidr string, unit int, ids []string) []qa {
	var out []qa
	al, tot, ut := a.Stats()
	out = append(out, qa{"Stats", fmt.Sprint(al, tot, ut)})
	for _, s := range append(append([]string{}, ids...), ghostID) {
		out = append(out, qa{"Lookup", ipn(a.Lookup(s))})
	}
	for _, p := range bitmapProbes(cidr, unit) {
		out = append(out, qa{"LookupByPrefix", a.LookupByPrefix(p)})
		out = append(out, qa{"IsAllocated", fmt.Sprint(a.IsAllocated(p))})
	}
	var l []string
	for _, x := range a.ListAllocations() {
		l = append(l, fmt.Sprintf("%s=%s@%d", x.SubscriberID, ipn(x.Prefix), x.Index))
	}
	sort.Strings(l)
	out = append(out, qa{"ListAllocations", strings.Join(l, ",")})
	return out
}

var rfBitmapKinds = []string{"alloc", "alloc", "alloc", "release", "release-unknown", "allocSpecific-free", "allocSpecific-conflict", "allocSpecific-second",
	"setAllocation-free", "setAllocation-conflict", "setAllocation-conflict", "setAllocation-out-of-range", "releasePrefix-held", "releasePrefix-free", "follow-up", "follow-up", "restore"}

func TestPropRefusedBitmap(t *testing.T) {
	vstat.Checks(2500, 50000)
	rapid.Check(t, func(rt *rapid.T) {
		cidr, unit, gclass := genSessionGeom(rt)
		if oneIn(rt, "tinyPool", 1) {
			// 2..8 units: exhaustion (a refused Allocate) is reachable
			bits := rapid.IntRange(1, 3).Draw(rt, "tinyBits")
			cidr, unit, gclass = fmt.Sprintf("10.9.%d.0/%d", rapid.IntRange(0, 255).Draw(rt, "tb"), 32-bits), 32, "tiny"
		}
		a, err := allocator.NewIPAllocator(cidr, unit)
		if err != nil {
			rt.Fatalf("generator produced a geometry the constructor rejects: %v", err)
		}
		sch := pools.GenIDScheme(nSubs, "p1").Draw(rt, "ids")
		ids := sch.IDs
		ops := genSops(rt, "op", rfBitmapKinds, 4, 24)
		units := poolUnits(cidr, unit)
		if units > 8 {
			units = 8 // dense: conflicts need neighbours
		}
		held := map[string]string{} // sub -> prefix, from accepted operations
		holder := func(pref string) string {
			for s, p := range held {
				if p == pref {
					return s
				}
			}
			return ""
		}
		freeIdx := func(k int) int {
			for i := 0; i < units; i++ {
				if j := (k + i) % units; holder(prefixAt(cidr, unit, j).String()) == "" {
					return j
				}
			}
			return -1
		}
		has := func(s string) bool { _, ok := held[s]; return ok }
		hasNot := func(s string) bool { return !has(s) }
		var hist []string
		cls := map[string]bool{"impl:bitmap-refused": true, "ids:" + sch.Name: true, "geom:" + gclass: true}
		refusedWith2, known := false, false
		fail := func(kind, f string, args ...any) bool {
			k := vstat.Fail(rt, "C12/bitmap/"+kind, "%s\n  pool %s unit /%d ids(%s) %q\n  history: %s", fmt.Sprintf(f, args...), cidr, unit, sch.Name, ids, strings.Join(hist, "; "))
			known = known || k
			return k
		}
		var last struct {
			kept, contested, req, hold string
			valid                      bool
		}
	steps:
		for _, o := range ops {
			before := bitmapAnswers(a, cidr, unit, ids)
			var err error
			expectRefusal := false
			desc, kind := "", o.Kind
			conflictTarget := func(s string) (string, string) {
				h := pickID(ids, o.Arg/2, func(c string) bool { return has(c) && c != s })
				if h == "" {
					return "", ""
				}
				return h, held[h]
			}
			switch o.Kind {
			case "alloc":
				s := ids[o.Sub]
				var p *net.IPNet
				p, err = a.Allocate(s)
				desc = fmt.Sprintf("alloc(#%d)=%s", o.Sub, ipn(p))
				if err == nil {
					held[s] = p.String()
				} else {
					kind = "alloc-exhausted"
				}
			case "release":
				s := pickID(ids, o.Sub, has)
				if s == "" {
					continue
				}
				err = a.Release(s)
				desc = fmt.Sprintf("release(#%d)", idx(ids, s))
				if err == nil {
					delete(held, s)
				}
			case "release-unknown":
				s := pickID(ids, o.Sub, hasNot)
				if s == "" || o.Arg%3 == 0 {
					s = ghostID
				}
				expectRefusal = true
				err = a.Release(s)
				desc = fmt.Sprintf("release-unknown(#%d)", idx(ids, s))
			case "allocSpecific-free":
				s := pickID(ids, o.Sub, hasNot)
				i := freeIdx(o.Arg)
				if s == "" || i < 0 {
					continue
				}
				pref := prefixAt(cidr, unit, i)
				err = a.AllocateSpecific(s, pref)
				desc = fmt.Sprintf("allocSpecific(#%d,%s)", idx(ids, s), pref)
				if err == nil {
					held[s] = pref.String()
				}
			case "allocSpecific-conflict", "setAllocation-conflict":
				// the requester holds something else or nothing; the target is held by another subscriber
				s := ids[o.Sub]
				h, pref := conflictTarget(s)
				if h == "" {
					continue
				}
				_, pn, _ := net.ParseCIDR(pref)
				expectRefusal = true
				if o.Kind == "allocSpecific-conflict" {
					err = a.AllocateSpecific(s, pn)
				} else {
					err = a.SetAllocation(s, pn)
				}
				desc = fmt.Sprintf("%s(#%d keeps %q,%s held by #%d)", o.Kind, o.Sub, held[s], pref, idx(ids, h))
				last.kept, last.contested, last.req, last.hold, last.valid = held[s], pref, s, h, true
				if err == nil {
					held[s] = pref
				}
			case "allocSpecific-second":
				// the requester already holds a prefix and asks for another, free one: documented refusal (ErrAlreadyAllocated)
				s := pickID(ids, o.Sub, has)
				i := freeIdx(o.Arg)
				if s == "" || i < 0 {
					continue
				}
				pref := prefixAt(cidr, unit, i)
				expectRefusal = true
				err = a.AllocateSpecific(s, pref)
				desc = fmt.Sprintf("allocSpecific-second(#%d keeps %q,%s)", idx(ids, s), held[s], pref)
				if err == nil {
					held[s] = pref.String()
				}
			case "setAllocation-free":
				// replay of a stored record: a subscriber without an allocation, or one that moves to a free prefix
				s := ids[o.Sub]
				i := freeIdx(o.Arg)
				if i < 0 {
					continue
				}
				pref := prefixAt(cidr, unit, i)
				err = a.SetAllocation(s, pref)
				desc = fmt.Sprintf("setAllocation(#%d keeps %q,%s)", o.Sub, held[s], pref)
				if err == nil {
					held[s] = pref.String()
				}
			case "setAllocation-out-of-range":
				s := ids[o.Sub]
				_, outside, _ := net.ParseCIDR("203.0.113.7/32")
				if strings.Contains(cidr, ":") {
					_, outside, _ = net.ParseCIDR("2001:db8:ffff::/64")
				}
				if o.Arg%2 == 0 {
					_, outside, _ = net.ParseCIDR(cidr) // inside the pool but of the pool's own length, not the unit's
					if ones, _ := outside.Mask.Size(); ones == unit {
						continue
					}
				}
				expectRefusal = true
				err = a.SetAllocation(s, outside)
				desc = fmt.Sprintf("setAllocation-out-of-range(#%d keeps %q,%s)", o.Sub, held[s], outside)
			case "releasePrefix-held":
				s := pickID(ids, o.Sub, has)
				if s == "" {
					continue
				}
				_, pn, _ := net.ParseCIDR(held[s])
				err = a.ReleasePrefix(pn)
				desc = fmt.Sprintf("releasePrefix(%s of #%d)", held[s], idx(ids, s))
				if err == nil {
					delete(held, s)
				}
			case "releasePrefix-free":
				i := freeIdx(o.Arg)
				if i < 0 {
					continue
				}
				expectRefusal = true
				err = a.ReleasePrefix(prefixAt(cidr, unit, i))
				desc = fmt.Sprintf("releasePrefix-free(%s)", prefixAt(cidr, unit, i))
			case "follow-up":
				// a third subscriber asks for an address the last refused call touched
				if !last.valid {
					continue
				}
				target := last.kept
				kind = "follow-up-on-kept-address"
				if target == "" || o.Arg%3 == 0 {
					target, kind = last.contested, "follow-up-on-contested-address"
				}
				s := pickID(ids, o.Sub, func(c string) bool { return c != last.req && c != last.hold && !has(c) })
				if s == "" {
					continue
				}
				_, pn, _ := net.ParseCIDR(target)
				h := holder(target)
				expectRefusal = h != ""
				if o.Arg%2 == 0 {
					err = a.AllocateSpecific(s, pn)
				} else {
					err = a.SetAllocation(s, pn)
				}
				desc = fmt.Sprintf("%s(#%d,%s held by #%d)", kind, idx(ids, s), target, idx(ids, h))
				if err == nil {
					held[s] = target
				}
			case "restore":
				data, merr := json.Marshal(a)
				if merr != nil {
					fail("marshal-error", "MarshalJSON: %v", merr)
					break steps
				}
				r := &allocator.IPAllocator{}
				if uerr := json.Unmarshal(data, r); uerr != nil {
					fail("unmarshal-error", "UnmarshalJSON of the allocator's own output: %v\n  json: %s", uerr, data)
					break steps
				}
				hist = append(hist, "RESTORE")
				if q, d := firstDiff(before, bitmapAnswers(r, cidr, unit, ids)); q != "" {
					sfx := ""
					if cls["refused-op"] {
						sfx = "/after-refused-op"
					}
					if fail("restore-query-differs/"+q+sfx, "restored allocator: %s", d) {
						break steps
					}
				}
				a = r
				cls["restore-mid-history"] = true
				continue
			}
			hist = append(hist, desc+"="+errClass(err))
			if err != nil {
				cls["refused-op"] = true
				cls["refused:"+kind] = true
				if len(held) >= 2 {
					refusedWith2 = true
				}
				if q, d := firstDiff(before, bitmapAnswers(a, cidr, unit, ids)); q != "" {
					if fail("refused-op-changed-state/"+kind+"/"+q, "%s was refused (%v) but changed the allocator: %s", desc, err, d) {
						break steps
					}
				}
			}
			if expectRefusal && err == nil {
				if fail("conflicting-op-accepted/"+kind, "%s was accepted", desc) {
					break steps
				}
			}
			// the allocator agrees with the record of accepted operations; no prefix has two subscribers
			seen := map[string]string{}
			for _, s := range ids {
				got := a.Lookup(s)
				if ipn(got) != ipnS(held[s]) {
					if fail("index-disagrees/Lookup/"+kind, "after %s: #%d was given %q, Lookup answers %s", desc, idx(ids, s), held[s], ipn(got)) {
						break steps
					}
				}
				if got == nil {
					continue
				}
				if o2, dup := seen[got.String()]; dup {
					if fail("duplicate-address/"+kind, "after %s: %s is answered for both %q and %q", desc, got, o2, s) {
						break steps
					}
				}
				seen[got.String()] = s
				if back := a.LookupByPrefix(got); back != s {
					if fail("index-disagrees/LookupByPrefix/"+kind, "after %s: Lookup(#%d)=%s but LookupByPrefix answers %q", desc, idx(ids, s), got, back) {
						break steps
					}
				}
			}
		}
		if known {
			cls["known-hit"] = true
		}
		var cl []string
		for c, on := range cls {
			if on {
				cl = append(cl, c)
			}
		}
		sort.Strings(cl)
		vstat.Case(refusedWith2, vstat.Hash("bitmap-refused", cidr, unit, sopsString(ops), strings.Join(ids, "\x00")), func() any {
			return map[string]any{"impl": "bitmap-refused", "pool": cidr, "unit": unit, "id_scheme": sch.Name, "ids": ids, "history": hist}
		}, cl...)
	})
}

func ipnS(s string) string {
	if s == "" {
		return "<none>"
	}
	return s
}

// ---- PoolAllocator across a restart ----------------------------------------------------

// paAnswers: everything the store says about the pool plus everything the allocator says.
func paAnswers(pa *allocator.PoolAllocator, st *allocator.MemoryAllocationStore, poolID, cidr string, unit int, ids []string) []qa {
	ctx := context.Background()
	var out []qa
	out = append(out, qa{"Count", fmt.Sprint(st.Count())})
	out = append(out, qa{"GetByPool", recsString(st.GetByPool(ctx, poolID))})
	for _, s := range append(append([]string{}, ids...), ghostID) {
		out = append(out, qa{"GetBySubscriber", recsString(st.GetBySubscriber(ctx, s))})
	}
	n := poolUnits(cidr, unit)
	if n > 10 {
		n = 10
	}
	for i := 0; i < n; i++ {
		ip := prefixAt(cidr, unit, i).IP
		rec, err := st.GetByIP(ctx, ip)
		if err != nil || rec == nil {
			out = append(out, qa{"GetByIP", "none," + errClass(err)})
		} else {
			out = append(out, qa{"GetByIP", recString(*rec)})
		}
	}
	al, tot, ut := pa.Stats()
	out = append(out, qa{"Stats", fmt.Sprint(al, tot, ut)})
	for _, s := range ids {
		out = append(out, qa{"Lookup", ipn(pa.Lookup(s))})
	}
	return out
}

// storeOf reads the pool's records: subscriber -> prefix; dup names a prefix recorded for two subscribers.
func storeOf(st *allocator.MemoryAllocationStore, poolID string) (m map[string]string, dup string) {
	recs, _ := st.GetByPool(context.Background(), poolID)
	m = map[string]string{}
	seen := map[string]string{}
	for _, r := range recs {
		k := ipn(r.Prefix)
		if o, d := seen[k]; d {
			dup = fmt.Sprintf("%s for both %q and %q", k, o, r.SubscriberID)
		}
		seen[k] = r.SubscriberID
		m[r.SubscriberID] = k
	}
	return m, dup
}

var rfPaKinds = []string{"alloc", "alloc", "alloc", "alloc", "allocOpts", "release", "release-unknown", "restart"}

func TestPropRefusedPoolAllocRestart(t *testing.T) {
	vstat.Checks(2500, 50000)
	rapid.Check(t, func(rt *rapid.T) {
		ctx := context.Background()
		// small pools: after a restart the fresh bitmap offers low addresses first, which the store still records for others
		var cidr string
		var unit int
		var typ allocator.PoolType
		if rapid.IntRange(0, 3).Draw(rt, "v6") == 0 {
			cidr, unit, typ = fmt.Sprintf("2001:db8:%x::/60", rapid.IntRange(1, 0xfff).Draw(rt, "n")), 64, allocator.PoolTypeIPv6Prefix
		} else {
			bits := rapid.IntRange(2, 4).Draw(rt, "bits")
			cidr, unit, typ = fmt.Sprintf("10.8.%d.0/%d", rapid.IntRange(0, 255).Draw(rt, "b"), 32-bits), 32, allocator.PoolTypeIPv4Address
		}
		const poolID = "pa"
		sch := pools.GenIDScheme(nSubs, poolID).Draw(rt, "ids")
		ids := sch.IDs
		pre := genSops(rt, "pre", []string{"alloc", "alloc", "alloc", "allocOpts", "release"}, 2, 10)
		post := genSops(rt, "post", rfPaKinds, 3, 16)
		st := allocator.NewMemoryAllocationStore()
		newPA := func() *allocator.PoolAllocator {
			pa, err := allocator.NewPoolAllocatorWithType(allocator.PoolAllocatorConfig{PoolID: poolID, BaseNetwork: cidr, PrefixLength: unit, PoolType: typ, Store: st})
			if err != nil {
				rt.Fatalf("generator produced a configuration the constructor rejects: %v", err)
			}
			return pa
		}
		pa := newPA()
		var hist []string
		cls := map[string]bool{"impl:poolalloc-restart": true, "ids:" + sch.Name: true}
		known := false
		fail := func(kind, f string, args ...any) bool {
			k := vstat.Fail(rt, "C12/poolalloc/"+kind, "%s\n  pool %s unit /%d ids(%s) %q\n  history: %s", fmt.Sprintf(f, args...), cidr, unit, sch.Name, ids, strings.Join(hist, "; "))
			known = known || k
			return k
		}
		restarted, refusedAfterRestart := false, false
		restart := func() bool {
			data, merr := json.Marshal(st)
			if merr != nil {
				fail("marshal-error", "MarshalJSON: %v", merr)
				return false
			}
			before, _ := storeOf(st, poolID)
			r := allocator.NewMemoryAllocationStore()
			if uerr := json.Unmarshal(data, r); uerr != nil {
				fail("unmarshal-error", "UnmarshalJSON of the store's own output: %v", uerr)
				return false
			}
			st = r
			pa = newPA() // fresh allocator: empty bitmap, the store is all that survived
			after, _ := storeOf(st, poolID)
			if fmt.Sprint(before) != fmt.Sprint(after) {
				if fail("restore-query-differs/GetByPool", "records before the restart %v, after it %v", before, after) {
					return false
				}
			}
			hist = append(hist, "RESTART")
			restarted = true
			return true
		}
		step := func(o sop) bool {
			s := ids[o.Sub]
			before := paAnswers(pa, st, poolID, cidr, unit, ids)
			recBefore, _ := storeOf(st, poolID)
			var err error
			var got *net.IPNet
			kind, desc := o.Kind, ""
			switch o.Kind {
			case "alloc":
				got, err = pa.Allocate(ctx, s, fmt.Sprintf("02:00:00:00:02:%02x", o.Sub))
				desc = fmt.Sprintf("alloc(#%d)=%s", o.Sub, ipn(got))
			case "allocOpts":
				got, err = pa.AllocateWithOptions(ctx, allocator.AllocateOptions{SubscriberID: s, DUID: "00030001020000000" + fmt.Sprint(o.Sub), IAID: uint32(o.Sub + 1)})
				desc = fmt.Sprintf("allocOpts(#%d)=%s", o.Sub, ipn(got))
				kind = "alloc"
			case "release":
				err = pa.Release(ctx, s)
				desc = fmt.Sprintf("release(#%d)", o.Sub)
			case "release-unknown":
				err = pa.Release(ctx, ghostID)
				desc = "release(ghost)"
			case "restart":
				return restart()
			}
			hist = append(hist, desc+"="+errClass(err))
			if err != nil {
				cls["refused-op"] = true
				cls["refused:"+kind] = true
				if restarted && len(recBefore) >= 2 && kind == "alloc" {
					refusedAfterRestart = true
					cls["refused:alloc-after-restart"] = true
				}
				if q, d := firstDiff(before, paAnswers(pa, st, poolID, cidr, unit, ids)); q != "" {
					if fail("refused-op-changed-state/"+kind+"/"+q, "%s failed (%v) but changed store or allocator: %s", desc, err, d) {
						return false
					}
				}
			}
			rec, dup := storeOf(st, poolID)
			if dup != "" {
				if fail("duplicate-address/"+kind, "after %s the store records %s", desc, dup) {
					return false
				}
			}
			if err == nil && kind == "alloc" {
				if rec[s] != ipn(got) {
					if fail("alloc-not-persisted", "%s returned %s, the store records %q", desc, ipn(got), rec[s]) {
						return false
					}
				}
				if l := pa.Lookup(s); ipn(l) != ipn(got) {
					if fail("index-disagrees/Lookup/"+kind, "%s returned %s, Lookup answers %s", desc, ipn(got), ipn(l)) {
						return false
					}
				}
				if recBefore[s] != "" && recBefore[s] != rec[s] {
					cls["returning-subscriber-moved"] = true
				}
				if recBefore[s] != "" && restarted {
					cls["returning-subscriber-after-restart"] = true
				}
			}
			// every other subscriber's record is untouched by this call, and each record's address leads back to it
			for o2, p2 := range recBefore {
				if o2 != s && rec[o2] != p2 {
					if fail("other-subscriber-changed/"+kind, "%s changed the record of %q from %s to %q", desc, o2, p2, rec[o2]) {
						return false
					}
				}
			}
			for o2, p2 := range rec {
				ip, _, _ := net.ParseCIDR(p2)
				r, gerr := st.GetByIP(ctx, ip)
				if gerr != nil || r == nil || r.SubscriberID != o2 {
					who := "nobody"
					if r != nil {
						who = r.SubscriberID
					}
					if fail("index-disagrees/GetByIP/"+kind, "after %s: the store records %s for %q, GetByIP(%s) names %q (%v)", desc, p2, o2, ip, who, gerr) {
						return false
					}
				}
			}
			return true
		}
		ok := true
		for _, o := range pre {
			if ok = step(o); !ok {
				break
			}
		}
		if ok {
			ok = restart()
		}
		if ok {
			for _, o := range post {
				if !step(o) {
					break
				}
			}
		}
		if known {
			cls["known-hit"] = true
		}
		var cl []string
		for c, on := range cls {
			if on {
				cl = append(cl, c)
			}
		}
		sort.Strings(cl)
		vstat.Case(refusedAfterRestart, vstat.Hash("poolalloc-restart", cidr, unit, sopsString(pre), sopsString(post), strings.Join(ids, "\x00")), func() any {
			return map[string]any{"impl": "poolalloc-restart", "pool": cidr, "unit": unit, "id_scheme": sch.Name, "ids": ids, "history": hist}
		}, cl...)
	})
}

// TestReplayRefusedSaveChangesNothing: a=.1, b=.2; a is re-saved on .2 (refused: b holds it); every query answers as
// before, and a third subscriber cannot be saved on .1.  Then the restart form: a and b allocated through a
// PoolAllocator, store serialised and restored, fresh allocator, b returns first (offered a's address: refused), a
// returns, c arrives: no address is recorded for two subscribers and b's record is what it was.
func TestReplayRefusedSaveChangesNothing(t *testing.T) {
	ctx := context.Background()
	ids := []string{"sub-a", "sub-b", "sub-c"}
	p := rfPools[0]
	x := allocator.NewMemoryAllocationStore()
	save := func(sub string, i int) error {
		return x.SaveAllocation(ctx, allocator.AllocationRecord{SubscriberID: sub, PoolID: p.id, PoolType: p.typ, Prefix: prefixAt(p.cidr, p.unit, i), AllocatedAt: time.Unix(1700000000, 0)})
	}
	_ = save("sub-a", 1)
	_ = save("sub-b", 2)
	before := memAnswers(x, ids, rfProbes())
	err := save("sub-a", 2)
	vstat.Case(true, vstat.Hash("replay", "refused-save"), nil, "replay:refused-save")
	if err == nil {
		vstat.Fail(t, "C12/memstore/conflicting-op-accepted/save-conflict-move", "save(a,.1), save(b,.2), save(a,.2) was accepted")
	} else if q, d := firstDiff(before, memAnswers(x, ids, rfProbes())); q != "" {
		vstat.Fail(t, "C12/memstore/refused-op-changed-state/save-conflict-move/"+q, "save(a,.1), save(b,.2), save(a,.2) refused (%v): %s", err, d)
	}
	if err := save("sub-c", 1); err == nil {
		vstat.Fail(t, "C12/memstore/conflicting-op-accepted/follow-up-on-kept-address", "after the refused save(a,.2), save(c,.1) was accepted although a holds .1")
	}

	st := allocator.NewMemoryAllocationStore()
	pa, err := allocator.NewPoolAllocator("p", "10.8.0.0/29", 32, st)
	if err != nil {
		t.Fatalf("INCONCLUSIVE constructor: %v", err)
	}
	pa.Allocate(ctx, "sub-a", "")
	pa.Allocate(ctx, "sub-b", "")
	want, _ := storeOf(st, "p")
	data, _ := json.Marshal(st)
	after := allocator.NewMemoryAllocationStore()
	if err := json.Unmarshal(data, after); err != nil {
		t.Fatalf("VIOLATION sig=C12/memstore/unmarshal-error: %v", err)
	}
	pa2, _ := allocator.NewPoolAllocator("p", "10.8.0.0/29", 32, after)
	pa2.Allocate(ctx, "sub-b", "")
	pa2.Allocate(ctx, "sub-a", "")
	pa2.Allocate(ctx, "sub-c", "")
	got, dup := storeOf(after, "p")
	vstat.Case(true, vstat.Hash("replay", "refused-save-restart"), nil, "replay:refused-save-restart")
	if dup != "" {
		vstat.Fail(t, "C12/poolalloc/duplicate-address/alloc", "restart, b returns (refused), a returns, c arrives: the store records %s", dup)
	}
	if got["sub-b"] != want["sub-b"] {
		vstat.Fail(t, "C12/poolalloc/other-subscriber-changed/alloc", "b's record was %s before the restart, %q after a and c were served", want["sub-b"], got["sub-b"])
	}
}
