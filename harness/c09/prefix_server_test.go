package c09

// Generated session histories for the PPPoE server entry points.
//
// pppoePrelude reaches each session state with one fixed exchange (Host-Uniq 4
// bytes, LCP request with MRU 1492 + magic, PAP alice/secret, IPCP request with
// 0.0.0.0 + DNS).  What the server keeps per session (HostUniq, ServiceName,
// PeerMRU, PeerMagic, Username, ClientIP) and per server (pool occupancy, other
// sessions) is then always the same.  Here the exchange that leads to the
// selected state is described by six shape bytes; every frame of it is a
// well-formed frame a PPPoE client may send.

import (
	"bytes"
	"fmt"
	"net"

	"github.com/codelaboratoryltd/bng/pkg/pppoe"
	"pgregory.net/rapid"
)

// srvShape is the decoded selector bytes [2..7] of a server case.
type srvShape struct {
	mode byte // 0 = fixed prelude
	disc byte // bits0-1 Service-Name tag (named / empty / absent / named+relay-session-id), bits2-4 Host-Uniq (absent, empty, 4, 4, 64, 255, 1, 16 bytes), bit5 PADR without a preceding PADI, bit6 PADI/PADR sent twice, bit7 server configuration (small pool, CHAP, no DNS)
	lcp  byte // bits0-5 options of the client's LCP Configure-Request (MRU, magic, PFC, ACFC, ACCM, auth), bit6 no request at all, bit7 the client Naks the server's request once before acknowledging
	pap  byte // bits0-2 / bits3-5 length classes of peer-id and password, bit6 the request is retransmitted, bit7 an LCP Echo-Request between the phases
	ipcp byte // bits0-1 IP-Address option (0.0.0.0 / assigned-looking / absent / foreign), bit2 primary DNS, bit3 secondary DNS, bit4 second request after the Nak, bit5 acknowledge before requesting, bits6-7 other clients that completed authentication first (pool pressure)
	misc byte // option order of the LCP / IPCP requests; bit7 how a terminated session ended (PADT / LCP Terminate-Request)
}

var srvHostUniqLens = []int{-1, 0, 4, 4, 64, 255, 1, 16}

func newPPPoEServerCfg(variant bool) *pppoe.Server {
	if !variant {
		return newPPPoEServer()
	}
	s, err := pppoe.VerifC09NewServer(pppoe.ServerConfig{
		Interface: "verif0", ACName: "AC", ServiceName: "internet", ServerIP: "10.9.0.1",
		ClientPool: "10.9.0.0/30", PoolGateway: "10.9.0.1", AuthType: "chap", MRU: 1400, // one client address; no DNS servers
	}, srvMAC)
	if err != nil {
		panic("harness: " + err.Error())
	}
	return s
}

func tag(t int, v []byte) []byte {
	return append([]byte{byte(t >> 8), byte(t), byte(len(v) >> 8), byte(len(v))}, v...)
}

func discPkt(code byte, sid int, tags ...[]byte) []byte {
	b := bytes.Join(tags, nil)
	return append([]byte{0x11, code, byte(sid >> 8), byte(sid), byte(len(b) >> 8), byte(len(b))}, b...)
}

// srvHistory drives a fresh server to the selected session state along the generated exchange.
func srvHistory(s *pppoe.Server, state int, sh srvShape, c *caseInfo) {
	if state == 0 {
		return
	}
	dis := func(mac net.HardwareAddr, p []byte) { s.VerifC09Discovery(mac, clip(p)) }
	ses := func(mac net.HardwareAddr, sid int, proto int, ppp []byte) {
		s.VerifC09Session(mac, clip(mkSess(sid, proto, ppp)))
	}
	var tags [][]byte
	switch sh.disc & 3 {
	case 0:
		tags = append(tags, tag(0x0101, []byte("internet")))
	case 1:
		tags = append(tags, tag(0x0101, nil))
		c.class("history:service-name-empty")
	case 2:
		c.class("history:service-name-absent")
	case 3:
		tags = append(tags, tag(0x0101, []byte("internet")), tag(0x0110, []byte{0xde, 0xad, 0xbe, 0xef, 1, 2, 3, 4, 5, 6, 7, 8}))
	}
	switch n := srvHostUniqLens[sh.disc>>2&7]; {
	case n < 0:
		c.class("history:host-uniq-absent")
	default:
		tags = append(tags, tag(0x0103, bytes.Repeat([]byte{0xab}, n)))
		if n == 0 || n >= 64 {
			c.class("history:host-uniq-empty-or-long")
		}
	}
	padr := append(append([][]byte(nil), tags...), tag(0x0104, bytes.Repeat([]byte{7}, 16)))
	reps := 1
	if sh.disc&0x40 != 0 {
		reps = 2
		c.class("history:discovery-retransmitted")
	}
	for i := 0; i < reps; i++ {
		if sh.disc&0x20 == 0 {
			dis(ownerMAC, discPkt(0x09, 0, tags...))
		}
		dis(ownerMAC, discPkt(0x19, 0, padr...)) // the first PADR creates session 1
	}
	if sh.disc&0x20 != 0 {
		c.class("history:padr-without-padi")
	}
	// other clients that get through authentication first (they take client addresses from the pool)
	others := int(sh.ipcp >> 6)
	for i := 0; i < others; i++ {
		mac := net.HardwareAddr{0x02, 0, 0, 0, 1, byte(i)}
		dis(mac, discPkt(0x19, 0, tag(0x0101, nil), tag(0x0104, bytes.Repeat([]byte{8}, 16))))
		sid := reps + 1 + i // sessions are numbered in creation order (a retransmitted PADR creates a second one)
		ses(mac, sid, 0xc021, cpPkt(2, 1, nil))
		ses(mac, sid, 0xc023, mkCP(1, 1, "03 626f62  01 78"))
	}
	if others > 0 {
		c.class(fmt.Sprintf("history:other-clients-%d", others))
	}
	sid := 1
	if _, ok := s.VerifC09SessionState(1); !ok {
		return
	}
	echo := func() {
		if sh.pap&0x80 != 0 {
			ses(ownerMAC, sid, 0xc021, cpPkt(9, 0x33, []byte{1, 2, 3, 4, 'p', 'i', 'n', 'g'}))
		}
	}
	if state >= 2 {
		// LCP: the client's own request (possibly none: the server then never learns a peer MRU / magic) ...
		var o []cpo
		if sh.lcp&0x01 != 0 {
			o = append(o, cpo{1, []byte{0x05, 0xd4}})
		}
		if sh.lcp&0x02 != 0 {
			o = append(o, cpo{5, []byte{1, 2, 3, 4}})
		}
		if sh.lcp&0x04 != 0 {
			o = append(o, cpo{7, nil})
		}
		if sh.lcp&0x08 != 0 {
			o = append(o, cpo{8, nil})
		}
		if sh.lcp&0x10 != 0 {
			o = append(o, cpo{2, []byte{0, 0, 0, 0}})
		}
		if sh.lcp&0x20 != 0 {
			o = append(o, cpo{3, []byte{0xc0, 0x23}})
		}
		if sh.lcp&0x40 == 0 {
			ses(ownerMAC, sid, 0xc021, cpPkt(1, 7, encOpts(permute(o, sh.misc))))
			if sh.lcp&0x01 == 0 {
				c.class("history:lcp-request-without-mru")
			}
			if sh.lcp&0x02 == 0 {
				c.class("history:lcp-request-without-magic")
			}
		} else {
			c.class("history:no-lcp-request")
		}
		// ... and its answer to the server's: optionally a Nak first (the server sends a new request)
		if sh.lcp&0x80 != 0 {
			ses(ownerMAC, sid, 0xc021, cpPkt(3, 1, encOpts([]cpo{{1, []byte{0x05, 0x78}}})))
			c.class("history:lcp-nak-before-ack")
		}
		ses(ownerMAC, sid, 0xc021, cpPkt(2, 1+sh.lcp>>7, nil))
		echo()
	}
	if state >= 3 {
		il, pl := authIDLens[sh.pap&7], authPwLens[sh.pap>>3&7]
		body := append(append([]byte{byte(il)}, bytes.Repeat([]byte{'u'}, il)...), byte(pl))
		body = append(body, bytes.Repeat([]byte{'p'}, pl)...)
		ses(ownerMAC, sid, 0xc023, cpPkt(1, 1, body))
		if sh.pap&0x40 != 0 {
			ses(ownerMAC, sid, 0xc023, cpPkt(1, 2, body)) // retransmission: authentication and IPCP start run again
			c.class("history:pap-retransmitted")
		}
		if il == 0 || il >= 64 {
			c.class("history:username-empty-or-long")
		}
		echo()
	}
	if state >= 4 {
		var o []cpo
		switch sh.ipcp & 3 {
		case 0:
			o = append(o, cpo{3, []byte{0, 0, 0, 0}})
		case 1:
			o = append(o, cpo{3, []byte{10, 9, 0, 2}})
		case 2:
			c.class("history:ipcp-request-without-address")
		case 3:
			o = append(o, cpo{3, []byte{192, 0, 2, 1}})
		}
		if sh.ipcp&4 != 0 {
			o = append(o, cpo{129, []byte{0, 0, 0, 0}})
		}
		if sh.ipcp&8 != 0 {
			o = append(o, cpo{131, []byte{0, 0, 0, 0}})
		}
		o = permute(o, sh.misc>>3)
		if sh.ipcp&0x20 != 0 {
			ses(ownerMAC, sid, 0x8021, cpPkt(2, 2, nil)) // established before the client asked for anything
			c.class("history:ipcp-ack-before-request")
		}
		ses(ownerMAC, sid, 0x8021, cpPkt(1, 3, encOpts(o)))
		if sh.ipcp&0x10 != 0 {
			for i := range o {
				if o[i].t == 3 {
					o[i].d = []byte{10, 9, 0, 2}
				} else {
					o[i].d = []byte{10, 9, 0, 1}
				}
			}
			ses(ownerMAC, sid, 0x8021, cpPkt(1, 4, encOpts(o)))
		}
		if sh.ipcp&0x20 == 0 {
			ses(ownerMAC, sid, 0x8021, cpPkt(2, 2, nil))
		}
		echo()
	}
	if state >= 5 {
		if sh.misc&0x80 != 0 {
			ses(ownerMAC, sid, 0xc021, cpPkt(5, 0x44, []byte("bye")))
			c.class("history:ended-by-lcp-terminate")
		} else {
			dis(ownerMAC, discPkt(0xa7, sid))
		}
	}
}

func genSrvShape(rt *rapid.T) []byte {
	if uni(rt, 5, "prefix") == 0 {
		return []byte{0, 0, 0, 0, 0, 0}
	}
	disc := pick[byte](rt, "svcName", 0, 0, 1, 2, 3) | byte(uni(rt, 8, "hostUniq"))<<2 | bits(rt, "discFlow", 15, 15, 30)<<5
	lcp := bits(rt, "lcpOpts", 50, 60, 25, 25, 15, 10, 20, 30)
	pap := byte(uni(rt, 64, "papLens")) | bits(rt, "papFlow", 20, 30)<<6
	ipcp := pick[byte](rt, "ipOpt", 0, 0, 1, 2, 3) | bits(rt, "ipcpFlow", 50, 30, 40, 26)<<2 | pick[byte](rt, "others", 0, 0, 0, 1, 2, 3)<<6
	return []byte{1, disc, lcp, pap, ipcp, byte(uni(rt, 256, "order"))}
}
