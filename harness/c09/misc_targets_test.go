package c09

import (
	"bytes"
	"encoding/json"
	"fmt"
	"net"
	"net/http"
	"net/http/httptest"
	"strings"
	"sync"
	"testing"
	"time"

	"github.com/codelaboratoryltd/bng/pkg/ha"
	"github.com/codelaboratoryltd/bng/pkg/nat"
	"github.com/codelaboratoryltd/bng/pkg/ztp"
	"github.com/insomniacslk/dhcp/dhcpv4"
	"go.uber.org/zap"
	"pgregory.net/rapid"
)

// ---------------------------------------------------------------------------
// HA sync messages
// ---------------------------------------------------------------------------

// haType: the known message types, or a keyword harvested from the package under test (a message type added by a
// change is in the dictionary)
func haType(rt *rapid.T) any {
	if d := dictFor("ha"); len(d.strs) > 0 && uni(rt, 4, "typeFromDict") == 0 {
		return d.strs[uni(rt, len(d.strs), "typeDict")]
	}
	return rapid.SampledFrom([]any{"full", "add", "update", "delete", "heartbeat", "full_request", "bogus", 7, nil}).Draw(rt, "type")
}

func genSyncJSON(rt *rapid.T) *bld {
	sess := func() map[string]any {
		m := map[string]any{
			"session_id": rapid.SampledFrom([]string{"s1", "s2", "", "s1"}).Draw(rt, "sid"),
			"mac":        "02:00:00:00:00:aa", "ip": "10.9.0.2", "vlan": rapid.SampledFrom([]any{100, -1, 1e30, "x", nil}).Draw(rt, "vlan"),
			"session_type": "ipoe", "state": "active", "walled_garden": rapid.SampledFrom([]any{true, false, "yes", nil}).Draw(rt, "wg"),
			"created_at": rapid.SampledFrom([]any{"2026-01-02T03:04:05Z", "0000-00-00T00:00:00Z", "x", 5, nil}).Draw(rt, "ts"),
		}
		if rapid.Bool().Draw(rt, "extra") {
			m["s_tag"] = rapid.SampledFrom([]any{100, 65536, -5, "a"}).Draw(rt, "stag")
			m["download_rate_bps"] = rapid.SampledFrom([]any{1000, 1.5, 1e40, -1}).Draw(rt, "rate")
		}
		return m
	}
	var ss any
	switch rapid.IntRange(0, 5).Draw(rt, "sessShape") {
	case 0:
		ss = nil
	case 1:
		ss = "not-a-list"
	default:
		l := []any{}
		for n := rapid.IntRange(0, 4).Draw(rt, "nsess"); n > 0; n-- {
			if rapid.IntRange(0, 9).Draw(rt, "nullSess") == 0 {
				l = append(l, nil)
			} else {
				l = append(l, sess())
			}
		}
		ss = l
	}
	msg := map[string]any{
		"type":         haType(rt),
		"sessions":     ss,
		"timestamp":    rapid.SampledFrom([]any{"2026-01-02T03:04:05Z", "bad", 1}).Draw(rt, "mts"),
		"sequence_num": rapid.SampledFrom([]any{1, 18446744073709551615.0, -1, "1"}).Draw(rt, "seq"),
		"node_id":      "node-a",
	}
	b, _ := json.Marshal(msg)
	return &bld{b: b}
}

var haConsts = [][]byte{
	[]byte(`{"type":"add","sessions":[{"session_id":"s1","mac":"02:00:00:00:00:aa","ip":"10.9.0.2","vlan":1,"session_type":"ipoe","created_at":"2026-01-02T03:04:05Z","last_activity":"2026-01-02T03:04:05Z","state":"active","walled_garden":false}],"timestamp":"2026-01-02T03:04:05Z","node_id":"a"}`),
	[]byte(`{"type":"delete","sessions":[{"session_id":"s1"}]}`), []byte(`{"type":"full","sessions":null}`), []byte(`{"type":"heartbeat"}`),
	[]byte(`{"type":"update","sessions":[null,null]}`), []byte(`{}`), []byte(`null`), []byte(`[]`), []byte(`""`), []byte(`{"type":"add","sessions":[{}]}`),
	[]byte(strings.Repeat("[", 2000)), []byte(strings.Repeat(`{"sessions":`, 150)), []byte(`{"sequence_num":1e999}`), []byte(`{"type":"add","sessions":[{"vlan":99999999999999999999}]}`),
	[]byte(`{"type":"` + strings.Repeat("a", 1900) + `"}`), []byte("{\"type\":\"add\"\n,\"sessions\":[]}"), {},
}

var (
	haSrvOnce sync.Once
	haSrv     *httptest.Server
	haBodyMu  sync.Mutex
	haBody    []byte
)

func haPeer() *httptest.Server {
	haSrvOnce.Do(func() {
		haSrv = httptest.NewServer(http.HandlerFunc(func(w http.ResponseWriter, r *http.Request) {
			haBodyMu.Lock()
			b := append([]byte(nil), haBody...)
			haBodyMu.Unlock()
			if strings.HasSuffix(r.URL.Path, "/stream") {
				w.Header().Set("Content-Type", "text/event-stream")
			} else {
				w.Header().Set("Content-Type", "application/json")
			}
			w.WriteHeader(http.StatusOK)
			_, _ = w.Write(b)
		}))
	})
	return haSrv
}

func init() {
	register(&target{
		name: "ha.DecodeSyncMessage",
		run: func(data []byte, c *caseInfo) {
			c.nt = json.Valid(data)
			if c.nt {
				c.class("valid-json")
			}
			m, err := ha.DecodeSyncMessage(data)
			if err == nil && m != nil {
				c.class("decoded")
				_, _ = m.Encode()
			}
		},
		gen:   func(rt *rapid.T) []byte { return genPacket(rt, genSyncJSON, haConsts) },
		seeds: func() [][]byte { return haConsts },
	})

	// ha-sse — case layout: [0] delivery: 0 = SSE data handler called directly; 1 = the bytes are the raw body of
	// the peer's event stream, read by the standby's real stream reader over HTTP; 2 = the bytes are one event
	// framed as "data: …\n\n"; 3 = the bytes are the body of the peer's full-sync reply. [1] bit0: a session
	// "s1" was synced before. rest = bytes.
	register(&target{
		name: "ha-sse",
		run: func(data []byte, c *caseInfo) {
			sel, body := split(data, 2)
			peer := haPeer()
			cfg := ha.DefaultSyncConfig()
			cfg.NodeID, cfg.Role = "node-b", ha.RoleStandby
			cfg.Partner = &ha.PartnerInfo{NodeID: "node-a", Endpoint: strings.TrimPrefix(peer.URL, "http://")}
			cfg.RequestTimeout = 20 * time.Second
			s := ha.NewHASyncer(cfg, ha.NewInMemorySessionStore(), zap.NewNop())
			defer s.Stop()
			if sel[1]&1 != 0 {
				_ = s.VerifC09HandleSSEData(haConsts[0])
				c.class("state:session-synced")
			} else {
				c.class("state:empty")
			}
			c.nt = json.Valid(body)
			switch sel[0] % 4 {
			case 0:
				c.class("via:handleSSEData")
				_ = s.VerifC09HandleSSEData(body)
			case 1, 2:
				b := body
				if sel[0]%4 == 2 {
					c.class("via:stream-framed")
					b = append(append([]byte("data: "), body...), '\n', '\n')
					c.nt = c.nt && !bytes.ContainsAny(body, "\n")
				} else {
					c.class("via:stream-raw")
					c.nt = bytes.Contains(body, []byte("data: "))
				}
				haBodyMu.Lock()
				haBody = b
				haBodyMu.Unlock()
				_ = s.VerifC09ConnectToStream()
			case 3:
				c.class("via:full-sync")
				haBodyMu.Lock()
				haBody = body
				haBodyMu.Unlock()
				_ = s.VerifC09PerformFullSync()
			}
			if c.nt {
				c.class("reaches-decoder")
			}
			c.class(fmt.Sprintf("after:sessions=%d", min(len(s.GetAllReceivedSessions()), 3)))
		},
		gen: func(rt *rapid.T) []byte {
			mode := rapid.SampledFrom([]byte{0, 0, 0, 1, 2, 2, 3}).Draw(rt, "delivery")
			var b []byte
			if mode == 1 && rapid.Bool().Draw(rt, "sseLines") {
				// a stream body made of SSE lines, some of them events
				var sb bytes.Buffer
				for n := rapid.IntRange(0, 5).Draw(rt, "nlines"); n > 0; n-- {
					sb.WriteString(rapid.SampledFrom([]string{"data: ", "data:", "data: ", ": comment", "event: x", "", "data: data: "}).Draw(rt, "prefix"))
					sb.Write(genPacket(rt, genSyncJSON, haConsts))
					sb.WriteString(rapid.SampledFrom([]string{"\n", "\n\n", "\r\n", ""}).Draw(rt, "eol"))
				}
				b = sb.Bytes()
				lastGenClass = "sse-lines"
			} else {
				b = genPacket(rt, genSyncJSON, haConsts)
			}
			return withSel(b, mode, selByte(rt, 2, "pre"))
		},
		seeds: func() [][]byte {
			var o [][]byte
			for _, k := range haConsts {
				o = append(o, withSel(k, 0, 0), withSel(k, 0, 1), withSel(k, 2, 0), withSel(k, 3, 0))
			}
			o = append(o, withSel([]byte("data: \n"), 1, 0), withSel([]byte("data: "), 1, 0), withSel([]byte("data: {}\ndata: {\"type\":\"full\"}\n"), 1, 0))
			return o
		},
	})
}

// ---------------------------------------------------------------------------
// NAT ALGs
// ---------------------------------------------------------------------------

func newALG(poolEmpty bool) *nat.ALGHandler {
	log := zap.NewNop()
	m, err := nat.NewManager(nat.ManagerConfig{Interface: "lo", PortsPerSubscriber: 16384, EnableFTPALG: true, EnableSIPALG: true}, log)
	if err != nil {
		panic("harness: " + err.Error())
	}
	if !poolEmpty {
		if err := m.AddPublicIP(net.IPv4(203, 0, 113, 1)); err != nil {
			panic("harness: " + err.Error())
		}
	}
	return nat.NewALGHandler(m, log)
}

var algConn = nat.ALGConnection{SubscriberID: 1, PrivateIP: net.IPv4(10, 9, 0, 5), PrivatePort: 40000, PublicIP: net.IPv4(203, 0, 113, 1),
	PublicPort: 2000, DestIP: net.IPv4(198, 51, 100, 7), DestPort: 21, Protocol: 6}

func numStr(rt *rapid.T) string {
	return rapid.SampledFrom([]string{"0", "1", "10", "255", "256", "999", "65535", "65536", "4294967296", "99999999999999999999", "18446744073709551616",
		strings.Repeat("9", 200), "-1", "", "007"}).Draw(rt, "num")
}

func bldFTP(rt *rapid.T) *bld {
	var sb strings.Builder
	for n := rapid.IntRange(1, 4).Draw(rt, "nlines"); n > 0; n-- {
		switch rapid.IntRange(0, 6).Draw(rt, "line") {
		case 0:
			fmt.Fprintf(&sb, "PORT %s,%s,%s,%s,%s,%s", numStr(rt), numStr(rt), numStr(rt), numStr(rt), numStr(rt), numStr(rt))
		case 1:
			sb.WriteString("PORT 10,9,0,5,4,1")
		case 2:
			fmt.Fprintf(&sb, "227 Entering Passive Mode (%s,%s,%s,%s,%s,%s)", numStr(rt), numStr(rt), numStr(rt), numStr(rt), numStr(rt), numStr(rt))
		case 3:
			fmt.Fprintf(&sb, "EPRT |1|%s|%s|", rapid.SampledFrom([]string{"10.9.0.5", "::1", "garbage", "", "256.1.1.1", "10.9.0.5.6", "2001:db8::1"}).Draw(rt, "eprtIP"), numStr(rt))
		case 4:
			fmt.Fprintf(&sb, "229 Entering Extended Passive Mode (|||%s|)", numStr(rt))
		case 5:
			sb.WriteString(rapid.SampledFrom([]string{"USER anonymous", "RETR file", "200 OK", "port 1,2,3,4,5,6", "eprt |1|1.2.3.4|5|", "EPRT |2|::1|5|"}).Draw(rt, "other"))
		default:
			if d := dictFor("nat"); len(d.strs) > 0 && uni(rt, 2, "kwFromDict") == 0 {
				// a command keyword / reply code harvested from the package under test, with plausible arguments
				fmt.Fprintf(&sb, "%s %s,%s,%s,%s,%s,%s", d.strs[uni(rt, len(d.strs), "kw")], numStr(rt), numStr(rt), numStr(rt), numStr(rt), numStr(rt), numStr(rt))
			} else {
				sb.Write(rbytes(rt, 0, 30, "junk"))
			}
		}
		sb.WriteString(rapid.SampledFrom([]string{"\r\n", "\r\n", "\n", ""}).Draw(rt, "eol"))
	}
	return &bld{b: []byte(sb.String())}
}

func bldSIP(rt *rapid.T) *bld {
	ip := rapid.SampledFrom([]string{"10.9.0.5", "203.0.113.1", "10.9.0.50", "1.2.3.4"}).Draw(rt, "ip")
	var sb strings.Builder
	sb.WriteString(rapid.SampledFrom([]string{"INVITE sip:bob@example.com SIP/2.0", "SIP/2.0 200 OK", "REGISTER sip:example.com SIP/2.0", ""}).Draw(rt, "start") + "\r\n")
	for n := rapid.IntRange(0, 8).Draw(rt, "nhdr"); n > 0; n-- {
		switch rapid.IntRange(0, 6).Draw(rt, "hdr") {
		case 0:
			fmt.Fprintf(&sb, "Via: SIP/2.0/UDP %s:5060;branch=z9hG4bK%s\r\n", ip, numStr(rt))
		case 1:
			fmt.Fprintf(&sb, "Contact: <sip:alice@%s:%s>\r\n", ip, numStr(rt))
		case 2:
			fmt.Fprintf(&sb, "c=IN IP4 %s\r\n", ip)
		case 3:
			fmt.Fprintf(&sb, "o=- %s %s IN IP4 %s\r\n", numStr(rt), numStr(rt), ip)
		case 4:
			fmt.Fprintf(&sb, "m=audio %s RTP/AVP 0\r\n", numStr(rt))
		case 5:
			fmt.Fprintf(&sb, "Content-Length: %s\r\n\r\n", numStr(rt))
		default:
			sb.WriteString(strings.Repeat(ip+" ", rapid.IntRange(0, 40).Draw(rt, "rep")) + "\n")
		}
	}
	return &bld{b: []byte(sb.String())}
}

// case layout: [0] bit0 = inbound (else outbound), bit1 = NAT pool empty; rest = TCP/UDP payload.
func algTarget(name string, algType uint8, build func(*rapid.T) *bld, consts [][]byte, reaches func(string) bool) {
	register(&target{
		name: name,
		run: func(data []byte, c *caseInfo) {
			sel, payload := split(data, 1)
			h := newALG(sel[0]&2 != 0)
			conn := algConn
			c.nt = len(payload) > 0 && reaches(string(payload))
			if c.nt {
				c.class("reaches-rewrite")
			}
			out := sel[0]&1 == 0
			if out {
				c.class("dir:outbound")
			} else {
				c.class("dir:inbound")
			}
			res, err := h.ProcessPacket(algType, &conn, payload, out)
			if err == nil && !bytes.Equal(res, payload) {
				c.class("rewritten")
			}
		},
		gen: func(rt *rapid.T) []byte { return withSel(genPacket(rt, build, consts), selByte(rt, 4, "mode")) },
		seeds: func() [][]byte {
			var o [][]byte
			for _, k := range consts {
				o = append(o, withSel(k, 0), withSel(k, 1), withSel(k, 2))
			}
			return o
		},
	})
}

func init() {
	ftpConsts := [][]byte{[]byte("PORT 10,9,0,5,4,1\r\n"), []byte("227 Entering Passive Mode (198,51,100,7,4,1)\r\n"), []byte("EPRT |1|10.9.0.5|1234|\r\n"),
		[]byte("229 Entering Extended Passive Mode (|||1234|)\r\n"), []byte("EPRT |1|garbage|1|\r\n"), []byte("EPRT |1||0|"), []byte("PORT 999,999,999,999,999,999"),
		[]byte("PORT " + strings.Repeat("9", 300) + ",1,1,1,1,1"), []byte("227 ((((((((1,2,3,4,5,6)"), []byte("229 (|||99999999999999999999|)"), []byte("EPRT |1|::1|1|\r\nPORT 1,2,3,4,5,6")}
	algTarget("nat-ftp-alg", nat.ALGTypeFTP, bldFTP, ftpConsts, func(s string) bool {
		u := strings.ToUpper(s)
		return strings.Contains(u, "PORT") || strings.Contains(u, "EPRT") || strings.Contains(u, "227") || strings.Contains(u, "229")
	})
	sipConsts := [][]byte{[]byte("INVITE sip:b@x SIP/2.0\r\nVia: SIP/2.0/UDP 10.9.0.5:5060\r\nContact: <sip:a@10.9.0.5>\r\n\r\nv=0\r\no=- 1 1 IN IP4 10.9.0.5\r\nc=IN IP4 10.9.0.5\r\nm=audio 4000 RTP/AVP 0\r\n"),
		[]byte("SIP/2.0 200 OK\r\nVia: SIP/2.0/UDP 203.0.113.1:5060\r\n"), []byte("via:10.9.0.5"), []byte(strings.Repeat("c=IN IP4 10.9.0.5\n", 110)), []byte(strings.Repeat("x", 2040)), []byte("\r\n\r\n\r\n")}
	algTarget("nat-sip-alg", nat.ALGTypeSIP, bldSIP, sipConsts, func(s string) bool {
		return strings.Contains(s, "10.9.0.5") || strings.Contains(s, "203.0.113.1")
	})
}

// ---------------------------------------------------------------------------
// ZTP
// ---------------------------------------------------------------------------

func bldVendor(rt *rapid.T) *bld {
	p := &bld{}
	for n := rapid.IntRange(0, 4).Draw(rt, "nsub"); n > 0; n-- {
		d := dictFor("ztp")
		p.u8(dictType(rt, d, "type", 1, 1, 2, 0, 255))
		i := p.len8()
		v := []byte(rapid.SampledFrom([]string{"https://nexus.example:9000", "", "x"}).Draw(rt, "url"))
		if uni(rt, 4, "valFromDict") == 0 {
			v = dictBytes(rt, d, 32, "val")
		}
		p.raw(v...)
		p.set(i, len(v))
	}
	return p
}

func init() {
	parserTarget("ztp.parseVendorOptions", 2, func(b []byte) { _ = ztp.VerifC09ParseVendorOptions(b) }, bldVendor,
		[][]byte{{}, {1}, {1, 0}, {1, 1}, {1, 255}, {1, 255, 65}, {2, 1, 65, 1, 2, 66, 67}, {2, 1, 65, 1}, {2, 1, 65, 1, 9}}, nil)

	ackConsts := [][]byte{mkDHCP4(5, macA, noGi, hx("2b 06 01 04 68747470")), mkDHCP4(5, macA, noGi, hx("e0 04 68747470")), mkDHCP4(5, macA, noGi, hx("2b 02 01 ff")),
		mkDHCP4(5, macA, noGi, hx("2b 01 01")), mkDHCP4(5, macA, noGi, hx("2b 00")), mkDHCP4(5, macA, noGi, hx("e0 00")), mkDHCP4(5, macA, noGi)}
	register(&target{
		name: "ztp.extractNexusURL",
		dictSeeds: func() [][]byte {
			// every one-byte literal of the package as sub-option code of option 43 x hostile inner lists
			var o [][]byte
			for _, v := range dictFor("ztp").small {
				for _, sh := range innerShapes(1, 1, false) {
					inner := append([]byte{v, byte(len(sh))}, sh...)
					o = append(o, mkDHCP4(5, macA, noGi, append([]byte{43, byte(len(inner))}, inner...)))
				}
			}
			return o
		},
		run: func(data []byte, c *caseInfo) {
			ack, err := dhcpv4.FromBytes(data)
			if err != nil {
				c.class("frombytes-error")
				return
			}
			c.nt = true
			c.class("passes-first-length-check")
			if ack.Options.Has(dhcpv4.GenericOptionCode(43)) {
				c.class("has-option-43")
			}
			if ack.Options.Has(dhcpv4.GenericOptionCode(224)) {
				c.class("has-option-224")
			}
			_ = ztp.VerifC09ExtractNexusURL(ack)
		},
		gen: func(rt *rapid.T) []byte {
			build := func(rt *rapid.T) *bld {
				p := &bld{b: mkDHCP4(5, macA, noGi)}
				p.b = p.b[:len(p.b)-1] // drop END, append options
				for n := rapid.IntRange(0, 3).Draw(rt, "nopts"); n > 0; n-- {
					code := rapid.SampledFrom([]int{43, 43, 224, 12}).Draw(rt, "code")
					p.u8(code)
					i := p.len8()
					start := len(p.b)
					if code == 43 {
						v := bldVendor(rt)
						embed(p, v)
					} else {
						p.str("https://nexus.example")
					}
					p.set(i, len(p.b)-start)
				}
				p.u8(255)
				return p
			}
			return genPacket(rt, build, ackConsts)
		},
		seeds: func() [][]byte { return ackConsts },
	})
}

func TestPropHADecode(t *testing.T)  { runProp(t, 4000, 80000, "ha.DecodeSyncMessage") }
func TestPropHASSE(t *testing.T)     { runProp(t, 2500, 40000, "ha-sse") }
func TestPropNATFTPALG(t *testing.T) { runProp(t, 4500, 90000, "nat-ftp-alg") }
func TestPropNATSIPALG(t *testing.T) { runProp(t, 4500, 90000, "nat-sip-alg") }
func TestPropZTP(t *testing.T) {
	runProp(t, 7000, 140000, "ztp.parseVendorOptions", "ztp.extractNexusURL")
}
