package c09

import (
	"net"
	"sync"
	"testing"
	"time"

	"github.com/codelaboratoryltd/bng/pkg/dhcpv6"
	"go.uber.org/zap"
	"pgregory.net/rapid"
)

// DHCPv6 (RFC 8415) builders -------------------------------------------------

func v6opt(p *bld, code int, body func()) {
	p.u16(code)
	i := p.len16()
	start := len(p.b)
	body()
	p.set(i, len(p.b)-start)
}

var (
	duidA    = hx("0001 0001 2a2b2c2d 0200000000aa") // DUID-LLT
	duidB    = hx("0003 0001 0200000000bb")          // DUID-LL
	srvDUID6 = hx("0003 0001")                       // the server's DUID-LL on "lo" (no hardware address)
)

func addIAAddr(rt *rapid.T, p *bld) {
	v6opt(p, 5, func() {
		p.raw(rapid.SampledFrom([][]byte{hx("20010db8000000000000000000000001"), hx("20010db8000000000000000000000099"), hx("fe800000000000000000000000000001"), make([]byte, 16)}).Draw(rt, "addr")...)
		p.u32(3600).u32(7200)
		if rapid.IntRange(0, 4).Draw(rt, "iaaddrStatus") == 0 {
			v6opt(p, 13, func() { p.u16(0).str("ok") })
		}
	})
}

func addIAPrefix(rt *rapid.T, p *bld) {
	v6opt(p, 26, func() {
		p.u32(3600).u32(7200).u8(rapid.SampledFrom([]int{60, 56, 64, 0, 128, 255}).Draw(rt, "plen"))
		p.raw(hx("20010db8010000000000000000000000")...)
	})
}

func bldIANA(rt *rapid.T) *bld {
	p := &bld{}
	p.u32(uint32(rapid.IntRange(0, 3).Draw(rt, "iaid"))).u32(0).u32(0)
	for n := rapid.IntRange(0, 2).Draw(rt, "naddr"); n > 0; n-- {
		addIAAddr(rt, p)
	}
	return p
}

func bldIAPD(rt *rapid.T) *bld {
	p := &bld{}
	p.u32(uint32(rapid.IntRange(0, 3).Draw(rt, "iaid"))).u32(0).u32(0)
	for n := rapid.IntRange(0, 2).Draw(rt, "nprefix"); n > 0; n-- {
		addIAPrefix(rt, p)
	}
	return p
}

func embed(p *bld, in *bld) {
	off := len(p.b)
	p.raw(in.b...)
	p.lens = append(p.lens, shift(in.lens, off)...)
}

func addV6Options(rt *rapid.T, p *bld, withClient bool) {
	if withClient {
		v6opt(p, 1, func() {
			p.raw(rapid.SampledFrom([][]byte{duidA, duidA, duidB, {}, {0}, hx("0002 00000009 aabb")}).Draw(rt, "cid")...)
		})
	}
	d := dictFor("dhcpv6")
	for n := rapid.IntRange(0, 6).Draw(rt, "nopts"); n > 0; n-- {
		c := pick(rt, "opt", 2, 2, 3, 3, 25, 25, 6, 8, 14, 16, 17, 17, 17, 18, 9, 99)
		if uni(rt, 100, "optFromDict") < 20 {
			c = int(dictInt(rt, d, 16, "optCode"))
		}
		switch c {
		case 16: // Vendor Class: enterprise number, then length-prefixed opaque items
			v6opt(p, 16, func() {
				p.raw(be32(dictInt(rt, d, 32, "enterprise"))...)
				subTLVs(rt, p, d, 0, 2, false, "vclass")
			})
		case 17: // Vendor-specific Information: enterprise number, then sub-options (code, length, data)
			v6opt(p, 17, func() {
				if uni(rt, 12, "vendorShort") > 0 {
					p.raw(be32(dictInt(rt, d, 32, "enterprise"))...)
					subTLVs(rt, p, d, 2, 2, false, "vopt")
				} else {
					p.raw(rbytes(rt, 0, 3, "vendorStub")...)
				}
			})
		case 2:
			v6opt(p, 2, func() {
				p.raw(rapid.SampledFrom([][]byte{srvDUID6, srvDUID6, srvDUID6, duidB, {}, {0}}).Draw(rt, "sid")...)
			})
		case 3:
			v6opt(p, 3, func() { embed(p, bldIANA(rt)) })
		case 25:
			v6opt(p, 25, func() { embed(p, bldIAPD(rt)) })
		case 6:
			v6opt(p, 6, func() { p.u16(23).u16(24) })
		case 8:
			v6opt(p, 8, func() { p.u16(100) })
		case 14:
			v6opt(p, 14, func() {})
		default:
			v6opt(p, c, func() { p.raw(rbytes(rt, 0, 24, "optVal")...) })
		}
	}
}

func bldV6Message(rt *rapid.T) *bld {
	p := &bld{}
	p.u8(dictType(rt, dictFor("dhcpv6"), "msgType", 1, 1, 3, 3, 4, 5, 6, 8, 9, 11, 12, 7, 0, 200))
	p.raw(0xa1, 0xb2, 0xc3)
	addV6Options(rt, p, rapid.IntRange(0, 9).Draw(rt, "hasClientID") > 0)
	return p
}

func bldV6Options(rt *rapid.T) *bld {
	p := &bld{}
	addV6Options(rt, p, true)
	return p
}

func mkV6(msgType byte, opts ...string) []byte {
	b := []byte{msgType, 0xa1, 0xb2, 0xc3}
	for _, o := range opts {
		b = append(b, hx(o)...)
	}
	return b
}

const (
	v6Client = "0001 000e 0001 0001 2a2b2c2d 0200000000aa"
	v6Server = "0002 0004 0003 0001"
	v6IANA   = "0003 000c 00000001 00000000 00000000"
	v6IAPD   = "0019 000c 00000001 00000000 00000000"
	v6Rapid  = "000e 0000"
)

var (
	v6Solicit = mkV6(1, v6Client, v6IANA, v6IAPD)
	v6Request = mkV6(3, v6Client, v6Server, v6IANA, v6IAPD)
)

func newDHCP6(cfgSel byte) *dhcpv6.Server {
	cfg := dhcpv6.ServerConfig{Interface: "lo"}
	if cfgSel&1 == 0 {
		cfg.AddressPool = "2001:db8::/121"
	}
	if cfgSel&2 == 0 {
		cfg.PrefixPool, cfg.DelegationLength = "2001:db8:100::/56", 60
	}
	if cfgSel&4 == 0 {
		cfg.DNSServers = []string{"2001:db8::53"}
	}
	s, err := dhcpv6.NewServer(cfg, zap.NewNop())
	if err != nil {
		panic("harness: " + err.Error())
	}
	s.VerifC09SetConn(v6Socket())
	return s
}

// v6Socket is the socket replies are written to: they are built, serialised and written; the peer is a link-local
// address on lo, for which sendto fails at once with ENETUNREACH (logged by sendResponse), so no packet leaves and
// nobody else's socket is hit.
func v6Socket() *net.UDPConn {
	v6ConnOnce.Do(func() {
		var err error
		v6Conn, err = net.ListenUDP("udp6", &net.UDPAddr{IP: net.IPv6loopback, Port: 0})
		if err != nil {
			panic("harness: " + err.Error())
		}
	})
	return v6Conn
}

var (
	v6ConnOnce sync.Once
	v6Conn     *net.UDPConn
	v6Peer     = &net.UDPAddr{IP: net.ParseIP("fe80::2:aa"), Port: 546, Zone: "lo"}
)

func init() {
	v6Hostile := [][]byte{
		mkV6(1), mkV6(1, "0001 0000"), mkV6(1, "0001 ffff"), mkV6(1, v6Client, "0003 0000"), mkV6(1, v6Client, "0003 000b 0000000100000000000000"),
		mkV6(1, v6Client, "0003 0010 00000001 00000000 00000000 0005 ffff"), mkV6(3, v6Client, "0002 0000", v6IANA), mkV6(3, v6Client, "0002 0001 00", v6IANA),
		mkV6(4, v6Client, "0003 0028 00000001 00000000 00000000 0005 0018 20010db8000000000000000000000001 00000e10 00001c20"),
		mkV6(4, v6Client, "0003 0014 00000001 00000000 00000000 0005 0004 20010db8"), mkV6(1, v6Client, v6Rapid, v6IANA), mkV6(8, v6Client), mkV6(5, v6Client, v6IANA), mkV6(11, v6Client),
		mkV6(1, v6Client, "0019 0010 00000001 00000000 00000000 001a ffff"), v6Solicit, v6Request,
	}
	parserTarget("dhcpv6.ParseMessage", 4, func(b []byte) { _, _ = dhcpv6.ParseMessage(b) }, bldV6Message, v6Hostile, nil)
	parserTarget("dhcpv6.ParseOptions", 4, func(b []byte) { _, _ = dhcpv6.ParseOptions(b) }, bldV6Options,
		[][]byte{hx("0001 0000"), hx("0001 ffff"), hx("0001 0001"), hx("0001 0001 41 0002")}, nil)
	parserTarget("dhcpv6.ParseIANA", 12, func(b []byte) { _, _ = dhcpv6.ParseIANA(b) }, bldIANA,
		[][]byte{hx("00000001 00000000 00000000"), hx("00000001 00000000 000000"), hx("00000001 00000000 00000000 0005"), hx("00000001 00000000 00000000 0005 ffff")}, nil)
	parserTarget("dhcpv6.ParseIAPD", 12, func(b []byte) { _, _ = dhcpv6.ParseIAPD(b) }, bldIAPD,
		[][]byte{hx("00000001 00000000 00000000"), hx("00000001 00000000 00000000 001a 0019"), hx("00000001 00000000 00000000 001a ffff")}, nil)
	parserTarget("dhcpv6.ParseIAAddress", 24, func(b []byte) { _, _ = dhcpv6.ParseIAAddress(b) },
		func(rt *rapid.T) *bld {
			p := &bld{}
			p.raw(hx("20010db8000000000000000000000001")...).u32(1).u32(2)
			if rapid.Bool().Draw(rt, "status") {
				v6opt(p, 13, func() { p.u16(0).str("ok") })
			}
			return p
		}, [][]byte{make([]byte, 23), make([]byte, 24), append(make([]byte, 24), 0, 13, 0xff, 0xff)}, nil)
	parserTarget("dhcpv6.ParseIAPrefix", 25, func(b []byte) { _, _ = dhcpv6.ParseIAPrefix(b) },
		func(rt *rapid.T) *bld {
			p := &bld{}
			p.u32(1).u32(2).u8(rapid.SampledFrom([]int{0, 56, 64, 128, 255}).Draw(rt, "plen")).raw(hx("20010db8010000000000000000000000")...)
			if rapid.Bool().Draw(rt, "status") {
				v6opt(p, 13, func() { p.u16(0).str("ok") })
			}
			return p
		}, [][]byte{make([]byte, 24), make([]byte, 25), append(make([]byte, 25), 0, 13, 0xff, 0xff)}, nil)
	parserTarget("dhcpv6.ParseDUID", 2, func(b []byte) {
		if d, _ := dhcpv6.ParseDUID(b); d != nil {
			_ = d.Serialize()
		}
	}, func(rt *rapid.T) *bld {
		return &bld{b: rapid.SampledFrom([][]byte{duidA, duidB, srvDUID6, {0}, {}}).Draw(rt, "duid")}
	}, [][]byte{{}, {0}, {0, 1}, duidA}, nil)

	// dhcp6-handler — case layout: [0] prelude (0 none; 1 Solicit+Request by client A → lease; 2 rapid-commit Solicit
	// by client A → lease; 3 lease then Release), [1] server configuration (bit0 no address pool, bit1 no prefix
	// pool, bit2 no DNS), [2] 0 = the fixed prelude of [0], otherwise [3..4] describe a generated history (d6Shape),
	// rest = raw UDP payload.
	register(&target{
		name: "dhcp6-handler", nsel: d6Sel,
		dictSeeds: func() [][]byte {
			// every integer literal of the package (and the boundary values) as enterprise number of a Vendor-specific
			// Information option x hostile sub-option lists, in the messages a bound client sends
			var o [][]byte
			seen := map[uint64]bool{}
			for _, v := range append(dictFor("dhcpv6").ints(32), boundaries...) {
				if seen[v] {
					continue
				}
				seen[v] = true
				for _, sh := range innerShapes(2, 2, false) {
					body := append(be32(v), sh...)
					vo := append([]byte{0, 17, byte(len(body) >> 8), byte(len(body))}, body...)
					for _, typ := range []byte{1, 3, 5, 11} {
						m := mkV6(typ, v6Client, v6Server, v6IANA)
						o = append(o, withSel(append(m, vo...), 1, 0, 0, 0, 0))
					}
				}
			}
			return o
		},
		run: func(data []byte, c *caseInfo) {
			sel, raw := split(data, d6Sel)
			var s *dhcpv6.Server
			final := func() {
				if s.VerifC09LeaseCount() > 0 {
					c.class("state:lease-held")
				} else {
					c.class("state:no-lease")
				}
				m, err := dhcpv6.ParseMessage(raw)
				if err != nil {
					c.class("parse-error")
					return
				}
				c.nt = true
				c.class("passes-first-length-check")
				if m.Type >= 1 && m.Type <= 11 && m.Type != 2 && m.Type != 7 && m.Type != 10 {
					c.class("msg:handled-type")
					if m.GetOption(dhcpv6.OptClientID) != nil {
						c.class("msg:has-client-id")
					}
				}
				s.VerifC09Handle(m, v6Peer)
				if s.VerifC09LeaseCount() > 0 {
					c.class("after:lease-held")
				}
			}
			if sel[2] != 0 {
				c.class("prefix:generated")
				sh := d6Shape{sel[3], sel[4]}
				short := sh.b&4 != 0
				valid := 7200 * time.Second
				if short {
					valid = 120 * time.Second
					c.class("history:short-lifetimes")
				}
				v6Socket()
				body := func() {
					s = newDHCP6Cfg(sel[1], short)
					dhcp6History(s, sh, valid, c)
					final()
				}
				if sh.b&3 != 0 {
					inBubble(body) // virtual time
				} else {
					body()
				}
				return
			}
			c.class("prefix:fixed")
			s = newDHCP6(sel[1])
			deliver := func(b []byte) {
				if m, err := dhcpv6.ParseMessage(b); err == nil {
					s.VerifC09Handle(m, v6Peer)
				}
			}
			switch sel[0] % 4 {
			case 1:
				deliver(v6Solicit)
				deliver(v6Request)
			case 2:
				deliver(mkV6(1, v6Client, v6Rapid, v6IANA, v6IAPD))
			case 3:
				deliver(v6Solicit)
				deliver(v6Request)
				deliver(mkV6(8, v6Client, v6Server))
			}
			final()
		},
		gen: func(rt *rapid.T) []byte {
			return withSel(genPacket(rt, bldV6Message, v6Hostile), append([]byte{selByte(rt, 4, "prelude"), selByte(rt, 8, "cfg")}, genD6Shape(rt)...)...)
		},
		seeds: func() [][]byte {
			var o [][]byte
			for _, k := range v6Hostile {
				o = append(o, withSel(k, 0, 0, 0, 0, 0), withSel(k, 1, 0, 0, 0, 0), withSel(k, 1, 3, 0, 0, 0),
					withSel(k, 0, 2, 1, 0x01, 0x00), withSel(k, 0, 0, 1, 0x94, 0x0a), withSel(k, 0, 1, 1, 0x12, 0x27))
			}
			return o
		},
	})
}

const d6Sel = 5

func TestPropDHCPv6Parsers(t *testing.T) {
	runProp(t, 10000, 200000, "dhcpv6.ParseMessage", "dhcpv6.ParseOptions", "dhcpv6.ParseIANA", "dhcpv6.ParseIAPD", "dhcpv6.ParseIAAddress", "dhcpv6.ParseIAPrefix", "dhcpv6.ParseDUID")
}
func TestPropDHCPv6Handler(t *testing.T) { runProp(t, 4000, 80000, "dhcp6-handler") }
