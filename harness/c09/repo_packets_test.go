package c09

// The repository's own test packets (pkg/pppoe/protocol_test.go, pkg/pppoe/keepalive_test.go,
// pkg/dhcpv6/protocol_test.go; pkg/dhcp/fuzz_test.go is in dhcp4_test.go), transcribed as seed-corpus entries of the
// targets that parse them.  Stateful targets get them behind zero selector bytes (fixed prelude, first state).
var repoPackets = map[string][][]byte{
	"pppoe.ParsePPPoEHeader": {hx("11 09 0000 0004"), hx("11 09 0001 0000"), hx("11 19 0001 0000"), hx("11 a7 0001 0000"), hx("11 09 00")},
	"pppoe.ParseTags": {hx("0101 0008 696e7465726e6574"), hx("0101 0003 697370 0102 0005 424e472d31"),
		hx("0101 0003 697370 0000 0000 0102 0005 424e472d31"), hx("0103 0004 01020304"), hx("0104 0004 deadbeef")},
	"pppoe.ParseLCPPacket":  {hx("01 01 0008 05 06 12345678"), hx("01 01 0004"), hx("02 01 0004"), hx("09 01 0004"), hx("01 01 0008 01 04 05d4")},
	"pppoe.ParseLCPOptions": {hx("01 04 05d4"), hx("05 06 12345678"), hx("01 04 05d4 05 06 11223344 03 04 c023"), hx("63 04 0102"), hx("02 04 002d")},
	"pppoe.ParseEchoPacket": {hx("12345678 010203"), hx("abcdef01"), hx("1234")},
	"lcp-fsm":               {withSel(hx("01 01 0008 05 06 12345678"), make([]byte, fsmSel)...), withSel(hx("01 01 000e 01 04 05d4 05 06 11223344 03 04 c023"), 9, 0, 0, 0, 0, 0, 0, 0)},
	"dhcpv6.ParseMessage":   {hx("01 abcdef 0001 000e 0001 0001 00000000 aabbccddeeff"), hx("01 000001"), hx("0102")},
	"dhcp6-handler":         {withSel(hx("01 abcdef 0001 000e 0001 0001 00000000 aabbccddeeff"), make([]byte, d6Sel)...)},
	"dhcpv6.ParseOptions":   {hx("0001 0002 aabb 0002 0003 ccddee"), hx("0001 0010 aa"), hx("00")},
	"dhcpv6.ParseDUID":      {hx("0003 0001 aabbccddeeff"), hx("00")},
	"dhcpv6.ParseIANA":      {hx("00000001 00000e10 00001c20"), hx("00000001")},
	"dhcpv6.ParseIAPD":      {hx("00000002 00000708 00000e10")},
}
