package c09

// Dictionary harvested from the code under test.
//
// A parser that only enters its inner walk behind `if id == 14559` cannot be
// reached by guessing (1 in 2^32), and Go's native fuzzer has no compare
// tracing.  The standard remedy: at test start the non-test Go sources of the
// packages a target exercises are parsed (go/parser + go/ast) under $VERIF_REPO
// — the tree being checked, so a magic constant INTRODUCED BY A CHANGE is picked
// up automatically — into per-package dictionaries of integer literals (wide:
// >= 2 bytes; small: one byte), short string literals and byte-slice literals.
// Structure-aware generators draw ids / types / codes / vendor ids / magic
// cookies / option numbers from {dictionary ~40 %, boundary values, random};
// the stateless dictionary variants (dictSeeds) are bounded-exhaustive over
// dictionary x hostile inner shapes and are part of every Fuzz* seed corpus.

import (
	"go/ast"
	"go/parser"
	"go/token"
	"os"
	"path/filepath"
	"sort"
	"strconv"
	"strings"
	"sync"

	"pgregory.net/rapid"

	"bngverif/internal/vstat"
)

type dict struct {
	wide  []uint64 // integer literals >= 256
	small []byte   // integer literals < 256
	strs  []string // string literals of 1..32 bytes
	blobs [][]byte // []byte{...} / [N]byte{...} literals of constant elements, and []byte("...") conversions
}

var (
	dictMu    sync.Mutex
	dictCache = map[string]*dict{}
)

func repoRoot() string {
	if r := os.Getenv("VERIF_REPO"); r != "" {
		return r
	}
	return "/repo"
}

// dictFor returns the merged dictionary of the named packages (directories under $VERIF_REPO/pkg).
func dictFor(pkgs ...string) *dict {
	key := strings.Join(pkgs, ",")
	dictMu.Lock()
	defer dictMu.Unlock()
	if d := dictCache[key]; d != nil {
		return d
	}
	wide, small, strs, blobs := map[uint64]bool{}, map[byte]bool{}, map[string]bool{}, map[string]bool{}
	for _, pkg := range pkgs {
		files, _ := filepath.Glob(filepath.Join(repoRoot(), "pkg", pkg, "*.go"))
		fs := token.NewFileSet()
		for _, f := range files {
			base := filepath.Base(f)
			if strings.HasSuffix(base, "_test.go") || strings.HasPrefix(base, "verif_") {
				continue
			}
			af, err := parser.ParseFile(fs, f, nil, parser.SkipObjectResolution)
			if err != nil {
				continue
			}
			ast.Inspect(af, func(n ast.Node) bool {
				switch x := n.(type) {
				case *ast.ImportSpec:
					return false
				case *ast.BasicLit:
					switch x.Kind {
					case token.INT:
						if v, err := strconv.ParseUint(strings.ReplaceAll(x.Value, "_", ""), 0, 64); err == nil {
							if v >= 256 {
								wide[v] = true
							} else {
								small[byte(v)] = true
							}
						}
					case token.CHAR:
						if r, _, _, err := strconv.UnquoteChar(strings.Trim(x.Value, "'"), '\''); err == nil && r < 256 {
							small[byte(r)] = true
						}
					case token.STRING:
						if s, err := strconv.Unquote(x.Value); err == nil && len(s) > 0 && len(s) <= 32 {
							strs[s] = true
						}
					}
				case *ast.CompositeLit:
					if at, ok := x.Type.(*ast.ArrayType); ok {
						if id, ok := at.Elt.(*ast.Ident); ok && (id.Name == "byte" || id.Name == "uint8") && len(x.Elts) > 0 && len(x.Elts) <= 64 {
							var b []byte
							for _, e := range x.Elts {
								bl, ok := e.(*ast.BasicLit)
								if !ok {
									return true
								}
								var v uint64
								var err error
								if bl.Kind == token.CHAR {
									var r rune
									r, _, _, err = strconv.UnquoteChar(strings.Trim(bl.Value, "'"), '\'')
									v = uint64(r)
								} else {
									v, err = strconv.ParseUint(bl.Value, 0, 8)
								}
								if err != nil || v > 255 {
									return true
								}
								b = append(b, byte(v))
							}
							blobs[string(b)] = true
						}
					}
				}
				return true
			})
		}
	}
	d := &dict{}
	for v := range wide {
		d.wide = append(d.wide, v)
	}
	sort.Slice(d.wide, func(i, j int) bool { return d.wide[i] < d.wide[j] })
	for v := range small {
		d.small = append(d.small, v)
	}
	sort.Slice(d.small, func(i, j int) bool { return d.small[i] < d.small[j] })
	for s := range strs {
		d.strs = append(d.strs, s)
	}
	sort.Strings(d.strs)
	var bl []string
	for s := range blobs {
		bl = append(bl, s)
	}
	sort.Strings(bl)
	for _, s := range bl {
		d.blobs = append(d.blobs, []byte(s))
	}
	dictCache[key] = d
	vstat.Note("dictionary:"+key, map[string]int{"wide_ints": len(d.wide), "small_ints": len(d.small), "strings": len(d.strs), "byte_literals": len(d.blobs)})
	return d
}

// ints returns every integer of the dictionary that fits into bits bits (wide and small), ascending.
func (d *dict) ints(bits int) []uint64 {
	var o []uint64
	for _, v := range d.small {
		o = append(o, uint64(v))
	}
	for _, v := range d.wide {
		if bits >= 64 || v < 1<<uint(bits) {
			o = append(o, v)
		}
	}
	return o
}

var boundaries = []uint64{0, 1, 2, 0x7f, 0x80, 0xff, 0x100, 0x7fff, 0x8000, 0xffff, 0x10000, 0xffffff, 0x1000000, 0x7fffffff, 0x80000000, 0xffffffff}

// dictInt draws a bits-wide identifier: ~40 % from the dictionary (wide literals preferred for >= 16 bits, they are the
// magic values), ~25 % boundary values, the rest random.
func dictInt(rt *rapid.T, d *dict, bits int, label string) uint64 {
	mask := uint64(1)<<uint(bits) - 1
	switch k := uni(rt, 100, label+"Src"); {
	case k < 40:
		var pool []uint64
		if bits >= 16 && uni(rt, 4, label+"Wide") > 0 {
			for _, v := range d.wide {
				if v <= mask {
					pool = append(pool, v)
				}
			}
		}
		if len(pool) == 0 {
			pool = d.ints(bits)
		}
		if len(pool) > 0 {
			return pool[uni(rt, len(pool), label+"Dict")]
		}
		fallthrough
	case k < 65:
		return boundaries[uni(rt, len(boundaries), label+"Bound")] & mask
	}
	return rapid.Uint64().Draw(rt, label+"Rand") & mask
}

// dictType draws a one-byte type / code / option number: the fixed favourites of the builder, or the dictionary.
func dictType(rt *rapid.T, d *dict, label string, favourites ...int) int {
	if len(d.small) > 0 && uni(rt, 100, label+"Src") < 35 {
		return int(d.small[uni(rt, len(d.small), label+"Dict")])
	}
	return favourites[uni(rt, len(favourites), label)]
}

// dictBytes draws a short value: a string or byte literal of the dictionary, or random bytes.
func dictBytes(rt *rapid.T, d *dict, max int, label string) []byte {
	switch k := uni(rt, 100, label+"Src"); {
	case k < 25 && len(d.strs) > 0:
		s := d.strs[uni(rt, len(d.strs), label+"Str")]
		if len(s) > max {
			s = s[:max]
		}
		return []byte(s)
	case k < 40 && len(d.blobs) > 0:
		b := d.blobs[uni(rt, len(d.blobs), label+"Blob")]
		if len(b) > max {
			b = b[:max]
		}
		return append([]byte(nil), b...)
	}
	return rbytes(rt, 0, max, label)
}

// subTLVs appends a list of inner TLVs (type and length of tw / lw bytes; lenIncl: the length counts the header)
// with recorded length fields, so that the mutators set them to hostile values (0, 1, > remaining, ...); with
// probability ~1/3 one inner length is made hostile right here.
func subTLVs(rt *rapid.T, p *bld, d *dict, tw, lw int, lenIncl bool, label string) {
	n := uni(rt, 5, label+"N")
	hostile := -1
	if n > 0 && uni(rt, 2, label+"Hostile") == 0 {
		hostile = uni(rt, n, label+"HostileAt")
	}
	for i := 0; i < n; i++ {
		switch tw { // tw == 0: a list of length-prefixed opaque items
		case 1:
			p.u8(int(dictInt(rt, d, 8, label+"Type")))
		case 2:
			p.u16(int(dictInt(rt, d, 16, label+"Type")))
		}
		var li int
		if lw == 1 {
			li = p.len8()
		} else {
			li = p.len16()
		}
		v := dictBytes(rt, d, 12, label+"Val")
		if uni(rt, 3, label+"U32") == 0 {
			v = []byte{0, 0, 0x27, 0x10}
		}
		p.raw(v...)
		l := len(v)
		if lenIncl {
			l += tw + lw
		}
		if i == hostile {
			l = pick(rt, label+"HostileLen", 0, 0, 0, 1, 2, l-1, l+1, 0xff, len(v)+tw+lw+40)
			if l < 0 {
				l = 0
			}
		}
		p.set(li, l)
	}
}

// innerShapes are the stateless hostile inner lists used by the dictionary seed variants: a well-formed entry, an
// entry of length 0 after a good one, length 1, a length beyond the data, a lone type byte, nothing.
// hdr = bytes of an inner header (type + length); incl = the inner length counts the header.
func innerShapes(tw, lw int, incl bool) [][]byte {
	hdr := func(t, l int) []byte {
		var b []byte
		if tw == 2 {
			b = append(b, 0)
		}
		b = append(b, byte(t))
		if lw == 2 {
			b = append(b, byte(l>>8))
		}
		return append(b, byte(l))
	}
	h := 0
	if incl {
		h = tw + lw
	}
	good := append(hdr(4, 4+h), 0, 0, 0x27, 0x10)
	return [][]byte{
		good,
		append(append([]byte(nil), good...), append(hdr(5, 0), 0, 0)...),
		append(hdr(1, 0), 1, 0, 0, 0),
		hdr(4, 1),
		append(hdr(4, 0xff), 0),
		{4},
		{},
	}
}

func be32(v uint64) []byte { return []byte{byte(v >> 24), byte(v >> 16), byte(v >> 8), byte(v)} }
