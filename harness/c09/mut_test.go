package c09

// Structure-aware generation: a valid packet is built together with the list of
// its length-like fields; mutators then set those fields to hostile values,
// truncate at any byte, repeat segments (options), and so on.

import (
	"encoding/binary"

	"pgregory.net/rapid"
)

// lf is a length-like field of a built packet: offset, width in bytes (1 or 2, big-endian).
type lf struct{ off, w int }

// bld builds a packet and records its length fields.
type bld struct {
	b    []byte
	lens []lf
}

func (p *bld) u8(v int) *bld { p.b = append(p.b, byte(v)); return p }
func (p *bld) u16(v int) *bld {
	p.b = append(p.b, byte(v>>8), byte(v))
	return p
}
func (p *bld) u32(v uint32) *bld {
	p.b = binary.BigEndian.AppendUint32(p.b, v)
	return p
}
func (p *bld) raw(x ...byte) *bld { p.b = append(p.b, x...); return p }
func (p *bld) str(s string) *bld  { p.b = append(p.b, s...); return p }

// len8/len16 append a placeholder length field and return its index for set().
func (p *bld) len8() int {
	p.lens = append(p.lens, lf{len(p.b), 1})
	p.b = append(p.b, 0)
	return len(p.lens) - 1
}
func (p *bld) len16() int {
	p.lens = append(p.lens, lf{len(p.b), 2})
	p.b = append(p.b, 0, 0)
	return len(p.lens) - 1
}
func (p *bld) set(i, v int) {
	f := p.lens[i]
	if f.w == 1 {
		p.b[f.off] = byte(v)
	} else {
		p.b[f.off], p.b[f.off+1] = byte(v>>8), byte(v)
	}
}

// mark records an already written field as length-like (counts, sizes).
func (p *bld) mark(off, w int) { p.lens = append(p.lens, lf{off, w}) }

// shift returns p's length fields moved by n bytes (when the packet is embedded after a prefix).
func shift(l []lf, n int) []lf {
	o := make([]lf, len(l))
	for i, f := range l {
		o[i] = lf{f.off + n, f.w}
	}
	return o
}

func rbytes(rt *rapid.T, lo, hi int, label string) []byte {
	return rapid.SliceOfN(rapid.Byte(), lo, hi).Draw(rt, label)
}

func readLF(b []byte, f lf) int {
	if f.off+f.w > len(b) {
		return 0
	}
	if f.w == 1 {
		return int(b[f.off])
	}
	return int(b[f.off])<<8 | int(b[f.off+1])
}

func writeLF(b []byte, f lf, v int) {
	if f.off+f.w > len(b) {
		return
	}
	if f.w == 1 {
		b[f.off] = byte(v)
	} else {
		b[f.off], b[f.off+1] = byte(v>>8), byte(v)
	}
}

// hostileLen draws a hostile value for a length field whose current value is cur
// in a packet of total bytes with rest bytes following the field.
func hostileLen(rt *rapid.T, cur, total, rest int) int {
	c := []int{0, 1, 2, 3, 4, 5, cur - 1, cur + 1, cur - 2, cur + 2, rest - 1, rest, rest + 1, total - 1, total, total + 1,
		0x7f, 0x80, 0xfe, 0xff, 0x100, 0x7fff, 0x8000, 0xfffa, 0xfffe, 0xffff}
	i := rapid.IntRange(0, len(c)+1).Draw(rt, "hostile")
	if i >= len(c) {
		return rapid.IntRange(0, 0xffff).Draw(rt, "hostileRand")
	}
	v := c[i]
	if v < 0 {
		v = 0
	}
	return v
}

// mutate applies 1..3 mutation operators to a built packet; returns the bytes and the dominant class.
func mutate(rt *rapid.T, b []byte, lens []lf) ([]byte, string) {
	b = append([]byte(nil), b...)
	n := rapid.IntRange(1, 3).Draw(rt, "nmut")
	class := ""
	for k := 0; k < n; k++ {
		ops := []string{"len", "len", "len", "trunc", "trunc", "dup", "flip", "extend", "fill"}
		if len(lens) == 0 {
			ops = ops[3:]
		}
		op := rapid.SampledFrom(ops).Draw(rt, "op")
		switch op {
		case "len":
			f := lens[rapid.IntRange(0, len(lens)-1).Draw(rt, "lf")]
			if f.off+f.w <= len(b) {
				writeLF(b, f, hostileLen(rt, readLF(b, f), len(b), len(b)-f.off-f.w))
			}
		case "trunc":
			b = b[:rapid.IntRange(0, len(b)).Draw(rt, "cut")]
		case "dup":
			if len(b) > 0 {
				i := rapid.IntRange(0, len(b)-1).Draw(rt, "dupFrom")
				j := rapid.IntRange(i+1, min(len(b), i+40)).Draw(rt, "dupTo")
				times := rapid.SampledFrom([]int{1, 2, 3, 8, 50, 300, 1100}).Draw(rt, "dupTimes")
				seg := append([]byte(nil), b[i:j]...)
				out := append([]byte(nil), b[:j]...)
				for x := 0; x < times && len(out) < maxInput; x++ {
					out = append(out, seg...)
				}
				b = append(out, b[j:]...)
			}
		case "flip":
			for x := rapid.IntRange(1, 4).Draw(rt, "nflip"); x > 0 && len(b) > 0; x-- {
				b[rapid.IntRange(0, len(b)-1).Draw(rt, "flipAt")] = rapid.SampledFrom([]byte{0, 1, 2, 3, 4, 0x7f, 0x80, 0xff, 0xfe}).Draw(rt, "flipTo")
			}
		case "extend":
			b = append(b, rbytes(rt, 1, 48, "tail")...)
		case "fill":
			if len(b) > 0 {
				i := rapid.IntRange(0, len(b)-1).Draw(rt, "fillFrom")
				j := rapid.IntRange(i, min(len(b), i+16)).Draw(rt, "fillTo")
				v := rapid.SampledFrom([]byte{0, 0xff}).Draw(rt, "fillWith")
				for x := i; x < j; x++ {
					b[x] = v
				}
			}
		}
		if class == "" || op == "len" {
			class = "mut-" + op
		}
	}
	if len(b) > maxInput {
		b = b[:maxInput]
	}
	return b, class
}

// genPacket is the common generator: random bytes, a valid packet, a mutated
// valid packet, or a hostile constant / seed.
//
//	build  returns a valid packet and its length fields
//	consts returns hostile constants (may be nil)
func genPacket(rt *rapid.T, build func(rt *rapid.T) *bld, consts [][]byte) []byte {
	kinds := []string{"random", "valid", "mutated", "mutated", "mutated", "mutated", "const"}
	if len(consts) == 0 {
		kinds = kinds[:6]
	}
	switch k := rapid.SampledFrom(kinds).Draw(rt, "kind"); k {
	case "random":
		lastGenClass = "random"
		b := rbytes(rt, 0, maxInput, "bytes")
		// half of the random cases keep a plausible head so that they get past the first byte checks
		if rapid.Bool().Draw(rt, "plausibleHead") {
			v := build(rt).b
			n := rapid.IntRange(0, min(len(v), 12)).Draw(rt, "headLen")
			b = append(append([]byte(nil), v[:n]...), b...)
			lastGenClass = "random-head"
		}
		return b
	case "valid":
		lastGenClass = "valid"
		return build(rt).b
	case "const":
		lastGenClass = "const"
		return append([]byte(nil), rapid.SampledFrom(consts).Draw(rt, "const")...)
	default:
		p := build(rt)
		b, c := mutate(rt, p.b, p.lens)
		lastGenClass = c
		return b
	}
}

// withSel prefixes the selector bytes of a case.
func withSel(payload []byte, sel ...byte) []byte {
	return append(append([]byte(nil), sel...), payload...)
}

func selByte(rt *rapid.T, n int, label string) byte { return byte(uni(rt, n, label)) }

// split returns the selector bytes (zero-padded) and the payload of a case.
func split(data []byte, nsel int) ([]byte, []byte) {
	sel := make([]byte, nsel)
	copy(sel, data)
	if len(data) <= nsel {
		return sel, data[len(data):]
	}
	return sel, data[nsel:]
}

func hx(s string) []byte {
	b := make([]byte, 0, len(s)/2)
	var v, n int
	for _, c := range s {
		var d int
		switch {
		case c >= '0' && c <= '9':
			d = int(c - '0')
		case c >= 'a' && c <= 'f':
			d = int(c-'a') + 10
		case c >= 'A' && c <= 'F':
			d = int(c-'A') + 10
		default:
			continue
		}
		v = v<<4 | d
		n++
		if n == 2 {
			b = append(b, byte(v))
			v, n = 0, 0
		}
	}
	return b
}
