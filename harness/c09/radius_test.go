package c09

import (
	"context"
	"crypto/md5"
	"encoding/binary"
	"fmt"
	"net"
	"sync"
	"testing"
	"time"

	bngradius "github.com/codelaboratoryltd/bng/pkg/radius"
	"go.uber.org/zap"
	layeh "layeh.com/radius"
	"pgregory.net/rapid"

	"bngverif/internal/vstat"
)

const coaSecret = "c09-secret"

// signCoA writes the RFC 5176 request authenticator MD5(code+id+length+16 zero+attrs+secret) over p[:length].
func signCoA(p []byte) bool {
	if len(p) < 20 {
		return false
	}
	l := int(binary.BigEndian.Uint16(p[2:4]))
	if l < 20 || l > len(p) {
		return false
	}
	h := md5.New()
	h.Write(p[:4])
	h.Write(make([]byte, 16))
	h.Write(p[20:l])
	h.Write([]byte(coaSecret))
	copy(p[4:20], h.Sum(nil))
	return true
}

func bldRadius(rt *rapid.T, codes []int) *bld {
	p := &bld{}
	p.u8(rapid.SampledFrom(codes).Draw(rt, "code")).u8(rapid.IntRange(0, 255).Draw(rt, "id"))
	i := p.len16()
	p.raw(make([]byte, 16)...)
	attr := func(t int, v []byte) {
		p.u8(t)
		j := p.len8()
		p.raw(v...)
		p.set(j, 2+len(v))
	}
	d := dictFor("radius")
	for n := rapid.IntRange(0, 7).Draw(rt, "nattr"); n > 0; n-- {
		switch t := dictType(rt, d, "attr", 1, 4, 8, 11, 18, 25, 26, 26, 26, 27, 28, 31, 44, 44, 80, 101, 200); t {
		case 4, 8:
			attr(t, rapid.SampledFrom([][]byte{{10, 9, 0, 2}, {10, 9, 0, 3}, {0, 0, 0, 0}, {1, 2, 3}}).Draw(rt, "ip"))
		case 27, 28:
			attr(t, rapid.SampledFrom([][]byte{{0, 0, 14, 16}, {0, 0, 0, 0}, {0xff, 0xff, 0xff, 0xff}, {1}}).Draw(rt, "u32"))
		case 44:
			attr(t, []byte(rapid.SampledFrom([]string{"sess-1", "sess-2", "nope", ""}).Draw(rt, "sid")))
		case 31:
			attr(t, []byte(rapid.SampledFrom([]string{"02:00:00:00:00:aa", "zz", ""}).Draw(rt, "mac")))
		case 26:
			addVSA(rt, p, d)
		default:
			attr(t, rbytes(rt, 0, 40, "attrVal"))
		}
	}
	p.set(i, len(p.b))
	return p
}

// addVSA appends a Vendor-Specific attribute (RFC 2865 5.26): Vendor-Id from the dictionary of the code under test /
// boundary / random, then vendor sub-attributes (type, length incl. header, value) with recorded - and sometimes
// already hostile - inner lengths.
func addVSA(rt *rapid.T, p *bld, d *dict) {
	p.u8(26)
	j := p.len8()
	start := len(p.b)
	if uni(rt, 12, "vsaShort") > 0 {
		p.raw(be32(dictInt(rt, d, 32, "vendor"))...)
		subTLVs(rt, p, d, 1, 1, true, "vsaSub")
	} else {
		p.raw(rbytes(rt, 0, 3, "vsaStub")...) // too short for a Vendor-Id
	}
	p.set(j, 2+len(p.b)-start)
}

// bldCoAVSA is an otherwise plain CoA / Disconnect request for an existing session that carries 1-2 Vendor-Specific
// attributes (the radius-coa generator signs these cases, so they reach attribute processing).
func bldCoAVSA(rt *rapid.T) *bld {
	p := &bld{}
	p.u8(pick(rt, "code", 43, 43, 43, 40)).u8(rapid.IntRange(0, 255).Draw(rt, "id"))
	i := p.len16()
	p.raw(make([]byte, 16)...)
	d := dictFor("radius")
	sid := func() {
		p.raw(44, 8).str("sess-1")
	}
	if uni(rt, 2, "sidFirst") == 0 {
		sid()
	}
	for n := 1 + uni(rt, 2, "nvsa"); n > 0; n-- {
		addVSA(rt, p, d)
	}
	if p.b[len(p.b)-1] != 0 || uni(rt, 2, "sidLast") == 0 {
		sid()
	}
	p.set(i, len(p.b))
	return p
}

// coaRig is the per-process CoA server bound to loopback plus the client socket feeding it.
type coaRig struct {
	srv    *bngradius.CoAServer
	proc   *bngradius.CoAProcessor
	client *net.UDPConn
	stop   []byte
}

var (
	rigOnce sync.Once
	rig     *coaRig
)

func getRig() *coaRig {
	rigOnce.Do(func() {
		log := zap.NewNop()
		srv, err := bngradius.NewCoAServer(bngradius.CoAServerConfig{Address: "127.0.0.1:0", Secret: coaSecret}, log)
		if err != nil {
			panic("harness: " + err.Error())
		}
		addr, err := srv.VerifC09Listen()
		if err != nil {
			panic("harness: " + err.Error())
		}
		cl, err := net.DialUDP("udp", nil, addr)
		if err != nil {
			panic("harness: " + err.Error())
		}
		// the production wiring: CoAProcessor behind the server, over a two-session table
		proc := bngradius.NewCoAProcessor(log)
		sess := map[string]*bngradius.SessionInfo{
			"sess-1": {SessionID: "sess-1", Username: "alice", MAC: net.HardwareAddr{2, 0, 0, 0, 0, 0xaa}, FramedIP: net.IPv4(10, 9, 0, 2), State: "active"},
			"sess-2": {SessionID: "sess-2", Username: "bob", MAC: net.HardwareAddr{2, 0, 0, 0, 0, 0xbb}, FramedIP: net.IPv4(10, 9, 0, 3), State: "active"},
		}
		proc.SetSessionLookup(func(id string) (*bngradius.SessionInfo, bool) { s, ok := sess[id]; return s, ok })
		proc.SetSessionLookupByIP(func(ip net.IP) (*bngradius.SessionInfo, bool) {
			for _, s := range []string{"sess-1", "sess-2"} {
				if sess[s].FramedIP.Equal(ip) {
					return sess[s], true
				}
			}
			return nil, false
		})
		proc.SetSessionLookupByMAC(func(mac string) (*bngradius.SessionInfo, bool) {
			for _, s := range []string{"sess-1", "sess-2"} {
				if sess[s].MAC.String() == mac {
					return sess[s], true
				}
			}
			return nil, false
		})
		proc.SetSessionTerminator(func(ctx context.Context, id string, reason uint32) error { return nil })
		proc.SetSessionPolicyUpdater(func(ctx context.Context, id string, u *bngradius.PolicyUpdate) error { return nil })
		proc.SetEBPFQoSUpdater(func(id string, d, u uint64) error { return nil })
		srv.SetCoAHandler(proc.HandleCoA)
		// stop datagram: authentic Disconnect-Request, Acct-Session-Id = stop marker
		sid := bngradius.VerifC09StopSessionID
		stop := append([]byte{bngradius.CodeDisconnectRequest, 0xee, 0, 0}, make([]byte, 16)...)
		stop = append(stop, 44, byte(2+len(sid)))
		stop = append(stop, sid...)
		binary.BigEndian.PutUint16(stop[2:4], uint16(len(stop)))
		signCoA(stop)
		rig = &coaRig{srv: srv, proc: proc, client: cl, stop: stop}
	})
	return rig
}

// serve delivers the datagrams followed by the stop datagram and runs the real receive loop over them.
func (r *coaRig) serve(datagrams ...[]byte) error { return r.serveWithin(8*time.Second, datagrams...) }

func (r *coaRig) serveWithin(maxWait time.Duration, datagrams ...[]byte) error {
	for _, d := range datagrams {
		if _, err := r.client.Write(d); err != nil {
			return fmt.Errorf("harness: loopback write: %w", err)
		}
	}
	if _, err := r.client.Write(r.stop); err != nil {
		return fmt.Errorf("harness: loopback write: %w", err)
	}
	err := r.srv.VerifC09Serve(r.proc.HandleDisconnect, maxWait)
	r.drainClient()
	return err
}

func (r *coaRig) drainClient() {
	// replies were written synchronously before the loop returned; a deadline in the past would make Read fail
	// without reading, so use a short one in the future
	buf := make([]byte, 4096)
	for {
		r.client.SetReadDeadline(time.Now().Add(150 * time.Microsecond))
		if _, err := r.client.Read(buf); err != nil {
			return
		}
	}
}

const sigCoA = "C09/radius-coa/panic/radius.(*CoAServer).verifyRequestAuthenticator/slice-bounds"

var coaLost int // batches whose stop datagram was not seen (loopback loss): counted, never a verdict

func init() {
	mk := func(code byte, attrs string) []byte {
		a := hx(attrs)
		p := append([]byte{code, 7, 0, 0}, make([]byte, 16)...)
		p = append(p, a...)
		binary.BigEndian.PutUint16(p[2:4], uint16(len(p)))
		return p
	}
	withLen := func(p []byte, l int) []byte {
		q := append([]byte(nil), p...)
		binary.BigEndian.PutUint16(q[2:4], uint16(l))
		return q
	}
	coaOK := mk(43, "2c 08 736573732d31  0b 06 676f6c64  1b 06 00000e10")
	dmOK := mk(40, "2c 08 736573732d31")
	consts := [][]byte{coaOK, dmOK, mk(43, ""), mk(40, "2c 06 6e6f7065"), mk(43, "2c 08 736573732d31"),
		withLen(coaOK, 0), withLen(coaOK, 1), withLen(coaOK, 3), withLen(coaOK, 4), withLen(coaOK, 19), withLen(coaOK, 20), withLen(coaOK, 21), withLen(coaOK, len(coaOK)-1), withLen(coaOK, len(coaOK)+1), withLen(coaOK, 0xffff),
		mk(43, "2c 00"), mk(43, "2c 01"), mk(43, "2c ff 41"), mk(43, "2c 02 2c 02 2c 02"), mk(40, "08 03 0a")}

	// radius-coa — case layout: [0] bit0 = sign the datagram (where its length field allows) so that it is
	// authentic and reaches attribute parsing and the handlers; rest = UDP payload.
	fixCoALen := func(p []byte) []byte {
		if len(p) >= 20 && binary.BigEndian.Uint16(p[2:4]) < 20 {
			binary.BigEndian.PutUint16(p[2:4], uint16(len(p)))
		}
		return p
	}
	register(&target{
		name: "radius-coa", nsel: 1, avoid: fixCoALen, avoidSigs: []string{sigCoA}, hangAs: "coa-listener",
		dictSeeds: func() [][]byte {
			// every integer literal of the package under test (and the boundary values) as Vendor-Id of an
			// authentic CoA / Disconnect request for an existing session, x hostile vendor sub-attribute lists
			var o [][]byte
			seen := map[uint64]bool{}
			for _, v := range append(dictFor("radius").ints(32), boundaries...) {
				if seen[v] {
					continue
				}
				seen[v] = true
				for _, sh := range innerShapes(1, 1, true) {
					vsa := append(append([]byte{26, byte(6 + len(sh))}, be32(v)...), sh...)
					for _, code := range []byte{43, 40} {
						p := mk(code, "2c 08 736573732d31")
						p = append(p, vsa...)
						binary.BigEndian.PutUint16(p[2:4], uint16(len(p)))
						o = append(o, withSel(p, 1))
					}
				}
			}
			return o
		},
		run: func(data []byte, c *caseInfo) {
			sel, dg := split(data, 1)
			dg = append([]byte(nil), dg...)
			if len(dg) == 0 {
				c.class("empty-datagram") // a 0-byte UDP datagram is legal; delivered like any other
			}
			c.nt = len(dg) >= 20
			if c.nt {
				c.class("passes-first-length-check")
			}
			if sel[0]&1 != 0 && signCoA(dg) {
				c.class("authentic")
				if dg[0] == 43 || dg[0] == 40 {
					c.class("authentic-coa-or-dm")
				}
			}
			r := getRig()
			if err := r.serve(dg); err != nil {
				// The listener returned to its loop but never answered the valid sentinel request that followed the
				// datagram.  Loopback loss is possible in principle, so: the sentinel alone must be answered, the
				// datagram + sentinel must fail twice more, and the sentinel alone must be answered again - then the
				// datagram is what silences the listener.
				r.srv.VerifC09Drain()
				r.drainClient()
				silenced := r.serveWithin(3*time.Second) == nil
				for k := 0; k < 2 && silenced; k++ {
					silenced = r.serveWithin(3*time.Second, dg) != nil
					r.srv.VerifC09Drain()
					r.drainClient()
				}
				if silenced && r.serveWithin(3*time.Second) == nil {
					panic(&verdictPanic{sig: hangSig(targets["radius-coa"], "no-answer-to-following-request"),
						msg: "after this datagram the CoA listener does not answer a following valid Disconnect-Request (3 of 3 attempts; the same request alone is answered)"})
				}
				coaLost++
				c.class("harness:stop-datagram-lost")
				r.srv.VerifC09Drain()
			}
		},
		cleanup: func() { getRig().srv.VerifC09Drain(); getRig().drainClient() },
		gen: func(rt *rapid.T) []byte {
			build := func(rt *rapid.T) *bld { return bldRadius(rt, []int{43, 43, 43, 40, 40, 1, 44, 0}) }
			vsa := uni(rt, 4, "vsaFocus") == 0
			if vsa {
				build = bldCoAVSA
			}
			p := genPacket(rt, build, consts)
			if vsa {
				lastGenClass += "+vsa"
				return withSel(p, 1) // signed: the vendor walk is behind the authenticator check
			}
			if vstat.IsListed(sigCoA) {
				if rapid.IntRange(0, 9).Draw(rt, "keepKFShape") > 0 {
					p = fixCoALen(p)
				} else {
					lastGenClass += "+kf-shape"
				}
			}
			return withSel(p, selByte(rt, 2, "sign"))
		},
		seeds: func() [][]byte {
			var o [][]byte
			for _, k := range consts {
				o = append(o, withSel(k, 0), withSel(k, 1))
			}
			return o
		},
	})

	// radius-client-parse: bytes of a RADIUS reply as the client receives them: layeh's Parse, then the
	// client's own Access-Accept attribute extraction.
	var cl *bngradius.Client
	var clOnce sync.Once
	accept := mk(2, "1b 06 00000e10  1c 06 0000012c  08 06 0a090002  0b 06 676f6c64  19 04 abcd  12 04 6869")
	clConsts := [][]byte{accept, mk(3, "12 04 6e6f"), mk(2, ""), mk(2, "1b 03 00"), mk(2, "08 05 0a0900"), mk(2, "1b 02"), mk(2, "1b 06 ffffffff"), withLen(accept, 20), withLen(accept, 19), withLen(accept, 0xffff), mk(2, "1a 06 00000de9"), mk(2, "1a 07 00000de9 01")}
	register(&target{
		name: "radius-client-parse",
		dictSeeds: func() [][]byte {
			var o [][]byte
			seen := map[uint64]bool{}
			for _, v := range append(dictFor("radius").ints(32), boundaries...) {
				if seen[v] {
					continue
				}
				seen[v] = true
				for _, sh := range innerShapes(1, 1, true) {
					p := append(append([]byte(nil), accept...), append(append([]byte{26, byte(6 + len(sh))}, be32(v)...), sh...)...)
					binary.BigEndian.PutUint16(p[2:4], uint16(len(p)))
					o = append(o, p)
				}
			}
			return o
		},
		run: func(data []byte, c *caseInfo) {
			clOnce.Do(func() {
				var err error
				cl, err = bngradius.NewClient(bngradius.ClientConfig{Servers: []bngradius.ServerConfig{{Host: "127.0.0.1", Port: 1, Secret: coaSecret}}, NASID: "bng"}, zap.NewNop())
				if err != nil {
					panic("harness: " + err.Error())
				}
			})
			pkt, err := layeh.Parse(data, []byte(coaSecret))
			if err != nil {
				c.class("parse-error")
				return
			}
			c.nt = true
			c.class("passes-first-length-check")
			c.class(fmt.Sprintf("code:%d", pkt.Code))
			_ = cl.VerifC09ParseAuth(pkt)
		},
		gen: func(rt *rapid.T) []byte {
			return genPacket(rt, func(rt *rapid.T) *bld { return bldRadius(rt, []int{2, 2, 2, 3, 11, 5}) }, clConsts)
		},
		seeds: func() [][]byte { return clConsts },
	})
}

func init() {
	// radius.parseAttributes: the CoA attribute parser on an exact-capacity slice (inside receiveLoop it sees a
	// window of the 4096-byte receive buffer, where reading past the datagram does not fault).
	attrConsts := [][]byte{hx("2c 08 736573732d31"), hx("2c 00"), hx("2c 01"), hx("2c 02"), hx("2c 03"), hx("2c ff 41"), hx("2c"), hx("2c 03 41 0b"), hx("0b 06 676f6c64 1b 06 00000e10 1b")}
	parserTarget("radius.parseAttributes", 2, func(b []byte) { _, _ = bngradius.VerifC09ParseAttributes(b) },
		func(rt *rapid.T) *bld {
			p := bldRadius(rt, []int{43})
			q := &bld{b: append([]byte(nil), p.b[20:]...)}
			for _, f := range p.lens {
				if f.off >= 20 {
					q.lens = append(q.lens, lf{f.off - 20, f.w})
				}
			}
			return q
		}, attrConsts, nil)
}

func TestPropRadiusCoA(t *testing.T) {
	runProp(t, 3000, 60000, "radius-coa")
	vstat.Note("radius-coa:batches-with-lost-stop-datagram", coaLost)
}
func TestPropRadiusClientParse(t *testing.T) {
	runProp(t, 7000, 140000, "radius-client-parse", "radius.parseAttributes")
}
