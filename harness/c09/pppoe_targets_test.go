package c09

import (
	"encoding/binary"
	"fmt"
	"net"
	"testing"
	"time"

	"github.com/codelaboratoryltd/bng/pkg/pppoe"
	"go.uber.org/zap"
	"pgregory.net/rapid"

	"bngverif/internal/vstat"
)

// ---------------------------------------------------------------------------
// stateless parsers
// ---------------------------------------------------------------------------

func parserTarget(name string, minLen int, fn func([]byte), build func(*rapid.T) *bld, consts [][]byte, ntExtra func([]byte) bool) {
	register(&target{
		name: name,
		run: func(data []byte, c *caseInfo) {
			c.nt = len(data) >= minLen && (ntExtra == nil || ntExtra(data))
			if c.nt {
				c.class("passes-first-length-check")
			} else {
				c.class("short")
			}
			fn(data)
		},
		gen:   func(rt *rapid.T) []byte { return genPacket(rt, build, consts) },
		seeds: func() [][]byte { return consts },
	})
}

var hostileHdrs = [][]byte{
	hx("11 a7 0001 ffff"), hx("11 a7 0001 0001"), hx("11 a7 0001 0004 0101"), hx("11 09 0000 ffff 0101 ffff"),
	hx("11 a7 0001 0005 0101 0001 41"), hx("11 a7 0001 0004 0101 0000"), hx("11 a7 0001 0000"),
}

func init() {
	parserTarget("pppoe.ParsePPPoEHeader", 6, func(b []byte) { _, _ = pppoe.ParsePPPoEHeader(b) }, bldDiscovery, hostileHdrs, nil)
	parserTarget("pppoe.ParseTags", 4, func(b []byte) { _, _ = pppoe.ParseTags(b) }, bldTags,
		[][]byte{hx("0101 ffff"), hx("0101 0001"), hx("0101 0000 0000 ffff"), hx("0103 0002 aabb 0104")}, nil)
	parserTarget("pppoe.ParseLCPPacket", 4, func(b []byte) { _, _ = pppoe.ParseLCPPacket(b) },
		func(rt *rapid.T) *bld { return bldCP(rt, 0xc021) },
		[][]byte{hx("01 01 0000"), hx("01 01 0003"), hx("01 01 0005"), hx("01 01 ffff"), hx("09 01 0004"), hx("01 01 0004")}, nil)
	parserTarget("pppoe.ParseLCPOptions", 2, func(b []byte) { _, _ = pppoe.ParseLCPOptions(b) }, bldLCPOptions,
		[][]byte{hx("01 00"), hx("01 01"), hx("01 02"), hx("01 03"), hx("01 ff"), hx("01 04 05d4 05")}, nil)
	parserTarget("pppoe.ParsePADT", 6, func(b []byte) { _, _, _ = pppoe.ParsePADT(b) }, bldPADT, hostileHdrs,
		func(b []byte) bool { return b[1] == pppoe.CodePADT && len(b) > 6 })
	parserTarget("pppoe.ParseEchoPacket", 4, func(b []byte) { _, _, _ = pppoe.ParseEchoPacket(b) },
		func(rt *rapid.T) *bld { return &bld{b: rbytes(rt, 0, 12, "echo")} },
		[][]byte{{}, {1}, {1, 2, 3}, {1, 2, 3, 4}, {1, 2, 3, 4, 5}}, nil)
}

// ---------------------------------------------------------------------------
// PPPoE server: discovery and session frame entry points, session in each state
// ---------------------------------------------------------------------------

var (
	srvMAC    = net.HardwareAddr{0x02, 0, 0, 0, 0, 0x01}
	ownerMAC  = net.HardwareAddr{0x02, 0, 0, 0, 0, 0xaa}
	otherMAC  = net.HardwareAddr{0x02, 0, 0, 0, 0, 0xbb}
	bcastMAC  = net.HardwareAddr{0xff, 0xff, 0xff, 0xff, 0xff, 0xff}
	srvStates = []string{"none", "lcp", "auth", "ipcp", "established", "terminated"}
)

func newPPPoEServer() *pppoe.Server {
	s, err := pppoe.VerifC09NewServer(pppoe.ServerConfig{
		Interface: "verif0", ACName: "AC", ServiceName: "internet", ServerIP: "10.9.0.1",
		ClientPool: "10.9.0.0/28", PoolGateway: "10.9.0.1", PrimaryDNS: "10.9.0.1", SecondaryDNS: "8.8.8.8",
	}, srvMAC)
	if err != nil {
		panic("harness: " + err.Error())
	}
	return s
}

// pppoePrelude drives a fresh server, with valid frames only, to the selected session state.
func pppoePrelude(s *pppoe.Server, state int) {
	if state == 0 {
		return
	}
	s.VerifC09Discovery(ownerMAC, clip(vPADI))
	s.VerifC09Discovery(ownerMAC, clip(vPADR)) // session 1, LCP negotiation
	if state >= 2 {
		s.VerifC09Session(ownerMAC, clip(vLCPReq1))
		s.VerifC09Session(ownerMAC, clip(vLCPAck1)) // authentication
	}
	if state >= 3 {
		s.VerifC09Session(ownerMAC, clip(vPAP1)) // no RADIUS configured: accepted; IPCP negotiation
	}
	if state >= 4 {
		s.VerifC09Session(ownerMAC, clip(vIPCPReq1))
		s.VerifC09Session(ownerMAC, clip(vIPCPAck1)) // established
	}
	if state >= 5 {
		s.VerifC09Discovery(ownerMAC, clip(vPADT1)) // session removed
	}
}

func pppoeStateName(s *pppoe.Server) string {
	st, ok := s.VerifC09SessionState(1)
	if !ok {
		return "no-session"
	}
	return st.String()
}

// case layout: [0] session state selector, [1] delivery: bit0 = through receiveLoop (1522-byte buffer) instead of a
// direct call with an exact-capacity slice; bit1 = foreign source MAC; bit2 = broadcast destination; rest = payload
// after the Ethernet header.
func pppoeServerTarget(name string, etherType uint16, build func(*rapid.T) *bld, consts [][]byte, avoid func([]byte) []byte, avoidSigs []string) {
	register(&target{
		name: name, nsel: 2, avoid: avoid, avoidSigs: avoidSigs,
		run: func(data []byte, c *caseInfo) {
			sel, payload := split(data, 2)
			state := int(sel[0]) % len(srvStates)
			s := newPPPoEServer()
			pppoePrelude(s, state)
			c.class("state:" + pppoeStateName(s))
			src := ownerMAC
			if sel[1]&2 != 0 {
				src = otherMAC
			}
			session := etherType == pppoe.EtherTypePPPoESession
			if session {
				c.nt = len(payload) >= 8
				if c.nt {
					_, has := s.VerifC09SessionState(binary.BigEndian.Uint16(payload[2:4]))
					c.nt = has
				}
			} else {
				c.nt = len(payload) >= 6
			}
			if c.nt {
				c.class("passes-first-length-check")
			}
			if sel[1]&1 != 0 {
				c.class("via:receiveLoop")
				dst := srvMAC
				if sel[1]&4 != 0 {
					dst = bcastMAC
				}
				frame := pppoe.BuildEthernetFrame(dst, src, etherType, payload)
				s.VerifC09Receive([][]byte{frame})
			} else {
				c.class("via:direct")
				if session {
					s.VerifC09Session(src, payload)
				} else {
					s.VerifC09Discovery(src, payload)
				}
			}
			c.class("after:" + pppoeStateName(s))
		},
		gen: func(rt *rapid.T) []byte {
			p := genPacket(rt, build, consts)
			listed := false
			for _, sg := range avoidSigs {
				listed = listed || vstat.IsListed(sg)
			}
			if listed && avoid != nil {
				// steer most cases around the listed defect so that the search goes on behind it
				if rapid.IntRange(0, 9).Draw(rt, "keepKFShape") > 0 {
					p = avoid(p)
				} else {
					lastGenClass += "+kf-shape"
				}
			}
			return withSel(p, selByte(rt, len(srvStates), "state"), selByte(rt, 8, "delivery"))
		},
		seeds: func() [][]byte {
			var o [][]byte
			for _, k := range consts {
				for st := 0; st < len(srvStates); st++ {
					o = append(o, withSel(k, byte(st), 0), withSel(k, byte(st), 1))
				}
			}
			return o
		},
	})
}

// fixPPPoELen makes the PPPoE length field consistent with the payload (lo <= Length <= len-6).
func fixPPPoELen(lo int) func([]byte) []byte {
	return func(p []byte) []byte {
		if len(p) < 6 {
			return p
		}
		l := int(binary.BigEndian.Uint16(p[4:6]))
		if l > len(p)-6 || l < lo {
			l = len(p) - 6
			if l < lo {
				return p[:5] // too short to be parsed at all
			}
			binary.BigEndian.PutUint16(p[4:6], uint16(l))
		}
		return p
	}
}

const (
	sigDiscovery = "C09/pppoe-discovery/panic/pppoe.(*Server).handleDiscovery/slice-bounds"
	sigSession   = "C09/pppoe-session/panic/pppoe.(*Server).handleSession/slice-bounds"
)

func init() {
	pppoeServerTarget("pppoe-discovery", pppoe.EtherTypePPPoEDiscovery, bldDiscovery,
		append([][]byte{vPADI, vPADR, vPADT1, hx("11 09 0000 0000"), hx("11 19 0000 0004 0104 0000")}, hostileHdrs...),
		fixPPPoELen(0), []string{sigDiscovery})
	pppoeServerTarget("pppoe-session", pppoe.EtherTypePPPoESession, bldSession,
		[][]byte{vLCPAck1, vLCPReq1, vPAP1, vIPCPAck1, vIPCPReq1, vEcho1,
			hx("11 00 0001 0000 c021"), hx("11 00 0001 0001 c021"), hx("11 00 0001 ffff c021"), hx("11 00 0001 0002 c023"),
			hx("11 00 0001 0006 c023 01 01 0000"), hx("11 00 0001 0008 c023 01 01 0006 ff 00")},
		fixPPPoELen(2), []string{sigSession})
}

// ---------------------------------------------------------------------------
// LCP / IPCP / IPV6CP automata: ReceivePacket in each of the 10 RFC 1661 states
// ---------------------------------------------------------------------------

var fsmStates = []string{"Initial", "Starting", "Closed", "Stopped", "Closing", "Stopping", "Req-Sent", "Ack-Rcvd", "Ack-Sent", "Opened"}

type fsm struct {
	up, down, open, close func()
	recv                  func([]byte) error
	state                 func() string
	goodReq               []byte // a Configure-Request this automaton acknowledges
}

func cpPkt(code, id byte, body []byte) []byte {
	n := 4 + len(body)
	return append([]byte{code, id, byte(n >> 8), byte(n)}, body...)
}

// drive puts a fresh automaton into state want using events and valid packets only
// (the automaton's first Configure-Request carries identifier 1).
func (f *fsm) drive(want string) {
	ack := cpPkt(2, 1, nil)
	term := cpPkt(5, 9, nil)
	switch want {
	case "Initial":
	case "Starting":
		f.open()
	case "Closed":
		f.up()
	case "Req-Sent":
		f.up()
		f.open()
	case "Stopped":
		f.up()
		f.open()
		_ = f.recv(term)
	case "Closing":
		f.up()
		f.open()
		f.close()
	case "Ack-Rcvd":
		f.up()
		f.open()
		_ = f.recv(ack)
	case "Ack-Sent":
		f.up()
		f.open()
		_ = f.recv(f.goodReq)
	case "Opened":
		f.up()
		f.open()
		_ = f.recv(f.goodReq)
		_ = f.recv(ack)
	case "Stopping":
		f.up()
		f.open()
		_ = f.recv(f.goodReq)
		_ = f.recv(ack)
		_ = f.recv(term)
	}
}

// onePool is an IPPoolAllocator that always hands out 10.9.0.2.
type onePool struct{}

func (onePool) Allocate(string) net.IP { return net.ParseIP("10.9.0.2") }
func (onePool) Release(string)         {}

func newFSM(kind string, cfgSel byte) *fsm {
	send := func(uint16, []byte) {}
	log := zap.NewNop()
	switch kind {
	case "lcp":
		cfg := pppoe.DefaultLCPConfig()
		cfg.RestartTimer = time.Hour // no timer fires during a case; Down() stops it at the end
		cfg.MagicNumber = 0x11223344
		if cfgSel&1 != 0 {
			cfg.AuthProtocol = pppoe.ProtocolCHAP
		}
		if cfgSel&2 != 0 {
			cfg.PFC, cfg.ACFC = true, true
		}
		m, err := pppoe.NewLCPStateMachine(cfg, send, log)
		if err != nil {
			panic("harness: " + err.Error())
		}
		return &fsm{m.Up, m.Down, m.Open, m.Close, m.ReceivePacket, func() string { return m.GetState().String() },
			cpPkt(1, 7, hx("01 04 05d4 05 06 0a0b0c0d"))}
	case "ipcp":
		cfg := pppoe.DefaultIPCPConfig()
		cfg.RestartTimer = time.Hour
		cfg.LocalIP = net.ParseIP("10.9.0.1")
		if cfgSel&1 == 0 {
			cfg.PeerIP = net.ParseIP("10.9.0.2")
		} else {
			cfg.IPPool = onePool{} // address assigned from a pool at Up() instead of statically
		}
		if cfgSel&2 != 0 {
			cfg.PrimaryDNS, cfg.SecondaryDNS = net.ParseIP("10.9.0.1"), net.ParseIP("8.8.8.8")
		}
		m := pppoe.NewIPCPStateMachine(cfg, "sess-1", send, log)
		return &fsm{m.Up, m.Down, m.Open, m.Close, m.ReceivePacket, func() string { return m.GetState().String() },
			cpPkt(1, 7, hx("03 06 0a090002"))}
	default:
		cfg := pppoe.IPV6CPConfig{LocalInterfaceID: 0x0102030405060708, MaxRetransmit: 10, RestartTimer: time.Hour}
		m, err := pppoe.NewIPV6CPStateMachine(cfg, send, log)
		if err != nil {
			panic("harness: " + err.Error())
		}
		return &fsm{m.Up, m.Down, m.Open, m.Close, m.ReceivePacket, func() string { return m.GetState().String() },
			cpPkt(1, 7, hx("01 0a aaaaaaaaaaaaaaaa"))}
	}
}

// case layout: [0] automaton state selector, [1] configuration selector, rest = control packet.
func fsmTarget(name, kind string, proto int, consts [][]byte, avoid func([]byte) []byte, avoidSigs []string) {
	register(&target{
		name: name, nsel: 2, avoid: avoid, avoidSigs: avoidSigs,
		run: func(data []byte, c *caseInfo) {
			sel, pkt := split(data, 2)
			want := fsmStates[int(sel[0])%len(fsmStates)]
			f := newFSM(kind, sel[1])
			defer f.down() // stops the restart timer
			f.drive(want)
			got := f.state()
			c.class("state:" + got)
			if got != want {
				c.class("prelude-miss")
			}
			c.nt = len(pkt) >= 4 && int(binary.BigEndian.Uint16(pkt[2:4])) <= len(pkt)
			if c.nt {
				c.class("passes-first-length-check")
				c.class(fmt.Sprintf("code:%d", pkt[0]))
			}
			_ = f.recv(pkt)
			c.class("after:" + f.state())
		},
		gen: func(rt *rapid.T) []byte {
			p := genPacket(rt, func(rt *rapid.T) *bld { return bldCP(rt, proto) }, consts)
			listed := false
			for _, sg := range avoidSigs {
				listed = listed || vstat.IsListed(sg)
			}
			if listed && avoid != nil {
				if rapid.IntRange(0, 9).Draw(rt, "keepKFShape") > 0 {
					p = avoid(p)
				} else {
					lastGenClass += "+kf-shape"
				}
			}
			return withSel(p, selByte(rt, len(fsmStates), "state"), selByte(rt, 4, "cfg"))
		},
		seeds: func() [][]byte {
			var o [][]byte
			for _, k := range consts {
				for st := range fsmStates {
					o = append(o, withSel(k, byte(st), 0))
				}
			}
			return o
		},
	})
}

const sigEcho = "C09/lcp-fsm/panic/pppoe.(*LCPStateMachine).receiveEchoRequest/slice-bounds"

// padShortEcho: an Echo-Request with fewer than 4 data bytes gets its magic number completed.
func padShortEcho(p []byte) []byte {
	if len(p) >= 4 && p[0] == 9 {
		l := int(binary.BigEndian.Uint16(p[2:4]))
		if l <= len(p) && l < 8 {
			q := append(append([]byte(nil), p[:4]...), 1, 2, 3, 4)
			q[2], q[3] = 0, 8
			return q
		}
	}
	return p
}

func init() {
	cpConsts := [][]byte{
		cpPkt(1, 7, nil), cpPkt(2, 1, nil), cpPkt(3, 1, hx("01 04 05d4")), cpPkt(4, 1, hx("07 02")), cpPkt(5, 3, nil), cpPkt(6, 3, nil),
		hx("01 01 0000"), hx("01 01 0003"), hx("01 01 ffff"), hx("01 07 0006 01 00"), hx("01 07 0006 01 01"), hx("01 07 0006 01 ff"),
	}
	lcpConsts := append([][]byte{
		cpPkt(9, 1, hx("01020304")), cpPkt(9, 1, nil), cpPkt(9, 1, hx("01")), cpPkt(9, 1, hx("010203")), cpPkt(9, 1, hx("0102030405")),
		cpPkt(10, 1, nil), cpPkt(7, 1, nil), cpPkt(7, 1, hx("01")), cpPkt(8, 1, nil), cpPkt(8, 1, hx("c0")), cpPkt(8, 1, hx("c021")), cpPkt(11, 1, nil), cpPkt(77, 1, hx("aabb")),
	}, cpConsts...)
	fsmTarget("lcp-fsm", "lcp", 0xc021, lcpConsts, padShortEcho, []string{sigEcho})
	fsmTarget("ipcp-fsm", "ipcp", 0x8021, append([][]byte{cpPkt(1, 7, hx("03 06 00000000")), cpPkt(1, 7, hx("03 06 0a090002 81 06 00000000 83 06 00000000")), cpPkt(1, 7, hx("03 05 000000")), cpPkt(3, 1, hx("03 06 01020304"))}, cpConsts...), nil, nil)
	fsmTarget("ipv6cp-fsm", "ipv6cp", 0x8057, append([][]byte{cpPkt(1, 7, hx("01 0a 0000000000000000")), cpPkt(1, 7, hx("01 0a 0102030405060708")), cpPkt(1, 7, hx("01 09 01020304050607")), cpPkt(3, 1, hx("01 0a 1111111111111111"))}, cpConsts...), nil, nil)
}

// ---------------------------------------------------------------------------
// Authenticator.ReceivePacket: PAP and CHAP
// ---------------------------------------------------------------------------

var authStates = []string{"None", "Pending", "Success"}

// case layout: [0] authenticator state selector, [1] protocol number selector (0 = the configured one,
// 1 = the other auth protocol, 2 = an unsupported protocol), rest = authentication packet.
func authTarget(name string, proto uint16, build func(*rapid.T) *bld, good []byte, consts [][]byte) {
	register(&target{
		name:  name,
		group: "auth", // both targets can reach receivePAP and receiveCHAP (a peer may answer with the other protocol)
		nsel:  2, avoid: fixAuthLen, avoidSigs: []string{sigPAP, sigCHAP},
		run: func(data []byte, c *caseInfo) {
			sel, pkt := split(data, 2)
			cfg := pppoe.DefaultAuthConfig()
			cfg.Protocol = proto
			a := pppoe.NewAuthenticator(cfg, nil, func(uint16, []byte) {}, zap.NewNop())
			a.SetOnAuthComplete(func(*pppoe.AuthResult) {})
			st := int(sel[0]) % len(authStates)
			if st >= 1 {
				_ = a.Start() // CHAP: sends challenge with identifier 1
			}
			if st >= 2 {
				_ = a.ReceivePacket(proto, clip(good))
			}
			c.class("state:" + a.GetState().String())
			p := proto
			switch sel[1] % 3 {
			case 1:
				p = proto ^ (pppoe.ProtocolPAP ^ pppoe.ProtocolCHAP)
				c.class("proto:other-auth")
			case 2:
				p = 0x1234
				c.class("proto:unsupported")
			default:
				c.class("proto:configured")
			}
			c.nt = len(pkt) >= 4 && p != 0x1234
			if c.nt {
				c.class("passes-first-length-check")
			}
			_ = a.ReceivePacket(p, pkt)
			c.class("after:" + a.GetState().String())
		},
		gen: func(rt *rapid.T) []byte {
			p := genPacket(rt, build, consts)
			if vstat.IsListed(sigPAP) || vstat.IsListed(sigCHAP) {
				if rapid.IntRange(0, 9).Draw(rt, "keepKFShape") > 0 {
					p = fixAuthLen(p)
				} else {
					lastGenClass += "+kf-shape"
				}
			}
			ps := rapid.SampledFrom([]byte{0, 0, 0, 0, 0, 0, 1, 2}).Draw(rt, "protoSel")
			return withSel(p, selByte(rt, len(authStates), "state"), ps)
		},
		seeds: func() [][]byte {
			var o [][]byte
			for _, k := range consts {
				for st := range authStates {
					o = append(o, withSel(k, byte(st), 0))
				}
			}
			return o
		},
	})
}

// fixAuthLen: a PAP/CHAP length field below the header size is raised to it.
func fixAuthLen(p []byte) []byte {
	if len(p) >= 4 && binary.BigEndian.Uint16(p[2:4]) < 4 {
		p[2], p[3] = 0, 4
	}
	return p
}

const (
	sigPAP  = "C09/auth/panic/pppoe.(*Authenticator).receivePAP/slice-bounds"
	sigCHAP = "C09/auth/panic/pppoe.(*Authenticator).receiveCHAP/slice-bounds"
)

func init() {
	goodPAP := mkCP(1, 1, "05 616c696365  06 736563726574")
	goodCHAP := mkCP(2, 1, "10 000102030405060708090a0b0c0d0e0f 616c696365")
	authTarget("auth-pap", pppoe.ProtocolPAP, bldPAP, goodPAP, [][]byte{goodPAP,
		hx("01 01 0000"), hx("01 01 0003"), hx("01 01 0004"), hx("01 01 0005 00"), hx("01 01 0005 ff"), hx("01 01 0006 00 ff"), hx("01 01 0006 01 41"), hx("01 01 ffff"),
		hx("01 01 0001 05 616c696365 06 736563726574")})
	authTarget("auth-chap", pppoe.ProtocolCHAP, bldCHAP, goodCHAP, [][]byte{goodCHAP,
		hx("02 01 0000"), hx("02 01 0003"), hx("02 01 0004"), hx("02 01 0005 00"), hx("02 01 0005 ff"), hx("02 01 0006 10 41"), hx("02 01 ffff"), hx("02 00 0004"),
		hx("02 01 0002 10 000102030405060708090a0b0c0d0e0f")})
}

// ---------------------------------------------------------------------------

func TestPropPPPoEParsers(t *testing.T) {
	runProp(t, 9000, 180000, "pppoe.ParsePPPoEHeader", "pppoe.ParseTags", "pppoe.ParseLCPPacket", "pppoe.ParseLCPOptions", "pppoe.ParsePADT", "pppoe.ParseEchoPacket")
}
func TestPropPPPoEDiscovery(t *testing.T) { runProp(t, 4000, 80000, "pppoe-discovery") }
func TestPropPPPoESession(t *testing.T)   { runProp(t, 4000, 80000, "pppoe-session") }
func TestPropLCP(t *testing.T)            { runProp(t, 5000, 100000, "lcp-fsm") }
func TestPropIPCP(t *testing.T)           { runProp(t, 5000, 100000, "ipcp-fsm") }
func TestPropIPV6CP(t *testing.T)         { runProp(t, 5000, 100000, "ipv6cp-fsm") }
func TestPropAuthPAP(t *testing.T)        { runProp(t, 5000, 100000, "auth-pap") }
func TestPropAuthCHAP(t *testing.T)       { runProp(t, 5000, 100000, "auth-chap") }
