package c09

import (
	"bytes"
	"encoding/binary"
	"fmt"
	"net"
	"testing"
	"time"

	"github.com/codelaboratoryltd/bng/pkg/pppoe"
	"go.uber.org/zap"
	"pgregory.net/rapid"

	"bngverif/internal/vstat"
)

// ---------------------------------------------------------------------------
// stateless parsers
// ---------------------------------------------------------------------------

func parserTarget(name string, minLen int, fn func([]byte), build func(*rapid.T) *bld, consts [][]byte, ntExtra func([]byte) bool) {
	register(&target{
		name: name,
		run: func(data []byte, c *caseInfo) {
			c.nt = len(data) >= minLen && (ntExtra == nil || ntExtra(data))
			if c.nt {
				c.class("passes-first-length-check")
			} else {
				c.class("short")
			}
			fn(data)
		},
		gen:   func(rt *rapid.T) []byte { return genPacket(rt, build, consts) },
		seeds: func() [][]byte { return consts },
	})
}

var hostileHdrs = [][]byte{
	hx("11 a7 0001 ffff"), hx("11 a7 0001 0001"), hx("11 a7 0001 0004 0101"), hx("11 09 0000 ffff 0101 ffff"),
	hx("11 a7 0001 0005 0101 0001 41"), hx("11 a7 0001 0004 0101 0000"), hx("11 a7 0001 0000"),
}

func init() {
	parserTarget("pppoe.ParsePPPoEHeader", 6, func(b []byte) { _, _ = pppoe.ParsePPPoEHeader(b) }, bldDiscovery, hostileHdrs, nil)
	parserTarget("pppoe.ParseTags", 4, func(b []byte) { _, _ = pppoe.ParseTags(b) }, bldTags,
		[][]byte{hx("0101 ffff"), hx("0101 0001"), hx("0101 0000 0000 ffff"), hx("0103 0002 aabb 0104")}, nil)
	parserTarget("pppoe.ParseLCPPacket", 4, func(b []byte) { _, _ = pppoe.ParseLCPPacket(b) },
		func(rt *rapid.T) *bld { return bldCP(rt, 0xc021) },
		[][]byte{hx("01 01 0000"), hx("01 01 0003"), hx("01 01 0005"), hx("01 01 ffff"), hx("09 01 0004"), hx("01 01 0004")}, nil)
	parserTarget("pppoe.ParseLCPOptions", 2, func(b []byte) { _, _ = pppoe.ParseLCPOptions(b) }, bldLCPOptions,
		[][]byte{hx("01 00"), hx("01 01"), hx("01 02"), hx("01 03"), hx("01 ff"), hx("01 04 05d4 05")}, nil)
	parserTarget("pppoe.ParsePADT", 6, func(b []byte) { _, _, _ = pppoe.ParsePADT(b) }, bldPADT, hostileHdrs,
		func(b []byte) bool { return b[1] == pppoe.CodePADT && len(b) > 6 })
	parserTarget("pppoe.ParseEchoPacket", 4, func(b []byte) { _, _, _ = pppoe.ParseEchoPacket(b) },
		func(rt *rapid.T) *bld { return &bld{b: rbytes(rt, 0, 12, "echo")} },
		[][]byte{{}, {1}, {1, 2, 3}, {1, 2, 3, 4}, {1, 2, 3, 4, 5}}, nil)
}

// ---------------------------------------------------------------------------
// PPPoE server: discovery and session frame entry points, session in each state
// ---------------------------------------------------------------------------

var (
	srvMAC    = net.HardwareAddr{0x02, 0, 0, 0, 0, 0x01}
	ownerMAC  = net.HardwareAddr{0x02, 0, 0, 0, 0, 0xaa}
	otherMAC  = net.HardwareAddr{0x02, 0, 0, 0, 0, 0xbb}
	bcastMAC  = net.HardwareAddr{0xff, 0xff, 0xff, 0xff, 0xff, 0xff}
	srvStates = []string{"none", "lcp", "auth", "ipcp", "established", "terminated"}
)

func newPPPoEServer() *pppoe.Server {
	s, err := pppoe.VerifC09NewServer(pppoe.ServerConfig{
		Interface: "verif0", ACName: "AC", ServiceName: "internet", ServerIP: "10.9.0.1",
		ClientPool: "10.9.0.0/28", PoolGateway: "10.9.0.1", PrimaryDNS: "10.9.0.1", SecondaryDNS: "8.8.8.8",
	}, srvMAC)
	if err != nil {
		panic("harness: " + err.Error())
	}
	return s
}

// pppoePrelude drives a fresh server, with valid frames only, to the selected session state.
func pppoePrelude(s *pppoe.Server, state int) {
	if state == 0 {
		return
	}
	s.VerifC09Discovery(ownerMAC, clip(vPADI))
	s.VerifC09Discovery(ownerMAC, clip(vPADR)) // session 1, LCP negotiation
	if state >= 2 {
		s.VerifC09Session(ownerMAC, clip(vLCPReq1))
		s.VerifC09Session(ownerMAC, clip(vLCPAck1)) // authentication
	}
	if state >= 3 {
		s.VerifC09Session(ownerMAC, clip(vPAP1)) // no RADIUS configured: accepted; IPCP negotiation
	}
	if state >= 4 {
		s.VerifC09Session(ownerMAC, clip(vIPCPReq1))
		s.VerifC09Session(ownerMAC, clip(vIPCPAck1)) // established
	}
	if state >= 5 {
		s.VerifC09Discovery(ownerMAC, clip(vPADT1)) // session removed
	}
}

func pppoeStateName(s *pppoe.Server) string {
	st, ok := s.VerifC09SessionState(1)
	if !ok {
		return "no-session"
	}
	return st.String()
}

// case layout: [0] session state selector, [1] delivery: bit0 = through receiveLoop (1522-byte buffer) instead of a
// direct call with an exact-capacity slice; bit1 = foreign source MAC; bit2 = broadcast destination; [2..7] history
// shape (srvShape; [2] = 0: the fixed prelude); rest = payload after the Ethernet header.
const srvSel = 8

func pppoeServerTarget(name string, etherType uint16, build func(*rapid.T) *bld, consts [][]byte, avoid func([]byte) []byte, avoidSigs []string) {
	var dictSeeds func() [][]byte
	if etherType == pppoe.EtherTypePPPoEDiscovery {
		dictSeeds = func() [][]byte {
			// every integer literal of the package (and the boundary values) as vendor id of a Vendor-Specific tag x
			// hostile sub-tag lists, in PADI and PADR
			var o [][]byte
			seen := map[uint64]bool{}
			for _, v := range append(dictFor("pppoe").ints(32), boundaries...) {
				if seen[v] {
					continue
				}
				seen[v] = true
				for _, sh := range innerShapes(1, 1, false) {
					vt := tag(0x0105, append(be32(v), sh...))
					o = append(o, withSel(discPkt(0x09, 0, tag(0x0101, nil), vt), 0, 0, 0, 0, 0, 0, 0, 0),
						withSel(discPkt(0x19, 0, tag(0x0101, nil), tag(0x0104, bytes.Repeat([]byte{7}, 16)), vt), 0, 1, 0, 0, 0, 0, 0, 0))
				}
			}
			return o
		}
	}
	register(&target{
		name: name, nsel: srvSel, avoid: avoid, avoidSigs: avoidSigs, dictSeeds: dictSeeds,
		run: func(data []byte, c *caseInfo) {
			sel, payload := split(data, srvSel)
			state := int(sel[0]) % len(srvStates)
			sh := srvShape{sel[2], sel[3], sel[4], sel[5], sel[6], sel[7]}
			var s *pppoe.Server
			if sh.mode == 0 {
				c.class("prefix:fixed")
				s = newPPPoEServer()
				pppoePrelude(s, state)
			} else {
				c.class("prefix:generated")
				s = newPPPoEServerCfg(sh.disc&0x80 != 0)
				if sh.disc&0x80 != 0 {
					c.class("history:server-chap-small-pool-no-dns")
				}
				srvHistory(s, state, sh, c)
			}
			c.class("state:" + pppoeStateName(s))
			src := ownerMAC
			if sel[1]&2 != 0 {
				src = otherMAC
			}
			session := etherType == pppoe.EtherTypePPPoESession
			if session {
				c.nt = len(payload) >= 8
				if c.nt {
					_, has := s.VerifC09SessionState(binary.BigEndian.Uint16(payload[2:4]))
					c.nt = has
				}
			} else {
				c.nt = len(payload) >= 6
			}
			if c.nt {
				c.class("passes-first-length-check")
			}
			if sel[1]&1 != 0 {
				c.class("via:receiveLoop")
				dst := srvMAC
				if sel[1]&4 != 0 {
					dst = bcastMAC
				}
				frame := pppoe.BuildEthernetFrame(dst, src, etherType, payload)
				s.VerifC09Receive([][]byte{frame})
			} else {
				c.class("via:direct")
				if session {
					s.VerifC09Session(src, payload)
				} else {
					s.VerifC09Discovery(src, payload)
				}
			}
			c.class("after:" + pppoeStateName(s))
		},
		gen: func(rt *rapid.T) []byte {
			p := genPacket(rt, build, consts)
			listed := false
			for _, sg := range avoidSigs {
				listed = listed || vstat.IsListed(sg)
			}
			if listed && avoid != nil {
				// steer most cases around the listed defect so that the search goes on behind it
				if rapid.IntRange(0, 9).Draw(rt, "keepKFShape") > 0 {
					p = avoid(p)
				} else {
					lastGenClass += "+kf-shape"
				}
			}
			st := byte(drawWeighted(rt, []int{8, 15, 15, 19, 25, 18}, "state"))
			// most frames come from the session's owner (anything else is dropped at the MAC check)
			dl := bits(rt, "delivery", 50, 15, 30)
			return withSel(p, append([]byte{st, dl}, genSrvShape(rt)...)...)
		},
		seeds: func() [][]byte {
			var o [][]byte
			for _, k := range consts {
				for st := 0; st < len(srvStates); st++ {
					o = append(o, withSel(k, byte(st), 0, 0, 0, 0, 0, 0, 0), withSel(k, byte(st), 1, 0, 0, 0, 0, 0, 0))
				}
				o = append(o, withSel(k, 4, 0, 1, 0x08, 0x40, 0x09, 0x02, 0x00), withSel(k, 4, 1, 1, 0xe6, 0x83, 0xea, 0x5c, 0x91), withSel(k, 2, 0, 1, 0x10, 0x02, 0, 0, 0))
			}
			return o
		},
	})
}

// fixPPPoELen makes the PPPoE length field consistent with the payload (lo <= Length <= len-6).
func fixPPPoELen(lo int) func([]byte) []byte {
	return func(p []byte) []byte {
		if len(p) < 6 {
			return p
		}
		l := int(binary.BigEndian.Uint16(p[4:6]))
		if l > len(p)-6 || l < lo {
			l = len(p) - 6
			if l < lo {
				return p[:5] // too short to be parsed at all
			}
			binary.BigEndian.PutUint16(p[4:6], uint16(l))
		}
		return p
	}
}

const (
	sigDiscovery = "C09/pppoe-discovery/panic/pppoe.(*Server).handleDiscovery/slice-bounds"
	sigSession   = "C09/pppoe-session/panic/pppoe.(*Server).handleSession/slice-bounds"
)

func init() {
	pppoeServerTarget("pppoe-discovery", pppoe.EtherTypePPPoEDiscovery, bldDiscovery,
		append([][]byte{vPADI, vPADR, vPADT1, hx("11 09 0000 0000"), hx("11 19 0000 0004 0104 0000")}, hostileHdrs...),
		fixPPPoELen(0), []string{sigDiscovery})
	pppoeServerTarget("pppoe-session", pppoe.EtherTypePPPoESession, bldSession,
		[][]byte{vLCPAck1, vLCPReq1, vPAP1, vIPCPAck1, vIPCPReq1, vEcho1,
			hx("11 00 0001 0000 c021"), hx("11 00 0001 0001 c021"), hx("11 00 0001 ffff c021"), hx("11 00 0001 0002 c023"),
			hx("11 00 0001 0006 c023 01 01 0000"), hx("11 00 0001 0008 c023 01 01 0006 ff 00")},
		fixPPPoELen(2), []string{sigSession})
}

// ---------------------------------------------------------------------------
// LCP / IPCP / IPV6CP automata: ReceivePacket in each of the 10 RFC 1661 states
// ---------------------------------------------------------------------------

var fsmStates = []string{"Initial", "Starting", "Closed", "Stopped", "Closing", "Stopping", "Req-Sent", "Ack-Rcvd", "Ack-Sent", "Opened"}

type fsm struct {
	kind                  string
	up, down, open, close func()
	recv                  func([]byte) error
	state                 func() string
	goodReq               []byte          // a Configure-Request this automaton acknowledges
	timeout               func() bool     // the pending restart timer expires now (false: none pending)
	neg                   func() []string // labels of what the automaton remembers of the negotiation
	sent                  [][]byte        // every packet the automaton sent (copies)
}

func cpPkt(code, id byte, body []byte) []byte {
	n := 4 + len(body)
	return append([]byte{code, id, byte(n >> 8), byte(n)}, body...)
}

// drive puts a fresh automaton into state want using events and valid packets only
// (the automaton's first Configure-Request carries identifier 1).
func (f *fsm) drive(want string) {
	ack := cpPkt(2, 1, nil)
	term := cpPkt(5, 9, nil)
	switch want {
	case "Initial":
	case "Starting":
		f.open()
	case "Closed":
		f.up()
	case "Req-Sent":
		f.up()
		f.open()
	case "Stopped":
		f.up()
		f.open()
		_ = f.recv(term)
	case "Closing":
		f.up()
		f.open()
		f.close()
	case "Ack-Rcvd":
		f.up()
		f.open()
		_ = f.recv(ack)
	case "Ack-Sent":
		f.up()
		f.open()
		_ = f.recv(f.goodReq)
	case "Opened":
		f.up()
		f.open()
		_ = f.recv(f.goodReq)
		_ = f.recv(ack)
	case "Stopping":
		f.up()
		f.open()
		_ = f.recv(f.goodReq)
		_ = f.recv(ack)
		_ = f.recv(term)
	}
}

// onePool is an IPPoolAllocator that always hands out 10.9.0.2.
type onePool struct{}

func (onePool) Allocate(string) net.IP { return net.ParseIP("10.9.0.2") }
func (onePool) Release(string)         {}

func newFSM(kind string, cfgSel byte) *fsm {
	f := &fsm{kind: kind}
	send := func(_ uint16, b []byte) { f.sent = append(f.sent, append([]byte(nil), b...)) }
	log := zap.NewNop()
	flag := func(b bool, s string) []string {
		if b {
			return []string{s}
		}
		return nil
	}
	switch kind {
	case "lcp":
		cfg := pppoe.DefaultLCPConfig()
		cfg.RestartTimer = time.Hour // no timer fires by itself during a case (f.timeout delivers expiries); Down() stops it at the end
		cfg.MagicNumber = 0x11223344
		if cfgSel&1 != 0 {
			cfg.AuthProtocol = pppoe.ProtocolCHAP
		}
		if cfgSel&2 != 0 {
			cfg.PFC, cfg.ACFC = true, true
		}
		m, err := pppoe.NewLCPStateMachine(cfg, send, log)
		if err != nil {
			panic("harness: " + err.Error())
		}
		f.up, f.down, f.open, f.close, f.recv = m.Up, m.Down, m.Open, m.Close, m.ReceivePacket
		f.state = func() string { return m.GetState().String() }
		f.goodReq = cpPkt(1, 7, hx("01 04 05d4 05 06 0a0b0c0d"))
		f.timeout = func() bool {
			if !m.VerifC11TakeRestartTimer() {
				return false
			}
			m.VerifC11Timeout()
			return true
		}
		f.neg = func() []string {
			n := m.GetNegotiatedOptions()
			l := []string{"peer-mru-present", "peer-magic-present"}
			if n.PeerMRU == 0 {
				l[0] = "peer-mru-absent"
			}
			if n.PeerMagic == 0 {
				l[1] = "peer-magic-absent"
			}
			l = append(l, flag(n.PeerPFC, "peer-pfc")...)
			l = append(l, flag(n.PeerACFC, "peer-acfc")...)
			l = append(l, flag(n.LocalMRU != 1492, "local-mru-nakd")...)
			l = append(l, flag(n.AuthProtocol != 0, "auth-proto-nakd")...)
			return append(l, flag(n.LocalMagic != 0x11223344, "local-magic-regenerated")...)
		}
	case "ipcp":
		cfg := pppoe.DefaultIPCPConfig()
		cfg.RestartTimer = time.Hour
		cfg.LocalIP = net.ParseIP("10.9.0.1")
		switch {
		case cfgSel&4 != 0:
			// DefaultIPCPConfig as it is: no address assigned to the peer, no pool
		case cfgSel&1 == 0:
			cfg.PeerIP = net.ParseIP("10.9.0.2")
		default:
			cfg.IPPool = onePool{} // address assigned from a pool at Up() instead of statically
		}
		if cfgSel&2 != 0 {
			cfg.PrimaryDNS, cfg.SecondaryDNS = net.ParseIP("10.9.0.1"), net.ParseIP("8.8.8.8")
		}
		m := pppoe.NewIPCPStateMachine(cfg, "sess-1", send, log)
		f.up, f.down, f.open, f.close, f.recv = m.Up, m.Down, m.Open, m.Close, m.ReceivePacket
		f.state = func() string { return m.GetState().String() }
		f.goodReq = cpPkt(1, 7, hx("03 06 0a090002"))
		if cfgSel&4 != 0 {
			f.goodReq = cpPkt(1, 7, hx("81 06 08080404")) // without an assigned address only a request that names none is acknowledged
		}
		f.timeout = func() bool {
			if !m.VerifC11TakeRestartTimer() {
				return false
			}
			m.VerifC11Timeout()
			return true
		}
		f.neg = func() []string {
			n := m.GetNegotiatedOptions()
			l := []string{"peer-ip-set", "peer-dns-not-stored"}
			if n.PeerIP == nil {
				l[0] = "peer-ip-unset"
			}
			if n.PrimaryDNS != nil || n.SecondaryDNS != nil {
				l[1] = "peer-dns-stored"
			}
			return append(l, flag(!n.LocalIP.Equal(net.ParseIP("10.9.0.1")), "local-ip-nakd")...)
		}
	default:
		cfg := pppoe.IPV6CPConfig{LocalInterfaceID: 0x0102030405060708, MaxRetransmit: 10, RestartTimer: time.Hour}
		m, err := pppoe.NewIPV6CPStateMachine(cfg, send, log)
		if err != nil {
			panic("harness: " + err.Error())
		}
		f.up, f.down, f.open, f.close, f.recv = m.Up, m.Down, m.Open, m.Close, m.ReceivePacket
		f.state = func() string { return m.GetState().String() }
		f.goodReq = cpPkt(1, 7, hx("01 0a aaaaaaaaaaaaaaaa"))
		f.timeout = func() bool {
			if !m.VerifC11TakeRestartTimer() {
				return false
			}
			m.VerifC11Timeout()
			return true
		}
		f.neg = func() []string {
			n := m.GetNegotiatedOptions()
			l := []string{"peer-ifid-set"}
			if n.PeerInterfaceID == 0 {
				l[0] = "peer-ifid-unset"
			}
			return append(l, flag(n.LocalInterfaceID != 0x0102030405060708, "local-ifid-changed")...)
		}
	}
	return f
}

// case layout: [0] automaton state selector, [1] configuration selector, [2..7] negotiation shape (negShape: [2] = 0
// selects the fixed prelude), rest = control packet.
const fsmSel = 8

func fsmTarget(name, kind string, proto int, consts [][]byte, avoid func([]byte) []byte, avoidSigs []string) {
	register(&target{
		name: name, nsel: fsmSel, avoid: avoid, avoidSigs: avoidSigs,
		run: func(data []byte, c *caseInfo) {
			sel, pkt := split(data, fsmSel)
			want := fsmStates[int(sel[0])%len(fsmStates)]
			f := newFSM(kind, sel[1])
			defer f.down() // stops the restart timer
			sh := negShape{sel[2], sel[3], sel[4], sel[5], sel[6], sel[7]}
			var st negStats
			if sh.mode == 0 {
				c.class("prefix:fixed")
				f.drive(want)
			} else {
				c.class("prefix:" + routeNames[sh.route()])
				f.reach(want, sh, &st)
			}
			got := f.state()
			c.class("state:" + got)
			if got != want {
				c.class("prelude-miss")
			}
			// what the automaton remembers (measured on the automaton, not assumed from the script)
			if sh.mode == 0 || st.weAcked > 0 {
				for _, l := range f.neg() {
					c.class("neg:" + l)
					if got == "Opened" {
						c.class("opened:" + l)
					}
				}
			} else {
				c.class("neg:none-acked")
			}
			for _, x := range []struct {
				on bool
				l  string
			}{{st.weNakd > 0, "we-nakd"}, {st.weRejected > 0, "we-rejected"}, {st.peerNakd > 0, "peer-nakd-ours"}, {st.peerRejected > 0, "peer-rejected-ours"},
				{st.timeouts > 0, "timeouts"}, {st.staleAck > 0, "stale-ack"}, {st.reneg, "renegotiated"}, {st.peerFirst, "peer-first"},
				{st.weNakd+st.weRejected+st.peerNakd+st.peerRejected > 0, "nak-or-reject-before-ack"}} {
				if x.on {
					c.class("shape:" + x.l)
					if got == "Opened" {
						c.class("opened:after-" + x.l)
					}
				}
			}
			c.nt = len(pkt) >= 4 && int(binary.BigEndian.Uint16(pkt[2:4])) <= len(pkt)
			if c.nt {
				c.class("passes-first-length-check")
				c.class(fmt.Sprintf("code:%d", pkt[0]))
			}
			_ = f.recv(pkt)
			c.class("after:" + f.state())
		},
		gen: func(rt *rapid.T) []byte {
			p := genPacket(rt, func(rt *rapid.T) *bld { return bldCP(rt, proto) }, consts)
			listed := false
			for _, sg := range avoidSigs {
				listed = listed || vstat.IsListed(sg)
			}
			if listed && avoid != nil {
				if rapid.IntRange(0, 9).Draw(rt, "keepKFShape") > 0 {
					p = avoid(p)
				} else {
					lastGenClass += "+kf-shape"
				}
			}
			st := byte(drawWeighted(rt, fsmStateWeights, "state"))
			ncfg := 4
			if kind == "ipcp" {
				ncfg = 8
			}
			return withSel(p, append([]byte{st, selByte(rt, ncfg, "cfg")}, genShape(rt, kind)...)...)
		},
		seeds: func() [][]byte {
			var o [][]byte
			for _, k := range consts {
				for st := range fsmStates {
					o = append(o, withSel(k, byte(st), 0, 0, 0, 0, 0, 0, 0))
				}
				// the same packets behind generated negotiations that end in Opened / Ack-Sent / Stopping
				for i, sh := range fsmSeedShapes {
					o = append(o, withSel(k, append([]byte{[]byte{9, 9, 8, 5}[i%4], byte(i)}, sh...)...))
				}
			}
			return o
		},
	})
}

// shapes behind the seed-corpus packets (mode, mask, variant, order, resp, id): a peer that names no MRU, one that
// asks for everything, a Nak/Reject exchange in both directions with timeouts, a renegotiated second life
var fsmSeedShapes = [][]byte{
	{1, 0x02, 0x00, 0, 0x00, 1}, {1, 0x7f, 0x01, 5, 0x23, 7}, {2, 0x03, 0x04, 1, 0x2b, 2}, {3, 0x31, 0x82, 2, 0xa1, 250},
}

const sigEcho = "C09/lcp-fsm/panic/pppoe.(*LCPStateMachine).receiveEchoRequest/slice-bounds"

// padShortEcho: an Echo-Request with fewer than 4 data bytes gets its magic number completed.
func padShortEcho(p []byte) []byte {
	if len(p) >= 4 && p[0] == 9 {
		l := int(binary.BigEndian.Uint16(p[2:4]))
		if l <= len(p) && l < 8 {
			q := append(append([]byte(nil), p[:4]...), 1, 2, 3, 4)
			q[2], q[3] = 0, 8
			return q
		}
	}
	return p
}

func init() {
	cpConsts := [][]byte{
		cpPkt(1, 7, nil), cpPkt(2, 1, nil), cpPkt(3, 1, hx("01 04 05d4")), cpPkt(4, 1, hx("07 02")), cpPkt(5, 3, nil), cpPkt(6, 3, nil),
		hx("01 01 0000"), hx("01 01 0003"), hx("01 01 ffff"), hx("01 07 0006 01 00"), hx("01 07 0006 01 01"), hx("01 07 0006 01 ff"),
	}
	lcpConsts := append([][]byte{
		cpPkt(9, 1, hx("01020304")), cpPkt(9, 1, nil), cpPkt(9, 1, hx("01")), cpPkt(9, 1, hx("010203")), cpPkt(9, 1, hx("0102030405")),
		cpPkt(10, 1, nil), cpPkt(7, 1, nil), cpPkt(7, 1, hx("01")), cpPkt(8, 1, nil), cpPkt(8, 1, hx("c0")), cpPkt(8, 1, hx("c021")), cpPkt(11, 1, nil), cpPkt(77, 1, hx("aabb")),
	}, cpConsts...)
	fsmTarget("lcp-fsm", "lcp", 0xc021, lcpConsts, padShortEcho, []string{sigEcho})
	fsmTarget("ipcp-fsm", "ipcp", 0x8021, append([][]byte{cpPkt(1, 7, hx("03 06 00000000")), cpPkt(1, 7, hx("03 06 0a090002 81 06 00000000 83 06 00000000")), cpPkt(1, 7, hx("03 05 000000")), cpPkt(3, 1, hx("03 06 01020304"))}, cpConsts...), nil, nil)
	fsmTarget("ipv6cp-fsm", "ipv6cp", 0x8057, append([][]byte{cpPkt(1, 7, hx("01 0a 0000000000000000")), cpPkt(1, 7, hx("01 0a 0102030405060708")), cpPkt(1, 7, hx("01 09 01020304050607")), cpPkt(3, 1, hx("01 0a 1111111111111111"))}, cpConsts...), nil, nil)
}

// ---------------------------------------------------------------------------
// Authenticator.ReceivePacket: PAP and CHAP
// ---------------------------------------------------------------------------

var authStates = []string{"None", "Pending", "Success"}

// case layout: [0] authenticator state selector, [1] protocol number selector (0 = the configured one,
// 1 = the other auth protocol, 2 = an unsupported protocol), [2..5] history shape ([2] = 0: the fixed prelude),
// rest = authentication packet.
//
// Generated history ([2] != 0): [3] bits0-1 number of earlier exchanges, bits2-4 / bits5-7 length classes of the
// peer-id (CHAP: name) and the password (CHAP: response value) of those exchanges; [4] bits0-1 re-authentication
// challenges sent after a success (CHAP), bit2 the first answer carries a stale identifier, bit3 a packet of the other
// authentication protocol came first, bits4-7 identifier base; [5] rotates the length classes between exchanges.
const authSel = 6

var (
	authIDLens = []int{5, 0, 1, 16, 64, 255, 0, 32}
	authPwLens = []int{6, 0, 1, 16, 64, 255, 8, 100}
)

func authHistory(a *pppoe.Authenticator, proto uint16, sel []byte, sent *[][]byte, c *caseInfo) {
	n := int(sel[3] & 3)
	fill := func(n int, b byte) []byte { return bytes.Repeat([]byte{b}, n) }
	chapID := func() byte { // identifier of the latest challenge
		for i := len(*sent) - 1; i >= 0; i-- {
			if p := (*sent)[i]; len(p) >= 2 && p[0] == 1 {
				return p[1]
			}
		}
		return 1
	}
	if sel[4]&8 != 0 {
		// a peer that answers with the protocol that was not negotiated
		other := proto ^ (pppoe.ProtocolPAP ^ pppoe.ProtocolCHAP)
		_ = a.ReceivePacket(other, clip(cpPkt(1, 1, append([]byte{3}, "bob\x03pwd"...))))
		c.class("history:other-protocol-first")
	}
	for i := 0; i < n; i++ {
		il := authIDLens[(int(sel[3]>>2&7)+i*int(sel[5]&7))%len(authIDLens)]
		pl := authPwLens[(int(sel[3]>>5&7)+i*int(sel[5]>>3&7))%len(authPwLens)]
		id := sel[4]>>4 + byte(i)
		if proto == pppoe.ProtocolPAP {
			body := append(append([]byte{byte(il)}, fill(il, 'u')...), byte(pl))
			_ = a.ReceivePacket(proto, clip(cpPkt(1, id, append(body, fill(pl, 'p')...))))
		} else {
			id = chapID()
			if i == 0 && sel[4]&4 != 0 {
				_ = a.ReceivePacket(proto, clip(cpPkt(2, id+7, append(append([]byte{16}, fill(16, 0xcc)...), "stale"...))))
				c.class("history:stale-identifier-first")
			}
			vl := []int{16, 16, 0, 1, 49, 255, 16, 20}[pl%8]
			_ = a.ReceivePacket(proto, clip(cpPkt(2, id, append(append([]byte{byte(vl)}, fill(vl, 0xcc)...), fill(il, 'u')...))))
		}
	}
	if proto == pppoe.ProtocolCHAP && a.GetState() == pppoe.AuthStateSuccess {
		for k := int(sel[4] & 3); k > 0; k-- {
			_ = a.SendReauthChallenge() // periodic re-authentication: a new challenge is outstanding in state Success
		}
		if sel[4]&3 != 0 {
			c.class("history:reauth-challenge-outstanding")
		}
	}
}

func authTarget(name string, proto uint16, build func(*rapid.T) *bld, good []byte, consts [][]byte) {
	register(&target{
		name:  name,
		group: "auth", // both targets can reach receivePAP and receiveCHAP (a peer may answer with the other protocol)
		nsel:  authSel, avoid: fixAuthLen, avoidSigs: []string{sigPAP, sigCHAP},
		run: func(data []byte, c *caseInfo) {
			sel, pkt := split(data, authSel)
			cfg := pppoe.DefaultAuthConfig()
			cfg.Protocol = proto
			var sent [][]byte
			a := pppoe.NewAuthenticator(cfg, nil, func(_ uint16, b []byte) { sent = append(sent, append([]byte(nil), b...)) }, zap.NewNop())
			a.SetOnAuthComplete(func(*pppoe.AuthResult) {})
			st := int(sel[0]) % len(authStates)
			if st >= 1 {
				_ = a.Start() // CHAP: sends challenge with identifier 1
			}
			if sel[2] == 0 {
				c.class("prefix:fixed")
				if st >= 2 {
					_ = a.ReceivePacket(proto, clip(good))
				}
			} else {
				c.class("prefix:generated")
				if st >= 2 && sel[3]&3 == 0 {
					sel[3] |= 1 // Success needs at least one exchange
				}
				if st < 2 {
					sel[3] &^= 3 // None / Pending: nothing answered yet (stray packets of the other protocol still possible)
				}
				authHistory(a, proto, sel, &sent, c)
			}
			c.class("state:" + a.GetState().String())
			switch n := len(a.GetUsername()); {
			case a.GetState() != pppoe.AuthStateSuccess:
			case n == 0:
				c.class("success:username-empty")
			case n < 64:
				c.class("success:username-short")
			default:
				c.class("success:username-long")
			}
			if sel[2] != 0 && a.GetState() == pppoe.AuthStateSuccess {
				c.class(fmt.Sprintf("success:exchanges-%d", sel[3]&3))
			}
			p := proto
			switch sel[1] % 3 {
			case 1:
				p = proto ^ (pppoe.ProtocolPAP ^ pppoe.ProtocolCHAP)
				c.class("proto:other-auth")
			case 2:
				p = 0x1234
				c.class("proto:unsupported")
			default:
				c.class("proto:configured")
			}
			c.nt = len(pkt) >= 4 && p != 0x1234
			if c.nt {
				c.class("passes-first-length-check")
			}
			_ = a.ReceivePacket(p, pkt)
			c.class("after:" + a.GetState().String())
		},
		gen: func(rt *rapid.T) []byte {
			p := genPacket(rt, build, consts)
			if vstat.IsListed(sigPAP) || vstat.IsListed(sigCHAP) {
				if rapid.IntRange(0, 9).Draw(rt, "keepKFShape") > 0 {
					p = fixAuthLen(p)
				} else {
					lastGenClass += "+kf-shape"
				}
			}
			ps := pick[byte](rt, "protoSel", 0, 0, 0, 0, 0, 0, 1, 2)
			st := byte(drawWeighted(rt, []int{15, 30, 55}, "state"))
			if uni(rt, 5, "prefix") == 0 {
				return withSel(p, st, ps, 0, 0, 0, 0)
			}
			return withSel(p, st, ps, 1, byte(uni(rt, 256, "exchanges")), byte(uni(rt, 4, "reauth"))|bits(rt, "flow", 25, 15)<<2|byte(uni(rt, 16, "idBase"))<<4, byte(uni(rt, 64, "rotate")))
		},
		seeds: func() [][]byte {
			var o [][]byte
			for _, k := range consts {
				for st := range authStates {
					o = append(o, withSel(k, byte(st), 0, 0, 0, 0, 0))
				}
				o = append(o, withSel(k, 2, 0, 1, 0x05, 0x02, 0x09), withSel(k, 2, 0, 1, 0xb6, 0x14, 0x1b))
			}
			return o
		},
	})
}

// fixAuthLen: a PAP/CHAP length field below the header size is raised to it.
func fixAuthLen(p []byte) []byte {
	if len(p) >= 4 && binary.BigEndian.Uint16(p[2:4]) < 4 {
		p[2], p[3] = 0, 4
	}
	return p
}

const (
	sigPAP  = "C09/auth/panic/pppoe.(*Authenticator).receivePAP/slice-bounds"
	sigCHAP = "C09/auth/panic/pppoe.(*Authenticator).receiveCHAP/slice-bounds"
)

func init() {
	goodPAP := mkCP(1, 1, "05 616c696365  06 736563726574")
	goodCHAP := mkCP(2, 1, "10 000102030405060708090a0b0c0d0e0f 616c696365")
	authTarget("auth-pap", pppoe.ProtocolPAP, bldPAP, goodPAP, [][]byte{goodPAP,
		hx("01 01 0000"), hx("01 01 0003"), hx("01 01 0004"), hx("01 01 0005 00"), hx("01 01 0005 ff"), hx("01 01 0006 00 ff"), hx("01 01 0006 01 41"), hx("01 01 ffff"),
		hx("01 01 0001 05 616c696365 06 736563726574")})
	authTarget("auth-chap", pppoe.ProtocolCHAP, bldCHAP, goodCHAP, [][]byte{goodCHAP,
		hx("02 01 0000"), hx("02 01 0003"), hx("02 01 0004"), hx("02 01 0005 00"), hx("02 01 0005 ff"), hx("02 01 0006 10 41"), hx("02 01 ffff"), hx("02 00 0004"),
		hx("02 01 0002 10 000102030405060708090a0b0c0d0e0f")})
}

// ---------------------------------------------------------------------------

func TestPropPPPoEParsers(t *testing.T) {
	runProp(t, 9000, 180000, "pppoe.ParsePPPoEHeader", "pppoe.ParseTags", "pppoe.ParseLCPPacket", "pppoe.ParseLCPOptions", "pppoe.ParsePADT", "pppoe.ParseEchoPacket")
}
func TestPropPPPoEDiscovery(t *testing.T) { runProp(t, 4000, 80000, "pppoe-discovery") }
func TestPropPPPoESession(t *testing.T)   { runProp(t, 4000, 80000, "pppoe-session") }
func TestPropLCP(t *testing.T)            { runProp(t, 5000, 100000, "lcp-fsm") }
func TestPropIPCP(t *testing.T)           { runProp(t, 5000, 100000, "ipcp-fsm") }
func TestPropIPV6CP(t *testing.T)         { runProp(t, 5000, 100000, "ipv6cp-fsm") }
func TestPropAuthPAP(t *testing.T)        { runProp(t, 5000, 100000, "auth-pap") }
func TestPropAuthCHAP(t *testing.T)       { runProp(t, 5000, 100000, "auth-chap") }
