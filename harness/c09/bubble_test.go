package c09

// Virtual time for the histories that need it (lease expiry): the history and the hostile packet run inside a
// testing/synctest bubble, where time.Sleep advances a fake clock.  A panic of the code under test is caught INSIDE
// the bubble (a panic that escaped it would take the test process down) and handed to invoke() with the call site
// that was recorded while the panicking stack still existed.

import (
	"testing"
	"testing/synctest"
)

// curT is the *testing.T of the running TestProp* / TestReplay* / Fuzz* function (synctest.Test needs one).
var curT *testing.T

// bubblePanic carries a panic out of a bubble.
type bubblePanic struct {
	val         any
	site, stack string
}

func inBubble(body func()) {
	if curT == nil {
		panic("harness: inBubble without a *testing.T")
	}
	var bp *bubblePanic
	synctest.Test(curT, func(*testing.T) {
		defer func() {
			if v := recover(); v != nil {
				bp = &bubblePanic{val: v}
				bp.site, bp.stack = panicSite()
			}
		}()
		body()
	})
	if bp != nil {
		panic(bp)
	}
}
