package c09

// Generated negotiation prefixes for the RFC 1661 automata (LCP, IPCP, IPV6CP).
//
// The fixed preludes (fsm.drive) reach every automaton state with ONE history:
// the peer always asks for the same options and acknowledges at once.  What the
// automaton remembers from a negotiation (peer MRU / magic / PFC / ACFC, the
// negotiated addresses, identifiers, counters) is then always the same, and a
// crash that depends on WHAT was negotiated is out of reach.  Here the history
// is part of the case: six shape bytes describe a responsive scripted peer
//
//	which options its Configure-Request carries, with which values, in which order;
//	what it does with OUR Configure-Request before acknowledging it (Nak, Reject, an
//	Ack with a stale identifier, letting the restart timer expire);
//	who goes first; whether the link is renegotiated once it is open; by which route
//	the wanted state is approached (directly, from Opened, or in a "second life"
//	after a complete negotiation and a bounce of the lower layer);
//
// and the peer reacts to what the automaton really sends (captured by the send
// callback): it adopts Nak'd values, drops Rejected options, acknowledges the
// identifier of the automaton's latest Configure-Request.  Every step is a
// well-formed packet a conforming PPP peer may send.  The same bytes drive rapid
// (drawn structurally by genShape), native fuzzing (mutated freely) and replays.

import (
	"bytes"
	"encoding/binary"

	"pgregory.net/rapid"
)

// negShape is the decoded selector bytes [2..7] of an automaton case.
type negShape struct {
	mode    byte // 0 = fixed prelude; otherwise route = (mode-1)%3: direct, via Opened, second life
	mask    byte // options of the peer's Configure-Request (bit meaning per protocol, see peerOpts)
	variant byte // option values (per protocol); bit7: how Req-Sent is approached from Opened
	order   byte // permutation of the option list
	resp    byte // bits0-2 what the peer does with our request before the Ack; bits3-4 timeouts before it; bit5 peer goes first; bit6 no final Ack (internal); bit7 renegotiate once open
	id      byte // the peer's first identifier; bit0 also: Up/Open order
}

func (s negShape) route() int { return int(s.mode-1) % 3 }

var routeNames = []string{"direct", "via-opened", "second-life"}

// second returns the shape of the second negotiation of a case (second life, renegotiation): same peer, other wishes.
func (s negShape) second() negShape {
	t := s
	t.mask = s.mask>>4 | s.mask<<4
	t.variant = s.variant>>3 | s.variant<<5
	t.order = s.order + 3
	t.resp = s.resp >> 1 &^ 0xc0
	t.id = s.id + 0x40
	return t
}

// negStats is what actually happened while the prefix ran (measured, for class labels).
type negStats struct {
	weAcked, weNakd, weRejected       int // our answers to the peer's Configure-Requests
	peerAcked, peerNakd, peerRejected int // the peer's answers to ours
	staleAck, timeouts                int
	reneg, peerFirst                  bool
}

type cpo struct {
	t byte
	d []byte
}

func encOpts(o []cpo) []byte {
	var b []byte
	for _, x := range o {
		b = append(b, x.t, byte(2+len(x.d)))
		b = append(b, x.d...)
	}
	return b
}

// decOpts parses an option list the automaton itself produced (well-formed by construction; anything else ends the list).
func decOpts(b []byte) []cpo {
	var o []cpo
	for len(b) >= 2 {
		l := int(b[1])
		if l < 2 || l > len(b) {
			break
		}
		o = append(o, cpo{b[0], append([]byte(nil), b[2:l]...)})
		b = b[l:]
	}
	return o
}

// permute orders o by the factorial-base digits of k (every permutation of up to 5 options is reachable).
func permute(o []cpo, k byte) []cpo {
	o = append([]cpo(nil), o...)
	n := int(k)
	for i := len(o) - 1; i > 0; i-- {
		j := n % (i + 1)
		n /= i + 1
		o[i], o[j] = o[j], o[i]
	}
	return o
}

// peerOpts is the option list of the peer's first Configure-Request.
func (f *fsm) peerOpts(s negShape) []cpo {
	var o []cpo
	has := func(bit byte) bool { return s.mask&bit != 0 }
	switch f.kind {
	case "lcp":
		if has(0x01) {
			o = append(o, cpo{1, [][]byte{{0x05, 0xd4}, {0x05, 0xdc}, {0x00, 0x20}, {0x02, 0x40}}[s.variant&3]}) // 1492, 1500 (Nak'd), 32 (Nak'd), 576
		}
		if has(0x02) {
			m := []byte{0x0a, 0x0b, 0x0c, 0x0d}
			if s.variant&4 != 0 {
				m = []byte{0, 0, 0, 0} // Nak'd with a suggestion
			} else if s.variant&8 != 0 {
				m = []byte{0x11, 0x22, 0x33, 0x44} // our own magic number: looped-back link
			}
			o = append(o, cpo{5, m})
		}
		if has(0x04) {
			o = append(o, cpo{2, []byte{0, 0, 0, 0}}) // ACCM: not implemented by the automaton, Rejected
		}
		if has(0x08) {
			o = append(o, cpo{7, nil})
		}
		if has(0x10) {
			o = append(o, cpo{8, nil})
		}
		if has(0x20) {
			o = append(o, cpo{3, []byte{0xc0, 0x23}}) // the peer wants to authenticate us: Rejected
		}
		if has(0x40) {
			o = append(o, cpo{13, []byte{0}}) // callback
		}
	case "ipcp":
		ip := [][]byte{{0, 0, 0, 0}, {10, 9, 0, 2}, {10, 9, 0, 9}, {255, 255, 255, 255}}
		dns := [][]byte{{0, 0, 0, 0}, {8, 8, 4, 4}}
		if has(0x01) {
			o = append(o, cpo{3, ip[s.variant&3]})
		}
		if has(0x02) {
			o = append(o, cpo{129, dns[s.variant>>2&1]})
		}
		if has(0x04) {
			o = append(o, cpo{131, dns[s.variant>>3&1]})
		}
		if has(0x08) {
			o = append(o, cpo{2, []byte{0x00, 0x2d, 0x0f, 0x01}}) // Van Jacobson compression: Rejected
		}
		if has(0x10) {
			o = append(o, cpo{130, []byte{0, 0, 0, 0}}) // NBNS
		}
	default: // ipv6cp
		ifid := [][]byte{{0, 0, 0, 0, 0, 0, 0, 0}, {0xaa, 0xaa, 0xaa, 0xaa, 0xaa, 0xaa, 0xaa, 0xaa}, {1, 2, 3, 4, 5, 6, 7, 8}, {2, 0, 0, 0xff, 0xfe, 0, 0, 0xaa}}
		if has(0x01) {
			o = append(o, cpo{1, ifid[s.variant&3]}) // zero (Nak'd), plain, OUR identifier (collision), EUI-64
		}
		if has(0x02) {
			o = append(o, cpo{2, []byte{0x00, 0x61}}) // IPv6 compression: Rejected
		}
		if has(0x04) {
			o = append(o, cpo{9, rbytesConst(3)})
		}
	}
	return permute(o, s.order)
}

func rbytesConst(n int) []byte { return bytes.Repeat([]byte{0x5a}, n) }

// sentSince returns the packets the automaton sent after position mark.
func (f *fsm) sentSince(mark int) [][]byte {
	if mark > len(f.sent) {
		mark = len(f.sent)
	}
	return f.sent[mark:]
}

// ourReq returns identifier and options of the automaton's latest Configure-Request.
func (f *fsm) ourReq() (byte, []cpo, bool) {
	for i := len(f.sent) - 1; i >= 0; i-- {
		p := f.sent[i]
		if len(p) >= 4 && p[0] == 1 {
			l := int(binary.BigEndian.Uint16(p[2:4]))
			if l < 4 || l > len(p) {
				return 0, nil, false
			}
			return p[1], decOpts(p[4:l]), true
		}
	}
	return 0, nil, false
}

func (f *fsm) lastSentID(code byte) byte {
	for i := len(f.sent) - 1; i >= 0; i-- {
		if len(f.sent[i]) >= 2 && f.sent[i][0] == code {
			return f.sent[i][1]
		}
	}
	return 1
}

// peerRequest plays the peer's side of ITS option negotiation: Configure-Request, and after a Nak / Reject a new
// one that follows the automaton's answer, until the automaton acknowledges (true) or stops answering.
func (f *fsm) peerRequest(s negShape, st *negStats) bool {
	opts := f.peerOpts(s)
	for round := 0; round < 6; round++ {
		id := s.id + byte(round)
		mark := len(f.sent)
		_ = f.recv(clip(cpPkt(1, id, encOpts(opts))))
		var rep []byte
		for _, p := range f.sentSince(mark) {
			if len(p) >= 4 && p[1] == id && p[0] >= 2 && p[0] <= 4 {
				rep = p
				break
			}
		}
		if rep == nil {
			return false // Initial/Starting/Closing/Stopping ignore it, Closed answers with Terminate-Ack
		}
		ans := decOpts(rep[4:min(len(rep), int(binary.BigEndian.Uint16(rep[2:4])))])
		switch rep[0] {
		case 2:
			st.weAcked++
			return true
		case 3:
			st.weNakd++
			for _, a := range ans { // adopt every suggested value
				for i := range opts {
					if opts[i].t == a.t {
						opts[i].d = a.d
					}
				}
			}
		case 4:
			st.weRejected++
			var keep []cpo
			for _, o := range opts {
				rej := false
				for _, a := range ans {
					rej = rej || (a.t == o.t && bytes.Equal(a.d, o.d))
				}
				if !rej {
					keep = append(keep, o)
				}
			}
			opts = keep
		}
	}
	return false
}

// answerOurs plays the peer's answer to the automaton's Configure-Request: per plan a Nak, a Reject, an Ack with a
// stale identifier and/or restart-timer expiries first, then the Ack (echoing the options, RFC 1661 5.2).
func (f *fsm) answerOurs(s negShape, st *negStats) {
	var steps []string
	switch s.resp & 7 {
	case 1:
		steps = []string{"nak"}
	case 2:
		steps = []string{"rej"}
	case 3:
		steps = []string{"nak", "rej"}
	case 4:
		steps = []string{"nak-auth"}
	case 5:
		steps = []string{"stale-ack"}
	case 6:
		steps = []string{"rej", "nak"}
	}
	for n := int(s.resp >> 3 & 3); n > 0; n-- {
		steps = append(steps, "timeout")
	}
	if s.resp&0x40 == 0 {
		steps = append(steps, "ack")
	}
	for _, step := range steps {
		id, opts, ok := f.ourReq()
		if !ok {
			return
		}
		find := func(t byte) *cpo {
			for i := range opts {
				if opts[i].t == t {
					return &opts[i]
				}
			}
			return nil
		}
		switch step {
		case "nak", "nak-auth":
			var n []cpo
			switch f.kind {
			case "lcp":
				if a := find(3); step == "nak-auth" && a != nil {
					if len(a.d) >= 2 && a.d[0] == 0xc0 {
						n = []cpo{{3, []byte{0xc2, 0x23, 5}}} // we offered PAP: the peer prefers CHAP-MD5
					} else {
						n = []cpo{{3, []byte{0xc0, 0x23}}}
					}
				} else if find(1) != nil {
					n = []cpo{{1, [][]byte{{0x05, 0x78}, {0x00, 0x40}, {0x05, 0xdc}, {0x02, 0x40}}[s.variant>>4&3]}} // 1400, 64, 1500 (ignored), 576
					if s.variant&0x40 != 0 && find(5) != nil {
						n = append(n, cpo{5, []byte{9, 9, 9, 9}})
					}
				}
			case "ipcp":
				if find(3) != nil {
					n = []cpo{{3, []byte{10, 9, 0, 77}}}
				}
			default:
				if find(1) != nil {
					n = []cpo{{1, []byte{0x22, 0x22, 0x22, 0x22, 0x22, 0x22, 0x22, 0x22}}}
				}
			}
			if n == nil {
				continue
			}
			st.peerNakd++
			_ = f.recv(clip(cpPkt(3, id, encOpts(n))))
		case "rej":
			var r []cpo
			switch f.kind {
			case "lcp":
				for _, t := range []byte{7, 8} {
					if o := find(t); o != nil {
						r = append(r, *o)
					}
				}
				if o := find(3); r == nil && o != nil {
					r = []cpo{*o} // the peer refuses to authenticate
				}
			case "ipcp":
				if o := find(3); o != nil {
					r = []cpo{*o}
				}
			default:
				if o := find(1); o != nil {
					r = []cpo{*o}
				}
			}
			if r == nil {
				continue
			}
			st.peerRejected++
			_ = f.recv(clip(cpPkt(4, id, encOpts(r))))
		case "stale-ack":
			st.staleAck++
			_ = f.recv(clip(cpPkt(2, id+0x55, encOpts(opts))))
		case "timeout":
			if f.timeout() {
				st.timeouts++
			}
		case "ack":
			st.peerAcked++
			_ = f.recv(clip(cpPkt(2, id, encOpts(opts))))
		}
	}
}

// toOpened negotiates both directions from Req-Sent (the state after Up+Open).
func (f *fsm) toOpened(s negShape, st *negStats) {
	if s.resp&0x20 != 0 {
		st.peerFirst = true
		f.peerRequest(s, st)
		f.answerOurs(s, st)
	} else {
		f.answerOurs(s, st)
		f.peerRequest(s, st)
	}
	if s.resp&0x80 != 0 && f.state() == "Opened" {
		// renegotiation of an open link: the peer's new Configure-Request takes it down, the automaton requests again
		st.reneg = true
		t := s.second()
		f.peerRequest(t, st)
		t.resp &= 0x03 // plain or Nak/Reject first; no stale identifiers, no timeouts
		f.answerOurs(t, st)
	}
}

func (f *fsm) bringUp(s negShape) {
	if s.id&1 == 0 {
		f.up()
		f.open()
	} else {
		f.open()
		f.up()
	}
}

// fromReqSent approaches want from Req-Sent.
func (f *fsm) fromReqSent(want string, s negShape, st *negStats) {
	term := cpPkt(5, s.id+9, []byte("bye"))
	switch want {
	case "Initial":
		f.close()
		f.down()
	case "Starting":
		f.down()
	case "Closed":
		f.close()
		_ = f.recv(clip(cpPkt(6, f.lastSentID(5), nil)))
	case "Req-Sent":
		// a negotiation that does not settle: the peer's request carries an option the automaton must refuse, and
		// the peer refuses / corrects part of ours; both sides have to request again
		if s.resp&0x20 != 0 {
			st.peerFirst = true
			mark := len(f.sent)
			_ = f.recv(clip(cpPkt(1, s.id, encOpts(append(f.peerOpts(s), cpo{99, []byte{1}})))))
			for _, p := range f.sentSince(mark) {
				if len(p) >= 4 && p[0] == 4 && p[1] == s.id {
					st.weRejected++
				}
			}
		}
		if s.resp&7 != 0 {
			t := s
			t.resp = s.resp&0x07 | 0x40
			f.answerOurs(t, st)
		}
	case "Stopped":
		if s.variant&0x80 != 0 {
			for i := 0; i < 12 && f.state() != "Stopped"; i++ { // the peer never answers: Max-Configure expiries
				if !f.timeout() {
					break
				}
				st.timeouts++
			}
		} else {
			_ = f.recv(clip(term))
		}
	case "Closing":
		f.close()
	case "Stopping":
		f.toOpened(s, st)
		_ = f.recv(clip(term))
	case "Ack-Rcvd":
		f.answerOurs(s, st)
	case "Ack-Sent":
		f.peerRequest(s, st)
	case "Opened":
		f.toOpened(s, st)
	}
}

// fromOpened approaches want from Opened (whatever was negotiated stays in the automaton).
func (f *fsm) fromOpened(want string, s negShape, st *negStats) {
	term := cpPkt(5, s.id+9, []byte("bye"))
	termAck := func() { _ = f.recv(clip(cpPkt(6, f.lastSentID(5), nil))) }
	toReqSent := func() {
		if s.variant&0x80 != 0 {
			termAck() // RTA in Opened: tld, scr
		} else if id, opts, ok := f.ourReq(); ok {
			st.peerNakd++
			_ = f.recv(clip(cpPkt(3, id, encOpts(opts[:min(1, len(opts))])))) // a late Nak of the acknowledged request
		}
	}
	switch want {
	case "Initial":
		f.close()
		termAck()
		f.down()
	case "Starting":
		f.down()
	case "Closed":
		f.close()
		termAck()
	case "Stopped":
		_ = f.recv(clip(term))
		if f.timeout() { // restart counter is zero: this expiry finishes the layer
			st.timeouts++
		}
	case "Closing":
		f.close()
	case "Stopping":
		_ = f.recv(clip(term))
	case "Req-Sent":
		toReqSent()
	case "Ack-Rcvd":
		toReqSent()
		t := s.second()
		t.resp &= 0x1f
		f.answerOurs(t, st)
	case "Ack-Sent":
		t := s.second()
		f.peerRequest(t, st)
	}
}

// reach runs the generated prefix for want.
func (f *fsm) reach(want string, s negShape, st *negStats) {
	switch s.route() {
	case 0:
		switch want {
		case "Initial":
		case "Starting":
			f.open()
		case "Closed":
			f.up()
		default:
			f.bringUp(s)
			f.fromReqSent(want, s, st)
		}
	case 1:
		f.bringUp(s)
		f.toOpened(s, st)
		f.fromOpened(want, s, st)
	default:
		f.bringUp(s)
		f.toOpened(s, st)
		f.down() // the lower layer bounces: Starting
		f.up()   // Req-Sent again, same automaton, same peer with other wishes
		f.fromReqSent(want, s.second(), st)
	}
}

// ---------------------------------------------------------------------------
// drawing shapes
// ---------------------------------------------------------------------------

// uni draws an integer in [0,n) with (nearly) equal probabilities.  rapid's own integer generators favour small
// values by design (IntRange(0,99) is below 10 in 40 % of the draws), which starves every class that is not first in
// its list; hashing two raw draws removes the bias and keeps cases replayable and shrinkable.
func uni(rt *rapid.T, n int, label string) int {
	mix := func(x uint64) uint64 {
		x += 0x9e3779b97f4a7c15
		x = (x ^ (x >> 30)) * 0xbf58476d1ce4e5b9
		x = (x ^ (x >> 27)) * 0x94d049bb133111eb
		return x ^ (x >> 31)
	}
	a, b := rapid.Uint64().Draw(rt, label), rapid.Uint64().Draw(rt, label)
	return int(mix(mix(a)+b) % uint64(n))
}

func bits(rt *rapid.T, label string, pct ...int) byte {
	var b byte
	for i, p := range pct {
		if uni(rt, 100, label) < p {
			b |= 1 << i
		}
	}
	return b
}

// weighted state draw: the states that remember a negotiation get more cases
var fsmStateWeights = []int{7, 7, 7, 8, 6, 8, 10, 10, 12, 30} // order of fsmStates

func drawWeighted(rt *rapid.T, w []int, label string) int {
	tot := 0
	for _, x := range w {
		tot += x
	}
	n := uni(rt, tot, label)
	for i, x := range w {
		if n < x {
			return i
		}
		n -= x
	}
	return len(w) - 1
}

func pick[T any](rt *rapid.T, label string, v ...T) T { return v[uni(rt, len(v), label)] }

// genShape draws the six shape bytes of an automaton case.
func genShape(rt *rapid.T, kind string) []byte {
	mode := byte(drawWeighted(rt, []int{20, 40, 22, 18}, "prefix")) // fixed, direct, via-opened, second-life
	if mode == 0 {
		return []byte{0, 0, 0, 0, 0, 0}
	}
	var mask byte // low bits: wishes of the first negotiation; the high nibble becomes the low one in the second (negShape.second)
	switch kind {
	case "lcp":
		mask = bits(rt, "peerOpt", 50, 70, 25, 30, 30, 15, 15, 40)
	case "ipcp":
		mask = bits(rt, "peerOpt", 75, 45, 30, 20, 60, 40, 30, 20)
	default:
		mask = bits(rt, "peerOpt", 65, 20, 15, 50, 65, 20, 20, 50)
	}
	variant := pick[byte](rt, "value", 0, 0, 0, 1, 2, 3) | bits(rt, "valueBits", 20, 10)<<2 | byte(uni(rt, 8, "nakValue"))<<4 | bits(rt, "viaRTA", 50)<<7
	resp := pick[byte](rt, "answer", 0, 0, 1, 2, 3, 4, 4, 4, 5, 5, 5, 6) | pick[byte](rt, "timeouts", 0, 0, 0, 1, 2, 3)<<3 | bits(rt, "flow", 50, 0, 25)<<5
	return []byte{mode, mask, variant, byte(uni(rt, 120, "order")), resp, pick[byte](rt, "peerID", 1, 2, 7, 0, 250, 255)}
}
