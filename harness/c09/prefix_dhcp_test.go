package c09

// Generated lease histories for the DHCPv4 / DHCPv6 handlers.
//
// The fixed preludes leave the servers in one of three (v4) / four (v6) states
// that always come about the same way.  Here the history before the hostile
// datagram is part of the case: which exchange the client completed (offer only,
// bound, renewed, released, declined, INIT-REBOOT / rapid commit, ...), through
// a relay or not and with which option 82, what it asked for (address, prefix,
// both, neither), how many other clients hold leases, how small the pool is, and
// how much (virtual) time has passed since — up to and beyond the end of the
// lease, with or without the clean-up tick.  Every datagram of a history is a
// well-formed message a DHCP client / relay may send.

import (
	"bytes"
	"fmt"
	"net"
	"time"

	"github.com/codelaboratoryltd/bng/pkg/dhcp"
	"github.com/codelaboratoryltd/bng/pkg/dhcpv6"
	"github.com/codelaboratoryltd/bng/pkg/ebpf"
	"github.com/insomniacslk/dhcp/dhcpv4"
	"go.uber.org/zap"
	"pgregory.net/rapid"
)

// ---------------------------------------------------------------------------
// DHCPv4
// ---------------------------------------------------------------------------

// d4Shape is the decoded selector bytes [2..3] of a dhcp4-handler case ([1] != 0).
//
//	a: bit0 pool of two addresses; bits1-2 relay (none / giaddr only / giaddr + option 82 circuit-id "port" + remote-id /
//	   giaddr + option 82 with a 60-byte circuit-id only); bit3 client-id + host name options; bit4 broadcast flag;
//	   bits5-7 the client's history (see d4Histories)
//	b: bits0-1 other clients that were bound first; bit2 they sit behind the same circuit-id; bits3-4 time since the
//	   history (none / half the lease time / beyond the lease / beyond the lease and the clean-up tick ran);
//	   bit5 the lease time of the pool is 60 s instead of 1 h
type d4Shape struct{ a, b byte }

var d4Histories = []string{"none", "offer-only", "bound", "released", "declined", "renewed", "init-reboot", "bound-rediscover"}

func newDHCP4Cfg(tiny bool, lease time.Duration) (*dhcp.Server, *sinkConn) {
	log := zap.NewNop()
	loader, err := ebpf.NewLoader("lo", log)
	if err != nil {
		panic("harness: " + err.Error())
	}
	pm := dhcp.NewPoolManager(loader, log)
	cfg := dhcp.PoolConfig{ID: 1, Name: "p", Network: "10.66.0.0/26", Gateway: "10.66.0.1",
		DNSServers: []string{"10.66.0.1", "8.8.8.8"}, LeaseTime: lease, ReservedStart: 2}
	if tiny {
		cfg.ReservedEnd = 58 // 10.66.0.3 and 10.66.0.4 only
	}
	pool, err := dhcp.NewPool(cfg)
	if err != nil {
		panic("harness: " + err.Error())
	}
	if err := pm.AddPool(pool); err != nil {
		panic("harness: " + err.Error())
	}
	s, err := dhcp.NewServer(dhcp.ServerConfig{Interface: "lo", ServerIP: net.IPv4(10, 66, 0, 1)}, loader, pm, log)
	if err != nil {
		panic("harness: " + err.Error())
	}
	return s, &sinkConn{}
}

// d4msg builds a BOOTREQUEST with the given fixed fields and options.
func d4msg(typ byte, mac, ciaddr, gi []byte, bcast bool, opts ...[]byte) *dhcpv4.DHCPv4 {
	b := []byte{1, 1, 6, 0, 9, 9, 9, 9, 0, 0, 0, 0}
	if bcast {
		b[10] = 0x80
	}
	b = append(b, ciaddr...)
	b = append(b, make([]byte, 8)...) // yiaddr siaddr
	b = append(b, gi...)
	b = append(b, mac...)
	b = append(b, make([]byte, 10+64+128)...)
	b = append(b, 99, 130, 83, 99, 53, 1, typ)
	for _, o := range opts {
		b = append(b, o...)
	}
	m, err := dhcpv4.FromBytes(append(b, 255))
	if err != nil {
		panic("harness: " + err.Error())
	}
	return m
}

func dhcp4History(s *dhcp.Server, conn *sinkConn, sh d4Shape, lease time.Duration, c *caseInfo) {
	gi, o82 := noGi, []byte(nil)
	switch sh.a >> 1 & 3 {
	case 1:
		gi = relayGi
		c.class("history:relayed-no-option-82")
	case 2:
		gi, o82 = relayGi, opt82cid
		c.class("history:relayed-option-82")
	case 3:
		gi = relayGi
		o82 = append([]byte{82, 62, 1, 60}, bytes.Repeat([]byte{'c'}, 60)...)
		c.class("history:relayed-option-82")
	}
	var extra []byte
	if sh.a&8 != 0 {
		extra = append([]byte{61, 7, 1}, macA...)
		extra = append(extra, 12, 4, 'h', 'o', 's', 't')
	}
	bcast := sh.a&0x10 != 0
	none := []byte{0, 0, 0, 0}
	exchange := func(mac, o82 []byte, upTo string) net.IP {
		send := func(typ byte, ci []byte, opts ...[]byte) {
			conn.last = conn.last[:0]
			s.VerifC09Handle(conn, dhcpPeer, d4msg(typ, mac, ci, gi, bcast, append(opts, extra, o82)...))
		}
		reqIP := func(ip net.IP) []byte { return append([]byte{50, 4}, ip.To4()...) }
		var ip net.IP
		if upTo == "init-reboot" {
			send(3, none, reqIP(net.IPv4(10, 66, 0, 5)))
			return nil
		}
		send(1, none)
		if offer, err := dhcpv4.FromBytes(conn.last); err == nil {
			ip = offer.YourIPAddr
		}
		if upTo == "offer-only" || ip == nil {
			return ip
		}
		send(3, none, reqIP(ip), []byte{54, 4, 10, 66, 0, 1})
		switch upTo {
		case "released":
			send(7, ip.To4())
		case "declined":
			send(4, none, reqIP(ip))
		case "renewed":
			send(3, ip.To4())
		case "bound-rediscover":
			send(1, none)
		}
		return ip
	}
	others := int(sh.b & 3)
	for i := 0; i < others; i++ {
		oo := o82
		if sh.b&4 == 0 && oo != nil {
			oo = append([]byte{82, 8, 1, 6}, 'o', 't', 'h', 'e', 'r', byte('0'+i)) // a circuit of its own
		}
		exchange([]byte{2, 0, 0, 0, 1, byte(i)}, oo, "bound")
	}
	if others > 0 {
		c.class(fmt.Sprintf("history:other-clients-%d", others))
		if sh.b&4 != 0 && o82 != nil {
			c.class("history:others-share-circuit-id")
		}
	}
	h := d4Histories[sh.a>>5]
	c.class("history:" + h)
	if h != "none" {
		exchange(macA, o82, h)
	}
	switch sh.b >> 3 & 3 {
	case 1:
		time.Sleep(lease / 2)
		c.class("time:renewal-window")
	case 2:
		time.Sleep(lease + time.Minute)
		c.class("time:lease-expired")
	case 3:
		time.Sleep(lease + time.Minute)
		s.VerifCleanupExpired()
		c.class("time:lease-expired-and-cleaned")
	}
}

func genD4Shape(rt *rapid.T) []byte {
	if uni(rt, 5, "prefix") == 0 {
		return []byte{0, 0, 0}
	}
	a := bits(rt, "pool", 25) | pick[byte](rt, "relay", 0, 0, 1, 2, 2, 3)<<1 | bits(rt, "clientOpts", 30, 25)<<3 | byte(drawWeighted(rt, []int{8, 14, 28, 10, 10, 11, 9, 10}, "history"))<<5
	b := pick[byte](rt, "others", 0, 0, 0, 1, 2, 3) | bits(rt, "sameCircuit", 40)<<2 | pick[byte](rt, "time", 0, 0, 0, 1, 2, 2, 3, 3)<<3 | bits(rt, "shortLease", 30)<<5
	return []byte{1, a, b}
}

// ---------------------------------------------------------------------------
// DHCPv6
// ---------------------------------------------------------------------------

// d6Shape is the decoded selector bytes [3..4] of a dhcp6-handler case ([2] != 0).
//
//	a: bits0-1 what client A asks for (IA_NA + IA_PD / IA_NA / IA_PD / neither); bit2 rapid commit instead of the
//	   four-message exchange; bit3 IAID 7 instead of 1; bits4-6 what follows the binding (see d6Histories);
//	   bit7 the Request carries the advertised address / prefix as a hint
//	b: bits0-1 time since the history (none / past the preferred lifetime / past the valid lifetime / past it and another
//	   client's message made the server scan its table); bit2 short lifetimes (60 s / 120 s); bits3-4 other clients
//	   bound first; bit5 client B (DUID-LL) goes through the same history as well
type d6Shape struct{ a, b byte }

var d6Histories = []string{"bound", "renewed", "rebound", "released", "declined", "confirmed", "released-resolicit", "advertise-only"}

func newDHCP6Cfg(cfgSel byte, short bool) *dhcpv6.Server {
	cfg := dhcpv6.ServerConfig{Interface: "lo"}
	if cfgSel&1 == 0 {
		cfg.AddressPool = "2001:db8::/121"
	}
	if cfgSel&2 == 0 {
		cfg.PrefixPool, cfg.DelegationLength = "2001:db8:100::/56", 60
	}
	if cfgSel&4 == 0 {
		cfg.DNSServers = []string{"2001:db8::53"}
	}
	if short {
		cfg.PreferredLifetime, cfg.ValidLifetime = 60, 120
	}
	s, err := dhcpv6.NewServer(cfg, zap.NewNop())
	if err != nil {
		panic("harness: " + err.Error())
	}
	s.VerifC09SetConn(v6Socket())
	return s
}

func dhcp6History(s *dhcpv6.Server, sh d6Shape, valid time.Duration, c *caseInfo) {
	deliver := func(b []byte) {
		if m, err := dhcpv6.ParseMessage(b); err == nil { // (TestReplaySanity checks that the histories parse and bind)
			s.VerifC09Handle(m, v6Peer)
		}
	}
	iaid := "00000001"
	if sh.a&8 != 0 {
		iaid = "00000007"
	}
	iana, iapd := "0003 000c "+iaid+" 00000000 00000000", "0019 000c "+iaid+" 00000000 00000000"
	if sh.a&0x80 != 0 {
		// hints: the first address of the pool / the first delegated prefix
		iana = "0003 0028 " + iaid + " 00000000 00000000 0005 0018 20010db8000000000000000000000001 00000e10 00001c20"
		iapd = "0019 0029 " + iaid + " 00000000 00000000 001a 0019 00000e10 00001c20 3c 20010db8010000000000000000000000"
		c.class("history:request-with-hints")
	}
	var ask []string
	switch sh.a & 3 {
	case 0:
		ask = []string{iana, iapd}
		c.class("history:asked-address-and-prefix")
	case 1:
		ask = []string{iana}
		c.class("history:asked-address-only")
	case 2:
		ask = []string{iapd}
		c.class("history:asked-prefix-only")
	default:
		c.class("history:asked-nothing")
	}
	msg := func(typ byte, client string, withServer bool, more ...string) []byte {
		o := []string{client}
		if withServer {
			o = append(o, v6Server)
		}
		return mkV6(typ, append(o, more...)...)
	}
	run := func(client string, h string) {
		if sh.a&4 != 0 && h != "advertise-only" {
			deliver(msg(1, client, false, append([]string{v6Rapid}, ask...)...))
		} else {
			deliver(msg(1, client, false, ask...))
			if h == "advertise-only" {
				return
			}
			deliver(msg(3, client, true, ask...))
		}
		switch h {
		case "renewed":
			deliver(msg(5, client, true, ask...))
		case "rebound":
			deliver(msg(6, client, false, ask...))
		case "released":
			deliver(msg(8, client, true, ask...))
		case "declined":
			deliver(msg(9, client, true, ask...))
		case "confirmed":
			deliver(msg(4, client, false, ask...))
		case "released-resolicit":
			deliver(msg(8, client, true, ask...))
			deliver(msg(1, client, false, ask...))
		}
	}
	others := int(sh.b >> 3 & 3)
	for i := 0; i < others; i++ {
		run(fmt.Sprintf("0001 000a 0003 0001 0200000001%02x", i), "bound")
	}
	if others > 0 {
		c.class(fmt.Sprintf("history:other-clients-%d", others))
	}
	h := d6Histories[sh.a>>4&7]
	c.class("history:" + h)
	run(v6Client, h)
	if sh.b&0x20 != 0 {
		run("0001 000a 0003 0001 0200000000bb", h)
		c.class("history:client-b-too")
	}
	switch sh.b & 3 {
	case 1:
		time.Sleep(valid/2 + time.Minute)
		c.class("time:past-preferred-lifetime")
	case 2:
		time.Sleep(valid + time.Minute)
		c.class("time:past-valid-lifetime")
	case 3:
		time.Sleep(valid + time.Minute)
		deliver(mkV6(11, "0001 000a 0003 0001 0200000000cc")) // Information-request of a stranger: the server scans its table
		c.class("time:expired-and-scanned")
	}
}

func genD6Shape(rt *rapid.T) []byte {
	if uni(rt, 5, "prefix") == 0 {
		return []byte{0, 0, 0}
	}
	a := pick[byte](rt, "ask", 0, 0, 1, 1, 2, 3) | bits(rt, "flow", 30, 25)<<2 | byte(drawWeighted(rt, []int{24, 13, 10, 12, 10, 10, 10, 11}, "history"))<<4 | bits(rt, "hints", 30)<<7
	b := pick[byte](rt, "time", 0, 0, 0, 1, 2, 2, 3)<<0 | bits(rt, "short", 30)<<2 | pick[byte](rt, "others", 0, 0, 0, 1, 2, 3)<<3 | bits(rt, "clientB", 25)<<5
	return []byte{1, a, b}
}
