package c09

// Builders of valid PPPoE / PPP packets (written from RFC 2516 / 1661 / 1332 /
// 5072 / 1334 / 1994 layouts), with their length fields recorded.

import (
	"pgregory.net/rapid"
)

var tagTypes = []int{0x0101, 0x0102, 0x0103, 0x0104, 0x0105, 0x0105, 0x0110, 0x0201, 0x0202, 0x0203, 0x0000, 0x1234}

func addTags(rt *rapid.T, p *bld, must ...int) {
	types := append([]int(nil), must...)
	d := dictFor("pppoe")
	for n := rapid.IntRange(0, 4).Draw(rt, "ntags"); n > 0; n-- {
		tt := rapid.SampledFrom(tagTypes).Draw(rt, "tagType")
		if uni(rt, 100, "tagFromDict") < 20 {
			tt = int(dictInt(rt, d, 16, "tagCode"))
		}
		types = append(types, tt)
	}
	for _, tt := range types {
		p.u16(tt)
		i := p.len16()
		var v []byte
		switch tt {
		case 0x0105:
			// Vendor-Specific (RFC 2516 A / TR-101): 4-byte vendor id, then sub-tags (type, length, value)
			start := len(p.b)
			p.raw(be32(dictInt(rt, d, 32, "vendor"))...)
			subTLVs(rt, p, d, 1, 1, false, "vtag")
			p.set(i, len(p.b)-start)
			continue
		case 0x0101:
			v = []byte(rapid.SampledFrom([]string{"", "internet", "other"}).Draw(rt, "svc"))
		case 0x0104:
			v = rbytes(rt, 16, 16, "cookie")
		default:
			v = rbytes(rt, 0, 24, "tagVal")
		}
		p.raw(v...)
		p.set(i, len(v))
	}
}

// discovery payload (after the Ethernet header)
func bldDiscovery(rt *rapid.T) *bld {
	p := &bld{}
	code := dictType(rt, dictFor("pppoe"), "code", 0x09, 0x09, 0x19, 0x19, 0xa7, 0xa7, 0x07, 0x65, 0x00)
	sid := rapid.SampledFrom([]int{0, 1, 1, 1, 2, 0xffff}).Draw(rt, "sid")
	p.u8(rapid.SampledFrom([]int{0x11, 0x11, 0x11, 0x00, 0x21}).Draw(rt, "vertype")).u8(code).u16(sid)
	i := p.len16()
	start := len(p.b)
	switch code {
	case 0x19:
		addTags(rt, p, 0x0101, 0x0104)
	case 0x09:
		addTags(rt, p, 0x0101)
	default:
		addTags(rt, p)
	}
	p.set(i, len(p.b)-start)
	return p
}

func bldPADT(rt *rapid.T) *bld {
	p := &bld{}
	p.u8(0x11).u8(0xa7).u16(rapid.SampledFrom([]int{1, 1, 2, 0}).Draw(rt, "sid"))
	i := p.len16()
	start := len(p.b)
	addTags(rt, p)
	p.set(i, len(p.b)-start)
	return p
}

func bldTags(rt *rapid.T) *bld {
	p := &bld{}
	addTags(rt, p, rapid.SampledFrom(tagTypes).Draw(rt, "firstTag"))
	return p
}

// option list in LCP format (type, length incl. header, data)
func addOpts(rt *rapid.T, p *bld, proto int) {
	for n := rapid.IntRange(0, 5).Draw(rt, "nopts"); n > 0; n-- {
		var typ int
		var data []byte
		switch proto {
		case 0x8021: // IPCP
			typ = dictType(rt, dictFor("pppoe"), "optType", 3, 3, 129, 131, 2, 1, 77)
			switch typ {
			case 3, 129, 131:
				data = rapid.SampledFrom([][]byte{{0, 0, 0, 0}, {10, 9, 0, 2}, {10, 9, 0, 9}, {8, 8, 8, 8}, {255, 255, 255, 255}}).Draw(rt, "ip")
			default:
				data = rbytes(rt, 0, 8, "optData")
			}
		case 0x8057: // IPV6CP
			typ = dictType(rt, dictFor("pppoe"), "optType", 1, 1, 1, 2, 9)
			if typ == 1 {
				data = rapid.SampledFrom([][]byte{{0, 0, 0, 0, 0, 0, 0, 0}, {1, 2, 3, 4, 5, 6, 7, 8}, {0xaa, 0xaa, 0xaa, 0xaa, 0xaa, 0xaa, 0xaa, 0xaa}}).Draw(rt, "ifid")
			} else {
				data = rbytes(rt, 0, 8, "optData")
			}
		default: // LCP
			typ = dictType(rt, dictFor("pppoe"), "optType", 1, 1, 3, 5, 5, 7, 8, 13, 0)
			switch typ {
			case 1:
				data = rapid.SampledFrom([][]byte{{0x05, 0xd4}, {0x05, 0xdc}, {0, 0}, {0, 0x40}, {0xff, 0xff}}).Draw(rt, "mru")
			case 3:
				data = rapid.SampledFrom([][]byte{{0xc0, 0x23}, {0xc2, 0x23, 5}, {0xc2, 0x23}, {0, 0}}).Draw(rt, "auth")
			case 5:
				data = rapid.SampledFrom([][]byte{{1, 2, 3, 4}, {0, 0, 0, 0}, {0x11, 0x22, 0x33, 0x44}}).Draw(rt, "magic")
			case 7, 8:
				data = nil
			default:
				data = rbytes(rt, 0, 8, "optData")
			}
		}
		p.u8(typ)
		i := p.len8()
		p.raw(data...)
		p.set(i, 2+len(data))
	}
}

// bldCP builds an LCP-format control packet for proto (0xc021, 0x8021, 0x8057).
func bldCP(rt *rapid.T, proto int) *bld {
	p := &bld{}
	codes := []int{1, 1, 2, 2, 3, 4, 5, 6}
	if proto == 0xc021 {
		codes = append(codes, 7, 8, 9, 9, 9, 10, 11, 12, 0)
	}
	code := dictType(rt, dictFor("pppoe"), "code", codes...)
	id := rapid.SampledFrom([]int{1, 1, 1, 2, 0, 255}).Draw(rt, "id")
	p.u8(code).u8(id)
	i := p.len16()
	switch code {
	case 1, 2, 3, 4:
		addOpts(rt, p, proto)
	case 5, 6:
		p.raw(rbytes(rt, 0, 16, "termData")...)
	case 7:
		p.u8(rapid.SampledFrom([]int{1, 2, 9, 77}).Draw(rt, "rejCode")).raw(rbytes(rt, 0, 12, "rejData")...)
	case 8:
		p.u16(rapid.SampledFrom([]int{0xc021, 0x8021, 0x8057, 0x1234}).Draw(rt, "rejProto")).raw(rbytes(rt, 0, 12, "rejData")...)
	case 9, 10, 11:
		// magic number (0..4 bytes: short echo bodies are legal on the wire) + payload
		p.raw(rbytes(rt, 0, 4, "magic")...)
		if rapid.Bool().Draw(rt, "echoPayload") {
			p.raw(1, 2, 3, 4).raw(rbytes(rt, 0, 24, "echoData")...)
		}
	default:
		p.raw(rbytes(rt, 0, 8, "data")...)
	}
	p.set(i, len(p.b))
	return p
}

func bldLCPOptions(rt *rapid.T) *bld {
	p := &bld{}
	addOpts(rt, p, rapid.SampledFrom([]int{0xc021, 0x8021, 0x8057}).Draw(rt, "proto"))
	return p
}

// PAP Authenticate-Request / other codes
func bldPAP(rt *rapid.T) *bld {
	p := &bld{}
	code := rapid.SampledFrom([]int{1, 1, 1, 1, 2, 3, 0}).Draw(rt, "code")
	p.u8(code).u8(rapid.IntRange(0, 3).Draw(rt, "id"))
	i := p.len16()
	if code == 1 {
		u := []byte(rapid.SampledFrom([]string{"alice", "", "bob@isp", "x"}).Draw(rt, "user"))
		pw := []byte(rapid.SampledFrom([]string{"secret", "", "p"}).Draw(rt, "pass"))
		a := p.len8()
		p.raw(u...)
		p.set(a, len(u))
		b := p.len8()
		p.raw(pw...)
		p.set(b, len(pw))
	} else {
		m := rbytes(rt, 0, 12, "msg")
		a := p.len8()
		p.raw(m...)
		p.set(a, len(m))
	}
	p.set(i, len(p.b))
	return p
}

// CHAP Response / other codes
func bldCHAP(rt *rapid.T) *bld {
	p := &bld{}
	code := rapid.SampledFrom([]int{2, 2, 2, 2, 1, 3, 4, 0}).Draw(rt, "code")
	p.u8(code).u8(rapid.SampledFrom([]int{1, 1, 1, 0, 2}).Draw(rt, "id"))
	i := p.len16()
	if code == 1 || code == 2 {
		v := rbytes(rt, 16, 16, "value")
		a := p.len8()
		p.raw(v...)
		p.set(a, len(v))
		p.str(rapid.SampledFrom([]string{"alice", "", "bob@isp"}).Draw(rt, "name"))
	} else {
		p.raw(rbytes(rt, 0, 12, "msg")...)
	}
	p.set(i, len(p.b))
	return p
}

// session-stage payload (after the Ethernet header): PPPoE header, PPP protocol, PPP payload
func bldSession(rt *rapid.T) *bld {
	p := &bld{}
	p.u8(rapid.SampledFrom([]int{0x11, 0x11, 0x11, 0x00}).Draw(rt, "vertype")).u8(0)
	p.u16(rapid.SampledFrom([]int{1, 1, 1, 1, 1, 2, 0, 0xffff}).Draw(rt, "sid"))
	i := p.len16()
	start := len(p.b)
	proto := rapid.SampledFrom([]int{0xc021, 0xc021, 0xc021, 0xc023, 0xc023, 0x8021, 0x8021, 0x0021, 0xc223, 0x8057, 0x0057, 0x1234}).Draw(rt, "proto")
	p.u16(proto)
	var in *bld
	switch proto {
	case 0xc021, 0x8021, 0x8057:
		in = bldCP(rt, proto)
	case 0xc023:
		in = bldPAP(rt)
	case 0xc223:
		in = bldCHAP(rt)
	default:
		in = &bld{b: rbytes(rt, 0, 40, "ip")}
	}
	off := len(p.b)
	p.raw(in.b...)
	p.lens = append(p.lens, shift(in.lens, off)...)
	p.set(i, len(p.b)-start)
	return p
}

// fixed valid packets used by the state preludes (no randomness; lengths computed)
func mkDisc(code byte, sid int, tags string) []byte {
	t := hx(tags)
	return append([]byte{0x11, code, byte(sid >> 8), byte(sid), byte(len(t) >> 8), byte(len(t))}, t...)
}

func mkCP(code, id byte, body string) []byte {
	b := hx(body)
	n := 4 + len(b)
	return append([]byte{code, id, byte(n >> 8), byte(n)}, b...)
}

func mkSess(sid int, proto int, ppp []byte) []byte {
	n := 2 + len(ppp)
	h := []byte{0x11, 0x00, byte(sid >> 8), byte(sid), byte(n >> 8), byte(n), byte(proto >> 8), byte(proto)}
	return append(h, ppp...)
}

var (
	vPADI  = mkDisc(0x09, 0, "0101 0008 696e7465726e6574  0103 0004 deadbeef")
	vPADR  = mkDisc(0x19, 0, "0101 0008 696e7465726e6574  0104 0010 000102030405060708090a0b0c0d0e0f  0103 0004 deadbeef")
	vPADT1 = mkDisc(0xa7, 1, "")
	// session 1: LCP Configure-Ack id 1 (empty)
	vLCPAck1 = mkSess(1, 0xc021, mkCP(2, 1, ""))
	// session 1: LCP Configure-Request id 7, MRU 1492 + magic
	vLCPReq1 = mkSess(1, 0xc021, mkCP(1, 7, "01 04 05d4  05 06 01020304"))
	// session 1: PAP Authenticate-Request id 1 alice/secret
	vPAP1 = mkSess(1, 0xc023, mkCP(1, 1, "05 616c696365  06 736563726574"))
	// session 1: IPCP Configure-Ack id 2 (empty)
	vIPCPAck1 = mkSess(1, 0x8021, mkCP(2, 2, ""))
	// session 1: IPCP Configure-Request id 3, IP 0.0.0.0 + DNS
	vIPCPReq1 = mkSess(1, 0x8021, mkCP(1, 3, "03 06 00000000  81 06 00000000"))
	// session 1: LCP Echo-Request id 9 magic
	vEcho1 = mkSess(1, 0xc021, mkCP(9, 9, "01020304"))
)
