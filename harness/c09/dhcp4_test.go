package c09

import (
	"net"
	"testing"
	"time"

	"github.com/codelaboratoryltd/bng/pkg/dhcp"
	"github.com/codelaboratoryltd/bng/pkg/ebpf"
	"github.com/insomniacslk/dhcp/dhcpv4"
	"go.uber.org/zap"
	"pgregory.net/rapid"
)

// sinkConn is the net.PacketConn the DHCPv4 handler replies on; it keeps the last reply.
type sinkConn struct{ last []byte }

func (s *sinkConn) ReadFrom(p []byte) (int, net.Addr, error) { return 0, nil, net.ErrClosed }
func (s *sinkConn) WriteTo(p []byte, a net.Addr) (int, error) {
	s.last = append(s.last[:0], p...)
	return len(p), nil
}
func (s *sinkConn) Close() error                       { return nil }
func (s *sinkConn) LocalAddr() net.Addr                { return &net.UDPAddr{IP: net.IPv4(10, 66, 0, 1), Port: 67} }
func (s *sinkConn) SetDeadline(t time.Time) error      { return nil }
func (s *sinkConn) SetReadDeadline(t time.Time) error  { return nil }
func (s *sinkConn) SetWriteDeadline(t time.Time) error { return nil }

func newDHCP4() (*dhcp.Server, *sinkConn) {
	log := zap.NewNop()
	// as in cmd/bng: the server always has a loader; here its maps are not loaded, so map updates return errors
	loader, err := ebpf.NewLoader("lo", log)
	if err != nil {
		panic("harness: " + err.Error())
	}
	pm := dhcp.NewPoolManager(loader, log)
	pool, err := dhcp.NewPool(dhcp.PoolConfig{ID: 1, Name: "p", Network: "10.66.0.0/26", Gateway: "10.66.0.1",
		DNSServers: []string{"10.66.0.1", "8.8.8.8"}, LeaseTime: time.Hour, ReservedStart: 2})
	if err != nil {
		panic("harness: " + err.Error())
	}
	if err := pm.AddPool(pool); err != nil {
		panic("harness: " + err.Error())
	}
	s, err := dhcp.NewServer(dhcp.ServerConfig{Interface: "lo", ServerIP: net.IPv4(10, 66, 0, 1)}, loader, pm, log)
	if err != nil {
		panic("harness: " + err.Error())
	}
	return s, &sinkConn{}
}

var dhcpPeer = &net.UDPAddr{IP: net.IPv4(10, 66, 0, 200), Port: 68}

// bldDHCP4 builds a BOOTP/DHCP datagram (RFC 2131 layout, RFC 3046 option 82).
func bldDHCP4(rt *rapid.T) *bld {
	p := &bld{}
	p.u8(rapid.SampledFrom([]int{1, 1, 1, 2}).Draw(rt, "op")).u8(1)
	p.u8(6)
	p.mark(2, 1) // hlen
	p.u8(rapid.SampledFrom([]int{0, 1}).Draw(rt, "hops"))
	p.u32(0x01020304).u16(0).u16(rapid.SampledFrom([]int{0, 0x8000}).Draw(rt, "flags"))
	ip := func(label string) []byte {
		return rapid.SampledFrom([][]byte{{0, 0, 0, 0}, {10, 66, 0, 5}, {10, 66, 0, 3}, {10, 66, 0, 1}, {192, 0, 2, 1}, {255, 255, 255, 255}}).Draw(rt, label)
	}
	p.raw(ip("ciaddr")...).raw(0, 0, 0, 0).raw(0, 0, 0, 0)
	p.raw(rapid.SampledFrom([][]byte{{0, 0, 0, 0}, {0, 0, 0, 0}, {10, 66, 0, 62}, {192, 0, 2, 7}}).Draw(rt, "giaddr")...)
	mac := rapid.SampledFrom([][]byte{{2, 0, 0, 0, 0, 0xaa}, {2, 0, 0, 0, 0, 0xbb}, {0, 0, 0, 0, 0, 0}, {0xff, 0xff, 0xff, 0xff, 0xff, 0xff}}).Draw(rt, "mac")
	p.raw(mac...).raw(make([]byte, 10)...)
	p.raw(make([]byte, 64+128)...)
	p.raw(99, 130, 83, 99)
	opt := func(code int, v []byte) {
		p.u8(code)
		i := p.len8()
		p.raw(v...)
		p.set(i, len(v))
	}
	opt(53, []byte{byte(rapid.SampledFrom([]int{1, 1, 3, 3, 3, 7, 4, 8, 2, 5, 0, 99}).Draw(rt, "msgType"))})
	d := dictFor("dhcp", "ztp")
	for n := rapid.IntRange(0, 6).Draw(rt, "nopts"); n > 0; n-- {
		switch c := dictType(rt, d, "opt", 50, 54, 12, 61, 55, 82, 82, 82, 43, 43, 124, 125, 125, 224, 57, 0, 60); c {
		case 43: // vendor-specific information: sub-options (code, length, data)
			p.u8(43)
			i := p.len8()
			start := len(p.b)
			subTLVs(rt, p, d, 1, 1, false, "o43")
			p.set(i, len(p.b)-start)
		case 124, 125: // V-I vendor class / vendor-specific: enterprise number, data-len, then (125) sub-options
			p.u8(c)
			i := p.len8()
			start := len(p.b)
			for k := 1 + uni(rt, 2, "nvi"); k > 0; k-- {
				p.raw(be32(dictInt(rt, d, 32, "enterprise"))...)
				j := p.len8()
				s2 := len(p.b)
				if c == 125 {
					subTLVs(rt, p, d, 1, 1, false, "o125")
				} else {
					p.raw(dictBytes(rt, d, 16, "vclass")...)
				}
				p.set(j, len(p.b)-s2)
			}
			p.set(i, len(p.b)-start)
		case 50, 54:
			opt(c, ip("optIP"))
		case 12, 60:
			opt(c, []byte(rapid.SampledFrom([]string{"host", "", "a-very-long-host-name-aaaaaaaaaaaaaaaaaaaaaaaaaaaaaaaaaaaaaaaaaa"}).Draw(rt, "name")))
		case 82:
			// relay agent information: sub-options circuit-id (1), remote-id (2), others
			p.u8(82)
			i := p.len8()
			start := len(p.b)
			for k := rapid.IntRange(0, 4).Draw(rt, "nsub"); k > 0; k-- {
				p.u8(rapid.SampledFrom([]int{1, 1, 2, 2, 5, 9, 0, 255}).Draw(rt, "sub"))
				j := p.len8()
				v := rbytes(rt, 0, 40, "subVal")
				p.raw(v...)
				p.set(j, len(v))
			}
			p.set(i, len(p.b)-start)
		case 0:
			p.u8(0) // pad
		default:
			opt(c, rbytes(rt, 0, 20, "optVal"))
		}
	}
	if rapid.IntRange(0, 9).Draw(rt, "end") > 0 {
		p.u8(255)
	}
	return p
}

func mkDHCP4(msgType byte, mac []byte, giaddr []byte, opts ...[]byte) []byte {
	b := []byte{1, 1, 6, 0, 9, 9, 9, 9, 0, 0, 0, 0}
	b = append(b, make([]byte, 12)...) // ciaddr yiaddr siaddr
	b = append(b, giaddr...)
	b = append(b, mac...)
	b = append(b, make([]byte, 10+64+128)...)
	b = append(b, 99, 130, 83, 99, 53, 1, msgType)
	for _, o := range opts {
		b = append(b, o...)
	}
	return append(b, 255)
}

var (
	macA     = []byte{2, 0, 0, 0, 0, 0xaa}
	noGi     = []byte{0, 0, 0, 0}
	relayGi  = []byte{10, 66, 0, 62}
	opt82cid = hx("52 0c 01 04 70 6f 72 74 02 04 72 65 6d 31") // circuit-id "port", remote-id "rem1"
)

// case layout: [0] prelude selector (0 none; 1 DISCOVER+REQUEST by MAC aa → lease; 2 relayed DISCOVER+REQUEST
// with circuit-id "port" → lease indexed by circuit-id), rest = raw UDP payload.
func dhcp4Prelude(s *dhcp.Server, conn *sinkConn, sel byte) {
	if sel%3 == 0 {
		return
	}
	gi, extra := noGi, []byte(nil)
	if sel%3 == 2 {
		gi, extra = relayGi, opt82cid
	}
	d, _ := dhcpv4.FromBytes(mkDHCP4(1, macA, gi, extra))
	s.VerifC09Handle(conn, dhcpPeer, d)
	offer, err := dhcpv4.FromBytes(conn.last)
	if err != nil {
		return
	}
	req := append([]byte{50, 4}, offer.YourIPAddr.To4()...)
	r, _ := dhcpv4.FromBytes(mkDHCP4(3, macA, gi, req, extra))
	s.VerifC09Handle(conn, dhcpPeer, r)
}

func init() {
	consts := [][]byte{
		mkDHCP4(1, macA, noGi), mkDHCP4(3, macA, noGi, hx("32 04 0a420003")), mkDHCP4(7, macA, noGi), mkDHCP4(4, macA, noGi, hx("32 04 0a420003")), mkDHCP4(8, macA, noGi),
		mkDHCP4(1, macA, relayGi, opt82cid), mkDHCP4(3, macA, relayGi, opt82cid),
		mkDHCP4(1, macA, relayGi, hx("52 01 01")), mkDHCP4(1, macA, relayGi, hx("52 02 01 ff")), mkDHCP4(1, macA, relayGi, hx("52 02 01 00")),
		mkDHCP4(3, macA, relayGi, hx("52 03 01 05 41")), mkDHCP4(3, macA, relayGi, hx("52 00")), mkDHCP4(3, macA, noGi, hx("32 00")), mkDHCP4(4, macA, noGi, hx("32 01 0a")),
		// the seed corpus of the repository's own FuzzDHCPPacketParsing (pkg/dhcp/fuzz_test.go)
		{}, {0x01}, {0x02, 0x01, 0x06, 0x00}, make([]byte, 300), make([]byte, 2000),
	}
	// dhcp4-handler — case layout: [0] fixed prelude selector (see dhcp4Prelude), [1] 0 = that prelude, otherwise
	// [2..3] describe a generated history (d4Shape), rest = raw UDP payload.
	register(&target{
		name: "dhcp4-handler", nsel: d4Sel,
		dictSeeds: func() [][]byte {
			// every integer literal of the packages (and the boundary values) as enterprise number of option 125 / as
			// sub-option code of options 43 and 82, x hostile inner lists, in DISCOVER and REQUEST of a bound client
			var o [][]byte
			seen := map[uint64]bool{}
			for _, v := range append(dictFor("dhcp", "ztp").ints(32), boundaries...) {
				if seen[v] {
					continue
				}
				seen[v] = true
				for _, sh := range innerShapes(1, 1, false) {
					o125 := append(append([]byte{125, byte(5 + len(sh))}, be32(v)...), byte(len(sh)))
					o125 = append(o125, sh...)
					inner := append([]byte{byte(v), byte(len(sh))}, sh...)
					o43 := append([]byte{43, byte(len(inner))}, inner...)
					o82 := append([]byte{82, byte(len(inner))}, inner...)
					for _, typ := range []byte{1, 3} {
						o = append(o, withSel(mkDHCP4(typ, macA, relayGi, o125), 1, 0, 0, 0))
						if v < 256 {
							o = append(o, withSel(mkDHCP4(typ, macA, relayGi, o43, o82), 2, 0, 0, 0))
						}
					}
				}
			}
			return o
		},
		run: func(data []byte, c *caseInfo) {
			sel, raw := split(data, d4Sel)
			var s *dhcp.Server
			var conn *sinkConn
			final := func() {
				if s.VerifC09LeaseCount() > 0 {
					c.class("state:lease-held")
				} else {
					c.class("state:no-lease")
				}
				req, err := dhcpv4.FromBytes(raw)
				if err != nil {
					c.class("frombytes-error")
					return
				}
				c.nt = true
				c.class("passes-first-length-check")
				c.class("msg:" + req.MessageType().String())
				if o := req.Options.Get(dhcpv4.OptionRelayAgentInformation); len(o) > 0 {
					c.class("has-option-82")
				}
				_ = dhcp.VerifC09ParseOption82(req)
				s.VerifC09Handle(conn, dhcpPeer, req)
				if s.VerifC09LeaseCount() > 0 {
					c.class("after:lease-held")
				}
			}
			if sel[1] != 0 {
				c.class("prefix:generated")
				sh := d4Shape{sel[2], sel[3]}
				lease := time.Hour
				if sh.b&0x20 != 0 {
					lease = time.Minute
					c.class("history:short-lease-time")
				}
				if sh.a&1 != 0 {
					c.class("history:pool-of-two")
				}
				body := func() {
					s, conn = newDHCP4Cfg(sh.a&1 != 0, lease)
					dhcp4History(s, conn, sh, lease, c)
					final()
				}
				if sh.b>>3&3 != 0 {
					inBubble(body) // virtual time
				} else {
					body()
				}
				return
			}
			c.class("prefix:fixed")
			s, conn = newDHCP4()
			dhcp4Prelude(s, conn, sel[0])
			final()
		},
		gen: func(rt *rapid.T) []byte {
			return withSel(genPacket(rt, bldDHCP4, consts), append([]byte{selByte(rt, 3, "prelude")}, genD4Shape(rt)...)...)
		},
		seeds: func() [][]byte {
			var o [][]byte
			for _, k := range consts {
				o = append(o, withSel(k, 0, 0, 0, 0), withSel(k, 1, 0, 0, 0), withSel(k, 2, 0, 0, 0),
					withSel(k, 0, 1, 0x44, 0x00), withSel(k, 0, 1, 0x4d, 0x17), withSel(k, 0, 1, 0xa6, 0x0a))
			}
			return o
		},
	})

	// dhcp4-opt82: the input is the BODY of option 82 (arbitrary bytes), carried by an otherwise valid relayed
	// DISCOVER → REQUEST(offered address) → RELEASE exchange, so the parser sees it in every handler.
	// case layout: [0] bit0 relayed (giaddr set), bit1 second client with the same body afterwards; rest = option body.
	opt82Consts := [][]byte{hx("01 04 706f7274 02 04 72656d31"), {}, hx("01"), hx("01 00"), hx("01 ff"), hx("01 ff 41"), hx("01 01"), hx("02 00 01 00"), hx("01 02 4142 01 02 4344"), hx("09 05 0102030405 01 01 58"),
		// the seed corpus of the repository's own FuzzOption82Parsing (pkg/dhcp/fuzz_test.go)
		[]byte("\x01\x05eth01"), []byte("\x02\x04rem1"), []byte("\x01\x03cid\x02\x03rid"), {1, 0}, []byte("\x01\xffabc"), []byte("\xff\x0aabcdefghij")}
	register(&target{
		name: "dhcp4-opt82",
		run: func(data []byte, c *caseInfo) {
			sel, body := split(data, 1)
			if len(body) > 255 {
				body = body[:255] // one option instance; longer bodies are covered through dhcp4-handler (RFC 3396 concatenation)
			}
			c.nt = len(body) >= 2
			if c.nt {
				c.class("passes-first-length-check")
			}
			gi := noGi
			if sel[0]&1 != 0 {
				gi = relayGi
				c.class("relayed")
			}
			o82 := append([]byte{82, byte(len(body))}, body...)
			s, conn := newDHCP4()
			exchange := func(mac []byte) {
				d, err := dhcpv4.FromBytes(mkDHCP4(1, mac, gi, o82))
				if err != nil {
					c.class("frombytes-error")
					return
				}
				_ = dhcp.VerifC09ParseOption82(d)
				conn.last = conn.last[:0]
				s.VerifC09Handle(conn, dhcpPeer, d)
				offer, err := dhcpv4.FromBytes(conn.last)
				if err != nil {
					c.class("no-offer")
					return
				}
				r, _ := dhcpv4.FromBytes(mkDHCP4(3, mac, gi, append([]byte{50, 4}, offer.YourIPAddr.To4()...), o82))
				s.VerifC09Handle(conn, dhcpPeer, r)
				// renewal, then release
				s.VerifC09Handle(conn, dhcpPeer, r)
				if s.VerifC09LeaseCount() > 0 && mac[5] == 0xaa {
					c.class("lease-created")
				}
				rel, _ := dhcpv4.FromBytes(mkDHCP4(7, mac, gi, o82))
				if sel[0]&4 == 0 {
					s.VerifC09Handle(conn, dhcpPeer, rel)
				}
			}
			exchange(macA)
			if sel[0]&2 != 0 {
				c.class("second-client-same-body")
				exchange([]byte{2, 0, 0, 0, 0, 0xbb})
			}
		},
		gen: func(rt *rapid.T) []byte {
			build := func(rt *rapid.T) *bld {
				p := &bld{}
				for k := rapid.IntRange(1, 5).Draw(rt, "nsub"); k > 0; k-- {
					p.u8(rapid.SampledFrom([]int{1, 1, 2, 2, 5, 0, 255}).Draw(rt, "sub"))
					j := p.len8()
					v := rbytes(rt, 0, 48, "subVal")
					p.raw(v...)
					p.set(j, len(v))
				}
				return p
			}
			b := genPacket(rt, build, opt82Consts)
			if len(b) > 255 && rapid.Bool().Draw(rt, "fit") {
				b = b[:rapid.IntRange(0, 255).Draw(rt, "fitLen")]
			}
			return withSel(b, selByte(rt, 8, "mode"))
		},
		seeds: func() [][]byte {
			var o [][]byte
			for _, k := range opt82Consts {
				o = append(o, withSel(k, 1), withSel(k, 3), withSel(k, 0))
			}
			return o
		},
	})
}

const d4Sel = 4

func TestPropDHCPv4Handler(t *testing.T) { runProp(t, 3000, 60000, "dhcp4-handler") }
func TestPropDHCPv4Opt82(t *testing.T)   { runProp(t, 3000, 60000, "dhcp4-opt82") }
