package c09

// C09 — no packet from the network can crash or hang the gateway.
//
// Every network-facing decoder/handler is a *target*: a function from one byte
// string (the whole case: a few selector bytes choosing the protocol state /
// configuration, then the hostile packet) to nothing.  The oracle is the
// statement itself: the call returns.  A recovered panic (runtime index/slice
// out of range, nil dereference, explicit panic) is a violation whose signature
// names the target, the innermost repository function on the panicking stack
// and the kind of runtime error; a call that does not return within the
// watchdog (or blows the heap up) and does so again in an isolated process is a
// hang violation; one that does not reproduce is inconclusive.
//
// Because a case is a byte string, the same target functions serve rapid
// (quick + thorough), native `go test -fuzz` (thorough) and the replay files.

import (
	"encoding/hex"
	"encoding/json"
	"flag"
	"fmt"
	"os"
	"path/filepath"
	"runtime"
	"runtime/metrics"
	"sort"
	"strings"
	"syscall"
	"testing"
	"time"

	"pgregory.net/rapid"

	"bngverif/internal/vstat"
)

const (
	maxInput     = 2048             // statement: byte strings up to 2 KiB per entry point
	watchdog     = 10 * time.Second // per call, on a <= 2 KiB input
	watchdogIdle = 60 * time.Second // a call that is blocked without consuming CPU
	heapLimit    = uint64(3) << 29  // 1.5 GiB live heap during one call = blow-up
	repoModule   = "github.com/codelaboratoryltd/bng/"
	isoEnv       = "VERIF_C09_ISO"        // "<target>:<file>" — isolated confirmation run
	isoOriginEnv = "VERIF_C09_ISO_ORIGIN" // test function that hit the watchdog
)

func TestMain(m *testing.M) { vstat.Main(m, "C09") }

// caseInfo is filled by a target while it runs (it survives a panic).
type caseInfo struct {
	nt  bool     // NT rule: the input passed the first length check of its decoder
	cls []string // class labels
}

func (c *caseInfo) class(s string) { c.cls = append(c.cls, s) }

type target struct {
	name    string
	group   string                         // signature component (default: name); targets sharing code under test share it
	run     func(data []byte, c *caseInfo) // may panic; everything it starts must be stopped when it returns
	gen     func(rt *rapid.T) []byte       // structure-aware generator of whole cases
	seeds   func() [][]byte                // valid packets + hostile constants (fuzz corpus)
	cleanup func()                         // after a recovered panic
	hangAs  string                         // signature component of hang violations (default: name)
	// dictSeeds: stateless variants built from the dictionary harvested from the code under test (dict_test.go):
	// bounded-exhaustive over dictionary x hostile inner shapes; part of the Fuzz* seed corpus in both tiers
	dictSeeds func() [][]byte

	// steering around listed known findings (also applied to native fuzz inputs, see steerFuzz)
	nsel      int                 // number of selector bytes in front of the packet
	avoid     func([]byte) []byte // rewrites a packet so that it no longer has the shape of the listed findings
	avoidSigs []string            // ... which are these signatures
}

// steerFuzz is what the generators do for rapid cases, as a deterministic function of a native fuzz input:
// while one of the target's known findings is listed, 7 of 8 inputs are rewritten so that they avoid exactly
// that shape (the search continues behind the finding); 1 of 8 is left alone so that the finding keeps firing.
func steerFuzz(tg *target, data []byte) []byte {
	if tg.avoid == nil {
		return data
	}
	listed := false
	for _, sg := range tg.avoidSigs {
		listed = listed || vstat.IsListed(sg)
	}
	if !listed || vstat.Hash(data)%8 == 0 {
		return data
	}
	sel, p := split(data, tg.nsel)
	return withSel(tg.avoid(append([]byte(nil), p...)), sel...)
}

var targets = map[string]*target{}

func register(t *target) {
	if _, dup := targets[t.name]; dup {
		panic("duplicate target " + t.name)
	}
	targets[t.name] = t
}

func targetNames() []string {
	var n []string
	for k := range targets {
		n = append(n, k)
	}
	sort.Strings(n)
	return n
}

// verdictPanic lets a target report a violation it established itself (not a panic of the code under test).
type verdictPanic struct{ sig, msg string }

type result struct {
	override string // signature established by the target itself (verdictPanic)
	panicked bool
	val      any
	site     string
	kind     string
	stack    string
	info     caseInfo
}

func (r *result) sig(tg *target) string {
	if r.override != "" {
		return r.override
	}
	g := tg.group
	if g == "" {
		g = tg.name
	}
	return "C09/" + g + "/panic/" + r.site + "/" + r.kind
}

// clip copies b into a slice whose capacity equals its length, so that any read
// beyond the input is out of range for the Go runtime (the statement's "never
// indexes outside its input").
func clip(b []byte) []byte {
	if len(b) > maxInput {
		b = b[:maxInput]
	}
	c := make([]byte, len(b), len(b))
	copy(c, b)
	return c
}

func panicKind(v any) string {
	s := fmt.Sprint(v)
	if _, ok := v.(runtime.Error); !ok {
		return "explicit"
	}
	switch {
	case strings.Contains(s, "slice bounds out of range"):
		return "slice-bounds"
	case strings.Contains(s, "index out of range"):
		return "index"
	case strings.Contains(s, "nil pointer dereference"):
		return "nil-deref"
	case strings.Contains(s, "makeslice"):
		return "makeslice"
	case strings.Contains(s, "divide by zero"):
		return "div-zero"
	case strings.Contains(s, "nil map"):
		return "nil-map"
	case strings.Contains(s, "conversion"):
		return "conversion"
	}
	return "runtime"
}

// panicSite returns the innermost repository function on the panicking stack
// (hook wrappers excluded); if the panic is not below repository code, the
// innermost non-runtime function.
func panicSite() (site, stack string) {
	pcs := make([]uintptr, 96)
	n := runtime.Callers(3, pcs)
	frames := runtime.CallersFrames(pcs[:n])
	var sb strings.Builder
	seenPanic := false
	fallback := ""
	for {
		f, more := frames.Next()
		if f.Function != "" {
			fmt.Fprintf(&sb, "  %s\n      %s:%d\n", f.Function, f.File, f.Line)
		}
		if strings.HasPrefix(f.Function, "runtime.") {
			if f.Function == "runtime.gopanic" || strings.HasPrefix(f.Function, "runtime.panic") || strings.HasPrefix(f.Function, "runtime.goPanic") || f.Function == "runtime.sigpanic" {
				seenPanic = true
			}
		} else if seenPanic && f.Function != "" {
			if fallback == "" {
				fallback = f.Function
			}
			if site == "" && strings.HasPrefix(f.Function, repoModule) && !strings.HasSuffix(f.File, "verif_c09.go") {
				site = f.Function
			}
		}
		if !more {
			break
		}
	}
	if site == "" {
		site = fallback
	}
	site = strings.TrimPrefix(site, repoModule+"pkg/")
	site = strings.TrimPrefix(site, repoModule)
	// closures: pppoe.(*X).f.func1 -> keep; generic instantiation brackets dropped
	if i := strings.Index(site, "["); i > 0 {
		site = site[:i]
	}
	if site == "" {
		site = "unknown"
	}
	return site, sb.String()
}

func heapBytes() uint64 {
	s := []metrics.Sample{{Name: "/memory/classes/heap/objects:bytes"}}
	metrics.Read(s)
	if s[0].Value.Kind() == metrics.KindUint64 {
		return s[0].Value.Uint64()
	}
	return 0
}

var surveyed = map[string]bool{}

var currentTest string // name of the running TestProp*/Fuzz* function (for violation file names)

// invoke runs one case under recover() and the watchdog.
func invoke(tg *target, data []byte) result {
	done := make(chan result, 1)
	res := result{}
	go func() {
		defer func() {
			if v := recover(); v != nil {
				res.panicked = true
				if vp, ok := v.(*verdictPanic); ok {
					res.override, res.val, res.kind, res.site = vp.sig, vp.msg, "verdict", "harness"
				} else if bp, ok := v.(*bubblePanic); ok { // caught inside a synctest bubble (inBubble)
					res.val, res.kind, res.site, res.stack = bp.val, panicKind(bp.val), bp.site, bp.stack
				} else {
					res.val = v
					res.kind = panicKind(v)
					res.site, res.stack = panicSite()
				}
			}
			done <- res
		}()
		tg.run(data, &res.info)
	}()
	start := time.Now()
	limit := watchdog
	if inFuzzWorker() {
		// the fuzz engine kills a worker whose exec takes 10 s ("deadlocked!"): fire before it, the isolated
		// confirmation then applies the full 10 s
		limit = 8 * time.Second
	}
	var cpu0 time.Duration
	tick := time.NewTimer(50 * time.Millisecond)
	defer tick.Stop()
	first := true
	for {
		select {
		case r := <-done:
			return r
		case <-tick.C:
			if first {
				first, cpu0 = false, procCPU()
			}
			why := ""
			el := time.Since(start)
			// 10 s of wall time only counts when the process really ran for most of it (a starved process on a
			// loaded machine is not a hang); a call blocked without using the CPU is given watchdogIdle.
			if el > limit && (procCPU()-cpu0 > limit/2 || el > watchdogIdle) {
				why = fmt.Sprintf("no return after %v (process CPU %v)", el.Round(time.Millisecond), (procCPU() - cpu0).Round(time.Millisecond))
			} else if h := heapBytes(); h > heapLimit {
				why = fmt.Sprintf("live heap %d MiB after %v", h>>20, el.Round(time.Millisecond))
			}
			if why != "" {
				onWatchdog(tg, data, why) // does not return
			}
			tick.Reset(50 * time.Millisecond)
		}
	}
}

func hangSig(tg *target, fn string) string {
	n := tg.hangAs
	if n == "" {
		n = tg.name
	}
	return "C09/" + n + "/hang/" + fn
}

// hangSite names the innermost repository function of the goroutine that runs the case (the one that does not
// return), from a dump of all goroutine stacks.
func hangSite() string {
	buf := make([]byte, 1<<20)
	buf = buf[:runtime.Stack(buf, true)]
	gs := strings.Split(string(buf), "\n\n")
	// the goroutine invoke started for the case; a case that runs in a synctest bubble sits in the bubble's goroutine
	// (second pass: the harness itself may be the one that blocks, in a read-only hook, on a lock the code under test
	// never released)
	for _, marker := range []string{"c09.invoke.func1", "c09.inBubble", "hook:c09.invoke.func1", "hook:c09.inBubble"} {
		hooks := strings.HasPrefix(marker, "hook:")
		marker = strings.TrimPrefix(marker, "hook:")
		for _, g := range gs {
			if !strings.Contains(g, marker) {
				continue
			}
			lines := strings.Split(g, "\n")
			for i := 1; i+1 < len(lines); i += 2 {
				fn, file := lines[i], lines[i+1]
				if strings.HasPrefix(fn, repoModule) && (hooks || !strings.Contains(file, "verif_c09")) {
					if k := strings.LastIndex(fn, "("); k > 0 {
						fn = fn[:k]
					}
					fn = strings.TrimPrefix(strings.TrimPrefix(fn, repoModule+"pkg/"), repoModule)
					if k := strings.Index(fn, "["); k > 0 {
						fn = fn[:k]
					}
					return fn
				}
			}
		}
	}
	_ = os.WriteFile(filepath.Join(outDir(), "hang-stacks.txt"), buf, 0o644) // triage aid: no repository frame found
	return "unknown"
}

func procCPU() time.Duration {
	var ru syscall.Rusage
	if syscall.Getrusage(syscall.RUSAGE_SELF, &ru) != nil {
		return 0
	}
	return time.Duration(ru.Utime.Nano() + ru.Stime.Nano())
}

type caseFile struct {
	Target string `json:"target"`
	Sig    string `json:"sig,omitempty"`
	Hex    string `json:"hex"`
	Note   string `json:"note,omitempty"`
}

func writeCaseFile(path string, cf caseFile) {
	_ = os.MkdirAll(filepath.Dir(path), 0o755)
	b, _ := json.MarshalIndent(cf, "", " ")
	_ = os.WriteFile(path, append(b, '\n'), 0o644)
}

func outDir() string {
	if d := os.Getenv("VERIF_OUT"); d != "" {
		return d
	}
	return os.TempDir()
}

func inFuzzWorker() bool {
	f := flag.Lookup("test.fuzzworker")
	return f != nil && f.Value.String() == "true"
}

// onWatchdog: the call cannot be interrupted, so the process image is replaced
// by an isolated confirmation run of the same input (that also ends the
// runaway goroutine).  The confirmation prints VIOLATION (exit 1) if the
// watchdog trips again, INCONCLUSIVE (exit 2) otherwise.
func onWatchdog(tg *target, data []byte, why string) {
	if os.Getenv(isoEnv) != "" {
		// already the isolated run: confirmed
		sig := hangSig(tg, hangSite())
		origin := os.Getenv(isoOriginEnv)
		if origin == "" {
			origin = "TestReplayIsolated"
		}
		if vstat.Known(sig) {
			fmt.Printf("C09 watchdog: %s reproduced in isolation, listed known finding (%s)\n", sig, why)
			vstat.Flush()
			os.Exit(0)
		}
		p := filepath.Join(outDir(), "violations", origin+"__hang-"+tg.name+".json")
		writeCaseFile(p, caseFile{Target: tg.name, Sig: sig, Hex: hex.EncodeToString(data), Note: why})
		fmt.Printf("--- FAIL: %s\n    VIOLATION sig=%s: %s on a %d-byte input, confirmed by an isolated re-run; input %s\n", origin, sig, why, len(data), p)
		os.Exit(1)
	}
	f := filepath.Join(outDir(), "watchdog-"+tg.name+".json")
	writeCaseFile(f, caseFile{Target: tg.name, Hex: hex.EncodeToString(data), Note: why})
	fmt.Printf("C09 watchdog: target %s: %s on a %d-byte input (%s); re-running it in isolation\n", tg.name, why, len(data), f)
	vstat.Flush()
	if inFuzzWorker() {
		// the wrapper finds the file written above and confirms it in isolation (exit code 70 is reserved by
		// the fuzz engine for internal worker errors, so use another one)
		os.Exit(3)
	}
	env := []string{}
	for _, e := range os.Environ() {
		if strings.HasPrefix(e, "VERIF_STATS=") || strings.HasPrefix(e, isoEnv+"=") {
			continue
		}
		env = append(env, e)
	}
	env = append(env, isoEnv+"="+tg.name+":"+f, isoOriginEnv+"="+currentTest)
	err := syscall.Exec(os.Args[0], []string{os.Args[0], "-test.run", "^TestReplayIsolated$", "-test.timeout", "120s"}, env)
	fmt.Printf("INCONCLUSIVE: cannot re-exec for the isolated confirmation: %v\n", err)
	os.Exit(2)
}

// checkOne runs one case and reports through vstat.
func checkOne(t vstat.Fataler, tg *target, data []byte, genClass string) {
	t.Helper()
	data = clip(data)
	r := invoke(tg, data)
	cls := []string{"target:" + tg.name}
	for _, k := range r.info.cls {
		cls = append(cls, tg.name+"|"+k) // per-target class counters
	}
	if genClass != "" {
		cls = append(cls, "gen:"+genClass)
	}
	fp := vstat.Hash(tg.name, data)
	sample := func() any {
		h := data
		if len(h) > 96 {
			h = h[:96]
		}
		return map[string]any{"target": tg.name, "len": len(data), "hex_prefix": hex.EncodeToString(h), "classes": cls}
	}
	if r.panicked {
		if tg.cleanup != nil {
			tg.cleanup()
		}
		sig := r.sig(tg)
		if os.Getenv("VERIF_C09_SURVEY") != "" {
			// development aid: list every distinct panic signature instead of stopping at the first
			if !surveyed[sig] {
				surveyed[sig] = true
				fmt.Printf("SURVEY sig=%s: %v input=%s\n", sig, r.val, hex.EncodeToString(data))
			}
			vstat.Case(true, fp, sample, append(cls, "survey-hit")...)
			return
		}
		if !vstat.IsListed(sig) {
			p := filepath.Join(outDir(), "violations", currentTest+"__"+tg.name+".json")
			writeCaseFile(p, caseFile{Target: tg.name, Sig: sig, Hex: hex.EncodeToString(data), Note: fmt.Sprint(r.val)})
		}
		if vstat.Fail(t, sig, "target %s panicked: %v\ninput (%d bytes, selectors included): %s\nstack:\n%s", tg.name, r.val, len(data), hex.EncodeToString(data), r.stack) {
			vstat.Case(true, fp, sample, append(cls, "known-finding-hit")...)
			return
		}
	}
	vstat.Case(r.info.nt, fp, sample, cls...)
}

// runProp is the body of every TestProp* function: draw a target of the group, draw a case, check it.
func runProp(t *testing.T, quick, thorough int, names ...string) {
	currentTest, curT = t.Name(), t
	for _, n := range names {
		if targets[n] == nil {
			t.Fatalf("harness: unknown target %q", n)
		}
	}
	vstat.Checks(quick, thorough)
	rapid.Check(t, func(rt *rapid.T) {
		name := names[0]
		if len(names) > 1 {
			name = rapid.SampledFrom(names).Draw(rt, "target")
		}
		tg := targets[name]
		data := tg.gen(rt)
		checkOne(rt, tg, data, lastGenClass)
	})
}

// lastGenClass is set by the generators (single-threaded per process) to label how the case was produced.
var lastGenClass string
