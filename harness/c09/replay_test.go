package c09

import (
	"encoding/hex"
	"encoding/json"
	"fmt"
	"os"
	"path/filepath"
	"sort"
	"strconv"
	"strings"
	"testing"
	"time"

	"bngverif/internal/vstat"
)

// loadCase reads a replay unit: a caseFile (JSON) or a native fuzz corpus entry
// ("go test fuzz v1" + one []byte line; the target comes from the file name
// Fuzz<Name>__<id>; the driver replays such files through the Fuzz function
// itself, this path serves TestReplayIsolated and committed corpus entries).
func loadCase(path string) (*target, []byte, caseFile, error) {
	raw, err := os.ReadFile(path)
	if err != nil {
		return nil, nil, caseFile{}, err
	}
	var cf caseFile
	if strings.HasPrefix(string(raw), "go test fuzz v1") {
		lines := strings.Split(strings.TrimSpace(string(raw)), "\n")
		if len(lines) < 2 {
			return nil, nil, cf, fmt.Errorf("empty corpus entry")
		}
		l := strings.TrimSpace(lines[1])
		l = strings.TrimSuffix(strings.TrimPrefix(l, "[]byte("), ")")
		s, err := strconv.Unquote(l)
		if err != nil {
			return nil, nil, cf, fmt.Errorf("corpus entry: %v", err)
		}
		base := filepath.Base(path)
		name := strings.SplitN(base, "__", 2)[0]
		tn, ok := fuzzTargets[strings.TrimPrefix(name, "TestProp")]
		if !ok {
			return nil, nil, cf, fmt.Errorf("cannot derive the target from file name %q", base)
		}
		b := []byte(s)
		if len(b) > maxInput {
			b = b[:maxInput]
		}
		if tg := targets[tn]; tg != nil {
			b = steerFuzz(tg, b) // what the fuzz worker executed for this corpus entry
		}
		cf = caseFile{Target: tn, Hex: hex.EncodeToString(b)}
	} else if err := json.Unmarshal(raw, &cf); err != nil {
		return nil, nil, cf, err
	}
	tg := targets[cf.Target]
	if tg == nil {
		return nil, nil, cf, fmt.Errorf("unknown target %q", cf.Target)
	}
	data, err := hex.DecodeString(cf.Hex)
	if err != nil {
		return nil, nil, cf, err
	}
	return tg, data, cf, nil
}

// TestReplayKnown re-runs every committed replay file.  Each asserts through
// the same signature as the generated tier: silent while the finding is
// listed, failing again if an applied fix is reverted.
func TestReplayKnown(t *testing.T) {
	currentTest, curT = t.Name(), t
	dir := os.Getenv("VERIF_REPLAYS")
	if dir == "" {
		dir = "../../replays/C09"
	}
	files, _ := filepath.Glob(filepath.Join(dir, "*.json"))
	sort.Strings(files)
	for _, f := range files {
		tg, data, cf, err := loadCase(f)
		if err != nil {
			t.Fatalf("INCONCLUSIVE: replay file %s: %v", f, err)
		}
		before := vstat.IsListed(cf.Sig)
		r := invoke(tg, clip(data))
		if tg.cleanup != nil && r.panicked {
			tg.cleanup()
		}
		if r.panicked {
			vstat.Fail(t, r.sig(tg), "replay %s: target %s panicked: %v\ninput: %s\nstack:\n%s", filepath.Base(f), tg.name, r.val, cf.Hex, r.stack)
		} else if before {
			vstat.Note("stale:"+cf.Sig, "listed finding no longer reproduces with "+filepath.Base(f))
		}
		vstat.Case(true, vstat.Hash("replay", tg.name, data), nil, "replay-file")
	}
}

// TestReplaySeeds runs every target on its hostile constants and valid packets (deterministic smoke tier).
func TestReplaySeeds(t *testing.T) {
	currentTest, curT = t.Name(), t
	for _, n := range targetNames() {
		tg := targets[n]
		for _, s := range tg.seeds() {
			checkOne(t, tg, s, "seed")
		}
	}
}

// TestReplaySanity checks the harness itself: the scripted preludes reach the states they claim.
func TestReplaySanity(t *testing.T) {
	curT = t
	for _, kind := range []string{"lcp", "ipcp", "ipv6cp"} {
		for _, want := range fsmStates {
			for cfg := byte(0); cfg < 4; cfg++ {
				f := newFSM(kind, cfg)
				f.drive(want)
				got := f.state()
				f.down()
				if got != want {
					t.Fatalf("INCONCLUSIVE: harness self-check: %s prelude for state %s reached %s", kind, want, got)
				}
			}
		}
	}
	wantSrv := []string{"no-session", "LCP Negotiation", "Authentication", "IPCP Negotiation", "Established", "no-session"}
	for st, want := range wantSrv {
		s := newPPPoEServer()
		pppoePrelude(s, st)
		if got := pppoeStateName(s); got != want {
			t.Fatalf("INCONCLUSIVE: harness self-check: PPPoE prelude %d reached %q, want %q", st, got, want)
		}
	}
	// generated histories: every automaton state is reached by every route for most shapes, the server histories
	// reach the session states they are asked for, the DHCP histories bind / expire leases
	for _, kind := range []string{"lcp", "ipcp", "ipv6cp"} {
		for si, want := range fsmStates {
			for route := 0; route < 3; route++ {
				hit, n := 0, 0
				for k := 0; k < 48; k++ {
					h := vstat.Hash("sanity", kind, want, route, k)
					sh := negShape{byte(1 + route), byte(h), byte(h >> 8), byte(h >> 16), byte(h>>24) &^ 0x40, byte(h >> 32)}
					f := newFSM(kind, byte(h>>40)&3)
					var st negStats
					f.reach(want, sh, &st)
					if f.state() == want {
						hit++
					}
					n++
					f.down()
				}
				if hit*4 < n*3 {
					t.Fatalf("INCONCLUSIVE: harness self-check: %s generated prefix (route %s) reached %s in only %d of %d shapes", kind, routeNames[route], fsmStates[si], hit, n)
				}
			}
		}
	}
	for st := 1; st <= 4; st++ {
		for k := 0; k < 32; k++ {
			h := vstat.Hash("sanity-srv", st, k)
			sh := srvShape{1, byte(h) &^ 0x80, byte(h >> 8), byte(h >> 16), byte(h>>24) & 0x3f, byte(h >> 32)}
			s := newPPPoEServerCfg(false)
			var c caseInfo
			srvHistory(s, st, sh, &c)
			if got := pppoeStateName(s); got != wantSrv[st] {
				t.Fatalf("INCONCLUSIVE: harness self-check: generated PPPoE history %+v for state %d reached %q, want %q", sh, st, got, wantSrv[st])
			}
		}
	}
	{
		var c caseInfo
		s, conn := newDHCP4Cfg(false, time.Hour)
		dhcp4History(s, conn, d4Shape{2<<5 | 2<<1, 1}, time.Hour, &c) // relayed with option 82, bound, one other client
		if s.VerifC09LeaseCount() != 2 {
			t.Fatalf("INCONCLUSIVE: harness self-check: generated DHCPv4 history left %d leases, want 2 (%v)", s.VerifC09LeaseCount(), c.cls)
		}
		left := -1
		inBubble(func() {
			s, conn := newDHCP4Cfg(false, time.Hour)
			dhcp4History(s, conn, d4Shape{2 << 5, 3 << 3}, time.Hour, &c) // bound, lease time passes, clean-up tick
			left = s.VerifC09LeaseCount()
		})
		if left != 0 {
			t.Fatalf("INCONCLUSIVE: harness self-check: expired DHCPv4 lease survived the clean-up tick")
		}
		s6 := newDHCP6Cfg(0, false)
		dhcp6History(s6, d6Shape{0, 1 << 3}, 7200*time.Second, &c) // address + prefix, bound, one other client
		if s6.VerifC09LeaseCount() != 2 {
			t.Fatalf("INCONCLUSIVE: harness self-check: generated DHCPv6 history left %d leases, want 2 (%v)", s6.VerifC09LeaseCount(), c.cls)
		}
		inBubble(func() {
			s6 := newDHCP6Cfg(0, false)
			dhcp6History(s6, d6Shape{0, 3}, 7200*time.Second, &c) // bound, valid lifetime passes, a stranger's message
			left = s6.VerifC09LeaseCount()
		})
		if left != 0 {
			t.Fatalf("INCONCLUSIVE: harness self-check: expired DHCPv6 lease survived the scan")
		}
	}
	for _, pkg := range []string{"radius", "dhcpv6", "pppoe", "dhcp", "ztp", "ha", "nat"} {
		if d := dictFor(pkg); len(d.small) == 0 || len(d.strs) == 0 {
			t.Fatalf("INCONCLUSIVE: harness self-check: no dictionary harvested from %s/pkg/%s", repoRoot(), pkg)
		}
	}
	for tn := range repoPackets {
		if targets[tn] == nil {
			t.Fatalf("INCONCLUSIVE: harness self-check: repoPackets names unknown target %q", tn)
		}
	}
	for fn, tn := range fuzzTargets {
		if targets[tn] == nil {
			t.Fatalf("INCONCLUSIVE: harness self-check: %s names unknown target %q", fn, tn)
		}
	}
	for _, tn := range targetNames() {
		found := false
		for _, v := range fuzzTargets {
			found = found || v == tn
		}
		if !found {
			t.Fatalf("INCONCLUSIVE: harness self-check: target %q has no Fuzz function", tn)
		}
	}
	for sel := byte(1); sel <= 2; sel++ {
		s, conn := newDHCP4()
		dhcp4Prelude(s, conn, sel)
		if s.VerifC09LeaseCount() != 1 {
			t.Fatalf("INCONCLUSIVE: harness self-check: DHCPv4 prelude %d did not create a lease", sel)
		}
	}
	var c caseInfo
	targets["dhcp6-handler"].run(withSel(v6Request, 1, 0), &c)
	if !strings.Contains(strings.Join(c.cls, " "), "state:lease-held") {
		t.Fatalf("INCONCLUSIVE: harness self-check: DHCPv6 prelude did not create a lease (%v)", c.cls)
	}
	c = caseInfo{}
	targets["radius-coa"].run(targets["radius-coa"].seeds()[1], &c) // authentic CoA-Request for sess-1
	if !strings.Contains(strings.Join(c.cls, " "), "authentic-coa-or-dm") || strings.Contains(strings.Join(c.cls, " "), "lost") {
		t.Fatalf("INCONCLUSIVE: harness self-check: signed CoA datagram not delivered (%v)", c.cls)
	}
}

// TestReplayFile replays the file given by the driver's --replay option (caseFile JSON or fuzz corpus entry).
func TestReplayFile(t *testing.T) {
	p := os.Getenv("VERIF_REPLAY_FILE")
	if p == "" {
		return
	}
	currentTest, curT = t.Name(), t
	tg, data, _, err := loadCase(p)
	if err != nil {
		t.Fatalf("INCONCLUSIVE: %v", err)
	}
	checkOne(t, tg, data, "replay")
}

// TestReplayIsolated is the isolated confirmation of a watchdog hit (see onWatchdog).
func TestReplayIsolated(t *testing.T) {
	v := os.Getenv(isoEnv)
	if v == "" {
		return
	}
	curT = t
	i := strings.Index(v, ":")
	tg, data, _, err := loadCase(v[i+1:])
	if err != nil || tg.name != v[:i] {
		fmt.Printf("INCONCLUSIVE: isolated run cannot load %s: %v\n", v, err)
		os.Exit(2)
	}
	r := invoke(tg, clip(data)) // a second watchdog hit ends the process inside invoke with the VIOLATION line
	if r.panicked {
		fmt.Printf("--- FAIL: %s\n    VIOLATION sig=%s: %v (input %s)\n", os.Getenv(isoOriginEnv), r.sig(tg), r.val, v[i+1:])
		os.Exit(1)
	}
	fmt.Printf("INCONCLUSIVE: watchdog hit on target %s did not reproduce in isolation (input kept in %s)\n", tg.name, v[i+1:])
	os.Exit(2)
}
