package c09

// Native `go test -fuzz` tier (thorough only).  The driver only runs
// `-test.run`, so each TestPropFuzz* wrapper re-executes the test binary with
// `-test.fuzz=^Fuzz…$` from $VERIF_OUT (where testdata/fuzz can be written) and
// converts a crasher into a violation whose replay unit is the saved corpus
// entry.  Quick never runs native fuzzing (it cannot be pinned to a seed).

import (
	"context"
	"encoding/hex"
	"fmt"
	"os"
	"os/exec"
	"path/filepath"
	"regexp"
	"runtime"
	"runtime/debug"
	"strconv"
	"strings"
	"syscall"
	"testing"
	"time"

	"pgregory.net/rapid"

	"bngverif/internal/vstat"
)

const fuzzChildEnv = "VERIF_C09_FUZZCHILD"

func fuzzTarget(f *testing.F, name string) {
	tg := targets[name]
	if tg == nil {
		f.Fatalf("harness: unknown target %q", name)
	}
	currentTest = "TestProp" + f.Name()
	for _, s := range fuzzSeeds(tg) {
		f.Add(s)
	}
	child := os.Getenv(fuzzChildEnv) != ""
	if child && inFuzzWorker() {
		// a fatal runtime error or a panic in a goroutine of the code under test kills the worker; the engine
		// discards the worker's stderr, so duplicate the crash report into a file the wrapper can read
		if cf, err := os.Create(filepath.Join(outDir(), fmt.Sprintf("worker-crash-%d.txt", os.Getpid()))); err == nil {
			_ = debug.SetCrashOutput(cf, debug.CrashOptions{})
		}
	}
	f.Fuzz(func(t *testing.T, data []byte) {
		if child {
			// no per-case statistics in the fuzz workers (millions of executions); violations only
			if len(data) > maxInput {
				data = data[:maxInput]
			}
			data = clip(steerFuzz(tg, data))
			r := invoke(tg, data)
			if r.panicked {
				if tg.cleanup != nil {
					tg.cleanup()
				}
				if sig := r.sig(tg); !vstat.IsListed(sig) {
					// the exact executed bytes (after steering) are the replay unit
					writeCaseFile(filepath.Join(outDir(), "violations", currentTest+"__"+tg.name+".json"),
						caseFile{Target: tg.name, Sig: sig, Hex: hex.EncodeToString(data), Note: fmt.Sprint(r.val)})
				}
				vstat.Fail(t, r.sig(tg), "target %s panicked: %v\ninput (%d bytes, selectors included): %s\nstack:\n%s", tg.name, r.val, len(data), hex.EncodeToString(data), r.stack)
			}
			return
		}
		checkOne(t, tg, data, "fuzz-corpus")
	})
}

// fuzzSeeds is the seed corpus in f.Add order: hostile constants and valid packets, then 256 deterministic
// structure-aware rapid examples (valid, mutated and random cases).
func fuzzSeeds(tg *target) [][]byte {
	o := append([][]byte(nil), tg.seeds()...)
	g := rapid.Custom(tg.gen)
	for i := 0; i < 256; i++ {
		o = append(o, g.Example(i))
	}
	return o
}

var (
	reSeedNo  = regexp.MustCompile(`failure while testing seed corpus entry: \S+/seed#(\d+)`)
	reExecs   = regexp.MustCompile(`execs: (\d+)`)
	reCrasher = regexp.MustCompile(`Failing input written to (\S+)`)
	reViol    = regexp.MustCompile(`VIOLATION sig=\S+[^\n]*`)
	reInput   = regexp.MustCompile(`selectors included\): ([0-9a-f]*)`)
)

// fuzzBinary returns the binary to fuzz with.  The driver's test binary has no
// coverage instrumentation (plain `go test -c`), so the first wrapper to get
// the lock builds an instrumented one (`go test -c -fuzz=Fuzz`, same tags, same
// module file) next to it; the others wait for it.  If that build does not
// finish within VERIF_C09_FUZZBUILD_TIMEOUT (default 300s; finished packages
// stay in the go build cache) or fails, fuzzing runs uninstrumented: the engine
// still mutates from the seeded corpus, only without coverage guidance.
func fuzzBinary() (string, bool) {
	bdir, root := os.Getenv("VERIF_BUILD"), os.Getenv("VERIF_ROOT")
	// Measured on this repository: with every dependency instrumented the engine manages 5-500 execs/s per
	// target (40 s ~ 10^2..10^4 executions), the plain binary 5k-60k execs/s (40 s ~ 10^5..10^6).  Coverage
	// guidance is therefore opt-in; by default the engine mutates the (large) seeded corpus without it.
	if bdir == "" || root == "" || os.Getenv("VERIF_C09_FUZZ_INSTRUMENT") == "" {
		return os.Args[0], false
	}
	self, err := os.Stat(os.Args[0])
	if err != nil {
		return os.Args[0], false
	}
	lock, err := os.OpenFile(filepath.Join(bdir, "c09-fuzz.lock"), os.O_CREATE|os.O_RDWR, 0o644)
	if err != nil {
		return os.Args[0], false
	}
	defer lock.Close()
	if syscall.Flock(int(lock.Fd()), syscall.LOCK_EX) != nil {
		return os.Args[0], false
	}
	defer syscall.Flock(int(lock.Fd()), syscall.LOCK_UN)
	bin, failed := filepath.Join(bdir, "c09-fuzz.test"), filepath.Join(bdir, "c09-fuzz.failed")
	if st, err := os.Stat(bin); err == nil && !st.ModTime().Before(self.ModTime()) {
		return bin, true
	}
	if st, err := os.Stat(failed); err == nil && !st.ModTime().Before(self.ModTime()) {
		return os.Args[0], false
	}
	budget := 300 * time.Second
	if v, err := time.ParseDuration(os.Getenv("VERIF_C09_FUZZBUILD_TIMEOUT")); err == nil && v > 0 {
		budget = v
	}
	args := []string{"test", "-c", "-tags", "verif", "-fuzz=Fuzz", "-o", bin + ".tmp"}
	if alt := filepath.Join(bdir, "alt.mod"); os.Getenv("VERIF_REPO") != "" && os.Getenv("VERIF_REPO") != "/repo" {
		if _, err := os.Stat(alt); err == nil {
			args = append(args, "-modfile="+alt)
		}
	}
	args = append(args, "./c09")
	ctx, cancel := context.WithTimeout(context.Background(), budget)
	defer cancel()
	cmd := exec.CommandContext(ctx, filepath.Join(runtime.GOROOT(), "bin", "go"), args...)
	cmd.Dir = filepath.Join(root, "harness")
	if outb, err := cmd.CombinedOutput(); err != nil {
		_ = os.WriteFile(failed, append([]byte(err.Error()+"\n"), outb...), 0o644)
		return os.Args[0], false
	}
	if os.Rename(bin+".tmp", bin) != nil {
		return os.Args[0], false
	}
	return bin, true
}

func nativeFuzz(t *testing.T, fuzzName, targetName string) {
	if !vstat.Thorough() {
		return // quick: native fuzzing is not run
	}
	currentTest = t.Name()
	dur := os.Getenv("VERIF_C09_FUZZTIME")
	if dur == "" {
		dur = "40s"
	}
	d, err := time.ParseDuration(dur)
	if err != nil {
		t.Fatalf("INCONCLUSIVE: bad VERIF_C09_FUZZTIME: %v", err)
	}
	out := outDir()
	env := []string{fuzzChildEnv + "=1"}
	for _, e := range os.Environ() {
		if !strings.HasPrefix(e, "VERIF_STATS=") {
			env = append(env, e)
		}
	}
	bin, instrumented := fuzzBinary()
	vstat.Note("native-fuzz:coverage-instrumented", instrumented)
	for attempt := 1; ; attempt++ {
		verdict, msg := nativeFuzzOnce(t, bin, fuzzName, targetName, dur, d, out, env)
		switch verdict {
		case "ok":
			return
		case "violation":
			t.Fatalf("%s", msg)
		default:
			if attempt == 1 {
				// a worker death that neither reproduces nor left a crash report: run once more before giving up
				vstat.Note("native-fuzz:"+targetName+":retried", msg[:min(len(msg), 300)])
				continue
			}
			t.Fatalf("INCONCLUSIVE: %s", msg)
		}
	}
}

// nativeFuzzOnce returns ("ok"|"violation"|"inconclusive", message).
func nativeFuzzOnce(t *testing.T, bin, fuzzName, targetName, dur string, d time.Duration, out string, env []string) (string, string) {
	old, _ := filepath.Glob(filepath.Join(out, "worker-crash-*.txt"))
	for _, f := range old {
		_ = os.Remove(f)
	}
	_ = os.Remove(filepath.Join(out, "watchdog-"+targetName+".json"))
	ctx, cancel := context.WithTimeout(context.Background(), d+4*time.Minute)
	defer cancel()
	cmd := exec.CommandContext(ctx, bin, "-test.run=^$", "-test.fuzz=^"+fuzzName+"$", "-test.fuzztime="+dur,
		"-test.fuzzcachedir="+filepath.Join(out, "fuzzcache"), "-test.parallel=2", "-test.timeout=0")
	cmd.Dir = out
	cmd.Env = env
	b, runErr := cmd.CombinedOutput()
	text := string(b)
	execs := 0
	if m := reExecs.FindAllStringSubmatch(text, -1); len(m) > 0 {
		execs, _ = strconv.Atoi(m[len(m)-1][1])
	}
	vstat.Class("native-fuzz-execs:"+targetName, int64(execs))
	vstat.Note("native-fuzz:"+targetName, fmt.Sprintf("%s, %d execs", dur, execs))
	if runErr == nil {
		return "ok", ""
	}
	if !strings.Contains(text, "Failing input written") && !strings.Contains(text, "VIOLATION sig=") &&
		!strings.Contains(text, "C09 watchdog") && strings.Contains(text, "context deadline exceeded") {
		// the engine reports its own -fuzztime expiry as a failure when a worker is mid-exec (golang/go#48157 family)
		vstat.Note("native-fuzz:"+targetName+":deadline-race", true)
		return "ok", ""
	}
	tail := text
	if len(tail) > 6000 {
		tail = tail[len(tail)-6000:]
	}
	// crash reports of dead workers
	crash := ""
	cfs, _ := filepath.Glob(filepath.Join(out, "worker-crash-*.txt"))
	for _, f := range cfs {
		if cb, err := os.ReadFile(f); err == nil && len(cb) > 0 {
			crash += string(cb)
		}
	}
	if len(crash) > 8000 {
		crash = crash[:8000]
	}
	crasher := ""
	var crasherRaw []byte
	if m := reCrasher.FindStringSubmatch(text); m != nil {
		crasher = m[1]
		if !filepath.IsAbs(crasher) {
			crasher = filepath.Join(out, crasher)
		}
		crasherRaw, _ = os.ReadFile(crasher)
	}
	keep := func(dir string) string {
		if exact := filepath.Join(out, "violations", t.Name()+"__"+targetName+".json"); fileExists(exact) && dir == "violations" {
			return exact
		}
		if crasherRaw == nil {
			return ""
		}
		p := filepath.Join(out, dir, t.Name()+"__"+filepath.Base(crasher)+".fuzz")
		_ = os.MkdirAll(filepath.Dir(p), 0o755)
		_ = os.WriteFile(p, crasherRaw, 0o644)
		return p
	}
	if v := reViol.FindString(text); v != "" {
		kept := keep("violations")
		if kept == "" {
			// failure on a seed corpus entry: the engine writes no file; keep the input from the message
			if m := reInput.FindStringSubmatch(text); m != nil {
				kept = filepath.Join(out, "violations", t.Name()+"__seed.json")
				writeCaseFile(kept, caseFile{Target: targetName, Hex: m[1], Note: v})
			}
		}
		return "violation", fmt.Sprintf("%s\nnative fuzz crasher kept as %s\n%s", v, kept, tail)
	}
	if strings.Contains(crash, "/pkg/") && strings.Contains(crash, os.Getenv("VERIF_REPO")) && os.Getenv("VERIF_REPO") != "" {
		// the worker process died in the code under test (goroutine panic / fatal error): death of the process
		kept := keep("violations")
		return "violation", fmt.Sprintf("VIOLATION sig=C09/%s/process-death: fuzz worker died in the code under test; last input kept as %s\n%s\n%s", targetName, kept, crash, tail)
	}
	wf := filepath.Join(out, "watchdog-"+targetName+".json")
	if !fileExists(wf) && crasherRaw == nil {
		// died on a seed corpus entry: the engine names it by its f.Add index
		if m := reSeedNo.FindStringSubmatch(text); m != nil {
			if n, _ := strconv.Atoi(m[1]); n < len(fuzzSeeds(targets[targetName])) {
				wf = filepath.Join(out, "unconfirmed", t.Name()+"__seed"+m[1]+".json")
				writeCaseFile(wf, caseFile{Target: targetName, Hex: hex.EncodeToString(steerFuzz(targets[targetName], fuzzSeeds(targets[targetName])[n])), Note: "seed corpus entry " + m[1]})
			}
		}
	}
	if fileExists(wf) || (crasherRaw != nil && strings.Contains(text, "hung or terminated unexpectedly")) {
		// a worker died (our watchdog, the engine's own 10 s "deadlocked!" timer, or otherwise): confirm the
		// recorded input in isolation
		kept := wf
		if !fileExists(wf) {
			kept = keep("unconfirmed")
		}
		ienv := append(append([]string{}, env...), isoEnv+"="+targetName+":"+kept, isoOriginEnv+"="+t.Name())
		ictx, icancel := context.WithTimeout(context.Background(), 3*time.Minute)
		defer icancel()
		ic := exec.CommandContext(ictx, os.Args[0], "-test.run", "^TestReplayIsolated$", "-test.timeout", "150s")
		ic.Dir, ic.Env = out, ienv
		ib, _ := ic.CombinedOutput()
		if v := reViol.FindString(string(ib)); v != "" {
			return "violation", fmt.Sprintf("%s\n%s", v, string(ib)) // the isolated run wrote the violation file
		}
		return "inconclusive", fmt.Sprintf("native fuzz worker of %s died and the recorded input (%s) did not reproduce in isolation\nworker crash report: %q\n%s\n%s", fuzzName, kept, crash, string(ib), tail)
	}
	return "inconclusive", fmt.Sprintf("native fuzz run of %s failed without a violation: %v\nworker crash report: %q\n%s", fuzzName, runErr, crash, tail)
}

func fileExists(p string) bool {
	_, err := os.Stat(p)
	return err == nil
}
