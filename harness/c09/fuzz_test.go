package c09

// Native `go test -fuzz` tier (thorough only).  The driver only runs
// `-test.run`, so each TestPropFuzz* wrapper re-executes the test binary with
// `-test.fuzz=^Fuzz…$` from $VERIF_OUT (where testdata/fuzz can be written) and
// converts a crasher into a violation whose replay unit is the saved corpus
// entry.  Quick never runs native fuzzing (it cannot be pinned to a seed).

import (
	"context"
	"encoding/hex"
	"fmt"
	"os"
	"os/exec"
	"path/filepath"
	"regexp"
	"runtime"
	"strconv"
	"strings"
	"syscall"
	"testing"
	"time"

	"pgregory.net/rapid"

	"bngverif/internal/vstat"
)

const fuzzChildEnv = "VERIF_C09_FUZZCHILD"

func fuzzTarget(f *testing.F, name string) {
	tg := targets[name]
	if tg == nil {
		f.Fatalf("harness: unknown target %q", name)
	}
	currentTest = "TestProp" + f.Name()
	for _, s := range tg.seeds() {
		f.Add(s)
	}
	g := rapid.Custom(tg.gen)
	for i := 0; i < 24; i++ {
		f.Add(g.Example(i))
	}
	child := os.Getenv(fuzzChildEnv) != ""
	f.Fuzz(func(t *testing.T, data []byte) {
		if child {
			// no per-case statistics in the fuzz workers (millions of executions); violations only
			data = clip(data)
			r := invoke(tg, data)
			if r.panicked {
				if tg.cleanup != nil {
					tg.cleanup()
				}
				vstat.Fail(t, r.sig(tg), "target %s panicked: %v\ninput (%d bytes, selectors included): %s\nstack:\n%s", tg.name, r.val, len(data), hex.EncodeToString(data), r.stack)
			}
			return
		}
		checkOne(t, tg, data, "fuzz-corpus")
	})
}

var (
	reExecs   = regexp.MustCompile(`execs: (\d+)`)
	reCrasher = regexp.MustCompile(`Failing input written to (\S+)`)
	reViol    = regexp.MustCompile(`VIOLATION sig=\S+[^\n]*`)
	reInput   = regexp.MustCompile(`selectors included\): ([0-9a-f]*)`)
)

// fuzzBinary returns the binary to fuzz with.  The driver's test binary has no
// coverage instrumentation (plain `go test -c`), so the first wrapper to get
// the lock builds an instrumented one (`go test -c -fuzz=Fuzz`, same tags, same
// module file) next to it; the others wait for it.  If that build does not
// finish within VERIF_C09_FUZZBUILD_TIMEOUT (default 300s; finished packages
// stay in the go build cache) or fails, fuzzing runs uninstrumented: the engine
// still mutates from the seeded corpus, only without coverage guidance.
func fuzzBinary() (string, bool) {
	bdir, root := os.Getenv("VERIF_BUILD"), os.Getenv("VERIF_ROOT")
	if bdir == "" || root == "" || os.Getenv("VERIF_C09_FUZZ_NOINSTRUMENT") != "" {
		return os.Args[0], false
	}
	self, err := os.Stat(os.Args[0])
	if err != nil {
		return os.Args[0], false
	}
	lock, err := os.OpenFile(filepath.Join(bdir, "c09-fuzz.lock"), os.O_CREATE|os.O_RDWR, 0o644)
	if err != nil {
		return os.Args[0], false
	}
	defer lock.Close()
	if syscall.Flock(int(lock.Fd()), syscall.LOCK_EX) != nil {
		return os.Args[0], false
	}
	defer syscall.Flock(int(lock.Fd()), syscall.LOCK_UN)
	bin, failed := filepath.Join(bdir, "c09-fuzz.test"), filepath.Join(bdir, "c09-fuzz.failed")
	if st, err := os.Stat(bin); err == nil && !st.ModTime().Before(self.ModTime()) {
		return bin, true
	}
	if st, err := os.Stat(failed); err == nil && !st.ModTime().Before(self.ModTime()) {
		return os.Args[0], false
	}
	budget := 300 * time.Second
	if v, err := time.ParseDuration(os.Getenv("VERIF_C09_FUZZBUILD_TIMEOUT")); err == nil && v > 0 {
		budget = v
	}
	args := []string{"test", "-c", "-tags", "verif", "-fuzz=Fuzz", "-o", bin + ".tmp"}
	if alt := filepath.Join(bdir, "alt.mod"); os.Getenv("VERIF_REPO") != "" && os.Getenv("VERIF_REPO") != "/repo" {
		if _, err := os.Stat(alt); err == nil {
			args = append(args, "-modfile="+alt)
		}
	}
	args = append(args, "./c09")
	ctx, cancel := context.WithTimeout(context.Background(), budget)
	defer cancel()
	cmd := exec.CommandContext(ctx, filepath.Join(runtime.GOROOT(), "bin", "go"), args...)
	cmd.Dir = filepath.Join(root, "harness")
	if outb, err := cmd.CombinedOutput(); err != nil {
		_ = os.WriteFile(failed, append([]byte(err.Error()+"\n"), outb...), 0o644)
		return os.Args[0], false
	}
	if os.Rename(bin+".tmp", bin) != nil {
		return os.Args[0], false
	}
	return bin, true
}

func nativeFuzz(t *testing.T, fuzzName, targetName string) {
	if !vstat.Thorough() {
		return // quick: native fuzzing is not run
	}
	currentTest = t.Name()
	dur := os.Getenv("VERIF_C09_FUZZTIME")
	if dur == "" {
		dur = "40s"
	}
	d, err := time.ParseDuration(dur)
	if err != nil {
		t.Fatalf("INCONCLUSIVE: bad VERIF_C09_FUZZTIME: %v", err)
	}
	out := outDir()
	env := []string{fuzzChildEnv + "=1"}
	for _, e := range os.Environ() {
		if !strings.HasPrefix(e, "VERIF_STATS=") {
			env = append(env, e)
		}
	}
	bin, instrumented := fuzzBinary()
	vstat.Note("native-fuzz:coverage-instrumented", instrumented)
	ctx, cancel := context.WithTimeout(context.Background(), d+4*time.Minute)
	defer cancel()
	cmd := exec.CommandContext(ctx, bin, "-test.run=^$", "-test.fuzz=^"+fuzzName+"$", "-test.fuzztime="+dur,
		"-test.fuzzcachedir="+filepath.Join(out, "fuzzcache"), "-test.parallel=2", "-test.timeout=0")
	cmd.Dir = out
	cmd.Env = env
	b, runErr := cmd.CombinedOutput()
	text := string(b)
	execs := 0
	if m := reExecs.FindAllStringSubmatch(text, -1); len(m) > 0 {
		execs, _ = strconv.Atoi(m[len(m)-1][1])
	}
	vstat.Class("native-fuzz-execs:"+targetName, int64(execs))
	vstat.Note("native-fuzz:"+targetName, fmt.Sprintf("%s, %d execs", dur, execs))
	if runErr == nil {
		return
	}
	tail := text
	if len(tail) > 6000 {
		tail = tail[len(tail)-6000:]
	}
	kept := ""
	if m := reCrasher.FindStringSubmatch(text); m != nil {
		src := m[1]
		if !filepath.IsAbs(src) {
			src = filepath.Join(out, src)
		}
		if raw, err := os.ReadFile(src); err == nil {
			kept = filepath.Join(out, "violations", t.Name()+"__"+filepath.Base(src)+".fuzz")
			_ = os.MkdirAll(filepath.Dir(kept), 0o755)
			_ = os.WriteFile(kept, raw, 0o644)
		}
	}
	if v := reViol.FindString(text); v != "" {
		if kept == "" {
			// failure on a seed corpus entry: the engine writes no file; keep the input from the message
			if m := reInput.FindStringSubmatch(text); m != nil {
				kept = filepath.Join(out, "violations", t.Name()+"__seed.json")
				writeCaseFile(kept, caseFile{Target: targetName, Hex: m[1], Note: v})
			}
		}
		t.Fatalf("%s\nnative fuzz crasher kept as %s\n%s", v, kept, tail)
	}
	if kept != "" && (strings.Contains(text, "C09 watchdog") || strings.Contains(text, "hung or terminated unexpectedly")) {
		// a worker died on the watchdog: confirm in isolation
		ienv := append(append([]string{}, env...), isoEnv+"="+targetName+":"+kept, isoOriginEnv+"="+t.Name())
		ictx, icancel := context.WithTimeout(context.Background(), 3*time.Minute)
		defer icancel()
		ic := exec.CommandContext(ictx, os.Args[0], "-test.run", "^TestReplayIsolated$", "-test.timeout", "150s")
		ic.Dir, ic.Env = out, ienv
		ib, _ := ic.CombinedOutput()
		if v := reViol.FindString(string(ib)); v != "" {
			t.Fatalf("%s\nnative fuzz crasher kept as %s\n%s", v, kept, string(ib))
		}
		t.Fatalf("INCONCLUSIVE: native fuzz worker of %s died and the input did not reproduce in isolation\n%s\n%s", fuzzName, string(ib), tail)
	}
	t.Fatalf("INCONCLUSIVE: native fuzz run of %s failed without a violation: %v\n%s", fuzzName, runErr, tail)
}
