package c09

// Native `go test -fuzz` targets (coverage-guided tier, THOROUGH only).
//
// Every C09 target is a function of one byte string (selector bytes choosing
// state / configuration / the generated history, then the hostile packet), so
// the same function serves as a fuzz target.  The driver (/verif/check) knows
// the convention:
//
//	both tiers   the seed corpus of every Fuzz* function runs as a plain test
//	             (`-test.run '^Fuzz'`): hostile constants, the repository's own
//	             test packets, valid packets behind fixed and generated
//	             histories, and 256 deterministic structure-aware rapid examples
//	             per target — with the per-case statistics of checkOne;
//	thorough     each Fuzz* function is fuzzed for the budget of
//	             lib/props.d/C09.json `fuzz` in a fresh run directory; a crasher
//	             (testdata/fuzz/FuzzXxx/<hash>) is re-run in isolation by the
//	             driver and, confirmed, is the replay unit of the violation.
//
// Quick never fuzzes (the engine cannot be pinned to a seed).  In fuzzing mode
// no per-case statistics are kept (millions of executions): violations only.

import (
	"encoding/hex"
	"flag"
	"fmt"
	"os"
	"path/filepath"
	"runtime/debug"
	"testing"

	"pgregory.net/rapid"

	"bngverif/internal/vstat"
)

// fuzzing reports whether this process is a fuzz coordinator or worker (-test.fuzz given).
func fuzzing() bool {
	f := flag.Lookup("test.fuzz")
	return f != nil && f.Value.String() != ""
}

func fuzzTarget(f *testing.F, name string) {
	tg := targets[name]
	if tg == nil {
		f.Fatalf("harness: unknown target %q", name)
	}
	currentTest = f.Name()
	for _, s := range fuzzSeeds(tg) {
		f.Add(s)
	}
	fz := fuzzing()
	if fz && inFuzzWorker() {
		// a fatal runtime error or a panic in a goroutine of the code under test kills the worker; the engine
		// discards the worker's stderr, so duplicate the crash report into a file next to the driver's log
		if cf, err := os.Create(filepath.Join(outDir(), fmt.Sprintf("worker-crash-%d.txt", os.Getpid()))); err == nil {
			_ = debug.SetCrashOutput(cf, debug.CrashOptions{})
		}
	}
	f.Fuzz(func(t *testing.T, data []byte) {
		currentTest, curT = f.Name(), t
		if !fz {
			// seed corpus / crasher file as a plain test; a crasher is re-run by the driver with what the worker
			// executed for it (steering around listed findings included)
			if os.Getenv("VERIF_FUZZ_CRASHER") != "" {
				data = steerFuzz(tg, data)
			}
			checkOne(t, tg, data, "fuzz-corpus")
			return
		}
		if len(data) > maxInput {
			data = data[:maxInput]
		}
		data = clip(steerFuzz(tg, data))
		r := invoke(tg, data)
		if r.panicked {
			if tg.cleanup != nil {
				tg.cleanup()
			}
			if sig := r.sig(tg); !vstat.IsListed(sig) {
				// the exact executed bytes (after steering) next to the engine's own crasher file
				writeCaseFile(filepath.Join(outDir(), "violations", currentTest+"__"+tg.name+".json"),
					caseFile{Target: tg.name, Sig: sig, Hex: hex.EncodeToString(data), Note: fmt.Sprint(r.val)})
			}
			vstat.Fail(t, r.sig(tg), "target %s panicked: %v\ninput (%d bytes, selectors included): %s\nstack:\n%s", tg.name, r.val, len(data), hex.EncodeToString(data), r.stack)
		}
	})
}

// fuzzSeeds is the seed corpus in f.Add order: hostile constants and valid packets (the repository's own test
// packets among them), then 256 deterministic structure-aware rapid examples (valid, mutated and random cases
// behind fixed and generated histories).
func fuzzSeeds(tg *target) [][]byte {
	if os.Getenv("VERIF_C09_FUZZ_SEEDS") == "first" {
		// sensitivity experiments only: a corpus of one entry, so that a crash must be DISCOVERED by the engine
		return tg.seeds()[:1]
	}
	o := append([][]byte(nil), tg.seeds()...)
	o = append(o, repoPackets[tg.name]...)
	if tg.dictSeeds != nil {
		o = append(o, tg.dictSeeds()...)
	}
	g := rapid.Custom(tg.gen)
	for i := 0; i < 256; i++ {
		o = append(o, g.Example(i))
	}
	return o
}

func fileExists(p string) bool {
	_, err := os.Stat(p)
	return err == nil
}
