package c09

// One native fuzz target per C09 target (keep in sync with the register() calls; TestReplaySanity checks the map).
// The driver runs every Fuzz* function: its seed corpus as a plain test in both tiers, `-test.fuzz` in the thorough tier.

import "testing"

// fuzzTargets maps Fuzz function names to target names.
var fuzzTargets = map[string]string{
	"FuzzPppoeParsePPPoEHeader": "pppoe.ParsePPPoEHeader",
	"FuzzPppoeParseTags":        "pppoe.ParseTags",
	"FuzzPppoeParseLCPPacket":   "pppoe.ParseLCPPacket",
	"FuzzPppoeParseLCPOptions":  "pppoe.ParseLCPOptions",
	"FuzzPppoeParsePADT":        "pppoe.ParsePADT",
	"FuzzPppoeParseEchoPacket":  "pppoe.ParseEchoPacket",
	"FuzzPppoeDiscovery":        "pppoe-discovery",
	"FuzzPppoeSession":          "pppoe-session",
	"FuzzLcpFsm":                "lcp-fsm",
	"FuzzIpcpFsm":               "ipcp-fsm",
	"FuzzIpv6cpFsm":             "ipv6cp-fsm",
	"FuzzAuthPap":               "auth-pap",
	"FuzzAuthChap":              "auth-chap",
	"FuzzDhcp4Handler":          "dhcp4-handler",
	"FuzzDhcp4Opt82":            "dhcp4-opt82",
	"FuzzDhcpv6ParseMessage":    "dhcpv6.ParseMessage",
	"FuzzDhcpv6ParseOptions":    "dhcpv6.ParseOptions",
	"FuzzDhcpv6ParseIANA":       "dhcpv6.ParseIANA",
	"FuzzDhcpv6ParseIAPD":       "dhcpv6.ParseIAPD",
	"FuzzDhcpv6ParseIAAddress":  "dhcpv6.ParseIAAddress",
	"FuzzDhcpv6ParseIAPrefix":   "dhcpv6.ParseIAPrefix",
	"FuzzDhcpv6ParseDUID":       "dhcpv6.ParseDUID",
	"FuzzDhcp6Handler":          "dhcp6-handler",
	"FuzzRadiusCoa":             "radius-coa",
	"FuzzRadiusClientParse":     "radius-client-parse",
	"FuzzHaDecodeSyncMessage":   "ha.DecodeSyncMessage",
	"FuzzHaSse":                 "ha-sse",
	"FuzzNatFtpAlg":             "nat-ftp-alg",
	"FuzzNatSipAlg":             "nat-sip-alg",
	"FuzzZtpParseVendorOptions": "ztp.parseVendorOptions",
	"FuzzZtpExtractNexusURL":    "ztp.extractNexusURL",
	"FuzzRadiusParseAttributes": "radius.parseAttributes",
}

func FuzzPppoeParsePPPoEHeader(f *testing.F) { fuzzTarget(f, "pppoe.ParsePPPoEHeader") }
func FuzzPppoeParseTags(f *testing.F)        { fuzzTarget(f, "pppoe.ParseTags") }
func FuzzPppoeParseLCPPacket(f *testing.F)   { fuzzTarget(f, "pppoe.ParseLCPPacket") }
func FuzzPppoeParseLCPOptions(f *testing.F)  { fuzzTarget(f, "pppoe.ParseLCPOptions") }
func FuzzPppoeParsePADT(f *testing.F)        { fuzzTarget(f, "pppoe.ParsePADT") }
func FuzzPppoeParseEchoPacket(f *testing.F)  { fuzzTarget(f, "pppoe.ParseEchoPacket") }
func FuzzPppoeDiscovery(f *testing.F)        { fuzzTarget(f, "pppoe-discovery") }
func FuzzPppoeSession(f *testing.F)          { fuzzTarget(f, "pppoe-session") }
func FuzzLcpFsm(f *testing.F)                { fuzzTarget(f, "lcp-fsm") }
func FuzzIpcpFsm(f *testing.F)               { fuzzTarget(f, "ipcp-fsm") }
func FuzzIpv6cpFsm(f *testing.F)             { fuzzTarget(f, "ipv6cp-fsm") }
func FuzzAuthPap(f *testing.F)               { fuzzTarget(f, "auth-pap") }
func FuzzAuthChap(f *testing.F)              { fuzzTarget(f, "auth-chap") }
func FuzzDhcp4Handler(f *testing.F)          { fuzzTarget(f, "dhcp4-handler") }
func FuzzDhcp4Opt82(f *testing.F)            { fuzzTarget(f, "dhcp4-opt82") }
func FuzzDhcpv6ParseMessage(f *testing.F)    { fuzzTarget(f, "dhcpv6.ParseMessage") }
func FuzzDhcpv6ParseOptions(f *testing.F)    { fuzzTarget(f, "dhcpv6.ParseOptions") }
func FuzzDhcpv6ParseIANA(f *testing.F)       { fuzzTarget(f, "dhcpv6.ParseIANA") }
func FuzzDhcpv6ParseIAPD(f *testing.F)       { fuzzTarget(f, "dhcpv6.ParseIAPD") }
func FuzzDhcpv6ParseIAAddress(f *testing.F)  { fuzzTarget(f, "dhcpv6.ParseIAAddress") }
func FuzzDhcpv6ParseIAPrefix(f *testing.F)   { fuzzTarget(f, "dhcpv6.ParseIAPrefix") }
func FuzzDhcpv6ParseDUID(f *testing.F)       { fuzzTarget(f, "dhcpv6.ParseDUID") }
func FuzzDhcp6Handler(f *testing.F)          { fuzzTarget(f, "dhcp6-handler") }
func FuzzRadiusCoa(f *testing.F)             { fuzzTarget(f, "radius-coa") }
func FuzzRadiusClientParse(f *testing.F)     { fuzzTarget(f, "radius-client-parse") }
func FuzzHaDecodeSyncMessage(f *testing.F)   { fuzzTarget(f, "ha.DecodeSyncMessage") }
func FuzzHaSse(f *testing.F)                 { fuzzTarget(f, "ha-sse") }
func FuzzNatFtpAlg(f *testing.F)             { fuzzTarget(f, "nat-ftp-alg") }
func FuzzNatSipAlg(f *testing.F)             { fuzzTarget(f, "nat-sip-alg") }
func FuzzZtpParseVendorOptions(f *testing.F) { fuzzTarget(f, "ztp.parseVendorOptions") }
func FuzzZtpExtractNexusURL(f *testing.F)    { fuzzTarget(f, "ztp.extractNexusURL") }
func FuzzRadiusParseAttributes(f *testing.F) { fuzzTarget(f, "radius.parseAttributes") }
