package c14

import (
	"fmt"
	"testing"
	"time"

	"github.com/codelaboratoryltd/bng/pkg/ha"
	"pgregory.net/rapid"

	"bngverif/internal/vstat"
)

func genCfg() *rapid.Generator[cfg] {
	return rapid.Custom(func(t *rapid.T) cfg {
		c := cfg{Role: ha.RoleStandby}
		if rapid.IntRange(0, 19).Draw(t, "activeRole") == 0 {
			c.Role = ha.RoleActive // inert by construction (a node configured active never promotes); kept as a small class
		}
		c.Delay = rapid.SampledFrom([]time.Duration{1500 * ms, 2 * time.Second, 3 * time.Second, 10 * time.Second}).Draw(t, "delay")
		c.Grace = rapid.SampledFrom([]time.Duration{0, 0, 500 * ms, time.Second, 2 * time.Second, 5 * time.Second}).Draw(t, "grace")
		// failback delay always exceeds the grace period (as in the shipped defaults 30 s / 5 s)
		c.FbDelay = c.Grace + rapid.SampledFrom([]time.Duration{time.Second, 3 * time.Second, 30 * time.Second}).Draw(t, "fbExtra")
		c.FbEnabled = rapid.IntRange(0, 3).Draw(t, "fbEnabled") > 0
		th := rapid.SampledFrom([][2]int{{1, 1}, {1, 1}, {1, 1}, {2, 1}, {1, 2}, {3, 2}}).Draw(t, "thresholds")
		c.FailTh, c.RecTh = th[0], th[1]
		return c
	})
}

func fixedDeltas(c cfg) []time.Duration {
	d := []time.Duration{c.Delay - ms, c.Delay, c.Delay + ms, c.FbDelay - ms, c.FbDelay, c.FbDelay + ms, time.Second, ms}
	if c.Grace > 0 {
		d = append(d, c.Grace, c.Grace+ms)
	}
	return d
}

// genOp draws one op; weights index: fail, ok, adv, advTo, forceFailover, forceFailback, cbFail, cbOK.
func genOp(t *rapid.T, c cfg, w [8]int) op {
	tot := 0
	for _, x := range w {
		tot += x
	}
	r := rapid.IntRange(0, tot-1).Draw(t, "op")
	k := 0
	for r >= w[k] {
		r -= w[k]
		k++
	}
	nChecks := func(th int) int {
		if th == 1 || rapid.IntRange(0, 4).Draw(t, "short") > 0 {
			return th
		}
		return rapid.IntRange(1, th-1).Draw(t, "n")
	}
	switch opKind(k) {
	case opFail:
		return op{K: opFail, N: nChecks(c.FailTh)}
	case opOK:
		return op{K: opOK, N: nChecks(c.RecTh)}
	case opAdv:
		return op{K: opAdv, D: rapid.SampledFrom(fixedDeltas(c)).Draw(t, "delta")}
	case opAdvTo:
		return op{K: opAdvTo, Target: target(rapid.IntRange(0, 3).Draw(t, "target")),
			Off: rapid.SampledFrom([]time.Duration{-ms, 0, ms, -ms, ms, time.Second}).Draw(t, "off")}
	default:
		return op{K: opKind(k)}
	}
}

func steer(rt *rapid.T) execOpts {
	// Most cases steer around the listed ForceFailover-in-normal finding (it freezes the
	// controller for the rest of the history); one in six still exercises it.
	return execOpts{steerStuck: vstat.IsListed(sigStuckForce) && rapid.IntRange(0, 5).Draw(rt, "exerciseKF") > 0}
}

// TestPropRandom: general histories over the whole alphabet and all configurations.
func TestPropRandom(t *testing.T) {
	vstat.Checks(8000, 300000)
	rapid.Check(t, func(rt *rapid.T) {
		c := genCfg().Draw(rt, "cfg")
		n := rapid.IntRange(3, 24).Draw(rt, "len")
		var ops []op
		for len(ops) < n {
			o := genOp(rt, c, [8]int{18, 18, 18, 24, 6, 5, 8, 2})
			ops = append(ops, o)
			// flap at the boundary: after reaching downAt+delay(+-1ms) usually report a recovery
			if o.K == opAdvTo && o.Target == tgFailover && o.Off != time.Second && rapid.IntRange(0, 2).Draw(rt, "flap") > 0 {
				ops = append(ops, op{K: opOK, N: c.RecTh})
			}
		}
		r := runCase(t, c, ops, steer(rt))
		report(rt, c, ops, r, "role:"+string(c.Role), fmt.Sprintf("grace>0:%v", c.Grace > 0), fmt.Sprintf("failback:%v", c.FbEnabled))
	})
}

// TestPropBoundary: flapping around the failover-delay boundary: down / up /
// advance-to-boundary(-1,0,+1 ms) / 1 ms steps, with callback failures and operator commands mixed in.
func TestPropBoundary(t *testing.T) {
	vstat.Checks(8000, 300000)
	rapid.Check(t, func(rt *rapid.T) {
		c := genCfg().Draw(rt, "cfg")
		c.Role = ha.RoleStandby
		n := rapid.IntRange(4, 20).Draw(rt, "len")
		var ops []op
		for len(ops) < n {
			switch rapid.IntRange(0, 11).Draw(rt, "k") {
			case 0, 1, 2:
				ops = append(ops, op{K: opFail, N: c.FailTh})
			case 3, 4:
				ops = append(ops, op{K: opOK, N: c.RecTh})
			case 5, 6, 7:
				ops = append(ops, op{K: opAdvTo, Target: tgFailover, Off: rapid.SampledFrom([]time.Duration{-2 * ms, -ms, 0, ms}).Draw(rt, "off")})
				if rapid.Bool().Draw(rt, "thenUp") {
					ops = append(ops, op{K: opOK, N: c.RecTh})
					if rapid.Bool().Draw(rt, "thenDown") {
						ops = append(ops, op{K: opFail, N: c.FailTh})
					}
				}
			case 8:
				ops = append(ops, op{K: opAdv, D: rapid.SampledFrom([]time.Duration{ms, 2 * ms, c.Delay - ms, c.Delay, c.Grace + ms}).Draw(rt, "d")})
			case 9:
				ops = append(ops, op{K: opAdvTo, Target: tgPromote, Off: rapid.SampledFrom([]time.Duration{-ms, 0, ms}).Draw(rt, "off")})
			case 10:
				ops = append(ops, op{K: opCbFail})
			default:
				ops = append(ops, op{K: rapid.SampledFrom([]opKind{opForceFailover, opForceFailback}).Draw(rt, "force")})
			}
		}
		r := runCase(t, c, ops, steer(rt))
		report(rt, c, ops, r, fmt.Sprintf("grace>0:%v", c.Grace > 0))
	})
}

// TestPropFailback: histories that first promote the node by construction and
// then explore the failback side (partner flapping around the failback delay and
// during the failback grace period, failing callbacks, operator commands while failed over).
func TestPropFailback(t *testing.T) {
	vstat.Checks(8000, 300000)
	rapid.Check(t, func(rt *rapid.T) {
		c := genCfg().Draw(rt, "cfg")
		c.Role = ha.RoleStandby
		if rapid.IntRange(0, 9).Draw(rt, "fbOn") > 0 {
			c.FbEnabled = true
		}
		ops := []op{{K: opFail, N: c.FailTh}, {K: opAdvTo, Target: tgPromote, Off: ms}}
		n := rapid.IntRange(3, 20).Draw(rt, "len")
		for len(ops) < n+2 {
			switch rapid.IntRange(0, 12).Draw(rt, "k") {
			case 0, 1, 2:
				ops = append(ops, op{K: opOK, N: c.RecTh})
			case 3, 4:
				ops = append(ops, op{K: opFail, N: c.FailTh})
			case 5, 6:
				ops = append(ops, op{K: opAdvTo, Target: tgFailback, Off: rapid.SampledFrom([]time.Duration{-ms, 0, ms, c.Grace / 2}).Draw(rt, "off")})
			case 7:
				ops = append(ops, op{K: opAdvTo, Target: tgDemote, Off: rapid.SampledFrom([]time.Duration{-ms, 0, ms}).Draw(rt, "off")})
			case 8, 9:
				ops = append(ops, op{K: opAdv, D: rapid.SampledFrom(fixedDeltas(c)).Draw(rt, "d")})
			case 10:
				ops = append(ops, op{K: opCbFail})
			case 11:
				ops = append(ops, op{K: opAdvTo, Target: target(rapid.IntRange(0, 1).Draw(rt, "t")), Off: rapid.SampledFrom([]time.Duration{-ms, 0, ms}).Draw(rt, "off")})
			default:
				ops = append(ops, op{K: rapid.SampledFrom([]opKind{opForceFailover, opForceFailback}).Draw(rt, "force")})
			}
		}
		r := runCase(t, c, ops, steer(rt))
		report(rt, c, ops, r, fmt.Sprintf("grace>0:%v", c.Grace > 0), fmt.Sprintf("failback:%v", c.FbEnabled))
	})
}

// ---- bounded-exhaustive exploration with state fingerprinting ----

func exhaustiveConfigs() []cfg {
	var out []cfg
	for _, g := range []time.Duration{2 * time.Second, 0} {
		for _, fb := range []bool{true, false} {
			out = append(out, cfg{Role: ha.RoleStandby, Delay: 3 * time.Second, Grace: g, FbDelay: 4 * time.Second, FbEnabled: fb, FailTh: 1, RecTh: 1})
		}
	}
	out = append(out, cfg{Role: ha.RoleActive, Delay: 3 * time.Second, Grace: 2 * time.Second, FbDelay: 4 * time.Second, FbEnabled: true, FailTh: 1, RecTh: 1})
	// grace period longer than the failover delay; and the shipped 2:1:6 proportions (10 s / 5 s / 30 s) scaled to 1 s ticks
	out = append(out, cfg{Role: ha.RoleStandby, Delay: 2 * time.Second, Grace: 3 * time.Second, FbDelay: 5 * time.Second, FbEnabled: true, FailTh: 1, RecTh: 1})
	out = append(out, cfg{Role: ha.RoleStandby, Delay: 2 * time.Second, Grace: time.Second, FbDelay: 6 * time.Second, FbEnabled: true, FailTh: 1, RecTh: 1})
	return out
}

func alphabet(c cfg) []op {
	a := []op{
		{K: opFail, N: 1}, {K: opOK, N: 1},
		{K: opAdv, D: c.Delay - ms}, {K: opAdv, D: c.Delay}, {K: opAdv, D: c.Delay + ms},
		{K: opAdv, D: c.FbDelay - ms}, {K: opAdv, D: c.FbDelay + ms},
		{K: opAdv, D: time.Second},
		{K: opForceFailover}, {K: opForceFailback}, {K: opCbFail}, {K: opCbOK},
	}
	if c.Grace > 0 {
		a = append(a, op{K: opAdv, D: c.Grace})
	}
	return a
}

// TestPropExhaustive: every sequence over the event alphabet up to the depth
// bound, breadth first; a prefix is extended only if the (controller, monitor,
// oracle) state it reaches has not been reached by an earlier (hence not longer) prefix.
// The quiet-horizon (stuck) clause is evaluated at the end of every executed sequence.
func TestPropExhaustive(t *testing.T) {
	depth := 8 // the statement's quantifier
	if vstat.Thorough() {
		depth = 10
	}
	cfgs := exhaustiveConfigs()
	si, sn := vstat.Shard()
	complete := true
	for ci, c := range cfgs {
		if ci%sn != si {
			continue
		}
		alpha := alphabet(c)
		seen := map[string]struct{}{}
		frontier := [][]op{{}}
		executed, kfHits := 0, 0
		for d := 1; d <= depth && len(frontier) > 0; d++ {
			var next [][]op
			for _, prefix := range frontier {
				for _, sym := range alpha {
					seq := append(append(make([]op, 0, len(prefix)+1), prefix...), sym)
					r := runCase(t, c, seq, execOpts{})
					executed++
					hit := r.sig != ""
					report(t, c, seq, r, fmt.Sprintf("exh-depth:%d", d))
					if hit {
						kfHits++
						continue // state after a (listed) violation is undefined: do not extend
					}
					if _, dup := seen[r.fp]; dup {
						continue
					}
					seen[r.fp] = struct{}{}
					next = append(next, seq)
				}
			}
			frontier = next
		}
		vstat.Note(fmt.Sprintf("exhaustive[%s]", c), map[string]any{"depth": depth, "alphabet": len(alpha), "sequences_executed": executed, "distinct_states": len(seen), "known_finding_sequences": kfHits})
	}
	vstat.Exhaustive(complete)
}
