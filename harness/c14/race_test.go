package c14

// Timer-fire races (DESIGN §4, second bullet): a time.AfterFunc function that
// has already fired and waits for the controller mutex, racing a health event
// or an operator command for that mutex.  testing/synctest cannot order these
// (a goroutine blocked on a sync.Mutex is not durably blocked), so this file
// runs in REAL time with short delays and makes the schedule harness-owned:
// the harness takes the controller mutex through the verif hook
// VerifC14Lock, lets the contenders queue on it in a generated order, and
// releases it.
//
// The verdict never depends on a timing margin.  Every clause below is decided
// from a totally ordered log (sequence numbers and monotonic timestamps taken
// under one harness mutex) using only facts that hold for every interleaving:
//   - a partner-down is logged (by the monitor's first handler) before the
//     controller sees it, so a timer armed for it fires no earlier than
//     logged time + FailoverDelay;
//   - a recovery counts as "before the delay" only if its delivery to the
//     controller had RETURNED before down + FailoverDelay;
//   - a `canceled` event is emitted inside the recovery's delivery, and the
//     monitor delivers one event at a time, so a later promotion needs a
//     partner-down logged after that event;
//   - the failback health check happens under the controller mutex no earlier
//     than promotion + FailbackDelay + GracePeriod, and not while the harness
//     holds the mutex.
// If a sleep was too short for a timer to have fired, the case is merely less
// interesting (the contenders did not contend); it is never a false alarm.

import (
	"errors"
	"fmt"
	"strings"
	"sync"
	"sync/atomic"
	"testing"
	"time"

	"github.com/codelaboratoryltd/bng/pkg/ha"
	"go.uber.org/zap"
	"pgregory.net/rapid"

	"bngverif/internal/vstat"
)

const (
	sigRacePromoAfterCancel  = "C14/race/promotion/after-canceled-without-new-down"
	sigRacePromoNotSustained = "C14/race/promotion/partner-not-down-for-delay"
	// the same clause, narrowed to one shape: the pending failover was announced canceled, a new partner-down was
	// reported after that, and the promotion ran at once (the canceled episode's delay had elapsed, the new one's had not)
	sigRacePromoStaleTimer = "C14/race/promotion/partner-not-down-for-delay/stale-timer-after-canceled-and-new-down"
	// narrowed: an accepted ForceFailover issued after the cancellation ran its transition (own callback, ok or failed),
	// and the canceled episode's timer function runs the transition a second time (second callback, second completed event)
	sigRacePromoDupForced = "C14/race/promotion/after-canceled-without-new-down/repeats-forced-failover"
	sigRaceRoleNoCb       = "C14/race/role/changed-without-successful-callback"
	sigRaceRoleBeforeCb   = "C14/race/role/changed-before-callback-returned"
	sigRaceCompletedMore  = "C14/race/events/completed-more-than-promotions"
	sigRaceFailbackDown   = "C14/race/failback/completed-while-partner-down"
	sigRacePanic          = "C14/race/panic"
)

type raceKind uint8

const (
	rkFailoverTimerVsUp   raceKind = iota // failover timer function vs partner-up
	rkFailbackTimerVsDown                 // failback timer function vs partner-down
	rkFailoverGraceVsUp                   // executeFailover's grace sleep vs partner-up
	rkFailbackGraceVsDown                 // executeFailback's post-grace re-check vs partner-down
)

func (k raceKind) String() string {
	return [...]string{"failover-timer-vs-up", "failback-timer-vs-down", "failover-grace-vs-up", "failback-grace-vs-down"}[k]
}

type fstepKind uint8

const (
	fsDown fstepKind = iota
	fsUp
	fsForceFailover
	fsForceFailback
	fsCbFail
	fsSleep
)

type fstep struct {
	K fstepKind
	D time.Duration
}

func (s fstep) String() string {
	switch s.K {
	case fsDown:
		return "down"
	case fsUp:
		return "up"
	case fsForceFailover:
		return "forceFailover"
	case fsForceFailback:
		return "forceFailback"
	case fsCbFail:
		return "cbFailNext"
	default:
		return fmt.Sprintf("sleep(%v)", s.D)
	}
}

// raceCase is one generated schedule.
type raceCase struct {
	Delay, FbDelay, Grace time.Duration
	FbEnabled             bool
	Kind                  raceKind
	EventFirst            bool // the health event is queued on the mutex before the timer function (else after it)
	Third                 fstepKind
	HasThird              bool // an operator command queues on the mutex too
	ThirdBeforeEvent      bool
	CbFailFirst           bool // the first role-change callback of the race phase fails
	Follow                []fstep
}

func (c raceCase) String() string {
	s := make([]string, len(c.Follow))
	for i, f := range c.Follow {
		s[i] = f.String()
	}
	third := "-"
	if c.HasThird {
		third = c.Third.String()
		if c.ThirdBeforeEvent {
			third += "(before event)"
		} else {
			third += "(after event)"
		}
	}
	return fmt.Sprintf("delay=%v fbDelay=%v grace=%v failback=%v race=%s eventFirst=%v third=%s cbFailFirst=%v follow=[%s]",
		c.Delay, c.FbDelay, c.Grace, c.FbEnabled, c.Kind, c.EventFirst, third, c.CbFailFirst, strings.Join(s, " "))
}

func (k fstepKind) String() string { return fstep{K: k}.String() }

type rrKind uint8

const (
	rrSend      rrKind = iota // harness hands a health-check outcome to the monitor goroutine
	rrHealth                  // monitor reported partner-down/up (logged before the controller's handler runs)
	rrDelivered               // the monitor's delivery (all handlers, incl. the controller's) returned
	rrCb                      // role-change callback invoked (logged just before it returns)
	rrEvent                   // failover event emitted
	rrForceIssue
	rrForceRet
	rrLockAcq
	rrLockRel
	rrRole // CurrentRole() sampled by the harness (logged when it differs from the previous sample)
	rrNote
)

type rrec struct {
	at         time.Duration
	k          rrKind
	down       bool // rrHealth; rrSend/rrDelivered: outcome was a failed check
	to         ha.Role
	ok         bool
	roleInside ha.Role
	role       ha.Role
	typ        ha.FailoverEventType
	id         int
	failover   bool
	err        error
	note       string
}

func (r rrec) String() string {
	switch r.k {
	case rrSend:
		return fmt.Sprintf("send check(fail=%v) to monitor", r.down)
	case rrHealth:
		if r.down {
			return "monitor reports PARTNER-DOWN"
		}
		return "monitor reports PARTNER-UP"
	case rrDelivered:
		return fmt.Sprintf("delivery of check(fail=%v) returned", r.down)
	case rrCb:
		return fmt.Sprintf("callback(%s) ok=%v CurrentRole() inside=%s", r.to, r.ok, r.roleInside)
	case rrEvent:
		return "event " + string(r.typ)
	case rrForceIssue:
		return fmt.Sprintf("op#%d issued (forceFailover=%v)", r.id, r.failover)
	case rrForceRet:
		return fmt.Sprintf("op#%d returned err=%v", r.id, r.err)
	case rrLockAcq:
		return "harness holds controller mutex"
	case rrLockRel:
		return "harness releases controller mutex"
	case rrRole:
		return fmt.Sprintf("CurrentRole() = %s", r.role)
	default:
		return r.note
	}
}

type racer struct {
	rc  raceCase
	mon *ha.HealthMonitor
	fc  *ha.FailoverController
	t0  time.Time

	mu       sync.Mutex
	log      []rrec
	failNext int
	lastRole ha.Role

	evq      chan bool
	inflight atomic.Int64 // outstanding monitor deliveries and operator-command goroutines
	wg       sync.WaitGroup
	nextOp   int
}

func (x *racer) rec(r rrec) {
	x.mu.Lock()
	r.at = time.Since(x.t0)
	x.log = append(x.log, r)
	x.mu.Unlock()
}

func (x *racer) onHealth(e ha.HealthEvent) {
	if e.Type == ha.HealthEventPartnerDown || e.Type == ha.HealthEventPartnerUp {
		x.rec(rrec{k: rrHealth, down: e.Type == ha.HealthEventPartnerDown})
	}
}

// onEvent must not call into the controller (some events are emitted with its mutex held).
func (x *racer) onEvent(e ha.FailoverEvent) { x.rec(rrec{k: rrEvent, typ: e.Type}) }

func (x *racer) callback(to ha.Role) error {
	inside := x.fc.CurrentRole() // the controller holds no lock while calling the callback
	x.mu.Lock()
	defer x.mu.Unlock()
	ok := true
	if x.failNext > 0 {
		x.failNext--
		ok = false
	}
	x.log = append(x.log, rrec{at: time.Since(x.t0), k: rrCb, to: to, ok: ok, roleInside: inside})
	if !ok {
		return errors.New("verif: scripted role change failure")
	}
	return nil
}

// send hands one health-check outcome to the (single) monitor goroutine; like
// the production monitor loop it delivers one outcome at a time.
func (x *racer) send(ok bool) {
	x.inflight.Add(1)
	x.rec(rrec{k: rrSend, down: !ok})
	x.evq <- ok
}

func (x *racer) monitorLoop() {
	defer x.wg.Done()
	for ok := range x.evq {
		x.mon.VerifRecord(ok)
		x.rec(rrec{k: rrDelivered, down: !ok})
		x.inflight.Add(-1)
	}
}

// force issues an operator command on its own goroutine (an API handler).
func (x *racer) force(failover bool) {
	id := x.nextOp
	x.nextOp++
	x.inflight.Add(1)
	x.wg.Add(1)
	x.rec(rrec{k: rrForceIssue, id: id, failover: failover})
	go func() {
		defer x.wg.Done()
		var err error
		if failover {
			err = x.fc.ForceFailover("verif")
		} else {
			err = x.fc.ForceFailback("verif")
		}
		x.rec(rrec{k: rrForceRet, id: id, failover: failover, err: err})
		x.inflight.Add(-1)
	}()
}

// sample logs CurrentRole() when it changed.  Never call while the harness holds the controller mutex.
func (x *racer) sample() {
	r := x.fc.CurrentRole()
	x.mu.Lock()
	if r != x.lastRole {
		x.lastRole = r
		x.log = append(x.log, rrec{at: time.Since(x.t0), k: rrRole, role: r})
	}
	x.mu.Unlock()
}

func (x *racer) waitIdle(bound time.Duration) bool {
	end := time.Now().Add(bound)
	for x.inflight.Load() != 0 {
		if time.Now().After(end) {
			return false
		}
		time.Sleep(100 * time.Microsecond)
	}
	return true
}

func (x *racer) waitState(want ha.FailoverState, bound time.Duration) bool {
	end := time.Now().Add(bound)
	for x.fc.State() != want {
		if time.Now().After(end) {
			return false
		}
		time.Sleep(200 * time.Microsecond)
	}
	x.sample()
	return true
}

func sleepUntil(t time.Time) {
	if d := time.Until(t); d > 0 {
		time.Sleep(d)
	}
}

type raceResult struct {
	sig, msg string
	skipped  string // non-empty: a bounded poll expired; the case is not judged
	trace    []string
	classes  []string
}

const (
	raceMargin    = 1500 * time.Microsecond // after a timer's deadline, before assuming its function waits for the mutex
	raceQueueGap  = 300 * time.Microsecond  // between starting two contenders, so that they queue in that order
	racePollBound = 500 * time.Millisecond
)

func (x *racer) counts() (nonRole, promotions, completed int) {
	x.mu.Lock()
	defer x.mu.Unlock()
	for _, r := range x.log {
		if r.k != rrRole {
			nonRole++
		}
		if r.k == rrCb && r.ok && r.to == ha.RoleActive {
			promotions++
		}
		if r.k == rrEvent && r.typ == ha.FailoverEventCompleted {
			completed++
		}
	}
	return
}

// runRace executes one schedule in real time and judges the log.
func runRace(rc raceCase) (res *raceResult) {
	res = &raceResult{}
	logger := zap.NewNop()
	mon := ha.NewHealthMonitor(ha.HealthConfig{CheckInterval: 5 * time.Second, Timeout: 3 * time.Second, FailureThreshold: 1, RecoveryThreshold: 1},
		&ha.PartnerInfo{NodeID: "partner", Endpoint: "192.0.2.1:9000"}, logger)
	fc := ha.NewFailoverController(ha.FailoverConfig{Enabled: true, FailoverDelay: rc.Delay, FailbackDelay: rc.FbDelay, FailbackEnabled: rc.FbEnabled, GracePeriod: rc.Grace},
		"verif-node", ha.RoleStandby, 50, mon, logger)
	x := &racer{rc: rc, mon: mon, fc: fc, t0: time.Now(), lastRole: ha.RoleStandby, evq: make(chan bool, 16)}
	mon.OnHealthChange(x.onHealth) // registered before Start(): runs before the controller's handler
	fc.SetRoleChangeCallback(x.callback)
	fc.OnFailoverEvent(x.onEvent)
	if err := fc.Start(); err != nil {
		res.skipped = "start: " + err.Error()
		return
	}
	x.wg.Add(1)
	go x.monitorLoop()
	held := false
	defer func() {
		if r := recover(); r != nil && res.sig == "" {
			res.sig, res.msg = sigRacePanic, fmt.Sprint("panic: ", r)
		}
		if held {
			fc.VerifC14Unlock()
		}
		close(x.evq)
		fc.Stop()
		x.wg.Wait()
		if res.skipped != "" { // let whatever is still in flight end before the next case starts
			time.Sleep(rc.Delay + rc.FbDelay + 2*rc.Grace + 5*ms)
		}
		x.mu.Lock()
		for _, r := range x.log {
			res.trace = append(res.trace, fmt.Sprintf("t=%-10v %s", r.at, r))
		}
		x.mu.Unlock()
	}()
	skip := func(why string) *raceResult { res.skipped = why; return res }

	// ---- prelude: arm the timer that is going to race
	x.send(false)
	if !x.waitIdle(racePollBound) {
		return skip("prelude: partner-down not delivered")
	}
	failbackSide := rc.Kind == rkFailbackTimerVsDown || rc.Kind == rkFailbackGraceVsDown
	if failbackSide {
		if !x.waitState(ha.FailoverStateComplete, racePollBound) {
			return skip("prelude: not promoted")
		}
		x.send(true)
		if !x.waitIdle(racePollBound) {
			return skip("prelude: partner-up not delivered")
		}
	}
	fo, fb := fc.VerifC14Deadlines()
	T := fo
	if failbackSide {
		T = fb
	}
	if rc.Kind == rkFailoverGraceVsUp || rc.Kind == rkFailbackGraceVsDown {
		sleepUntil(T.Add(rc.Grace / 2)) // the transition is (normally) in its grace sleep now
		T = T.Add(rc.Grace)
	}
	if rc.CbFailFirst {
		x.mu.Lock()
		x.failNext++
		x.mu.Unlock()
	}

	// ---- the race: hold the controller mutex across the instant T at which the
	// timer function (or the post-grace re-check) wants it
	fc.VerifC14Lock()
	held = true
	x.rec(rrec{k: rrLockAcq})
	contenders := func() {
		// failover side: the racing event is a recovery (check ok); failback side: a failure
		event := func() { x.send(!failbackSide) }
		third := func() {
			if rc.HasThird {
				x.force(rc.Third == fsForceFailover)
			}
		}
		if rc.ThirdBeforeEvent {
			third()
			time.Sleep(raceQueueGap)
			event()
		} else {
			event()
			time.Sleep(raceQueueGap)
			third()
		}
	}
	if rc.EventFirst {
		contenders()
		sleepUntil(T.Add(raceMargin))
	} else {
		sleepUntil(T.Add(raceMargin))
		contenders()
	}
	time.Sleep(2 * raceQueueGap)
	x.rec(rrec{k: rrLockRel})
	held = false
	fc.VerifC14Unlock()

	// ---- what follows
	for _, s := range rc.Follow {
		switch s.K {
		case fsDown:
			x.send(false)
		case fsUp:
			x.send(true)
		case fsForceFailover:
			x.force(true)
		case fsForceFailback:
			x.force(false)
		case fsCbFail:
			x.mu.Lock()
			x.failNext++
			x.mu.Unlock()
		case fsSleep:
			time.Sleep(s.D)
		}
		x.sample()
	}

	// ---- quiescence: bounded poll; expiry = the case is skipped, never a violation
	end := time.Now().Add(racePollBound)
	stable, lastN := 0, -1
	for {
		x.sample()
		st := fc.State()
		fo, fb := fc.VerifC14Deadlines()
		now := time.Now()
		n, promotions, completed := x.counts()
		_, statCompleted, _, _ := fc.Stats()
		quiet := (st == ha.FailoverStateNormal || st == ha.FailoverStateComplete) && x.inflight.Load() == 0 &&
			now.After(fo.Add(rc.Grace+ms)) && now.After(fb.Add(rc.Grace+ms)) &&
			completed >= promotions && statCompleted == uint64(completed)
		if quiet && n == lastN {
			stable++
			if stable >= 3 {
				break
			}
		} else {
			stable = 0
		}
		lastN = n
		if now.After(end) {
			return skip(fmt.Sprintf("quiescence poll expired: state=%s inflight=%d promotions=%d completed=%d/%d", st, x.inflight.Load(), promotions, completed, statCompleted))
		}
		time.Sleep(500 * time.Microsecond)
	}
	finalRole := fc.CurrentRole()
	x.judge(res, finalRole)
	return res
}

// judge applies the clauses of the statement to the log.
func (x *racer) judge(res *raceResult, finalRole ha.Role) {
	x.mu.Lock()
	defer x.mu.Unlock()
	rc, log := x.rc, x.log
	fail := func(sig, format string, a ...any) {
		if res.sig == "" {
			res.sig, res.msg = sig, fmt.Sprintf(format, a...)
		}
	}
	cls := map[string]bool{}

	// Accepted ForceFailover commands (known post hoc).  The transition an accepted command causes calls the
	// callback once, some time after the command was issued; which call that is cannot be observed, so every
	// callback(active) from the command's issue up to and including the first one after its return is exempt
	// from the automatic-promotion clause (lenient: may miss, cannot accuse).
	type forceSpan struct{ from, to int }
	var forceSpans []forceSpan
	for i, r := range log {
		if r.k != rrForceRet || !r.failover || r.err != nil {
			continue
		}
		sp := forceSpan{from: -1, to: len(log)}
		for j := 0; j < i; j++ {
			if log[j].k == rrForceIssue && log[j].id == r.id {
				sp.from = j
			}
		}
		for j := i + 1; j < len(log); j++ {
			if log[j].k == rrCb && log[j].to == ha.RoleActive {
				sp.to = j
				break
			}
		}
		forceSpans = append(forceSpans, sp)
	}
	isForced := func(s int) bool {
		for _, sp := range forceSpans {
			if sp.from < s && s <= sp.to {
				return true
			}
		}
		return false
	}
	type hold struct{ acq, rel time.Duration }
	var holds []hold
	for _, r := range log {
		switch r.k {
		case rrLockAcq:
			holds = append(holds, hold{acq: r.at, rel: -1})
		case rrLockRel:
			holds[len(holds)-1].rel = r.at
		}
	}
	// deliveredAt[i] = time at which the delivery of the health event logged at i returned (-1: never)
	deliveredAt := func(i int) time.Duration {
		for j := i + 1; j < len(log); j++ {
			if log[j].k == rrDelivered {
				return log[j].at
			}
		}
		return -1
	}

	role := ha.RoleStandby // role established by the successful callbacks so far
	promotions, completed := 0, 0
	lastCanceled := -1
	lastPromotionAt := time.Duration(-1)
	lastForcedCb := -1 // last exempt callback(active)
	stalePossible := false
	for s, r := range log {
		switch r.k {
		case rrEvent:
			switch r.typ {
			case ha.FailoverEventCanceled:
				lastCanceled = s
				// Necessary for a canceled episode's timer function to be still around (waiting for the mutex, or
				// not yet scheduled): the cancellation came after that episode's delay had elapsed - otherwise
				// Stop() succeeded.  When it runs cannot be observed, so the flag stays.  Narrows the two listed shapes.
				if elapsedBefore(log, s, r.at-rc.Delay) {
					stalePossible = true
				}
				cls["canceled"] = true
			case ha.FailoverEventCompleted:
				completed++
				// "each promotion emits exactly one completed event"
				if completed > promotions {
					fail(sigRaceCompletedMore, "%d completed events for %d promotions (log #%d)", completed, promotions, s)
				}
			}
		case rrRole:
			// "the node's reported role changes only after the role-change callback succeeded"
			if r.role != ha.RoleStandby {
				seen := false
				for _, p := range log[:s] {
					if p.k == rrCb && p.ok && p.to == r.role {
						seen = true
					}
				}
				if !seen {
					fail(sigRaceRoleNoCb, "CurrentRole() reported %s (log #%d) with no successful callback(%s) before", r.role, s, r.role)
				}
			}
		case rrCb:
			if r.roleInside == r.to && role != r.to {
				fail(sigRaceRoleBeforeCb, "CurrentRole() already reported %s while callback(%s) was running (log #%d)", r.roleInside, r.to, s)
			}
			if !r.ok {
				cls["callback-failed"] = true
			}
			if r.to == ha.RoleActive {
				forced := isForced(s)
				forcedSinceCancel := lastForcedCb > lastCanceled
				if forced {
					lastForcedCb = s
					cls["forced"] = true
				}
				if !r.ok {
					break
				}
				dup := role == ha.RoleActive // the transition ran although the node is active already
				if !dup {                    // a promotion = the established role becomes active
					promotions++
					lastPromotionAt = r.at
				}
				role = r.to
				cls["promoted"] = true
				if forced {
					break
				}
				// "becomes active only if the partner was reported down continuously for the configured
				// failover delay, and a recovery before that cancels the promotion"
				justified, candidates, tooRecent := false, 0, 0
				for i := lastCanceled + 1; i < s; i++ {
					d := log[i]
					if d.k != rrHealth || !d.down {
						continue
					}
					candidates++
					if r.at < d.at+rc.Delay+rc.Grace {
						tooRecent++
						continue
					}
					recovered := false
					for j := i + 1; j < s; j++ {
						if log[j].k == rrHealth && !log[j].down {
							if t := deliveredAt(j); t >= 0 && t < d.at+rc.Delay {
								recovered = true
							}
						}
					}
					if !recovered {
						justified = true
					}
				}
				switch {
				case justified && !dup:
				case stalePossible && forcedSinceCancel && (dup || candidates == 0):
					fail(sigRacePromoDupForced, "automatic promotion (callback at log #%d, t=%v) after the pending failover was announced canceled (log #%d, after that episode's timer had fired), next to the transition of an accepted ForceFailover (which had its own callback): the transition ran twice", s, r.at, lastCanceled)
				case stalePossible && candidates > 0:
					fail(sigRacePromoStaleTimer, "automatic promotion (callback at log #%d, t=%v, node already active: %v) on a partner-down that followed the announced cancellation (log #%d) of a pending failover and was not itself sustained (%d of %d such reports too recent) or was acted on twice; an earlier canceled episode's timer had fired before its cancellation", s, r.at, dup, lastCanceled, tooRecent, candidates)
				case justified: // repeated transition without such a context: left to the completed-count clause
				case candidates == 0 && lastCanceled >= 0:
					fail(sigRacePromoAfterCancel, "automatic promotion (callback at log #%d, t=%v) after the pending failover was announced canceled (log #%d) and no partner-down was reported since", s, r.at, lastCanceled)
				default:
					fail(sigRacePromoNotSustained, "automatic promotion (callback at log #%d, t=%v): no reported partner-down (after the last canceled event) was sustained for delay %v + grace %v before it", s, r.at, rc.Delay, rc.Grace)
				}
			} else {
				if !r.ok {
					break
				}
				role = r.to
				cls["failed-back"] = true
				// "failback happens only while the partner is healthy": the decisive health check runs
				// under the controller mutex no earlier than promotion + failbackDelay + grace (and not
				// while the harness held the mutex); a partner-down reported before that, with no
				// recovery handed to the monitor since, was visible to it.
				lb := lastPromotionAt + rc.FbDelay + rc.Grace
				for _, h := range holds {
					if h.rel >= 0 && h.acq <= lb && lb <= h.rel {
						lb = h.rel
					}
				}
				lastDown := -1
				for i := 0; i < s; i++ {
					switch {
					case log[i].k == rrHealth && log[i].down:
						lastDown = i
					case log[i].k == rrHealth && !log[i].down, log[i].k == rrSend && !log[i].down:
						lastDown = -1
					}
				}
				if lastPromotionAt >= 0 && lastDown >= 0 && log[lastDown].at < lb {
					fail(sigRaceFailbackDown, "failback to %s (callback at log #%d, t=%v) although the partner was reported down at t=%v (log #%d), before the failback health check (not before t=%v), and no recovery followed", r.to, s, r.at, log[lastDown].at, lastDown, lb)
				}
			}
		}
	}
	// final state: role is the one established by the last successful callback
	if finalRole != role {
		fail(sigRaceRoleNoCb, "final CurrentRole()=%s but the successful callbacks establish %s", finalRole, role)
	}
	for c := range cls {
		res.classes = append(res.classes, c)
	}
}

// elapsedBefore reports whether the last partner-down reported before log index end was reported at or before time t.
func elapsedBefore(log []rrec, end int, t time.Duration) bool {
	for i := end - 1; i >= 0; i-- {
		if log[i].k == rrHealth && log[i].down {
			return log[i].at <= t
		}
	}
	return false
}

func genRaceCase() *rapid.Generator[raceCase] {
	return rapid.Custom(func(t *rapid.T) raceCase {
		dl := []time.Duration{2 * ms, 3 * ms, 4 * ms, 5 * ms}
		c := raceCase{
			Delay:     rapid.SampledFrom(dl).Draw(t, "delay"),
			FbDelay:   rapid.SampledFrom(dl).Draw(t, "fbDelay"),
			Grace:     rapid.SampledFrom([]time.Duration{0, 0, ms, 2 * ms}).Draw(t, "grace"),
			FbEnabled: true,
		}
		c.Kind = raceKind(rapid.SampledFrom([]int{0, 0, 0, 1, 1, 2, 3}).Draw(t, "race"))
		if c.Kind >= rkFailoverGraceVsUp && c.Grace == 0 {
			c.Grace = rapid.SampledFrom([]time.Duration{ms, 2 * ms}).Draw(t, "graceForRace")
		}
		c.EventFirst = rapid.Bool().Draw(t, "eventFirst")
		if rapid.IntRange(0, 2).Draw(t, "third") == 0 {
			c.HasThird = true
			c.Third = rapid.SampledFrom([]fstepKind{fsForceFailover, fsForceFailover, fsForceFailback}).Draw(t, "thirdOp")
			c.ThirdBeforeEvent = rapid.Bool().Draw(t, "thirdBeforeEvent")
		}
		c.CbFailFirst = rapid.IntRange(0, 5).Draw(t, "cbFailFirst") == 0
		n := rapid.IntRange(0, 4).Draw(t, "follow")
		for i := 0; i < n; i++ {
			k := fstepKind(rapid.SampledFrom([]int{0, 0, 1, 1, 2, 3, 4, 5, 5, 5}).Draw(t, "f"))
			s := fstep{K: k}
			if k == fsSleep {
				s.D = rapid.SampledFrom([]time.Duration{200 * time.Microsecond, ms, c.Delay, c.Delay + c.Grace + ms, c.FbDelay + c.Grace + ms}).Draw(t, "d")
			}
			c.Follow = append(c.Follow, s)
		}
		return c
	})
}

func reportRace(t vstat.Fataler, c raceCase, r *raceResult) {
	t.Helper()
	if r.skipped != "" {
		vstat.Class("race-skipped:poll-expiry", 1)
		return
	}
	if r.sig != "" {
		if vstat.Fail(t, r.sig, "%s\nschedule: %s\nlog:\n  %s", r.msg, c, strings.Join(r.trace, "\n  ")) {
			vstat.Class("known-finding-hit", 1)
		}
	}
	order := "order:timer-first"
	if c.EventFirst {
		order = "order:event-first"
	}
	cl := append(r.classes, "race:"+c.Kind.String(), order, fmt.Sprintf("third-contender:%v", c.HasThird), fmt.Sprintf("follow>0:%v", len(c.Follow) > 0))
	vstat.Case(true, vstat.Hash("race", c.String()), func() any {
		return map[string]any{"schedule": c.String(), "log": r.trace}
	}, cl...)
}

// TestPropTimerFireRace: real time, harness-owned lock ordering (see the file comment).
func TestPropTimerFireRace(t *testing.T) {
	vstat.Checks(300, 5000)
	rapid.Check(t, func(rt *rapid.T) {
		c := genRaceCase().Draw(rt, "schedule")
		reportRace(rt, c, runRace(c))
	})
}

// TestReplayTimerFireRace: the plain schedules (each timer, both queue orders, no follow-up).
func TestReplayTimerFireRace(t *testing.T) {
	for k := rkFailoverTimerVsUp; k <= rkFailbackGraceVsDown; k++ {
		for _, ef := range []bool{true, false} {
			c := raceCase{Delay: 3 * ms, FbDelay: 3 * ms, Grace: 0, FbEnabled: true, Kind: k, EventFirst: ef}
			if k >= rkFailoverGraceVsUp {
				c.Grace = 2 * ms
			}
			reportRace(t, c, runRace(c))
		}
	}
}

// KF-C14-3: the canceled episode's timer function, still waiting for the mutex,
// promotes as soon as a new partner-down has set the state to pending again.
// Real time; whether the new partner-down overtakes the woken timer function
// is up to the scheduler, so the schedule is tried a few times; a run in which
// it does not happen satisfies the statement and proves nothing either way.
func TestReplayStaleFailoverTimer(t *testing.T) {
	c := raceCase{Delay: 3 * ms, FbDelay: 3 * ms, FbEnabled: true, Kind: rkFailoverTimerVsUp, EventFirst: true, Follow: []fstep{{K: fsDown}}}
	for i := 0; i < 20; i++ {
		r := runRace(c)
		if r.sig != "" && r.sig != sigRacePromoStaleTimer {
			t.Fatalf("VIOLATION sig=%s: %s\nschedule: %s\nlog:\n  %s", r.sig, r.msg, c, strings.Join(r.trace, "\n  "))
		}
		reportRace(t, c, r)
		if r.sig != "" {
			return
		}
	}
}

// KF-C14-4: after the cancellation an accepted ForceFailover runs the transition, and the canceled
// episode's timer function (next on the mutex) runs it again.
func TestReplayStaleTimerRepeatsForcedFailover(t *testing.T) {
	c := raceCase{Delay: 3 * ms, FbDelay: 3 * ms, Grace: ms, FbEnabled: true, Kind: rkFailoverTimerVsUp, EventFirst: true, HasThird: true, Third: fsForceFailover}
	for i := 0; i < 5; i++ {
		r := runRace(c)
		if r.sig != "" && r.sig != sigRacePromoDupForced {
			t.Fatalf("VIOLATION sig=%s: %s\nschedule: %s\nlog:\n  %s", r.sig, r.msg, c, strings.Join(r.trace, "\n  "))
		}
		reportRace(t, c, r)
		if r.sig != "" {
			return
		}
	}
}
