// Package c14 decides property C14: "a standby promotes itself only after
// sustained partner failure".
//
// A real ha.HealthMonitor (never started; health-check outcomes are delivered
// through the verif hook VerifRecord, i.e. the real recordFailure/recordSuccess)
// and a real, started ha.FailoverController run inside a testing/synctest
// bubble.  A generated history of events (check fails / succeeds, virtual-time
// advances, ForceFailover, ForceFailback, scripted callback outcomes) is applied
// and after every step a monitor written from the property statement inspects
// (virtual time, reported partner-down/up events, CurrentRole(), State(),
// emitted failover events, callback log).
package c14

import (
	"errors"
	"fmt"
	"strings"
	"sync"
	"testing"
	"testing/synctest"
	"time"

	"github.com/codelaboratoryltd/bng/pkg/ha"
	"go.uber.org/zap"

	"bngverif/internal/vstat"
)

func TestMain(m *testing.M) { vstat.Main(m, "C14") }

const ms = time.Millisecond

// Signatures (one per clause of the statement and shape).
const (
	sigPromoNotSustained = "C14/promotion/partner-not-down-for-delay"
	sigRoleNoCallback    = "C14/role/changed-without-successful-callback"
	sigRoleBeforeCb      = "C14/role/changed-before-callback-returned"
	sigCompletedMore     = "C14/events/completed-count/more-than-promotions"
	sigCompletedFewer    = "C14/events/completed-count/fewer-than-promotions"
	sigCompletedStat     = "C14/events/completed-stat-mismatch"
	sigCancelMissing     = "C14/cancel/recovery-before-delay-not-canceled"
	sigFailbackDownGrace = "C14/failback/completed-while-partner-down/down-during-grace"
	sigFailbackDownOther = "C14/failback/completed-while-partner-down/down-before-transition"
	sigStuckForce        = "C14/stuck/in_progress/force-failover-in-normal"
	sigPanic             = "C14/panic"
)

func sigStuckOther(st ha.FailoverState) string { return "C14/stuck/" + st.String() + "/other" }

// cfg is one generated controller/monitor configuration.
type cfg struct {
	Role      ha.Role
	Delay     time.Duration
	Grace     time.Duration
	FbDelay   time.Duration
	FbEnabled bool
	FailTh    int
	RecTh     int
}

func (c cfg) String() string {
	return fmt.Sprintf("role=%s delay=%v grace=%v failback=%v/%v th=%d/%d", c.Role, c.Delay, c.Grace, c.FbEnabled, c.FbDelay, c.FailTh, c.RecTh)
}

func (c cfg) horizon() time.Duration { return c.Delay + c.Grace + c.FbDelay + 2*time.Second }

type opKind uint8

const (
	opFail          opKind = iota // N consecutive failed health checks
	opOK                          // N consecutive successful health checks
	opAdv                         // advance virtual time by D
	opAdvTo                       // advance to a boundary derived from the reported health events: Target + Off
	opForceFailover               //
	opForceFailback               //
	opCbFail                      // the next role-change callback invocation returns an error
	opCbOK                        // forget scripted callback failures
)

type target uint8

const (
	tgFailover target = iota // last reported partner-down + FailoverDelay
	tgPromote                // ... + GracePeriod
	tgFailback               // last reported partner-up + FailbackDelay
	tgDemote                 // ... + GracePeriod
)

type op struct {
	K      opKind
	N      int
	D      time.Duration
	Target target
	Off    time.Duration
}

func (o op) String() string {
	switch o.K {
	case opFail:
		return fmt.Sprintf("checkFail*%d", o.N)
	case opOK:
		return fmt.Sprintf("checkOK*%d", o.N)
	case opAdv:
		return fmt.Sprintf("adv(%v)", o.D)
	case opAdvTo:
		return fmt.Sprintf("advTo(%s%+dms)", [...]string{"downAt+delay", "downAt+delay+grace", "upAt+failbackDelay", "upAt+failbackDelay+grace"}[o.Target], o.Off/ms)
	case opForceFailover:
		return "forceFailover"
	case opForceFailback:
		return "forceFailback"
	case opCbFail:
		return "cbFailNext"
	default:
		return "cbOK"
	}
}

func opsString(ops []op) string {
	s := make([]string, len(ops))
	for i, o := range ops {
		s[i] = o.String()
	}
	return strings.Join(s, " ")
}

type hev struct {
	at   time.Duration
	down bool
}

type cbCall struct {
	at         time.Duration
	to         ha.Role
	ok         bool
	roleInside ha.Role
	forced     bool
}

type fev struct {
	at  time.Duration
	typ ha.FailoverEventType
}

// result is the verdict of one executed history, returned out of the bubble.
type result struct {
	sig, msg string
	trace    []string
	fp       string // fingerprint of controller+monitor state after the last op (before the quiet-horizon epilogue)

	upAtBoundary    bool // a reported recovery within 1ms of downAt+delay
	cbFailed        bool // a scripted callback failure was delivered
	opOutsideNormal bool // an operator command was issued while State() != Normal
	promoted        int
	failedBack      int
	canceled        int
	forcedInNormal  bool
	steered         int
}

type execOpts struct {
	steerStuck bool // skip ForceFailover in Normal/standby (listed finding would end the case)
}

// exec is the monitor state.
type exec struct {
	c   cfg
	mon *ha.HealthMonitor
	fc  *ha.FailoverController
	t0  time.Time

	mu     sync.Mutex
	health []hev
	calls  []cbCall
	events []fev

	failNext      int
	forcedPending bool

	// observation cursors
	prevRole    ha.Role
	callsSeen   int
	completed   int
	canceledEv  int
	promotions  int
	failbacks   int
	forcedInNrm bool

	res *result
}

func (x *exec) now() time.Duration { return time.Since(x.t0) }

func (x *exec) onHealth(e ha.HealthEvent) {
	if e.Type != ha.HealthEventPartnerDown && e.Type != ha.HealthEventPartnerUp {
		return
	}
	x.mu.Lock()
	x.health = append(x.health, hev{x.now(), e.Type == ha.HealthEventPartnerDown})
	x.mu.Unlock()
}

// onEvent must not call into the controller: several events are emitted with its mutex held.
func (x *exec) onEvent(e ha.FailoverEvent) {
	x.mu.Lock()
	x.events = append(x.events, fev{x.now(), e.Type})
	x.mu.Unlock()
}

func (x *exec) callback(to ha.Role) error {
	inside := x.fc.CurrentRole() // the controller holds no lock while calling the callback
	x.mu.Lock()
	defer x.mu.Unlock()
	c := cbCall{at: x.now(), to: to, ok: true, roleInside: inside}
	if to == ha.RoleActive {
		c.forced = x.forcedPending
		x.forcedPending = false
	}
	if x.failNext > 0 {
		x.failNext--
		c.ok = false
		x.res.cbFailed = true
	}
	x.calls = append(x.calls, c)
	if !c.ok {
		return errors.New("verif: scripted role change failure")
	}
	return nil
}

func (x *exec) violate(sig, format string, a ...any) bool {
	if x.res.sig == "" {
		x.res.sig = sig
		x.res.msg = fmt.Sprintf(format, a...)
	}
	return false
}

func (x *exec) lastHealth() (hev, bool) {
	if len(x.health) == 0 {
		return hev{}, false
	}
	return x.health[len(x.health)-1], true
}

// downThroughout reports whether the partner was reported down during the whole of [D-delay, D).
func (x *exec) downThroughout(D time.Duration) bool {
	from := D - x.c.Delay
	idx := -1
	for i, e := range x.health {
		if e.down && e.at <= from {
			idx = i
		}
	}
	if idx < 0 {
		return false
	}
	for _, e := range x.health[idx+1:] {
		if !e.down && e.at < D {
			return false
		}
	}
	return true
}

// observe runs every per-step clause of the statement.  It is called by the
// harness goroutine after synctest.Wait(), i.e. with every other goroutine of
// the bubble durably blocked.  Returns false on a violation.
func (x *exec) observe() bool {
	x.mu.Lock()
	defer x.mu.Unlock()
	role := x.fc.CurrentRole()
	newCalls := x.calls[x.callsSeen:]
	x.callsSeen = len(x.calls)

	// "the node's reported role changes only after the role-change callback succeeded"
	for _, c := range newCalls {
		if c.roleInside == c.to && x.prevRole != c.to {
			return x.violate(sigRoleBeforeCb, "CurrentRole() already reported %s while the callback(%s) was still running at t=%v", c.roleInside, c.to, c.at)
		}
	}
	if role != x.prevRole {
		var via *cbCall
		for i := range newCalls {
			if newCalls[i].to == role && newCalls[i].ok {
				via = &newCalls[i]
			}
		}
		if via == nil {
			return x.violate(sigRoleNoCallback, "role changed %s -> %s at t=%v with no successful callback(%s) (calls this step: %+v)", x.prevRole, role, x.now(), role, newCalls)
		}
		if role == ha.RoleActive {
			x.promotions++
			x.res.promoted++
			// "becomes active only if the partner was reported down continuously for the configured failover delay"
			if !via.forced {
				D := via.at - x.c.Grace // the transition began one grace period before the callback
				if !x.downThroughout(D) {
					return x.violate(sigPromoNotSustained, "automatic promotion (callback at t=%v, transition began t=%v) but partner was not reported down throughout [%v,%v); reported health events: %+v", via.at, D, D-x.c.Delay, D, x.health)
				}
			}
		} else {
			x.failbacks++
			x.res.failedBack++
			// "failback happens only while the partner is healthy"
			if h, ok := x.lastHealth(); (ok && h.down) || !x.mon.IsPartnerHealthy() {
				if ok && h.at >= via.at-x.c.Grace {
					return x.violate(sigFailbackDownGrace, "failback to %s completed at t=%v although the partner was reported down at t=%v (after the failback transition began at t=%v)", role, via.at, h.at, via.at-x.c.Grace)
				}
				return x.violate(sigFailbackDownOther, "failback to %s completed at t=%v while the partner is reported down (health events %+v)", role, via.at, x.health)
			}
		}
		x.prevRole = role
	}

	// "each promotion emits exactly one completed event"
	completed, canceled := 0, 0
	for _, e := range x.events {
		switch e.typ {
		case ha.FailoverEventCompleted:
			completed++
		case ha.FailoverEventCanceled:
			canceled++
		}
	}
	x.completed, x.canceledEv = completed, canceled
	x.res.canceled = canceled
	if completed > x.promotions {
		return x.violate(sigCompletedMore, "%d completed events for %d promotions at t=%v", completed, x.promotions, x.now())
	}
	if completed < x.promotions {
		return x.violate(sigCompletedFewer, "%d completed events for %d promotions at t=%v", completed, x.promotions, x.now())
	}
	if _, st, _, _ := x.fc.Stats(); st != uint64(x.promotions) {
		return x.violate(sigCompletedStat, "Stats() completed=%d for %d promotions", st, x.promotions)
	}
	return true
}

func (x *exec) logf(format string, a ...any) {
	x.res.trace = append(x.res.trace, fmt.Sprintf("t=%-9v ", x.now())+fmt.Sprintf(format, a...))
}

func (x *exec) status() string {
	return fmt.Sprintf("role=%s state=%s partnerHealthy=%v", x.fc.CurrentRole(), x.fc.State(), x.mon.IsPartnerHealthy())
}

func (x *exec) advance(d time.Duration) {
	if d > 0 {
		time.Sleep(d)
	}
	synctest.Wait()
}

// lastReported returns the time of the last reported down (or up) event.
func (x *exec) lastReported(down bool) (time.Duration, bool) {
	x.mu.Lock()
	defer x.mu.Unlock()
	for i := len(x.health) - 1; i >= 0; i-- {
		if x.health[i].down == down {
			return x.health[i].at, true
		}
	}
	return 0, false
}

// step applies one op and observes.  Returns false when a violation was recorded.
func (x *exec) step(o op, opts execOpts) bool {
	switch o.K {
	case opFail, opOK:
		pre := x.fc.State()
		nHealth := len(x.health)
		canceledBefore := x.canceledEv
		for i := 0; i < o.N; i++ {
			x.mon.VerifRecord(o.K == opOK)
		}
		synctest.Wait()
		x.logf("%-22s -> %s", o, x.status())
		if !x.observe() {
			return false
		}
		if o.K == opOK && len(x.health) > nHealth { // a recovery was reported
			up := x.health[len(x.health)-1]
			if nHealth > 0 {
				d := x.health[nHealth-1].at + x.c.Delay - up.at
				if d >= -ms && d <= ms {
					x.res.upAtBoundary = true
				}
			}
			// "a recovery before that cancels the promotion"
			if pre == ha.FailoverStatePending {
				if st := x.fc.State(); st == ha.FailoverStatePending || st == ha.FailoverStateInProgress || x.canceledEv != canceledBefore+1 {
					return x.violate(sigCancelMissing, "partner recovery reported at t=%v while failover was pending: state now %s, canceled events %d -> %d", up.at, st, canceledBefore, x.canceledEv)
				}
			}
		}
	case opAdv:
		x.advance(o.D)
		x.logf("%-22s -> %s", o, x.status())
		return x.observe()
	case opAdvTo:
		var base time.Duration
		var ok bool
		switch o.Target {
		case tgFailover, tgPromote:
			base, ok = x.lastReported(true)
			base += x.c.Delay
			if o.Target == tgPromote {
				base += x.c.Grace
			}
		default:
			base, ok = x.lastReported(false)
			base += x.c.FbDelay
			if o.Target == tgDemote {
				base += x.c.Grace
			}
		}
		d := base + o.Off - x.now()
		if !ok || d <= 0 {
			d = time.Second
		}
		x.advance(d)
		x.logf("%-22s -> %s  (slept %v)", o, x.status(), d)
		return x.observe()
	case opForceFailover:
		pre := x.fc.State()
		if pre != ha.FailoverStateNormal {
			x.res.opOutsideNormal = true
		}
		if opts.steerStuck && pre == ha.FailoverStateNormal && x.fc.CurrentRole() == ha.RoleStandby {
			x.res.steered++
			x.logf("%-22s skipped (listed finding %s)", o, sigStuckForce)
			return true
		}
		// set before the call: a repaired ForceFailover may invoke the callback at once
		x.mu.Lock()
		was := x.forcedPending
		x.forcedPending = true
		x.mu.Unlock()
		err := x.fc.ForceFailover("verif")
		if err != nil { // refused: whatever was accepted earlier is still in flight
			x.mu.Lock()
			x.forcedPending = was
			x.mu.Unlock()
		} else if pre == ha.FailoverStateNormal {
			x.forcedInNrm = true
			x.res.forcedInNormal = true
		}
		synctest.Wait()
		x.logf("%-22s err=%v -> %s", o, err, x.status())
		return x.observe()
	case opForceFailback:
		if x.fc.State() != ha.FailoverStateNormal {
			x.res.opOutsideNormal = true
		}
		err := x.fc.ForceFailback("verif")
		synctest.Wait()
		x.logf("%-22s err=%v -> %s", o, err, x.status())
		return x.observe()
	case opCbFail:
		x.mu.Lock()
		x.failNext++
		x.mu.Unlock()
		x.logf("%s", o)
	case opCbOK:
		x.mu.Lock()
		x.failNext = 0
		x.mu.Unlock()
		x.logf("%s", o)
	}
	return true
}

// fingerprint summarises everything that determines future behaviour of the
// controller, the monitor and this oracle (times relative to now).
func (x *exec) fingerprint() string {
	now := time.Now()
	st := x.fc.State()
	h := x.mon.Health()
	fo, fb := x.fc.VerifC14Deadlines()
	relF, relB := "-", "-"
	if st == ha.FailoverStatePending || st == ha.FailoverStateInProgress {
		if !fo.IsZero() && now.Before(fo.Add(x.c.Grace+ms)) {
			relF = fo.Sub(now).String()
		}
	}
	if !fb.IsZero() && now.Before(fb.Add(x.c.Grace+ms)) {
		relB = fb.Sub(now).String()
	}
	age := time.Duration(-1)
	if e, ok := x.lastHealth(); ok && e.down {
		age = x.now() - e.at
		if lim := x.c.Delay + x.c.Grace + 2*ms; age > lim {
			age = lim
		}
	}
	cf, cs := h.ConsecutiveFailures, h.ConsecutiveSuccesses
	if cf > x.c.FailTh {
		cf = x.c.FailTh
	}
	if cs > x.c.RecTh {
		cs = x.c.RecTh
	}
	x.mu.Lock()
	defer x.mu.Unlock()
	return fmt.Sprintf("%s|%s|%v|%d|%d|F%s|B%s|age%v|fail%d|forced%v|fin%v|ph%v",
		st, x.fc.CurrentRole(), h.Healthy, cf, cs, relF, relB, age, x.failNext, x.forcedPending, x.forcedInNrm, x.now()%time.Second)
}

// runCase executes one history in a fresh bubble and returns the verdict.
func runCase(t *testing.T, c cfg, ops []op, opts execOpts) *result {
	res := &result{}
	synctest.Test(t, func(t *testing.T) {
		defer func() {
			if r := recover(); r != nil {
				if res.sig == "" {
					res.sig, res.msg = sigPanic, fmt.Sprint("panic: ", r)
				}
			}
		}()
		logger := zap.NewNop()
		mon := ha.NewHealthMonitor(ha.HealthConfig{CheckInterval: 5 * time.Second, Timeout: 3 * time.Second, FailureThreshold: c.FailTh, RecoveryThreshold: c.RecTh},
			&ha.PartnerInfo{NodeID: "partner", Endpoint: "192.0.2.1:9000"}, logger)
		fc := ha.NewFailoverController(ha.FailoverConfig{Enabled: true, FailoverDelay: c.Delay, FailbackDelay: c.FbDelay, FailbackEnabled: c.FbEnabled, GracePeriod: c.Grace},
			"verif-node", c.Role, 50, mon, logger)
		x := &exec{c: c, mon: mon, fc: fc, res: res, prevRole: c.Role}
		mon.OnHealthChange(x.onHealth)
		fc.SetRoleChangeCallback(x.callback)
		fc.OnFailoverEvent(x.onEvent)
		x.t0 = time.Now()
		if err := fc.Start(); err != nil {
			res.sig, res.msg = "C14/harness/start", err.Error()
			return
		}
		defer fc.Stop()
		// The controller's 1 s control-loop ticker now ticks at whole seconds; all
		// generated events happen at 0.5 ms + k ms, so a tick never coincides with
		// another timer and the schedule is deterministic.
		time.Sleep(500 * time.Microsecond)
		synctest.Wait()
		x.t0 = time.Now()
		x.logf("start %s", c)
		for _, o := range ops {
			if !x.step(o, opts) {
				break
			}
		}
		if res.sig != "" {
			return
		}
		res.fp = x.fingerprint()
		// "the controller never remains in an in-progress state with no transition
		// pending": with no further input every armed timer and running transition
		// ends within delay+grace+failbackDelay.
		x.advance(c.horizon())
		x.logf("quiet for %v -> %s", c.horizon(), x.status())
		if !x.observe() {
			return
		}
		if st := fc.State(); st == ha.FailoverStateInProgress || st == ha.FailoverStatePending || st == ha.FailoverStateFailbackPending {
			if x.forcedInNrm && st == ha.FailoverStateInProgress {
				x.violate(sigStuckForce, "state still %s after %v without input: ForceFailover in state normal returned nil but no transition is running or armed", st, c.horizon())
			} else {
				x.violate(sigStuckOther(st), "state still %s after %v without input", st, c.horizon())
			}
		}
	})
	return res
}

func (r *result) classes() []string {
	var cl []string
	add := func(b bool, s string) {
		if b {
			cl = append(cl, s)
		}
	}
	add(r.upAtBoundary, "nt:up-at-delay-boundary")
	add(r.cbFailed, "nt:callback-failed")
	add(r.opOutsideNormal, "nt:operator-cmd-outside-normal")
	add(r.promoted > 0, "promoted")
	add(r.promoted > 1, "promoted>=2")
	add(r.failedBack > 0, "failed-back")
	add(r.canceled > 0, "canceled")
	add(r.forcedInNormal, "force-failover-in-normal")
	add(r.steered > 0, "steered-around-KF")
	return cl
}

func (r *result) nontrivial() bool { return r.upAtBoundary || r.cbFailed || r.opOutsideNormal }

// report turns a verdict into vstat bookkeeping; returns true if the case hit a listed finding.
func report(t vstat.Fataler, c cfg, ops []op, r *result, extra ...string) {
	t.Helper()
	if r.sig != "" {
		if vstat.Fail(t, r.sig, "%s\nconfig: %s\nops: %s\ntrace:\n  %s", r.msg, c, opsString(ops), strings.Join(r.trace, "\n  ")) {
			vstat.Class("known-finding-hit", 1)
		}
	}
	cl := append(r.classes(), extra...)
	vstat.Case(r.nontrivial(), vstat.Hash(c.String(), opsString(ops)), func() any {
		return map[string]any{"config": c.String(), "ops": opsString(ops), "trace": r.trace}
	}, cl...)
}
