package c14

import (
	"strings"
	"testing"
	"time"

	"github.com/codelaboratoryltd/bng/pkg/ha"

	"bngverif/internal/vstat"
)

var defaultCfg = cfg{Role: ha.RoleStandby, Delay: 10 * time.Second, Grace: 5 * time.Second, FbDelay: 30 * time.Second, FbEnabled: true, FailTh: 3, RecTh: 2}

// expectSig runs a minimal history; the violation (if any) is reported through
// the same signature as the generated tiers, so it is silent while listed and
// fails again if an applied fix is reverted.  wantSig=="" means the history
// must satisfy the statement.
func replay(t *testing.T, c cfg, ops []op, wantSig string, post func(t *testing.T, r *result)) {
	t.Helper()
	r := runCase(t, c, ops, execOpts{})
	if r.sig != "" {
		if r.sig != wantSig {
			t.Fatalf("VIOLATION sig=%s: %s\nconfig: %s\nops: %s\ntrace:\n  %s", r.sig, r.msg, c, opsString(ops), strings.Join(r.trace, "\n  "))
		}
		if vstat.Fail(t, r.sig, "%s\nconfig: %s\nops: %s\ntrace:\n  %s", r.msg, c, opsString(ops), strings.Join(r.trace, "\n  ")) {
			return
		}
	}
	if post != nil {
		post(t, r)
	}
	vstat.Case(true, vstat.Hash("replay", c.String(), opsString(ops)), nil, "replay")
}

// KF-C14-1: ForceFailover on a standby in state normal (production defaults).
func TestReplayForceFailoverStuck(t *testing.T) {
	replay(t, defaultCfg, []op{{K: opForceFailover}}, sigStuckForce, nil)
	// partner genuinely dead afterwards: the stuck state also disables automatic failover
	replay(t, defaultCfg, []op{{K: opForceFailover}, {K: opFail, N: 3}, {K: opAdv, D: 20 * time.Second}}, sigStuckForce, nil)
}

// KF-C14-2: partner is reported down while executeFailback sleeps its grace period.
func TestReplayFailbackPartnerDownDuringGrace(t *testing.T) {
	replay(t, defaultCfg, []op{
		{K: opFail, N: 3},                                // partner down
		{K: opAdvTo, Target: tgPromote, Off: ms},         // promoted
		{K: opOK, N: 2},                                  // partner up -> failback pending
		{K: opAdvTo, Target: tgFailback, Off: 2000 * ms}, // failback timer fired, grace running
		{K: opFail, N: 3},                                // partner down again
		{K: opAdv, D: 4 * time.Second},                   // grace ends
	}, sigFailbackDownGrace, nil)
}

// Sanity: the oracle is not vacuous on the ordinary episodes.
func TestReplaySanity(t *testing.T) {
	c := defaultCfg
	// plain failover and failback
	replay(t, c, []op{{K: opFail, N: 3}, {K: opAdvTo, Target: tgPromote, Off: ms}, {K: opOK, N: 2}, {K: opAdvTo, Target: tgDemote, Off: ms}}, "", func(t *testing.T, r *result) {
		if r.promoted != 1 || r.failedBack != 1 {
			t.Fatalf("INCONCLUSIVE harness: expected one promotion and one failback, got %d/%d\n%s", r.promoted, r.failedBack, strings.Join(r.trace, "\n"))
		}
	})
	// recovery 1 ms before the delay cancels; nothing happens afterwards
	replay(t, c, []op{{K: opFail, N: 3}, {K: opAdvTo, Target: tgFailover, Off: -ms}, {K: opOK, N: 2}, {K: opAdv, D: 20 * time.Second}}, "", func(t *testing.T, r *result) {
		if r.promoted != 0 || r.canceled != 1 || !r.upAtBoundary {
			t.Fatalf("INCONCLUSIVE harness: expected cancel, got promoted=%d canceled=%d boundary=%v\n%s", r.promoted, r.canceled, r.upAtBoundary, strings.Join(r.trace, "\n"))
		}
	})
	// recovery exactly at the delay: the timer has fired, promotion proceeds (partner was down for the whole delay)
	replay(t, c, []op{{K: opFail, N: 3}, {K: opAdvTo, Target: tgFailover}, {K: opOK, N: 2}, {K: opAdv, D: 6 * time.Second}}, "", func(t *testing.T, r *result) {
		if r.promoted != 1 {
			t.Fatalf("INCONCLUSIVE harness: expected promotion, got %d\n%s", r.promoted, strings.Join(r.trace, "\n"))
		}
	})
	// failing callback: no role change, then a later episode succeeds
	replay(t, c, []op{{K: opCbFail}, {K: opFail, N: 3}, {K: opAdvTo, Target: tgPromote, Off: ms}, {K: opOK, N: 2}, {K: opFail, N: 3}, {K: opAdvTo, Target: tgPromote, Off: ms}}, "", func(t *testing.T, r *result) {
		if r.promoted != 1 || !r.cbFailed {
			t.Fatalf("INCONCLUSIVE harness: expected one promotion after one failed callback, got %d\n%s", r.promoted, strings.Join(r.trace, "\n"))
		}
	})
}
