package c03

import (
	"encoding/json"
	"os"
	"path/filepath"
	"sort"
	"strings"
	"testing"

	"pgregory.net/rapid"

	"bngverif/internal/vstat"
)

func isListed(sig string) bool { return os.Getenv("C03_DISCOVER") != "" || vstat.IsListed(sig) }

func replaying() bool { return os.Getenv("VERIF_REPLAYING") != "" }

// finish reports one executed case.
func finish(t vstat.Fataler, tc *tcase, res result) {
	t.Helper()
	if res.harness != "" {
		t.Fatalf("INCONCLUSIVE: harness error: %s\ncase: %s", res.harness, jsonOf(tc))
	}
	kf := report(t, res.viol, func() string { return joinLines(res.log) + "\ncase: " + jsonOf(tc) })
	cls := append(append([]string{}, res.classes...), kf...)
	vstat.Class("probes", int64(res.probes))
	vstat.Class("probes:TX", int64(res.tx))
	vstat.Class("probes:TX:ipcsum-double-fold", int64(res.txDouble))
	for k, n := range res.expProbes {
		vstat.Class("expired-uncleaned-probes:"+k, int64(n))
	}
	vstat.Class("ops:skipped-foreign-circuit-id", int64(res.skipped))
	vstat.Case(res.nt, vstat.Hash(jsonOf(tc)), func() any {
		return map[string]any{"case": tc, "log": res.log}
	}, cls...)
	if replaying() {
		if lt, ok := t.(interface{ Logf(string, ...any) }); ok {
			lt.Logf("history:\n%s", joinLines(res.log))
		}
	}
}

func propFlavour(t *testing.T, fl flavour, q, th int) {
	rc := runner(t)
	vstat.Checks(q, th)
	rapid.Check(t, func(rt *rapid.T) {
		tc := genCase(rt, fl)
		res := execCase(t, rc, &tc)
		finish(rt, &tc, res)
	})
}

var allAccess = []string{"direct", "direct", "vlan", "qinq", "relay", "relay82", "relay82", "l2opt82"}

// Live leases, clients attached directly (untagged, or tagged frames with no VLAN entry): option layouts x IHL x clocks.
func TestPropDirect(t *testing.T) {
	propFlavour(t, flavour{name: "direct", access: []string{"direct"}}, 300, 8000)
}

// Clients identified by their 802.1Q tag or S/C tag pair (vlan_subscriber_pools entries).
func TestPropTagged(t *testing.T) {
	propFlavour(t, flavour{name: "tagged", access: []string{"vlan", "qinq", "qinq", "direct"}}, 300, 8000)
}

// Clients behind a relay agent / an option-82 inserting access node (circuit_id_subscribers entries).
func TestPropOption82(t *testing.T) {
	propFlavour(t, flavour{name: "option82", access: []string{"relay82", "relay82", "l2opt82", "relay"}}, 300, 8000)
}

// Histories built around RELEASE followed by probes for the same client.
func TestPropAfterRelease(t *testing.T) {
	propFlavour(t, flavour{name: "after-release", access: allAccess, event: "release"}, 300, 8000)
}

// Histories built around DECLINE followed by probes for the same client.
func TestPropAfterDecline(t *testing.T) {
	propFlavour(t, flavour{name: "after-decline", access: allAccess, event: "decline"}, 300, 8000)
}

// Histories built around lease expiry, probes before and after the cleanup tick.
func TestPropAfterExpiry(t *testing.T) {
	propFlavour(t, flavour{name: "after-expiry", access: allAccess, event: "expiry"}, 300, 8000)
}

var cidAccess = []string{"relay82", "relay82", "relay82", "relay82", "relay82", "relay82", "l2opt82"}

// Replacement CPE: a new MAC appears on the circuit (same option-82 circuit-id) of a client that holds a lease;
// afterwards every appearance of the client (old MAC, new MAC, the circuit-id) is probed.
func TestPropCpeSwap(t *testing.T) {
	propFlavour(t, flavour{name: "cpe-swap", access: cidAccess, event: "swap"}, 400, 6000)
}

// The same device moves to another circuit (same MAC, new circuit-id); old and new circuit-id are probed.
func TestPropCircuitMove(t *testing.T) {
	propFlavour(t, flavour{name: "circuit-move", access: cidAccess, event: "move"}, 400, 6000)
}

// The same device reaches the server in another way (direct -> relayed with option 82, relayed -> direct, -> VLAN ...).
func TestPropReshape(t *testing.T) {
	propFlavour(t, flavour{name: "reshape", access: allAccess, event: "reshape"}, 400, 6000)
}

// The lease runs out and the client DISCOVERs again before the cleanup tick (the lease is retired on the spot).
func TestPropRetire(t *testing.T) {
	propFlavour(t, flavour{name: "retire", access: allAccess, event: "retire"}, 400, 6000)
}

// RELEASE of an address that was only offered.
func TestPropReleaseOffered(t *testing.T) {
	propFlavour(t, flavour{name: "release-offered", access: allAccess, event: "release-offered"}, 400, 6000)
}

// Control-plane calls while subscribers are cached: AddPool with an id that is taken (must change nothing the fast
// path sees), a second pool that becomes the default, RemovePool (and the id coming back, possibly with another
// definition), SetServerConfig again; each followed by probes from every client.
func TestPropControlPlane(t *testing.T) {
	propFlavour(t, flavour{name: "control-plane", access: allAccess, event: "pools"}, 500, 8000)
}

// Free mixture of everything.
func TestPropMixed(t *testing.T) {
	propFlavour(t, flavour{name: "mixed", access: allAccess}, 300, 8000)
}

// ---------------------------------------------------------------------------
// replays: committed JSON cases (replays/C03/*.json), one per known finding plus regression cases.
// Each case is executed exactly like a generated one and reports through the same signatures.
// ---------------------------------------------------------------------------

func replayFiles(t *testing.T) []string {
	if f := os.Getenv("VERIF_REPLAY_FILE"); f != "" {
		return []string{f}
	}
	dir := os.Getenv("VERIF_REPLAYS")
	if dir == "" {
		dir = filepath.Join("..", "..", "replays", "C03")
	}
	fs, _ := filepath.Glob(filepath.Join(dir, "*.json"))
	sort.Strings(fs)
	return fs
}

type replayFile struct {
	tcase
	Expect []string `json:"expect"` // signatures this case produced when it was committed (documentation; not asserted)
}

func TestReplayCases(t *testing.T) {
	rc := runner(t)
	for _, f := range replayFiles(t) {
		b, err := os.ReadFile(f)
		if err != nil {
			t.Fatalf("INCONCLUSIVE: %v", err)
		}
		var rf replayFile
		if err := json.Unmarshal(b, &rf); err != nil {
			t.Fatalf("INCONCLUSIVE: %s: %v", f, err)
		}
		tc := rf.tcase
		res := execCase(t, rc, &tc)
		if res.harness != "" {
			t.Fatalf("INCONCLUSIVE: %s: %s", f, res.harness)
		}
		var got []string
		for _, v := range res.viol {
			got = append(got, v.Sig)
		}
		t.Logf("%s: %d probes, %d TX, signatures %v", filepath.Base(f), res.probes, res.tx, got)
		if os.Getenv("VERIF_REPLAY_FILE") != "" || testing.Verbose() && os.Getenv("C03_SHOW_LOG") != "" {
			t.Logf("history:\n%s", joinLines(res.log))
		}
		kf := report(t, res.viol, func() string { return filepath.Base(f) + "\n" + joinLines(res.log) })
		vstat.Case(res.nt, vstat.Hash("replay", jsonOf(tc)), nil, append([]string{"replay:" + strings.TrimSuffix(filepath.Base(f), ".json")}, kf...)...)
	}
}
