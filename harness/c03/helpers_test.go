package c03

// Helper-level differential tests: the native runner #includes bpf/dhcp_fastpath.c, so its static inline
// helpers are callable on a guarded buffer.  ip_checksum and prefix_to_mask are compared with references
// written from RFC 1071 / RFC 950, independent of any frame the program would have to be steered into.

import (
	"encoding/binary"
	"fmt"
	"net"
	"testing"

	"pgregory.net/rapid"

	"bngverif/internal/bpfnative"
	"bngverif/internal/vstat"
)

// rfc1071 is the Internet checksum of b (big-endian words, end-around carry until nothing is left to carry).
func rfc1071(b []byte) uint16 {
	var sum uint64
	for i := 0; i+1 < len(b); i += 2 {
		sum += uint64(b[i])<<8 | uint64(b[i+1])
	}
	for sum>>16 != 0 {
		sum = sum&0xffff + sum>>16
	}
	return ^uint16(sum)
}

// helperIPChecksum calls the program's ip_checksum on a 20-byte header and returns the two bytes it would
// store into ip->check (the helper returns a native __u16 that the program assigns to the field).
func helperIPChecksum(rc *bpfnative.Client, h []byte) ([2]byte, error) {
	r, err := rc.Call("dhcp_fastpath.ip_checksum", [4]uint64{}, h, nil, bpfnative.EndFlush)
	if err != nil {
		return [2]byte{}, err
	}
	if r.Fault.Faulted() {
		return [2]byte{}, fmt.Errorf("fault %v", r.Fault)
	}
	return [2]byte{byte(r.Ret), byte(r.Ret >> 8)}, nil
}

// ip_checksum(header) == RFC 1071 for every 20-byte header, in particular those whose sum needs a second
// end-around carry (3 in 65536 random headers; constructed here in half of the cases).
func TestPropHelperIPChecksum(t *testing.T) {
	rc := runner(t)
	vstat.Checks(150, 3000) // x 64 headers each
	rapid.Check(t, func(rt *rapid.T) {
		var all []byte
		nTwo := 0
		for n := 0; n < 64; n++ {
			l := fmt.Sprintf("h%d.", n)
			h := make([]byte, 20)
			for i := 0; i < 10; i++ {
				w := pick(rt, fmt.Sprintf("%sw%d", l, i), 0xffff, 0xffff, 0xfffe, 0x0000, 0x0001, 0x8000, 0x00ff, 0xff00,
					int(rapid.Uint16().Draw(rt, fmt.Sprintf("%sr%d", l, i))), int(rapid.Uint16().Draw(rt, fmt.Sprintf("%sq%d", l, i))))
				binary.BigEndian.PutUint16(h[2*i:], uint16(w))
			}
			if chance(rt, l+"real", 1, 2) {
				h[0], h[9] = 0x45, 17
				binary.BigEndian.PutUint16(h[10:], 0) // the program clears the field before it calls the helper
			}
			if chance(rt, l+"directed", 1, 2) {
				// solve one word (drawn position) so that the sum, added up in the program's word order, needs two folds
				pos := pick(rt, l+"pos", 1, 2, 3, 6, 7, 8, 9)
				var r uint32
				for i, v := range leWords(h) {
					if i != pos {
						r += v
					}
				}
				for k := uint32(0); k < 11; k++ {
					x := (0xffff - k - r&0xffff) & 0xffff
					if s := r + x; s&0xffff+s>>16 >= 0x10000 {
						h[2*pos], h[2*pos+1] = byte(x), byte(x>>8)
						break
					}
				}
			}
			var s uint32
			for _, v := range leWords(h) {
				s += v
			}
			two := s&0xffff+s>>16 >= 0x10000
			if two {
				nTwo++
			}
			got, err := helperIPChecksum(rc, h)
			if err != nil {
				rt.Fatalf("INCONCLUSIVE: call ip_checksum: %v", err)
			}
			want := rfc1071(h)
			wb := [2]byte{byte(want >> 8), byte(want)}
			// the stored field must make the header verify; 0x0000/0xffff are the two encodings of zero
			ok := got == wb || (want == 0xffff && got == [2]byte{0, 0}) || (want == 0 && got == [2]byte{0xff, 0xff})
			if !ok {
				shape := "single-fold"
				if two {
					shape = "double-fold"
				}
				if vstat.Fail(rt, "C03/helper/ip_checksum/differs-from-rfc1071", "header %x (%s): ip_checksum stores %x, RFC 1071 gives %x", h, shape, got, wb) {
					return
				}
			}
			all = append(all, h...)
		}
		vstat.Class("helper:ip_checksum:headers", 64)
		vstat.Class("helper:ip_checksum:headers:double-fold", int64(nTwo))
		vstat.Case(nTwo > 0, vstat.Hash("ipcsum", fmt.Sprintf("%x", all)), func() any { return fmt.Sprintf("%x", all[:40]) }, "helper:ip_checksum")
	})
}

// prefix_to_mask(n) is the subnet mask userspace sends for a /n pool, for every n a pool can have.
func TestPropHelperPrefixToMask(t *testing.T) {
	rc := runner(t)
	for n := 0; n <= 32; n++ {
		r, err := rc.Call("dhcp_fastpath.prefix_to_mask", [4]uint64{uint64(n)}, nil, nil, bpfnative.EndFlush)
		if err != nil || r.Fault.Faulted() {
			t.Fatalf("INCONCLUSIVE: call prefix_to_mask(%d): %v %v", n, err, r.Fault)
		}
		// the helper's result is stored as a native __u32 straight into the option
		var got [4]byte
		binary.LittleEndian.PutUint32(got[:], uint32(r.Ret))
		want := net.CIDRMask(n, 32)
		if net.IP(got[:]).String() != net.IP(want).String() {
			if vstat.Fail(t, "C03/helper/prefix_to_mask/differs", "prefix_to_mask(%d) puts %v on the wire, the mask of a /%d is %v", n, net.IP(got[:]), n, net.IP(want)) {
				continue
			}
		}
		vstat.Case(true, vstat.Hash("mask", n), func() any { return n }, "helper:prefix_to_mask")
	}
	vstat.Exhaustive(false)
}
