package c03

import (
	"fmt"

	"pgregory.net/rapid"
)

// flavour steers one TestProp* function towards a region of the case space; every function still
// draws the whole case (configuration, clients, history, frames, clocks) from rapid.
type flavour struct {
	name   string
	access []string // access kinds of the clients
	// "" | release | decline | expiry | swap | move | reshape | retire | release-offered : histories are built
	// around this event (swap / move / reshape also make client 0 appear a second time: new MAC on the same
	// circuit / same MAC on another circuit / same MAC with another access shape)
	event string
}

var identityEvents = map[string]bool{"swap": true, "move": true, "reshape": true}

func bytesEq(a, b []byte) bool { return string(a) == string(b) }

func hasCidAccess(a string) bool { return a == "relay82" || a == "l2opt82" }

func genCid(t *rapid.T, label string, idx int) hexb {
	n := pick(t, label+"len", 1, 4, 8, 15, 16, 31, 32)
	raw := rapid.SliceOfN(rapid.ByteRange(1, 255), n, n).Draw(t, label)
	raw[0] = byte(0x30 + idx) // distinct per entry
	return raw
}

func genMAC(t *rapid.T, label string, idx int) hexb {
	r := rapid.SliceOfN(rapid.Byte(), 4, 4).Draw(t, label+"r")
	if chance(t, label+"like53", 1, 16) {
		// a MAC whose bytes read "option 53, length 1, DISCOVER": inside a client identifier that is the first
		// option they sit at an offset where the program looks for the message type (KF-C03-18)
		r[1], r[2], r[3] = 0x35, 0x01, 0x01
	}
	if pick(t, label+"oui", 0, 0, 1) == 1 {
		return hexb{0x00, 0x1a, 0x2b, r[1], r[2], byte(idx + 1)}
	}
	return hexb{0x02 | r[0]&0xfc, byte(0x10 + idx), r[1], r[2], r[3], byte(idx + 1)}
}

func genTags(t *rapid.T, label string, cl *clientCfg, idx int) {
	switch cl.Access {
	case "vlan":
		cl.STag = uint16(100 + 10*idx + rapid.IntRange(0, 9).Draw(t, label+"vid"))
	case "qinq":
		cl.STag = uint16(pick(t, label+"stag", 1, 200, 2000, 2999)) + uint16(idx)
		cl.CTag = uint16(pick(t, label+"ctag", 1, 10, 1000, 2995)) + uint16(idx)
	}
}

// genPersona derives another appearance of client `of` (see clientCfg.Rel).  "" = not applicable.
func genPersona(t *rapid.T, label string, base clientCfg, of, idx int, rel string) (clientCfg, bool) {
	p := clientCfg{MAC: base.MAC, Access: base.Access, STag: base.STag, CTag: base.CTag, Cid: base.Cid, RemoteID: base.RemoteID, Rel: rel, Of: of}
	switch rel {
	case "cpe-swap":
		if !hasCidAccess(base.Access) {
			return p, false
		}
		p.MAC = genMAC(t, label+"mac", idx)
	case "circuit-move":
		if !hasCidAccess(base.Access) {
			return p, false
		}
		p.Cid = genCid(t, label+"cid", idx)
	case "reshape":
		var to []string
		switch base.Access {
		case "direct":
			to = []string{"relay82", "relay82", "l2opt82", "relay", "vlan", "qinq"}
		case "relay":
			to = []string{"relay82", "relay82", "direct"}
		case "relay82":
			to = []string{"direct", "relay", "l2opt82", "direct"}
		case "l2opt82":
			to = []string{"direct", "relay82", "relay"}
		default: // vlan, qinq
			to = []string{"direct", "relay82", "qinq"}
		}
		p.Access = pick(t, label+"to", to...)
		p.STag, p.CTag = 0, 0
		genTags(t, label, &p, idx)
		switch {
		case !hasCidAccess(p.Access):
			p.Cid, p.RemoteID = nil, nil
		case !hasCidAccess(base.Access):
			p.Cid = genCid(t, label+"cid", idx)
		}
	}
	return p, true
}

func pick[T any](t *rapid.T, label string, xs ...T) T {
	return xs[rapid.IntRange(0, len(xs)-1).Draw(t, label)]
}

func chance(t *rapid.T, label string, num, den int) bool {
	return rapid.IntRange(0, den-1).Draw(t, label) < num
}

func genCfg(t *rapid.T, fl flavour) caseCfg {
	c := caseCfg{}
	c.Bits = pick(t, "bits", 24, 24, 24, 16, 20, 22, 23, 23, 25, 25, 26, 26, 27, 27, 28, 28, 29, 29, 30, 30, 30, 24)
	a, b, d := rapid.IntRange(0, 255).Draw(t, "net1"), rapid.IntRange(0, 255).Draw(t, "net2"), rapid.IntRange(0, 255).Draw(t, "net3")
	switch pick(t, "netfam", 0, 0, 1, 2, 3) {
	case 0:
		c.Net = fmt.Sprintf("10.%d.%d.%d", a, b, d)
	case 1:
		c.Net = fmt.Sprintf("172.%d.%d.%d", 16+a%16, b, d)
	case 2:
		c.Net = fmt.Sprintf("192.168.%d.%d", b, d)
	default:
		c.Net = fmt.Sprintf("100.%d.%d.%d", 64+a%64, b, d)
	}
	c.GwHigh = chance(t, "gwhigh", 1, 3)
	for i, n := 0, pick(t, "ndns", 0, 1, 2, 2); i < n; i++ {
		c.DNS = append(c.DNS, pick(t, fmt.Sprintf("dns%d", i), "8.8.8.8", "1.1.1.1", "9.9.9.10", "10.53.0.2", "192.168.1.254", "208.67.222.123"))
	}
	if len(c.DNS) == 2 && c.DNS[0] == c.DNS[1] {
		c.DNS[1] = "8.8.4.4"
	}
	c.LeaseS = pick(t, "lease", 60, 90, 300, 3600, 7200, 43200, 86400, rapid.IntRange(60, 86400).Draw(t, "leaser"))
	c.Server = pick(t, "server", "gateway", "gateway", "outside", "outside", "outside", "zero")
	c.PoolID = pick[uint32](t, "poolid", 1, 1, 0, 7, 9999)
	k := pick(t, "k", 1, 2, 2, 3)
	for i := 0; i < k; i++ {
		l := fmt.Sprintf("cl%d.", i)
		cl := clientCfg{Access: pick(t, l+"access", fl.access...)}
		cl.MAC = genMAC(t, l+"mac", i)
		genTags(t, l, &cl, i)
		if hasCidAccess(cl.Access) {
			cl.Cid = genCid(t, l+"cid", i)
			if chance(t, l+"rid", 1, 3) {
				cl.RemoteID = hexb(fmt.Sprintf("bng-r%d", i))
			}
		}
		c.Clients = append(c.Clients, cl)
	}
	// further appearances of the same clients: replacement CPE, other circuit, other access shape
	for i := 0; i < k && len(c.Clients) < 7; i++ {
		for _, rel := range []string{"cpe-swap", "circuit-move", "reshape"} {
			l := fmt.Sprintf("cl%d.%s.", i, rel)
			want := chance(t, l+"want", 1, 3)
			if i == 0 && identityEvents[fl.event] {
				want = want || map[string]string{"swap": "cpe-swap", "move": "circuit-move", "reshape": "reshape"}[fl.event] == rel
			}
			if !want || len(c.Clients) >= 7 {
				continue
			}
			if p, ok := genPersona(t, l, c.Clients[i], i, len(c.Clients), rel); ok {
				c.Clients = append(c.Clients, p)
			}
		}
	}
	// further pool definitions for control-plane events
	np := 0
	if fl.event == "pools" {
		np = pick(t, "npools", 2, 3)
	} else if chance(t, "withpools", 1, 3) {
		np = pick(t, "npools", 1, 2)
	}
	for i := 0; i < np; i++ {
		l := fmt.Sprintf("pool%d.", i)
		d := poolDef{ID: c.PoolID + uint32(pick(t, l+"idoff", 1, 1, 5, 1000))}
		if (i == 0 && fl.event == "pools") || (i != 1 && chance(t, l+"dup", 1, 2)) {
			d.ID = c.PoolID // a second definition for the id that is taken
		}
		d.Bits = pick(t, l+"bits", 24, 16, 20, 23, 25, 26, 27, 28, 29, 30)
		d.Net = fmt.Sprintf("198.18.%d.0", 16*i+rapid.IntRange(0, 15).Draw(t, l+"net"))
		d.GwHigh = chance(t, l+"gwhigh", 1, 3)
		for j, n := 0, pick(t, l+"ndns", 0, 1, 2, 2); j < n; j++ {
			d.DNS = append(d.DNS, pick(t, fmt.Sprintf("%sdns%d", l, j), "8.8.4.4", "1.0.0.1", "149.112.112.112", "10.53.0.3", "192.168.1.253", "208.67.220.220"))
		}
		if len(d.DNS) == 2 && d.DNS[0] == d.DNS[1] {
			d.DNS[1] = "9.9.9.9"
		}
		d.LeaseS = pick(t, l+"lease", 60, 120, 600, 3600, 65535, 65536, 86400, 604800, rapid.IntRange(60, 86400).Draw(t, l+"leaser"))
		c.Pools = append(c.Pools, d)
	}
	return c
}

func genVariants(t *rapid.T, label string) []variant {
	n := pick(t, label+"nvar", 1, 2, 2, 3)
	vs := make([]variant, 0, n)
	for i := 0; i < n; i++ {
		l := fmt.Sprintf("%s.v%d.", label, i)
		v := variant{}
		v.Enc.Tags = pick(t, l+"tags", 0, 0, 0, 1, 2, 3, 4)
		// VLAN ids no client is keyed by (clients use 1..2999)
		v.Enc.Outer = uint16(3000 + rapid.IntRange(0, 1094).Draw(t, l+"outer"))
		v.Enc.Inner = uint16(3000 + rapid.IntRange(0, 1094).Draw(t, l+"inner"))
		v.Enc.PCP = byte(pick(t, l+"pcp", 0, 0, 5, 7))
		v.Enc.IHL = pick(t, l+"ihl", 5, 5, 5, 5, 5, 6, 7, 10, 15, rapid.IntRange(5, 15).Draw(t, l+"ihlr"))
		v.Enc.OptZero = v.Enc.IHL > 5 && chance(t, l+"optzero", 1, 3)
		// the request's IP header fields that survive into the reply header, over their whole range
		v.Enc.Hdr = true
		v.Enc.ID = uint16(pick(t, l+"id", 0, 0x1234, 0xffff, 0xfffe, 0x8000, 0x00ff, 0xff00, int(rapid.Uint16().Draw(t, l+"idr")), int(rapid.Uint16().Draw(t, l+"idr2"))))
		v.Enc.TOS = byte(pick(t, l+"tos", 0, 0, 0x10, 0xc0, 0xb8, 0xff, 0x01, int(rapid.Byte().Draw(t, l+"tosr"))))
		v.Enc.Frag = uint16(pick(t, l+"frag", 0, 0, 0x4000))
		v.Enc.TTL = byte(pick(t, l+"ttl", 64, 128, 255, 1, 63, rapid.IntRange(1, 255).Draw(t, l+"ttlr")))
		v.Steer = chance(t, l+"steer", 2, 5)
		v.Clock = pick(t, l+"clock", "uptime", "uptime", "wall", "wall", "past")
		v.ClockS = rapid.Uint32().Draw(t, l+"clocks")
		v.Place = pick(t, l+"place", 0, 0, 1)
		vs = append(vs, v)
	}
	return vs
}

// genMsg draws one client message (option layout, frame variants); kind "" = drawn.
func genMsg(t *rapid.T, label string, k int, kind string, c int) op {
	o := op{Kind: kind, C: c}
	if kind == "" {
		o.Kind = pick(t, label+"kind", "discover", "discover", "request", "request", "request", "release", "decline")
	}
	if c < 0 {
		o.C = rapid.IntRange(0, k-1).Draw(t, label+"c")
	}
	o.Addr = pick(t, label+"addr", "own", "own", "own", "other", "none")
	o.Shape = pick(t, label+"shape", "selecting", "initreboot", "renewing")
	o.Layout = pick(t, label+"layout", 0, 0, 0, 1, 2, 3, 4, 5, 6, 7)
	o.P82 = pick(t, label+"p82", 0, 0, 12, 13, 14, 15, 16, 17, 18, 19, -1, -1)
	o.Area = pick(t, label+"area", 100, 0, 60, 63, 64, 64, 65, 200, 300, 312, 312, rapid.IntRange(4, 312).Draw(t, label+"arear"))
	o.NoEnd = chance(t, label+"noend", 1, 8)
	o.Bcast = chance(t, label+"bcast", 1, 2)
	o.Extra = chance(t, label+"extra", 1, 2)
	o.Fill = chance(t, label+"fill", 1, 4)
	if chance(t, label+"host", 1, 3) {
		o.Hostname = pick(t, label+"hostname", "cpe", "ROUTER-R1", "home-gw-0123456789")
	}
	o.Vars = genVariants(t, label)
	return o
}

// dora: DISCOVER then REQUEST for the offered address (the frames of these set-up messages are probes as
// well); both parse in userspace, so that the history reaches the state it is built for.
func genDORA(t *rapid.T, label string, k, c int) []op {
	d := genMsg(t, label+"D.", k, "discover", c)
	r := genMsg(t, label+"R.", k, "request", c)
	d.NoEnd, r.NoEnd = false, false
	r.Addr = "own"
	if r.Shape == "renewing" {
		r.Shape = "selecting"
	}
	return []op{d, r}
}

// family: client b and every other appearance of it.
func family(c caseCfg, b int) []int {
	f := []int{b}
	for i, cl := range c.Clients {
		if cl.Rel != "" && cl.Of == b {
			f = append(f, i)
		}
	}
	return f
}

func related(c caseCfg, b int, rel string) int {
	for i, cl := range c.Clients {
		if cl.Rel == rel && cl.Of == b {
			return i
		}
	}
	return -1
}

// genSweep: one or two probes from EVERY appearance of a client (old and new MAC, old and new circuit-id,
// VLAN pair), shaped so that the fast path can answer if it holds an entry: option 53 where the program
// looks for it, an options area the reply fits in, option 82 once where the program finds it (the
// circuit-id entry decides) and once where it does not (the MAC entry decides).
func genSweep(t *rapid.T, label string, c caseCfg, fam []int) []op {
	var ops []op
	k := len(c.Clients)
	rot := rapid.IntRange(0, len(fam)-1).Draw(t, label+"rot")
	for j := range fam {
		p := fam[(j+rot)%len(fam)]
		l := fmt.Sprintf("%ssw%d.", label, p)
		o := genMsg(t, l, k, pick(t, l+"kind", "discover", "discover", "request"), p)
		o.Layout = pick(t, l+"lay", 0, 0, 0, 1, 2, 3, 4, 5)
		o.Area = pick(t, l+"ar", 100, 100, 64, 65, 200, 300, 312)
		o.NoEnd = false
		if o.Kind == "request" {
			o.Addr, o.Shape = "own", "renewing" // the one REQUEST the fast path answers itself
		}
		if len(o.Vars) > 2 {
			o.Vars = o.Vars[:2]
		}
		if !hasCidAccess(c.Clients[p].Access) {
			ops = append(ops, o)
			continue
		}
		fixed := pick(t, l+"p82", 0, 0, 12, 13, 14, 15, 16, 17, 18, 19)
		switch pick(t, l+"both", 0, 1, 2, 2) {
		case 0:
			o.P82 = fixed
			ops = append(ops, o)
		case 1:
			o.P82 = -1
			ops = append(ops, o)
		default:
			o2 := o
			o.P82, o2.P82 = -1, fixed
			o2.Vars = o2.Vars[:1]
			ops = append(ops, o, o2)
		}
	}
	return ops
}

func genCase(t *rapid.T, fl flavour) tcase {
	tc := tcase{Name: fl.name, Cfg: genCfg(t, fl)}
	cfg := tc.Cfg
	k := len(cfg.Clients)
	var bases []int
	for i, cl := range cfg.Clients {
		if cl.Rel == "" {
			bases = append(bases, i)
		}
	}
	lease := cfg.LeaseS
	add := func(ops ...op) { tc.Ops = append(tc.Ops, ops...) }
	// every client gets a lease first with high probability (the cache entry is what the property is about)
	for _, c := range bases {
		if c == 0 || chance(t, fmt.Sprintf("dora%d", c), 3, 4) {
			add(genDORA(t, fmt.Sprintf("s%d.", c), k, c)...)
		}
	}
	probeKinds := func(label string, c int, n int) {
		for i := 0; i < n; i++ {
			kind := pick(t, fmt.Sprintf("%sp%d.kind", label, i), "discover", "request", "request")
			add(genMsg(t, fmt.Sprintf("%sp%d.", label, i), k, kind, c))
		}
	}
	advance := func(label string) op {
		return op{Kind: "advance", Secs: pick(t, label+"secs", 1, 30, lease/2, lease-1, lease+1, lease+1, lease+61, 2*lease+5)}
	}
	sure := func(o op) op { o.NoEnd = false; return o }
	// takeover: appearance p takes the client's lease over from whatever appearance holds it now
	takeover := func(l string, p int) {
		if chance(t, l+"dora", 1, 2) || cfg.Clients[p].Rel == "cpe-swap" {
			add(genDORA(t, l+"t.", k, p)...)
			return
		}
		r := sure(genMsg(t, l+"t.", k, "request", p))
		r.Addr = "own"
		add(r)
	}
	event := func(l string, ev string, b int) {
		fam := family(cfg, b)
		switch ev {
		case "release", "decline":
			// sent by any appearance that shares the MAC (a RELEASE need not look like the REQUEST that made the lease)
			who := b
			if p := fam[rapid.IntRange(0, len(fam)-1).Draw(t, l+"who")]; bytesEq(cfg.Clients[p].MAC, cfg.Clients[b].MAC) {
				who = p
			}
			add(genMsg(t, l+"e.", k, ev, who))
			if len(fam) > 1 && chance(t, l+"sweep", 1, 2) {
				add(genSweep(t, l+"a.", cfg, fam)...)
			} else {
				probeKinds(l, b, rapid.IntRange(1, 3).Draw(t, l+"nprobe"))
			}
		case "expiry":
			add(op{Kind: "advance", Secs: lease + pick(t, l+"over", 1, 1, 30, 61, lease)})
			probeKinds(l+"u.", b, rapid.IntRange(0, 2).Draw(t, l+"nprobe1"))
			add(op{Kind: "cleanup"})
			if len(fam) > 1 && chance(t, l+"sweep", 1, 2) {
				add(genSweep(t, l+"a.", cfg, fam)...)
			} else {
				probeKinds(l+"c.", b, rapid.IntRange(1, 3).Draw(t, l+"nprobe2"))
			}
		case "swap", "move", "reshape":
			p := related(cfg, b, map[string]string{"swap": "cpe-swap", "move": "circuit-move", "reshape": "reshape"}[ev])
			if ev == "swap" {
				// the old device may have gone properly (RELEASE, or its lease ran out) before the new one is plugged in
				switch pick(t, l+"pre", "", "", "", "", "", "release", "expire") {
				case "release":
					add(sure(genMsg(t, l+"pre.", k, "release", b)))
				case "expire":
					add(op{Kind: "advance", Secs: lease + pick(t, l+"preover", 1, 61)}, op{Kind: "cleanup"})
				}
			}
			takeover(l, p)
			add(genSweep(t, l+"a.", cfg, fam)...)
			if chance(t, l+"back", 1, 3) {
				takeover(l+"back.", b)
				add(genSweep(t, l+"b.", cfg, fam)...)
			}
		case "retire":
			// the lease runs out and the client comes back with a DISCOVER before the cleanup tick: the lease is retired on the spot
			p := fam[rapid.IntRange(0, len(fam)-1).Draw(t, l+"who")]
			if cfg.Clients[p].Rel == "cpe-swap" {
				p = b
			}
			add(op{Kind: "advance", Secs: lease + pick(t, l+"over", 1, 1, 30, 59, lease)})
			add(sure(genMsg(t, l+"d.", k, "discover", p)))
			add(genSweep(t, l+"a.", cfg, fam)...)
			r := sure(genMsg(t, l+"r.", k, "request", p))
			r.Addr = "own"
			add(r)
			if chance(t, l+"again", 1, 2) {
				add(genSweep(t, l+"b.", cfg, fam)...)
			}
		case "release-offered":
			// RELEASE of an address that was only offered
			if chance(t, l+"first", 2, 3) {
				add(sure(genMsg(t, l+"rel.", k, "release", b)))
			} else {
				add(op{Kind: "advance", Secs: lease + 61}, op{Kind: "cleanup"})
			}
			add(sure(genMsg(t, l+"d.", k, "discover", b)))
			add(sure(genMsg(t, l+"ro.", k, "release", b)))
			add(genSweep(t, l+"a.", cfg, fam)...)
		}
	}
	sweepAll := func(l string) {
		for _, b := range bases {
			add(genSweep(t, fmt.Sprintf("%sb%d.", l, b), cfg, family(cfg, b))...)
		}
	}
	// control-plane events; every one is followed by probes from every client
	control := func(l string, ev string) {
		dup, second := -1, -1
		for i, d := range cfg.Pools {
			if d.ID == cfg.PoolID && dup < 0 {
				dup = i + 1
			}
			if d.ID != cfg.PoolID && second < 0 {
				second = i + 1
			}
		}
		switch ev {
		case "pool-dup":
			if dup < 0 {
				return
			}
			add(op{Kind: "addpool", P: dup})
			sweepAll(l + "a.")
		case "pool-second":
			if second < 0 {
				return
			}
			add(op{Kind: "addpool", P: second})
			if chance(t, l+"mkdefault", 3, 4) {
				add(op{Kind: "setdefault", P: second})
			}
			// a client that holds nothing gets its address from whatever pool is the default now
			c := bases[rapid.IntRange(0, len(bases)-1).Draw(t, l+"c")]
			add(sure(genMsg(t, l+"rel.", k, "release", c)))
			add(genDORA(t, l+"n.", k, c)...)
			sweepAll(l + "a.")
			if chance(t, l+"dup2", 1, 3) {
				add(op{Kind: "addpool", P: second}) // the second pool's id is taken now, too
				sweepAll(l + "b.")
			}
		case "pool-remove":
			p := pick(t, l+"which", 0, 0, second)
			if p < 0 {
				p = 0
			}
			add(op{Kind: "rmpool", P: p})
			sweepAll(l + "a.")
			if chance(t, l+"readd", 2, 3) {
				q := p
				if p == 0 && dup > 0 && chance(t, l+"other-def", 1, 2) {
					q = dup // the id comes back with another definition
				}
				add(op{Kind: "addpool", P: q})
				if chance(t, l+"dora", 1, 2) {
					add(genDORA(t, l+"n.", k, bases[rapid.IntRange(0, len(bases)-1).Draw(t, l+"c")])...)
				}
				sweepAll(l + "b.")
			}
		case "srvcfg":
			add(op{Kind: "srvcfg", Alt: chance(t, l+"alt", 1, 2)})
			sweepAll(l + "a.")
		}
	}
	ctlKinds := []string{"pool-dup", "pool-second", "srvcfg", "pool-remove"}
	evKinds := []string{"release", "decline", "expiry", "retire", "release-offered"}
	possible := func(ev string, b int) bool {
		switch ev {
		case "swap":
			return related(cfg, b, "cpe-swap") >= 0
		case "move":
			return related(cfg, b, "circuit-move") >= 0
		case "reshape":
			return related(cfg, b, "reshape") >= 0
		}
		return true
	}
	drawEvent := func(l string) {
		b := bases[rapid.IntRange(0, len(bases)-1).Draw(t, l+"c")]
		ev := fl.event
		if identityEvents[ev] || ev == "retire" || ev == "release-offered" {
			b = 0 // the flavour's own event is built around client 0 (which has the appearance it needs)
			if !chance(t, l+"own", 2, 3) {
				ev = ""
			}
		}
		if ev == "pools" {
			if chance(t, l+"ctlhere", 1, 2) {
				control(l, pick(t, l+"ctl", ctlKinds...))
				return
			}
			ev = ""
		}
		if ev == "" && len(cfg.Pools) > 0 && chance(t, l+"isctl", 1, 3) {
			control(l, pick(t, l+"ctl", ctlKinds...))
			return
		}
		if ev == "" {
			cand := append([]string{}, evKinds...)
			for _, e := range []string{"swap", "move", "reshape"} {
				if possible(e, b) {
					cand = append(cand, e, e)
				}
			}
			ev = pick(t, l+"event", cand...)
		}
		if !possible(ev, b) {
			ev = "release"
		}
		event(l, ev, b)
	}
	if identityEvents[fl.event] || fl.event == "retire" || fl.event == "release-offered" {
		event("ev0.", fl.event, 0)
	}
	if fl.event == "pools" {
		// each control-plane event with high probability, the disruptive one (RemovePool) last
		for i, ev := range ctlKinds {
			if chance(t, fmt.Sprintf("ctl%d", i), 3, 4) {
				control(fmt.Sprintf("ctl%d.", i), ev)
			}
		}
	}
	n := rapid.IntRange(2, 7).Draw(t, "nbody")
	for i := 0; i < n; i++ {
		l := fmt.Sprintf("b%d.", i)
		switch pick(t, l+"what", "msg", "msg", "msg", "msg", "event", "advance", "cleanup") {
		case "msg":
			add(genMsg(t, l, k, "", -1))
		case "advance":
			add(advance(l))
		case "cleanup":
			add(op{Kind: "cleanup"})
		case "event":
			drawEvent(l)
		}
	}
	return tc
}
