package c03

import (
	"fmt"

	"pgregory.net/rapid"
)

// flavour steers one TestProp* function towards a region of the case space; every function still
// draws the whole case (configuration, clients, history, frames, clocks) from rapid.
type flavour struct {
	name   string
	access []string // access kinds of the clients
	event  string   // "" | release | decline | expiry : histories are built around this event
}

func pick[T any](t *rapid.T, label string, xs ...T) T {
	return xs[rapid.IntRange(0, len(xs)-1).Draw(t, label)]
}

func chance(t *rapid.T, label string, num, den int) bool {
	return rapid.IntRange(0, den-1).Draw(t, label) < num
}

func genCfg(t *rapid.T, fl flavour) caseCfg {
	c := caseCfg{}
	c.Bits = pick(t, "bits", 24, 24, 24, 16, 20, 22, 23, 23, 25, 25, 26, 26, 27, 27, 28, 28, 29, 29, 30, 30, 30, 24)
	a, b, d := rapid.IntRange(0, 255).Draw(t, "net1"), rapid.IntRange(0, 255).Draw(t, "net2"), rapid.IntRange(0, 255).Draw(t, "net3")
	switch pick(t, "netfam", 0, 0, 1, 2, 3) {
	case 0:
		c.Net = fmt.Sprintf("10.%d.%d.%d", a, b, d)
	case 1:
		c.Net = fmt.Sprintf("172.%d.%d.%d", 16+a%16, b, d)
	case 2:
		c.Net = fmt.Sprintf("192.168.%d.%d", b, d)
	default:
		c.Net = fmt.Sprintf("100.%d.%d.%d", 64+a%64, b, d)
	}
	c.GwHigh = chance(t, "gwhigh", 1, 3)
	for i, n := 0, pick(t, "ndns", 0, 1, 2, 2); i < n; i++ {
		c.DNS = append(c.DNS, pick(t, fmt.Sprintf("dns%d", i), "8.8.8.8", "1.1.1.1", "9.9.9.10", "10.53.0.2", "192.168.1.254", "208.67.222.123"))
	}
	if len(c.DNS) == 2 && c.DNS[0] == c.DNS[1] {
		c.DNS[1] = "8.8.4.4"
	}
	c.LeaseS = pick(t, "lease", 60, 90, 300, 3600, 7200, 43200, 86400, rapid.IntRange(60, 86400).Draw(t, "leaser"))
	c.Server = pick(t, "server", "gateway", "gateway", "outside", "outside", "outside", "zero")
	c.PoolID = pick[uint32](t, "poolid", 1, 1, 0, 7, 9999)
	k := pick(t, "k", 1, 2, 2, 3)
	for i := 0; i < k; i++ {
		cl := clientCfg{Access: pick(t, fmt.Sprintf("access%d", i), fl.access...)}
		r := rapid.SliceOfN(rapid.Byte(), 4, 4).Draw(t, fmt.Sprintf("macr%d", i))
		cl.MAC = hexb{0x02 | r[0]&0xfc, byte(0x10 + i), r[1], r[2], r[3], byte(i + 1)}
		if pick(t, fmt.Sprintf("macoui%d", i), 0, 0, 1) == 1 {
			cl.MAC = hexb{0x00, 0x1a, 0x2b, r[1], r[2], byte(i + 1)}
		}
		switch cl.Access {
		case "vlan":
			cl.STag = uint16(100 + 10*i + rapid.IntRange(0, 9).Draw(t, fmt.Sprintf("vid%d", i)))
		case "qinq":
			cl.STag = uint16(pick(t, fmt.Sprintf("stag%d", i), 1, 200, 2000, 2999)) + uint16(i)
			cl.CTag = uint16(pick(t, fmt.Sprintf("ctag%d", i), 1, 10, 1000, 2995)) + uint16(i)
		case "relay82", "l2opt82":
			n := pick(t, fmt.Sprintf("cidlen%d", i), 1, 4, 8, 15, 16, 31, 32)
			raw := rapid.SliceOfN(rapid.ByteRange(1, 255), n, n).Draw(t, fmt.Sprintf("cid%d", i))
			raw[0] = byte(0x30 + i) // distinct per client
			cl.Cid = raw
			if chance(t, fmt.Sprintf("rid%d", i), 1, 3) {
				cl.RemoteID = hexb(fmt.Sprintf("bng-r%d", i))
			}
		}
		c.Clients = append(c.Clients, cl)
	}
	return c
}

func genVariants(t *rapid.T, label string) []variant {
	n := pick(t, label+"nvar", 1, 2, 2, 3)
	vs := make([]variant, 0, n)
	for i := 0; i < n; i++ {
		l := fmt.Sprintf("%s.v%d.", label, i)
		v := variant{}
		v.Enc.Tags = pick(t, l+"tags", 0, 0, 0, 1, 2, 3, 4)
		// VLAN ids no client is keyed by (clients use 1..2999)
		v.Enc.Outer = uint16(3000 + rapid.IntRange(0, 1094).Draw(t, l+"outer"))
		v.Enc.Inner = uint16(3000 + rapid.IntRange(0, 1094).Draw(t, l+"inner"))
		v.Enc.PCP = byte(pick(t, l+"pcp", 0, 0, 5, 7))
		v.Enc.IHL = pick(t, l+"ihl", 5, 5, 5, 5, 5, 6, 7, 10, 15, rapid.IntRange(5, 15).Draw(t, l+"ihlr"))
		v.Enc.OptZero = v.Enc.IHL > 5 && chance(t, l+"optzero", 1, 3)
		v.Clock = pick(t, l+"clock", "uptime", "uptime", "wall", "wall", "past")
		v.ClockS = rapid.Uint32().Draw(t, l+"clocks")
		v.Place = pick(t, l+"place", 0, 0, 1)
		vs = append(vs, v)
	}
	return vs
}

// genMsg draws one client message (option layout, frame variants); kind "" = drawn.
func genMsg(t *rapid.T, label string, k int, kind string, c int) op {
	o := op{Kind: kind, C: c}
	if kind == "" {
		o.Kind = pick(t, label+"kind", "discover", "discover", "request", "request", "request", "release", "decline")
	}
	if c < 0 {
		o.C = rapid.IntRange(0, k-1).Draw(t, label+"c")
	}
	o.Addr = pick(t, label+"addr", "own", "own", "own", "other", "none")
	o.Shape = pick(t, label+"shape", "selecting", "initreboot", "renewing")
	o.Layout = pick(t, label+"layout", 0, 0, 0, 1, 2, 3, 4, 5, 6, 7)
	o.P82 = pick(t, label+"p82", 0, 0, 12, 13, 14, 15, 16, 17, 18, 19, -1, -1)
	o.Area = pick(t, label+"area", 100, 0, 60, 63, 64, 64, 65, 200, 300, 312, 312, rapid.IntRange(4, 312).Draw(t, label+"arear"))
	o.NoEnd = chance(t, label+"noend", 1, 8)
	o.Bcast = chance(t, label+"bcast", 1, 2)
	o.Extra = chance(t, label+"extra", 1, 2)
	o.Fill = chance(t, label+"fill", 1, 4)
	if chance(t, label+"host", 1, 3) {
		o.Hostname = pick(t, label+"hostname", "cpe", "ROUTER-R1", "home-gw-0123456789")
	}
	o.Vars = genVariants(t, label)
	return o
}

// dora: DISCOVER then REQUEST for the offered address, large enough option areas that the server-side
// state is what matters (the frames of these set-up messages are probes as well).
func genDORA(t *rapid.T, label string, k, c int) []op {
	d := genMsg(t, label+"D.", k, "discover", c)
	r := genMsg(t, label+"R.", k, "request", c)
	r.Addr = "own"
	if r.Shape == "renewing" {
		r.Shape = "selecting"
	}
	return []op{d, r}
}

func genCase(t *rapid.T, fl flavour) tcase {
	tc := tcase{Name: fl.name, Cfg: genCfg(t, fl)}
	k := len(tc.Cfg.Clients)
	lease := tc.Cfg.LeaseS
	// every client gets a lease first with high probability (the cache entry is what the property is about)
	for c := 0; c < k; c++ {
		if c == 0 || chance(t, fmt.Sprintf("dora%d", c), 3, 4) {
			tc.Ops = append(tc.Ops, genDORA(t, fmt.Sprintf("s%d.", c), k, c)...)
		}
	}
	probeKinds := func(label string, c int, n int) {
		for i := 0; i < n; i++ {
			kind := pick(t, fmt.Sprintf("%sp%d.kind", label, i), "discover", "request", "request")
			tc.Ops = append(tc.Ops, genMsg(t, fmt.Sprintf("%sp%d.", label, i), k, kind, c))
		}
	}
	advance := func(label string) op {
		return op{Kind: "advance", Secs: pick(t, label+"secs", 1, 30, lease/2, lease-1, lease+1, lease+1, lease+61, 2*lease+5)}
	}
	n := rapid.IntRange(2, 7).Draw(t, "nbody")
	for i := 0; i < n; i++ {
		l := fmt.Sprintf("b%d.", i)
		switch pick(t, l+"what", "msg", "msg", "msg", "msg", "event", "advance", "cleanup") {
		case "msg":
			tc.Ops = append(tc.Ops, genMsg(t, l, k, "", -1))
		case "advance":
			tc.Ops = append(tc.Ops, advance(l))
		case "cleanup":
			tc.Ops = append(tc.Ops, op{Kind: "cleanup"})
		case "event":
			c := rapid.IntRange(0, k-1).Draw(t, l+"c")
			ev := fl.event
			if ev == "" {
				ev = pick(t, l+"event", "release", "decline", "expiry")
			}
			switch ev {
			case "release", "decline":
				tc.Ops = append(tc.Ops, genMsg(t, l+"e.", k, ev, c))
				probeKinds(l, c, rapid.IntRange(1, 3).Draw(t, l+"nprobe"))
			case "expiry":
				tc.Ops = append(tc.Ops, op{Kind: "advance", Secs: lease + pick(t, l+"over", 1, 1, 30, 61, lease)})
				probeKinds(l+"u.", c, rapid.IntRange(0, 2).Draw(t, l+"nprobe1"))
				tc.Ops = append(tc.Ops, op{Kind: "cleanup"})
				probeKinds(l+"c.", c, rapid.IntRange(1, 3).Draw(t, l+"nprobe2"))
			}
		}
	}
	return tc
}
