package c03

// C03 — the kernel DHCP fast path answers exactly as the userspace server would.
//
// A real dhcp.Server / dhcp.PoolManager write the fast-path cache through a real ebpf.Loader whose
// tables are REAL kernel maps created with the geometry declared in bpf/maps.h (hook
// pkg/ebpf/verif_c03.go).  Every generated client message is serialised as an Ethernet frame in one to
// three encapsulations, the kernel maps are copied raw into the natively compiled bpf/dhcp_fastpath.c
// (bngverif/internal/bpfnative) and the program is run on each frame under a generated kernel clock.
// Then the SAME BOOTP request is parsed and handed to the userspace handler (virtual time,
// testing/synctest) and the replies are compared.
//
// frames_test.go  frame / option-layout serialiser, independent reply parser
// world_test.go   kernel maps, server set-up, executor and oracle
// gen_test.go     rapid generators
// props_test.go   TestProp* / TestReplay*

import (
	"encoding/json"
	"fmt"
	"os"
	"runtime"
	"runtime/debug"
	"sort"
	"strings"
	"testing"

	"bngverif/internal/vstat"
)

func TestMain(m *testing.M) {
	// one single-threaded history at a time per process
	runtime.GOMAXPROCS(2)
	debug.SetGCPercent(400)
	vstat.Main(m, "C03")
}

type violation struct {
	Sig string
	Msg string
}

// report hands the violations of one executed case to vstat: unlisted ones first (fatal), then the
// listed known findings (each counted once per case).
func report(t vstat.Fataler, vs []violation, history func() string) []string {
	t.Helper()
	var cls []string
	if os.Getenv("C03_DISCOVER") != "" {
		// development aid: tally every signature instead of stopping at the first unlisted one
		for _, v := range vs {
			cls = append(cls, "sig:"+v.Sig)
		}
		return cls
	}
	for _, v := range vs {
		if !vstat.IsListed(v.Sig) {
			vstat.Fail(t, v.Sig, "%s\nhistory:\n%s", v.Msg, history())
			return cls
		}
	}
	seen := map[string]bool{}
	for _, v := range vs {
		if seen[v.Sig] {
			continue
		}
		seen[v.Sig] = true
		vstat.Fail(t, v.Sig, "%s", v.Msg)
		cls = append(cls, "kf:"+v.Sig)
	}
	return cls
}

func jsonOf(v any) string {
	b, _ := json.Marshal(v)
	return string(b)
}

func sortedSet(m map[string]bool) []string {
	ks := make([]string, 0, len(m))
	for k := range m {
		ks = append(ks, k)
	}
	sort.Strings(ks)
	return ks
}

func joinLines(ls []string) string { return strings.Join(ls, "\n") }

func sprintf(f string, a ...any) string { return fmt.Sprintf(f, a...) }
