package c03

import (
	"encoding/binary"
	"encoding/hex"
	"encoding/json"
	"fmt"
)

// ---------------------------------------------------------------------------
// request frames: Ethernet [+802.1Q | +802.1ad+802.1Q] / IPv4 (IHL 5..15) / UDP / BOOTP
// ---------------------------------------------------------------------------

type hexb []byte

func (h hexb) MarshalJSON() ([]byte, error) { return json.Marshal(hex.EncodeToString(h)) }
func (h *hexb) UnmarshalJSON(b []byte) error {
	var s string
	if err := json.Unmarshal(b, &s); err != nil {
		return err
	}
	v, err := hex.DecodeString(s)
	*h = v
	return err
}

const (
	etIPv4 = 0x0800
	etQ    = 0x8100
	etAD   = 0x88a8

	dhcpDiscover = 1
	dhcpOffer    = 2
	dhcpRequest  = 3
	dhcpDecline  = 4
	dhcpAck      = 5
	dhcpNak      = 6
	dhcpRelease  = 7
)

// bootpMsg is the semantic content of one client message plus its option layout.
type bootpMsg struct {
	Type     byte
	Xid      uint32
	Secs     uint16
	Bcast    bool
	Ciaddr   [4]byte
	Giaddr   [4]byte
	Chaddr   [6]byte
	ReqIP    []byte // option 50 (nil = absent)
	ServerID []byte // option 54 (nil = absent)
	Cid      []byte // option 82 sub-option 1 (nil = no option 82)
	RemoteID []byte // option 82 sub-option 2
	Hostname string
	Fill     bool // sname / file carry client garbage

	Layout int  // where option 53 sits, see layoutNames
	P82    int  // where option 82 sits: 0 right after 53 (position 3 when 53 is first), 12..19 that position, -1 after all other options
	Area   int  // target size of the options area (grown to the content if smaller)
	NoEnd  bool // no END option (padding only)
	ExtraO bool // parameter request list / client-id / max message size present
}

var layoutNames = []string{"53@0", "53@1-after-pad", "53@3", "53@4", "53@5", "53@6", "53@9-after-client-id", "53-after-4-options"}

// pos53 is the offset of option 53 inside the options area for each layout.
var pos53 = []int{0, 1, 3, 4, 5, 6, 9, -1}

// fastPathFinds53: the positions the statement's "any option layout" must cover include ones the
// fixed-position scan of the program does not look at (it then has to hand the frame over untouched).
func fastPathFinds53(layout int) bool { return layout >= 0 && layout <= 5 }

func (m *bootpMsg) clientID() []byte { return append([]byte{61, 7, 1}, m.Chaddr[:]...) }

func (m *bootpMsg) opt82() []byte {
	if m.Cid == nil {
		return nil
	}
	sub := append([]byte{1, byte(len(m.Cid))}, m.Cid...)
	if len(m.RemoteID) > 0 {
		sub = append(sub, append([]byte{2, byte(len(m.RemoteID))}, m.RemoteID...)...)
	}
	return append([]byte{82, byte(len(sub))}, sub...)
}

// payload serialises the BOOTP message; cidPos is the offset of option 82 in the options area (-1 none).
func (m *bootpMsg) payload() (p []byte, cidPos int, area int) {
	p = make([]byte, 240)
	p[0], p[1], p[2] = 1, 1, 6
	binary.BigEndian.PutUint32(p[4:], m.Xid)
	binary.BigEndian.PutUint16(p[8:], m.Secs)
	if m.Bcast {
		p[10] = 0x80
	}
	copy(p[12:16], m.Ciaddr[:])
	copy(p[24:28], m.Giaddr[:])
	copy(p[28:34], m.Chaddr[:])
	if m.Fill {
		for i := 44; i < 236; i++ {
			p[i] = byte(0x41 + i%23)
		}
	}
	binary.BigEndian.PutUint32(p[236:], 0x63825363)

	var o []byte
	usedCID, usedPRL, usedMax := false, false, false
	prl := []byte{55, 4, 1, 3, 6, 15}
	maxsz := []byte{57, 2, 2, 64}
	switch m.Layout {
	case 0:
	case 1:
		o = append(o, 0)
	case 2:
		o = append(o, 116, 1, 1)
	case 3:
		o = append(o, maxsz...)
		usedMax = true
	case 4:
		o = append(o, 0)
		o = append(o, maxsz...)
		usedMax = true
	case 5:
		o = append(o, 116, 1, 1, 23, 1, 64)
	case 6:
		o = append(o, m.clientID()...)
		usedCID = true
	default:
		o = append(o, prl...)
		o = append(o, m.clientID()...)
		o = append(o, maxsz...)
		o = append(o, 12, 2, 'h', 'i')
		usedCID, usedPRL, usedMax = true, true, true
	}
	o = append(o, 53, 1, m.Type)
	cidPos = -1
	o82 := m.opt82()
	placed := o82 == nil
	if !placed && m.P82 >= 0 {
		switch gap := m.P82 - len(o); {
		case m.P82 == 0 || gap == 0:
			cidPos = len(o)
			o = append(o, o82...)
			placed = true
		case gap == 1:
			o = append(o, 0)
			cidPos = len(o)
			o = append(o, o82...)
			placed = true
		case gap >= 2:
			o = append(o, 55, byte(gap-2))
			for i := 0; i < gap-2; i++ {
				o = append(o, []byte{1, 3, 6, 15, 28, 42, 51, 58, 59, 119, 121}[i%11])
			}
			usedPRL = true
			cidPos = len(o)
			o = append(o, o82...)
			placed = true
		}
	}
	if m.ReqIP != nil {
		o = append(o, 50, 4)
		o = append(o, m.ReqIP...)
	}
	if m.ServerID != nil {
		o = append(o, 54, 4)
		o = append(o, m.ServerID...)
	}
	if m.ExtraO {
		if !usedCID {
			o = append(o, m.clientID()...)
		}
		if !usedPRL {
			o = append(o, prl...)
		}
		if !usedMax {
			o = append(o, maxsz...)
		}
	}
	if m.Hostname != "" {
		o = append(o, 12, byte(len(m.Hostname)))
		o = append(o, m.Hostname...)
	}
	if !placed {
		cidPos = len(o)
		o = append(o, o82...)
	}
	if !m.NoEnd {
		o = append(o, 255)
	}
	for len(o) < m.Area {
		o = append(o, 0)
	}
	return append(p, o...), cidPos, len(o)
}

// encap describes the headers in front of the BOOTP payload.
type encap struct {
	Tags  int    `json:"tags"` // 0 none, 1 802.1Q, 2 802.1ad+802.1Q, 3 802.1Q+802.1Q, 4 802.1ad alone
	Outer uint16 `json:"outer"`
	Inner uint16 `json:"inner"`
	PCP   byte   `json:"pcp"`
	IHL   int    `json:"ihl"`
	// OptZero: the IP options (IHL > 5) are End-of-Option-List bytes (zeros) instead of Router Alert + NOPs
	OptZero bool `json:"opt_zero,omitempty"`
	// Hdr: the request's IPv4 Identification, TOS, flags (DF only: a DHCP request is not a fragment) and TTL are
	// the generated values below (the program rewrites the request in place, so Identification, TOS and the
	// fragment word end up in the reply header and decide its checksum).  Without Hdr (committed cases that
	// predate it): id 0x1234, TOS 0x10, no flags, TTL 128 (63 from a relay).
	Hdr  bool   `json:"hdr,omitempty"`
	ID   uint16 `json:"id,omitempty"`
	TOS  byte   `json:"tos,omitempty"`
	Frag uint16 `json:"frag,omitempty"`
	TTL  byte   `json:"ttl,omitempty"`
}

func (e encap) name() string {
	return []string{"untagged", "802.1Q", "802.1ad+802.1Q", "802.1Q+802.1Q", "802.1ad"}[e.Tags]
}

func ipChecksum(h []byte) uint16 {
	var sum uint32
	for i := 0; i+1 < len(h); i += 2 {
		sum += uint32(h[i])<<8 | uint32(h[i+1])
	}
	for sum>>16 != 0 {
		sum = sum&0xffff + sum>>16
	}
	return ^uint16(sum)
}

// buildFrame wraps payload.  relay: the frame comes from a relay agent (unicast, port 67 -> 67).
func buildFrame(e encap, dstMAC, srcMAC [6]byte, src, dst [4]byte, relay bool, payload []byte) []byte {
	b := append([]byte{}, dstMAC[:]...)
	b = append(b, srcMAC[:]...)
	tci := func(v uint16) uint16 { return v&0x0fff | uint16(e.PCP&7)<<13 }
	switch e.Tags {
	case 1:
		b = binary.BigEndian.AppendUint16(b, etQ)
		b = binary.BigEndian.AppendUint16(b, tci(e.Outer))
	case 2:
		b = binary.BigEndian.AppendUint16(b, etAD)
		b = binary.BigEndian.AppendUint16(b, tci(e.Outer))
		b = binary.BigEndian.AppendUint16(b, etQ)
		b = binary.BigEndian.AppendUint16(b, tci(e.Inner))
	case 3:
		b = binary.BigEndian.AppendUint16(b, etQ)
		b = binary.BigEndian.AppendUint16(b, tci(e.Outer))
		b = binary.BigEndian.AppendUint16(b, etQ)
		b = binary.BigEndian.AppendUint16(b, tci(e.Inner))
	case 4:
		b = binary.BigEndian.AppendUint16(b, etAD)
		b = binary.BigEndian.AppendUint16(b, tci(e.Outer))
	}
	b = binary.BigEndian.AppendUint16(b, etIPv4)
	ihl := e.IHL
	if ihl < 5 {
		ihl = 5
	}
	h := make([]byte, ihl*4)
	h[0] = 0x40 | byte(ihl)
	h[1] = 0x10
	binary.BigEndian.PutUint16(h[2:], uint16(len(h)+8+len(payload)))
	binary.BigEndian.PutUint16(h[4:], 0x1234)
	h[8] = 128
	if relay {
		h[8] = 63
	}
	h[9] = 17
	if e.Hdr {
		h[1] = e.TOS
		binary.BigEndian.PutUint16(h[4:], e.ID)
		binary.BigEndian.PutUint16(h[6:], e.Frag&0x4000)
		h[8] = e.TTL
	}
	copy(h[12:16], src[:])
	copy(h[16:20], dst[:])
	// IP options: Router Alert then NOP padding (non-zero bytes, so that a checksum that ignores them is wrong)
	for i := 20; i < len(h) && !e.OptZero; i++ {
		h[i] = 1
	}
	if len(h) >= 24 && !e.OptZero {
		copy(h[20:24], []byte{0x94, 0x04, 0x00, 0x00})
	}
	binary.BigEndian.PutUint16(h[10:], ipChecksum(h))
	b = append(b, h...)
	u := make([]byte, 8)
	sport := uint16(68)
	if relay {
		sport = 67
	}
	binary.BigEndian.PutUint16(u[0:], sport)
	binary.BigEndian.PutUint16(u[2:], 67)
	binary.BigEndian.PutUint16(u[4:], uint16(8+len(payload)))
	b = append(b, u...)
	return append(b, payload...)
}

// ---------------------------------------------------------------------------
// independent parser for the frames the fast path transmits
// ---------------------------------------------------------------------------

type parsed struct {
	l3, ihl, totLen int
	udpOff, udpLen  int
	sport, dport    uint16
	bootp           []byte
	op              byte
	xid             uint32
	chaddr          [16]byte
	yiaddr          [4]byte
	opts            map[byte][]byte
	msgType         byte
}

// parseReply checks the well-formedness clauses of the statement one by one; what names the first
// clause that fails ("" = well formed).
func parseReply(fr []byte) (p parsed, what, detail string) {
	off := 12
	for i := 0; i < 2; i++ {
		if off+2 > len(fr) {
			return p, "ethernet", "frame shorter than its Ethernet header"
		}
		et := binary.BigEndian.Uint16(fr[off:])
		if et != etQ && et != etAD {
			break
		}
		off += 4
	}
	if off+2 > len(fr) || binary.BigEndian.Uint16(fr[off:]) != etIPv4 {
		return p, "ethernet", "ethertype is not IPv4"
	}
	p.l3 = off + 2
	if p.l3+20 > len(fr) {
		return p, "ip-header", "frame ends inside the IPv4 header"
	}
	ip := fr[p.l3:]
	if ip[0]>>4 != 4 {
		return p, "ip-header", "IP version is not 4"
	}
	p.ihl = int(ip[0] & 0x0f)
	if p.ihl < 5 || p.l3+p.ihl*4 > len(fr) {
		return p, "ip-header", fmt.Sprintf("IHL %d does not fit the frame", p.ihl)
	}
	p.totLen = int(binary.BigEndian.Uint16(ip[2:]))
	if ip[9] != 17 {
		return p, "ip-header", "protocol is not UDP"
	}
	if ipChecksum(ip[:p.ihl*4]) != 0 {
		return p, "ip-checksum", fmt.Sprintf("IPv4 header checksum over IHL*4=%d bytes does not verify (header %x)", p.ihl*4, ip[:p.ihl*4])
	}
	if p.totLen != len(fr)-p.l3 {
		return p, "lengths/tot_len", fmt.Sprintf("ip.tot_len=%d but the frame carries %d bytes after the L2 header", p.totLen, len(fr)-p.l3)
	}
	p.udpOff = p.l3 + p.ihl*4
	if p.udpOff+8 > len(fr) {
		return p, "lengths/udp", "frame ends inside the UDP header"
	}
	p.sport = binary.BigEndian.Uint16(fr[p.udpOff:])
	p.dport = binary.BigEndian.Uint16(fr[p.udpOff+2:])
	p.udpLen = int(binary.BigEndian.Uint16(fr[p.udpOff+4:]))
	if p.udpLen != p.totLen-p.ihl*4 {
		return p, "lengths/udp_len", fmt.Sprintf("udp.len=%d but ip.tot_len-IHL*4=%d", p.udpLen, p.totLen-p.ihl*4)
	}
	p.bootp = fr[p.udpOff+8:]
	if len(p.bootp) < 241 {
		return p, "bootp/short", fmt.Sprintf("BOOTP payload of %d bytes", len(p.bootp))
	}
	bp := p.bootp
	p.op = bp[0]
	p.xid = binary.BigEndian.Uint32(bp[4:])
	copy(p.chaddr[:], bp[28:44])
	copy(p.yiaddr[:], bp[16:20])
	if binary.BigEndian.Uint32(bp[236:]) != 0x63825363 {
		return p, "bootp/magic", "magic cookie missing"
	}
	p.opts = map[byte][]byte{}
	end := false
	for i := 240; i < len(bp); {
		c := bp[i]
		if c == 0 {
			i++
			continue
		}
		if c == 255 {
			end = true
			break
		}
		if i+2 > len(bp) || i+2+int(bp[i+1]) > len(bp) {
			return p, "bootp/options", fmt.Sprintf("option %d runs past the end of the packet", c)
		}
		if _, dup := p.opts[c]; !dup {
			p.opts[c] = bp[i+2 : i+2+int(bp[i+1])]
		}
		i += 2 + int(bp[i+1])
	}
	if !end {
		return p, "bootp/options", "no END option"
	}
	if v := p.opts[53]; len(v) == 1 {
		p.msgType = v[0]
	}
	return p, "", ""
}

// l3Offset: where the IPv4 header starts in a frame with up to two VLAN tags (0 = not IPv4).
func l3Offset(fr []byte) int {
	off := 12
	for i := 0; i < 2; i++ {
		if off+2 > len(fr) {
			return 0
		}
		et := binary.BigEndian.Uint16(fr[off:])
		if et != etQ && et != etAD {
			break
		}
		off += 4
	}
	if off+2 > len(fr) || binary.BigEndian.Uint16(fr[off:]) != etIPv4 {
		return 0
	}
	return off + 2
}

// leWords: the 16-bit words of a 20-byte IPv4 header as a little-endian machine loads them (the order in
// which the program adds them up).
func leWords(h []byte) (w [10]uint32) {
	for i := range w {
		w[i] = uint32(h[2*i]) | uint32(h[2*i+1])<<8
	}
	return
}

// needsTwoFolds: does the one's-complement sum of this header (checksum word taken as zero), added up as the
// program does it, still exceed 16 bits after ONE end-around carry?  (About 3 in 65536 headers do.)
func needsTwoFolds(h []byte) bool {
	w := leWords(h)
	var s uint32
	for i, v := range w {
		if i != 5 {
			s += v
		}
	}
	return s&0xffff+s>>16 >= 0x10000
}

// steerID: the Identification (network order) that makes the header need two folds, given every other word of
// it; ok = false if no Identification can (the other words sum to less than 0x10000).
func steerID(h []byte) (id uint16, ok bool) {
	w := leWords(h)
	var r uint32
	for i, v := range w {
		if i != 5 && i != 2 {
			r += v
		}
	}
	for k := uint32(0); k < 10; k++ {
		x := (0xffff - k - r&0xffff) & 0xffff
		if t := r + x; t&0xffff+t>>16 >= 0x10000 {
			return uint16(x&0xff)<<8 | uint16(x>>8), true
		}
	}
	return 0, false
}

func rev4(b []byte) []byte {
	out := make([]byte, len(b))
	for i := 0; i+4 <= len(b); i += 4 {
		out[i], out[i+1], out[i+2], out[i+3] = b[i+3], b[i+2], b[i+1], b[i]
	}
	copy(out[len(b)&^3:], b[len(b)&^3:])
	return out
}
