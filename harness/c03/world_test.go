package c03

import (
	"bytes"
	"encoding/binary"
	"fmt"
	"net"
	"sync"
	"testing"
	"testing/synctest"
	"time"

	cebpf "github.com/cilium/ebpf"
	"github.com/codelaboratoryltd/bng/pkg/dhcp"
	"github.com/codelaboratoryltd/bng/pkg/ebpf"
	"github.com/insomniacslk/dhcp/dhcpv4"
	"go.uber.org/zap"

	"bngverif/internal/bpfnative"
)

// ---------------------------------------------------------------------------
// the generated case
// ---------------------------------------------------------------------------

type clientCfg struct {
	MAC      hexb   `json:"mac"`
	Access   string `json:"access"` // direct | vlan | qinq | relay | relay82 | l2opt82
	STag     uint16 `json:"stag,omitempty"`
	CTag     uint16 `json:"ctag,omitempty"`
	Cid      hexb   `json:"cid,omitempty"`
	RemoteID hexb   `json:"remote_id,omitempty"`
}

type caseCfg struct {
	Net     string      `json:"net"`  // dotted quad, masked by Bits
	Bits    int         `json:"bits"` // 16..30
	GwHigh  bool        `json:"gw_high"`
	DNS     []string    `json:"dns"`     // 0..2
	LeaseS  int         `json:"lease_s"` // 60..86400
	Server  string      `json:"server"`  // gateway | outside | zero
	PoolID  uint32      `json:"pool_id"`
	Clients []clientCfg `json:"clients"`
}

type variant struct {
	Enc    encap  `json:"enc"`
	Clock  string `json:"clock"` // uptime | wall | past
	ClockS uint32 `json:"clock_s"`
	Place  int    `json:"place"` // 0 end-flush, 1 start-flush
}

type op struct {
	Kind     string    `json:"kind"` // discover | request | release | decline | advance | cleanup
	C        int       `json:"c"`
	Addr     string    `json:"addr,omitempty"`  // request: own | other | none
	Shape    string    `json:"shape,omitempty"` // request: selecting | initreboot | renewing
	Layout   int       `json:"layout"`
	P82      int       `json:"p82"`
	Area     int       `json:"area"`
	NoEnd    bool      `json:"no_end,omitempty"`
	Bcast    bool      `json:"bcast,omitempty"`
	Extra    bool      `json:"extra,omitempty"`
	Fill     bool      `json:"fill,omitempty"`
	Hostname string    `json:"hostname,omitempty"`
	Secs     int       `json:"secs,omitempty"` // advance
	Vars     []variant `json:"vars,omitempty"`
}

type tcase struct {
	Name string  `json:"name,omitempty"`
	Note string  `json:"note,omitempty"`
	Cfg  caseCfg `json:"cfg"`
	Ops  []op    `json:"ops"`
}

// ---------------------------------------------------------------------------
// geometry
// ---------------------------------------------------------------------------

type geom struct {
	network  net.IP
	mask     net.IPMask
	gateway  net.IP
	serverIP net.IP
	relayIP  net.IP
	lease    time.Duration
}

func u32ip(v uint32) net.IP { return net.IPv4(byte(v>>24), byte(v>>16), byte(v>>8), byte(v)).To4() }
func ipu32(ip net.IP) uint32 {
	ip = ip.To4()
	return binary.BigEndian.Uint32(ip)
}

func newGeom(c caseCfg) geom {
	mask := net.CIDRMask(c.Bits, 32)
	base := ipu32(net.ParseIP(c.Net)) & binary.BigEndian.Uint32(mask)
	hosts := uint32(1)<<(32-uint(c.Bits)) - 2
	g := geom{network: u32ip(base), mask: mask, lease: time.Duration(c.LeaseS) * time.Second}
	g.gateway = u32ip(base + 1)
	if c.GwHigh {
		g.gateway = u32ip(base + hosts)
	}
	switch c.Server {
	case "outside":
		g.serverIP = net.IPv4(192, 0, 2, 1).To4()
	case "zero":
		g.serverIP = net.IPv4zero.To4()
	default:
		g.serverIP = g.gateway
	}
	g.relayIP = net.IPv4(172, 30, 0, 1).To4()
	return g
}

var (
	serverMAC = [6]byte{0x02, 0xb0, 0x00, 0x00, 0x00, 0x01}
	relayMAC  = [6]byte{0x02, 0xe1, 0xa0, 0x00, 0x00, 0x07}
	bcastMAC  = [6]byte{0xff, 0xff, 0xff, 0xff, 0xff, 0xff}
)

// ---------------------------------------------------------------------------
// process-wide runner, per-case kernel maps
// ---------------------------------------------------------------------------

var (
	runnerOnce sync.Once
	runnerCli  *bpfnative.Client
	runnerErr  error
)

// runner starts the native runner once per test process (outside any synctest bubble).
func runner(t testing.TB) *bpfnative.Client {
	runnerOnce.Do(func() { runnerCli, runnerErr = bpfnative.Start() })
	if runnerErr != nil {
		t.Fatalf("INCONCLUSIVE: native runner: %v", runnerErr)
	}
	return runnerCli
}

var cacheMaps = []string{"subscriber_pools", "vlan_subscriber_pools", "ip_pools", "server_config", "circuit_id_map", "circuit_id_subscribers"}

type kmaps map[string]*cebpf.Map

func newKernelMaps(rc *bpfnative.Client) (kmaps, error) {
	km := kmaps{}
	for _, n := range append([]string{"stats_map"}, cacheMaps...) {
		m, err := rc.NewKernelMap(n, 64)
		if err != nil {
			km.close()
			return nil, fmt.Errorf("kernel map %s: %w", n, err)
		}
		km[n] = m
	}
	return km, nil
}

func (km kmaps) close() {
	for _, m := range km {
		m.Close()
	}
}

type capConn struct{ out [][]byte }

func (c *capConn) WriteTo(b []byte, a net.Addr) (int, error) {
	c.out = append(c.out, append([]byte(nil), b...))
	return len(b), nil
}
func (c *capConn) ReadFrom([]byte) (int, net.Addr, error) { return 0, nil, net.ErrClosed }
func (c *capConn) Close() error                           { return nil }
func (c *capConn) LocalAddr() net.Addr                    { return &net.UDPAddr{IP: net.IPv4zero, Port: 67} }
func (c *capConn) SetDeadline(time.Time) error            { return nil }
func (c *capConn) SetReadDeadline(time.Time) error        { return nil }
func (c *capConn) SetWriteDeadline(time.Time) error       { return nil }

// ---------------------------------------------------------------------------
// executor + oracle
// ---------------------------------------------------------------------------

type run struct {
	tc     *tcase
	g      geom
	rc     *bpfnative.Client
	km     kmaps
	loader *ebpf.Loader
	pool   *dhcp.Pool
	srv    *dhcp.Server
	conn   *capConn
	sites  map[string][]int

	offered map[int]net.IP // address of the last userspace OFFER not yet turned into a lease
	prevIP  map[int]net.IP // address of the client's last lease
	gone    map[int]string // why the client has no lease any more (release | decline | expiry-cleanup)
	xid     uint32
	dirty   bool

	viol    []violation
	cls     map[string]bool
	log     []string
	nt      bool
	probes  int
	tx      int
	harness string // harness-side failure (inconclusive)
}

func (x *run) logf(f string, a ...any) { x.log = append(x.log, fmt.Sprintf(f, a...)) }
func (x *run) fail(sig, f string, a ...any) {
	msg := fmt.Sprintf(f, a...)
	x.viol = append(x.viol, violation{Sig: sig, Msg: msg})
	x.logf("    !! %s: %s", sig, msg)
}

func newRun(rc *bpfnative.Client, tc *tcase) (*run, error) {
	x := &run{tc: tc, g: newGeom(tc.Cfg), rc: rc, conn: &capConn{}, cls: map[string]bool{},
		offered: map[int]net.IP{}, prevIP: map[int]net.IP{}, gone: map[int]string{}, dirty: true, sites: map[string][]int{}}
	for i, s := range rc.Sites() {
		x.sites[s.Map] = append(x.sites[s.Map], i)
	}
	km, err := newKernelMaps(rc)
	if err != nil {
		return nil, err
	}
	x.km = km
	logger := zap.NewNop()
	loader, err := ebpf.NewLoader("lo", logger)
	if err != nil {
		return nil, err
	}
	loader.VerifC03SetMaps(ebpf.VerifC03Maps{
		SubscriberPools: km["subscriber_pools"], VLANSubscriberPools: km["vlan_subscriber_pools"], IPPools: km["ip_pools"],
		Stats: km["stats_map"], ServerConfig: km["server_config"], CircuitIDMap: km["circuit_id_map"],
		CircuitIDSubscribers: km["circuit_id_subscribers"],
	})
	x.loader = loader
	pm := dhcp.NewPoolManager(loader, logger)
	c := tc.Cfg
	pool, err := dhcp.NewPool(dhcp.PoolConfig{ID: c.PoolID, Name: "p", Network: fmt.Sprintf("%s/%d", x.g.network, c.Bits),
		Gateway: x.g.gateway.String(), DNSServers: c.DNS, LeaseTime: x.g.lease, ClientClass: dhcp.ClientClassResidential})
	if err != nil {
		return nil, err
	}
	if err := pm.AddPool(pool); err != nil {
		return nil, err
	}
	x.pool = pool
	srv, err := dhcp.NewServer(dhcp.ServerConfig{Interface: "lo", ServerIP: x.g.serverIP}, loader, pm, logger)
	if err != nil {
		return nil, err
	}
	x.srv = srv
	// what Server.Start does before it serves the first packet
	if err := loader.SetServerConfig(net.HardwareAddr(serverMAC[:]), x.g.serverIP, 2); err != nil {
		return nil, fmt.Errorf("SetServerConfig: %w", err)
	}
	return x, nil
}

func (x *run) client(i int) (int, *clientCfg) {
	k := len(x.tc.Cfg.Clients)
	i = ((i % k) + k) % k
	return i, &x.tc.Cfg.Clients[i]
}

func (x *run) lease(c int) *dhcp.Lease {
	_, cl := x.client(c)
	key := net.HardwareAddr(cl.MAC).String()
	for _, l := range x.srv.VerifLeases() {
		if l.Key == key {
			l := l.Lease
			return &l
		}
	}
	return nil
}

// syncMaps copies the kernel maps raw into the runner.
func (x *run) syncMaps() error {
	if !x.dirty {
		return nil
	}
	for _, n := range cacheMaps {
		if _, err := x.rc.CopyKernelMap(x.km[n], n); err != nil {
			return err
		}
	}
	if err := x.rc.ClearMaps("stats_map"); err != nil {
		return err
	}
	x.dirty = false
	return nil
}

// syncVLAN keeps the entries of vlan_subscriber_pools that the harness owns in step with the MAC
// entries the server writes (the server never fills Lease.STag/CTag, so nothing else writes that map):
// present with the same assignment while userspace holds a lease for the client, absent otherwise.
func (x *run) syncVLAN() {
	for i := range x.tc.Cfg.Clients {
		cl := &x.tc.Cfg.Clients[i]
		if cl.Access != "vlan" && cl.Access != "qinq" {
			continue
		}
		if x.lease(i) != nil {
			if asg, err := x.loader.GetSubscriber(ebpf.MACToUint64(net.HardwareAddr(cl.MAC))); err == nil {
				_ = x.loader.AddVLANSubscriber(cl.STag, cl.CTag, asg)
				continue
			}
		}
		_ = x.loader.RemoveVLANSubscriber(cl.STag, cl.CTag)
	}
}

func anyHit(res *bpfnative.Result, idx []int) bool {
	for _, i := range idx {
		if res.SiteHit(i) {
			return true
		}
	}
	return false
}

// hitBy: which table supplied the assignment of a transmitted reply (the program looks up VLAN pair,
// then circuit-id, then MAC and stops at the first hit).
func (x *run) hitBy(res *bpfnative.Result) string {
	switch {
	case anyHit(res, x.sites["subscriber_pools"]):
		return "mac"
	case anyHit(res, x.sites["circuit_id_subscribers"]):
		return "circuit-id"
	case anyHit(res, x.sites["vlan_subscriber_pools"]):
		return "vlan"
	}
	return "unknown"
}

type txReply struct {
	v     variant
	p     parsed
	stale bool
}

func ip4(ip net.IP) (a [4]byte) {
	if v := ip.To4(); v != nil {
		copy(a[:], v)
	}
	return
}

func areaClass(n int) string {
	switch {
	case n < 60:
		return "area:<60"
	case n == 60:
		return "area:60-min-bootp"
	case n < 64:
		return "area:61-63"
	case n == 64:
		return "area:64"
	case n >= 300:
		return "area:300+"
	}
	return "area:65-299"
}

func (x *run) message(o op) {
	c, cl := x.client(o.C)
	lease := x.lease(c)
	now := time.Now()
	kind := o.Kind
	deliver := true
	mac := net.HardwareAddr(cl.MAC)
	x.xid++
	m := bootpMsg{Xid: 0xc0300000 + x.xid, Secs: uint16(x.xid % 5), Bcast: o.Bcast, Layout: o.Layout, P82: o.P82, Area: o.Area,
		NoEnd: o.NoEnd, ExtraO: o.Extra, Fill: o.Fill, Hostname: o.Hostname}
	copy(m.Chaddr[:], mac)
	relayed := cl.Access == "relay" || cl.Access == "relay82"
	if relayed {
		m.Giaddr = ip4(x.g.relayIP)
	}
	if cl.Access == "relay82" || cl.Access == "l2opt82" {
		m.Cid = cl.Cid
		m.RemoteID = cl.RemoteID
	}
	var own net.IP
	if lease != nil {
		own = lease.IP.To4()
	}
	reqShape := ""
	switch kind {
	case "request":
		var addr net.IP
		shape := o.Shape
		switch {
		case lease != nil:
			switch o.Addr {
			case "other":
				addr = u32ip(ipu32(own) ^ 1<<uint(x.xid%3))
				reqShape = "request-other-address"
			case "none":
				reqShape = "request-no-address"
			default:
				addr = own
				reqShape = "request-own-address"
			}
		case x.offered[c] != nil:
			addr = x.offered[c]
			reqShape = "request-offered-address"
			if shape == "renewing" {
				shape = "selecting"
			}
		case x.prevIP[c] != nil:
			// the client has lost its lease in userspace and has not been offered anything since: its
			// REQUEST is run through the fast path only (what userspace does with an unsolicited REQUEST is C02's subject)
			addr = x.prevIP[c]
			reqShape = "request-former-address"
			deliver = false
		default:
			kind = "discover"
		}
		if kind == "request" {
			m.Type = dhcpRequest
			switch {
			case addr == nil:
			case shape == "renewing":
				m.Ciaddr = ip4(addr)
			case shape == "initreboot":
				m.ReqIP = addr.To4()
			default:
				m.ReqIP = addr.To4()
				m.ServerID = x.g.serverIP.To4()
			}
		}
	case "decline":
		if lease == nil {
			kind = "discover" // DECLINE of a merely offered address is C02's subject
		} else {
			m.Type = dhcpDecline
			m.ReqIP = own
			m.ServerID = x.g.serverIP.To4()
		}
	case "release":
		m.Type = dhcpRelease
		if own != nil {
			m.Ciaddr = ip4(own)
		} else if x.prevIP[c] != nil {
			m.Ciaddr = ip4(x.prevIP[c])
		}
		m.ServerID = x.g.serverIP.To4()
	}
	if kind == "discover" {
		m.Type = dhcpDiscover
		if o.Addr == "own" && x.prevIP[c] != nil {
			m.ReqIP = x.prevIP[c].To4() // clients ask for their previous address
		}
	}
	payload, cidPos, area := m.payload()

	// userspace's view of this client at this moment
	state := "live"
	switch {
	case lease == nil && x.gone[c] != "":
		state = x.gone[c]
	case lease == nil:
		state = "never-leased"
	case now.After(lease.ExpiresAt):
		state = "expired-uncleaned"
	case !now.Before(lease.ExpiresAt):
		state = "at-expiry-instant" // the two sides may legitimately differ for this one second
	}
	if lease != nil || x.gone[c] != "" {
		x.nt = true
	}
	x.cls["msg:"+kind] = true
	x.cls["state:"+state] = true
	x.cls["access:"+cl.Access] = true
	x.cls["layout:"+layoutNames[m.Layout]] = true
	x.cls[areaClass(area)] = true
	if m.Cid != nil {
		switch {
		case cidPos == 3:
			x.cls["opt82:@3"] = true
		case cidPos >= 12 && cidPos <= 19:
			x.cls["opt82:@12-19"] = true
		default:
			x.cls["opt82:elsewhere"] = true
		}
	}
	x.logf("%s c%d(%s) %s xid=%08x layout=%s opt82@%d area=%d state=%s ciaddr=%v req=%v deliver=%v", kind, c, cl.Access, reqShape, m.Xid,
		layoutNames[m.Layout], cidPos, area, state, net.IP(m.Ciaddr[:]), net.IP(m.ReqIP), deliver)

	if err := x.syncMaps(); err != nil {
		x.harness = "copy kernel maps: " + err.Error()
		return
	}
	var txs []txReply
	for _, v := range o.Vars {
		e := v.Enc
		switch cl.Access {
		case "vlan":
			e.Tags = 1 + 3*(e.Tags&1)
			e.Outer, e.Inner = cl.STag, 0
		case "qinq":
			e.Tags = 2 + e.Tags&1
			e.Outer, e.Inner = cl.STag, cl.CTag
		}
		var fr []byte
		switch {
		case relayed:
			dst := x.g.serverIP
			if dst.IsUnspecified() {
				dst = x.g.gateway
			}
			fr = buildFrame(e, serverMAC, relayMAC, ip4(x.g.relayIP), ip4(dst), true, payload)
		case m.Ciaddr != [4]byte{} && !o.Bcast:
			fr = buildFrame(e, serverMAC, m.Chaddr, m.Ciaddr, ip4(x.g.serverIP), false, payload)
		default:
			fr = buildFrame(e, bcastMAC, m.Chaddr, [4]byte{}, [4]byte{255, 255, 255, 255}, false, payload)
		}
		var clock uint64
		switch v.Clock {
		case "wall":
			clock = uint64(now.UnixNano())
		case "past":
			clock = (uint64(now.Unix()) + uint64(x.tc.Cfg.LeaseS) + 1 + uint64(v.ClockS%100000)) * 1_000_000_000
		default:
			clock = uint64(1+v.ClockS%10_000_000)*1_000_000_000 + 123_456_789
		}
		if err := x.rc.SetClock(clock); err != nil {
			x.harness = "set clock: " + err.Error()
			return
		}
		opts := bpfnative.DefaultOpts()
		if v.Place == 1 {
			opts.Placement = bpfnative.StartFlush
		}
		res, err := x.rc.Run("dhcp_fastpath_prog", fr, opts)
		if err != nil {
			x.harness = "run: " + err.Error()
			return
		}
		if res.Fault.Kind == bpfnative.FaultDied {
			x.harness = "runner died: " + res.Fault.Msg
			return
		}
		x.probes++
		x.cls["encap:"+e.name()] = true
		x.cls["clock:"+v.Clock] = true
		if e.IHL > 5 {
			x.cls["ihl:6-15"] = true
		} else {
			x.cls["ihl:5"] = true
		}
		ihlShape := "ihl-5"
		if e.IHL > 5 {
			ihlShape = "ihl-gt-5"
		}
		desc := fmt.Sprintf("%s IHL=%d clock=%s(%d ns)", e.name(), e.IHL, v.Clock, clock)
		if res.Fault.Faulted() {
			x.fail("C03/native/fault", "%s: %v", desc, res.Fault)
			continue
		}
		switch res.Verdict {
		case bpfnative.XDPTx:
			x.tx++
			x.cls["verdict:TX"] = true
			by := x.hitBy(&res)
			x.cls["tx-by:"+by] = true
			x.logf("  - %s -> XDP_TX (%d bytes, assignment found by %s)", desc, len(res.Out), by)
			stale := false
			if state != "live" && state != "at-expiry-instant" {
				// clause 3: userspace holds no (unexpired) lease for this client
				stale = true
				x.fail("C03/stale/"+state+"/by-"+by, "%s %s from c%d (%s): userspace has no unexpired lease for this client (%s) but the fast path transmits a reply\nframe %x\nreply %x",
					desc, kind, c, cl.Access, state, fr, res.Out)
			}
			p, what, detail := parseReply(res.Out)
			if what != "" {
				x.fail("C03/wellformed/"+what+"/"+ihlShape, "%s: transmitted frame is not well formed: %s\nrequest %x\nreply   %x", desc, detail, fr, res.Out)
				continue
			}
			want := byte(dhcpOffer)
			if m.Type == dhcpRequest {
				want = dhcpAck
			}
			switch {
			case p.op != 2:
				x.fail("C03/wellformed/bootp/op/"+ihlShape, "%s: op=%d in the transmitted reply", desc, p.op)
			case p.xid != m.Xid:
				x.fail("C03/wellformed/bootp/xid/"+ihlShape, "%s: xid %08x, request had %08x", desc, p.xid, m.Xid)
			case !bytes.Equal(p.chaddr[:], payload[28:44]):
				x.fail("C03/wellformed/bootp/chaddr/"+ihlShape, "%s: chaddr %x, request had %x", desc, p.chaddr, payload[28:44])
			case p.msgType != want:
				x.fail("C03/wellformed/msg-type/"+kind, "%s: reply type %d to a %s (want %d)", desc, p.msgType, kind, want)
			default:
				txs = append(txs, txReply{v: v, p: p, stale: stale})
			}
		case bpfnative.XDPPass:
			x.cls["verdict:PASS"] = true
			x.logf("  - %s -> XDP_PASS", desc)
			if !bytes.Equal(res.Out, fr) {
				x.fail("C03/pass/modified/"+ihlShape, "%s: frame handed to userspace differs from the frame received\nin  %x\nout %x", desc, fr, res.Out)
			}
		default:
			x.cls["verdict:other"] = true
			x.fail(fmt.Sprintf("C03/verdict/%d/%s", res.Verdict, kind), "%s: verdict %d: the request is neither answered nor handed to userspace\nframe %x", desc, res.Verdict, fr)
		}
	}
	if !deliver {
		return
	}

	// the SAME request to the userspace server
	var reply *dhcpv4.DHCPv4
	noReply := "no-reply"
	pkt, perr := dhcpv4.FromBytes(payload)
	if perr != nil {
		noReply = "unparseable-for-userspace/other"
		if m.NoEnd {
			noReply = "unparseable-for-userspace/no-end-option"
		}
		x.logf("  userspace: packet does not parse (%v): server4 drops it", perr)
	} else {
		x.conn.out = nil
		var panicked any
		func() {
			defer func() { panicked = recover() }()
			x.srv.VerifHandle(x.conn, &net.UDPAddr{IP: net.IPv4bcast, Port: 68}, pkt)
		}()
		x.dirty = true
		if panicked != nil {
			x.fail("C03/userspace/panic/"+kind, "userspace handler panicked on %s: %v", kind, panicked)
			return
		}
		if len(x.conn.out) > 0 {
			if r, err := dhcpv4.FromBytes(x.conn.out[0]); err == nil {
				reply = r
			}
		}
	}
	if reply != nil {
		x.logf("  userspace: %s yiaddr=%s server-id=%s mask=%s router=%v dns=%v lease=%s", reply.MessageType(), reply.YourIPAddr,
			reply.ServerIdentifier(), net.IP(reply.SubnetMask()), reply.Router(), reply.DNS(), reply.IPAddressLeaseTime(0))
	} else if perr == nil {
		x.logf("  userspace: no reply")
	}

	for _, t := range txs {
		if t.stale {
			continue // already reported under clause 3; userspace's answer to a client it no longer knows is another question
		}
		desc := fmt.Sprintf("%s IHL=%d clock=%s", t.v.Enc.name(), t.v.Enc.IHL, t.v.Clock)
		if reply == nil {
			x.fail("C03/agree/"+noReply+"/"+kind, "%s: fast path answered a %s (type %d, yiaddr %v) that userspace does not answer", desc, kind, t.p.msgType, net.IP(t.p.yiaddr[:]))
			continue
		}
		ut := byte(reply.MessageType())
		if ut == dhcpNak {
			shape := reqShape
			if shape == "" {
				shape = kind
			}
			x.fail("C03/agree/userspace-nak/"+shape, "%s: fast path ACKs (yiaddr %v) a %s that userspace answers with NAK", desc, net.IP(t.p.yiaddr[:]), shape)
			continue
		}
		if ut != t.p.msgType {
			x.fail("C03/agree/msg-type/"+kind, "%s: fast path sends type %d, userspace type %d", desc, t.p.msgType, ut)
			continue
		}
		uopt := func(code uint8) []byte { return reply.Options.Get(dhcpv4.GenericOptionCode(code)) }
		x.cmp("yiaddr", t.p.yiaddr[:], reply.YourIPAddr.To4(), kind, desc)
		shape54 := kind
		if x.tc.Cfg.Server == "zero" {
			shape54 = "server-ip-unset"
		}
		x.cmp("opt54-server-id", t.p.opts[54], uopt(54), shape54, desc)
		x.cmp("opt1-subnet-mask", t.p.opts[1], uopt(1), kind, desc)
		x.cmp("opt3-router", t.p.opts[3], uopt(3), kind, desc)
		x.cmp("opt6-dns", t.p.opts[6], uopt(6), kind, desc)
		x.cmp("opt51-lease-time", t.p.opts[51], uopt(51), kind, desc)
	}

	// model update from what userspace did
	after := x.lease(c)
	switch {
	case after != nil:
		x.gone[c] = ""
		x.prevIP[c] = after.IP.To4()
		if kind == "request" && reply != nil && byte(reply.MessageType()) == dhcpAck {
			delete(x.offered, c)
		}
	case lease != nil && after == nil:
		x.gone[c] = kind // release | decline
		x.prevIP[c] = own
		delete(x.offered, c)
	}
	if kind == "discover" && reply != nil && byte(reply.MessageType()) == dhcpOffer && after == nil {
		x.offered[c] = reply.YourIPAddr.To4()
	}
	x.syncVLAN()
}

// cmp compares one field of the two replies; every field and every kind of disagreement has its own signature.
func (x *run) cmp(name string, fast, user []byte, shape, desc string) {
	if len(fast) == 0 && len(user) == 0 {
		return // absent on one side, present but empty on the other: the same (empty) set of values
	}
	if bytes.Equal(fast, user) {
		return
	}
	if len(fast) == len(user) && len(fast)%4 == 0 && bytes.Equal(rev4(fast), user) {
		x.fail("C03/agree/"+name+"/byte-reversed", "%s: fast path sends %s = %v, userspace %v (each address byte-reversed)", desc, name, dotted(fast), dotted(user))
		return
	}
	x.fail("C03/agree/"+name+"/differs/"+shape, "%s: fast path sends %s = %v, userspace %v", desc, name, dotted(fast), dotted(user))
}

func dotted(b []byte) string {
	if len(b) == 0 {
		return "(absent)"
	}
	if len(b)%4 != 0 {
		return fmt.Sprintf("%x", b)
	}
	s := ""
	for i := 0; i < len(b); i += 4 {
		if i > 0 {
			s += ","
		}
		s += net.IP(b[i : i+4]).String()
	}
	return s
}

func (x *run) step(o op) {
	switch o.Kind {
	case "advance":
		d := time.Duration(o.Secs) * time.Second
		time.Sleep(d)
		synctest.Wait()
		x.logf("advance %s -> %s", d, time.Now().UTC().Format(time.RFC3339))
	case "cleanup":
		before := map[int]bool{}
		for i := range x.tc.Cfg.Clients {
			before[i] = x.lease(i) != nil
		}
		x.srv.VerifCleanupExpired()
		x.dirty = true
		for i := range x.tc.Cfg.Clients {
			if before[i] && x.lease(i) == nil {
				x.gone[i] = "expiry-cleanup"
				delete(x.offered, i)
				x.cls["event:expiry-cleanup"] = true
			}
		}
		x.syncVLAN()
		x.logf("cleanup tick")
	default:
		x.message(o)
	}
}

type result struct {
	viol    []violation
	log     []string
	classes []string
	nt      bool
	probes  int
	tx      int
	harness string
}

// execCase runs one case inside a synctest bubble (virtual time) and returns the verdict as a value.
func execCase(t *testing.T, rc *bpfnative.Client, tc *tcase) result {
	var res result
	synctest.Test(t, func(t *testing.T) { res = execInBubble(rc, tc) })
	return res
}

func execInBubble(rc *bpfnative.Client, tc *tcase) result {
	x, err := newRun(rc, tc)
	if err != nil {
		return result{harness: "setup: " + err.Error()}
	}
	defer x.km.close()
	c := tc.Cfg
	x.logf("pool %s/%d id=%d gateway %s dns %v lease %s server-ip %s (%s)", x.g.network, c.Bits, c.PoolID, x.g.gateway, c.DNS, x.g.lease, x.g.serverIP, c.Server)
	for i, cl := range c.Clients {
		x.logf("c%d mac=%s access=%s stag=%d ctag=%d cid=%x", i, net.HardwareAddr(cl.MAC), cl.Access, cl.STag, cl.CTag, []byte(cl.Cid))
	}
	for _, o := range tc.Ops {
		x.step(o)
		if x.harness != "" {
			break
		}
		unlisted := false
		for _, v := range x.viol {
			if !isListed(v.Sig) {
				unlisted = true
			}
		}
		if unlisted {
			break
		}
	}
	x.cls[fmt.Sprintf("pool:/%d", c.Bits)] = true
	x.cls[fmt.Sprintf("dns:%d", len(c.DNS))] = true
	x.cls["server-ip:"+c.Server] = true
	switch {
	case c.LeaseS <= 120:
		x.cls["lease:<=2min"] = true
	case c.LeaseS >= 86400:
		x.cls["lease:1day"] = true
	default:
		x.cls["lease:mid"] = true
	}
	if x.tx > 0 {
		x.cls["case:some-TX"] = true
	}
	return result{viol: x.viol, log: x.log, classes: sortedSet(x.cls), nt: x.nt, probes: x.probes, tx: x.tx, harness: x.harness}
}
