package c03

import (
	"bytes"
	"encoding/binary"
	"encoding/hex"
	"errors"
	"fmt"
	"io"
	"net"
	"os"
	"sort"
	"sync"
	"testing"
	"testing/synctest"
	"time"

	cebpf "github.com/cilium/ebpf"
	"github.com/codelaboratoryltd/bng/pkg/dhcp"
	"github.com/codelaboratoryltd/bng/pkg/ebpf"
	"github.com/insomniacslk/dhcp/dhcpv4"
	"go.uber.org/zap"

	"bngverif/internal/bpfnative"
)

// ---------------------------------------------------------------------------
// the generated case
// ---------------------------------------------------------------------------

type clientCfg struct {
	MAC      hexb   `json:"mac"`
	Access   string `json:"access"` // direct | vlan | qinq | relay | relay82 | l2opt82
	STag     uint16 `json:"stag,omitempty"`
	CTag     uint16 `json:"ctag,omitempty"`
	Cid      hexb   `json:"cid,omitempty"`
	RemoteID hexb   `json:"remote_id,omitempty"`
	// Rel / Of: this entry is another appearance of client Of (documentation for the reader and the class
	// labels; the executor only looks at MAC / Access / tags / Cid): "cpe-swap" = a replacement device on the
	// same circuit (new MAC, same circuit-id), "circuit-move" = the same device on another circuit (same MAC,
	// new circuit-id), "reshape" = the same device reaching the server in another way (same MAC, other access).
	Rel string `json:"rel,omitempty"`
	Of  int    `json:"of,omitempty"`
}

// poolDef is a further pool definition the control plane is asked to add while the server runs: with the id of
// the pool that already exists (the call must be refused and change nothing the fast path sees) or with a new
// id (a second pool).  Each definition has a network of its own (198.18.<n>.0/..), so that no address is ever
// in two pools.
type poolDef struct {
	ID     uint32   `json:"id"`
	Net    string   `json:"net"`
	Bits   int      `json:"bits"`
	GwHigh bool     `json:"gw_high,omitempty"`
	DNS    []string `json:"dns"`
	LeaseS int      `json:"lease_s"`
}

type caseCfg struct {
	Net     string      `json:"net"`  // dotted quad, masked by Bits
	Bits    int         `json:"bits"` // 16..30
	GwHigh  bool        `json:"gw_high"`
	DNS     []string    `json:"dns"`     // 0..2
	LeaseS  int         `json:"lease_s"` // 60..86400
	Server  string      `json:"server"`  // gateway | outside | zero
	PoolID  uint32      `json:"pool_id"`
	Clients []clientCfg `json:"clients"`
	Pools   []poolDef   `json:"pools,omitempty"` // op.P = n refers to Pools[n-1]; P = 0 is the pool above
}

type variant struct {
	Enc    encap  `json:"enc"`
	Clock  string `json:"clock"` // uptime | wall | past
	ClockS uint32 `json:"clock_s"`
	Place  int    `json:"place"` // 0 end-flush, 1 start-flush
	// Steer: directed probe for the reply's IP header checksum.  The frame is run once, the reply header the
	// program produced is read, the request's Identification is replaced by the value that makes the one's-
	// complement sum of THAT reply header need two end-around carries, and the frame is run again (that second
	// run is the probe).  No effect if the first run does not transmit.
	Steer bool `json:"steer,omitempty"`
}

type op struct {
	// discover | request | release | decline | advance | cleanup, and control-plane calls:
	// addpool (PoolManager.AddPool of definition P) | rmpool (RemovePool of P's id) | setdefault (SetDefaultPool)
	// | srvcfg (Loader.SetServerConfig again, as Server.Start does: same server IP; Alt = other MAC / ifindex)
	Kind     string    `json:"kind"`
	P        int       `json:"p,omitempty"`
	Alt      bool      `json:"alt,omitempty"`
	C        int       `json:"c"`
	Addr     string    `json:"addr,omitempty"`  // request: own | other | none
	Shape    string    `json:"shape,omitempty"` // request: selecting | initreboot | renewing
	Layout   int       `json:"layout"`
	P82      int       `json:"p82"`
	Area     int       `json:"area"`
	NoEnd    bool      `json:"no_end,omitempty"`
	Bcast    bool      `json:"bcast,omitempty"`
	Extra    bool      `json:"extra,omitempty"`
	Fill     bool      `json:"fill,omitempty"`
	Hostname string    `json:"hostname,omitempty"`
	Secs     int       `json:"secs,omitempty"` // advance
	Vars     []variant `json:"vars,omitempty"`
}

type tcase struct {
	Name string  `json:"name,omitempty"`
	Note string  `json:"note,omitempty"`
	Cfg  caseCfg `json:"cfg"`
	Ops  []op    `json:"ops"`
}

// ---------------------------------------------------------------------------
// geometry
// ---------------------------------------------------------------------------

type geom struct {
	network  net.IP
	mask     net.IPMask
	gateway  net.IP
	serverIP net.IP
	relayIP  net.IP
	lease    time.Duration
}

func u32ip(v uint32) net.IP { return net.IPv4(byte(v>>24), byte(v>>16), byte(v>>8), byte(v)).To4() }
func ipu32(ip net.IP) uint32 {
	ip = ip.To4()
	return binary.BigEndian.Uint32(ip)
}

func newGeom(c caseCfg) geom {
	mask := net.CIDRMask(c.Bits, 32)
	base := ipu32(net.ParseIP(c.Net)) & binary.BigEndian.Uint32(mask)
	hosts := uint32(1)<<(32-uint(c.Bits)) - 2
	g := geom{network: u32ip(base), mask: mask, lease: time.Duration(c.LeaseS) * time.Second}
	g.gateway = u32ip(base + 1)
	if c.GwHigh {
		g.gateway = u32ip(base + hosts)
	}
	switch c.Server {
	case "outside":
		g.serverIP = net.IPv4(192, 0, 2, 1).To4()
	case "zero":
		g.serverIP = net.IPv4zero.To4()
	default:
		g.serverIP = g.gateway
	}
	g.relayIP = net.IPv4(172, 30, 0, 1).To4()
	return g
}

var (
	serverMAC = [6]byte{0x02, 0xb0, 0x00, 0x00, 0x00, 0x01}
	relayMAC  = [6]byte{0x02, 0xe1, 0xa0, 0x00, 0x00, 0x07}
	bcastMAC  = [6]byte{0xff, 0xff, 0xff, 0xff, 0xff, 0xff}
)

// ---------------------------------------------------------------------------
// process-wide runner, per-case kernel maps
// ---------------------------------------------------------------------------

var (
	runnerOnce sync.Once
	runnerCli  *bpfnative.Client
	runnerErr  error
)

// runner starts the native runner once per test process (outside any synctest bubble).
func runner(t testing.TB) *bpfnative.Client {
	runnerOnce.Do(func() { runnerCli, runnerErr = bpfnative.Start() })
	if runnerErr != nil {
		t.Fatalf("INCONCLUSIVE: native runner: %v", runnerErr)
	}
	return runnerCli
}

var cacheMaps = []string{"subscriber_pools", "vlan_subscriber_pools", "ip_pools", "server_config", "circuit_id_map", "circuit_id_subscribers"}

type kmaps map[string]*cebpf.Map

func newKernelMaps(rc *bpfnative.Client) (kmaps, error) {
	km := kmaps{}
	for _, n := range append([]string{"stats_map"}, cacheMaps...) {
		m, err := rc.NewKernelMap(n, 64)
		if err != nil {
			km.close()
			return nil, fmt.Errorf("kernel map %s: %w", n, err)
		}
		km[n] = m
	}
	return km, nil
}

func (km kmaps) close() {
	for _, m := range km {
		m.Close()
	}
}

type capConn struct{ out [][]byte }

func (c *capConn) WriteTo(b []byte, a net.Addr) (int, error) {
	c.out = append(c.out, append([]byte(nil), b...))
	return len(b), nil
}
func (c *capConn) ReadFrom([]byte) (int, net.Addr, error) { return 0, nil, net.ErrClosed }
func (c *capConn) Close() error                           { return nil }
func (c *capConn) LocalAddr() net.Addr                    { return &net.UDPAddr{IP: net.IPv4zero, Port: 67} }
func (c *capConn) SetDeadline(time.Time) error            { return nil }
func (c *capConn) SetReadDeadline(time.Time) error        { return nil }
func (c *capConn) SetWriteDeadline(time.Time) error       { return nil }

// ---------------------------------------------------------------------------
// executor + oracle
// ---------------------------------------------------------------------------

type run struct {
	tc     *tcase
	g      geom
	rc     *bpfnative.Client
	km     kmaps
	loader *ebpf.Loader
	pool   *dhcp.Pool
	pm     *dhcp.PoolManager
	srv    *dhcp.Server
	conn   *capConn
	sites  map[string][]int

	// what the devices remember and why userspace dropped what it held, keyed by IDENTITY (MAC string,
	// hex circuit-id), not by entry of Cfg.Clients: several entries may share a MAC or a circuit-id
	offered map[string]net.IP  // MAC -> address of the last userspace OFFER not yet turned into a lease
	prevIP  map[string]net.IP  // MAC -> address of the device's last lease
	gone    map[string]string  // MAC -> why userspace holds no lease for it any more
	goneCid map[string]string  // hex circuit-id -> why no userspace lease carries it any more
	vlanIn  map[[2]uint16]bool // vlan_subscriber_pools keys the harness itself has injected and not removed
	dump    map[string][]kentry
	flagged map[string]bool   // cache entries already reported by the map-level invariant
	lastAcc map[string]string // MAC -> access shape of the message userspace last acknowledged for it
	events  map[string]bool   // identity events that have happened so far in this history
	xid     uint32
	dirty   bool // the runner's copy of the maps is out of date
	fresh   bool // x.dump is what the kernel maps hold now

	viol      []violation
	cls       map[string]bool
	log       []string
	nt        bool
	probes    int
	tx        int
	txDouble  int            // transmitted replies whose IP header sum needs two end-around carries
	expProbes map[string]int // frames whose lookup identity has an expired, uncleaned lease: by path / clock side
	skipped   int
	harness   string // harness-side failure (inconclusive)
}

func (x *run) logf(f string, a ...any) { x.log = append(x.log, fmt.Sprintf(f, a...)) }
func (x *run) fail(sig, f string, a ...any) {
	msg := fmt.Sprintf(f, a...)
	x.viol = append(x.viol, violation{Sig: sig, Msg: msg})
	x.logf("    !! %s: %s", sig, msg)
}

func newRun(rc *bpfnative.Client, tc *tcase) (*run, error) {
	x := &run{tc: tc, g: newGeom(tc.Cfg), rc: rc, conn: &capConn{}, cls: map[string]bool{},
		offered: map[string]net.IP{}, prevIP: map[string]net.IP{}, gone: map[string]string{}, goneCid: map[string]string{},
		vlanIn: map[[2]uint16]bool{}, expProbes: map[string]int{}, flagged: map[string]bool{}, lastAcc: map[string]string{}, events: map[string]bool{}, dirty: true, sites: map[string][]int{}}
	for i, s := range rc.Sites() {
		x.sites[s.Map] = append(x.sites[s.Map], i)
	}
	km, err := newKernelMaps(rc)
	if err != nil {
		return nil, err
	}
	x.km = km
	logger := zap.NewNop()
	loader, err := ebpf.NewLoader("lo", logger)
	if err != nil {
		return nil, err
	}
	loader.VerifC03SetMaps(ebpf.VerifC03Maps{
		SubscriberPools: km["subscriber_pools"], VLANSubscriberPools: km["vlan_subscriber_pools"], IPPools: km["ip_pools"],
		Stats: km["stats_map"], ServerConfig: km["server_config"], CircuitIDMap: km["circuit_id_map"],
		CircuitIDSubscribers: km["circuit_id_subscribers"],
	})
	x.loader = loader
	pm := dhcp.NewPoolManager(loader, logger)
	c := tc.Cfg
	pool, err := dhcp.NewPool(dhcp.PoolConfig{ID: c.PoolID, Name: "p", Network: fmt.Sprintf("%s/%d", x.g.network, c.Bits),
		Gateway: x.g.gateway.String(), DNSServers: c.DNS, LeaseTime: x.g.lease, ClientClass: dhcp.ClientClassResidential})
	if err != nil {
		return nil, err
	}
	if err := pm.AddPool(pool); err != nil {
		return nil, err
	}
	x.pool = pool
	x.pm = pm
	srv, err := dhcp.NewServer(dhcp.ServerConfig{Interface: "lo", ServerIP: x.g.serverIP}, loader, pm, logger)
	if err != nil {
		return nil, err
	}
	x.srv = srv
	// what Server.Start does before it serves the first packet
	if err := loader.SetServerConfig(net.HardwareAddr(serverMAC[:]), x.g.serverIP, 2); err != nil {
		return nil, fmt.Errorf("SetServerConfig: %w", err)
	}
	return x, nil
}

func (x *run) client(i int) (int, *clientCfg) {
	k := len(x.tc.Cfg.Clients)
	i = ((i % k) + k) % k
	return i, &x.tc.Cfg.Clients[i]
}

// ---------------------------------------------------------------------------
// userspace's lease table as it is (copies made by the verif hook), looked up by identity
// ---------------------------------------------------------------------------

type leaseTab []dhcp.Lease

func (x *run) table() leaseTab {
	vl := x.srv.VerifLeases() // sorted by MAC string
	t := make(leaseTab, 0, len(vl))
	for _, l := range vl {
		t = append(t, l.Lease)
	}
	return t
}

func (t leaseTab) byMAC(mac string) *dhcp.Lease {
	for i := range t {
		if t[i].MAC.String() == mac {
			return &t[i]
		}
	}
	return nil
}

// byCid: the lease that carries this circuit-id (an unexpired one first, should there be several).
func (t leaseTab) byCid(cid []byte) *dhcp.Lease {
	var hit *dhcp.Lease
	if len(cid) == 0 {
		return nil
	}
	now := time.Now()
	for i := range t {
		if bytes.Equal(t[i].CircuitID, cid) {
			if now.Before(t[i].ExpiresAt) {
				return &t[i]
			}
			if hit == nil {
				hit = &t[i]
			}
		}
	}
	return hit
}

func (t leaseTab) cidHeldByOther(cid []byte, mac string) bool {
	for i := range t {
		if len(cid) > 0 && bytes.Equal(t[i].CircuitID, cid) && t[i].MAC.String() != mac {
			return true
		}
	}
	return false
}

func (x *run) lease(c int) *dhcp.Lease {
	_, cl := x.client(c)
	return x.table().byMAC(net.HardwareAddr(cl.MAC).String())
}

// stateOf: userspace's view of one identity (l = the lease it currently maps to, gone = why it maps to none).
func stateOf(l *dhcp.Lease, gone string, now time.Time) string {
	switch {
	case l == nil && gone != "":
		return gone
	case l == nil:
		return "never-leased"
	case now.After(l.ExpiresAt):
		return "expired-uncleaned"
	case !now.Before(l.ExpiresAt):
		return "at-expiry-instant" // the two sides may legitimately differ for this one second
	}
	return "live"
}

// ---------------------------------------------------------------------------
// kernel maps: raw dump, copy into the runner, and the map-level invariant
// ---------------------------------------------------------------------------

type kentry struct{ k, v []byte }

var noCacheInvariant = os.Getenv("C03_NO_CACHE_INVARIANT") != ""

func dumpKernelMap(m *cebpf.Map) ([]kentry, error) {
	var out []kentry
	var cur []byte
	limit := int(m.MaxEntries()) + 1
	for i := 0; i <= limit; i++ {
		var next []byte
		var err error
		if cur == nil {
			next, err = m.NextKeyBytes(nil)
		} else {
			next, err = m.NextKeyBytes(cur)
		}
		if err != nil {
			return nil, err
		}
		if next == nil {
			break
		}
		cur = next
		val, err := m.LookupBytes(cur)
		if err != nil {
			return nil, err
		}
		if val == nil {
			continue
		}
		out = append(out, kentry{k: append([]byte(nil), cur...), v: val})
	}
	sort.Slice(out, func(i, j int) bool { return bytes.Compare(out[i].k, out[j].k) < 0 })
	return out, nil
}

// dumpMaps reads the kernel maps the control plane writes (raw bytes, sorted by key).
func (x *run) dumpMaps() error {
	if x.dump == nil {
		x.dump = map[string][]kentry{}
	}
	for _, n := range cacheMaps {
		d, err := dumpKernelMap(x.km[n])
		if err != nil {
			return fmt.Errorf("iterate kernel map %s: %w", n, err)
		}
		x.dump[n] = d
	}
	return nil
}

// syncMaps copies the kernel maps raw into the runner.
func (x *run) syncMaps() error {
	if !x.dirty {
		return nil
	}
	if !x.fresh {
		if err := x.dumpMaps(); err != nil {
			return err
		}
		x.fresh = true
	}
	for _, n := range cacheMaps {
		if err := x.rc.ClearMaps(n); err != nil {
			return err
		}
		for _, e := range x.dump[n] {
			if err := x.rc.LoadMap(n, e.k, e.v); err != nil {
				return err
			}
		}
	}
	if err := x.rc.ClearMaps("stats_map"); err != nil {
		return err
	}
	x.dirty = false
	return nil
}

func macU64(mac net.HardwareAddr) (v uint64) {
	for _, b := range mac {
		v = v<<8 | uint64(b)
	}
	return
}

func fnv1a64(b []byte) uint64 {
	h := uint64(0xcbf29ce484222325)
	for _, c := range b {
		h ^= uint64(c)
		h *= 0x100000001b3
	}
	return h
}

// checkCache is the map-level invariant, evaluated on the kernel maps after every slow-path step: every
// entry of subscriber_pools / circuit_id_subscribers / circuit_id_map belongs to a lease that is in
// userspace's table NOW (same MAC resp. circuit-id; an expired lease the cleanup tick has not removed yet is
// still in the table, that residue is KF-C03-9/10/11's subject, not this one's) and names that lease's
// address, pool and expiry; vlan_subscriber_pools holds nothing but what the harness itself injected.
// event = what the step that has just run did; an entry is reported once, at the step that left it behind.
func (x *run) checkCache(tab leaseTab, event string) {
	if noCacheInvariant {
		return // development aid: measure what the probes alone detect
	}
	if err := x.dumpMaps(); err != nil {
		x.harness = err.Error()
		return
	}
	x.fresh = true
	entry := func(m, ident string, v []byte, l *dhcp.Lease) {
		id := m + "/" + ident
		if x.flagged[id] {
			return
		}
		if l == nil {
			x.flagged[id] = true
			x.fail("C03/cache-orphan/"+m+"/"+event, "after this step %s[%s] = %x is still there but userspace holds no lease for it (leases: %s)", m, ident, v, tab)
			return
		}
		if len(v) < 21 {
			x.harness = fmt.Sprintf("%s value of %d bytes", m, len(v))
			return
		}
		pool, ip, exp := binary.LittleEndian.Uint32(v[0:]), binary.LittleEndian.Uint32(v[4:]), binary.LittleEndian.Uint64(v[13:])
		switch {
		case ip != ipu32(l.IP):
			x.flagged[id] = true
			x.fail("C03/cache-mismatch/"+m+"/allocated_ip/"+event, "%s[%s] names %s, userspace's lease for it is %s (%s)", m, ident, u32ip(ip), l.IP, l.MAC)
		case pool != l.PoolID:
			x.flagged[id] = true
			x.fail("C03/cache-mismatch/"+m+"/pool_id/"+event, "%s[%s] names pool %d, userspace's lease %d", m, ident, pool, l.PoolID)
		case exp != uint64(l.ExpiresAt.Unix()):
			x.flagged[id] = true
			x.fail("C03/cache-mismatch/"+m+"/lease_expiry/"+event, "%s[%s] expires at %d, userspace's lease at %d", m, ident, exp, l.ExpiresAt.Unix())
		}
	}
	for _, e := range x.dump["subscriber_pools"] {
		key := binary.LittleEndian.Uint64(e.k)
		var l *dhcp.Lease
		for i := range tab {
			if macU64(tab[i].MAC) == key {
				l = &tab[i]
			}
		}
		entry("subscriber_pools", fmt.Sprintf("%012x", key), e.v, l)
	}
	for _, e := range x.dump["circuit_id_subscribers"] {
		var l *dhcp.Lease
		for i := range tab {
			var k [32]byte
			copy(k[:], tab[i].CircuitID)
			if n := len(tab[i].CircuitID); n > 0 && n <= 32 && bytes.Equal(k[:], e.k) {
				l = &tab[i]
			}
		}
		entry("circuit_id_subscribers", fmt.Sprintf("%x", bytes.TrimRight(e.k, "\x00")), e.v, l)
	}
	for _, e := range x.dump["circuit_id_map"] {
		key, val := binary.LittleEndian.Uint64(e.k), binary.LittleEndian.Uint64(e.v)
		id := fmt.Sprintf("circuit_id_map/%016x", key)
		if x.flagged[id] {
			continue
		}
		var l *dhcp.Lease
		for i := range tab {
			if len(tab[i].CircuitID) > 0 && fnv1a64(tab[i].CircuitID) == key {
				l = &tab[i]
			}
		}
		switch {
		case l == nil:
			x.flagged[id] = true
			x.fail("C03/cache-orphan/circuit_id_map/"+event, "after this step circuit_id_map[%016x] = %012x is still there but no userspace lease carries a circuit-id with that hash (leases: %s)", key, val, tab)
		case val != macU64(l.MAC):
			x.flagged[id] = true
			x.fail("C03/cache-mismatch/circuit_id_map/mac/"+event, "circuit_id_map[hash of %x] = %012x, userspace's lease on that circuit belongs to %s", l.CircuitID, val, l.MAC)
		}
	}
	// ip_pools[id] / server_config = what userspace puts into a reply for that pool: subnet mask, router, DNS
	// servers, lease time; server identifier
	for _, e := range x.dump["ip_pools"] {
		if len(e.k) < 4 || len(e.v) < 24 {
			x.harness = fmt.Sprintf("ip_pools entry of %d/%d bytes", len(e.k), len(e.v))
			return
		}
		id := binary.LittleEndian.Uint32(e.k)
		up := x.pm.GetPool(id)
		flag := func(field, f string, a ...any) {
			fid := fmt.Sprintf("ip_pools/%d/%s", id, field)
			if x.flagged[fid] {
				return
			}
			x.flagged[fid] = true
			sig := "C03/cache-mismatch/ip_pools/" + field + "/" + event
			if field == "" {
				sig = "C03/cache-orphan/ip_pools/" + event
			}
			x.fail(sig, "after this step ip_pools[%d] = %x: %s", id, e.v, fmt.Sprintf(f, a...))
		}
		if up == nil {
			flag("", "userspace has no pool %d (pools: %v)", id, x.userPools())
			continue
		}
		le := func(off int) uint32 { return binary.LittleEndian.Uint32(e.v[off:]) }
		ones, _ := up.SubnetMask.Size()
		dns := func(i int) uint32 {
			if i < len(up.DNSServers) {
				return ipu32(up.DNSServers[i])
			}
			return 0
		}
		if int(e.v[4]) != ones {
			flag("prefix_len", "prefix length %d, userspace sends the mask %v", e.v[4], net.IP(up.SubnetMask))
		}
		if le(8) != ipu32(up.Gateway) {
			flag("gateway", "gateway %v, userspace sends router %v", u32ip(le(8)), up.Gateway)
		}
		if le(12) != dns(0) || le(16) != dns(1) {
			flag("dns", "DNS %v %v, userspace sends %v", u32ip(le(12)), u32ip(le(16)), up.DNSServers)
		}
		if le(20) != uint32(up.LeaseTime/time.Second) {
			flag("lease_time", "lease time %d s, userspace sends %v", le(20), up.LeaseTime)
		}
	}
	for _, e := range x.dump["server_config"] {
		if len(e.v) < 12 {
			x.harness = fmt.Sprintf("server_config value of %d bytes", len(e.v))
			return
		}
		if ip := binary.LittleEndian.Uint32(e.v[8:]); ip != ipu32(x.g.serverIP) && !x.flagged["server_config"] {
			x.flagged["server_config"] = true
			x.fail("C03/cache-mismatch/server_config/server_ip/"+event, "server_config.server_ip = %v, userspace's server identifier is %v", u32ip(ip), x.g.serverIP)
		}
	}
	for _, e := range x.dump["vlan_subscriber_pools"] {
		k := [2]uint16{binary.LittleEndian.Uint16(e.k), binary.LittleEndian.Uint16(e.k[2:])}
		id := fmt.Sprintf("vlan_subscriber_pools/%d.%d", k[0], k[1])
		if !x.vlanIn[k] && !x.flagged[id] {
			x.flagged[id] = true
			x.fail("C03/cache-orphan/vlan_subscriber_pools/"+event, "vlan_subscriber_pools[%d.%d] = %x was not written by the harness and no lease userspace creates carries VLAN tags", k[0], k[1], e.v)
		}
	}
}

func (t leaseTab) String() string {
	s := "["
	for i, l := range t {
		if i > 0 {
			s += " "
		}
		s += fmt.Sprintf("%s=%s", l.MAC, l.IP)
		if len(l.CircuitID) > 0 {
			s += fmt.Sprintf("@%x", l.CircuitID)
		}
	}
	return s + "]"
}

// syncVLAN keeps the entries of vlan_subscriber_pools that the harness owns in step with the MAC
// entries the server writes (the server never fills Lease.STag/CTag, so nothing else writes that map):
// present with the same assignment while userspace holds a lease for the client, absent otherwise.
func (x *run) syncVLAN() {
	tab := x.table()
	for i := range x.tc.Cfg.Clients {
		cl := &x.tc.Cfg.Clients[i]
		if cl.Access != "vlan" && cl.Access != "qinq" {
			continue
		}
		k := [2]uint16{cl.STag, cl.CTag}
		if tab.byMAC(net.HardwareAddr(cl.MAC).String()) != nil {
			if asg, err := x.loader.GetSubscriber(ebpf.MACToUint64(net.HardwareAddr(cl.MAC))); err == nil {
				if x.loader.AddVLANSubscriber(cl.STag, cl.CTag, asg) == nil {
					x.vlanIn[k] = true
				}
				continue
			}
		}
		_ = x.loader.RemoveVLANSubscriber(cl.STag, cl.CTag)
		delete(x.vlanIn, k)
	}
}

func anyHit(res *bpfnative.Result, idx []int) bool {
	for _, i := range idx {
		if res.SiteHit(i) {
			return true
		}
	}
	return false
}

// hitBy: which table supplied the assignment of a transmitted reply (the program looks up VLAN pair,
// then circuit-id, then MAC and stops at the first hit).
func (x *run) hitBy(res *bpfnative.Result) string {
	switch {
	case anyHit(res, x.sites["subscriber_pools"]):
		return "mac"
	case anyHit(res, x.sites["circuit_id_subscribers"]):
		return "circuit-id"
	case anyHit(res, x.sites["vlan_subscriber_pools"]):
		return "vlan"
	}
	return "unknown"
}

type txReply struct {
	v     variant
	p     parsed
	stale bool
	idIP  net.IP // address of the userspace lease the program's lookup identity maps to (nil: none)
}

func ip4(ip net.IP) (a [4]byte) {
	if v := ip.To4(); v != nil {
		copy(a[:], v)
	}
	return
}

func areaClass(n int) string {
	switch {
	case n < 60:
		return "area:<60"
	case n == 60:
		return "area:60-min-bootp"
	case n < 64:
		return "area:61-63"
	case n == 64:
		return "area:64"
	case n >= 300:
		return "area:300+"
	}
	return "area:65-299"
}

func (x *run) message(o op) {
	c, cl := x.client(o.C)
	mac := net.HardwareAddr(cl.MAC)
	macS := mac.String()
	before := x.table()
	lease := before.byMAC(macS) // the lease userspace holds for this device
	relayed := cl.Access == "relay" || cl.Access == "relay82"
	hasCid := cl.Access == "relay82" || cl.Access == "l2opt82"
	var cidLease *dhcp.Lease // the lease userspace holds on this circuit (whoever's it is)
	if hasCid {
		cidLease = before.byCid(cl.Cid)
		// Out of scope (level_note): a device using a circuit-id that is, at this moment, on the lease of
		// ANOTHER device.  The one exception is what pkg/dhcp handles as a replacement CPE: a relayed request
		// from a device that holds no lease itself.
		if before.cidHeldByOther(cl.Cid, macS) && (!relayed || lease != nil) {
			x.skipped++
			x.cls["skipped:circuit-id-of-another-lease"] = true
			x.logf("%s c%d(%s): skipped, circuit-id %x is on another device's lease %s", o.Kind, c, cl.Access, []byte(cl.Cid), before)
			return
		}
	}
	now := time.Now()
	kind := o.Kind
	deliver := true
	x.xid++
	m := bootpMsg{Xid: 0xc0300000 + x.xid, Secs: uint16(x.xid % 5), Bcast: o.Bcast, Layout: o.Layout, P82: o.P82, Area: o.Area,
		NoEnd: o.NoEnd, ExtraO: o.Extra, Fill: o.Fill, Hostname: o.Hostname}
	copy(m.Chaddr[:], mac)
	if relayed {
		m.Giaddr = ip4(x.g.relayIP)
	}
	if hasCid {
		m.Cid = cl.Cid
		m.RemoteID = cl.RemoteID
	}
	var own net.IP
	if lease != nil {
		own = lease.IP.To4()
	}
	reqShape := ""
	switch kind {
	case "request":
		var addr net.IP
		shape := o.Shape
		switch {
		case lease != nil:
			switch o.Addr {
			case "other":
				addr = u32ip(ipu32(own) ^ 1<<uint(x.xid%3))
				reqShape = "request-other-address"
			case "none":
				reqShape = "request-no-address"
			default:
				addr = own
				reqShape = "request-own-address"
			}
		case x.offered[macS] != nil:
			addr = x.offered[macS]
			reqShape = "request-offered-address"
			if shape == "renewing" {
				shape = "selecting"
			}
		case x.prevIP[macS] != nil:
			// the device has lost its lease in userspace and has not been offered anything since: its
			// REQUEST is run through the fast path only (what userspace does with an unsolicited REQUEST is C02's subject)
			addr = x.prevIP[macS]
			reqShape = "request-former-address"
			deliver = false
			if relayed && cidLease != nil && now.Before(cidLease.ExpiresAt) && cidLease.IP.Equal(addr) {
				// ... unless it is a device that was replaced on its circuit and is plugged in again while the
				// circuit's lease (same address) is alive: pkg/dhcp re-homes that lease (replacement CPE)
				reqShape = "request-circuit-address"
				deliver = true
			}
		default:
			kind = "discover"
		}
		if kind == "request" {
			m.Type = dhcpRequest
			switch {
			case addr == nil:
			case shape == "renewing":
				m.Ciaddr = ip4(addr)
			case shape == "initreboot":
				m.ReqIP = addr.To4()
			default:
				m.ReqIP = addr.To4()
				m.ServerID = x.g.serverIP.To4()
			}
		}
	case "decline":
		if lease == nil {
			kind = "discover" // DECLINE of a merely offered address is C02's subject
		} else {
			m.Type = dhcpDecline
			m.ReqIP = own
			m.ServerID = x.g.serverIP.To4()
		}
	case "release":
		m.Type = dhcpRelease
		switch {
		case own != nil:
			m.Ciaddr = ip4(own)
		case x.offered[macS] != nil:
			m.Ciaddr = ip4(x.offered[macS]) // gives up an address it was only offered
		case x.prevIP[macS] != nil:
			m.Ciaddr = ip4(x.prevIP[macS])
		}
		m.ServerID = x.g.serverIP.To4()
	}
	if kind == "discover" {
		m.Type = dhcpDiscover
		if o.Addr == "own" && x.prevIP[macS] != nil {
			m.ReqIP = x.prevIP[macS].To4() // clients ask for their previous address
		}
	}
	payload, cidPos, area := m.payload()

	// userspace's view, at this moment, of each identity this request can be looked up by
	state := stateOf(lease, x.gone[macS], now)
	cidState := ""
	if hasCid {
		cidState = stateOf(cidLease, x.goneCid[hex.EncodeToString(cl.Cid)], now)
		x.cls["cid-state:"+cidState] = true
	}
	if lease != nil || cidLease != nil || x.gone[macS] != "" || (hasCid && x.goneCid[hex.EncodeToString(cl.Cid)] != "") {
		x.nt = true
	}
	x.cls["msg:"+kind] = true
	x.cls["state:"+state] = true
	x.cls["access:"+cl.Access] = true
	if cl.Rel != "" {
		x.cls["persona:"+cl.Rel] = true
	}
	x.cls["layout:"+layoutNames[m.Layout]] = true
	x.cls[areaClass(area)] = true
	if m.Cid != nil {
		switch {
		case cidPos == 3:
			x.cls["opt82:@3"] = true
		case cidPos >= 12 && cidPos <= 19:
			x.cls["opt82:@12-19"] = true
		default:
			x.cls["opt82:elsewhere"] = true
		}
	}
	for ev := range x.events {
		x.cls["probe-after:"+ev] = true
	}
	x.logf("%s c%d(%s) %s xid=%08x layout=%s opt82@%d area=%d state=%s cid-state=%s ciaddr=%v req=%v deliver=%v", kind, c, cl.Access, reqShape, m.Xid,
		layoutNames[m.Layout], cidPos, area, state, cidState, net.IP(m.Ciaddr[:]), net.IP(m.ReqIP), deliver)

	if err := x.syncMaps(); err != nil {
		x.harness = "copy kernel maps: " + err.Error()
		return
	}
	var txs []txReply
	for _, v := range o.Vars {
		e := v.Enc
		switch cl.Access {
		case "vlan":
			e.Tags = 1 + 3*(e.Tags&1)
			e.Outer, e.Inner = cl.STag, 0
		case "qinq":
			e.Tags = 2 + e.Tags&1
			e.Outer, e.Inner = cl.STag, cl.CTag
		}
		mkFrame := func(e encap) []byte {
			switch {
			case relayed:
				dst := x.g.serverIP
				if dst.IsUnspecified() {
					dst = x.g.gateway
				}
				return buildFrame(e, serverMAC, relayMAC, ip4(x.g.relayIP), ip4(dst), true, payload)
			case m.Ciaddr != [4]byte{} && !o.Bcast:
				return buildFrame(e, serverMAC, m.Chaddr, m.Ciaddr, ip4(x.g.serverIP), false, payload)
			}
			return buildFrame(e, bcastMAC, m.Chaddr, [4]byte{}, [4]byte{255, 255, 255, 255}, false, payload)
		}
		fr := mkFrame(e)
		var clock uint64
		switch v.Clock {
		case "wall":
			clock = uint64(now.UnixNano())
		case "past":
			clock = (uint64(now.Unix()) + uint64(x.maxLeaseS()) + 1 + uint64(v.ClockS%100000)) * 1_000_000_000
		default:
			clock = uint64(1+v.ClockS%10_000_000)*1_000_000_000 + 123_456_789
		}
		if err := x.rc.SetClock(clock); err != nil {
			x.harness = "set clock: " + err.Error()
			return
		}
		opts := bpfnative.DefaultOpts()
		if v.Place == 1 {
			opts.Placement = bpfnative.StartFlush
		}
		res, err := x.rc.Run("dhcp_fastpath_prog", fr, opts)
		if err != nil {
			x.harness = "run: " + err.Error()
			return
		}
		if res.Fault.Kind == bpfnative.FaultDied {
			x.harness = "runner died: " + res.Fault.Msg
			return
		}
		if v.Steer && e.Hdr && !res.Fault.Faulted() && res.Verdict == bpfnative.XDPTx {
			// directed: read the reply header this frame produces and choose the Identification for which
			// that header's sum needs two end-around carries; the re-run is the probe
			if l3 := l3Offset(res.Out); l3 > 0 && l3+20 <= len(res.Out) {
				if id, ok := steerID(res.Out[l3 : l3+20]); ok {
					e.ID = id
					fr = mkFrame(e)
					x.cls["ipcsum:steered"] = true
					if res, err = x.rc.Run("dhcp_fastpath_prog", fr, opts); err != nil {
						x.harness = "run: " + err.Error()
						return
					}
					if res.Fault.Kind == bpfnative.FaultDied {
						x.harness = "runner died: " + res.Fault.Msg
						return
					}
				}
			}
		}
		x.probes++
		x.cls["encap:"+e.name()] = true
		x.cls["clock:"+v.Clock] = true
		if e.IHL > 5 {
			x.cls["ihl:6-15"] = true
		} else {
			x.cls["ihl:5"] = true
		}
		ihlShape := "ihl-5"
		if e.IHL > 5 {
			ihlShape = "ihl-gt-5"
		}
		desc := fmt.Sprintf("%s IHL=%d clock=%s(%d ns)", e.name(), e.IHL, v.Clock, clock)
		if res.Fault.Faulted() {
			x.fail("C03/native/fault", "%s: %v", desc, res.Fault)
			continue
		}
		// the identity the program looked the subscriber up by (whatever it decided afterwards) and, if that
		// identity's lease has run out but is still in userspace's table, on which side of the entry's
		// lease_expiry VALUE the kernel clock lies in the program's own comparison (ktime seconds > lease_expiry)
		by := x.hitBy(&res)
		idLease, idState := lease, state
		if by == "circuit-id" {
			idLease, idState = cidLease, cidState
		}
		clockSide := ""
		if idState == "expired-uncleaned" && idLease != nil && by != "unknown" {
			clockSide = "kernel-clock-before-expiry-value"
			if clock/1_000_000_000 > uint64(idLease.ExpiresAt.Unix()) {
				clockSide = "kernel-clock-past-expiry-value"
			}
			x.expProbes["by-"+by]++
			x.expProbes["by-"+by+":"+clockSide]++
		}
		switch res.Verdict {
		case bpfnative.XDPTx:
			x.tx++
			x.cls["verdict:TX"] = true
			if l3 := l3Offset(res.Out); l3 > 0 && l3+20 <= len(res.Out) && needsTwoFolds(res.Out[l3:l3+20]) {
				x.txDouble++
				x.cls["ipcsum:double-fold"] = true
			}
			x.cls["tx-by:"+by] = true
			x.logf("  - %s -> XDP_TX (%d bytes, assignment found by %s)", desc, len(res.Out), by)
			stale := false
			// clause 3: the identity the program found the assignment by (MAC; VLAN pair = the harness's copy of
			// the MAC entry; circuit-id) must map to an unexpired lease in userspace
			st := state
			if by == "circuit-id" {
				st = cidState
			}
			if st == "at-expiry-instant" {
				// documented exemption: in the second the lease runs out userspace already treats it as expired
				// (Before(ExpiresAt) is false) while the program still honours it (now > lease_expiry is false);
				// for that one second neither "stale" nor a different answer (userspace may already offer another
				// address to a replacement CPE) is held against the fast path
				stale = true
				x.cls["exempt:at-expiry-instant"] = true
			}
			if st != "live" && st != "at-expiry-instant" {
				stale = true
				sig := "C03/stale/" + st + "/by-" + by
				if st == "expired-uncleaned" && clockSide != "" {
					// two different defects give this symptom: the entry's lease_expiry (Unix seconds) is compared
					// with seconds since boot, so for a real uptime the program's test cannot fire (KF-C03-9/10/11);
					// or the kernel clock IS past the value and the program transmits all the same (not listed)
					sig += "/" + clockSide
				}
				x.fail(sig, "%s %s from c%d (%s): userspace has no unexpired lease for this client (found by %s: %s) but the fast path transmits a reply\nframe %x\nreply %x",
					desc, kind, c, cl.Access, by, st, fr, res.Out)
			}
			p, what, detail := parseReply(res.Out)
			if what != "" {
				x.fail("C03/wellformed/"+what+"/"+ihlShape, "%s: transmitted frame is not well formed: %s\nrequest %x\nreply   %x", desc, detail, fr, res.Out)
				continue
			}
			want := byte(0) // RELEASE, DECLINE: nothing may be transmitted
			switch m.Type {
			case dhcpDiscover:
				want = dhcpOffer
			case dhcpRequest:
				want = dhcpAck
			}
			switch {
			case p.op != 2:
				x.fail("C03/wellformed/bootp/op/"+ihlShape, "%s: op=%d in the transmitted reply", desc, p.op)
			case p.xid != m.Xid:
				x.fail("C03/wellformed/bootp/xid/"+ihlShape, "%s: xid %08x, request had %08x", desc, p.xid, m.Xid)
			case !bytes.Equal(p.chaddr[:], payload[28:44]):
				x.fail("C03/wellformed/bootp/chaddr/"+ihlShape, "%s: chaddr %x, request had %x", desc, p.chaddr, payload[28:44])
			case p.msgType != want:
				sig := "C03/wellformed/msg-type/" + kind
				if at, in, t := phantom53(payload[240:]); at >= 0 {
					// diagnosis only (the oracle is the line above): the reply type follows bytes that look like
					// option 53 but lie inside the value of another option, at an offset the program reads
					sig += fmt.Sprintf("/phantom-option-53-in-option-%d", in)
					desc += fmt.Sprintf(" [bytes 35 01 %02x at options offset %d are inside option %d]", t, at, in)
				}
				x.fail(sig, "%s: reply type %d to a %s (want %d; 0 = no reply at all)", desc, p.msgType, kind, want)
			default:
				r := txReply{v: v, p: p, stale: stale}
				if idLease != nil {
					r.idIP = idLease.IP.To4()
				}
				txs = append(txs, r)
			}
		case bpfnative.XDPPass:
			x.cls["verdict:PASS"] = true
			x.logf("  - %s -> XDP_PASS", desc)
			if !bytes.Equal(res.Out, fr) {
				x.fail("C03/pass/modified/"+ihlShape, "%s: frame handed to userspace differs from the frame received\nin  %x\nout %x", desc, fr, res.Out)
			}
		default:
			x.cls["verdict:other"] = true
			x.fail(fmt.Sprintf("C03/verdict/%d/%s", res.Verdict, kind), "%s: verdict %d: the request is neither answered nor handed to userspace\nframe %x", desc, res.Verdict, fr)
		}
	}
	if !deliver {
		return
	}

	// the SAME request to the userspace server
	var reply *dhcpv4.DHCPv4
	noReply := "no-reply"
	pkt, perr := dhcpv4.FromBytes(payload)
	if perr != nil {
		noReply = "unparseable-for-userspace/other"
		if m.NoEnd && errors.Is(perr, io.ErrUnexpectedEOF) {
			// the listed shape (KF-C03-16/17) is exactly: the missing END option is the ONLY reason the packet
			// does not parse (the same message with END parses)
			m2 := m
			m2.NoEnd = false
			p2, _, _ := m2.payload()
			if _, err2 := dhcpv4.FromBytes(p2); err2 == nil {
				noReply = "unparseable-for-userspace/no-end-option"
			}
		}
		x.logf("  userspace: packet does not parse (%v): server4 drops it", perr)
	} else {
		x.conn.out = nil
		var panicked any
		func() {
			defer func() { panicked = recover() }()
			x.srv.VerifHandle(x.conn, &net.UDPAddr{IP: net.IPv4bcast, Port: 68}, pkt)
		}()
		x.dirty, x.fresh = true, false
		if panicked != nil {
			x.fail("C03/userspace/panic/"+kind, "userspace handler panicked on %s: %v", kind, panicked)
			return
		}
		if len(x.conn.out) > 0 {
			if r, err := dhcpv4.FromBytes(x.conn.out[0]); err == nil {
				reply = r
			}
		}
	}
	if reply != nil {
		x.logf("  userspace: %s yiaddr=%s server-id=%s mask=%s router=%v dns=%v lease=%s", reply.MessageType(), reply.YourIPAddr,
			reply.ServerIdentifier(), net.IP(reply.SubnetMask()), reply.Router(), reply.DNS(), reply.IPAddressLeaseTime(0))
	} else if perr == nil {
		x.logf("  userspace: no reply")
	}

	for _, t := range txs {
		if t.stale {
			continue // already reported under clause 3 (or exempt: expiry instant); userspace's answer to a client it no longer knows is another question
		}
		desc := fmt.Sprintf("%s IHL=%d clock=%s", t.v.Enc.name(), t.v.Enc.IHL, t.v.Clock)
		if reply == nil {
			if perr != nil && t.idIP != nil {
				// userspace has nothing to compare with; the address at least must be the one of the lease
				x.cmp("yiaddr", t.p.yiaddr[:], t.idIP, kind+"/unparseable-for-userspace", desc)
			}
			x.fail("C03/agree/"+noReply+"/"+kind, "%s: fast path answered a %s (type %d, yiaddr %v) that userspace does not answer", desc, kind, t.p.msgType, net.IP(t.p.yiaddr[:]))
			continue
		}
		ut := byte(reply.MessageType())
		if ut == dhcpNak {
			shape := reqShape
			if shape == "" {
				shape = kind
			}
			x.fail("C03/agree/userspace-nak/"+shape, "%s: fast path ACKs (yiaddr %v) a %s that userspace answers with NAK", desc, net.IP(t.p.yiaddr[:]), shape)
			continue
		}
		if ut != t.p.msgType {
			x.fail("C03/agree/msg-type/"+kind, "%s: fast path sends type %d, userspace type %d", desc, t.p.msgType, ut)
			continue
		}
		uopt := func(code uint8) []byte { return reply.Options.Get(dhcpv4.GenericOptionCode(code)) }
		x.cmp("yiaddr", t.p.yiaddr[:], reply.YourIPAddr.To4(), kind, desc)
		shape54 := kind
		if x.tc.Cfg.Server == "zero" && bytes.Equal(uopt(54), []byte{0, 0, 0, 0}) && len(uopt(3)) == 4 && bytes.Equal(t.p.opts[54], uopt(3)) {
			// the listed shape (KF-C03-15) is exactly: userspace sends 0.0.0.0, the program substitutes the pool's router
			shape54 = "server-ip-unset"
		}
		x.cmp("opt54-server-id", t.p.opts[54], uopt(54), shape54, desc)
		x.cmp("opt1-subnet-mask", t.p.opts[1], uopt(1), kind, desc)
		x.cmp("opt3-router", t.p.opts[3], uopt(3), kind, desc)
		x.cmp("opt6-dns", t.p.opts[6], uopt(6), kind, desc)
		x.cmp("opt51-lease-time", t.p.opts[51], uopt(51), kind, desc)
	}

	if perr != nil {
		return // never reached the server
	}
	// model update from what userspace did
	acked := kind == "request" && reply != nil && byte(reply.MessageType()) == dhcpAck
	x.afterStep(before, kind, macS, cl.Access, acked)
	if kind == "discover" && reply != nil && byte(reply.MessageType()) == dhcpOffer && x.table().byMAC(macS) == nil {
		x.offered[macS] = reply.YourIPAddr.To4()
	}
	if kind == "release" && lease == nil && x.offered[macS] != nil {
		delete(x.offered, macS)
		x.event("release-offered")
	}
}

func (x *run) event(ev string) {
	x.events[ev] = true
	x.cls["event:"+ev] = true
}

// afterStep compares userspace's lease table before and after a slow-path step (kind = discover | request |
// release | decline | cleanup; mac/access = the sender, "" for the cleanup tick), records why an identity lost
// its lease, names the identity event that happened, re-syncs the harness-owned VLAN entries and evaluates
// the map-level invariant.
func (x *run) afterStep(before leaseTab, kind, mac, access string, acked bool) {
	after := x.table()
	reason := map[string]string{"release": "release", "decline": "decline", "cleanup": "expiry-cleanup", "discover": "retire-on-discover", "request": "request"}[kind]
	ev := kind
	for i := range before {
		b := &before[i]
		bm := b.MAC.String()
		a := after.byMAC(bm)
		if a == nil {
			why := reason
			if kind == "request" {
				for j := range after {
					if after[j].IP.Equal(b.IP) && after[j].MAC.String() != bm {
						why = "cpe-swap" // the lease was re-homed to the device that sent the REQUEST
					}
				}
			}
			x.gone[bm] = why
			x.prevIP[bm] = b.IP.To4()
			delete(x.offered, bm)
			delete(x.lastAcc, bm)
			if kind != "request" || why == "cpe-swap" {
				ev = why
			}
			x.event(why)
		} else if len(b.CircuitID) > 0 && !bytes.Equal(a.CircuitID, b.CircuitID) {
			ev = "circuit-move"
			x.event("circuit-move")
		}
		if len(b.CircuitID) > 0 && after.byCid(b.CircuitID) == nil {
			why := reason
			if kind == "request" {
				why = "circuit-move"
			}
			x.goneCid[hex.EncodeToString(b.CircuitID)] = why
		}
	}
	for i := range after {
		a := &after[i]
		am := a.MAC.String()
		x.gone[am] = ""
		x.prevIP[am] = a.IP.To4()
		if len(a.CircuitID) > 0 {
			x.goneCid[hex.EncodeToString(a.CircuitID)] = ""
		}
	}
	if acked && after.byMAC(mac) != nil {
		delete(x.offered, mac)
		if prev := x.lastAcc[mac]; prev != "" && prev != access && before.byMAC(mac) != nil {
			x.event("reshape")
			x.cls["reshape:"+prev+">"+access] = true
			if ev == "request" {
				ev = "reshape"
			}
		}
		x.lastAcc[mac] = access
	}
	x.dirty = true
	x.fresh = false
	x.syncVLAN()
	x.checkCache(after, ev)
}

// phantom53: does the options area hold the bytes [53][1][t] at one of the fixed offsets the program
// reads (in the order it reads them) where a walk over the options says there is NO option boundary, i.e.
// inside the value of another option?  Returns the offset, the code of the enclosing option and t; at = -1
// if the first such match is the real option 53 (or there is none).
func phantom53(opts []byte) (at int, in byte, t byte) {
	starts := map[int]byte{} // offset -> code of the option starting there
	owner := map[int]byte{}  // offset -> code of the option whose value covers it
	for i := 0; i < len(opts); {
		c := opts[i]
		if c == 0 {
			i++
			continue
		}
		if c == 255 || i+1 >= len(opts) {
			break
		}
		starts[i] = c
		for j := i + 1; j < i+2+int(opts[i+1]) && j < len(opts); j++ {
			owner[j] = c
		}
		i += 2 + int(opts[i+1])
	}
	for _, off := range []int{0, 1, 3, 4, 5, 6} {
		if off+2 < len(opts) && opts[off] == 53 && opts[off+1] == 1 {
			if _, real := starts[off]; real {
				return -1, 0, 0
			}
			return off, owner[off], opts[off+2]
		}
	}
	return -1, 0, 0
}

// cmp compares one field of the two replies; every field and every kind of disagreement has its own signature.
func (x *run) cmp(name string, fast, user []byte, shape, desc string) {
	if len(fast) == 0 && len(user) == 0 {
		return // absent on one side, present but empty on the other: the same (empty) set of values
	}
	if bytes.Equal(fast, user) {
		return
	}
	if len(fast) == len(user) && len(fast)%4 == 0 && bytes.Equal(rev4(fast), user) {
		x.fail("C03/agree/"+name+"/byte-reversed", "%s: fast path sends %s = %v, userspace %v (each address byte-reversed)", desc, name, dotted(fast), dotted(user))
		return
	}
	x.fail("C03/agree/"+name+"/differs/"+shape, "%s: fast path sends %s = %v, userspace %v", desc, name, dotted(fast), dotted(user))
}

func dotted(b []byte) string {
	if len(b) == 0 {
		return "(absent)"
	}
	if len(b)%4 != 0 {
		return fmt.Sprintf("%x", b)
	}
	s := ""
	for i := 0; i < len(b); i += 4 {
		if i > 0 {
			s += ","
		}
		s += net.IP(b[i : i+4]).String()
	}
	return s
}

func (x *run) step(o op) {
	switch o.Kind {
	case "advance":
		d := time.Duration(o.Secs) * time.Second
		time.Sleep(d)
		synctest.Wait()
		x.logf("advance %s -> %s", d, time.Now().UTC().Format(time.RFC3339))
	case "cleanup":
		before := x.table()
		x.srv.VerifCleanupExpired()
		x.logf("cleanup tick")
		x.afterStep(before, "cleanup", "", "", false)
	case "addpool", "rmpool", "setdefault", "srvcfg":
		x.control(o)
	default:
		x.message(o)
	}
}

func (x *run) maxLeaseS() int {
	m := x.tc.Cfg.LeaseS
	for _, d := range x.tc.Cfg.Pools {
		if d.LeaseS > m {
			m = d.LeaseS
		}
	}
	return m
}

// def returns pool definition p (0 = the pool the case starts with).
func (x *run) def(p int) poolDef {
	c := x.tc.Cfg
	if n := len(c.Pools); p > 0 && n > 0 {
		return c.Pools[(p-1)%n]
	}
	return poolDef{ID: c.PoolID, Net: x.g.network.String(), Bits: c.Bits, GwHigh: c.GwHigh, DNS: c.DNS, LeaseS: c.LeaseS}
}

func (x *run) userPools() []uint32 {
	var ids []uint32
	for _, st := range x.pm.AllStats() {
		ids = append(ids, st.ID)
	}
	sort.Slice(ids, func(i, j int) bool { return ids[i] < ids[j] })
	return ids
}

// control makes one control-plane call (what an operator / the daemon's start-up code does through the exported
// API of PoolManager and Loader) and then evaluates the map-level invariant.  Nothing is asserted about the
// call's return value: the property is about what the fast path answers afterwards.
func (x *run) control(o op) {
	d := x.def(o.P)
	ev := o.Kind
	switch o.Kind {
	case "addpool":
		existed := x.pm.GetPool(d.ID) != nil
		if !existed && len(x.userPools()) >= 2 {
			x.logf("addpool id=%d: skipped (two pools exist; with three, pkg/dhcp picks a new client's pool by Go map order)", d.ID)
			return
		}
		mask := net.CIDRMask(d.Bits, 32)
		base := ipu32(net.ParseIP(d.Net)) & binary.BigEndian.Uint32(mask)
		gw := u32ip(base + 1)
		if d.GwHigh {
			gw = u32ip(base + uint32(1)<<(32-uint(d.Bits)) - 2)
		}
		pool, err := dhcp.NewPool(dhcp.PoolConfig{ID: d.ID, Name: fmt.Sprintf("p%d", o.P), Network: fmt.Sprintf("%s/%d", u32ip(base), d.Bits),
			Gateway: gw.String(), DNSServers: d.DNS, LeaseTime: time.Duration(d.LeaseS) * time.Second, ClientClass: dhcp.ClientClassResidential})
		if err != nil {
			x.harness = "NewPool: " + err.Error()
			return
		}
		err = x.pm.AddPool(pool)
		ev = "addpool"
		if existed {
			ev = "addpool-dup"
		}
		x.logf("%s id=%d %s/%d gateway %s dns %v lease %ds -> %v", ev, d.ID, u32ip(base), d.Bits, gw, d.DNS, d.LeaseS, err)
	case "rmpool":
		err := x.pm.RemovePool(d.ID)
		ev = "removepool"
		x.logf("removepool id=%d -> %v", d.ID, err)
	case "setdefault":
		err := x.pm.SetDefaultPool(d.ID)
		x.logf("setdefault id=%d -> %v", d.ID, err)
	case "srvcfg":
		mac, ifx := serverMAC, 2
		if o.Alt {
			mac, ifx = [6]byte{0x02, 0xb0, 0x00, 0x00, 0x00, 0x02}, 7
		}
		err := x.loader.SetServerConfig(net.HardwareAddr(mac[:]), x.g.serverIP, ifx)
		ev = "serverconfig"
		x.logf("serverconfig mac=%x ifindex=%d server-ip %s -> %v", mac, ifx, x.g.serverIP, err)
	}
	x.event(ev)
	x.dirty, x.fresh = true, false
	x.checkCache(x.table(), ev)
}

type result struct {
	viol      []violation
	log       []string
	classes   []string
	nt        bool
	probes    int
	tx        int
	txDouble  int
	expProbes map[string]int
	skipped   int
	harness   string
}

// execCase runs one case inside a synctest bubble (virtual time) and returns the verdict as a value.
func execCase(t *testing.T, rc *bpfnative.Client, tc *tcase) result {
	var res result
	synctest.Test(t, func(t *testing.T) { res = execInBubble(rc, tc) })
	return res
}

func execInBubble(rc *bpfnative.Client, tc *tcase) result {
	x, err := newRun(rc, tc)
	if err != nil {
		return result{harness: "setup: " + err.Error()}
	}
	defer x.km.close()
	c := tc.Cfg
	x.logf("pool %s/%d id=%d gateway %s dns %v lease %s server-ip %s (%s)", x.g.network, c.Bits, c.PoolID, x.g.gateway, c.DNS, x.g.lease, x.g.serverIP, c.Server)
	for i, cl := range c.Clients {
		rel := ""
		if cl.Rel != "" {
			rel = fmt.Sprintf(" (%s of c%d)", cl.Rel, cl.Of)
		}
		x.logf("c%d mac=%s access=%s stag=%d ctag=%d cid=%x%s", i, net.HardwareAddr(cl.MAC), cl.Access, cl.STag, cl.CTag, []byte(cl.Cid), rel)
	}
	for _, o := range tc.Ops {
		x.step(o)
		if x.harness != "" {
			break
		}
		unlisted := false
		for _, v := range x.viol {
			if !isListed(v.Sig) {
				unlisted = true
			}
		}
		if unlisted {
			break
		}
	}
	x.cls[fmt.Sprintf("pool:/%d", c.Bits)] = true
	x.cls[fmt.Sprintf("dns:%d", len(c.DNS))] = true
	x.cls["server-ip:"+c.Server] = true
	switch {
	case c.LeaseS <= 120:
		x.cls["lease:<=2min"] = true
	case c.LeaseS >= 86400:
		x.cls["lease:1day"] = true
	default:
		x.cls["lease:mid"] = true
	}
	if x.tx > 0 {
		x.cls["case:some-TX"] = true
	}
	switch n := len(tc.Ops); {
	case n <= 10:
		x.cls["steps:<=10"] = true
	case n <= 25:
		x.cls["steps:11-25"] = true
	case n <= 50:
		x.cls["steps:26-50"] = true
	default:
		x.cls["steps:>50"] = true
	}
	return result{viol: x.viol, log: x.log, classes: sortedSet(x.cls), nt: x.nt, probes: x.probes, tx: x.tx, txDouble: x.txDouble, expProbes: x.expProbes, skipped: x.skipped, harness: x.harness}
}
