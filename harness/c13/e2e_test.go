package c13

// Layer 2 (end to end): the real active (Start: its own listener, broadcast
// loop and heartbeats) and the real standby (Start: standbyLoop with its
// back-off shortened through the hook) over loopback HTTP.  A TCP forwarder
// between them lets the harness cut the link and keep it down.  Histories are
// drawn up front; every wait is a bounded poll whose expiry is INCONCLUSIVE.

import (
	"encoding/json"
	"fmt"
	"io"
	"log"
	"net"
	"net/http"
	"net/http/httptest"
	"net/http/httputil"
	"net/url"
	"os"
	"runtime"
	"strings"
	"sync"
	"sync/atomic"
	"testing"
	"time"

	"github.com/codelaboratoryltd/bng/pkg/ha"
	"go.uber.org/zap"
	"pgregory.net/rapid"

	"bngverif/internal/vstat"
)

// ---- TCP forwarder ------------------------------------------------------------

// fwPair is one forwarded connection: down = the standby's side, up = the active's side.
type fwPair struct {
	down, up net.Conn
	frozen   bool // the standby's side was closed, the active's side is kept open (half-open for the active)
}

type forwarder struct {
	ln     net.Listener
	target string
	mu     sync.Mutex
	up     bool
	pairs  map[*fwPair]struct{}
	wg     sync.WaitGroup
	closed bool
}

func newForwarder(target string) (*forwarder, error) {
	ln, err := listenLoopback()
	if err != nil {
		return nil, err
	}
	f := &forwarder{ln: ln, target: target, up: true, pairs: map[*fwPair]struct{}{}}
	f.wg.Add(1)
	go f.accept()
	return f, nil
}

func (f *forwarder) addr() string { return f.ln.Addr().String() }

func (f *forwarder) accepting() bool {
	f.mu.Lock()
	defer f.mu.Unlock()
	return !f.closed && f.up
}

func (f *forwarder) accept() {
	defer f.wg.Done()
	for {
		c, err := f.ln.Accept()
		if err != nil {
			return
		}
		if !f.accepting() {
			c.Close() // link down: the standby sees an immediate close
			continue
		}
		up, err := net.Dial("tcp", f.target)
		if err != nil {
			c.Close()
			continue
		}
		p := &fwPair{down: c, up: up}
		f.mu.Lock()
		ok := !f.closed && f.up
		if ok {
			f.pairs[p] = struct{}{}
		}
		f.mu.Unlock()
		if !ok {
			up.Close()
			c.Close()
			continue
		}
		f.wg.Add(2)
		go func() { // standby -> active
			defer f.wg.Done()
			io.Copy(p.up, p.down)
			p.down.Close()
			if !f.isFrozen(p) {
				p.up.Close() // ends the other direction, which drops the pair
			}
		}()
		go func() { // active -> standby
			defer f.wg.Done()
			io.Copy(p.down, p.up)
			if f.isFrozen(p) {
				io.Copy(io.Discard, p.up) // nobody is behind it any more; keep the active's side alive until released
			}
			f.mu.Lock()
			delete(f.pairs, p)
			f.mu.Unlock()
			p.down.Close()
			p.up.Close()
		}()
	}
}

func (f *forwarder) isFrozen(p *fwPair) bool {
	f.mu.Lock()
	defer f.mu.Unlock()
	return p.frozen
}

// cut closes every forwarded connection (both sides, frozen ones included); with keepDown new
// connections are refused until restore.
func (f *forwarder) cut(keepDown bool) {
	f.mu.Lock()
	if keepDown {
		f.up = false
	}
	ps := make([]*fwPair, 0, len(f.pairs))
	for p := range f.pairs {
		ps = append(ps, p)
	}
	f.mu.Unlock()
	for _, p := range ps {
		p.down.Close()
		p.up.Close()
	}
}

// freeze makes every forwarded connection half-open for the active: the standby's side is closed (the
// standby sees the end of its stream and reconnects), the active's side stays open and is drained, so the
// active notices nothing — what a power cycle, a pulled cable or a dropped firewall state does to the
// active's end of a TCP connection.  Returns the number of connections frozen.
func (f *forwarder) freeze() int {
	f.mu.Lock()
	var ps []*fwPair
	for p := range f.pairs {
		if !p.frozen {
			p.frozen = true
			ps = append(ps, p)
		}
	}
	f.mu.Unlock()
	for _, p := range ps {
		p.down.Close()
	}
	return len(ps)
}

// releaseFrozen closes the active's side of every frozen connection: the active finally notices.
func (f *forwarder) releaseFrozen() {
	f.mu.Lock()
	var ps []*fwPair
	for p := range f.pairs {
		if p.frozen {
			ps = append(ps, p)
		}
	}
	f.mu.Unlock()
	for _, p := range ps {
		p.up.Close()
	}
}

func (f *forwarder) restore() { f.mu.Lock(); f.up = true; f.mu.Unlock() }

func (f *forwarder) close() {
	f.mu.Lock()
	f.closed = true
	f.mu.Unlock()
	f.ln.Close()
	f.cut(true)
	f.wg.Wait()
}

// ---- starting the real active --------------------------------------------------

var nodeSerial atomic.Int64

// startActive starts a real active syncer on a loopback port and confirms through /ha/health
// that the listener that answers is this very node (Start does not report bind errors).
func startActive(hb time.Duration) (*activeSide, string, error) {
	hc := &http.Client{Timeout: 2 * time.Second, Transport: &http.Transport{DisableKeepAlives: true}}
	var lastErr error
	for attempt := 0; attempt < 8; attempt++ {
		l, err := listenLoopback()
		if err != nil {
			return nil, "", err
		}
		addr := l.Addr().String()
		l.Close()
		node := fmt.Sprintf("active-%d-%d", os.Getpid(), nodeSerial.Add(1))
		cfg := activeConfig(node)
		cfg.ListenAddr = addr
		cfg.HeartbeatInterval = hb
		a := &activeSide{store: ha.NewInMemorySessionStore(), tbl: table{}, ver: map[string]int{}}
		lg, counts := countingLogger()
		if os.Getenv("C13_DEBUG_STACKS") != "" {
			lg, _ = zap.NewDevelopment()
		}
		a.drops, a.logc = &counts.drops, counts
		a.syn = ha.NewHASyncer(cfg, a.store, lg)
		if err := a.syn.Start(); err != nil {
			return nil, "", err
		}
		deadline := time.Now().Add(3 * time.Second)
		for time.Now().Before(deadline) {
			resp, err := hc.Get("http://" + addr + "/ha/health")
			if err != nil {
				lastErr = err
				time.Sleep(2 * time.Millisecond)
				continue
			}
			var h struct {
				NodeID string `json:"node_id"`
			}
			err = json.NewDecoder(resp.Body).Decode(&h)
			resp.Body.Close()
			if err == nil && h.NodeID == node {
				return a, addr, nil
			}
			lastErr = fmt.Errorf("port %s answered as %q (want %q): %v", addr, h.NodeID, node, err)
			break // somebody else owns the port
		}
		a.syn.Stop()
	}
	return nil, "", fmt.Errorf("could not start the active node: %v", lastErr)
}

// ---- generated histories -------------------------------------------------------

type e2ePhase struct {
	Kind    string // up | burst | down | restart | race | halfopen | fault
	Changes []achg
	PauseUS int      // race only: pause between changes, so that they spread over the standby's reconnect (schedule perturbation, not an oracle)
	Faults  faultSet // fault only: what the standby's requests run into when it comes back
	Restart bool     // fault only: the standby comes back as a restarted process (empty table) instead of over a restored link
}

type e2eCase struct {
	Phases       []e2ePhase
	HeartbeatMS  int
	NoHeldDelete bool
}

func genE2ECase(kinds []string) *rapid.Generator[e2eCase] {
	return rapid.Custom(func(t *rapid.T) e2eCase {
		var c e2eCase
		c.HeartbeatMS = rapid.SampledFrom([]int{10, 50, 10000}).Draw(t, "heartbeatMS")
		// the steering draws are unconditional so that fail files replay identically listed or not
		c.NoHeldDelete = rapid.IntRange(0, 9).Draw(t, "exerciseStale") >= 4 && vstat.IsListed(sigStaleHTTP)
		noRace := rapid.IntRange(0, 9).Draw(t, "exerciseRace") >= 4 && vstat.IsListed(sigGap)
		noBurst := rapid.IntRange(0, 9).Draw(t, "exerciseBurst") >= 3 && vstat.IsListed(sigActiveDrop)
		n := rapid.IntRange(1, 5).Draw(t, "phases")
		for i := 0; i < n; i++ {
			k := rapid.SampledFrom(kinds).Draw(t, "phase")
			if (k == "race" && noRace) || (k == "burst" && noBurst) {
				k = "up" // steer around a listed finding
			}
			min, max := 1, 8
			switch k {
			case "up":
				max = 20
			case "burst": // more changes, back to back, than the active's per-client channel (100) holds
				min, max = 120, 500
			}
			ph := e2ePhase{Kind: k, Changes: genChanges(min, max).Draw(t, "changes")}
			if k == "race" {
				ph.PauseUS = rapid.SampledFrom([]int{0, 50, 200, 500, 1500}).Draw(t, "pauseUS")
			}
			if k == "fault" {
				ph.Faults = genFaultSet().Draw(t, "faults")
				if !ph.Faults.any() {
					ph.Faults.Snap = []int{rapid.SampledFrom(snapOutcomes).Draw(t, "snapshotFault")}
				}
				ph.Restart = rapid.IntRange(0, 9).Draw(t, "restart") < 4
			}
			c.Phases = append(c.Phases, ph)
		}
		return c
	})
}

func TestPropE2ECut(t *testing.T) {
	base := goroutineBaseline()
	defer failIfInconclusive(t)
	checks(90, 2500)
	rapid.Check(t, func(rt *rapid.T) {
		skipIfInconclusive(rt)
		runE2ECase(rt, genE2ECase([]string{"up", "up", "down", "down", "race", "burst", "halfopen", "fault", "fault"}).Draw(rt, "case"))
	})
	leakCheck(t, base)
}

func TestPropE2ERestart(t *testing.T) {
	base := goroutineBaseline()
	defer failIfInconclusive(t)
	checks(90, 2500)
	rapid.Check(t, func(rt *rapid.T) {
		skipIfInconclusive(rt)
		runE2ECase(rt, genE2ECase([]string{"up", "restart", "restart", "down", "race", "halfopen", "fault"}).Draw(rt, "case"))
	})
	leakCheck(t, base)
}

func runE2ECase(t fataler, c e2eCase) {
	var hist []string
	cls := map[string]bool{}
	nt, dead := false, false
	skip := func() {
		if rt, ok := t.(*rapid.T); ok {
			rt.Skip("inconclusive wait")
		}
	}
	act, addr, err := startActive(time.Duration(c.HeartbeatMS) * time.Millisecond)
	if err != nil {
		setInconclusive("%v", err)
		skip()
		return
	}
	// A case with a fault phase puts an HTTP proxy the harness owns between the forwarder and the active
	// (standby -> forwarder -> fault proxy -> active): it answers each request with the outcome armed for its
	// class (fault_test.go) and otherwise relays to the real active, streaming.
	target := addr
	plan := &faultPlan{}
	var proxySrv *httptest.Server
	var proxyTr *http.Transport
	for _, ph := range c.Phases {
		if ph.Kind == "fault" && proxySrv == nil {
			u, _ := url.Parse("http://" + addr)
			proxyTr = &http.Transport{MaxIdleConnsPerHost: 4}
			rp := &httputil.ReverseProxy{
				Rewrite:       func(pr *httputil.ProxyRequest) { pr.SetURL(u) },
				FlushInterval: -1,
				Transport:     proxyTr,
				ErrorLog:      log.New(io.Discard, "", 0),
				ErrorHandler:  func(w http.ResponseWriter, _ *http.Request, _ error) { w.WriteHeader(http.StatusBadGateway) },
			}
			proxySrv = newLoopbackServer(faultyHandler{inner: rp, plan: plan})
			target = proxySrv.Listener.Addr().String()
			cls["transport:via-fault-proxy"] = true
		}
	}
	fw, err := newForwarder(target)
	if err != nil {
		if proxySrv != nil {
			proxySrv.Close()
		}
		act.syn.Stop()
		setInconclusive("forwarder: %v", err)
		skip()
		return
	}
	sbStore := ha.NewInMemorySessionStore()
	sb := startStandby(fw.addr(), sbStore)
	defer func() {
		sb.Stop()
		fw.close()
		if proxySrv != nil {
			proxySrv.CloseClientConnections()
			proxySrv.Close()
			proxyTr.CloseIdleConnections()
		}
		act.syn.Stop()
	}()

	fail := func(sig, f string, a ...any) {
		if vstat.Fail(t, sig, "%s\nhistory: %s", fmt.Sprintf(f, a...), strings.Join(hist, "; ")) {
			dead = true
			cls["kf:"+sig] = true
		}
	}
	inconclusive := func(f string, a ...any) {
		st := sb.Stats()
		setInconclusive("%s (standby: connected=%v lastSync=%s lastError=%q at %s; active: clients=%d backlog=%d; history: %s)", fmt.Sprintf(f, a...),
			st.Connected, st.LastSyncTime.Format("15:04:05.000"), st.LastError, st.LastErrorTime.Format("15:04:05.000"),
			act.syn.VerifSSEClientCount(), act.syn.VerifSSEBacklog(), strings.Join(hist, "; "))
		dead = true
		if os.Getenv("C13_DEBUG_STACKS") != "" {
			fw.mu.Lock()
			fmt.Fprintf(os.Stderr, "forwarder %s up=%v pairs=%d\n", fw.addr(), fw.up, len(fw.pairs))
			for p := range fw.pairs {
				fmt.Fprintf(os.Stderr, "  pair standby %s <-> active %s frozen=%v\n", p.down.RemoteAddr(), p.up.LocalAddr(), p.frozen)
			}
			fw.mu.Unlock()
			buf := make([]byte, 1<<20)
			n := runtime.Stack(buf, true)
			for _, g := range strings.Split(string(buf[:n]), "\n\n") {
				if strings.Contains(g, "pkg/ha") || strings.Contains(g, "forwarder") {
					fmt.Fprintf(os.Stderr, "%s\n\n", g)
				}
			}
		}
	}
	held := func(id string) bool { _, ok := sbStore.GetSession(id); return ok }
	pause := time.Duration(0)
	do := func(where string, chs []achg, away bool) {
		for _, ch := range chs {
			if pause > 0 {
				time.Sleep(pause)
			}
			wasHeld := held(ids[ch.ID])
			d, k, _ := act.applyChange(ch, held, away && c.NoHeldDelete)
			hist = append(hist, where+":"+d)
			if away && wasHeld && (k == opDelete || k == opUpdate) {
				nt = true
				cls["nt:"+string(k)+map[string]string{"link-down": "-while-away", "racing-reconnect": "-while-away"}[where]] = true
			}
		}
	}
	linkUp := func(mark time.Time) bool {
		return pollUntil(func() bool {
			st := sb.Stats()
			return st.Connected && st.LastSyncTime.After(mark)
		})
	}
	sentinels := 0
	lastLink := "initial" // what the link went through last (names the verdict of a dead wait)
	// quiesce: the active goes quiet, the sentinel is the last change pushed; once the standby shows it
	// every earlier change of the (ordered) stream has been applied — provided the sentinel reached the
	// standby THROUGH THE STREAM (one ordered channel, one reader).  A sentinel that arrived inside the
	// snapshot of a reconnect proves nothing about changes still queued on the stream attached around
	// that snapshot: they are applied after it, in push order, and while that happens the table is
	// transiently older than the active's.  So a sentinel counts only if no full sync completed between
	// its push (with the stream attached) and its arrival; otherwise another one is pushed (bounded).
	quiesce := func() bool {
		for attempt := 0; attempt < 6; attempt++ {
			var before ha.SyncStats
			if !pollUntil(func() bool { before = sb.Stats(); return before.Connected }) {
				inconclusive("standby not attached within %v before the sentinel could be pushed", waitTimeout)
				return false
			}
			sentinels++
			sid := act.sentinel(sentinels)
			hist = append(hist, "sentinel")
			// The wait is decided by the state sampled all along, not by its length (see pollWatch).  Dead state:
			// the standby says it is connected (it is in its read loop on an answered stream request, its full
			// sync done), the active holds nothing in any queue, and neither the standby's table, its sync and
			// error stamps, nor whether the active has any stream client changed over the whole run — while the
			// sentinel, stored and pushed before the run began, is not on the standby.
			// Why the unchanged tree cannot be there for the run (checked against pkg/ha/sync.go):
			//  * handleSessionStream registers its client BEFORE it writes the first byte (the headers leave with
			//    the first Flush, in sendSSE, after the registration), and the standby sets connected only after
			//    client.Do returned those headers and its full sync completed.  So "standby connected" implies
			//    "its handler registered a client under its connection's RemoteAddr".
			//  * that key is removed only (a) by that handler's own deferred delete as it returns, (b) by
			//    broadcastToClients on overflow, which also closes the channel so that the handler returns, or (c) by
			//    Stop.  When the handler returns net/http ends the chunked body, the forwarder copies the bytes,
			//    the standby's ReadString fails with EOF, connectToStream returns and its deferred function clears
			//    connected.  Between "client removed" and "connected == false" there are only runnable goroutines.
			//    A handler of ANOTHER connection cannot remove it: RemoteAddr is unique among connections that
			//    are open at the same time.
			//  * a sentinel pushed while the client is registered is queued (backlog > 0), then in the hands of the
			//    runnable handler, then on the wire; if it was broadcast to nobody because the link was bouncing, the
			//    standby's next full sync (sync stamp changes) brings it, because the store is written before the push.
			// Everything else that can be observed at expiry stays INCONCLUSIVE.
			var noClient bool
			var lastState string
			pr := pollWatch(func() bool { return held(sid) }, func() (bool, string) {
				st := sb.Stats()
				noClient = act.syn.VerifSSEClientCount() == 0
				lastState = fmt.Sprintf("noClient=%v sync=%d err=%d/%q table=%x", noClient, st.LastSyncTime.UnixNano(), st.LastErrorTime.UnixNano(), st.LastError, storeFP(sbStore))
				return st.Connected && act.syn.VerifSSEBacklog() == 0, lastState
			})
			switch pr {
			case pollDead:
				d := diffTable(sbStore.GetAllSessions(), act.tbl)
				if noClient {
					fail(sigNotRegistered+"/"+lastLink, "the standby reports connected=true (no error, no sync since %s) but the active has NO registered stream client and nothing queued; unchanged over >= %v and >= %d samples, so sentinel %s (stored and pushed with the link up) can never arrive; standby vs active: %v",
						sb.Stats().LastSyncTime.Format("15:04:05.000"), deadWindow, deadMinSamples, sid, d)
				} else {
					fail(sigStableDead+"/"+lastLink, "the standby is connected, the active has a registered stream client (%v) and nothing queued, yet sentinel %s (stored and pushed with the link up) is not on the standby and nothing moved over >= %v and >= %d samples; standby vs active: %v",
						act.syn.VerifSSEClientIDs(), sid, deadWindow, deadMinSamples, d)
				}
				return false
			case pollExpired:
				inconclusive("sentinel %s not seen on the standby within %v and no stable state over the wait (last sample: %s)", sid, watchTimeout, lastState)
				return false
			}
			// the sentinel may have arrived through the snapshot of a reconnect that is still in progress
			// (an active that disconnects slow clients bounces the link on its own): the phase ends with the stream attached
			var after ha.SyncStats
			if !pollUntil(func() bool { after = sb.Stats(); return after.Connected }) {
				inconclusive("standby not attached within %v after the sentinel arrived", waitTimeout)
				return false
			}
			if after.LastSyncTime.Equal(before.LastSyncTime) {
				return true // no full sync since before the push: the sentinel came through the stream
			}
			cls["sentinel-arrived-in-snapshot"] = true
		}
		inconclusive("the link kept bouncing: no sentinel arrived through the stream in 6 attempts")
		return false
	}
	// activeDrained: "the active is quiet" must also hold for its broadcast queue before the standby is let
	// back in.  A change still queued when the standby's new stream attaches is delivered after the snapshot
	// (which already contains it) and makes the table transiently older than the snapshot; the phases that
	// compare immediately after the reconnect are not about that (the race phase is, and compares at quiescence).
	activeDrained := func() bool {
		if !pollUntil(func() bool { return act.syn.VerifSSEBacklog() == 0 }) {
			inconclusive("active backlog did not drain within %v", waitTimeout)
			return false
		}
		return true
	}
	compare := func(what string, sigFor func(d tdiff) string) {
		if d := diffTable(sbStore.GetAllSessions(), act.tbl); !d.empty() {
			if n := act.drops.Load(); n > 0 {
				// the active itself logged that it discarded changes pushed while the stream was connected
				fail(sigActiveDrop, "%s: the active dropped %d change(s) ('Client channel full'); link up and active quiet, but standby != active: %v", what, n, d)
				return
			}
			fail(sigFor(d), "%s: link up and active quiet, but standby != active: %v", what, d)
		}
	}
	extraOnly := func(d tdiff) bool { return len(d.extra) > 0 && len(d.missing)+len(d.differ)+len(d.dup) == 0 }

	start := time.Time{}
	if !linkUp(start) {
		inconclusive("initial link did not come up within %v", waitTimeout)
	}
	for pi, ph := range c.Phases {
		if dead {
			break
		}
		cls["phase:"+ph.Kind] = true
		what := fmt.Sprintf("phase %d (%s)", pi, ph.Kind)
		switch ph.Kind {
		case "up":
			// changes pushed while the stream is connected: clause 2, then quiescence
			do("connected", ph.Changes, false)
			if quiesce() {
				compare(what, func(tdiff) string { return sigE2EDiverged })
			}
		case "burst":
			syncBefore := sb.Stats().LastSyncTime
			do("connected-burst", ph.Changes, false)
			hist = append(hist[:len(hist)-len(ph.Changes)], fmt.Sprintf("connected-burst:%d changes", len(ph.Changes)))
			// let the active hand everything it still holds to the stream before the sentinel is pushed,
			// so that the sentinel itself cannot be discarded
			if !pollUntil(func() bool { return act.syn.VerifSSEBacklog() == 0 }) {
				inconclusive("active backlog did not drain within %v", waitTimeout)
				break
			}
			if act.drops.Load() > 0 {
				cls["burst-overflowed-client-channel"] = true
			}
			if quiesce() {
				bounced := !sb.Stats().LastSyncTime.Equal(syncBefore)
				if bounced {
					cls["burst-link-bounced"] = true // the active disconnected the overflowing client: the burst raced a reconnect
				}
				compare(what, func(d tdiff) string {
					switch {
					case !bounced:
						return sigE2EDiverged
					case extraOnly(d) && vstat.IsListed(sigStaleHTTP):
						return sigStaleHTTP
					}
					return sigGap
				})
			}
		case "down":
			// the link is cut and stays down while the active moves on; then it is restored
			hist = append(hist, "cut+down")
			lastLink = "after-bounce"
			mark := time.Now() // before the cut: no full sync happens spontaneously while the stream is up
			fw.cut(true)
			do("link-down", ph.Changes, true)
			if !activeDrained() {
				break
			}
			hist = append(hist, "restore")
			fw.restore()
			if !linkUp(mark) {
				inconclusive("link did not come back within %v", waitTimeout)
				break
			}
			// the active was quiet since before the link came back: the standby's full sync saw exactly this table
			compare(what+" immediately after reconnect", func(d tdiff) string {
				if extraOnly(d) {
					return sigStaleHTTP
				}
				return sigE2EDiverged
			})
			if !dead && quiesce() {
				compare(what, func(tdiff) string { return sigE2EDiverged })
			}
		case "restart":
			// the standby process is stopped and started again (its in-memory table is gone)
			hist = append(hist, "standby-stop")
			lastLink = "after-restart"
			sb.Stop()
			do("standby-stopped", ph.Changes, false) // the restarted standby holds nothing: no steering, not an NT class
			if !activeDrained() {
				break
			}
			sbStore = ha.NewInMemorySessionStore()
			mark := time.Now()
			hist = append(hist, "standby-start")
			sb = startStandby(fw.addr(), sbStore)
			if !linkUp(mark) {
				inconclusive("restarted standby did not connect within %v", waitTimeout)
				break
			}
			compare(what+" immediately after restart", func(tdiff) string { return sigE2EDiverged })
			if !dead && quiesce() {
				compare(what, func(tdiff) string { return sigE2EDiverged })
			}
		case "fault":
			// the standby loses the link (or is restarted), the active moves on, and when the standby comes back
			// its requests run into the armed faults: it has to retry until a whole connection attempt (stream
			// attach + snapshot) succeeds.  Nothing is asserted while it is not connected; once it reports the
			// link up and the active is quiet the tables must be equal.
			lastLink = "after-faulty-reconnect"
			if ph.Restart {
				hist = append(hist, "standby-stop")
				sb.Stop()
			} else {
				hist = append(hist, "cut+down")
				fw.cut(true)
				if !pollUntil(func() bool { return !sb.Stats().Connected }) {
					inconclusive("standby still reports connected %v after its connections were closed", waitTimeout)
					break
				}
			}
			do("link-down", ph.Changes, !ph.Restart)
			if !activeDrained() {
				break
			}
			plan.arm(ph.Faults)
			arm := "arm-faults:"
			for _, o := range ph.Faults.Stream {
				arm += " stream=" + foName(o)
				cls["fault:stream:"+foName(o)] = true
			}
			for _, o := range ph.Faults.Snap {
				arm += " snapshot=" + foName(o)
				cls["fault:snapshot:"+foName(o)] = true
			}
			hist = append(hist, arm)
			if ph.Restart {
				sbStore = ha.NewInMemorySessionStore()
				hist = append(hist, "standby-start")
				sb = startStandby(fw.addr(), sbStore)
				cls["fault:standby-restarted"] = true
			} else {
				hist = append(hist, "restore")
				fw.restore()
			}
			// (a standby answered with an HTML page for its stream reports connected for the instant it takes to read
			// the page to its end: "connected" counts while the last stream request was relayed to the real handler; a bounce after that
			// is handled by quiesce, which accepts only a sentinel that came through a stable stream)
			if !pollUntil(func() bool { return sb.Stats().Connected && plan.streamGenuine() }) {
				inconclusive("standby did not report connected within %v of the faulty reconnect (last error %q)", waitTimeout, sb.Stats().LastError)
				break
			}
			quiet := quiesce()
			applied, lastSnapFault, pending := plan.state()
			plan.arm(faultSet{}) // faults belong to this phase's reconnection only
			snapFaulted := false
			for _, a := range applied {
				if strings.HasPrefix(a, clsSnap+":") && !strings.HasSuffix(a, foName(foDelay)) {
					snapFaulted = true
				}
			}
			if snapFaulted {
				cls["fault:link-up-after-snapshot-fault"] = true
			}
			if pending > 0 {
				cls["fault:connected-with-faults-unserved"] = true
			}
			if quiet {
				compare(fmt.Sprintf("%s (faults served: %v; the last snapshot request was failed: %v)", what, applied, lastSnapFault), func(tdiff) string {
					if snapFaulted {
						return sigAfterSnapFault
					}
					return sigE2EDiverged
				})
			}
		case "halfopen":
			// the standby's connection dies in a way the active does not notice (the forwarder closes the
			// standby's side and keeps the active's side open); the standby reconnects and resynchronises while
			// the active's old stream handler lives on; only then the active's side is closed as well and the old
			// handler is torn down.  Changes pushed after that, with the link up, must reach the standby.
			hist = append(hist, "freeze")
			lastLink = "after-halfopen"
			mark := time.Now()
			gone := act.logc.disconnected.Load()
			frozen := fw.freeze()
			if !linkUp(mark) {
				inconclusive("link did not come back within %v after the standby's side was closed", waitTimeout)
				break
			}
			hist = append(hist, "release")
			fw.releaseFrozen()
			// place the next step after the old handler's teardown (the active logs it); if the line never
			// comes the phase just goes on — this wait carries no verdict
			// (frozen counts every forwarded connection, the standby's idle keep-alive connection for its GETs
			// included; exactly one of them carried the stream)
			if frozen > 0 && bounded(2*time.Second, func() bool { return act.logc.disconnected.Load() > gone }) {
				cls["halfopen:old-handler-torn-down-after-reconnect"] = true
			}
			do("connected", ph.Changes, false)
			if quiesce() {
				compare(what, func(tdiff) string { return sigE2EDiverged })
			}
		case "race":
			// the link is cut but not kept down: the active keeps changing while the standby reconnects
			hist = append(hist, "cut")
			lastLink = "after-bounce"
			mark := time.Now()
			fw.cut(false)
			pause = time.Duration(ph.PauseUS) * time.Microsecond
			do("racing-reconnect", ph.Changes, true)
			pause = 0
			if !linkUp(mark) {
				inconclusive("link did not come back within %v", waitTimeout)
				break
			}
			if quiesce() {
				compare(what, func(d tdiff) string {
					if extraOnly(d) && vstat.IsListed(sigStaleHTTP) {
						return sigStaleHTTP // a delete that preceded the standby's GET (listed); otherwise the gap
					}
					return sigGap
				})
			}
		}
	}
	if isInconclusive() {
		skip()
		return
	}
	labels := []string{"layer:e2e"}
	for k := range cls {
		labels = append(labels, k)
	}
	if nt {
		labels = append(labels, "nt")
	}
	h := hist
	vstat.Case(nt, vstat.Hash("e2e", strings.Join(h, ";")), func() any { return map[string]any{"layer": "e2e", "ops": h} }, labels...)
}
