package c13

// Layer 2 (end to end): the real active (Start: its own listener, broadcast
// loop and heartbeats) and the real standby (Start: standbyLoop with its
// back-off shortened through the hook) over loopback HTTP.  A TCP forwarder
// between them lets the harness cut the link and keep it down.  Histories are
// drawn up front; every wait is a bounded poll whose expiry is INCONCLUSIVE.

import (
	"encoding/json"
	"fmt"
	"io"
	"net"
	"net/http"
	"os"
	"runtime"
	"strings"
	"sync"
	"sync/atomic"
	"testing"
	"time"

	"github.com/codelaboratoryltd/bng/pkg/ha"
	"go.uber.org/zap"
	"pgregory.net/rapid"

	"bngverif/internal/vstat"
)

// ---- TCP forwarder ------------------------------------------------------------

type forwarder struct {
	ln     net.Listener
	target string
	mu     sync.Mutex
	up     bool
	conns  map[net.Conn]struct{}
	wg     sync.WaitGroup
	closed bool
}

func newForwarder(target string) (*forwarder, error) {
	ln, err := listenLoopback()
	if err != nil {
		return nil, err
	}
	f := &forwarder{ln: ln, target: target, up: true, conns: map[net.Conn]struct{}{}}
	f.wg.Add(1)
	go f.accept()
	return f, nil
}

func (f *forwarder) addr() string { return f.ln.Addr().String() }

func (f *forwarder) track(c net.Conn) bool {
	f.mu.Lock()
	defer f.mu.Unlock()
	if f.closed || !f.up {
		return false
	}
	f.conns[c] = struct{}{}
	return true
}

func (f *forwarder) untrack(c net.Conn) {
	f.mu.Lock()
	delete(f.conns, c)
	f.mu.Unlock()
	c.Close()
}

func (f *forwarder) accept() {
	defer f.wg.Done()
	for {
		c, err := f.ln.Accept()
		if err != nil {
			return
		}
		if !f.track(c) {
			c.Close() // link down: the standby sees an immediate close
			continue
		}
		up, err := net.Dial("tcp", f.target)
		if err != nil {
			f.untrack(c)
			continue
		}
		if !f.track(up) {
			up.Close()
			f.untrack(c)
			continue
		}
		f.wg.Add(2)
		go func() { defer f.wg.Done(); io.Copy(up, c); f.untrack(up); f.untrack(c) }()
		go func() { defer f.wg.Done(); io.Copy(c, up); f.untrack(c); f.untrack(up) }()
	}
}

// cut closes every forwarded connection; with keepDown new connections are refused until restore.
func (f *forwarder) cut(keepDown bool) {
	f.mu.Lock()
	if keepDown {
		f.up = false
	}
	cs := make([]net.Conn, 0, len(f.conns))
	for c := range f.conns {
		cs = append(cs, c)
	}
	f.mu.Unlock()
	for _, c := range cs {
		c.Close()
	}
}

func (f *forwarder) restore() { f.mu.Lock(); f.up = true; f.mu.Unlock() }

func (f *forwarder) close() {
	f.mu.Lock()
	f.closed = true
	f.mu.Unlock()
	f.ln.Close()
	f.cut(true)
	f.wg.Wait()
}

// ---- starting the real active --------------------------------------------------

var nodeSerial atomic.Int64

// startActive starts a real active syncer on a loopback port and confirms through /ha/health
// that the listener that answers is this very node (Start does not report bind errors).
func startActive(hb time.Duration) (*activeSide, string, error) {
	hc := &http.Client{Timeout: 2 * time.Second, Transport: &http.Transport{DisableKeepAlives: true}}
	var lastErr error
	for attempt := 0; attempt < 8; attempt++ {
		l, err := listenLoopback()
		if err != nil {
			return nil, "", err
		}
		addr := l.Addr().String()
		l.Close()
		node := fmt.Sprintf("active-%d-%d", os.Getpid(), nodeSerial.Add(1))
		cfg := activeConfig(node)
		cfg.ListenAddr = addr
		cfg.HeartbeatInterval = hb
		a := &activeSide{store: ha.NewInMemorySessionStore(), tbl: table{}, ver: map[string]int{}}
		lg, drops := dropCountingLogger()
		if os.Getenv("C13_DEBUG_STACKS") != "" {
			lg, _ = zap.NewDevelopment()
		}
		a.drops = drops
		a.syn = ha.NewHASyncer(cfg, a.store, lg)
		if err := a.syn.Start(); err != nil {
			return nil, "", err
		}
		deadline := time.Now().Add(3 * time.Second)
		for time.Now().Before(deadline) {
			resp, err := hc.Get("http://" + addr + "/ha/health")
			if err != nil {
				lastErr = err
				time.Sleep(2 * time.Millisecond)
				continue
			}
			var h struct {
				NodeID string `json:"node_id"`
			}
			err = json.NewDecoder(resp.Body).Decode(&h)
			resp.Body.Close()
			if err == nil && h.NodeID == node {
				return a, addr, nil
			}
			lastErr = fmt.Errorf("port %s answered as %q (want %q): %v", addr, h.NodeID, node, err)
			break // somebody else owns the port
		}
		a.syn.Stop()
	}
	return nil, "", fmt.Errorf("could not start the active node: %v", lastErr)
}

// ---- generated histories -------------------------------------------------------

type e2ePhase struct {
	Kind    string // up | burst | down | restart | race
	Changes []achg
	PauseUS int // race only: pause between changes, so that they spread over the standby's reconnect (schedule perturbation, not an oracle)
}

type e2eCase struct {
	Phases       []e2ePhase
	HeartbeatMS  int
	NoHeldDelete bool
}

func genE2ECase(kinds []string) *rapid.Generator[e2eCase] {
	return rapid.Custom(func(t *rapid.T) e2eCase {
		var c e2eCase
		c.HeartbeatMS = rapid.SampledFrom([]int{10, 50, 10000}).Draw(t, "heartbeatMS")
		// the steering draws are unconditional so that fail files replay identically listed or not
		c.NoHeldDelete = rapid.IntRange(0, 9).Draw(t, "exerciseStale") >= 4 && vstat.IsListed(sigStaleHTTP)
		noRace := rapid.IntRange(0, 9).Draw(t, "exerciseRace") >= 4 && vstat.IsListed(sigGap)
		noBurst := rapid.IntRange(0, 9).Draw(t, "exerciseBurst") >= 3 && vstat.IsListed(sigActiveDrop)
		n := rapid.IntRange(1, 5).Draw(t, "phases")
		for i := 0; i < n; i++ {
			k := rapid.SampledFrom(kinds).Draw(t, "phase")
			if (k == "race" && noRace) || (k == "burst" && noBurst) {
				k = "up" // steer around a listed finding
			}
			min, max := 1, 8
			switch k {
			case "up":
				max = 20
			case "burst": // more changes, back to back, than the active's per-client channel (100) holds
				min, max = 120, 500
			}
			ph := e2ePhase{Kind: k, Changes: genChanges(min, max).Draw(t, "changes")}
			if k == "race" {
				ph.PauseUS = rapid.SampledFrom([]int{0, 50, 200, 500, 1500}).Draw(t, "pauseUS")
			}
			c.Phases = append(c.Phases, ph)
		}
		return c
	})
}

func TestPropE2ECut(t *testing.T) {
	base := goroutineBaseline()
	defer failIfInconclusive(t)
	vstat.Checks(90, 2500)
	rapid.Check(t, func(rt *rapid.T) {
		skipIfInconclusive(rt)
		runE2ECase(rt, genE2ECase([]string{"up", "up", "down", "down", "race", "burst"}).Draw(rt, "case"))
	})
	leakCheck(t, base)
}

func TestPropE2ERestart(t *testing.T) {
	base := goroutineBaseline()
	defer failIfInconclusive(t)
	vstat.Checks(90, 2500)
	rapid.Check(t, func(rt *rapid.T) {
		skipIfInconclusive(rt)
		runE2ECase(rt, genE2ECase([]string{"up", "restart", "restart", "down", "race"}).Draw(rt, "case"))
	})
	leakCheck(t, base)
}

func runE2ECase(t fataler, c e2eCase) {
	var hist []string
	cls := map[string]bool{}
	nt, dead := false, false
	skip := func() {
		if rt, ok := t.(*rapid.T); ok {
			rt.Skip("inconclusive wait")
		}
	}
	act, addr, err := startActive(time.Duration(c.HeartbeatMS) * time.Millisecond)
	if err != nil {
		setInconclusive("%v", err)
		skip()
		return
	}
	fw, err := newForwarder(addr)
	if err != nil {
		act.syn.Stop()
		setInconclusive("forwarder: %v", err)
		skip()
		return
	}
	sbStore := ha.NewInMemorySessionStore()
	sb := startStandby(fw.addr(), sbStore)
	defer func() {
		sb.Stop()
		fw.close()
		act.syn.Stop()
	}()

	fail := func(sig, f string, a ...any) {
		if vstat.Fail(t, sig, "%s\nhistory: %s", fmt.Sprintf(f, a...), strings.Join(hist, "; ")) {
			dead = true
			cls["kf:"+sig] = true
		}
	}
	inconclusive := func(f string, a ...any) {
		st := sb.Stats()
		setInconclusive("%s (standby: connected=%v lastSync=%s lastError=%q at %s; active: clients=%d backlog=%d; history: %s)", fmt.Sprintf(f, a...),
			st.Connected, st.LastSyncTime.Format("15:04:05.000"), st.LastError, st.LastErrorTime.Format("15:04:05.000"),
			act.syn.VerifSSEClientCount(), act.syn.VerifSSEBacklog(), strings.Join(hist, "; "))
		dead = true
		if os.Getenv("C13_DEBUG_STACKS") != "" {
			fw.mu.Lock()
			fmt.Fprintf(os.Stderr, "forwarder %s up=%v tracked=%d\n", fw.addr(), fw.up, len(fw.conns))
			for c := range fw.conns {
				fmt.Fprintf(os.Stderr, "  conn %s -> %s\n", c.LocalAddr(), c.RemoteAddr())
			}
			fw.mu.Unlock()
			buf := make([]byte, 1<<20)
			n := runtime.Stack(buf, true)
			for _, g := range strings.Split(string(buf[:n]), "\n\n") {
				if strings.Contains(g, "pkg/ha") || strings.Contains(g, "forwarder") {
					fmt.Fprintf(os.Stderr, "%s\n\n", g)
				}
			}
		}
	}
	held := func(id string) bool { _, ok := sbStore.GetSession(id); return ok }
	pause := time.Duration(0)
	do := func(where string, chs []achg, away bool) {
		for _, ch := range chs {
			if pause > 0 {
				time.Sleep(pause)
			}
			wasHeld := held(ids[ch.ID])
			d, k, _ := act.applyChange(ch, held, away && c.NoHeldDelete)
			hist = append(hist, where+":"+d)
			if away && wasHeld && (k == opDelete || k == opUpdate) {
				nt = true
				cls["nt:"+string(k)+map[string]string{"link-down": "-while-away", "racing-reconnect": "-while-away"}[where]] = true
			}
		}
	}
	linkUp := func(mark time.Time) bool {
		return pollUntil(func() bool {
			st := sb.Stats()
			return st.Connected && st.LastSyncTime.After(mark)
		})
	}
	sentinels := 0
	// quiesce: the active goes quiet, the sentinel is the last change pushed; once the standby shows it
	// every earlier change of the (ordered) stream has been applied — provided the sentinel reached the
	// standby THROUGH THE STREAM (one ordered channel, one reader).  A sentinel that arrived inside the
	// snapshot of a reconnect proves nothing about changes still queued on the stream attached around
	// that snapshot: they are applied after it, in push order, and while that happens the table is
	// transiently older than the active's.  So a sentinel counts only if no full sync completed between
	// its push (with the stream attached) and its arrival; otherwise another one is pushed (bounded).
	quiesce := func() bool {
		for attempt := 0; attempt < 6; attempt++ {
			var before ha.SyncStats
			if !pollUntil(func() bool { before = sb.Stats(); return before.Connected }) {
				inconclusive("standby not attached within %v before the sentinel could be pushed", waitTimeout)
				return false
			}
			sentinels++
			sid := act.sentinel(sentinels)
			hist = append(hist, "sentinel")
			if !pollUntil(func() bool { return held(sid) }) {
				inconclusive("sentinel %s not seen on the standby within %v", sid, waitTimeout)
				return false
			}
			// the sentinel may have arrived through the snapshot of a reconnect that is still in progress
			// (an active that disconnects slow clients bounces the link on its own): the phase ends with the stream attached
			var after ha.SyncStats
			if !pollUntil(func() bool { after = sb.Stats(); return after.Connected }) {
				inconclusive("standby not attached within %v after the sentinel arrived", waitTimeout)
				return false
			}
			if after.LastSyncTime.Equal(before.LastSyncTime) {
				return true // no full sync since before the push: the sentinel came through the stream
			}
			cls["sentinel-arrived-in-snapshot"] = true
		}
		inconclusive("the link kept bouncing: no sentinel arrived through the stream in 6 attempts")
		return false
	}
	// activeDrained: "the active is quiet" must also hold for its broadcast queue before the standby is let
	// back in.  A change still queued when the standby's new stream attaches is delivered after the snapshot
	// (which already contains it) and makes the table transiently older than the snapshot; the phases that
	// compare immediately after the reconnect are not about that (the race phase is, and compares at quiescence).
	activeDrained := func() bool {
		if !pollUntil(func() bool { return act.syn.VerifSSEBacklog() == 0 }) {
			inconclusive("active backlog did not drain within %v", waitTimeout)
			return false
		}
		return true
	}
	compare := func(what string, sigFor func(d tdiff) string) {
		if d := diffTable(sbStore.GetAllSessions(), act.tbl); !d.empty() {
			if n := act.drops.Load(); n > 0 {
				// the active itself logged that it discarded changes pushed while the stream was connected
				fail(sigActiveDrop, "%s: the active dropped %d change(s) ('Client channel full'); link up and active quiet, but standby != active: %v", what, n, d)
				return
			}
			fail(sigFor(d), "%s: link up and active quiet, but standby != active: %v", what, d)
		}
	}
	extraOnly := func(d tdiff) bool { return len(d.extra) > 0 && len(d.missing)+len(d.differ)+len(d.dup) == 0 }

	start := time.Time{}
	if !linkUp(start) {
		inconclusive("initial link did not come up within %v", waitTimeout)
	}
	for pi, ph := range c.Phases {
		if dead {
			break
		}
		cls["phase:"+ph.Kind] = true
		what := fmt.Sprintf("phase %d (%s)", pi, ph.Kind)
		switch ph.Kind {
		case "up":
			// changes pushed while the stream is connected: clause 2, then quiescence
			do("connected", ph.Changes, false)
			if quiesce() {
				compare(what, func(tdiff) string { return sigE2EDiverged })
			}
		case "burst":
			syncBefore := sb.Stats().LastSyncTime
			do("connected-burst", ph.Changes, false)
			hist = append(hist[:len(hist)-len(ph.Changes)], fmt.Sprintf("connected-burst:%d changes", len(ph.Changes)))
			// let the active hand everything it still holds to the stream before the sentinel is pushed,
			// so that the sentinel itself cannot be discarded
			if !pollUntil(func() bool { return act.syn.VerifSSEBacklog() == 0 }) {
				inconclusive("active backlog did not drain within %v", waitTimeout)
				break
			}
			if act.drops.Load() > 0 {
				cls["burst-overflowed-client-channel"] = true
			}
			if quiesce() {
				bounced := !sb.Stats().LastSyncTime.Equal(syncBefore)
				if bounced {
					cls["burst-link-bounced"] = true // the active disconnected the overflowing client: the burst raced a reconnect
				}
				compare(what, func(d tdiff) string {
					switch {
					case !bounced:
						return sigE2EDiverged
					case extraOnly(d) && vstat.IsListed(sigStaleHTTP):
						return sigStaleHTTP
					}
					return sigGap
				})
			}
		case "down":
			// the link is cut and stays down while the active moves on; then it is restored
			hist = append(hist, "cut+down")
			mark := time.Now() // before the cut: no full sync happens spontaneously while the stream is up
			fw.cut(true)
			do("link-down", ph.Changes, true)
			if !activeDrained() {
				break
			}
			hist = append(hist, "restore")
			fw.restore()
			if !linkUp(mark) {
				inconclusive("link did not come back within %v", waitTimeout)
				break
			}
			// the active was quiet since before the link came back: the standby's full sync saw exactly this table
			compare(what+" immediately after reconnect", func(d tdiff) string {
				if extraOnly(d) {
					return sigStaleHTTP
				}
				return sigE2EDiverged
			})
			if !dead && quiesce() {
				compare(what, func(tdiff) string { return sigE2EDiverged })
			}
		case "restart":
			// the standby process is stopped and started again (its in-memory table is gone)
			hist = append(hist, "standby-stop")
			sb.Stop()
			do("standby-stopped", ph.Changes, false) // the restarted standby holds nothing: no steering, not an NT class
			if !activeDrained() {
				break
			}
			sbStore = ha.NewInMemorySessionStore()
			mark := time.Now()
			hist = append(hist, "standby-start")
			sb = startStandby(fw.addr(), sbStore)
			if !linkUp(mark) {
				inconclusive("restarted standby did not connect within %v", waitTimeout)
				break
			}
			compare(what+" immediately after restart", func(tdiff) string { return sigE2EDiverged })
			if !dead && quiesce() {
				compare(what, func(tdiff) string { return sigE2EDiverged })
			}
		case "race":
			// the link is cut but not kept down: the active keeps changing while the standby reconnects
			hist = append(hist, "cut")
			mark := time.Now()
			fw.cut(false)
			pause = time.Duration(ph.PauseUS) * time.Microsecond
			do("racing-reconnect", ph.Changes, true)
			pause = 0
			if !linkUp(mark) {
				inconclusive("link did not come back within %v", waitTimeout)
				break
			}
			if quiesce() {
				compare(what, func(d tdiff) string {
					if extraOnly(d) && vstat.IsListed(sigStaleHTTP) {
						return sigStaleHTTP // a delete that preceded the standby's GET (listed); otherwise the gap
					}
					return sigGap
				})
			}
		}
	}
	if isInconclusive() {
		skip()
		return
	}
	labels := []string{"layer:e2e"}
	for k := range cls {
		labels = append(labels, k)
	}
	if nt {
		labels = append(labels, "nt")
	}
	h := hist
	vstat.Case(nt, vstat.Hash("e2e", strings.Join(h, ";")), func() any { return map[string]any{"layer": "e2e", "ops": h} }, labels...)
}
