package c13

// Link layer ("layer 1g"): the REAL standby loop (Start -> standbyLoop ->
// performFullSync / connectToStream) against the REAL active handlers, with a
// gate in front of the handlers so that the harness decides what the active
// does between the standby's requests.  This is where the "consequently" clause
// is decided deterministically: the order of full sync and stream attach is the
// standby loop's own, not the harness's.

import (
	"context"
	"fmt"
	"net/http"
	"os"
	"strings"
	"sync"
	"sync/atomic"
	"testing"
	"time"

	"github.com/codelaboratoryltd/bng/pkg/ha"
	"go.uber.org/zap"
	"pgregory.net/rapid"

	"bngverif/internal/vstat"
)

// abstract change: resolved against the table when it is executed
// (add of a present id becomes an update, update/delete of an absent id becomes an add).
type achg struct {
	Kind int // 0 add/update, 1 update, 2 delete
	ID   int
}

func genChanges(min, max int) *rapid.Generator[[]achg] {
	return rapid.SliceOfN(rapid.Custom(func(t *rapid.T) achg {
		return achg{Kind: rapid.SampledFrom([]int{0, 1, 1, 2, 2}).Draw(t, "kind"), ID: rapid.IntRange(0, len(ids)-1).Draw(t, "id")}
	}), min, max)
}

// activeSide is a real active HASyncer plus the model of its table.
type activeSide struct {
	syn   *ha.HASyncer
	store *ha.InMemorySessionStore
	tbl   table
	ver   map[string]int
	sync  bool          // drain the change queue synchronously (the syncer was not started, no broadcastLoop)
	drops *atomic.Int64 // "Client channel full, dropping message" warnings logged by the active
	logc  *logCounts    // end to end only: the active's own connect/disconnect log lines (step placement, never a verdict)
}

func (a *activeSide) push(typ ha.SyncMessageType, stored *ha.SessionState, payload ha.SessionState) error {
	if stored != nil {
		c := *stored
		a.store.PutSession(&c)
	} else {
		a.store.DeleteSession(payload.SessionID)
	}
	if err := a.syn.PushChange(typ, &payload); err != nil {
		return err
	}
	if a.sync {
		a.syn.VerifBroadcastPending()
	}
	return nil
}

// applyChange resolves and performs one abstract change; returns its description.
func (a *activeSide) applyChange(c achg, held func(id string) bool, noHeldDelete bool) (string, opKind, string) {
	id := ids[c.ID]
	_, present := a.tbl[id]
	kind := c.Kind
	if !present {
		kind = 0
	} else if kind == 0 {
		kind = 1
	}
	if kind == 2 && noHeldDelete && held(id) {
		kind = 1
	}
	switch kind {
	case 2:
		delete(a.tbl, id)
		if err := a.push(ha.SyncTypeDelete, nil, ha.SessionState{SessionID: id}); err != nil {
			panic("harness: " + err.Error())
		}
		return "delete(" + id + ")", opDelete, id
	default:
		a.ver[id]++
		v := detState(id, a.ver[id])
		a.tbl[id] = v
		typ, k := ha.SyncTypeAdd, opAdd
		if kind == 1 {
			typ, k = ha.SyncTypeUpdate, opUpdate
		}
		if err := a.push(typ, &v, v); err != nil {
			panic("harness: " + err.Error())
		}
		return string(k) + "(" + id + ")", k, id
	}
}

func (a *activeSide) sentinel(n int) string {
	id := fmt.Sprintf("%s%03d", sentinelPrefix, n)
	v := detState(id, n)
	a.tbl[id] = v
	if err := a.push(ha.SyncTypeAdd, &v, v); err != nil {
		panic("harness: " + err.Error())
	}
	return id
}

// ---- the gate ------------------------------------------------------------------

type gateReq struct {
	path    string
	release chan struct{}
	outcome int // fault outcome (fault_test.go), set by the harness before it closes release
	pos     int
}

type gate struct {
	inner    http.Handler
	arrivals chan *gateReq
	closed   chan struct{}
	once     sync.Once
	mu       sync.Mutex
	streams  map[int]context.CancelFunc // live stream requests (the harness ends them to cut the link)
	nstream  int
}

func newGate(inner http.Handler) *gate {
	return &gate{inner: inner, arrivals: make(chan *gateReq, 16), closed: make(chan struct{}), streams: map[int]context.CancelFunc{}}
}

func (g *gate) ServeHTTP(w http.ResponseWriter, r *http.Request) {
	if r.URL.Path != "/ha/sessions" && r.URL.Path != "/ha/sessions/stream" {
		// Not a request of the standby loop (it issues only these two): e.g. the /ha/health identity
		// probe of an end-to-end test in another process whose just-released port number this
		// listener happened to get.  Answer it without parking it at the gate.
		g.inner.ServeHTTP(w, r)
		return
	}
	ev := &gateReq{path: r.URL.Path, release: make(chan struct{})}
	select {
	case g.arrivals <- ev:
	case <-g.closed:
		return
	}
	select {
	case <-ev.release:
	case <-r.Context().Done():
		return
	case <-g.closed:
		return
	}
	if ev.outcome == foDelay {
		time.Sleep(2 * time.Millisecond)
	} else if ev.outcome != foOK {
		serveWithOutcome(w, r, g.inner, ev.outcome, ev.pos)
		return
	}
	if r.URL.Path == "/ha/sessions/stream" {
		ctx, cancel := context.WithCancel(r.Context())
		g.mu.Lock()
		g.nstream++
		id := g.nstream
		g.streams[id] = cancel
		g.mu.Unlock()
		defer func() {
			g.mu.Lock()
			delete(g.streams, id)
			g.mu.Unlock()
			cancel()
		}()
		r = r.WithContext(ctx)
	}
	g.inner.ServeHTTP(w, r)
}

// endStreams makes the active end every live stream (its handler sees the request context done and
// returns, the response ends): the standby observes a closed stream and reconnects.  Only the stream
// is touched, so no other request of the standby can be hit by the cut.
func (g *gate) endStreams() {
	g.mu.Lock()
	for _, cancel := range g.streams {
		cancel()
	}
	g.mu.Unlock()
}

func (g *gate) shutdown() { g.once.Do(func() { close(g.closed) }); g.endStreams() }

// nextRequest waits (bounded) for the standby's next request to be parked at the gate.
func (g *gate) nextRequest() *gateReq {
	select {
	case ev := <-g.arrivals:
		return ev
	case <-time.After(waitTimeout):
		return nil
	}
}

type linkCase struct {
	Episodes     []linkEpisode
	NoHeldDelete bool // steer around the listed stale-entry finding: no delete of a session the standby holds while it is away
}
type linkEpisode struct {
	Away      []achg   // while the standby is not connected (before its first request of the episode is served)
	Between   []achg   // between the standby's first and second request of the link establishment
	Connected []achg   // after the link is up
	Faults    faultSet // what the standby's requests of this (re)connection run into before they are served
}

func startStandby(endpoint string, store ha.SessionStore) *ha.HASyncer {
	cfg := standbyConfig(endpoint)
	// http.Client.Timeout (= RequestTimeout) also bounds the life of the stream request: keep it far
	// beyond the duration of a case so that the only disconnections are the ones the harness makes
	cfg.RequestTimeout = 10 * time.Minute
	lg := zap.NewNop()
	if os.Getenv("C13_DEBUG_STACKS") != "" {
		lg, _ = zap.NewDevelopment()
	}
	sb := ha.NewHASyncer(cfg, store, lg)
	sb.VerifSetBackoff(time.Millisecond, 4*time.Millisecond)
	if err := sb.Start(); err != nil {
		panic("harness: standby Start: " + err.Error())
	}
	return sb
}

// TestPropLinkGate: real standby loop x real active handlers x harness-controlled points of change.
func TestPropLinkGate(t *testing.T) {
	base := goroutineBaseline()
	defer failIfInconclusive(t)
	checks(200, 6000)
	rapid.Check(t, func(rt *rapid.T) {
		skipIfInconclusive(rt)
		runLinkCase(rt, genLinkCase().Draw(rt, "case"))
	})
	leakCheck(t, base)
}

func genLinkCase() *rapid.Generator[linkCase] {
	return rapid.Custom(func(t *rapid.T) linkCase {
		// the steering draws are unconditional so that fail files replay identically listed or not
		avoidGap := rapid.IntRange(0, 9).Draw(t, "exerciseGap") >= 4 && vstat.IsListed(sigGap)
		n := rapid.IntRange(1, 3).Draw(t, "episodes")
		var c linkCase
		c.NoHeldDelete = rapid.IntRange(0, 9).Draw(t, "exerciseStale") >= 4 && vstat.IsListed(sigLoopFullStale)
		for i := 0; i < n; i++ {
			e := linkEpisode{
				Away:      genChanges(0, 5).Draw(t, "away"),
				Connected: genChanges(0, 6).Draw(t, "connected"),
			}
			e.Between = genChanges(0, 3).Draw(t, "between")
			if avoidGap {
				e.Between = nil
			}
			e.Faults = genFaultSet().Draw(t, "faults")
			c.Episodes = append(c.Episodes, e)
		}
		return c
	})
}

const sigAfterFailedSnapshot = "C13/link/quiescent-divergence/connected-after-failed-snapshot"

func runLinkCase(t fataler, c linkCase) {
	noHeldDelete := c.NoHeldDelete
	act := &activeSide{store: ha.NewInMemorySessionStore(), tbl: table{}, ver: map[string]int{}, sync: true}
	act.syn = ha.NewHASyncer(activeConfig("active"), act.store, zap.NewNop())
	g := newGate(act.syn.VerifActiveHandler())
	srv := newLoopbackServer(g)
	sbStore := ha.NewInMemorySessionStore()
	sb := startStandby(srv.Listener.Addr().String(), sbStore)
	defer func() {
		g.shutdown()
		sb.Stop()
		act.syn.Stop()
		srv.Close()
	}()

	var hist []string
	cls := map[string]bool{}
	nt := false
	dead := false
	fail := func(sig, f string, a ...any) {
		if vstat.Fail(t, sig, "%s\nhistory: %s", fmt.Sprintf(f, a...), strings.Join(hist, "; ")) {
			dead = true
			cls["kf:"+sig] = true
		}
	}
	inconclusive := func(f string, a ...any) {
		setInconclusive("%s (history: %s)", fmt.Sprintf(f, a...), strings.Join(hist, "; "))
		dead = true
	}
	held := func(id string) bool { _, ok := sbStore.GetSession(id); return ok }
	do := func(where string, chs []achg) (lossy bool) {
		for _, ch := range chs {
			wasHeld := held(ids[ch.ID])
			d, k, _ := act.applyChange(ch, held, noHeldDelete)
			hist = append(hist, where+":"+d)
			if (k == opDelete || k == opUpdate) && wasHeld && where != "connected" {
				lossy = true
				cls["nt:"+string(k)+map[string]string{"away": "-while-away", "between": "-in-gap"}[where]] = true
			}
		}
		return lossy
	}
	// nextEvent: the standby's next request parked at the gate, or the standby reporting that the link is up.
	// (Between two episodes the harness waits until the standby has noticed the cut, so a "connected" seen
	// here was set by the connection attempt under way.)
	// "Connected" counts only while the stream request the standby sits on was served genuinely by the harness:
	// a standby that got a 200 with an HTML page for its stream reports connected for the instant it needs to
	// read that page to its end, then starts over.
	streamLive := false
	nextEvent := func() (ev *gateReq, up, ok bool) {
		deadline := time.Now().Add(waitTimeout)
		for {
			select {
			case ev := <-g.arrivals:
				return ev, false, true
			case <-time.After(200 * time.Microsecond):
			}
			if streamLive && sb.Stats().Connected {
				return nil, true, true
			}
			if time.Now().After(deadline) {
				return nil, false, false
			}
		}
	}
	sentinels := 0

	for ei, ep := range c.Episodes {
		if dead {
			break
		}
		faults := faultSet{Stream: append([]int(nil), ep.Faults.Stream...), Snap: append([]int(nil), ep.Faults.Snap...), Pos: ep.Faults.Pos}
		var (
			awayDone, betweenDone   bool
			awayLossy, betweenLossy bool
			okInAttempt             string // path of the request served genuinely in the connection attempt under way ("" = none yet)
			snapAt                  table  // the active's table when the last genuine snapshot was served
			lastSnapFault           bool   // the most recent snapshot request was answered with a fault
			snapFaults, strFaults   int
		)
		for !dead {
			ev, up, ok := nextEvent()
			if !ok {
				inconclusive("standby neither issued a request nor reported connected within %v (last error: %q)", waitTimeout, sb.Stats().LastError)
				break
			}
			if up {
				break
			}
			if !awayDone {
				// the standby is parked before its first request is served: it is away
				awayDone = true
				awayLossy = do("away", ep.Away)
			} else if okInAttempt != "" && okInAttempt != ev.path && !betweenDone {
				betweenDone = true
				betweenLossy = do("between", ep.Between)
				if len(ep.Between) > 0 {
					cls["change-between-requests"] = true
				}
			}
			class := classOf(ev.path)
			outcome := foOK
			switch class {
			case clsStream:
				streamLive = false // a new stream request: whatever stream there was has been given up
				if len(faults.Stream) > 0 {
					outcome, faults.Stream = faults.Stream[0], faults.Stream[1:]
				}
			case clsSnap:
				if len(faults.Snap) > 0 {
					outcome, faults.Snap = faults.Snap[0], faults.Snap[1:]
				}
				lastSnapFault = isFault(outcome)
			}
			if isFault(outcome) {
				// the request fails; a correct standby abandons the attempt, backs off and starts over.  Nothing is
				// asserted until it reports connected.
				hist = append(hist, "fault:"+class+":"+foName(outcome))
				cls["fault:"+class+":"+foName(outcome)] = true
				if class == clsSnap {
					snapFaults++
					if okInAttempt == "/ha/sessions/stream" {
						cls["fault:snapshot-after-stream-attached"] = true
					}
				} else {
					strFaults++
				}
				okInAttempt = ""
				ev.outcome, ev.pos = outcome, faults.Pos
				close(ev.release)
				continue
			}
			if class == clsStream && okInAttempt == "/ha/sessions" {
				// get-then-stream order: the full sync has completed and the standby is parked before the stream:
				// clause 1, on the real loop
				cls["order:get-then-stream"] = true
				if d := diffTable(sbStore.GetAllSessions(), snapAt); !d.empty() {
					sig := sigLoopFullDiff
					if len(d.extra) > 0 && len(d.missing)+len(d.differ)+len(d.dup) == 0 {
						sig = sigLoopFullStale
					}
					fail(sig, "episode %d: immediately after the completed full sync the standby table differs from the snapshot: %v", ei, d)
					break
				}
			} else if class == clsSnap && okInAttempt == "/ha/sessions/stream" {
				cls["order:stream-then-get"] = true
			}
			if class == clsSnap {
				snapAt = act.tbl.clone()
			}
			if okInAttempt == "" || okInAttempt == ev.path {
				okInAttempt = ev.path
			}
			if outcome == foDelay {
				cls["fault:"+class+":"+foName(outcome)] = true
				hist = append(hist, "delay:"+ev.path)
			}
			hist = append(hist, "serve:"+ev.path)
			if class == clsStream {
				streamLive = true
			}
			ev.outcome = outcome
			close(ev.release)
		}
		if dead {
			break
		}
		// the standby reports the link up
		if awayLossy || betweenLossy {
			nt = true
		}
		if snapFaults+strFaults > 0 {
			cls["link-up-after-faults"] = true
			if (awayLossy || len(ep.Away) > 0) && snapFaults > 0 {
				cls["nt:snapshot-fault-while-tables-differ"] = true
				nt = true
			}
		}
		if rem := len(faults.Stream) + len(faults.Snap); rem > 0 {
			cls["connected-with-faults-unserved"] = true // the standby needed fewer requests than faults were planned
		}
		do("connected", ep.Connected)
		// the active goes quiet; the sentinel is the last change pushed
		sentinels++
		sid := act.sentinel(sentinels)
		hist = append(hist, "sentinel")
		// decided by the sampled state, as in the end-to-end layer (see pollWatch and quiesce in e2e_test.go);
		// here the active is not even started: the sentinel was broadcast synchronously by the push, so with
		// nothing queued it is in the hands of a runnable handler, on the wire, or lost for good
		var noClient bool
		var lastState string
		pr := pollWatch(func() bool { return held(sid) }, func() (bool, string) {
			st := sb.Stats()
			noClient = act.syn.VerifSSEClientCount() == 0
			lastState = fmt.Sprintf("noClient=%v sync=%d err=%d/%q table=%x", noClient, st.LastSyncTime.UnixNano(), st.LastErrorTime.UnixNano(), st.LastError, storeFP(sbStore))
			return st.Connected && act.syn.VerifSSEBacklog() == 0, lastState
		})
		if pr == pollDead {
			sig := sigLinkStableDead + "/gated-episode"
			if noClient {
				sig = sigNotRegistered + "/gated-episode"
			}
			fail(sig, "episode %d: the standby is connected, the active holds nothing in any queue (registered stream clients: %v), and sentinel %s, pushed with the link up, is not on the standby; nothing moved over >= %v and >= %d samples; standby vs active: %v",
				ei, act.syn.VerifSSEClientIDs(), sid, deadWindow, deadMinSamples, diffTable(sbStore.GetAllSessions(), act.tbl))
			break
		}
		if pr == pollExpired {
			inconclusive("sentinel %s not seen on the standby within %v and no stable state over the wait (last sample: %s)", sid, watchTimeout, lastState)
			break
		}
		if d := diffTable(sbStore.GetAllSessions(), act.tbl); !d.empty() {
			sig := sigQuiescent
			extraOnly := len(d.extra) > 0 && len(d.missing)+len(d.differ)+len(d.dup) == 0
			switch {
			case lastSnapFault:
				// the standby reported the link up although the snapshot request of this very attempt had failed
				sig = sigAfterFailedSnapshot
			case extraOnly && (len(ep.Between) == 0 || vstat.IsListed(sigStaleHTTP)):
				sig = sigLoopFullStale // a session deleted while the standby could not learn of it survived the full sync
			case len(ep.Between) > 0:
				sig = sigGap
			}
			fail(sig, "episode %d: link up (standby connected, last sync %s, last error %q), active quiet, sentinel delivered, but standby != active: %v", ei,
				sb.Stats().LastSyncTime.Format("15:04:05.000"), sb.Stats().LastError, d)
			break
		}
		if d := diffTable(act.store.GetAllSessions(), act.tbl); !d.empty() {
			t.Fatalf("harness: active store differs from its model: %v", d)
		}
		cls["episode-converged"] = true
		if ei+1 < len(c.Episodes) {
			hist = append(hist, "cut")
			streamLive = false
			g.endStreams()
			// the next episode starts when the standby has noticed (its connected flag is its own statement about
			// the attempt under way only from then on)
			if !pollUntil(func() bool { return !sb.Stats().Connected }) {
				inconclusive("standby still reports connected %v after the active ended its stream", waitTimeout)
				break
			}
		}
	}
	if isInconclusive() {
		if rt, ok := t.(*rapid.T); ok {
			rt.Skip("inconclusive wait")
		}
		return
	}
	labels := []string{"layer:link/gated"}
	for k := range cls {
		labels = append(labels, k)
	}
	if nt {
		labels = append(labels, "nt")
	}
	if len(c.Episodes) >= 2 {
		labels = append(labels, "episodes>=2")
	}
	h := hist
	vstat.Case(nt, vstat.Hash("link", strings.Join(h, ";")), func() any { return map[string]any{"layer": "link/gated", "ops": h} }, labels...)
}
