package c13

// C13 — standby converges to the active node's session table.
//
// Common pieces: session-value generators, canonical comparison of session
// tables (sets of full SessionState values), signatures, inconclusive handling.

import (
	"errors"
	"fmt"
	"net"
	"net/http"
	"net/http/httptest"
	"os"
	"reflect"
	"runtime"
	"sort"
	"strings"
	"sync"
	"sync/atomic"
	"syscall"
	"testing"
	"time"

	"github.com/codelaboratoryltd/bng/pkg/ha"
	"go.uber.org/zap"
	"go.uber.org/zap/zapcore"
	"pgregory.net/rapid"

	"bngverif/internal/vstat"
)

func TestMain(m *testing.M) { vstat.Main(m, "C13") }

// checks sets the number of generated cases for the tier — except in a process the driver started to replay a
// committed fail file (VERIF_REPLAYING): rapid goes on with generated cases after the file, and under the
// driver's 5-minute limit for such a process a whole thorough budget does not fit (a timeout is not a verdict).
func checks(q, th int) {
	if os.Getenv("VERIF_REPLAYING") != "" {
		q, th = 50, 50
	}
	vstat.Checks(q, th)
}

type fataler = vstat.Fataler

// session-id alphabet of the property (<= 4 ids); the sentinel id is used only by the end-to-end layers.
var ids = []string{"s0", "s1", "s2", "s3"}

const sentinelPrefix = "zz-sentinel-"

// Violation signatures (one per clause x component x call site).
const (
	sigStaleHTTP      = "C13/standby/full-sync/stale-session-survives/http-get"
	sigStaleStream    = "C13/standby/full-sync/stale-session-survives/stream-full"
	sigFullDiffHTTP   = "C13/standby/full-sync/table-differs-from-snapshot/http-get"
	sigFullDiffStream = "C13/standby/full-sync/table-differs-from-snapshot/stream-full"
	sigFullErr        = "C13/standby/full-sync/returned-error"
	sigFailedSyncMut  = "C13/standby/full-sync/failed-sync-changed-table"
	sigFailedSyncOK   = "C13/standby/full-sync/failed-sync-reported-success"
	sigStreamErr      = "C13/standby/stream/handler-error"
	sigStreamPanic    = "C13/standby/stream/handler-panic"
	sigRecvMap        = "C13/standby/received-map/differs-from-expected-table"
	sigActiveStream   = "C13/active/stream/message-not-in-push-order"
	sigActiveLost     = "C13/active/stream/change-pushed-while-connected-not-sent"
	sigActiveDrop     = "C13/active/stream/change-dropped-client-channel-full"
	sigGap            = "C13/link/quiescent-divergence/change-between-full-sync-and-stream-attach"
	sigLoopFullStale  = sigStaleHTTP // same defect, same call site (performFullSync), observed on the real loop
	sigLoopFullDiff   = "C13/link/full-sync/table-differs-from-snapshot"
	sigQuiescent      = "C13/link/quiescent-divergence/changes-only-while-connected-or-away"
	sigE2EDiverged    = "C13/e2e/quiescent-divergence/stable-phases"
	// verdicts of waits that ended in a stable dead state (pollDead), + "/" + what the link went through last
	// (initial | after-bounce | after-restart | after-halfopen | gated-episode):
	sigNotRegistered = "C13/link/standby-connected-but-not-registered"    // standby on an open stream, the active has no stream client at all
	sigStableDead    = "C13/e2e/quiescent-divergence/stable-dead-stream"   // connected, a client registered, nothing queued, and the pushed change never arrives
	sigLinkStableDead = "C13/link/quiescent-divergence/stable-dead-stream" // the same on the gated link layer
	sigMsgStableDead  = "C13/active/stream/change-pushed-while-connected-not-sent/stable-dead-stream"
	// the standby reported the link up after a (re)connection in which a snapshot request was failed, the
	// active is quiet, the sentinel came through the stream, and the tables differ
	sigAfterSnapFault = "C13/e2e/quiescent-divergence/stable-after-snapshot-fault"
)

// storeFP is a fingerprint of a session store's content (part of the state sampled by pollWatch).
func storeFP(st ha.SessionStore) uint64 {
	l := st.GetAllSessions()
	sort.Slice(l, func(i, j int) bool { return l[i].SessionID < l[j].SessionID })
	parts := make([]any, 0, len(l))
	for _, s := range l {
		parts = append(parts, canon(s))
	}
	return vstat.Hash(parts...)
}

func sigStream(kind ha.SyncMessageType) string {
	return "C13/standby/stream/" + string(kind) + "-not-applied-in-push-order"
}

// ---- inconclusive handling -------------------------------------------------
//
// A bounded wait that expires is never a violation.  Inside rapid a failure
// would be saved as a fail file (= violation for the driver), so the case is
// skipped and the enclosing test fails with an INCONCLUSIVE marker afterwards.

var (
	incMu  sync.Mutex
	incMsg string
)

func setInconclusive(format string, a ...any) {
	incMu.Lock()
	if incMsg == "" {
		incMsg = fmt.Sprintf(format, a...)
	}
	incMu.Unlock()
}

func isInconclusive() bool {
	incMu.Lock()
	defer incMu.Unlock()
	return incMsg != ""
}

// failIfInconclusive must be deferred by every test function that uses bounded waits: it runs also
// when rapid gives up ("only generated N valid tests") because the cases were skipped.
func failIfInconclusive(t *testing.T) {
	t.Helper()
	incMu.Lock()
	m := incMsg
	incMu.Unlock()
	if m != "" {
		t.Errorf("INCONCLUSIVE: %s", m)
	}
}

// skipIfInconclusive abandons further cases quickly once a bounded wait has expired.
func skipIfInconclusive(rt *rapid.T) {
	if isInconclusive() {
		rt.Skip("an earlier bounded wait expired")
	}
}

// waitTimeout is the bound of every real-time wait (expiry => INCONCLUSIVE).
const waitTimeout = 20 * time.Second

// pollUntil polls cond with a short sleep until it holds or waitTimeout passes.
func pollUntil(cond func() bool) bool {
	deadline := time.Now().Add(waitTimeout)
	for i := 0; ; i++ {
		if cond() {
			return true
		}
		if time.Now().After(deadline) {
			return false
		}
		if i < 50 {
			time.Sleep(100 * time.Microsecond)
		} else {
			time.Sleep(time.Millisecond)
		}
	}
}

// ---- bounded waits that look at STATE, not at the clock -------------------------
//
// A wait for "the pushed change shows up on the standby / on the stream" can end in three ways:
//
//	pollOK       the condition held;
//	pollExpired  the bound passed and the samples taken meanwhile do not single out a stable state:
//	             INCONCLUSIVE, as for every expired wait (a slow machine is not a verdict);
//	pollDead     EVERY sample of an unbroken run that covers at least deadWindow of real time AND at
//	             least deadMinSamples samples (each separated from the next by a sleep, i.e. by a yield
//	             to the Go scheduler) showed the same "dead" state: the caller-defined predicate held and
//	             the caller-defined fingerprint of everything that could still move never changed.
//
// pollDead is not "it took too long".  The predicates used with it (see the call sites) describe states in
// which nothing is queued anywhere, no request is in flight and no timer of the code under test is pending,
// so that no amount of further waiting can deliver the change: the only thing between such a state and its
// successor on a correct tree is a runnable goroutine (a stream handler returning, net/http ending the
// response, the standby's reader seeing the end of the body).  A runnable goroutine of this very process is
// not passed over by the Go scheduler for thousands of consecutive sleep/wake cycles of the polling
// goroutine, however loaded the machine is (load slows all goroutines of the process together; it cannot
// pick one out), which is why the run is measured in samples as well as in seconds.  Either measure alone
// would do on an idle machine; requiring both makes the verdict independent of machine load in both
// directions (few samples in 10 s on a starved machine: keep waiting; many samples in a short time: keep
// waiting).  Any sample that breaks the predicate or changes the fingerprint starts the run afresh.
const (
	deadWindow     = 10 * time.Second
	deadMinSamples = 2000
	watchTimeout   = 3 * deadWindow // room for two noisy thirds and one clean window
)

type pollResult int

const (
	pollOK pollResult = iota
	pollExpired
	pollDead
)

type deadRun struct {
	since time.Time
	n     int
	fp    string
}

// observe feeds one sample; true once the unbroken run is long enough by both measures.
func (r *deadRun) observe(dead bool, fp string) bool {
	if !dead {
		r.n = 0
		return false
	}
	now := time.Now()
	if r.n == 0 || fp != r.fp {
		r.since, r.n, r.fp = now, 0, fp
	}
	r.n++
	return r.n >= deadMinSamples && now.Sub(r.since) >= deadWindow
}

// pollWatch polls cond (as pollUntil) and samples the state before every sleep.
func pollWatch(cond func() bool, sample func() (dead bool, fp string)) pollResult {
	deadline := time.Now().Add(watchTimeout)
	var run deadRun
	for i := 0; ; i++ {
		if cond() {
			return pollOK
		}
		if d, fp := sample(); run.observe(d, fp) {
			// the condition is re-read after the sample: a change that landed between the two reads of
			// this iteration must not be reported as absent
			if cond() {
				return pollOK
			}
			return pollDead
		}
		if time.Now().After(deadline) {
			return pollExpired
		}
		if i < 50 {
			time.Sleep(100 * time.Microsecond)
		} else {
			time.Sleep(time.Millisecond)
		}
	}
}

// bounded polls cond for at most d; for waits that only place a step (their expiry means nothing).
func bounded(d time.Duration, cond func() bool) bool {
	deadline := time.Now().Add(d)
	for !cond() {
		if time.Now().After(deadline) {
			return false
		}
		time.Sleep(200 * time.Microsecond)
	}
	return true
}

// ---- loopback listeners ------------------------------------------------------
//
// The layers run as parallel processes and every short HTTP connection leaves a TIME_WAIT
// socket behind for 60 s, so the machine can momentarily be out of ephemeral ports (bind:
// EADDRINUSE).  That is a condition of the environment, never a verdict: wait, bounded, for
// ports to be released.

const listenTimeout = 90 * time.Second

func listenLoopback() (net.Listener, error) {
	deadline := time.Now().Add(listenTimeout)
	for {
		l, err := net.Listen("tcp", "127.0.0.1:0")
		if err == nil || !errors.Is(err, syscall.EADDRINUSE) || time.Now().After(deadline) {
			return l, err
		}
		time.Sleep(50 * time.Millisecond)
	}
}

// newLoopbackServer is httptest.NewServer without its panic when no port can be bound (a panic inside
// a rapid property would be recorded as a failing case): the process ends as INCONCLUSIVE instead.
func newLoopbackServer(h http.Handler) *httptest.Server {
	l, err := listenLoopback()
	if err != nil {
		fmt.Fprintf(os.Stderr, "INCONCLUSIVE: no loopback port for a harness server within %v: %v\n", listenTimeout, err)
		os.Exit(2)
	}
	srv := &httptest.Server{Listener: l, Config: &http.Server{Handler: h}}
	srv.Start()
	return srv
}

// goroutineBaseline/leakCheck: harness hygiene — nothing may outlive a test function.
func goroutineBaseline() int { return runtime.NumGoroutine() }

func leakCheck(t *testing.T, base int) {
	t.Helper()
	ok := pollUntil(func() bool { return runtime.NumGoroutine() <= base+2 })
	vstat.Note("goroutines_after_"+t.Name(), runtime.NumGoroutine()-base)
	if !ok {
		buf := make([]byte, 1<<16)
		n := runtime.Stack(buf, true)
		t.Fatalf("INCONCLUSIVE: harness leaked goroutines (%d over baseline)\n%s", runtime.NumGoroutine()-base, buf[:n])
	}
}

// ---- session values ---------------------------------------------------------

var (
	strPool  = []string{"", "a", "premium", "basic", "user@isp.example", "Ünï-cødé ✓", `q"uo\te`, "<tag>&amp;", "line\nbreak\ttab", "data: x", " sep"}
	macPool  = []string{"00:11:22:33:44:55", "02:00:00:00:00:01", "ff:ff:ff:ff:ff:ff", ""}
	ipPool   = []string{"10.0.0.100", "100.64.0.1", "192.0.2.255", "", "0.0.0.0"}
	ip6Pool  = []string{"", "2001:db8::1", "fe80::1"}
	typePool = []string{"ipoe", "pppoe", ""}
	statPool = []string{"active", "pending", "walled", ""}
	u64Pool  = []uint64{0, 1, 50_000_000, 1 << 32, 1<<53 + 1, ^uint64(0)}
)

func genTime() *rapid.Generator[time.Time] {
	return rapid.Custom(func(t *rapid.T) time.Time {
		switch rapid.IntRange(0, 5).Draw(t, "timeKind") {
		case 0:
			return time.Time{}
		case 1:
			off := 900 * rapid.IntRange(-12*4, 14*4).Draw(t, "zoneOffQuarterHours") // real zones: whole quarter hours
			return time.Unix(rapid.Int64Range(1_500_000_000, 1_900_000_000).Draw(t, "sec"), rapid.Int64Range(0, 999_999_999).Draw(t, "nsec")).In(time.FixedZone("", off))
		default:
			return time.Unix(rapid.Int64Range(1_500_000_000, 1_900_000_000).Draw(t, "sec"), rapid.Int64Range(0, 999_999_999).Draw(t, "nsec")).UTC()
		}
	})
}

// genState draws a full SessionState for id: every field varies.
func genState(id string) *rapid.Generator[ha.SessionState] {
	return rapid.Custom(func(t *rapid.T) ha.SessionState {
		str := rapid.SampledFrom(strPool)
		u64 := rapid.SampledFrom(u64Pool)
		return ha.SessionState{
			SessionID:       id,
			SubscriberID:    str.Draw(t, "sub"),
			MAC:             rapid.SampledFrom(macPool).Draw(t, "mac"),
			IP:              rapid.SampledFrom(ipPool).Draw(t, "ip"),
			IPv6:            rapid.SampledFrom(ip6Pool).Draw(t, "ip6"),
			Gateway:         rapid.SampledFrom(ipPool).Draw(t, "gw"),
			VLAN:            rapid.IntRange(-1, 4095).Draw(t, "vlan"),
			STag:            uint16(rapid.IntRange(0, 65535).Draw(t, "stag")),
			CTag:            uint16(rapid.IntRange(0, 65535).Draw(t, "ctag")),
			QoSProfile:      str.Draw(t, "qos"),
			DownloadRateBps: u64.Draw(t, "down"),
			UploadRateBps:   u64.Draw(t, "up"),
			SessionType:     rapid.SampledFrom(typePool).Draw(t, "type"),
			ISPID:           str.Draw(t, "isp"),
			Username:        str.Draw(t, "user"),
			CreatedAt:       genTime().Draw(t, "created"),
			LastActivity:    genTime().Draw(t, "last"),
			State:           rapid.SampledFrom(statPool).Draw(t, "state"),
			WalledGarden:    rapid.Bool().Draw(t, "walled"),
			BytesIn:         u64.Draw(t, "bin"),
			BytesOut:        u64.Draw(t, "bout"),
		}
	})
}

// detState is the deterministic value used by enumerations and the PRNG-driven
// end-to-end layers: version ver of session id (every version differs from every other).
func detState(id string, ver int) ha.SessionState {
	n := 0
	for _, c := range id {
		n = (n*31 + int(c)) % 1_000_003
	}
	return ha.SessionState{
		SessionID:       id,
		// ("subscriber-", not "sub-": with the shorter value the snapshot {s0 v1} encoded to exactly 512
		// bytes, the initial buffer of json.Decoder; performFullSync then never reads the trailing
		// newline, net/http drops the connection instead of reusing it, and the exhaustive layer burnt
		// ~20k ephemeral ports in 20 s — harness hygiene only, no oracle depends on it)
		SubscriberID:    "subscriber-" + id,
		MAC:             fmt.Sprintf("02:00:00:00:%02x:%02x", n&0xff, ver&0xff),
		IP:              fmt.Sprintf("10.%d.%d.%d", n&0xff, (ver>>8)&0xff, ver&0xff),
		IPv6:            ip6Pool[ver%len(ip6Pool)],
		VLAN:            100 + ver,
		STag:            uint16(ver),
		CTag:            uint16(n),
		QoSProfile:      strPool[ver%len(strPool)],
		DownloadRateBps: u64Pool[ver%len(u64Pool)],
		UploadRateBps:   uint64(ver) * 1000,
		SessionType:     typePool[ver%2],
		Username:        strPool[(ver+n)%len(strPool)],
		CreatedAt:       time.Unix(1_700_000_000+int64(n), 123_456_789).UTC(),
		LastActivity:    time.Unix(1_700_000_000+int64(ver), int64(ver)).UTC(),
		State:           statPool[ver%len(statPool)],
		WalledGarden:    ver%2 == 1,
		BytesIn:         uint64(ver),
		BytesOut:        uint64(ver) * 7,
	}
}

// ---- canonical comparison ---------------------------------------------------

var timeType = reflect.TypeOf(time.Time{})

// canon renders every field of a SessionState; times are compared as instants
// (the wire format carries an instant and an offset, not a *time.Location).
func canon(s ha.SessionState) string {
	v := reflect.ValueOf(s)
	t := v.Type()
	var b strings.Builder
	for i := 0; i < v.NumField(); i++ {
		f := v.Field(i)
		if f.Type() == timeType {
			tm := f.Interface().(time.Time)
			if tm.IsZero() {
				fmt.Fprintf(&b, "%s=zero;", t.Field(i).Name)
			} else {
				fmt.Fprintf(&b, "%s=%d.%09d;", t.Field(i).Name, tm.Unix(), tm.Nanosecond())
			}
			continue
		}
		fmt.Fprintf(&b, "%s=%#v;", t.Field(i).Name, f.Interface())
	}
	return b.String()
}

type table map[string]ha.SessionState

func (t table) clone() table {
	c := make(table, len(t))
	for k, v := range t {
		c[k] = v
	}
	return c
}

func (t table) list() []ha.SessionState {
	keys := make([]string, 0, len(t))
	for k := range t {
		keys = append(keys, k)
	}
	sort.Strings(keys)
	out := make([]ha.SessionState, 0, len(t))
	for _, k := range keys {
		out = append(out, t[k])
	}
	return out
}

// tableDiff compares a session list (as a set of full values) with the expected table.
// extra: ids present in got but absent from want; missing: ids of want absent from got;
// differ: ids in both with different values; dup: an id listed twice.
type tdiff struct{ extra, missing, differ, dup []string }

func (d tdiff) empty() bool {
	return len(d.extra)+len(d.missing)+len(d.differ)+len(d.dup) == 0
}
func (d tdiff) String() string {
	return fmt.Sprintf("extra=%v missing=%v differ=%v dup=%v", d.extra, d.missing, d.differ, d.dup)
}

func diffTable(got []ha.SessionState, want table) tdiff {
	var d tdiff
	seen := map[string]bool{}
	for _, g := range got {
		if seen[g.SessionID] {
			d.dup = append(d.dup, g.SessionID)
			continue
		}
		seen[g.SessionID] = true
		w, ok := want[g.SessionID]
		switch {
		case !ok:
			d.extra = append(d.extra, g.SessionID)
		case canon(w) != canon(g):
			d.differ = append(d.differ, g.SessionID)
		}
	}
	for id := range want {
		if !seen[id] {
			d.missing = append(d.missing, id)
		}
	}
	sort.Strings(d.extra)
	sort.Strings(d.missing)
	sort.Strings(d.differ)
	sort.Strings(d.dup)
	return d
}

func derefAll(in []*ha.SessionState) []ha.SessionState {
	out := make([]ha.SessionState, 0, len(in))
	for _, p := range in {
		if p != nil {
			out = append(out, *p)
		}
	}
	return out
}

// withoutSentinels drops the end-to-end sentinel sessions from a listing.
func withoutSentinels(in []ha.SessionState) []ha.SessionState {
	out := in[:0:0]
	for _, s := range in {
		if !strings.HasPrefix(s.SessionID, sentinelPrefix) {
			out = append(out, s)
		}
	}
	return out
}

// ---- observing the active's own drop warning ---------------------------------

// dropCore is a zap core that counts the active's "Client channel full, dropping message"
// warnings: the code under test announces each change it discards.
type logCounts struct {
	drops        atomic.Int64 // "Client channel full, dropping message"
	connected    atomic.Int64 // "SSE client connected"  (a stream handler registered its client)
	disconnected atomic.Int64 // "SSE client disconnected" (a stream handler deregistered and returns)
}

// The connected/disconnected counts are used only to PLACE harness steps (wait, briefly, until the active
// has torn down a stream handler before going on); no verdict reads them.
type dropCore struct{ c *logCounts }

func (c dropCore) Enabled(l zapcore.Level) bool      { return l >= zapcore.InfoLevel }
func (c dropCore) With([]zapcore.Field) zapcore.Core { return c }
func (c dropCore) Sync() error                       { return nil }
func (c dropCore) Check(e zapcore.Entry, ce *zapcore.CheckedEntry) *zapcore.CheckedEntry {
	if c.Enabled(e.Level) {
		return ce.AddCore(e, c)
	}
	return ce
}
func (c dropCore) Write(e zapcore.Entry, _ []zapcore.Field) error {
	switch e.Message {
	case "Client channel full, dropping message":
		c.c.drops.Add(1)
	case "SSE client connected":
		c.c.connected.Add(1)
	case "SSE client disconnected":
		c.c.disconnected.Add(1)
	}
	return nil
}

func countingLogger() (*zap.Logger, *logCounts) {
	c := new(logCounts)
	return zap.New(dropCore{c}), c
}

func dropCountingLogger() (*zap.Logger, *atomic.Int64) {
	lg, c := countingLogger()
	return lg, &c.drops
}
