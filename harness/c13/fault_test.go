package c13

// Fault injection on the transports the harness owns (the link gate, the end-to-end fault proxy, the model
// active's snapshot server).  The standby's requests fall into classes — stream attach
// (GET /ha/sessions/stream), snapshot (GET /ha/sessions), health (GET /ha/health; the HASyncer standby never
// issues it, the class exists so that a future one is covered) — and each request of a class gets a generated
// outcome.  Outcomes are what a network, a middlebox or a struggling peer does to ONE request; none of them
// produces a well-formed snapshot with other content (that would be undetectable corruption, not a fault):
//
//	foOK           served by the real handler
//	fo5xx          503 with a short text body
//	foResetEarly   the connection is reset before any response byte
//	foResetMid     snapshot: 200, the headers and half of the body, then the connection is reset
//	foTruncated    snapshot: 200 and a clean end after two thirds of the JSON (lengths consistent)
//	foGarbled      snapshot: 200, full length, one byte overwritten by 0x01 (invalid JSON wherever it lands,
//	               inside or outside a string); stream: 200 with an HTML page instead of an event stream
//	foGarbledTail  snapshot: 200, well-formed JSON whose LAST session entry carries a wrong-typed field
//	               (encoding/json reports the type error after filling everything else in)
//	foDelay        a short pause, then served by the real handler
//
// The oracle does not change: while the standby is not connected (it is retrying through the faults) nothing
// is asserted, and a standby that never connects because the harness keeps failing it is not a violation.
// Once the standby reports connected and the active is quiet, the tables are equal.

import (
	"bytes"
	"fmt"
	"net"
	"net/http"
	"net/http/httptest"
	"regexp"
	"sync"
	"time"

	"pgregory.net/rapid"
)

const (
	foOK = iota
	fo5xx
	foResetEarly
	foResetMid
	foTruncated
	foGarbled
	foGarbledTail
	foDelay
)

var foNames = []string{"ok", "5xx", "reset-before-headers", "reset-mid-body", "truncated-json", "garbled-byte", "garbled-last-entry", "delay-then-ok"}

func foName(o int) string {
	if o >= 0 && o < len(foNames) {
		return foNames[o]
	}
	return fmt.Sprint(o)
}

// isFault: the request was not answered with the genuine response.
func isFault(o int) bool { return o != foOK && o != foDelay }

const (
	clsStream = "stream"
	clsSnap   = "snapshot"
	clsHealth = "health"
)

func classOf(path string) string {
	switch path {
	case "/ha/sessions/stream":
		return clsStream
	case "/ha/sessions":
		return clsSnap
	case "/ha/health":
		return clsHealth
	}
	return ""
}

var (
	streamOutcomes = []int{fo5xx, foResetEarly, foGarbled, foDelay}
	snapOutcomes   = []int{fo5xx, fo5xx, foResetEarly, foResetMid, foTruncated, foTruncated, foGarbled, foGarbledTail, foGarbledTail, foDelay}
)

// faultSet is what one (re)connection of the standby has to get through: the outcomes of its next requests,
// per class, in order; requests beyond the lists are served normally.
type faultSet struct {
	Stream []int
	Snap   []int
	Pos    int // where the garbled byte lands (mod body length)
}

func (f faultSet) any() bool { return len(f.Stream)+len(f.Snap) > 0 }

// genFaultSet: about half of the draws are fault-free (so that the fault-free shapes keep their share); the
// rest carries 1..3 snapshot faults and/or 1..2 stream-attach faults ("once or repeatedly").
func genFaultSet() *rapid.Generator[faultSet] {
	return rapid.Custom(func(t *rapid.T) faultSet {
		var f faultSet
		switch rapid.IntRange(0, 9).Draw(t, "faultShape") {
		case 0, 1, 2, 3, 4:
			return f
		case 5, 6, 7:
			f.Snap = rapid.SliceOfN(rapid.SampledFrom(snapOutcomes), 1, 3).Draw(t, "snapshotFaults")
		case 8:
			f.Stream = rapid.SliceOfN(rapid.SampledFrom(streamOutcomes), 1, 2).Draw(t, "streamFaults")
		default:
			f.Snap = rapid.SliceOfN(rapid.SampledFrom(snapOutcomes), 1, 2).Draw(t, "snapshotFaults")
			f.Stream = rapid.SliceOfN(rapid.SampledFrom(streamOutcomes), 1, 2).Draw(t, "streamFaults")
		}
		f.Pos = rapid.IntRange(0, 4095).Draw(t, "garblePos")
		return f
	})
}

// resetConn makes the client see a connection reset (or at least an abrupt end) at this point of the response.
func resetConn(w http.ResponseWriter) {
	if hj, ok := w.(http.Hijacker); ok {
		if c, _, err := hj.Hijack(); err == nil {
			if tc, ok := c.(*net.TCPConn); ok {
				tc.SetLinger(0)
			}
			c.Close()
			return
		}
	}
	panic(http.ErrAbortHandler) // net/http closes the connection without completing the response
}

var lastVLAN = regexp.MustCompile(`"vlan":-?[0-9]+`)

// mangleSnapshot derives the faulty body from the genuine one.
func mangleSnapshot(body []byte, outcome, pos int) []byte {
	switch outcome {
	case foTruncated:
		return append([]byte(nil), body[:len(body)*2/3]...)
	case foGarbledTail:
		if locs := lastVLAN.FindAllIndex(body, -1); len(locs) > 0 {
			l := locs[len(locs)-1]
			out := append([]byte(nil), body[:l[0]]...)
			out = append(out, `"vlan":"x"`...)
			return append(out, body[l[1]:]...)
		}
		fallthrough // an empty snapshot has no entry to garble
	case foGarbled:
		// the byte must land INSIDE the JSON value: the handlers end the body with a newline, and a body whose
		// trailing whitespace is damaged is still a complete, correct snapshot (the decoder stops after the value)
		out := append([]byte(nil), body...)
		if n := len(bytes.TrimRight(out, " \t\r\n")); n > 0 {
			out[pos%n] = 0x01
		}
		return out
	}
	return body
}

// serveWithOutcome answers r with the given outcome; inner produces the genuine response.
func serveWithOutcome(w http.ResponseWriter, r *http.Request, inner http.Handler, outcome, pos int) {
	class := classOf(r.URL.Path)
	switch outcome {
	case foOK:
		inner.ServeHTTP(w, r)
		return
	case foDelay:
		time.Sleep(2 * time.Millisecond)
		inner.ServeHTTP(w, r)
		return
	case fo5xx:
		http.Error(w, "upstream unavailable", http.StatusServiceUnavailable)
		return
	case foResetEarly:
		resetConn(w)
		return
	}
	if class == clsStream {
		// foGarbled (and anything else) on the stream: a 200 that is not an event stream, then the end
		w.Header().Set("Content-Type", "text/html")
		w.WriteHeader(http.StatusOK)
		fmt.Fprint(w, "<html><body>captive portal</body></html>\n")
		return
	}
	rec := httptest.NewRecorder()
	inner.ServeHTTP(rec, r)
	body := rec.Body.Bytes()
	for k, v := range rec.Header() {
		if k != "Content-Length" {
			w.Header()[k] = v
		}
	}
	if outcome == foResetMid {
		w.Header().Set("Content-Length", fmt.Sprint(len(body)))
		w.WriteHeader(rec.Code)
		w.Write(body[:len(body)/2])
		if f, ok := w.(http.Flusher); ok {
			f.Flush()
		}
		resetConn(w)
		return
	}
	out := mangleSnapshot(body, outcome, pos)
	w.Header().Set("Content-Length", fmt.Sprint(len(out)))
	w.WriteHeader(rec.Code)
	w.Write(out)
}

// faultPlan is the armed faultSet of a transport that serves requests on its own (the end-to-end proxy):
// every request pops the next outcome of its class.
type faultPlan struct {
	mu      sync.Mutex
	set     faultSet
	applied []string // class:outcome of every fault served since arm
	lastSnapFault bool // the most recent snapshot request was answered with a fault
	lastStreamOK  bool // the most recent stream request was relayed to the real handler
}

func (p *faultPlan) arm(f faultSet) {
	p.mu.Lock()
	p.set = faultSet{Stream: append([]int(nil), f.Stream...), Snap: append([]int(nil), f.Snap...), Pos: f.Pos}
	p.applied = nil
	p.lastSnapFault = false
	p.lastStreamOK = len(f.Stream) == 0 && len(f.Snap) == 0 // disarming keeps whatever stream there is
	p.mu.Unlock()
}

func (p *faultPlan) next(class string) (int, int) {
	p.mu.Lock()
	defer p.mu.Unlock()
	o := foOK
	switch class {
	case clsStream:
		if len(p.set.Stream) > 0 {
			o, p.set.Stream = p.set.Stream[0], p.set.Stream[1:]
		}
		p.lastStreamOK = !isFault(o)
	case clsSnap:
		if len(p.set.Snap) > 0 {
			o, p.set.Snap = p.set.Snap[0], p.set.Snap[1:]
		}
		p.lastSnapFault = isFault(o)
	}
	if o != foOK {
		p.applied = append(p.applied, class+":"+foName(o))
	}
	return o, p.set.Pos
}

func (p *faultPlan) state() (applied []string, lastSnapFault bool, pending int) {
	p.mu.Lock()
	defer p.mu.Unlock()
	return append([]string(nil), p.applied...), p.lastSnapFault, len(p.set.Stream) + len(p.set.Snap)
}

// streamGenuine: the most recent stream request was relayed to the real handler (ok or delayed), i.e. a
// standby that reports connected sits on a real stream.  (Queued stream faults may stay unserved for good:
// a standby whose first attempt succeeds never asks again.)
func (p *faultPlan) streamGenuine() bool {
	p.mu.Lock()
	defer p.mu.Unlock()
	return p.lastStreamOK
}

// faultyHandler puts a faultPlan in front of a handler.
type faultyHandler struct {
	inner http.Handler
	plan  *faultPlan
}

func (h faultyHandler) ServeHTTP(w http.ResponseWriter, r *http.Request) {
	o, pos := h.plan.next(classOf(r.URL.Path))
	serveWithOutcome(w, r, h.inner, o, pos)
}
