package c13

// Plain regression cases (bypass rapid).  Each reproduces one recorded finding
// minimally and asserts through the same signature as the generated search, so
// it is silent while the finding is listed and fails again if an applied fix
// is ever reverted.  A few positive cases pin behaviour the oracle relies on.

import (
	"bytes"
	"encoding/json"
	"fmt"
	"net/http"
	"strings"
	"testing"

	"github.com/codelaboratoryltd/bng/pkg/ha"

	"bngverif/internal/vstat"
)

func runOps(t *testing.T, prod producer, layer string, seq []op) *world {
	t.Helper()
	w := newWorld(t, prod)
	defer w.close()
	for _, o := range seq {
		w.apply(o)
		if w.dead {
			break
		}
	}
	w.drain()
	w.record(layer)
	return w
}

// KF-C13-1: a session deleted on the active while the standby is away survives the next full sync.
func TestReplayStaleAfterFullSync(t *testing.T) {
	defer failIfInconclusive(t)
	seq := []op{{kind: opAdd, id: "s0"}, {kind: opFullSync}, {kind: opDelete, id: "s0"}, {kind: opFullSync}}
	srv := newSnapServer()
	defer srv.close()
	w := runOps(t, newModelProducer(srv), "replay/stale-fullsync/model", seq)
	w2 := runOps(t, newRealProducer(), "replay/stale-fullsync/real-active", seq)
	if vstat.IsListed(sigStaleHTTP) && !(w.dead && w2.dead) && !isInconclusive() {
		t.Logf("note: %s is listed but no longer fires (stale entry in known_findings.json?)", sigStaleHTTP)
	}
}

// KF-C13-2: the same through an in-stream message of type "full".
func TestReplayStaleAfterStreamFull(t *testing.T) {
	defer failIfInconclusive(t)
	seq := []op{{kind: opAdd, id: "s0"}, {kind: opFullSync}, {kind: opDelete, id: "s0"}, {kind: opAttach},
		{kind: opPushFull}, {kind: opDeliver}, {kind: opDeliver}}
	srv := newSnapServer()
	defer srv.close()
	runOps(t, newModelProducer(srv), "replay/stale-stream-full", seq)
}

// KF-C13-3: a change stored and pushed between the standby's full sync and its stream attach is never delivered.
func TestReplayChangeBetweenFullSyncAndAttach(t *testing.T) {
	defer failIfInconclusive(t)
	runLinkCase(t, linkCase{Episodes: []linkEpisode{{Between: []achg{{Kind: 0, ID: 0}}}}})
	// second shape: an update of a session the standby already holds, after a reconnect
	runLinkCase(t, linkCase{Episodes: []linkEpisode{
		{Connected: []achg{{Kind: 0, ID: 0}}},
		{Between: []achg{{Kind: 1, ID: 0}}},
	}})
}

// KF-C13-1 end to end: real Start() on both sides, link kept down while the session ends.
func TestReplayStaleAfterLinkDown(t *testing.T) {
	defer failIfInconclusive(t)
	runE2ECase(t, e2eCase{HeartbeatMS: 20, Phases: []e2ePhase{
		{Kind: "up", Changes: []achg{{Kind: 0, ID: 0}, {Kind: 0, ID: 1}}},
		{Kind: "down", Changes: []achg{{Kind: 2, ID: 0}}},
	}})
}

// KF-C13-4: the active discards changes pushed while the stream is connected when its per-client
// channel (100) is full, and nothing resynchronises.  Deterministic form: a connected stream client
// that is slower than the producer (it reads nothing until the burst is over).
func TestReplayBurstDropsChanges(t *testing.T) {
	defer failIfInconclusive(t)
	p := &realProducer{store: ha.NewInMemorySessionStore()}
	lg, drops := dropCountingLogger()
	p.act = ha.NewHASyncer(activeConfig("active"), p.store, lg)
	p.srv = newLoopbackServer(p.act.VerifActiveHandler())
	p.tr = &http.Transport{}
	p.client = &http.Client{Transport: p.tr}
	w := newWorld(t, p)
	defer w.close()
	w.apply(op{kind: opAdd, id: "s0"})
	w.apply(op{kind: opFullSync})
	w.apply(op{kind: opAttach})
	// updates of s0 pushed back to back while the stream is connected; the reader side stalls
	// (the harness reader stops once its 4096-message buffer is full), so TCP back-pressure
	// reaches the stream handler and the per-client channel fills
	pushed := 0
	// (an active that answers the overflow by disconnecting the client — the repaired behaviour — has no
	// stream client left after it: nothing further can be dropped from a connected stream, stop pushing)
	for pushed < 400000 && drops.Load() == 0 && (pushed < 1000 || p.act.VerifSSEClientCount() > 0) {
		w.ver["s0"]++
		v := detState("s0", w.ver["s0"])
		w.tbl["s0"] = v
		p.put(ha.SyncTypeUpdate, v)
		w.pending = append(w.pending, change{ha.SyncTypeUpdate, []ha.SessionState{v}, 0})
		pushed++
	}
	if drops.Load() == 0 {
		t.Logf("note: no drop after %d back-to-back pushes (signature %s did not fire)", pushed, sigActiveDrop)
		return
	}
	w.ops = append(w.ops, fmt.Sprintf("update(s0) x %d back to back while attached (active logged %d drops)", pushed, drops.Load()))
	// now the standby catches up: it reads everything the active still holds (phase A), then one more
	// change is pushed as an end marker (phase B).  Every pushed change must precede the marker, in push order.
	var got []string
	read := func() bool {
		data, err := p.next()
		if err != nil {
			setInconclusive("stream stalled while draining: %v", err)
			return false
		}
		m, derr := ha.DecodeSyncMessage(data)
		if derr != nil {
			t.Fatalf("harness: undecodable stream message %s", data)
		}
		if m.Type != ha.SyncTypeHeartbeat && len(m.Sessions) == 1 {
			got = append(got, canon(m.Sessions[0]))
		}
		return true
	}
	for p.act.VerifSSEBacklog() > 0 {
		if !read() {
			return
		}
	}
	w.ver["s0"]++
	marker := detState("s0", w.ver["s0"])
	w.tbl["s0"] = marker
	p.put(ha.SyncTypeUpdate, marker)
	for len(got) == 0 || got[len(got)-1] != canon(marker) {
		if !read() {
			return
		}
	}
	gi := 0
	for i, c := range w.pending {
		if c.typ == ha.SyncTypeHeartbeat {
			continue
		}
		if gi < len(got)-1 && got[gi] == canon(c.sess[0]) {
			gi++
			continue
		}
		vstat.Fail(t, sigActiveDrop, "change #%d of %d (%s) was pushed while the stream was connected but the active never sent it (the stream went on with later changes); the active logged %d 'Client channel full' drops; %d of %d changes arrived\nhistory: %s",
			i, pushed, c, drops.Load(), len(got)-1, pushed, strings.Join(w.ops, "; "))
		return
	}
}

// Positive pins: schedules that must converge on any correct implementation.
func TestReplayConverging(t *testing.T) {
	defer failIfInconclusive(t)
	srv := newSnapServer()
	defer srv.close()
	seq := []op{{kind: opAdd, id: "s0"}, {kind: opAdd, id: "s1"}, {kind: opFullSync}, {kind: opAttach},
		{kind: opUpdate, id: "s0"}, {kind: opDelete, id: "s1"}, {kind: opAdd, id: "s1"}, {kind: opDeliver}, {kind: opDeliver},
		{kind: opDeliver}, {kind: opDeliver}, {kind: opDetach}, {kind: opUpdate, id: "s1"}, {kind: opFullSync}, {kind: opAttach}}
	for _, p := range []producer{newModelProducer(srv), newRealProducer()} {
		w := runOps(t, p, "replay/converging", seq)
		if w.dead {
			t.Fatalf("harness: converging schedule was abandoned: %v", w.ops)
		}
		if d := diffTable(w.sbStore.GetAllSessions(), w.tbl); !d.empty() {
			t.Fatalf("VIOLATION sig=C13/replay/converging-schedule-diverged: %v", d)
		}
	}
	runLinkCase(t, linkCase{Episodes: []linkEpisode{
		{Away: []achg{{0, 0}, {0, 1}}, Connected: []achg{{1, 0}, {2, 1}, {0, 2}}},
		{Away: []achg{{1, 0}, {0, 3}}, Connected: []achg{{2, 3}}},
	}})
	runE2ECase(t, e2eCase{HeartbeatMS: 2, Phases: []e2ePhase{
		{Kind: "up", Changes: []achg{{0, 0}, {0, 1}, {1, 0}, {2, 1}}},
		{Kind: "down", Changes: []achg{{1, 0}, {0, 2}}},
		{Kind: "restart", Changes: []achg{{2, 0}}},
		{Kind: "up", Changes: []achg{{0, 0}, {1, 2}}},
	}})
}

// Reconnect family (no finding on the pinned tree: positive pins that fail through the generated search's
// signatures if the active ever lets an old stream handler's teardown take the new stream's registration).
func TestReplayStaleHandlerTeardownKeepsNewStream(t *testing.T) {
	defer failIfInconclusive(t)
	mirror, err := standbyStreamHeaders()
	if err != nil {
		setInconclusive("%v", err)
		return
	}
	push := func(id int) rcStep { return rcStep{Kind: rcPush, Chg: achg{Kind: 0, ID: id}} }
	for _, hdr := range []int{hdrMirror, hdrBare, hdrExtra} {
		c := rcCase{Steps: []rcStep{
			{Kind: rcReconnect, Hdr: hdr}, push(0),
			{Kind: rcReconnect, HalfOpen: true, Hdr: hdr}, // the old handler lives on
			push(1),
			{Kind: rcNotice}, // ... and is torn down after the standby is back
			push(2), {Kind: rcHeartbeat}, push(0),
			{Kind: rcReconnect, SameAddr: true, Hdr: hdr}, push(3),
		}}
		reportRc(t, "replay/reconnect-bubble", runRcInBubble(t, c, mirror))
		reportRc(t, "replay/reconnect-loopback", runRcOverLoopback(c, mirror))
	}
	// end to end: half-open connection, then plain restarts of the standby
	runE2ECase(t, e2eCase{HeartbeatMS: 50, Phases: []e2ePhase{
		{Kind: "up", Changes: []achg{{0, 0}, {0, 1}}},
		{Kind: "halfopen", Changes: []achg{{1, 0}, {0, 2}}},
		{Kind: "restart", Changes: []achg{{2, 1}}},
		{Kind: "restart", Changes: []achg{{0, 3}}},
		{Kind: "up", Changes: []achg{{1, 3}}},
	}})
}

// Snapshot-fault family (no finding on the pinned tree: positive pins).  The snapshot request the standby
// issues right after a successful stream attach is failed — once per outcome — while the tables differ; the
// standby may report the link up only after a connection attempt whose snapshot succeeded.
func TestReplaySnapshotFaultAfterStreamAttach(t *testing.T) {
	defer failIfInconclusive(t)
	for _, o := range []int{fo5xx, foResetEarly, foResetMid, foTruncated, foGarbled, foGarbledTail} {
		runLinkCase(t, linkCase{Episodes: []linkEpisode{
			{Away: []achg{{0, 0}, {0, 1}}, Connected: []achg{{0, 2}}, Faults: faultSet{Snap: []int{o}, Pos: 77}},
			{Away: []achg{{2, 0}, {1, 1}}, Connected: []achg{{1, 2}}, Faults: faultSet{Snap: []int{o, foDelay, o}, Stream: []int{fo5xx}, Pos: 300}},
		}})
	}
	runE2ECase(t, e2eCase{HeartbeatMS: 50, Phases: []e2ePhase{
		{Kind: "up", Changes: []achg{{0, 0}, {0, 1}}},
		{Kind: "fault", Changes: []achg{{2, 0}, {1, 1}, {0, 2}}, Faults: faultSet{Snap: []int{fo5xx, foTruncated}, Pos: 5}},
		{Kind: "fault", Restart: true, Changes: []achg{{0, 3}}, Faults: faultSet{Stream: []int{foResetEarly}, Snap: []int{foGarbledTail, foResetMid}, Pos: 900}},
		{Kind: "up", Changes: []achg{{1, 3}}},
	}})
}

// Harness self-check: every body the fault injector calls "undecodable" really is, at EVERY position the
// generated byte can land on (a damaged trailing newline would leave a correct snapshot, and the oracle
// would then blame the standby for completing a sync that was in fact fine).
func TestReplayFaultBodiesAreUndecodable(t *testing.T) {
	for _, sess := range [][]ha.SessionState{nil, {detState("s0", 1)}, {detState("s0", 1), detState("s1", 2), detState("s3", 7)}} {
		msg := &ha.SyncMessage{Type: ha.SyncTypeFull, Sessions: sess, Timestamp: fixedStamp, NodeID: "active"}
		body, _ := json.Marshal(msg)
		body = append(body, '\n')
		decodes := func(b []byte) bool {
			var m ha.SyncMessage
			return json.NewDecoder(bytes.NewReader(b)).Decode(&m) == nil
		}
		if !decodes(body) {
			t.Fatalf("harness: the genuine body does not decode")
		}
		for pos := 0; pos < 2*len(body)+3; pos++ {
			if decodes(mangleSnapshot(body, foGarbled, pos)) {
				t.Fatalf("harness: garbled-byte body (pos %d of %d) is still a decodable snapshot", pos, len(body))
			}
		}
		for _, o := range []int{foTruncated, foGarbledTail} {
			if decodes(mangleSnapshot(body, o, 11)) {
				t.Fatalf("harness: %s body of a %d-session snapshot is still decodable", foName(o), len(sess))
			}
		}
		if decodes(body[:len(body)/2]) {
			t.Fatalf("harness: half a body decodes")
		}
	}
}
