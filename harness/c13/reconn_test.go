package c13

// Handler layer ("reconnect schedules"): the harness owns the ACTIVE's stream handlers.
//
// Clause 2 of the statement ("every change pushed while the stream is connected is applied on the standby
// in push order") needs, on the active's side, that a change pushed while the standby's stream connection
// is live is sent on THAT connection.  What can break it is the registry of stream clients across a
// reconnect: the standby's old connection died without the active noticing at once (power cycle, cable pull,
// dropped firewall state: the old stream handler lives on, "half open"), the standby reconnects and is
// registered again, and only then the old handler is torn down.  The order
//
//	old handler running | new handler registered | old handler exits | push
//
// is a schedule of the active's handler goroutines, so it is searched where the harness owns those
// goroutines: the real handlers (VerifActiveHandler) are invoked by the harness, once per stream connection,
//
//	- inside a synctest bubble with an in-memory response writer and a request whose RemoteAddr, headers and
//	  context are the harness's (TestPropStreamReconnectHandlers): "the connection dies / the active
//	  notices" is the cancellation of the request context, which is what net/http does when a connection
//	  goes away; after every step synctest.Wait() lets every handler run until it blocks, so "the change was
//	  not sent" is a fact, not an expired wait;
//	- behind a real loopback listener and real net/http with harness-made TCP connections
//	  (TestPropStreamReconnectLoopback): the old connection is held open by the harness (for the active
//	  that is exactly a half-open connection) and closed when the schedule says so.
//
// Generated: the number of reconnects, whether the active notices an old connection's death before or
// after the standby is back (and when), pushes and heartbeats interleaved everywhere, reconnects from a new
// or from the same source address, and the request headers (exactly those the REAL standby sends — learnt
// by letting a real standby connect to a recording listener —, none, or those plus the usual identifying
// ones).  The standby has one stream at a time: it opens a new one only after it gave up the previous one.
//
// Oracle: after every step, the NEWEST live connection of the standby has received the initial heartbeat
// and then exactly the messages broadcast since it was registered, in push order — or the active has ended
// that connection (the standby then resynchronises).  Silent starvation is the violation.
//
// Not generated (argued, not forgotten): a reconnect from the SAME source address while the old handler
// for that address is still running.  One TCP 4-tuple cannot be open twice: the kernel resets the old
// connection before it accepts the new one (challenge ACK / RST, new SYN one RTO later), net/http cancels
// the old request at that moment, and the standby itself waits its back-off (>= 1 s) before it reconnects.
// The old handler would have to stay runnable-but-not-run for all of that.  So same-address reconnects are
// generated only after the old handler has exited.  (On the pinned tree the handler deregisters with an
// unconditional delete(sseClients, RemoteAddr); that is safe exactly because of this uniqueness.)

import (
	"bufio"
	"bytes"
	"context"
	"errors"
	"fmt"
	"io"
	"net"
	"net/http"
	"net/http/httptest"
	"sort"
	"strings"
	"sync"
	"syscall"
	"testing"
	"testing/synctest"
	"time"

	"github.com/codelaboratoryltd/bng/pkg/ha"
	"go.uber.org/zap"
	"pgregory.net/rapid"

	"bngverif/internal/vstat"
)

const (
	sigStarvedPrefix = "C13/active/stream/newest-connection-starved/" // + shape
	sigStreamExtra   = "C13/active/stream/message-never-pushed-or-duplicated"
)

// ---- what the real standby sends on its stream request ---------------------------

var (
	probeOnce sync.Once
	probeHdr  http.Header
	probeErr  error
)

// standbyStreamHeaders lets a REAL standby (Start -> standbyLoop -> connectToStream) connect to a recording
// listener once and returns the headers of its stream request.  The harness-made stream requests carry
// them, so that whatever an active may key its clients on is what a real standby presents.
func standbyStreamHeaders() (http.Header, error) {
	probeOnce.Do(func() {
		got := make(chan http.Header, 1)
		srv := newLoopbackServer(http.HandlerFunc(func(w http.ResponseWriter, r *http.Request) {
			if r.URL.Path == "/ha/sessions/stream" {
				select {
				case got <- r.Header.Clone():
				default:
				}
			}
			http.Error(w, "probe", http.StatusServiceUnavailable)
		}))
		defer srv.Close()
		sb := startStandby(srv.Listener.Addr().String(), ha.NewInMemorySessionStore())
		defer sb.Stop()
		select {
		case probeHdr = <-got:
		case <-time.After(waitTimeout):
			probeErr = fmt.Errorf("the real standby issued no stream request within %v", waitTimeout)
		}
	})
	return probeHdr, probeErr
}

// identity headers a client in front of / instead of the pinned standby may present (mode hdrExtra)
var extraIdentityHeaders = []string{"X-BNG-Node-ID", "X-Node-ID", "X-HA-Node-ID", "X-Client-ID", "X-Request-ID", "X-Forwarded-For", "Last-Event-ID"}

const (
	hdrMirror = iota // exactly what the real standby sends
	hdrBare          // no headers at all
	hdrExtra         // the real standby's plus the usual identifying headers, all naming the standby
	nHdrModes
)

func streamHeaders(mode int, mirror http.Header) http.Header {
	h := http.Header{}
	if mode == hdrBare {
		return h
	}
	for k, v := range mirror {
		h[k] = append([]string(nil), v...)
	}
	if mode == hdrExtra {
		for _, k := range extraIdentityHeaders {
			if h.Get(k) == "" {
				h.Set(k, "standby")
			}
		}
	}
	return h
}

// ---- generated schedules ----------------------------------------------------------

const (
	rcPush      = iota // a change is stored and pushed on the active
	rcHeartbeat        // a heartbeat tick of the active
	rcReconnect        // the standby gives up its stream (if any) and opens a new one
	rcNotice           // the active notices the death of one half-open old connection (its handler is torn down)
	rcDrop             // the standby's stream dies and the standby stays away
)

type rcStep struct {
	Kind     int
	Chg      achg
	HalfOpen bool // reconnect/drop: the active does NOT notice the old connection's death now (it lives on until a later rcNotice)
	SameAddr bool // reconnect: from the source address of the previous connection (only when no handler for it is left)
	Hdr      int
	Which    int // notice: which half-open connection
}

type rcCase struct{ Steps []rcStep }

func genRcCase() *rapid.Generator[rcCase] {
	return rapid.Custom(func(t *rapid.T) rcCase {
		n := rapid.IntRange(4, 18).Draw(t, "steps")
		var c rcCase
		for i := 0; i < n; i++ {
			k := rapid.SampledFrom([]int{rcPush, rcPush, rcPush, rcPush, rcHeartbeat, rcReconnect, rcReconnect, rcReconnect, rcNotice, rcNotice, rcNotice, rcDrop}).Draw(t, "kind")
			if i == 0 {
				k = rcReconnect
			}
			s := rcStep{Kind: k}
			switch k {
			case rcPush:
				s.Chg = achg{Kind: rapid.SampledFrom([]int{0, 1, 1, 2, 2}).Draw(t, "chg"), ID: rapid.IntRange(0, len(ids)-1).Draw(t, "id")}
			case rcReconnect:
				s.HalfOpen = rapid.IntRange(0, 9).Draw(t, "halfOpen") < 7
				s.SameAddr = rapid.IntRange(0, 9).Draw(t, "sameAddr") < 2
				s.Hdr = rapid.SampledFrom([]int{hdrMirror, hdrMirror, hdrBare, hdrExtra}).Draw(t, "headers")
			case rcNotice:
				s.Which = rapid.IntRange(0, 7).Draw(t, "which")
			case rcDrop:
				s.HalfOpen = rapid.Bool().Draw(t, "halfOpen")
			}
			c.Steps = append(c.Steps, s)
		}
		return c
	})
}

// ---- the schedule executor (shared by both transports) -----------------------------

type rcMsg struct {
	typ  ha.SyncMessageType
	sess string // canonical session payload ("" for heartbeats)
}

func (m rcMsg) String() string {
	if m.typ == ha.SyncTypeHeartbeat {
		return "heartbeat"
	}
	id := m.sess
	if i := strings.Index(id, "SessionID=\""); i >= 0 {
		id = id[i+len("SessionID=\""):]
		if j := strings.IndexByte(id, '"'); j >= 0 {
			id = id[:j]
		}
	}
	return string(m.typ) + "(" + id + ")"
}

func decodeRc(data []byte) (rcMsg, error) {
	m, err := ha.DecodeSyncMessage(data)
	if err != nil {
		return rcMsg{}, err
	}
	if m.Type == ha.SyncTypeHeartbeat {
		return rcMsg{typ: m.Type}, nil
	}
	var b strings.Builder
	for _, s := range m.Sessions {
		b.WriteString(canon(s))
		b.WriteByte('|')
	}
	return rcMsg{typ: m.Type, sess: b.String()}, nil
}

// rcConn is one stream connection of the standby as the schedule sees it.
type rcConn struct {
	n       int
	addr    string // source address presented to the active
	hdrMode int
	exp     []rcMsg // what it must have received, in order (initial heartbeat first)
	gone    bool    // the standby gave it up (it is not the standby's stream any more)
	noticed bool    // the active has been made to notice its death

	impl any // transport's handle
}

// rcLink is the transport under the schedule.
type rcLink interface {
	// open starts a stream request of the standby and returns once the outcome of the attempt is settled:
	// registered (response headers + first event received), or ended by the active, or neither (nil error,
	// up=false).  err != nil is a harness/environment problem (INCONCLUSIVE).
	open(c *rcConn, hdr http.Header, sameAddrAs *rcConn) (up bool, err error)
	// notice makes the active notice that c is dead and returns when its handler has returned.
	notice(c *rcConn) error
	// settle waits until c has received want messages or was ended by the active, or until it is established
	// that neither will ever happen; it returns what c received so far.
	settle(c *rcConn, want int) (got [][]byte, ended bool, res pollResult)
}

type rcResult struct {
	sig, msg string
	inc      string
	hist     []string
	cls      map[string]bool
	nt       bool
}

func runRcSchedule(c rcCase, act *activeSide, link rcLink, mirror http.Header) *rcResult {
	res := &rcResult{cls: map[string]bool{}}
	var (
		live      *rcConn   // the standby's current stream (nil: the standby is away)
		halfOpen  []*rcConn // dead for the standby, their handlers still run on the active
		last      *rcConn   // the most recent connection (for SameAddr)
		nconn     int
		port      = 40000
		staleExit bool // a half-open handler was torn down after the live connection registered
		reconn    bool // the live connection is not the standby's first
	)
	h := func(f string, a ...any) { res.hist = append(res.hist, fmt.Sprintf(f, a...)) }
	fail := func(sig, f string, a ...any) {
		res.sig, res.msg = sig, fmt.Sprintf(f, a...)+"\nregistered stream clients on the active: "+fmt.Sprint(act.syn.VerifSSEClientIDs())+
			"\nhistory: "+strings.Join(res.hist, "; ")
	}
	shape := func() string {
		switch {
		case staleExit:
			return "after-stale-handler-exit"
		case len(halfOpen) > 0:
			return "while-stale-handler-runs"
		case reconn:
			return "after-clean-reconnect"
		}
		return "first-connection"
	}
	// verify: the oracle, after every step that can change what the live connection owes.
	verify := func(after string) bool {
		if live == nil {
			return true
		}
		got, ended, pr := link.settle(live, len(live.exp))
		if pr == pollExpired {
			res.inc = fmt.Sprintf("after %s: connection #%d has %d of %d messages and the wait expired without a stable state", after, live.n, len(got), len(live.exp))
			return false
		}
		var gm []rcMsg
		for _, d := range got {
			m, err := decodeRc(d)
			if err != nil {
				fail(sigActiveStream, "after %s: connection #%d received an undecodable event %q: %v", after, live.n, d, err)
				return false
			}
			gm = append(gm, m)
		}
		for i := 0; i < len(gm) && i < len(live.exp); i++ {
			if gm[i] != live.exp[i] {
				fail(sigActiveStream, "after %s: message %d on connection #%d is %s, pushed at that position: %s", after, i, live.n, gm[i], live.exp[i])
				return false
			}
		}
		if len(gm) > len(live.exp) {
			fail(sigStreamExtra, "after %s: connection #%d received %d messages, only %d were broadcast since it registered (extra: %s)", after, live.n, len(gm), len(live.exp), gm[len(live.exp)])
			return false
		}
		if len(gm) == len(live.exp) {
			return true
		}
		if ended {
			// the active ended the stream: the standby sees the end of the body, reconnects and takes a snapshot
			res.cls["ended-by-active"] = true
			h("active-ended#%d", live.n)
			live = nil
			return true
		}
		fail(sigStarvedPrefix+shape(), "after %s: %s was broadcast while connection #%d (from %s) was the standby's live stream, but that connection received only %d of %d messages and the active did not end it: the standby sits on an open stream and is never told",
			after, live.exp[len(gm)], live.n, live.addr, len(gm), len(live.exp))
		return false
	}
	giveUp := func(halfOpenNow bool) bool {
		if live == nil {
			return true
		}
		old := live
		live = nil
		old.gone = true
		if halfOpenNow {
			halfOpen = append(halfOpen, old)
			h("die#%d(half-open)", old.n)
			return true
		}
		h("die#%d(noticed)", old.n)
		old.noticed = true
		if err := link.notice(old); err != nil {
			res.inc = err.Error()
			return false
		}
		return true
	}

	for _, st := range c.Steps {
		if res.sig != "" || res.inc != "" {
			break
		}
		switch st.Kind {
		case rcPush:
			d, _, id := act.applyChange(st.Chg, func(string) bool { return false }, false)
			m := rcMsg{typ: ha.SyncTypeDelete, sess: canon(ha.SessionState{SessionID: id}) + "|"}
			if v, ok := act.tbl[id]; ok {
				typ := ha.SyncTypeAdd
				if strings.HasPrefix(d, "update") {
					typ = ha.SyncTypeUpdate
				}
				m = rcMsg{typ: typ, sess: canon(v) + "|"}
			}
			h("push:%s", d)
			if live != nil {
				live.exp = append(live.exp, m)
				res.cls["push-while-live"] = true
				if staleExit {
					res.nt = true
					res.cls["nt:push-after-stale-handler-exit"] = true
				} else if len(halfOpen) > 0 {
					res.cls["push-while-stale-handler-runs"] = true
				}
			} else {
				res.cls["push-while-away"] = true
			}
			verify(d)
		case rcHeartbeat:
			act.syn.VerifBroadcastHeartbeat()
			h("heartbeat")
			if live != nil {
				live.exp = append(live.exp, rcMsg{typ: ha.SyncTypeHeartbeat})
				res.cls["heartbeat-while-live"] = true
			}
			verify("heartbeat")
		case rcReconnect:
			half := st.HalfOpen && live != nil
			same := st.SameAddr && last != nil
			if same {
				// one 4-tuple is never open twice: the old connection's handler is gone before the address is seen again
				half = false
				if !last.noticed {
					for i, z := range halfOpen {
						if z == last {
							halfOpen = append(halfOpen[:i], halfOpen[i+1:]...)
							break
						}
					}
					if live == last {
						live = nil
						last.gone = true
					}
					h("die#%d(noticed)", last.n)
					last.noticed = true
					if err := link.notice(last); err != nil {
						res.inc = err.Error()
						continue
					}
				}
			}
			if !giveUp(half) {
				continue
			}
			nconn++
			nc := &rcConn{n: nconn, hdrMode: st.Hdr}
			if same {
				nc.addr = last.addr
				res.cls["reconnect:same-source-address"] = true
			} else {
				port++
				nc.addr = fmt.Sprintf("127.0.0.1:%d", port)
			}
			res.cls["headers:"+[]string{"as-real-standby", "none", "extra-identity"}[st.Hdr]] = true
			up, err := link.open(nc, streamHeaders(st.Hdr, mirror), map[bool]*rcConn{true: last}[same])
			if err != nil {
				res.inc = err.Error()
				continue
			}
			h("connect#%d(%s,hdr=%d)", nc.n, nc.addr, st.Hdr)
			last = nc
			if !up {
				// the active refused / ended the attempt: the standby backs off and retries — nothing is owed
				res.cls["connect-not-established"] = true
				nc.gone = true
				continue
			}
			reconn = nconn > 1
			staleExit = false
			live = nc
			live.exp = []rcMsg{{typ: ha.SyncTypeHeartbeat}}
			if half {
				res.cls["reconnect:old-handler-still-running"] = true
			} else if reconn {
				res.cls["reconnect:old-handler-gone"] = true
			}
			verify(fmt.Sprintf("connect#%d (the handler's own initial heartbeat)", nc.n))
		case rcNotice:
			if len(halfOpen) == 0 {
				continue
			}
			i := st.Which % len(halfOpen)
			z := halfOpen[i]
			halfOpen = append(halfOpen[:i], halfOpen[i+1:]...)
			z.noticed = true
			h("notice#%d", z.n)
			if err := link.notice(z); err != nil {
				res.inc = err.Error()
				continue
			}
			if live != nil {
				staleExit = true
				res.cls["stale-handler-exit-while-live"] = true
			}
			verify(fmt.Sprintf("the teardown of old connection #%d", z.n))
		case rcDrop:
			if live == nil {
				continue
			}
			res.cls["drop"] = true
			giveUp(st.HalfOpen)
		}
	}
	return res
}

func reportRc(t fataler, layer string, r *rcResult) {
	if r.inc != "" {
		setInconclusive("%s (history: %s)", r.inc, strings.Join(r.hist, "; "))
		if rt, ok := t.(*rapid.T); ok {
			rt.Skip("inconclusive")
		}
		return
	}
	if r.sig != "" {
		if vstat.Fail(t, r.sig, "%s", r.msg) {
			r.cls["kf:"+r.sig] = true
		}
	}
	labels := []string{"layer:" + layer}
	for k := range r.cls {
		labels = append(labels, k)
	}
	sort.Strings(labels)
	if r.nt {
		labels = append(labels, "nt")
	}
	hist := r.hist
	vstat.Case(r.nt, vstat.Hash(layer, strings.Join(hist, ";")), func() any { return map[string]any{"layer": layer, "ops": hist} }, labels...)
}

// ---- transport 1: in-memory, inside a synctest bubble -------------------------------

type memStream struct {
	mu      sync.Mutex
	hdr     http.Header
	status  int
	pend    []byte // written, not flushed yet
	wire    []byte // flushed: what a reader of the connection has got
	flushes int
}

func (m *memStream) Header() http.Header { return m.hdr }
func (m *memStream) WriteHeader(code int) {
	m.mu.Lock()
	if m.status == 0 {
		m.status = code
	}
	m.mu.Unlock()
}
func (m *memStream) Write(b []byte) (int, error) {
	m.mu.Lock()
	if m.status == 0 {
		m.status = http.StatusOK
	}
	m.pend = append(m.pend, b...)
	m.mu.Unlock()
	return len(b), nil
}
func (m *memStream) Flush() {
	m.mu.Lock()
	if m.status == 0 {
		m.status = http.StatusOK
	}
	m.wire = append(m.wire, m.pend...)
	m.pend = m.pend[:0]
	m.flushes++
	m.mu.Unlock()
}

// events returns the payloads of the complete "data: " lines on the wire (what connectToStream extracts).
func (m *memStream) events() (status int, flushed bool, ev [][]byte) {
	m.mu.Lock()
	defer m.mu.Unlock()
	return m.status, m.flushes > 0, sseData(m.wire)
}

func sseData(wire []byte) [][]byte {
	var ev [][]byte
	for len(wire) > 0 {
		i := bytes.IndexByte(wire, '\n')
		if i < 0 {
			break
		}
		line := wire[:i]
		wire = wire[i+1:]
		if bytes.HasPrefix(line, []byte("data: ")) {
			ev = append(ev, append([]byte(nil), line[6:]...))
		}
	}
	return ev
}

type memConn struct {
	w      *memStream
	cancel context.CancelFunc
	done   chan struct{}
}

type memLink struct {
	h  http.Handler
	wg sync.WaitGroup
}

func (l *memLink) open(c *rcConn, hdr http.Header, _ *rcConn) (bool, error) {
	ctx, cancel := context.WithCancel(context.Background())
	req := httptest.NewRequest(http.MethodGet, "http://active.example/ha/sessions/stream", nil).WithContext(ctx)
	req.RemoteAddr = c.addr
	req.Header = hdr
	mc := &memConn{w: &memStream{hdr: http.Header{}}, cancel: cancel, done: make(chan struct{})}
	c.impl = mc
	l.wg.Add(1)
	go func() {
		defer l.wg.Done()
		defer close(mc.done)
		l.h.ServeHTTP(mc.w, req)
	}()
	synctest.Wait()
	status, flushed, _ := mc.w.events()
	select {
	case <-mc.done:
		return false, nil // the handler returned at once (an error response or an immediate end)
	default:
	}
	return flushed && status == http.StatusOK, nil
}

func (l *memLink) notice(c *rcConn) error {
	mc := c.impl.(*memConn)
	mc.cancel()
	synctest.Wait()
	select {
	case <-mc.done:
		return nil
	default:
		return fmt.Errorf("stream handler of connection #%d did not return after its request was cancelled", c.n)
	}
}

func (l *memLink) settle(c *rcConn, want int) ([][]byte, bool, pollResult) {
	mc := c.impl.(*memConn)
	synctest.Wait() // every handler has run until it blocks: nothing more will be written without a new event
	_, _, ev := mc.w.events()
	ended := false
	select {
	case <-mc.done:
		ended = true
	default:
	}
	if len(ev) >= want || ended {
		return ev, ended, pollOK
	}
	return ev, false, pollDead
}

func (l *memLink) closeAll(conns []*rcConn) {
	for _, c := range conns {
		if mc, ok := c.impl.(*memConn); ok {
			mc.cancel()
		}
	}
	l.wg.Wait()
}

func runRcInBubble(t *testing.T, c rcCase, mirror http.Header) *rcResult {
	var res *rcResult
	synctest.Test(t, func(t *testing.T) {
		act := &activeSide{store: ha.NewInMemorySessionStore(), tbl: table{}, ver: map[string]int{}, sync: true}
		act.syn = ha.NewHASyncer(activeConfig("active"), act.store, zap.NewNop())
		link := &memLink{h: act.syn.VerifActiveHandler()}
		tl := &trackingLink{rcLink: link}
		res = runRcSchedule(c, act, tl, mirror)
		act.syn.Stop() // ends every handler still running (closed channels / cancelled syncer context)
		link.closeAll(tl.conns)
	})
	return res
}

// trackingLink remembers every connection opened, for the final clean-up.
type trackingLink struct {
	rcLink
	conns []*rcConn
}

func (t *trackingLink) open(c *rcConn, hdr http.Header, same *rcConn) (bool, error) {
	t.conns = append(t.conns, c)
	return t.rcLink.open(c, hdr, same)
}

// TestPropStreamReconnectHandlers: real stream handlers, harness-owned handler goroutines, virtual scheduling.
func TestPropStreamReconnectHandlers(t *testing.T) {
	base := goroutineBaseline()
	defer failIfInconclusive(t)
	mirror, err := standbyStreamHeaders()
	if err != nil {
		setInconclusive("%v", err)
		return
	}
	checks(2500, 60000)
	rapid.Check(t, func(rt *rapid.T) {
		skipIfInconclusive(rt)
		c := genRcCase().Draw(rt, "case")
		reportRc(rt, "handlers/reconnect-bubble", runRcInBubble(t, c, mirror))
	})
	leakCheck(t, base)
}

// ---- transport 2: real net/http on a loopback listener --------------------------------

// handlerTracker wraps the real handlers and tells the harness when the handler serving a given
// connection has returned (only to place steps and to describe states; no verdict depends on it alone).
type handlerTracker struct {
	inner http.Handler
	mu    sync.Mutex
	done  map[string]chan struct{} // remote address -> closed when the stream handler for it has returned
}

func (h *handlerTracker) ServeHTTP(w http.ResponseWriter, r *http.Request) {
	if r.URL.Path == "/ha/sessions/stream" {
		ch := make(chan struct{})
		h.mu.Lock()
		h.done[r.RemoteAddr] = ch
		h.mu.Unlock()
		defer close(ch)
	}
	h.inner.ServeHTTP(w, r)
}

func (h *handlerTracker) doneChan(addr string) chan struct{} {
	h.mu.Lock()
	defer h.mu.Unlock()
	return h.done[addr]
}

type tcpConn struct {
	conn   net.Conn
	cancel context.CancelFunc
	tr     *http.Transport
	local  string

	mu    sync.Mutex
	got   [][]byte
	ended bool // the response body ended / the connection failed while the harness still held it open
	rdone chan struct{}
}

func (c *tcpConn) snapshot() ([][]byte, bool) {
	c.mu.Lock()
	defer c.mu.Unlock()
	return append([][]byte(nil), c.got...), c.ended
}

type tcpLink struct {
	act     *ha.HASyncer
	addr    string
	tracker *handlerTracker
	cls     map[string]bool
}

func (l *tcpLink) dial(local string) (net.Conn, error) {
	d := net.Dialer{Timeout: 5 * time.Second}
	if local != "" {
		la, err := net.ResolveTCPAddr("tcp", local)
		if err != nil {
			return nil, err
		}
		d.LocalAddr = la
		d.Control = func(_, _ string, rc syscall.RawConn) error {
			return rc.Control(func(fd uintptr) { syscall.SetsockoptInt(int(fd), syscall.SOL_SOCKET, syscall.SO_REUSEADDR, 1) })
		}
	}
	return d.Dial("tcp", l.addr)
}

func (l *tcpLink) open(c *rcConn, hdr http.Header, same *rcConn) (bool, error) {
	var conn net.Conn
	var err error
	if same != nil {
		// the previous connection from this address is gone on both sides (reset, handler returned)
		conn, err = l.dial(same.impl.(*tcpConn).local)
		if err != nil {
			l.cls["same-source-address-unavailable"] = true
			conn = nil
		}
	}
	if conn == nil {
		for try := 0; ; try++ {
			conn, err = l.dial("")
			if err == nil || !errors.Is(err, syscall.EADDRNOTAVAIL) || try > 200 {
				break
			}
			time.Sleep(50 * time.Millisecond) // out of ephemeral ports for a moment: environment, not a verdict
		}
		if err != nil {
			return false, fmt.Errorf("dial %s: %v", l.addr, err)
		}
	}
	tc := &tcpConn{conn: conn, local: conn.LocalAddr().String(), rdone: make(chan struct{})}
	c.impl, c.addr = tc, tc.local
	used := false
	tc.tr = &http.Transport{DisableKeepAlives: true, DialContext: func(context.Context, string, string) (net.Conn, error) {
		if used {
			return nil, errors.New("harness: one connection per stream")
		}
		used = true
		return conn, nil
	}}
	ctx, cancel := context.WithCancel(context.Background())
	tc.cancel = cancel
	req, _ := http.NewRequestWithContext(ctx, http.MethodGet, "http://"+l.addr+"/ha/sessions/stream", nil)
	for k, v := range hdr {
		if k == "Accept-Encoding" {
			continue // the transport adds its own, as the standby's does
		}
		req.Header[k] = v
	}
	type outcome struct {
		resp *http.Response
		err  error
	}
	oc := make(chan outcome, 1)
	go func() { r, e := (&http.Client{Transport: tc.tr}).Do(req); oc <- outcome{r, e} }()
	var o outcome
	select {
	case o = <-oc:
	case <-time.After(waitTimeout):
		cancel()
		conn.Close()
		<-oc
		close(tc.rdone)
		return false, fmt.Errorf("stream request #%d got no response headers within %v", c.n, waitTimeout)
	}
	if o.err != nil {
		cancel()
		close(tc.rdone)
		return false, nil // ended by the active before any response
	}
	if o.resp.StatusCode != http.StatusOK {
		io.Copy(io.Discard, o.resp.Body)
		o.resp.Body.Close()
		cancel()
		close(tc.rdone)
		return false, nil
	}
	go func() {
		defer close(tc.rdone)
		defer o.resp.Body.Close()
		rd := bufio.NewReader(o.resp.Body)
		for {
			line, err := rd.ReadString('\n')
			if err != nil {
				tc.mu.Lock()
				tc.ended = true
				tc.mu.Unlock()
				return
			}
			if strings.HasPrefix(line, "data: ") {
				tc.mu.Lock()
				tc.got = append(tc.got, []byte(line[6:len(line)-1]))
				tc.mu.Unlock()
			}
		}
	}()
	return true, nil
}

func (l *tcpLink) notice(c *rcConn) error {
	tc := c.impl.(*tcpConn)
	done := l.tracker.doneChan(tc.local)
	// the connection goes away for good: reset, so that the address is free at once (no TIME_WAIT)
	if t, ok := tc.conn.(*net.TCPConn); ok {
		t.SetLinger(0)
	}
	tc.cancel()
	tc.conn.Close()
	<-tc.rdone
	tc.tr.CloseIdleConnections()
	if done == nil {
		return nil
	}
	select {
	case <-done:
		return nil
	case <-time.After(waitTimeout):
		return fmt.Errorf("stream handler of connection #%d (%s) had not returned %v after its connection was reset", c.n, tc.local, waitTimeout)
	}
}

// settle: bounded wait, decided by state.  The active of this layer is not started: put/del broadcast
// synchronously (VerifBroadcastPending), so when the push returns the message sits in the channel of every
// client that was registered, or nowhere.  "Dead" = nothing queued on the active (backlog 0), the
// connection's handler still running, the connection open and its message count unchanged, for the whole
// run: then no handler holds a message for it (a handler that took one is runnable and writes it), nothing
// is queued, and no timer exists on an unstarted active — the message will never come.
func (l *tcpLink) settle(c *rcConn, want int) ([][]byte, bool, pollResult) {
	tc := c.impl.(*tcpConn)
	done := l.tracker.doneChan(tc.local)
	var got [][]byte
	var ended bool
	pr := pollWatch(func() bool {
		got, ended = tc.snapshot()
		return len(got) >= want || ended
	}, func() (bool, string) {
		running := true
		if done != nil {
			select {
			case <-done:
				running = false
			default:
			}
		}
		g, e := tc.snapshot()
		return l.act.VerifSSEBacklog() == 0 && running && !e, fmt.Sprint(len(g), l.act.VerifSSEClientIDs())
	})
	return got, ended, pr
}

func runRcOverLoopback(c rcCase, mirror http.Header) *rcResult {
	act := &activeSide{store: ha.NewInMemorySessionStore(), tbl: table{}, ver: map[string]int{}, sync: true}
	act.syn = ha.NewHASyncer(activeConfig("active"), act.store, zap.NewNop())
	tracker := &handlerTracker{inner: act.syn.VerifActiveHandler(), done: map[string]chan struct{}{}}
	srv := newLoopbackServer(tracker)
	link := &tcpLink{act: act.syn, addr: srv.Listener.Addr().String(), tracker: tracker, cls: map[string]bool{}}
	tl := &trackingLink{rcLink: link}
	res := runRcSchedule(c, act, tl, mirror)
	for k := range link.cls {
		res.cls[k] = true
	}
	for _, rc := range tl.conns {
		if tc, ok := rc.impl.(*tcpConn); ok {
			if t, ok := tc.conn.(*net.TCPConn); ok {
				t.SetLinger(0)
			}
			tc.cancel()
			tc.conn.Close()
			<-tc.rdone
			tc.tr.CloseIdleConnections()
		}
	}
	act.syn.Stop()
	srv.Close()
	return res
}

// TestPropStreamReconnectLoopback: the same schedules against real net/http on a loopback listener.
func TestPropStreamReconnectLoopback(t *testing.T) {
	base := goroutineBaseline()
	defer failIfInconclusive(t)
	mirror, err := standbyStreamHeaders()
	if err != nil {
		setInconclusive("%v", err)
		return
	}
	checks(250, 8000)
	rapid.Check(t, func(rt *rapid.T) {
		skipIfInconclusive(rt)
		c := genRcCase().Draw(rt, "case")
		reportRc(rt, "handlers/reconnect-loopback", runRcOverLoopback(c, mirror))
	})
	leakCheck(t, base)
}
