package c13

// Layer 1 (message layer): a step machine shared by the rapid properties and
// the bounded-exhaustive enumeration.
//
//   active side   : the table of the property (<= 4 ids) and its ordered change
//                   log; changes pushed while no stream is attached are lost,
//                   exactly as HASyncer.broadcastToClients does with an empty
//                   client map.  Either a harness model (modelProducer) or the
//                   REAL active HASyncer behind an httptest server (realProducer).
//   standby side  : always the REAL HASyncer, driven through performFullSync
//                   (real HTTP GET) and handleSSEData (real stream handler).
//
// Oracle (written from the statement):
//   clause 1  immediately after a completed full synchronisation the standby's
//             table == the snapshot served;
//   clause 2  after each delivered change the standby's table == the expected
//             table E, where E := snapshot at a full sync and E := E+change at a
//             delivery, changes being delivered in push order.
// The "consequently" clause depends on the order in which the real standby loop
// issues its requests, so it is decided by the link/e2e layers, not here.

import (
	"bufio"
	"context"
	"encoding/json"
	"errors"
	"fmt"
	"io"
	"net/http"
	"net/http/httptest"
	"strings"
	"sync"
	"time"

	"github.com/codelaboratoryltd/bng/pkg/ha"
	"go.uber.org/zap"

	"bngverif/internal/vstat"
)

const (
	linkDetached = iota // no completed full sync in this connection episode
	linkSynced          // full sync completed, stream not attached yet ("the gap")
	linkAttached        // stream attached
)

type change struct {
	typ  ha.SyncMessageType
	sess []ha.SessionState
	seq  uint64
}

func (c change) String() string {
	idl := make([]string, len(c.sess))
	for i, s := range c.sess {
		idl[i] = s.SessionID
	}
	return fmt.Sprintf("%s%v#%d", c.typ, idl, c.seq)
}

// producer is the active side.
type producer interface {
	name() string
	endpoint() string
	// put/del perform the active's store write and push the change; they return the sequence number used.
	put(typ ha.SyncMessageType, s ha.SessionState) uint64
	del(id string, payload ha.SessionState) uint64
	// serveNext arranges what the next GET /ha/sessions returns (model only; the real active serves its store).
	serveNext(snapshot []ha.SessionState, failMode int)
	pushFull(snapshot []ha.SessionState) (uint64, bool) // in-stream full message (model only)
	attach() error
	next() ([]byte, error)
	detach()
	snapshot() []ha.SessionState // the active's own table (real store for the real active)
	close()
}

var (
	errStreamTimeout = errors.New("timed out waiting for the next stream message")
	errStreamDead    = errors.New("the stream is open, the active holds nothing in any queue, and no message arrives")
)

var fixedStamp = time.Unix(1_700_000_000, 0).UTC()

// ---- model active ------------------------------------------------------------

// snapServer is one loopback HTTP server per test function; the handler is
// swapped per case so that no per-case state survives.
type snapServer struct {
	srv *httptest.Server
	mu  sync.Mutex
	h   http.HandlerFunc
}

func newSnapServer() *snapServer {
	s := &snapServer{}
	s.srv = newLoopbackServer(http.HandlerFunc(func(w http.ResponseWriter, r *http.Request) {
		s.mu.Lock()
		h := s.h
		s.mu.Unlock()
		if h == nil {
			http.Error(w, "no case", http.StatusServiceUnavailable)
			return
		}
		h(w, r)
	}))
	return s
}

func (s *snapServer) set(h http.HandlerFunc) { s.mu.Lock(); s.h = h; s.mu.Unlock() }
func (s *snapServer) close()                 { s.set(nil); s.srv.Close() }
func (s *snapServer) addr() string           { return s.srv.Listener.Addr().String() }

const (
	failNone = iota
	fail500
	failGarbage
	failTruncated
	failResetEarly  // connection reset before any response byte
	failResetMid    // headers and half of the body, then reset
	failGarbledByte // full-length body with one byte overwritten by 0x01
	failGarbledTail // well-formed JSON whose last session entry carries a wrong-typed field
	nFailModes
)

var failOutcome = map[int]int{fail500: fo5xx, failTruncated: foTruncated, failResetEarly: foResetEarly, failResetMid: foResetMid,
	failGarbledByte: foGarbled, failGarbledTail: foGarbledTail}

type modelProducer struct {
	srv      *snapServer
	mu       sync.Mutex
	snap     []ha.SessionState
	failMode int
	attached bool
	queue    [][]byte
	seq      uint64
}

func newModelProducer(srv *snapServer) *modelProducer {
	p := &modelProducer{srv: srv}
	srv.set(p.serve)
	return p
}

func (p *modelProducer) name() string     { return "model" }
func (p *modelProducer) endpoint() string { return p.srv.addr() }

// serve answers GET /ha/sessions in the real wire format (a JSON SyncMessage of type "full").
func (p *modelProducer) serve(w http.ResponseWriter, r *http.Request) {
	if r.URL.Path != "/ha/sessions" || r.Method != http.MethodGet {
		http.NotFound(w, r)
		return
	}
	p.mu.Lock()
	snap, mode, seq := p.snap, p.failMode, p.seq
	p.mu.Unlock()
	msg := &ha.SyncMessage{Type: ha.SyncTypeFull, Sessions: snap, Timestamp: fixedStamp, SequenceNum: seq, NodeID: "active"}
	body, _ := json.Marshal(msg)
	body = append(body, '\n')
	genuine := http.HandlerFunc(func(w http.ResponseWriter, _ *http.Request) {
		w.Header().Set("Content-Type", "application/json")
		w.Write(body)
	})
	switch mode {
	case failNone:
		genuine(w, r)
	case failGarbage:
		w.Header().Set("Content-Type", "application/json")
		w.Write([]byte("<html>not json</html>\n"))
	default:
		serveWithOutcome(w, r, genuine, failOutcome[mode], int(seq)*131+len(body)/3)
	}
}

func (p *modelProducer) encode(typ ha.SyncMessageType, sess []ha.SessionState) []byte {
	b, err := (&ha.SyncMessage{Type: typ, Sessions: sess, Timestamp: fixedStamp, SequenceNum: p.seq, NodeID: "active"}).Encode()
	if err != nil {
		panic(err)
	}
	return b
}

func (p *modelProducer) push(typ ha.SyncMessageType, sess []ha.SessionState) uint64 {
	p.seq++ // PushChange numbers every change, connected or not
	if p.attached {
		p.queue = append(p.queue, p.encode(typ, sess))
	} // else: broadcast to an empty client map — the change is gone
	return p.seq
}

func (p *modelProducer) put(typ ha.SyncMessageType, s ha.SessionState) uint64 {
	return p.push(typ, []ha.SessionState{s})
}
func (p *modelProducer) del(id string, payload ha.SessionState) uint64 {
	return p.push(ha.SyncTypeDelete, []ha.SessionState{payload})
}
func (p *modelProducer) serveNext(snap []ha.SessionState, failMode int) {
	p.mu.Lock()
	p.snap, p.failMode = snap, failMode
	p.mu.Unlock()
}
func (p *modelProducer) pushFull(snap []ha.SessionState) (uint64, bool) {
	return p.push(ha.SyncTypeFull, snap), true
}
func (p *modelProducer) attach() error {
	p.attached = true
	// the real stream handler sends one heartbeat right after registering the client
	b, _ := (&ha.SyncMessage{Type: ha.SyncTypeHeartbeat, Timestamp: fixedStamp, NodeID: "active"}).Encode()
	p.queue = [][]byte{b}
	return nil
}
func (p *modelProducer) next() ([]byte, error) {
	if len(p.queue) == 0 {
		return nil, errors.New("model queue empty")
	}
	b := p.queue[0]
	p.queue = p.queue[1:]
	return b, nil
}
func (p *modelProducer) detach()                     { p.attached = false; p.queue = nil }
func (p *modelProducer) snapshot() []ha.SessionState { return nil }
func (p *modelProducer) close()                      { p.srv.set(nil) }

// ---- real active as the producer ----------------------------------------------

type realProducer struct {
	act    *ha.HASyncer
	store  *ha.InMemorySessionStore
	srv    *httptest.Server
	client *http.Client
	tr     *http.Transport

	cancel context.CancelFunc
	body   io.Closer
	msgs   chan []byte
	done   chan struct{}
}

func activeConfig(node string) ha.SyncConfig {
	c := ha.DefaultSyncConfig()
	c.NodeID = node
	c.Role = ha.RoleActive
	return c
}

func newRealProducer() *realProducer {
	p := &realProducer{store: ha.NewInMemorySessionStore()}
	p.act = ha.NewHASyncer(activeConfig("active"), p.store, zap.NewNop())
	p.srv = newLoopbackServer(p.act.VerifActiveHandler())
	p.tr = &http.Transport{}
	p.client = &http.Client{Transport: p.tr}
	return p
}

func (p *realProducer) name() string     { return "real-active" }
func (p *realProducer) endpoint() string { return p.srv.Listener.Addr().String() }

func (p *realProducer) put(typ ha.SyncMessageType, s ha.SessionState) uint64 {
	stored, pushed := s, s
	p.store.PutSession(&stored)
	if err := p.act.PushChange(typ, &pushed); err != nil {
		panic("harness: PushChange: " + err.Error()) // queue of 1000 never fills: drained after every push
	}
	p.act.VerifBroadcastPending()
	return 0
}
func (p *realProducer) del(id string, payload ha.SessionState) uint64 {
	p.store.DeleteSession(id)
	pl := payload
	if err := p.act.PushChange(ha.SyncTypeDelete, &pl); err != nil {
		panic("harness: PushChange: " + err.Error())
	}
	p.act.VerifBroadcastPending()
	return 0
}
func (p *realProducer) serveNext([]ha.SessionState, int)          {}
func (p *realProducer) pushFull([]ha.SessionState) (uint64, bool) { return 0, false }
func (p *realProducer) snapshot() []ha.SessionState               { return p.store.GetAllSessions() }

func (p *realProducer) attach() error {
	ctx, cancel := context.WithCancel(context.Background())
	req, _ := http.NewRequestWithContext(ctx, "GET", "http://"+p.endpoint()+"/ha/sessions/stream", nil)
	resp, err := p.client.Do(req)
	if err != nil {
		cancel()
		return err
	}
	if resp.StatusCode != http.StatusOK {
		resp.Body.Close()
		cancel()
		return fmt.Errorf("stream status %d", resp.StatusCode)
	}
	// response headers are flushed by the initial heartbeat, i.e. after the client was registered
	p.cancel, p.body = cancel, resp.Body
	p.msgs = make(chan []byte, 4096)
	p.done = make(chan struct{})
	go func(body io.Reader, msgs chan []byte, done chan struct{}) {
		defer close(done)
		defer close(msgs)
		rd := bufio.NewReader(body)
		for {
			line, err := rd.ReadString('\n')
			if err != nil {
				return
			}
			if strings.HasPrefix(line, "data: ") {
				msgs <- []byte(line[6 : len(line)-1])
			}
		}
	}(resp.Body, p.msgs, p.done)
	return nil
}

// next returns the next message of the attached stream.  The active of this layer is not started and
// put/del broadcast synchronously, so a pushed change is in a client channel when the push returns, or
// nowhere.  If nothing is queued on the active, the stream is open and nothing arrives over a whole
// pollWatch run, the message will never come (errStreamDead: a verdict); an expired wait without such a
// run is errStreamTimeout (inconclusive).
func (p *realProducer) next() ([]byte, error) {
	var b []byte
	var closed bool
	pr := pollWatch(func() bool {
		select {
		case m, ok := <-p.msgs:
			b, closed = m, !ok
			return true
		default:
			return false
		}
	}, func() (bool, string) {
		return p.act.VerifSSEBacklog() == 0, fmt.Sprint(p.act.VerifSSEClientIDs())
	})
	switch {
	case pr == pollDead:
		return nil, errStreamDead
	case pr == pollExpired:
		return nil, errStreamTimeout
	case closed:
		return nil, errors.New("stream closed by the active")
	}
	return b, nil
}

func (p *realProducer) detach() {
	if p.cancel == nil {
		return
	}
	p.cancel()
	p.body.Close()
	<-p.done
	p.cancel, p.body, p.msgs, p.done = nil, nil, nil, nil
}

func (p *realProducer) close() {
	p.detach()
	p.act.Stop()
	p.srv.Close()
	p.tr.CloseIdleConnections()
}

// ---- the world ------------------------------------------------------------------

type opKind string

const (
	opAdd      opKind = "add"
	opUpdate   opKind = "update"
	opDelete   opKind = "delete"
	opFullSync opKind = "fullSync"
	opSyncFail opKind = "fullSyncFail"
	opAttach   opKind = "attach"
	opDeliver  opKind = "deliver"
	opDetach   opKind = "detach"
	opPushFull opKind = "pushFull"
)

type op struct {
	kind opKind
	id   string
	aux  int // fail mode
}

func (o op) String() string {
	switch o.kind {
	case opAdd, opUpdate, opDelete:
		return string(o.kind) + "(" + o.id + ")"
	case opSyncFail:
		return fmt.Sprintf("fullSyncFail(%d)", o.aux)
	}
	return string(o.kind)
}

type world struct {
	t       fataler
	prod    producer
	sb      *ha.HASyncer
	sbStore *ha.InMemorySessionStore

	tbl     table // the active's table (truth)
	used    map[string]bool
	ver     map[string]int
	expect  table // E
	link    int
	pending []change
	ops     []string
	dead    bool

	// value sources (rapid draws or deterministic)
	val      func(id string, ver int) ha.SessionState
	order    func(s []ha.SessionState) []ha.SessionState
	fullDel  func() bool
	avoidKF  bool // steer around listed stale-entry findings by construction
	realAct  bool
	episodes int

	awayDirty map[string]opKind // change the standby did not get: id (held by the standby) -> kind
	cls       map[string]bool
	nt        bool
}

func standbyConfig(endpoint string) ha.SyncConfig {
	c := ha.DefaultSyncConfig()
	c.NodeID = "standby"
	c.Role = ha.RoleStandby
	c.Partner = &ha.PartnerInfo{NodeID: "active", Endpoint: endpoint}
	return c
}

func newWorld(t fataler, prod producer) *world {
	w := &world{t: t, prod: prod, tbl: table{}, used: map[string]bool{}, ver: map[string]int{}, expect: table{},
		awayDirty: map[string]opKind{}, cls: map[string]bool{}}
	w.sbStore = ha.NewInMemorySessionStore()
	w.sb = ha.NewHASyncer(standbyConfig(prod.endpoint()), w.sbStore, zap.NewNop())
	w.val = detState
	w.order = func(s []ha.SessionState) []ha.SessionState { return s }
	w.fullDel = func() bool { return false }
	_, w.realAct = prod.(*realProducer)
	return w
}

func (w *world) close() {
	w.sb.Stop()
	w.prod.close()
}

func (w *world) fail(sig, f string, a ...any) {
	w.t.Helper()
	if vstat.Fail(w.t, sig, "%s\nproducer=%s history: %s", fmt.Sprintf(f, a...), w.prod.name(), strings.Join(w.ops, "; ")) {
		w.dead = true
		w.cls["kf:"+sig] = true
	}
}

// check compares the standby's store and its received-session map with E.
func (w *world) check(sigFor func(d tdiff) string, what string) {
	w.t.Helper()
	if d := diffTable(w.sbStore.GetAllSessions(), w.expect); !d.empty() {
		w.fail(sigFor(d), "%s: standby table differs from expected table: %v", what, d)
		return
	}
	if d := diffTable(derefAll(w.sb.GetAllReceivedSessions()), w.expect); !d.empty() {
		w.fail(sigRecvMap, "%s: standby received-session map differs from expected table: %v", what, d)
	}
}

func (w *world) pendingDelete() bool {
	for _, c := range w.pending {
		if c.typ == ha.SyncTypeDelete {
			return true
		}
	}
	return false
}

// enabled lists the ops that a real caller / the real standby loop can perform in the current state:
// the active's ops and the standby's ops.  With weighted, each op is repeated according to its weight
// (rapid picks a side, then uniformly from that side's list).
func (w *world) enabled(weighted bool) (active, standby []op) {
	active, standby = make([]op, 0, 32), make([]op, 0, 32)
	add := func(dst *[]op, o op, weight int) {
		if !weighted {
			weight = 1
		}
		for i := 0; i < weight; i++ {
			*dst = append(*dst, o)
		}
	}
	// active side
	fresh := false
	for _, id := range ids {
		_, present := w.tbl[id]
		switch {
		case present:
			add(&active, op{kind: opUpdate, id: id}, 2)
			_, held := w.expect[id]
			if w.avoidKF && held && w.link != linkAttached {
				continue // a delete the standby cannot learn about: stale entry at the next full sync (listed finding)
			}
			if held && w.link != linkAttached {
				add(&active, op{kind: opDelete, id: id}, 6) // the class the property is about
			} else {
				add(&active, op{kind: opDelete, id: id}, 3)
			}
		case w.used[id]:
			add(&active, op{kind: opAdd, id: id}, 2) // re-add of a deleted id
		case !fresh:
			fresh = true // ids are interchangeable: only the lowest unused one
			add(&active, op{kind: opAdd, id: id}, 4)
		}
	}
	// standby side
	switch w.link {
	case linkDetached:
		add(&standby, op{kind: opFullSync}, 9)
		if !w.realAct {
			add(&standby, op{kind: opSyncFail, aux: fail500}, 1)
			if weighted {
				// two slots, as many as there ever were (the share of failed syncs and the decoding of committed
				// fail files stay what they were); which failure a slot stands for rotates with the history
				r := len(w.ops) % 3
				add(&standby, op{kind: opSyncFail, aux: []int{failGarbage, failResetEarly, failGarbledByte}[r]}, 1)
				add(&standby, op{kind: opSyncFail, aux: []int{failTruncated, failResetMid, failGarbledTail}[r]}, 1)
			}
		}
	case linkSynced:
		add(&standby, op{kind: opAttach}, 8)
		add(&standby, op{kind: opFullSync}, 2) // the loop starts over (stream connect failed)
	case linkAttached:
		if len(w.pending) > 0 {
			add(&standby, op{kind: opDeliver}, 10)
		}
		if !(w.avoidKF && w.pendingDelete()) {
			add(&standby, op{kind: opDetach}, 6)
			add(&standby, op{kind: opFullSync}, 1) // full sync while the stream is attached (never concurrent: one goroutine)
		}
		if !w.realAct {
			add(&standby, op{kind: opPushFull}, 1)
		}
	}
	return active, standby
}

func (w *world) markAway(id string, k opKind) {
	if _, held := w.expect[id]; held {
		w.awayDirty[id] = k
		where := "-while-away"
		if w.link == linkSynced {
			where = "-in-gap"
		}
		w.cls["nt:"+string(k)+where] = true
	}
}

func (w *world) apply(o op) {
	w.t.Helper()
	if w.dead {
		return
	}
	w.ops = append(w.ops, o.String())
	unchanged := func(tdiff) string { return "C13/standby/table-changed-without-sync-or-delivery" }
	switch o.kind {
	case opAdd, opUpdate:
		typ := ha.SyncTypeAdd
		if o.kind == opUpdate {
			typ = ha.SyncTypeUpdate
		}
		w.ver[o.id]++
		v := w.val(o.id, w.ver[o.id])
		v.SessionID = o.id
		if w.used[o.id] && o.kind == opAdd {
			w.cls["readd-after-delete"] = true
		}
		w.used[o.id] = true
		w.tbl[o.id] = v
		seq := w.prod.put(typ, v)
		if w.link == linkAttached {
			w.pending = append(w.pending, change{typ, []ha.SessionState{v}, seq})
		} else if o.kind == opUpdate {
			w.markAway(o.id, opUpdate)
		}
		w.check(unchanged, o.String())

	case opDelete:
		payload := ha.SessionState{SessionID: o.id} // "for delete, this contains session IDs only"
		if w.fullDel() {
			payload = w.tbl[o.id]
		}
		delete(w.tbl, o.id)
		seq := w.prod.del(o.id, payload)
		if w.link == linkAttached {
			w.pending = append(w.pending, change{ha.SyncTypeDelete, []ha.SessionState{payload}, seq})
		} else {
			w.markAway(o.id, opDelete)
		}
		w.check(unchanged, o.String())

	case opFullSync:
		snap := w.order(w.tbl.list())
		w.prod.serveNext(snap, failNone)
		err := w.sb.VerifPerformFullSync()
		if err != nil {
			if strings.Contains(err.Error(), "decode response") || strings.Contains(err.Error(), "server returned") {
				w.fail(sigFullErr, "full sync of a valid snapshot returned %v", err)
			} else {
				setInconclusive("full sync transport error: %v", err)
				w.dead = true
			}
			return
		}
		stale := false
		for id := range w.expect {
			if _, ok := w.tbl[id]; !ok {
				stale = true
			}
		}
		if stale {
			w.cls["fullsync-with-session-deleted-meanwhile"] = true
		}
		if len(w.awayDirty) > 0 {
			w.nt = true
		}
		w.awayDirty = map[string]opKind{}
		w.expect = w.tbl.clone()
		if w.link == linkDetached {
			w.link = linkSynced
		} else if w.link == linkAttached {
			w.cls["fullsync-while-attached"] = true
		}
		w.check(func(d tdiff) string {
			if len(d.extra) > 0 && len(d.missing)+len(d.differ)+len(d.dup) == 0 {
				return sigStaleHTTP
			}
			return sigFullDiffHTTP
		}, "after completed full sync")
		if w.realAct {
			if d := diffTable(w.prod.snapshot(), w.tbl); !d.empty() {
				w.t.Fatalf("harness: active store differs from the model table: %v", d)
			}
		}

	case opSyncFail:
		w.cls["fullsync-fail"] = true
		w.cls[fmt.Sprintf("fullsync-fail:mode%d", o.aux)] = true
		w.prod.serveNext(w.order(w.tbl.list()), o.aux)
		err := w.sb.VerifPerformFullSync()
		if err == nil {
			w.fail(sigFailedSyncOK, "full sync reported success for failure mode %d", o.aux)
			return
		}
		w.check(func(tdiff) string { return sigFailedSyncMut }, "after failed full sync")

	case opAttach:
		if err := w.prod.attach(); err != nil {
			setInconclusive("stream attach failed: %v", err)
			w.dead = true
			return
		}
		w.episodes++
		if len(w.awayDirty) > 0 {
			w.nt = true // a change fell between full sync and attach
		}
		w.link = linkAttached
		w.pending = []change{{typ: ha.SyncTypeHeartbeat}}
		w.check(unchanged, "attach")

	case opDeliver:
		c := w.pending[0]
		w.pending = w.pending[1:]
		data, err := w.prod.next()
		if err != nil {
			if errors.Is(err, errStreamDead) {
				w.fail(sigMsgStableDead, "change %s was pushed while the stream was connected; the stream stays open, the active holds nothing in any queue (registered stream clients: %v) and the change never arrives (>= %v, >= %d samples)",
					c, w.prod.(*realProducer).act.VerifSSEClientIDs(), deadWindow, deadMinSamples)
				return
			}
			if errors.Is(err, errStreamTimeout) {
				setInconclusive("no stream message within %v although %s was pushed while connected", waitTimeout, c)
				w.dead = true
				return
			}
			w.fail(sigActiveLost, "change %s was pushed while the stream was connected but the stream ended: %v", c, err)
			return
		}
		if w.realAct {
			// the real active must emit what was pushed, in push order
			m, derr := ha.DecodeSyncMessage(data)
			ok := derr == nil && m.Type == c.typ && len(m.Sessions) == len(c.sess)
			for i := 0; ok && i < len(c.sess); i++ {
				ok = canon(m.Sessions[i]) == canon(c.sess[i])
			}
			if !ok {
				w.fail(sigActiveStream, "expected next stream message %s, got %s", c, data)
				return
			}
		}
		if perr := safeHandle(w.sb, data); perr != nil {
			if pe, ok := perr.(panicErr); ok {
				w.fail(sigStreamPanic, "handleSSEData panicked on %s: %v", data, pe.v)
			} else {
				w.fail(sigStreamErr, "handleSSEData rejected %s: %v", data, perr)
			}
			return
		}
		sig := sigStream(c.typ)
		switch c.typ {
		case ha.SyncTypeAdd, ha.SyncTypeUpdate:
			for _, s := range c.sess {
				w.expect[s.SessionID] = s
			}
		case ha.SyncTypeDelete:
			for _, s := range c.sess {
				delete(w.expect, s.SessionID)
			}
		case ha.SyncTypeFull:
			w.cls["stream-full"] = true
			old := w.expect
			w.expect = table{}
			for _, s := range c.sess {
				w.expect[s.SessionID] = s
			}
			stale := false
			for id := range old {
				if _, ok := w.expect[id]; !ok {
					stale = true
				}
			}
			if stale {
				w.cls["stream-full-with-session-deleted-meanwhile"] = true
			}
			w.check(func(d tdiff) string {
				if len(d.extra) > 0 && len(d.missing)+len(d.differ)+len(d.dup) == 0 {
					return sigStaleStream
				}
				return sigFullDiffStream
			}, "after in-stream full message")
			return
		}
		w.check(func(tdiff) string { return sig }, "after deliver "+c.String())

	case opDetach:
		for _, c := range w.pending {
			if c.typ == ha.SyncTypeDelete || c.typ == ha.SyncTypeUpdate {
				for _, s := range c.sess {
					if _, held := w.expect[s.SessionID]; held {
						w.awayDirty[s.SessionID] = opKind(c.typ)
						w.cls["detach:"+string(c.typ)+"-undelivered"] = true
					}
				}
			}
		}
		w.prod.detach()
		w.pending = nil
		w.link = linkDetached
		w.check(unchanged, "detach")

	case opPushFull:
		snap := w.order(w.tbl.list())
		seq, ok := w.prod.pushFull(snap)
		if ok {
			w.pending = append(w.pending, change{ha.SyncTypeFull, snap, seq})
		}
	}
}

// drain delivers everything still queued (the active has gone quiet, the link is up).
func (w *world) drain() {
	for !w.dead && w.link == linkAttached && len(w.pending) > 0 {
		w.apply(op{kind: opDeliver})
	}
}

type panicErr struct{ v any }

func (p panicErr) Error() string { return fmt.Sprint(p.v) }

func safeHandle(sb *ha.HASyncer, data []byte) (err error) {
	defer func() {
		if r := recover(); r != nil {
			err = panicErr{r}
		}
	}()
	return sb.VerifHandleSSEData(data)
}

// record emits the evidence for one case.
func (w *world) record(layer string) {
	cls := []string{"layer:" + layer}
	for c := range w.cls {
		cls = append(cls, c)
	}
	if w.nt {
		cls = append(cls, "nt")
	}
	if w.episodes >= 2 {
		cls = append(cls, "episodes>=2")
	}
	if !w.dead && w.link == linkAttached {
		if diffTable(w.expect.list(), w.tbl).empty() {
			cls = append(cls, "final:attached-converged")
		} else {
			cls = append(cls, "final:attached-but-changes-were-lost")
		}
	}
	ops := w.ops
	vstat.Case(w.nt, vstat.Hash(layer, strings.Join(ops, ";")), func() any {
		return map[string]any{"layer": layer, "ops": ops}
	}, cls...)
}
