package c13

import (
	"fmt"
	"testing"

	"github.com/codelaboratoryltd/bng/pkg/ha"
	"pgregory.net/rapid"

	"bngverif/internal/vstat"
)

// runRapidCase draws one schedule and executes it step by step against the real standby.
func runRapidCase(rt *rapid.T, prod producer, layer string, maxSteps int) {
	w := newWorld(rt, prod)
	defer w.close()
	w.val = func(id string, ver int) ha.SessionState { return genState(id).Draw(rt, "state") }
	w.order = func(s []ha.SessionState) []ha.SessionState {
		if len(s) < 2 {
			return s
		}
		return rapid.Permutation(s).Draw(rt, "snapshotOrder")
	}
	w.fullDel = func() bool { return rapid.Bool().Draw(rt, "deleteCarriesFullState") }
	// steer around the listed stale-entry findings in about half of the cases; keep a class that still
	// exercises them (the draw is unconditional so that fail files replay identically listed or not)
	exercise := rapid.IntRange(0, 9).Draw(rt, "exerciseListedFinding") < 5
	if vstat.IsListed(sigStaleHTTP) || vstat.IsListed(sigStaleStream) {
		w.avoidKF = !exercise
		if exercise {
			w.cls["exercise-listed-finding"] = true
		}
	}
	n := rapid.IntRange(1, maxSteps).Draw(rt, "steps")
	for i := 0; i < n && !w.dead; i++ {
		act, sby := w.enabled(true)
		en := act
		actShare := 5
		if w.link == linkDetached && len(w.expect) > 0 {
			actShare = 7 // the standby is away holding sessions: let the active move on
		}
		if len(sby) > 0 && rapid.IntRange(0, 9).Draw(rt, "side") >= actShare {
			en = sby
		}
		o := en[rapid.IntRange(0, len(en)-1).Draw(rt, "op")]
		w.apply(o)
	}
	w.drain()
	if isInconclusive() {
		rt.Skip("inconclusive wait")
	}
	w.record(layer)
}

// TestPropMsgLayerModel: model active (ordered change log, real wire format) x real standby message layer.
func TestPropMsgLayerModel(t *testing.T) {
	base := goroutineBaseline()
	defer failIfInconclusive(t)
	checks(1300, 60000)
	srv := newSnapServer()
	func() {
		defer srv.close()
		rapid.Check(t, func(rt *rapid.T) {
			skipIfInconclusive(rt)
			runRapidCase(rt, newModelProducer(srv), "msg/model-active", 28)
		})
	}()
	leakCheck(t, base)
}

// TestPropMsgLayerRealActive: the REAL active HASyncer (its HTTP handlers, PushChange,
// broadcastToClients, SSE framing) produces what the real standby's message layer consumes.
func TestPropMsgLayerRealActive(t *testing.T) {
	base := goroutineBaseline()
	defer failIfInconclusive(t)
	checks(600, 20000)
	rapid.Check(t, func(rt *rapid.T) {
		skipIfInconclusive(rt)
		runRapidCase(rt, newRealProducer(), "msg/real-active", 24)
	})
	leakCheck(t, base)
}

// TestPropMsgLayerExhaustive enumerates EVERY schedule of the step machine up to the
// depth bound (quick: 5, thorough: 7 as the property's quantifier asks) with deterministic
// session values; session ids are interchangeable, so only the lowest unused id is ever
// introduced (symmetry reduction), re-adds of deleted ids are all enumerated.
func TestPropMsgLayerExhaustive(t *testing.T) {
	base := goroutineBaseline()
	defer failIfInconclusive(t)
	depth := vstat.Scale(5, 7)
	if depth > 7 {
		depth = 7
	}
	shard, shards := vstat.Shard()
	srv := newSnapServer()
	leaves, mine := 0, 0
	var rec func(prefix []op)
	run := func(seq []op) {
		prod := newModelProducer(srv)
		w := newWorld(t, prod)
		defer w.close()
		for _, o := range seq {
			w.apply(o)
			if w.dead {
				break
			}
		}
		w.record(fmt.Sprintf("msg/exhaustive-depth%d", depth))
	}
	// enumeration needs the enabled set after a prefix: replay the prefix on a pure model world
	// (no real code involved in deciding what is enabled).
	rec = func(prefix []op) {
		if len(prefix) == depth {
			leaves++
			if leaves%shards == shard {
				mine++
				run(prefix)
			}
			return
		}
		for _, o := range enabledAfter(prefix) {
			rec(append(prefix[:len(prefix):len(prefix)], o))
		}
	}
	func() {
		defer srv.close()
		rec(nil)
	}()
	vstat.Note("exhaustive_depth", depth)
	vstat.Note("exhaustive_schedules_total", leaves)
	vstat.Exhaustive(true)
	t.Logf("depth %d: %d schedules, %d in this shard", depth, leaves, mine)
	leakCheck(t, base)
}

// enabledAfter computes the enabled ops after a prefix using only the harness model
// (a shadow world whose standby side is simulated by the statement's semantics).
func enabledAfter(prefix []op) []op {
	s := shadow{tbl: map[string]bool{}, used: map[string]bool{}}
	for _, o := range prefix {
		s.step(o)
	}
	return s.enabled()
}

// shadow tracks just enough of the model state to enumerate enabled ops:
// which ids exist, which were ever used, link state, queue length.
type shadow struct {
	tbl, used map[string]bool
	link      int
	queued    int
}

func (s *shadow) step(o op) {
	switch o.kind {
	case opAdd, opUpdate:
		s.tbl[o.id], s.used[o.id] = true, true
		if s.link == linkAttached {
			s.queued++
		}
	case opDelete:
		delete(s.tbl, o.id)
		if s.link == linkAttached {
			s.queued++
		}
	case opFullSync:
		if s.link == linkDetached {
			s.link = linkSynced
		}
	case opAttach:
		s.link, s.queued = linkAttached, 1
	case opDeliver:
		s.queued--
	case opDetach:
		s.link, s.queued = linkDetached, 0
	case opPushFull:
		s.queued++
	}
}

func (s *shadow) enabled() []op {
	w := &world{tbl: table{}, used: s.used, expect: table{}, link: s.link}
	for id := range s.tbl {
		w.tbl[id] = ha.SessionState{}
	}
	w.pending = make([]change, s.queued)
	a, b := w.enabled(false)
	return append(a, b...)
}
