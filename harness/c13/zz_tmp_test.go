package c13

import (
	"net"
	"net/http"
	"os"
	"time"
	"sync/atomic"
	"testing"
)

func TestTmpConnCount(t *testing.T) {
	seqs := map[string][]op{
		"add-full":            {{kind: opAdd, id: "s0"}, {kind: opFullSync}},
		"full-full":           {{kind: opFullSync}, {kind: opFullSync}},
		"add-full-full-full":  {{kind: opAdd, id: "s0"}, {kind: opFullSync}, {kind: opFullSync}, {kind: opFullSync}},
		"add-full-add":        {{kind: opAdd, id: "s0"}, {kind: opFullSync}, {kind: opAdd, id: "s1"}, {kind: opAdd, id: "s2"}},
		"fail500":             {{kind: opSyncFail, aux: fail500}},
		"fail500-full":        {{kind: opSyncFail, aux: fail500}, {kind: opFullSync}},
		"full-attach-detach":  {{kind: opFullSync}, {kind: opAttach}, {kind: opDetach}, {kind: opFullSync}},
		"add-full-del-full":   {{kind: opAdd, id: "s0"}, {kind: opFullSync}, {kind: opDelete, id: "s0"}, {kind: opFullSync}},
	}
	for name, seq := range seqs {
		srv := newSnapServer()
		var n atomic.Int64
		srv.srv.Config.ConnState = func(c net.Conn, s http.ConnState) {
			if s == http.StateNew {
				n.Add(1)
			}
		}
		for i := 0; i < 300; i++ {
			w := newWorld(t, newModelProducer(srv))
			for _, o := range seq {
				w.apply(o)
				if w.dead {
					break
				}
			}
			w.close()
			if os.Getenv("TMP_SLEEP") != "" {
				time.Sleep(200 * time.Microsecond)
			}
		}
		t.Logf("%-22s 300 runs -> %d new connections", name, n.Load())
		srv.close()
	}
}
