package c16

import (
	"encoding/json"
	"os"
	"path/filepath"
	"sort"
	"testing"
)

// TestReplayFiles replays every JSON case under /verif/replays/C16 (or the single file of `./check C16 --replay f`).
func TestReplayFiles(t *testing.T) {
	var files []string
	if f := os.Getenv("VERIF_REPLAY_FILE"); f != "" {
		files = []string{f}
	} else {
		dir := os.Getenv("VERIF_REPLAYS")
		if dir == "" {
			dir = "/verif/replays/C16"
		}
		files, _ = filepath.Glob(filepath.Join(dir, "*.json"))
		sort.Strings(files)
	}
	for _, f := range files {
		b, err := os.ReadFile(f)
		if err != nil {
			t.Fatalf("INCONCLUSIVE: %v", err)
		}
		var tc tcase
		if err := json.Unmarshal(b, &tc); err != nil {
			t.Fatalf("INCONCLUSIVE: %s: %v", f, err)
		}
		t.Run(filepath.Base(f), func(t *testing.T) { check(t, t, &tc) })
	}
}

// knownCases: one minimal, fully specified case per listed finding (and a few clean ones that pin down the
// neighbouring behaviour).  They go through the same executor, oracle and signatures as the generated tiers:
// silent while the finding is listed, failing again if an applied fix is ever reverted.
func knownCases() []tcase {
	mac := hexb{0x02, 0x16, 0x00, 0x00, 0x00, 0x10}
	bg := []hexb{{0x02, 0x16, 0x00, 0x00, 0x00, 0x11}}
	full := params{MAC: mac, BgMACs: bg, Net: 16, Net3: 1, PoolBits: 27, LeaseS: 120, Radius: true, Policies: true, QoS: true, NAT: true, NATPorts: 1024, NATIPs: 1,
		User: "alice", Pass: "secret", In: 1000, Out: 2000, IdleS: 60, SessS: 120, CoABy: "id"}
	relay := full
	relay.Cid = hexb("eth 0/1/1:100")
	relay.RemoteID = hexb("olt-7")
	auth := full
	auth.RadiusAuth = true
	ppp := full
	ppp.QoS, ppp.NAT, ppp.Policies = false, false, false
	ppp.IdleS = 30
	sub := full
	sub.STag, sub.CTag, sub.Cid = 100, 200, hexb("olt1/2/3")
	return []tcase{
		{Name: "kf-dhcp-decline", Note: "DECLINE of an acknowledged lease: NAT block, QoS policy stay, no Accounting-Stop", Kind: "dhcp", Path: "decline", Prefix: "acked", Second: "none", P: full},
		{Name: "kf-dhcp-relay-decline", Kind: "dhcp-relay", Path: "decline", Prefix: "renewed", Second: "none", P: relay},
		{Name: "kf-dhcp-expiry", Note: "lease expiry + cleanup tick: NAT block, QoS policy stay, no Accounting-Stop", Kind: "dhcp", Path: "expiry", Prefix: "acked", Second: "none", P: full},
		{Name: "kf-dhcp-relay-expiry", Kind: "dhcp-relay", Path: "expiry", Prefix: "initreboot", Second: "none", P: relay},
		{Name: "kf-dhcp-expiry-rediscover", Note: "lease runs out, client DISCOVERs before the tick: the old accounting session is never stopped", Kind: "dhcp", Path: "expiry-rediscover", Prefix: "acked", Second: "none", P: full},
		{Name: "kf-dhcp-expiry-offered", Note: "DISCOVER/OFFER and nothing more: the offered address is never reclaimed", Kind: "dhcp", Path: "expiry", Prefix: "offered", Second: "none", P: full},
		{Name: "kf-dhcp-auth-fail", Note: "RADIUS rejects the REQUEST: the address allocated by the DISCOVER stays allocated", Kind: "dhcp", Path: "auth-fail", Prefix: "offered", Second: "none", P: auth},
		{Name: "kf-dhcp-shutdown", Note: "shutdown: no Accounting-Stop for live sessions", Kind: "dhcp", Path: "shutdown", Prefix: "acked", Second: "none", P: full},
		{Name: "ok-dhcp-release-twice", Kind: "dhcp", Path: "release", Prefix: "renewed", Second: "seq:release", P: full},
		{Name: "ok-dhcp-relay-release-then-expiry", Kind: "dhcp-relay", Path: "release", Prefix: "acked", Second: "seq:expiry", P: relay},
		{Name: "ok-dhcp-expiry-rerequest", Note: "late renewal of a lapsed, not yet reaped lease: the session goes on under its Acct-Session-Id (seeded regression C16-A makes this a second Start without a Stop)", Kind: "dhcp", Path: "expiry-rerequest", Prefix: "acked", Second: "none", P: withShape(full, "renewing")},
		{Name: "ok-dhcp-expiry-rerequest-initreboot", Kind: "dhcp-relay", Path: "expiry-rerequest", Prefix: "renewed", Second: "seq:expiry", P: withShape(relay, "initreboot")},
		{Name: "ok-dhcp-release-rerequest", Kind: "dhcp", Path: "release-rerequest", Prefix: "acked", Second: "none", P: withShape(auth, "initreboot")},
		{Name: "ok-dhcp-reboot-rediscover", Kind: "dhcp", Path: "reboot-rediscover", Prefix: "renewed", Second: "seq:release", P: full},
		{Name: "ok-dhcp-replace-cpe", Note: "replacement CPE takes the lease over on the same circuit: the old MAC keeps nothing, one accounting session", Kind: "dhcp-relay", Path: "replace-cpe", Prefix: "acked", Second: "none", P: withMAC2(relay)},
		{Name: "ok-dhcp-move-circuit", Note: "client renews through another port: the old circuit-id resolves to nothing", Kind: "dhcp-relay", Path: "move-circuit", Prefix: "acked", Second: "none", P: withCid2(relay)},
		{Name: "ok-dhcp-rediscover-abandon", Note: "lease lapses, re-DISCOVER retires it, the new OFFER is abandoned: nothing of the ended session may stay on the address (seeded regression C16-D leaves NAT/QoS)", Kind: "dhcp", Path: "expiry-rediscover.abandon", Prefix: "acked", Second: "none", P: full},
		{Name: "ok-dhcp-rediscover-decline", Kind: "dhcp-relay", Path: "expiry-rediscover.decline", Prefix: "renewed", Second: "seq:release", P: relay},
		{Name: "ok-dhcp-rediscover-release", Kind: "dhcp", Path: "expiry-rediscover.release", Prefix: "initreboot", Second: "none", P: full},
		{Name: "ok-dhcp-rediscover-auth-fail", Kind: "dhcp", Path: "expiry-rediscover.auth-fail", Prefix: "acked", Second: "none", P: auth},
		{Name: "ok-dhcp-release-rediscover-abandon", Kind: "dhcp", Path: "release-rediscover.abandon", Prefix: "acked", Second: "none", P: full},
		{Name: "ok-dhcp-decline-rediscover", Kind: "dhcp-relay", Path: "decline-rediscover", Prefix: "acked", Second: "none", P: relay},
		{Name: "ok-dhcp-release-offered", Kind: "dhcp", Path: "release", Prefix: "offered", Second: "none", P: full},
		{Name: "ok-dhcp-fault-nat-entry", Note: "the kernel's subscriber_nat entry is gone when RELEASE comes: the failed Delete must not stop the other releases", Kind: "dhcp", Path: "release", Prefix: "acked", Second: "none", Fault: "rm-nat-entry", P: full},
		{Name: "ok-dhcp-fault-cache-mac", Kind: "dhcp-relay", Path: "expiry", Prefix: "acked", Second: "none", Fault: "rm-cache-mac", P: relay},
		{Name: "ok-dhcp-fault-acct-stop", Kind: "dhcp", Path: "decline", Prefix: "acked", Second: "none", Fault: "acct-stop", P: full},
		{Name: "ok-teardown-fault-maps", Note: "the eBPF map update fails: Accounting-Stop, address release and session removal still happen", Kind: "teardown", Path: "admin-id", Prefix: "established", Second: "none", Fault: "maps", P: full},
		{Name: "ok-teardown-fault-acct-stop", Kind: "teardown", Path: "client-padt", Prefix: "established", Second: "none", Fault: "acct-stop", P: full},
		{Name: "ok-submgr-fault-release-ipv4", Note: "dual-stack session, ReleaseIPv4 fails: the IPv6 address must still be released (seeded regression C16-C skips it)", Kind: "submgr", Path: "admin", Prefix: "active", Second: "none", Fault: "release-ipv4", P: withDual(sub)},
		{Name: "ok-submgr-fault-release-ipv6", Kind: "submgr", Path: "idle", Prefix: "addressed", Second: "none", Fault: "release-ipv6", P: withDual(sub)},
		{Name: "ok-submgr-fault-acct-stop", Note: "RADIUS refuses the Stop of a disconnected session: everything else is released, the AccountingManager's retry delivers exactly one Stop", Kind: "submgr", Path: "coa-disconnect", Prefix: "active", Second: "none", Fault: "acct-stop-retried", P: withDual(sub)},
		{Name: "ok-dhcp-release-odd-ciaddr", Note: "RELEASE whose ciaddr names another client's address: either the session ends completely or it stays fully intact (seeded regression C16-E: lease deleted, nothing released)", Kind: "dhcp", Path: "release-odd", Prefix: "acked", Second: "none", P: withOdd(full, "other", "", "correct", "same")},
		{Name: "ok-dhcp-release-odd-direct", Kind: "dhcp-relay", Path: "release-odd", Prefix: "renewed", Second: "seq:release", P: withOdd(relay, "outside", "", "absent", "direct")},
		{Name: "ok-dhcp-decline-odd-foreign", Note: "DECLINE naming another client's address is ignored: session intact, the other client untouched, an orderly RELEASE then ends it", Kind: "dhcp", Path: "decline-odd", Prefix: "acked", Second: "none", P: withOdd(full, "zero", "other", "correct", "same")},
		{Name: "ok-dhcp-decline-odd-sid", Kind: "dhcp-relay", Path: "decline-odd", Prefix: "initreboot", Second: "none", P: withOdd(relay, "correct", "correct", "other", "same")},
		{Name: "kf-pppoe-lcp-term", Note: "LCP Terminate-Request on an established session: the address is never released", Kind: "pppoe", Path: "lcp-term", Prefix: "established", Second: "none", P: ppp},
		{Name: "kf-pppoe-idle", Note: "idle sweep removes the session, the address stays allocated", Kind: "pppoe", Path: "idle", Prefix: "authed", Second: "none", P: ppp},
		{Name: "kf-pppoe-auth-fail", Note: "re-authentication rejected, closed session reaped by the idle sweep, address stays allocated", Kind: "pppoe", Path: "auth-fail", Prefix: "established", Second: "none", P: ppp},
		{Name: "ok-pppoe-second-padr", Note: "reconnect without PADT: the abandoned first session is reaped with its address, the second survives", Kind: "pppoe", Path: "second-padr", Prefix: "established", Second: "seq:padt", P: ppp},
		{Name: "ok-pppoe-padt-twice", Kind: "pppoe", Path: "padt", Prefix: "established", Second: "seq:padt", P: ppp},
		{Name: "kf-teardown-parked", Note: "admin terminate parked in sendPADT, client PADT meanwhile: two Accounting-Stops", Kind: "teardown", Path: "admin-id", Prefix: "established", Second: "parked:client-padt", ParkAt: "padt", P: full},
		{Name: "kf-teardown-parked-maps", Kind: "teardown", Path: "client-padt", Prefix: "established", Second: "parked:coa-disconnect", ParkAt: "maps", P: full},
		{Name: "kf-teardown-stale-terminate-all", Note: "TerminateAll is busy with one session of its snapshot while another one ends by a client PADT; it then reaches that session through the stale pointer: no second Stop (seeded regression C08-D)", Kind: "teardown", Path: "terminate-all", Prefix: "established", Second: "stale:client-padt", ParkAt: "padt", P: full},
		{Name: "kf-teardown-stale-by-username", Kind: "teardown", Path: "admin-user", Prefix: "authed", Second: "stale:coa-disconnect", ParkAt: "padt", P: full},
		{Name: "ok-teardown-admin-then-coa", Kind: "teardown", Path: "admin-mac", Prefix: "established", Second: "seq:coa-disconnect", P: full},
		{Name: "ok-teardown-terminate-all", Kind: "teardown", Path: "terminate-all", Prefix: "established", Second: "none", P: full},
		{Name: "kf-submgr-parked", Note: "TerminateSession parked in ReleaseIPv4, Disconnect-Request meanwhile, address re-used: released under the new holder, two terminate events", Kind: "submgr", Path: "admin", Prefix: "active", Second: "parked:coa-disconnect", ParkAt: "alloc", P: sub},
		{Name: "kf-submgr-parked-idle", Kind: "submgr", Path: "idle", Prefix: "addressed", Second: "parked:admin", ParkAt: "alloc", P: sub},
		{Name: "ok-submgr-stale-sweep", Note: "the idle sweep is releasing the first of three expired sessions when another one of its list is disconnected by RADIUS; the sweep then comes to it: nothing more happens", Kind: "submgr", Path: "idle", Prefix: "active", Second: "stale:coa-disconnect", ParkAt: "alloc", P: withBg2(sub)},
		{Name: "ok-submgr-shutdown-during-sweep", Note: "Manager.Stop() while the idle sweep is inside its first ReleaseIPv4: the sessions it still ends must get their addresses back (seeded regression C16-F releases with the cancelled manager context)", Kind: "submgr", Path: "shutdown-during-sweep", Prefix: "active", Second: "none", P: withSweep(withBg2(withDual(sub)), "idle")},
		{Name: "ok-submgr-coa-then-admin", Kind: "submgr", Path: "coa-disconnect", Prefix: "active", Second: "seq:admin", P: sub},
		{Name: "ok-submgr-session-timeout", Kind: "submgr", Path: "session-timeout", Prefix: "active", Second: "none", P: sub},
	}
}

func withShape(p params, shape string) params { p.ReqShape = shape; return p }
func withMAC2(p params) params                { p.MAC2 = hexb{0x02, 0x16, 0x00, 0x00, 0x00, 0x30}; return p }
func withBg2(p params) params {
	p.BgMACs = []hexb{{0x02, 0x16, 0, 0, 0, 0x11}, {0x02, 0x16, 0, 0, 0, 0x12}}
	return p
}
func withOdd(p params, ci, req, sid, via string) params {
	p.OddCi, p.OddReq, p.OddSid, p.OddVia = ci, req, sid, via
	return p
}
func withSweep(p params, by string) params { p.SweepBy = by; return p }
func withDual(p params) params             { p.DualStack = true; return p }
func withCid2(p params) params             { p.Cid2 = hexb("eth 1/2/3:200"); return p }

func TestReplayKnown(t *testing.T) {
	dump := os.Getenv("C16_WRITE_REPLAYS")
	for _, c := range knownCases() {
		c := c
		if dump != "" {
			b, _ := json.MarshalIndent(&c, "", " ")
			if err := os.WriteFile(filepath.Join(dump, c.Name+".json"), append(b, '\n'), 0o644); err != nil {
				t.Fatalf("INCONCLUSIVE: %v", err)
			}
		}
		t.Run(c.Name, func(t *testing.T) { check(t, t, &c) })
	}
}
