// Package c16 decides property C16: "ending a session by any path releases
// everything it held".
//
// Every case is one cell of the cross product
//
//	{session kind} x {termination path valid for that kind} x {prefix of the establishment
//	sequence at which the termination strikes} x {second termination: none / sequential / parked}
//
// with generated parameters (MACs, circuit-ids, VLAN tags, pool geometry, RADIUS attributes, ...).
// The case is executed against the real components, wired the way cmd/bng/main.go wires them
// (dhcp.Server, pppoe.Server) or - for the components main.go never instantiates
// (pppoe.SessionTeardown, subscriber.Manager, radius.CoAProcessor, radius.AccountingManager) -
// composed through their own setter / callback interfaces.  The resource plane is real:
// ebpf.Loader, nat.Manager and qos.Manager write real kernel maps, the RADIUS client talks to a
// scripted RADIUS server on loopback.  Time is virtual (testing/synctest).
//
// The oracle is a resource census written from the statement: before establishment, after
// the termination, and again after the second termination.
//
//	main_test.go      vstat glue, parameter sources, case type, cell bookkeeping
//	world_test.go     kernel maps + loader/nat/qos (the shared resource plane) and its census
//	radius_test.go    scripted RADIUS server (auth port P, accounting port P+1)
//	dhcp_test.go      kinds dhcp / dhcp-relay
//	pppoe_test.go     kind pppoe (pppoe.Server)
//	teardown_test.go  kind teardown (pppoe.SessionTeardown + CoAProcessor)
//	submgr_test.go    kind submgr (subscriber.Manager + CoAProcessor + AccountingManager)
//	props_test.go     TestProp* (rapid per kind, deterministic sweep of the whole product)
//	replay_test.go    TestReplay* (known findings, JSON replays)
package c16

import (
	"encoding/hex"
	"encoding/json"
	"fmt"
	"os"
	"path/filepath"
	"runtime"
	"runtime/debug"
	"sort"
	"strings"
	"sync"
	"testing"

	"pgregory.net/rapid"

	"bngverif/internal/vstat"
)

func TestMain(m *testing.M) {
	// one single-threaded case at a time per process; the driver runs the TestProp functions in parallel processes
	runtime.GOMAXPROCS(4)
	debug.SetGCPercent(400)
	vstat.Main(m, "C16")
}

// ---------------------------------------------------------------------------
// small helpers

type hexb []byte

func (h hexb) MarshalJSON() ([]byte, error) { return json.Marshal(hex.EncodeToString(h)) }
func (h *hexb) UnmarshalJSON(b []byte) error {
	var s string
	if err := json.Unmarshal(b, &s); err != nil {
		return err
	}
	v, err := hex.DecodeString(s)
	*h = v
	return err
}

type violation struct {
	Sig string
	Msg string
}

func jsonOf(v any) string {
	b, _ := json.Marshal(v)
	return string(b)
}

func replaying() bool { return os.Getenv("VERIF_REPLAYING") != "" }

// ---------------------------------------------------------------------------
// parameter sources: the same generators are driven by rapid (random tier) and by a
// seed-derived PRNG (deterministic sweep over the product)

type src interface {
	intn(label string, lo, hi int) int // inclusive bounds
}

type rapidSrc struct{ rt *rapid.T }

func (r rapidSrc) intn(l string, lo, hi int) int { return rapid.IntRange(lo, hi).Draw(r.rt, l) }

type prngSrc struct{ s uint64 }

func (p *prngSrc) next() uint64 {
	p.s += 0x9e3779b97f4a7c15
	z := p.s
	z = (z ^ (z >> 30)) * 0xbf58476d1ce4e5b9
	z = (z ^ (z >> 27)) * 0x94d049bb133111eb
	return z ^ (z >> 31)
}
func (p *prngSrc) intn(_ string, lo, hi int) int {
	if hi <= lo {
		return lo
	}
	return lo + int(p.next()%uint64(hi-lo+1))
}

func pick[T any](s src, label string, xs []T) T { return xs[s.intn(label, 0, len(xs)-1)] }
func chance(s src, label string, num, den int) bool {
	return s.intn(label, 0, den-1) < num
}
func genBytes(s src, label string, lo, hi int) []byte {
	n := s.intn(label+".len", lo, hi)
	b := make([]byte, n)
	for i := range b {
		b[i] = byte(s.intn(label, 0, 255))
	}
	return b
}

// genMAC: locally administered unicast, distinct per index by construction (last byte = idx).
func genMAC(s src, label string, idx int) hexb {
	return hexb{0x02, byte(s.intn(label+".1", 0, 255)), byte(s.intn(label+".2", 0, 255)), byte(s.intn(label+".3", 0, 255)), byte(s.intn(label+".4", 0, 255)), byte(0x10 + idx)}
}

// ---------------------------------------------------------------------------
// the generated case

// tcase is one cell of the product plus its parameters.  It is a pure value: replays are JSON files of it.
type tcase struct {
	Name   string `json:"name,omitempty"`
	Note   string `json:"note,omitempty"`
	Kind   string `json:"kind"`              // dhcp | dhcp-relay | pppoe | teardown | submgr
	Path   string `json:"path"`              // first termination
	Prefix string `json:"prefix"`            // how far establishment got
	Second string `json:"second"`            // none | seq:<path> | parked:<path>
	ParkAt string `json:"park_at,omitempty"` // parked: the harness-owned fake in which the first termination is held
	Fault  string `json:"fault,omitempty"`   // one release operation of the (first) termination is made to fail once
	P      params `json:"p"`
}

type params struct {
	MAC      hexb   `json:"mac"`
	BgMACs   []hexb `json:"bg,omitempty"` // background sessions: fully established before the census, never terminated
	Net      int    `json:"net"`          // second octet of the 10.x.y.0 pool
	Net3     int    `json:"net3"`
	PoolBits int    `json:"pool_bits"` // 26..29
	LeaseS   int    `json:"lease_s"`

	Radius     bool   `json:"radius"`      // RADIUS client configured (main.go: --radius-enabled + servers + secret)
	RadiusAuth bool   `json:"radius_auth"` // dhcp: ServerConfig.RADIUSAuthEnabled
	FilterID   string `json:"filter_id,omitempty"`
	Class      hexb   `json:"class,omitempty"`

	Policies bool `json:"policies"` // PolicyManager holds the default policies (main.go leaves it empty)
	QoS      bool `json:"qos"`
	NAT      bool `json:"nat"`
	NATPorts int  `json:"nat_ports"`
	NATIPs   int  `json:"nat_ips"`

	Cid      hexb   `json:"cid,omitempty"`
	RemoteID hexb   `json:"remote_id,omitempty"`
	STag     uint16 `json:"stag,omitempty"`
	CTag     uint16 `json:"ctag,omitempty"`

	User string `json:"user,omitempty"`
	Pass string `json:"pass,omitempty"`

	In  uint64 `json:"in,omitempty"`
	Out uint64 `json:"out,omitempty"`

	IdleS    int    `json:"idle_s,omitempty"`
	SessS    int    `json:"sess_s,omitempty"`
	CoABy    string `json:"coa_by,omitempty"` // id | ip | mac
	PADTRetr int    `json:"padt_retries,omitempty"`
	Hostname string `json:"hostname,omitempty"`

	// odd-fields family: the protocol fields of the terminating RELEASE / DECLINE
	OddCi   string `json:"odd_ciaddr,omitempty"` // ciaddr: correct | zero | other | free | outside
	OddReq  string `json:"odd_req,omitempty"`    // requested-address option (DECLINE): same values
	OddSid  string `json:"odd_sid,omitempty"`    // server-id option: correct | absent | other
	OddVia  string `json:"odd_via,omitempty"`    // same | direct | relay (how the message arrives, vs how the session was set up)
	SweepBy string `json:"sweep_by,omitempty"`   // submgr shutdown-during-sweep: idle | session-timeout

	DualStack bool `json:"dual_stack,omitempty"` // submgr: the session also gets an IPv6 address

	// superseded family
	MAC2     hexb   `json:"mac2,omitempty"`      // replacement CPE
	Cid2     hexb   `json:"cid2,omitempty"`      // the circuit the client moves to
	ReqShape string `json:"req_shape,omitempty"` // shape of the superseding REQUEST: renewing | initreboot | selecting
}

// sigKind: the component named in signatures (relayed and direct DHCP sessions end in the same handlers;
// what is specific to a relayed session shows in the resource name, e.g. cache-circuit-id).
func (tc *tcase) sigKind() string {
	if tc.Kind == "dhcp-relay" {
		return "dhcp"
	}
	return tc.Kind
}

func (tc *tcase) cell() string     { return tc.Kind + "/" + tc.Path + "/" + tc.Prefix }
func (tc *tcase) shape() string    { return secondShape(tc.Second) }
func (tc *tcase) fullCell() string { return tc.cell() + "/" + tc.Second }

func secondShape(second string) string {
	switch {
	case second == "none" || second == "":
		return "none"
	case strings.HasPrefix(second, "seq:"):
		return "seq"
	case strings.HasPrefix(second, "parked:"):
		return "parked"
	case strings.HasPrefix(second, "stale:"):
		return "stale"
	}
	return "?"
}

func secondPath(second string) string {
	if i := strings.IndexByte(second, ':'); i >= 0 {
		return second[i+1:]
	}
	return ""
}

// cellSpec is one (kind, path, prefix, second, parkAt) combination of the enumerated product.
type cellSpec struct {
	Kind, Path, Prefix, Second, ParkAt, Fault string
}

func (c cellSpec) key() string {
	return c.Kind + "/" + c.Path + "/" + c.Prefix + "/" + c.Second + "@" + c.ParkAt + "!" + c.Fault
}

// faultTolerates: what a failed release operation may legitimately leave behind - the resource the failed
// operation itself was to release, where the code under test documents no retry ("continue cleanup even if ... fails",
// "failed to ...: logged").  Everything else must be released as if nothing had failed.
var faultTolerates = map[string][]string{
	"release-ipv4":        {"pool"},                    // subscriber.Manager logs the error; the allocator still holds the address
	"release-ipv6":        {"pool6"},                   //
	"maps":                {"cache-mac", "nat", "qos"}, // SessionTeardown: "Continue cleanup even if eBPF update fails"
	"acct-stop":           {"acct-stop-missing"},       // dhcp.Server / SessionTeardown log a failed Stop and do not retry
	"acct-stop-retried":   {},                          // radius.AccountingManager queues a failed Stop and retries it
	"rm-cache-mac":        {},                          // the entry is gone already (that is why the removal fails)
	"rm-cache-circuit-id": {},
	"rm-nat-entry":        {},
	"rm-qos-entry":        {},
}

// applyFault rewrites the verdicts of a case that ran with an injected release failure: what the failed operation
// was to release is tolerated, anything else that is left is a release skipped because of the failure.
func applyFault(tc *tcase, viol []violation) []violation {
	if tc.Fault == "" {
		return viol
	}
	tol := map[string]bool{}
	for _, r := range faultTolerates[tc.Fault] {
		tol[r] = true
	}
	var out []violation
	for _, v := range viol {
		parts := strings.Split(v.Sig, "/")
		resource := parts[len(parts)-1]
		if tol[resource] {
			continue
		}
		path := tc.Path
		if len(parts) >= 4 {
			path = parts[2]
		}
		op := tc.Fault
		if op == "acct-stop-retried" {
			op = "acct-stop"
		}
		out = append(out, violation{Sig: "C16/" + tc.sigKind() + "/" + path + "/release-skipped-after-" + op + "/" + resource, Msg: "(after an injected failure of " + tc.Fault + ") " + v.Msg})
	}
	return out
}

// genCommon draws the parameters every kind shares.
func genCommon(s src, p *params) {
	p.MAC = genMAC(s, "mac", 0)
	nbg := s.intn("bg", 0, 2)
	for i := 0; i < nbg; i++ {
		p.BgMACs = append(p.BgMACs, genMAC(s, fmt.Sprintf("bg%d", i), i+1))
	}
	p.Net = s.intn("net", 1, 250)
	p.Net3 = s.intn("net3", 0, 255)
	p.PoolBits = s.intn("poolbits", 26, 29)
	p.LeaseS = pick(s, "lease", []int{60, 120, 600, 3600, 86400})
	p.Radius = chance(s, "radius", 3, 4)
	p.RadiusAuth = p.Radius && chance(s, "radius_auth", 1, 2)
	if p.Radius {
		if chance(s, "filter", 1, 2) {
			p.FilterID = pick(s, "filter.name", []string{"residential-50mbps", "residential-1gbps", "business-100mbps", "guest", "no-such-policy"})
		}
		if chance(s, "class", 1, 2) {
			p.Class = genBytes(s, "class.b", 1, 12)
		}
	}
	p.Policies = chance(s, "policies", 3, 4)
	p.QoS = chance(s, "qos", 4, 5)
	p.NAT = chance(s, "nat", 4, 5)
	p.NATPorts = pick(s, "nat.ports", []int{256, 1024, 4096, 16384})
	p.NATIPs = s.intn("nat.ips", 1, 2)
	p.In = uint64(s.intn("in", 0, 1<<30))
	p.Out = uint64(s.intn("out", 0, 1<<30))
	p.User = fmt.Sprintf("user%04d", s.intn("user", 0, 9999))
	p.Pass = fmt.Sprintf("pw%03d", s.intn("pass", 0, 999))
}

// ---------------------------------------------------------------------------
// running and reporting one case

// result is what a kind's executor returns from inside the bubble.
type result struct {
	viol    []violation
	held    []string // resource kinds the session held when the termination struck
	classes []string
	log     []string
	harness string // harness-side failure: inconclusive
}

func (r *result) logf(f string, a ...any) { r.log = append(r.log, fmt.Sprintf(f, a...)) }
func (r *result) fail(sig, f string, a ...any) {
	msg := fmt.Sprintf(f, a...)
	r.viol = append(r.viol, violation{Sig: sig, Msg: msg})
	r.logf("    !! %s: %s", sig, msg)
}
func (r *result) hold(kind string) {
	for _, k := range r.held {
		if k == kind {
			return
		}
	}
	r.held = append(r.held, kind)
}

// execute dispatches on the session kind.
func execute(t testing.TB, tc *tcase) *result {
	switch tc.Kind {
	case "dhcp", "dhcp-relay":
		return runDHCP(t, tc)
	case "pppoe":
		return runPPPoE(t, tc)
	case "teardown":
		return runTeardown(t, tc)
	case "submgr":
		return runSubMgr(t, tc)
	}
	return &result{harness: "unknown kind " + tc.Kind}
}

var (
	collectMode = os.Getenv("C16_COLLECT") != ""
	collected   = map[string]int{}
	collectedEx = map[string]string{}
)

var (
	cellMu     sync.Mutex
	cellCounts = map[string]int{} // kind/path/prefix -> cases
	pairCounts = map[string]int{} // kind/path -> cases
	fullCounts = map[string]int{} // kind/path/prefix/second@park -> cases
)

// check executes one case and hands the verdict to vstat.  outer is the *testing.T of the test function
// (harness failures are reported there as INCONCLUSIVE), t is the rapid.T or the same testing.T.
func check(outer *testing.T, t vstat.Fataler, tc *tcase) {
	t.Helper()
	res := execute(outer, tc)
	if res.harness != "" {
		outer.Fatalf("INCONCLUSIVE: harness failure in case %s: %s\n%s", jsonOf(tc), res.harness, strings.Join(res.log, "\n"))
	}
	res.viol = applyFault(tc, res.viol)
	history := func() string { return "case: " + jsonOf(tc) + "\n" + strings.Join(res.log, "\n") }
	var kfcls []string
	if os.Getenv("C16_TRACE") != "" {
		outer.Logf("%s\n  violations: %v", history(), res.viol)
	}
	if collectMode {
		// development aid (C16_COLLECT=1): tally every signature instead of stopping at the first unlisted one
		cellMu.Lock()
		for _, v := range res.viol {
			if collected[v.Sig] == 0 {
				collectedEx[v.Sig] = v.Msg + "\n" + history()
			}
			collected[v.Sig]++
		}
		cellMu.Unlock()
		res.viol = nil
	}
	for _, v := range res.viol {
		if !vstat.IsListed(v.Sig) {
			saveViolation(tc, v)
			vstat.Fail(t, v.Sig, "%s\n%s", v.Msg, history())
			return
		}
	}
	seen := map[string]bool{}
	for _, v := range res.viol {
		if seen[v.Sig] {
			continue
		}
		seen[v.Sig] = true
		vstat.Fail(t, v.Sig, "%s\n%s", v.Msg, history())
		kfcls = append(kfcls, "kf:"+v.Sig)
	}
	nt := len(res.held) >= 2
	cls := []string{
		"kind:" + tc.Kind,
		"pair:" + tc.Kind + "/" + tc.Path,
		"prefix:" + tc.Kind + "/" + tc.Prefix,
		"second:" + tc.shape(),
		fmt.Sprintf("held:%d", len(res.held)),
	}
	if nt {
		cls = append(cls, "nontrivial")
	}
	if tc.Fault != "" {
		cls = append(cls, "fault:"+tc.Kind+"/"+tc.Fault)
	}
	if len(res.viol) == 0 {
		cls = append(cls, "verdict:clean")
	} else {
		cls = append(cls, "verdict:known-finding")
	}
	cls = append(cls, res.classes...)
	cls = append(cls, kfcls...)
	cellMu.Lock()
	cellCounts[tc.cell()]++
	pairCounts[tc.Kind+"/"+tc.Path]++
	fullCounts[cellSpec{tc.Kind, tc.Path, tc.Prefix, tc.Second, tc.ParkAt, tc.Fault}.key()]++
	cellMu.Unlock()
	vstat.Case(nt, vstat.Hash(jsonOf(tc)), func() any {
		return map[string]any{"case": tc, "held": res.held, "violations": res.viol}
	}, cls...)
}

// saveViolation keeps the failing case as a JSON replay next to the process log (the driver copies it).
func saveViolation(tc *tcase, v violation) {
	dir := os.Getenv("VERIF_OUT")
	if dir == "" || replaying() {
		return
	}
	c := *tc
	c.Note = "violation " + v.Sig
	d := filepath.Join(dir, "violations")
	if os.MkdirAll(d, 0o755) != nil {
		return
	}
	name := fmt.Sprintf("TestReplayFiles__%016x.json", vstat.Hash(jsonOf(tc)))
	// rapid shrinks by re-running: keep only the most recent (smallest) failing case per process
	old, _ := filepath.Glob(filepath.Join(d, "TestReplayFiles__*.json"))
	for _, o := range old {
		os.Remove(o)
	}
	b, _ := json.MarshalIndent(&c, "", " ")
	_ = os.WriteFile(filepath.Join(d, name), b, 0o644)
}

// noteCells publishes the per-cell case counts of this process.
func noteCells(test string) {
	cellMu.Lock()
	defer cellMu.Unlock()
	if collectMode {
		sigs := make([]string, 0, len(collected))
		for k := range collected {
			sigs = append(sigs, k)
		}
		sort.Strings(sigs)
		for _, k := range sigs {
			fmt.Printf("COLLECTED %6d  %s\n", collected[k], k)
		}
		if os.Getenv("C16_COLLECT") == "2" {
			for _, k := range sigs {
				fmt.Printf("=== %s\n%s\n", k, collectedEx[k])
			}
		}
	}
	i, n := vstat.Shard()
	keys := make([]string, 0, len(cellCounts))
	for k := range cellCounts {
		keys = append(keys, k)
	}
	sort.Strings(keys)
	out := make([]string, 0, len(keys))
	for _, k := range keys {
		out = append(out, fmt.Sprintf("%s=%d", k, cellCounts[k]))
	}
	vstat.Note(fmt.Sprintf("cells:%s#%d/%d", test, i, n), strings.Join(out, " "))
}
