package c16

// Kind "submgr": subscriber.Manager, composed the way cmd/bng/demo.go composes it (NewManager(config,
// authenticator, allocator, logger); OnEvent(handler); Start()) - the `run` command of main.go never
// instantiates it.  The authenticator and the address allocator are the manager's own extension
// points and are harness-owned fakes (the allocator is a faithful lowest-free pool that can park one
// ReleaseIPv4 call); everything else is real:
//
//	after ActivateSession the glue attaches the session to the REAL resource plane - ebpf.Loader
//	entries by MAC, VLAN pair and circuit-id, nat.Manager block, qos.Manager policy - and starts
//	accounting in a REAL radius.AccountingManager (-> scripted RADIUS server);
//	the EventSessionTerminate handler detaches exactly what was attached for that session id and
//	stops its accounting (the event is the only notification the manager gives);
//	radius.CoAProcessor: lookups over the manager, SetAccountingManager(am),
//	terminator = Manager.TerminateSession(nas_request).
//
// paths: admin (TerminateSession), idle and session-timeout (the manager's own cleanup loop under
// virtual time), auth-fail (Authenticate fails, the caller ends the session with auth_failed),
// coa-disconnect, shutdown (Manager.Stop + AccountingManager.Stop; only the RADIUS records are demanded).
// "At once": the first termination is parked inside the allocator's ReleaseIPv4, the second runs to
// completion, a new subscriber is then given the freed address, and the first is released.

import (
	"context"
	"fmt"
	"net"
	"os"
	"sync"
	"testing"
	"testing/synctest"
	"time"

	"github.com/codelaboratoryltd/bng/pkg/ebpf"
	"github.com/codelaboratoryltd/bng/pkg/qos"
	bngradius "github.com/codelaboratoryltd/bng/pkg/radius"
	"github.com/codelaboratoryltd/bng/pkg/subscriber"
	"go.uber.org/zap"
)

var submgrPaths = []string{"admin", "idle", "session-timeout", "auth-fail", "coa-disconnect", "shutdown", "shutdown-during-sweep"}

var submgrPrefixes = map[string][]string{
	"admin":           {"created", "authed", "addressed", "active"},
	"idle":            {"created", "authed", "addressed", "active"},
	"session-timeout": {"created", "authed", "addressed", "active"},
	"auth-fail":       {"created"},
	"coa-disconnect":  {"created", "authed", "addressed", "active"},
	"shutdown":        {"addressed", "active"},
	// Manager.Stop() is called while the idle / session-timeout sweep is in the middle of its batch
	"shutdown-during-sweep": {"created", "authed", "addressed", "active"},
}

func submgrCells(parked bool) []cellSpec {
	var out []cellSpec
	for _, p := range submgrPaths {
		for _, pre := range submgrPrefixes[p] {
			if !parked {
				seconds := []string{"none", "seq:admin", "seq:coa-disconnect", "seq:idle"}
				if p == "shutdown" || p == "shutdown-during-sweep" {
					seconds = []string{"none"}
				}
				for _, s := range seconds {
					out = append(out, cellSpec{Kind: "submgr", Path: p, Prefix: pre, Second: s})
				}
				continue
			}
			if p == "shutdown" || p == "shutdown-during-sweep" || p == "auth-fail" || pre == "created" || pre == "authed" {
				continue // nothing to release: the allocator is never called
			}
			for _, s := range []string{"parked:admin", "parked:coa-disconnect"} {
				out = append(out, cellSpec{Kind: "submgr", Path: p, Prefix: pre, Second: s, ParkAt: "alloc"})
			}
		}
	}
	return out
}

// submgrStaleCells: the manager's own sweep collects the list of expired sessions first and then terminates them one
// by one (by id).  It is parked inside the allocator while it releases the address of the FIRST one; meanwhile
// another session of its list ends by a path of its own; the sweep is released and comes to that session.
func submgrStaleCells() []cellSpec {
	var out []cellSpec
	for _, p := range []string{"idle", "session-timeout"} {
		for _, pre := range submgrPrefixes[p] {
			for _, s := range []string{"stale:admin", "stale:coa-disconnect"} {
				out = append(out, cellSpec{Kind: "submgr", Path: p, Prefix: pre, Second: s, ParkAt: "alloc"})
			}
		}
	}
	return out
}

// submgrFaultCells: one release operation of the termination fails once.
func submgrFaultCells() []cellSpec {
	var out []cellSpec
	for _, p := range []string{"admin", "idle", "session-timeout", "coa-disconnect"} {
		for _, pre := range []string{"addressed", "active"} {
			for _, f := range []string{"release-ipv4", "release-ipv6"} {
				out = append(out, cellSpec{Kind: "submgr", Path: p, Prefix: pre, Second: "none", Fault: f})
			}
		}
		if p != "session-timeout" {
			out = append(out, cellSpec{Kind: "submgr", Path: p, Prefix: "active", Second: "none", Fault: "acct-stop-retried"})
		}
	}
	return out
}

func genSubMgr(s src, c cellSpec, base *params) *tcase {
	tc := &tcase{Kind: c.Kind, Path: c.Path, Prefix: c.Prefix, Second: c.Second, ParkAt: c.ParkAt}
	if base != nil {
		tc.P = *base
	} else {
		genCommon(s, &tc.P)
	}
	tc.P.RadiusAuth = false
	tc.P.Radius = true // accounting goes through the AccountingManager, which requires a client
	tc.P.IdleS = pick(s, "idle", []int{60, 300})
	tc.P.SessS = pick(s, "sess", []int{120, 600})
	if chance(s, "vlan", 2, 3) {
		tc.P.STag = uint16(s.intn("stag", 1, 3999)) // background sessions use S-tags 4001.. : VLAN pairs are unique per subscriber (C20), never shared
		tc.P.CTag = uint16(s.intn("ctag", 1, 4094))
	}
	if chance(s, "cid", 2, 3) {
		tc.P.Cid = []byte(fmt.Sprintf("olt1/%d/%d", s.intn("cid.a", 0, 15), s.intn("cid.b", 0, 127)))
	}
	by := []string{"id", "mac"}
	if c.Prefix == "addressed" || c.Prefix == "active" {
		by = append(by, "ip")
	}
	tc.P.CoABy = pick(s, "coa.by", by)
	tc.P.DualStack = chance(s, "dual", 2, 3)
	tc.Fault = c.Fault
	if c.Fault == "release-ipv4" || c.Fault == "release-ipv6" {
		tc.P.DualStack = true
	}
	if c.Path == "shutdown-during-sweep" {
		tc.P.SweepBy = pick(s, "sweep.by", []string{"idle", "session-timeout"})
	}
	if secondShape(c.Second) == "stale" || c.Path == "shutdown-during-sweep" {
		// the sweep needs a list: two background sessions that expire together with the session under test
		for i := len(tc.P.BgMACs); i < 2; i++ {
			tc.P.BgMACs = append(tc.P.BgMACs, genMAC(s, fmt.Sprintf("bg%d", i), i+1))
		}
	}
	return tc
}

// fakeAlloc: lowest-free IPv4 pool behind subscriber.AddressAllocator.
type fakeAlloc struct {
	mu       sync.Mutex
	base     [4]byte
	size     int
	owner    map[string]string // ip -> session id
	calls    map[string]int    // ReleaseIPv4 calls per ip
	freeRel  int               // releases of an address that was free
	gate     *gate
	released []string

	owner6   map[string]string // IPv6 address -> session id
	calls6   map[string]int
	freeRel6 int
	failV4   int // the next n ReleaseIPv4 calls return an error and release nothing
	failV6   int
}

func (a *fakeAlloc) AllocateIPv4(ctx context.Context, s *subscriber.Session, poolID string) (net.IP, net.IPMask, net.IP, error) {
	a.mu.Lock()
	defer a.mu.Unlock()
	for i := 2; i < 2+a.size; i++ {
		ip := net.IPv4(a.base[0], a.base[1], a.base[2], byte(i)).To4()
		if _, used := a.owner[ip.String()]; !used {
			a.owner[ip.String()] = s.ID
			return ip, net.CIDRMask(24, 32), net.IPv4(a.base[0], a.base[1], a.base[2], 1).To4(), nil
		}
	}
	return nil, nil, nil, fmt.Errorf("pool exhausted")
}

func (a *fakeAlloc) AllocateIPv6(ctx context.Context, s *subscriber.Session, poolID string) (net.IP, *net.IPNet, error) {
	a.mu.Lock()
	defer a.mu.Unlock()
	for i := 2; i < 2+a.size; i++ {
		ip := net.ParseIP(fmt.Sprintf("2001:db8:%x:%x::%x", a.base[1], a.base[2], i))
		if _, used := a.owner6[ip.String()]; !used {
			a.owner6[ip.String()] = s.ID
			_, pfx, _ := net.ParseCIDR(fmt.Sprintf("2001:db8:%x:%x::/64", a.base[1], a.base[2]))
			return ip, pfx, nil
		}
	}
	return nil, nil, fmt.Errorf("IPv6 pool exhausted")
}

func (a *fakeAlloc) ReleaseIPv4(ctx context.Context, ip net.IP) error {
	k := ip.To4().String()
	if err := ctx.Err(); err != nil {
		return err // like the Nexus HTTP adapter: a cancelled context releases nothing
	}
	a.mu.Lock()
	a.calls[k]++
	if a.failV4 > 0 {
		a.failV4--
		a.mu.Unlock()
		return fmt.Errorf("allocator backend unavailable (injected)")
	}
	a.mu.Unlock()
	a.gate.pass("alloc", k)
	if err := ctx.Err(); err != nil {
		return err // the call was in flight when its context was cancelled
	}
	a.mu.Lock()
	if _, ok := a.owner[k]; ok {
		delete(a.owner, k)
	} else {
		a.freeRel++
	}
	a.released = append(a.released, k)
	a.mu.Unlock()
	return nil
}

func (a *fakeAlloc) ReleaseIPv6(ctx context.Context, ip net.IP) error {
	k := ip.String()
	if err := ctx.Err(); err != nil {
		return err
	}
	a.mu.Lock()
	defer a.mu.Unlock()
	a.calls6[k]++
	if a.failV6 > 0 {
		a.failV6--
		return fmt.Errorf("allocator backend unavailable (injected)")
	}
	if _, ok := a.owner6[k]; ok {
		delete(a.owner6, k)
	} else {
		a.freeRel6++
	}
	return nil
}

func (a *fakeAlloc) allocated6() int {
	a.mu.Lock()
	defer a.mu.Unlock()
	return len(a.owner6)
}

func (a *fakeAlloc) ownerOf6(ip net.IP) string {
	a.mu.Lock()
	defer a.mu.Unlock()
	return a.owner6[ip.String()]
}

func (a *fakeAlloc) allocated() int {
	a.mu.Lock()
	defer a.mu.Unlock()
	return len(a.owner)
}

func (a *fakeAlloc) ownerOf(ip net.IP) string {
	a.mu.Lock()
	defer a.mu.Unlock()
	return a.owner[ip.To4().String()]
}

type stubAuth struct {
	mu  sync.Mutex
	res map[string]*subscriber.AuthResult // by MAC
	err map[string]error
}

func (s *stubAuth) Authenticate(ctx context.Context, req *subscriber.SessionRequest) (*subscriber.AuthResult, error) {
	s.mu.Lock()
	defer s.mu.Unlock()
	if e := s.err[req.MAC.String()]; e != nil {
		return nil, e
	}
	if r := s.res[req.MAC.String()]; r != nil {
		c := *r
		return &c, nil
	}
	return &subscriber.AuthResult{Success: false, Error: "unknown subscriber"}, nil
}

type smSess struct {
	mac  net.HardwareAddr
	id   string
	dual bool   // also gets an IPv6 address
	ip6  net.IP //
	ip   net.IP
	cid  []byte
	stag uint16
	ctag uint16
}

type attachment struct {
	mac     net.HardwareAddr
	ip      net.IP
	cid     []byte
	stag    uint16
	ctag    uint16
	hasVLAN bool
}

type smRun struct {
	tc    *tcase
	res   *result
	w     *world
	rs    *radServer
	mgr   *subscriber.Manager
	alloc *fakeAlloc
	auth  *stubAuth
	am    *bngradius.AccountingManager
	proc  *bngradius.CoAProcessor
	gate  *gate

	mu       sync.Mutex
	attached map[string]*attachment
	events   map[string]map[subscriber.SessionEventType]int

	me *smSess
	bg []*smSess

	allEnded  bool
	preAlloc6 int
}

func (x *smRun) onEvent(ev *subscriber.SessionEvent) {
	x.mu.Lock()
	if x.events[ev.SessionID] == nil {
		x.events[ev.SessionID] = map[subscriber.SessionEventType]int{}
	}
	x.events[ev.SessionID][ev.Type]++
	var att *attachment
	if ev.Type == subscriber.EventSessionTerminate {
		att = x.attached[ev.SessionID]
		delete(x.attached, ev.SessionID)
	}
	x.mu.Unlock()
	if ev.Type != subscriber.EventSessionTerminate {
		return
	}
	if att != nil {
		_ = x.w.loader.RemoveSubscriber(ebpf.MACToUint64(att.mac))
		if att.hasVLAN {
			_ = x.w.loader.RemoveVLANSubscriber(att.stag, att.ctag)
		}
		if len(att.cid) > 0 {
			_ = x.w.loader.RemoveCircuitIDMapping(att.cid)
			_ = x.w.loader.RemoveCircuitIDSubscriber(att.cid)
		}
		if x.w.nat != nil {
			_ = x.w.nat.DeallocateNAT(att.ip)
		}
		if x.w.qos != nil {
			_ = x.w.qos.RemoveSubscriberQoS(att.ip)
		}
	}
	// accounting: a Disconnect-Request has stopped it already (StopSession then reports "not found")
	_ = x.am.StopSession(ev.SessionID, causeFor(ev.Reason))
}

func causeFor(reason string) uint32 {
	switch subscriber.TerminateReason(reason) {
	case subscriber.TerminateUserRequest:
		return bngradius.TerminateCauseUserRequest
	case subscriber.TerminateIdleTimeout:
		return bngradius.TerminateCauseIdleTimeout
	case subscriber.TerminateSessionTimeout:
		return bngradius.TerminateCauseSessionTimeout
	case subscriber.TerminateNASRequest:
		return bngradius.TerminateCauseNASRequest
	}
	return bngradius.TerminateCauseAdminReset
}

// attach is the glue after ActivateSession: plane entries + Accounting-Start.
func (x *smRun) attach(s *smSess) bool {
	sess, ok := x.mgr.GetSession(s.id)
	if !ok {
		x.res.harness = "session vanished before activation glue"
		return false
	}
	att := &attachment{mac: s.mac, ip: s.ip, cid: s.cid, stag: s.stag, ctag: s.ctag, hasVLAN: s.stag != 0 || s.ctag != 0}
	asg := &ebpf.PoolAssignment{PoolID: 1, AllocatedIP: ebpf.IPToUint32(s.ip), LeaseExpiry: uint64(time.Now().Add(time.Hour).Unix())}
	if err := x.w.loader.AddSubscriber(ebpf.MACToUint64(s.mac), asg); err != nil {
		x.res.harness = err.Error()
		return false
	}
	if att.hasVLAN {
		if err := x.w.loader.AddVLANSubscriber(s.stag, s.ctag, asg); err != nil {
			x.res.harness = err.Error()
			return false
		}
	}
	if len(s.cid) > 0 {
		if err := x.w.loader.AddCircuitIDMapping(s.cid, ebpf.MACToUint64(s.mac)); err != nil {
			x.res.harness = err.Error()
			return false
		}
		if err := x.w.loader.AddCircuitIDSubscriber(s.cid, asg); err != nil {
			x.res.harness = err.Error()
			return false
		}
	}
	if x.w.nat != nil {
		if _, err := x.w.nat.AllocateNAT(s.ip); err != nil {
			x.res.harness = err.Error()
			return false
		}
	}
	if x.w.qos != nil {
		down, up := sess.DownloadRateBps, sess.UploadRateBps
		if down == 0 {
			down, up = 100_000_000, 50_000_000
		}
		if err := x.w.qos.SetSubscriberQoS(&qos.SubscriberQoS{IP: s.ip, DownloadBPS: down, UploadBPS: up, PolicyName: "subscriber"}); err != nil {
			x.res.harness = err.Error()
			return false
		}
	}
	x.mu.Lock()
	x.attached[s.id] = att
	x.mu.Unlock()
	if err := x.am.StartSession(&bngradius.AccountingSession{SessionID: s.id, Username: sess.Username, MAC: s.mac, FramedIP: s.ip}); err != nil {
		x.res.harness = "StartSession: " + err.Error()
		return false
	}
	return true
}

func (x *smRun) establish(s *smSess, user, upto string) bool {
	ctx := context.Background()
	req := &subscriber.SessionRequest{MAC: s.mac, Type: subscriber.SessionTypeIPoE, Username: user, STag: s.stag, CTag: s.ctag, CircuitID: string(s.cid), ONUID: "ont-" + s.mac.String()}
	sess, err := x.mgr.CreateSession(ctx, req)
	if err != nil {
		x.res.harness = "CreateSession: " + err.Error()
		return false
	}
	s.id = sess.ID
	if upto == "created" {
		return true
	}
	if r, err := x.mgr.Authenticate(ctx, s.id); err != nil || !r.Success {
		x.res.harness = fmt.Sprintf("Authenticate during establishment: %v %+v", err, r)
		return false
	}
	if upto == "authed" {
		return true
	}
	v6pool := ""
	if s.dual {
		v6pool = "isp-v6"
	}
	if err := x.mgr.AssignAddress(ctx, s.id, "isp-residential", v6pool); err != nil {
		x.res.harness = "AssignAddress: " + err.Error()
		return false
	}
	if got, ok := x.mgr.GetSession(s.id); ok {
		s.ip, s.ip6 = got.IPv4, got.IPv6
	}
	if s.dual && s.ip6 == nil {
		x.res.harness = "dual-stack session got no IPv6 address"
		return false
	}
	if upto == "addressed" {
		return true
	}
	if err := x.mgr.ActivateSession(s.id); err != nil {
		x.res.harness = "ActivateSession: " + err.Error()
		return false
	}
	return x.attach(s)
}

func (x *smRun) info(s *subscriber.Session) *bngradius.SessionInfo {
	return &bngradius.SessionInfo{SessionID: s.ID, Username: s.Username, MAC: s.MAC, FramedIP: s.IPv4, State: string(s.State)}
}

func (x *smRun) wireCoA() {
	p := bngradius.NewCoAProcessor(zap.NewNop())
	p.SetAccountingManager(x.am)
	p.SetSessionLookup(func(id string) (*bngradius.SessionInfo, bool) {
		if s, ok := x.mgr.GetSession(id); ok {
			return x.info(s), true
		}
		return nil, false
	})
	p.SetSessionLookupByIP(func(ip net.IP) (*bngradius.SessionInfo, bool) {
		if s, ok := x.mgr.GetSessionByIP(ip); ok && s != nil {
			return x.info(s), true
		}
		return nil, false
	})
	p.SetSessionLookupByMAC(func(m string) (*bngradius.SessionInfo, bool) {
		hw, err := net.ParseMAC(m)
		if err != nil {
			return nil, false
		}
		if s, ok := x.mgr.GetSessionByMAC(hw); ok && s != nil {
			return x.info(s), true
		}
		return nil, false
	})
	p.SetSessionTerminator(func(ctx context.Context, id string, reason uint32) error {
		return x.mgr.TerminateSession(ctx, id, subscriber.TerminateNASRequest)
	})
	x.proc = p
}

// tick advances virtual time by d in steps, keeping the listed sessions active the way traffic would.
func (x *smRun) advance(d time.Duration, active []*smSess) {
	step := 15 * time.Second
	for el := time.Duration(0); el < d; el += step {
		time.Sleep(step)
		synctest.Wait()
		for _, s := range active {
			_ = x.mgr.UpdateActivity(s.id, 1500, 1500, 1, 1)
		}
		select {
		case <-x.gate.parked:
			return
		default:
		}
	}
}

func (x *smRun) terminate(path string) { x.terminateOn(path, x.me) }

func (x *smRun) terminateOn(path string, me *smSess) {
	ctx := context.Background()
	switch path {
	case "admin":
		err := x.mgr.TerminateSession(ctx, me.id, subscriber.TerminateAdminReset)
		x.res.logf("    TerminateSession(admin_reset) -> %v", err)
	case "auth-fail":
		r, err := x.mgr.Authenticate(ctx, me.id)
		x.res.logf("    Authenticate -> %+v %v; the caller ends the session with auth_failed", r, err)
		if err == nil && r != nil && r.Success {
			x.res.harness = "authentication unexpectedly succeeded"
			return
		}
		_ = x.mgr.TerminateSession(ctx, me.id, subscriber.TerminateAuthFailed)
	case "idle":
		// the subscriber goes silent; everybody else keeps sending
		x.advance(time.Duration(x.tc.P.IdleS)*time.Second+45*time.Second, x.bg)
	case "session-timeout":
		// the subscriber stays active until its Session-Timeout strikes
		x.advance(time.Duration(x.tc.P.SessS)*time.Second+45*time.Second, append(append([]*smSess(nil), x.bg...), me))
	case "coa-disconnect":
		req := &bngradius.DisconnectRequest{}
		switch x.tc.P.CoABy {
		case "ip":
			req.FramedIP = me.ip
		case "mac":
			req.CallingStation = me.mac.String()
		default:
			req.SessionID, req.AcctSessionID = me.id, me.id
		}
		resp := x.proc.HandleDisconnect(ctx, req)
		x.res.logf("    Disconnect-Request by %s -> success=%v cause=%d %s", x.tc.P.CoABy, resp.Success, resp.ErrorCause, resp.Message)
	case "shutdown":
		_ = x.mgr.Stop()
		_ = x.am.Stop()
	}
}

func runSubMgr(t testing.TB, tc *tcase) *result {
	rs := scriptedRadius(t)
	res := &result{}
	dir, err := os.MkdirTemp("", "c16-acct-*")
	if err != nil {
		res.harness = err.Error()
		return res
	}
	defer os.RemoveAll(dir)
	synctest.Test(t.(*testing.T), func(t *testing.T) {
		runSubMgrInBubble(tc, rs, res, dir)
	})
	return res
}

func runSubMgrInBubble(tc *tcase, rs *radServer, res *result, dir string) {
	p := &tc.P
	rs.reset()
	w, err := newWorld(p)
	if err != nil {
		res.harness = err.Error()
		return
	}
	defer w.close()
	x := &smRun{tc: tc, res: res, w: w, rs: rs, gate: newGate(), attached: map[string]*attachment{}, events: map[string]map[subscriber.SessionEventType]int{}}
	rc, err := newRadiusClient(rs)
	if err != nil {
		res.harness = err.Error()
		return
	}
	x.am, err = bngradius.NewAccountingManager(rc, bngradius.AccountingConfig{InterimEnabled: false, PersistPath: dir, DrainOnShutdown: true, MaxRetries: 3}, zap.NewNop())
	if err != nil {
		res.harness = err.Error()
		return
	}
	if err := x.am.Start(); err != nil {
		res.harness = err.Error()
		return
	}
	amStopped := false
	defer func() {
		if !amStopped {
			_ = x.am.Stop()
		}
	}()
	x.alloc = &fakeAlloc{base: [4]byte{10, byte(p.Net), byte(p.Net3), 0}, size: 1 << uint(32-p.PoolBits), owner: map[string]string{}, calls: map[string]int{}, gate: x.gate, owner6: map[string]string{}, calls6: map[string]int{}}
	x.auth = &stubAuth{res: map[string]*subscriber.AuthResult{}, err: map[string]error{}}
	cfg := subscriber.ManagerConfig{CleanupInterval: 30 * time.Second, DefaultSessionTimeout: 24 * time.Hour, DefaultIdleTimeout: time.Duration(p.IdleS) * time.Second,
		AuthTimeout: 10 * time.Second, MaxAuthAttempts: 3, MaxSessions: 1000, DefaultDownloadRateBps: 100_000_000, DefaultUploadRateBps: 50_000_000}
	bySessTimeout := tc.Path == "session-timeout" || secondPath(tc.Second) == "session-timeout" || (tc.Path == "shutdown-during-sweep" && p.SweepBy == "session-timeout")
	if bySessTimeout {
		cfg.DefaultSessionTimeout = time.Duration(p.SessS) * time.Second
		cfg.DefaultIdleTimeout = 0
	}
	x.mgr = subscriber.NewManager(cfg, x.auth, x.alloc, zap.NewNop())
	x.mgr.OnEvent(x.onEvent)
	if err := x.mgr.Start(); err != nil {
		res.harness = err.Error()
		return
	}
	mgrStopped := false
	defer func() {
		if !mgrStopped {
			_ = x.mgr.Stop()
		}
	}()
	x.wireCoA()

	okAuth := func(mac net.HardwareAddr, sessTimeout time.Duration) {
		x.auth.res[mac.String()] = &subscriber.AuthResult{Success: true, SubscriberID: "sub-" + mac.String(), ISPID: "isp", SessionTimeout: sessTimeout,
			DownloadRateBps: 200_000_000, UploadRateBps: 20_000_000, IPv4PoolID: "isp-residential"}
	}
	pre0, err := w.census()
	if err != nil {
		res.harness = err.Error()
		return
	}
	for i, m := range p.BgMACs {
		b := &smSess{mac: net.HardwareAddr(m), cid: []byte(fmt.Sprintf("bg/%d", i)), stag: uint16(4001 + i), ctag: uint16(100 + i), dual: p.DualStack && i%2 == 0}
		bgTimeout := 240 * time.Hour
		if (tc.shape() == "stale" && tc.Path == "session-timeout") || (tc.Path == "shutdown-during-sweep" && p.SweepBy == "session-timeout") {
			bgTimeout = time.Duration(p.SessS) * time.Second // they time out in the same sweep as the session under test
		}
		okAuth(b.mac, bgTimeout)
		if !x.establish(b, fmt.Sprintf("bg%d", i), "active") {
			return
		}
		x.bg = append(x.bg, b)
	}
	pre, err := w.census()
	if err != nil {
		res.harness = err.Error()
		return
	}
	preAlloc := x.alloc.allocated()
	preSessions := len(x.mgr.ListSessions())
	res.logf("before: %s alloc=%d sessions=%d", pre, preAlloc, preSessions)

	x.me = &smSess{mac: net.HardwareAddr(p.MAC), cid: p.Cid, stag: p.STag, ctag: p.CTag, dual: p.DualStack}
	preAlloc6 := x.alloc.allocated6()
	x.preAlloc6 = preAlloc6
	if tc.Path == "auth-fail" {
		if p.In%2 == 0 {
			x.auth.res[x.me.mac.String()] = &subscriber.AuthResult{Success: false, Error: "rejected"}
		} else {
			x.auth.err[x.me.mac.String()] = fmt.Errorf("radius unreachable")
		}
	} else {
		var st time.Duration
		if bySessTimeout {
			st = time.Duration(p.SessS) * time.Second
		}
		okAuth(x.me.mac, st)
	}
	if !x.establish(x.me, p.User, tc.Prefix) {
		return
	}
	res.hold("entry")
	if x.me.ip != nil {
		res.hold("pool")
	}
	if x.me.ip6 != nil {
		res.hold("pool6")
	}
	w.planeHeld(res, pre)
	for _, r := range rs.records() {
		if r.Type == acctStart && r.SID == x.me.id {
			res.hold("acct")
		}
	}
	if res.harness != "" {
		return
	}
	res.logf("  established to %q: id=%s ip=%v holds %v", tc.Prefix, x.me.id, x.me.ip, res.held)

	if tc.Path == "shutdown-during-sweep" {
		all := append([]*smSess{x.me}, x.bg...)
		x.gate.arm("alloc", "*")
		var active []*smSess
		horizon := time.Duration(p.IdleS) * time.Second
		if p.SweepBy == "session-timeout" {
			active, horizon = all, time.Duration(p.SessS)*time.Second
		}
		x.advance(horizon+45*time.Second, active)
		select {
		case <-x.gate.parked:
		default:
			res.harness = "the sweep never reached the allocator"
			return
		}
		res.logf("  the %s sweep is releasing %s (first of its batch); Manager.Stop() is called now", p.SweepBy, x.gate.hitID)
		stopped := make(chan struct{})
		go func() { defer close(stopped); _ = x.mgr.Stop() }()
		synctest.Wait() // Stop has cancelled the manager's context and waits for the sweep goroutine
		x.gate.open()
		<-stopped
		mgrStopped = true
		synctest.Wait()
		ended := 0
		for _, ts := range all {
			if _, alive := x.mgr.GetSession(ts.id); alive {
				continue // not ended by the sweep: it keeps what it holds
			}
			ended++
			if ts.ip != nil && x.alloc.ownerOf(ts.ip) == ts.id {
				res.fail("C16/submgr/shutdown-during-sweep/pool", "the sweep ended session %s during Stop(), but its address %s is still allocated to it (released with the manager's cancelled context?)", ts.id, ts.ip)
			}
			if ts.ip6 != nil && x.alloc.ownerOf6(ts.ip6) == ts.id {
				res.fail("C16/submgr/shutdown-during-sweep/pool6", "the sweep ended session %s during Stop(), but its IPv6 address %s is still allocated to it", ts.id, ts.ip6)
			}
			if n := x.termEvents(ts.id); n != 1 {
				res.fail("C16/submgr/shutdown-during-sweep/terminate-event", "%d terminate events for the ended session %s", n, ts.id)
			}
		}
		res.classes = append(res.classes, fmt.Sprintf("sweep-shutdown:ended-%d-of-%d", ended, len(all)))
		if len(res.viol) == 0 && ended == len(all) {
			x.oracleAll("shutdown-during-sweep", pre0, all)
		}
		return
	}
	switch tc.shape() {
	case "none", "seq":
		switch tc.Fault {
		case "release-ipv4":
			x.alloc.mu.Lock()
			x.alloc.failV4 = 1
			x.alloc.mu.Unlock()
		case "release-ipv6":
			x.alloc.mu.Lock()
			x.alloc.failV6 = 1
			x.alloc.mu.Unlock()
		case "acct-stop-retried":
			rs.failNextStops(1)
		}
		if tc.Fault != "" {
			res.logf("  (fault: the next %s fails)", tc.Fault)
		}
		res.logf("  %s", tc.Path)
		x.terminate(tc.Path)
		if tc.Path == "shutdown" {
			mgrStopped, amStopped = true, true
		}
		synctest.Wait()
		if tc.Fault == "acct-stop-retried" {
			// the AccountingManager queued the refused Stop; give its retry worker time (back-off <= 60 s)
			x.advance(150*time.Second, x.bg)
			synctest.Wait()
		}
		if res.harness != "" {
			return
		}
		x.oracle(tc.Path, pre, preAlloc, preSessions, nil)
		if len(res.viol) > 0 || res.harness != "" || tc.Second == "none" {
			return
		}
		sp := secondPath(tc.Second)
		sigPath := tc.Path + "+" + sp
		c1, err := w.census()
		if err != nil {
			res.harness = err.Error()
			return
		}
		a1, n1, r1 := x.alloc.allocated(), len(x.mgr.ListSessions()), len(rs.records())
		ev1 := x.termEvents(x.me.id)
		x.alloc.mu.Lock()
		rel1 := len(x.alloc.released)
		x.alloc.mu.Unlock()
		res.logf("  then %s", sp)
		x.terminate(sp)
		synctest.Wait()
		c2, err := w.census()
		if err != nil {
			res.harness = err.Error()
			return
		}
		w.unchanged(res, tc, sigPath, c1, c2)
		if a2 := x.alloc.allocated(); a2 != a1 {
			res.fail("C16/submgr/"+sigPath+"/second-changes-pool", "the second termination changed the allocator: %d -> %d allocations", a1, a2)
		}
		if n2 := len(x.mgr.ListSessions()); n2 != n1 {
			res.fail("C16/submgr/"+sigPath+"/second-changes-entry", "the second termination changed the session table: %d -> %d", n1, n2)
		}
		if recs := rs.records(); len(recs) != r1 {
			res.fail("C16/submgr/"+sigPath+"/second-sends-acct", "the second termination sent accounting records: %v", recs[r1:])
		}
		if ev2 := x.termEvents(x.me.id); ev2 != ev1 {
			res.fail("C16/submgr/"+sigPath+"/second-emits-terminate-event", "the second termination emitted %d more terminate event(s)", ev2-ev1)
		}
		x.alloc.mu.Lock()
		rel2 := len(x.alloc.released)
		x.alloc.mu.Unlock()
		if rel2 != rel1 {
			res.fail("C16/submgr/"+sigPath+"/second-releases-address", "the second termination called ReleaseIPv4 again")
		}
		if len(res.viol) == 0 {
			x.oracle(sigPath, pre, preAlloc, preSessions, nil)
		}
	case "stale":
		sp := secondPath(tc.Second)
		all := append([]*smSess{x.me}, x.bg...)
		x.gate.arm("alloc", "*")
		var active []*smSess
		horizon := time.Duration(p.IdleS) * time.Second
		if tc.Path == "session-timeout" {
			active, horizon = all, time.Duration(p.SessS)*time.Second // everybody keeps sending until the time-outs strike
		}
		x.advance(horizon+45*time.Second, active)
		select {
		case <-x.gate.parked:
		default:
			res.harness = "the sweep never reached the allocator"
			return
		}
		var victim *smSess
		for _, ts := range all {
			if _, alive := x.mgr.GetSession(ts.id); alive && (ts.ip == nil || ts.ip.String() != x.gate.hitID) {
				victim = ts
				break
			}
		}
		x.allEnded = true
		if victim == nil {
			res.classes = append(res.classes, "stale:nothing-left")
		} else {
			if victim == x.me {
				res.classes = append(res.classes, "stale:victim-is-test-session")
			} else {
				res.classes = append(res.classes, "stale:victim-is-background-session")
			}
			res.logf("  the sweep took its list and is releasing %s; meanwhile session %s ends by %s", x.gate.hitID, victim.id, sp)
			x.terminateOn(sp, victim)
			if _, alive := x.mgr.GetSession(victim.id); alive {
				res.fail("C16/submgr/"+sp+"/entry", "session %s is still in the manager after %s (a sweep was in progress on another session)", victim.id, sp)
			}
		}
		r1 := len(rs.records())
		ev1 := 0
		if victim != nil {
			ev1 = x.termEvents(victim.id)
		}
		x.gate.open()
		synctest.Wait()
		x.advance(35*time.Second, nil)
		synctest.Wait()
		if victim != nil && len(res.viol) == 0 {
			res.classes = append(res.classes, "stale:reached")
			for _, r := range rs.records()[r1:] {
				if r.SID == victim.id {
					res.fail("C16/submgr/stale/second-sends-acct", "the sweep came to session %s after %s had ended it and sent %v", victim.id, sp, r)
				}
			}
			if ev2 := x.termEvents(victim.id); ev2 != ev1 {
				res.fail("C16/submgr/stale/second-emits-terminate-event", "the sweep came to session %s after %s had ended it and emitted %d more terminate event(s)", victim.id, sp, ev2-ev1)
			}
		}
		if len(res.viol) == 0 {
			x.oracleAll("stale", pre0, all)
		}
	case "parked":
		sp := secondPath(tc.Second)
		x.gate.arm("alloc", x.me.ip.String())
		d1 := make(chan struct{})
		if tc.Path == "idle" || tc.Path == "session-timeout" {
			// the first termination runs on the manager's own cleanup goroutine
			x.terminate(tc.Path)
			close(d1)
			select {
			case <-x.gate.parked:
			default:
				res.harness = "the cleanup loop never reached the allocator"
				return
			}
		} else {
			go func() { defer close(d1); x.terminate(tc.Path) }()
			select {
			case <-x.gate.parked:
			case <-d1:
				res.harness = "the first termination never reached the allocator"
				return
			}
		}
		res.logf("  %s parked in ReleaseIPv4(%s); meanwhile %s", tc.Path, x.me.ip, sp)
		x.terminate(sp) // runs to completion: the session is still in the table
		// the freed address goes to the next subscriber
		victim := &smSess{mac: net.HardwareAddr{0x02, 0xee, 0, 0, 0, 0x99}}
		okAuth(victim.mac, 240*time.Hour)
		if !x.establish(victim, "victim", "addressed") {
			x.gate.open()
			<-d1
			return
		}
		res.logf("  new subscriber %s is given %s", victim.id, victim.ip)
		x.gate.open()
		<-d1
		synctest.Wait()
		res.classes = append(res.classes, "parked:at-alloc")
		if victim.ip.Equal(x.me.ip) {
			res.classes = append(res.classes, "parked:victim-got-same-address")
		}
		if own := x.alloc.ownerOf(victim.ip); own != victim.id {
			res.fail("C16/submgr/parked/address-released-twice", "two terminations of session %s at once released %s twice: the second release freed it while it was allocated to the new session %s (allocator now says owner=%q)",
				x.me.id, victim.ip, victim.id, own)
		}
		if n := x.termEvents(x.me.id); n > 1 {
			res.fail("C16/submgr/parked/terminate-event-duplicate", "two terminations of session %s at once emitted %d terminate events", x.me.id, n)
		}
		if len(res.viol) == 0 {
			x.oracle("parked", pre, preAlloc, preSessions, victim)
		}
	}
}

// oracleAll: every session of the case has ended (stale family): nothing at all may remain.
func (x *smRun) oracleAll(sigPath string, pre0 *census, all []*smSess) {
	tc, res := x.tc, x.res
	sig := func(r string) string { return "C16/submgr/" + sigPath + "/" + r }
	acctOracle(res, tc, x.rs.records(), func(acctRec) bool { return true }, sigPath)
	for _, b := range x.rs.problems() {
		res.harness = "scripted RADIUS server: " + b
	}
	if n := len(x.mgr.ListSessions()); n != 0 {
		res.fail(sig("entry"), "the manager still holds %d session(s) although all of them expired or were terminated", n)
	}
	if n := x.alloc.allocated(); n != 0 {
		res.fail(sig("pool"), "the allocator still holds %d address(es)", n)
	}
	if n := x.alloc.allocated6(); n != 0 {
		res.fail(sig("pool6"), "the allocator still holds %d IPv6 address(es)", n)
	}
	x.alloc.mu.Lock()
	free, calls := x.alloc.freeRel, map[string]int{}
	for k, v := range x.alloc.calls {
		calls[k] = v
	}
	x.alloc.mu.Unlock()
	if free != 0 {
		res.fail(sig("address-released-twice"), "ReleaseIPv4 was called %d time(s) for an address that was free; calls per address: %v", free, calls)
	}
	for _, ts := range all {
		if n := x.termEvents(ts.id); n != 1 {
			res.fail(sig("terminate-event"), "%d terminate events were emitted for session %s, expected exactly one", n, ts.id)
		}
		if s, ok := x.mgr.GetSessionByMAC(ts.mac); ok {
			res.fail(sig("entry"), "the MAC index still has an entry for %s (%v)", ts.mac, s)
		}
		x.w.planeOracle(res, tc, sigPath, pre0, sessionIdent{MAC: ts.mac, IP: ts.ip, Cid: ts.cid, STag: ts.stag, CTag: ts.ctag, HasVLAN: ts.stag != 0 || ts.ctag != 0})
		if len(res.viol) > 0 {
			return
		}
	}
}

func (x *smRun) termEvents(id string) int {
	x.mu.Lock()
	defer x.mu.Unlock()
	return x.events[id][subscriber.EventSessionTerminate]
}

func (x *smRun) oracle(sigPath string, pre *census, preAlloc, preSessions int, victim *smSess) {
	tc, res := x.tc, x.res
	sig := func(r string) string { return "C16/submgr/" + sigPath + "/" + r }
	acctOracle(res, tc, x.rs.records(), func(r acctRec) bool {
		if firstPath(sigPath) == "shutdown" {
			return true // AccountingManager.Stop drains every session
		}
		return r.SID == x.me.id
	}, sigPath)
	for _, b := range x.rs.problems() {
		res.harness = "scripted RADIUS server: " + b
	}
	if firstPath(sigPath) == "shutdown" {
		return // the process ends: only the RADIUS records are demanded
	}
	extra := 0
	if victim != nil {
		extra = 1
	}
	if _, ok := x.mgr.GetSession(x.me.id); ok {
		res.fail(sig("entry"), "session %s is still in the manager after it ended", x.me.id)
	}
	// (found with a nil session = a stale index entry pointing at the deleted session)
	if s, ok := x.mgr.GetSessionByMAC(x.me.mac); ok && (s == nil || s.ID == x.me.id) {
		res.fail(sig("entry"), "the MAC index still has an entry for %s that points at the ended session", x.me.mac)
	}
	if x.me.ip != nil {
		if s, ok := x.mgr.GetSessionByIP(x.me.ip); ok && (s == nil || s.ID == x.me.id) {
			res.fail(sig("entry"), "the IP index still has an entry for %s that points at the ended session", x.me.ip)
		}
	}
	if n := len(x.mgr.ListSessions()); n != preSessions+extra {
		res.fail(sig("entry"), "the manager holds %d sessions, expected %d", n, preSessions+extra)
	}
	if x.me.ip != nil {
		if own := x.alloc.ownerOf(x.me.ip); own == x.me.id {
			res.fail(sig("pool"), "the allocator still has %s allocated to the ended session", x.me.ip)
		}
	}
	if n := x.alloc.allocated(); n != preAlloc+extra {
		res.fail(sig("pool"), "the allocator holds %d addresses, expected %d", n, preAlloc+extra)
	}
	if x.me.ip6 != nil {
		if own := x.alloc.ownerOf6(x.me.ip6); own == x.me.id {
			res.fail(sig("pool6"), "the allocator still has the IPv6 address %s allocated to the ended session", x.me.ip6)
		}
		if s, ok := x.mgr.GetSessionByIP(x.me.ip6); ok && (s == nil || s.ID == x.me.id) {
			res.fail(sig("entry"), "the IP index still has an entry for %s that points at the ended session", x.me.ip6)
		}
	}
	if n := x.alloc.allocated6(); n != x.preAlloc6 {
		res.fail(sig("pool6"), "the allocator holds %d IPv6 addresses, expected %d", n, x.preAlloc6)
	}
	x.alloc.mu.Lock()
	fr, fr6 := x.alloc.freeRel, x.alloc.freeRel6
	x.alloc.mu.Unlock()
	if victim == nil && (fr != 0 || fr6 != 0) {
		res.fail(sig("address-released-twice"), "an address that was free was released again (IPv4: %d, IPv6: %d times)", fr, fr6)
	}
	if n := x.termEvents(x.me.id); n != 1 {
		res.fail(sig("terminate-event"), "%d terminate events were emitted for session %s, expected exactly one", n, x.me.id)
	}
	for _, b := range x.bg {
		if _, ok := x.mgr.GetSession(b.id); !ok {
			res.fail(sig("foreign-entry"), "background session %s disappeared", b.id)
		}
	}
	x.w.planeOracle(res, tc, sigPath, pre, sessionIdent{MAC: x.me.mac, IP: x.me.ip, Cid: x.me.cid, STag: x.me.stag, CTag: x.me.ctag, HasVLAN: x.me.stag != 0 || x.me.ctag != 0})
}
