package c16

// Scripted RADIUS server: two real UDP sockets on loopback (authentication on port P, accounting on
// P+1, which is where radius.Client.SendAccounting sends), served by goroutines that are started
// OUTSIDE any synctest bubble and answer every request immediately (DESIGN 1.5).  One instance per
// test process; cases run one at a time and reset the script + record stream when they start.
//
// The accounting side is the RADIUS-side record stream the oracle reads: every Accounting-Request is
// decoded and logged before it is acknowledged, so once SendAccounting has returned the record is in
// the log.

import (
	"fmt"
	"net"
	"sync"
	"testing"
	"time"

	bngradius "github.com/codelaboratoryltd/bng/pkg/radius"
	"go.uber.org/zap"
	"layeh.com/radius"
	"layeh.com/radius/rfc2865"
	"layeh.com/radius/rfc2866"
)

const radSecret = "verif-c16-secret"

const (
	acctStart   = 1
	acctStop    = 2
	acctInterim = 3
)

type acctRec struct {
	Seq     int    `json:"seq"`
	Type    uint32 `json:"type"`
	SID     string `json:"sid"`
	User    string `json:"user"`
	Calling string `json:"calling"`
	IP      string `json:"ip"`
	Cause   uint32 `json:"cause"`
	OK      bool   `json:"ok"` // answered with Accounting-Response (false: scripted failure, answered with a wrong code)
}

func (r acctRec) String() string {
	t := map[uint32]string{acctStart: "Start", acctStop: "Stop", acctInterim: "Interim"}[r.Type]
	if t == "" {
		t = fmt.Sprintf("type%d", r.Type)
	}
	a := ""
	if !r.OK {
		a = " REFUSED"
	}
	return fmt.Sprintf("#%d %s(sid=%s user=%s calling=%s ip=%s cause=%d)%s", r.Seq, t, r.SID, r.User, r.Calling, r.IP, r.Cause, a)
}

type authScript struct {
	Accept   bool
	FilterID string
	Class    []byte
}

type radServer struct {
	auth, acct *net.UDPConn
	port       int

	mu       sync.Mutex
	script   map[string]authScript // by User-Name; default = accept without attributes
	defAuth  authScript
	log      []acctRec
	authReqs []string // User-Names of Access-Requests received
	failStop int      // the next n Accounting-Stop requests are answered with a wrong code (the client reports an error at once)
	bad      []string
	// parkStop: when non-nil the reply to the next Accounting-Request of type Stop is held until the channel is closed
	// (only used outside bubbles; not used by the generated tiers)
}

var (
	radOnce sync.Once
	radInst *radServer
	radErr  error
)

// scriptedRadius returns the per-process server; the first call must happen outside a bubble.
func scriptedRadius(t testing.TB) *radServer {
	radOnce.Do(func() {
		for try := 0; try < 200; try++ {
			a, err := net.ListenUDP("udp4", &net.UDPAddr{IP: net.IPv4(127, 0, 0, 1)})
			if err != nil {
				radErr = err
				return
			}
			p := a.LocalAddr().(*net.UDPAddr).Port
			if p >= 65535 {
				a.Close()
				continue
			}
			b, err := net.ListenUDP("udp4", &net.UDPAddr{IP: net.IPv4(127, 0, 0, 1), Port: p + 1})
			if err != nil {
				a.Close()
				continue
			}
			_ = a.SetReadBuffer(1 << 20)
			_ = b.SetReadBuffer(1 << 20)
			s := &radServer{auth: a, acct: b, port: p, script: map[string]authScript{}, defAuth: authScript{Accept: true}}
			go s.serveAuth()
			go s.serveAcct()
			radInst = s
			return
		}
		radErr = fmt.Errorf("no adjacent pair of free UDP ports on loopback")
	})
	if radInst == nil {
		t.Fatalf("INCONCLUSIVE: scripted RADIUS server unavailable: %v", radErr)
	}
	return radInst
}

func (s *radServer) reset() {
	s.mu.Lock()
	s.script = map[string]authScript{}
	s.defAuth = authScript{Accept: true}
	s.log = nil
	s.authReqs = nil
	s.bad = nil
	s.failStop = 0
	s.mu.Unlock()
}

func (s *radServer) failNextStops(n int) {
	s.mu.Lock()
	s.failStop = n
	s.mu.Unlock()
}

func (s *radServer) setAuth(user string, a authScript) {
	s.mu.Lock()
	s.script[user] = a
	s.mu.Unlock()
}

func (s *radServer) setDefaultAuth(a authScript) {
	s.mu.Lock()
	s.defAuth = a
	s.mu.Unlock()
}

func (s *radServer) records() []acctRec {
	s.mu.Lock()
	defer s.mu.Unlock()
	return append([]acctRec(nil), s.log...)
}

func (s *radServer) problems() []string {
	s.mu.Lock()
	defer s.mu.Unlock()
	return append([]string(nil), s.bad...)
}

func (s *radServer) serveAuth() {
	buf := make([]byte, 4096)
	for {
		n, from, err := s.auth.ReadFromUDP(buf)
		if err != nil {
			return
		}
		req, err := radius.Parse(buf[:n], []byte(radSecret))
		if err != nil {
			s.mu.Lock()
			s.bad = append(s.bad, fmt.Sprintf("auth: unparsable request: %v", err))
			s.mu.Unlock()
			continue
		}
		user := rfc2865.UserName_GetString(req)
		s.mu.Lock()
		sc, ok := s.script[user]
		if !ok {
			sc = s.defAuth
		}
		s.authReqs = append(s.authReqs, user)
		s.mu.Unlock()
		code := radius.CodeAccessReject
		if sc.Accept {
			code = radius.CodeAccessAccept
		}
		resp := req.Response(code)
		if sc.Accept {
			if sc.FilterID != "" {
				_ = rfc2865.FilterID_SetString(resp, sc.FilterID)
			}
			if len(sc.Class) > 0 {
				_ = rfc2865.Class_Set(resp, sc.Class)
			}
		}
		b, err := resp.Encode()
		if err != nil {
			continue
		}
		_, _ = s.auth.WriteToUDP(b, from)
	}
}

func (s *radServer) serveAcct() {
	buf := make([]byte, 4096)
	for {
		n, from, err := s.acct.ReadFromUDP(buf)
		if err != nil {
			return
		}
		req, err := radius.Parse(buf[:n], []byte(radSecret))
		if err != nil || req.Code != radius.CodeAccountingRequest {
			s.mu.Lock()
			s.bad = append(s.bad, fmt.Sprintf("acct: unparsable/unsupported request: %v", err))
			s.mu.Unlock()
			if req != nil {
				if b, e := req.Response(radius.CodeAccessReject).Encode(); e == nil {
					_, _ = s.acct.WriteToUDP(b, from)
				}
			}
			continue
		}
		var r acctRec
		r.Type = uint32(rfc2866.AcctStatusType_Get(req))
		r.SID = rfc2866.AcctSessionID_GetString(req)
		r.User = rfc2865.UserName_GetString(req)
		r.Calling = rfc2865.CallingStationID_GetString(req)
		if ip, err := rfc2865.FramedIPAddress_Lookup(req); err == nil {
			r.IP = ip.String()
		} else {
			r.IP = "-"
		}
		r.Cause = uint32(rfc2866.AcctTerminateCause_Get(req))
		s.mu.Lock()
		r.Seq = len(s.log)
		r.OK = true
		if r.Type == acctStop && s.failStop > 0 {
			s.failStop--
			r.OK = false
		}
		s.log = append(s.log, r)
		s.mu.Unlock()
		code := radius.CodeAccountingResponse
		if !r.OK {
			code = radius.CodeAccessReject // authentic reply, wrong code: SendAccounting fails immediately
		}
		b, err := req.Response(code).Encode()
		if err != nil {
			continue
		}
		_, _ = s.acct.WriteToUDP(b, from)
	}
}

// newRadiusClient builds the client the way main.go does (one server, Retries 3), with the rate limiter opened up
// (its token bucket would otherwise depend on virtual time).
func newRadiusClient(rs *radServer) (*bngradius.Client, error) {
	return bngradius.NewClient(bngradius.ClientConfig{
		Servers:   []bngradius.ServerConfig{{Host: "127.0.0.1", Port: rs.port, Secret: radSecret}},
		NASID:     "verif-c16",
		Timeout:   3 * time.Second,
		Retries:   3,
		RateLimit: bngradius.RateLimitConfig{RequestsPerSecond: 1e9, BurstSize: 1 << 30},
	}, zap.NewNop())
}

// acctOracle decides clause (4) from the RADIUS-side record stream: for every Acct-Session-Id seen,
// a Start must be followed by exactly one Stop once the session has ended, and there is no Stop without a Start.
// ended(sid) tells whether that accounting session belongs to a session the case has terminated; sessions that are
// still alive (background sessions) must have no Stop at all.
func acctOracle(res *result, tc *tcase, recs []acctRec, ended func(r acctRec) bool, sigPath string) {
	type cnt struct {
		starts, stops int
		first         acctRec
	}
	by := map[string]*cnt{}
	var order []string
	for _, r := range recs {
		c := by[r.SID]
		if c == nil {
			c = &cnt{first: r}
			by[r.SID] = c
			order = append(order, r.SID)
		}
		if !r.OK {
			continue // a refused record was not delivered; a later retry of it is not a duplicate
		}
		switch r.Type {
		case acctStart:
			c.starts++
		case acctStop:
			c.stops++
		}
	}
	for _, sid := range order {
		c := by[sid]
		if !ended(c.first) {
			if c.stops > 0 {
				res.fail("C16/"+tc.sigKind()+"/"+sigPath+"/acct-stop-for-live-session", "accounting session %s of a session that was not terminated got %d Stop(s): %v", sid, c.stops, recs)
			}
			continue
		}
		switch {
		case c.starts > 1:
			res.fail("C16/"+tc.sigKind()+"/"+sigPath+"/acct-start-duplicate", "accounting session %s has %d Starts: %v", sid, c.starts, recs)
		case c.starts == 1 && c.stops == 0:
			res.fail("C16/"+tc.sigKind()+"/"+sigPath+"/acct-stop-missing", "accounting session %s was started (%v) but no Accounting-Stop was issued after the session ended; stream: %v", sid, c.first, recs)
		case c.starts == 1 && c.stops > 1:
			res.fail("C16/"+tc.sigKind()+"/"+sigPath+"/acct-stop-duplicate", "accounting session %s got %d Accounting-Stops for one Start; stream: %v", sid, c.stops, recs)
		case c.starts == 0 && c.stops > 0:
			res.fail("C16/"+tc.sigKind()+"/"+sigPath+"/acct-stop-without-start", "accounting session %s got %d Accounting-Stop(s) but never a Start; stream: %v", sid, c.stops, recs)
		}
	}
}
