package c16

// Kind "teardown": pppoe.SessionTeardown, the component that implements graceful PPPoE termination
// (client PADT, administrative terminate by id / MAC / username, TerminateAll for shutdown) and, through
// radius.CoAProcessor, RADIUS Disconnect.  cmd/bng/main.go instantiates neither, so the harness composes
// them the only way their interfaces allow:
//
//	SetSessionManager(real pppoe.SessionManager)     SetIPPool(real pppoe.IPPool behind a parkable wrapper)
//	SetRADIUSClient(real client -> scripted server)  SetSendPADT / SetSendLCPTermReq (recorded)
//	SetUpdateEBPFMaps(cb)  cb(session, remove) adds / removes the session's entries in the REAL
//	                       ebpf.Loader (MAC cache), nat.Manager and qos.Manager on kernel maps
//	CoAProcessor: lookups over the session manager, terminator = SessionTeardown.TerminateSession;
//	              no AccountingManager on the processor (the teardown sends the Stop itself)
//
// The harness plays the PPPoE glue that creates the session: CreateSession; authentication sets
// Session.Authenticated and sends the Accounting-Start (SessionTeardown sends a Stop exactly for
// authenticated sessions, so the Start belongs to that moment); the address comes from the pool; at
// "established" cb(session,false) writes the maps.
//
// "At once": the first termination is parked inside one of the harness-owned callbacks (sendPADT,
// updateEBPFMaps, the pool wrapper) and the second one runs meanwhile.  No timing is involved: the
// parked goroutine is released by the harness after the second termination has obtained the session.

import (
	"context"
	"fmt"
	"net"
	"sync"
	"testing"
	"testing/synctest"
	"time"

	"github.com/codelaboratoryltd/bng/pkg/ebpf"
	"github.com/codelaboratoryltd/bng/pkg/pppoe"
	"github.com/codelaboratoryltd/bng/pkg/qos"
	bngradius "github.com/codelaboratoryltd/bng/pkg/radius"
	"go.uber.org/zap"
)

var teardownPaths = []string{"client-padt", "admin-id", "admin-mac", "admin-user", "coa-disconnect", "terminate-all"}

var teardownPrefixes = map[string][]string{
	"client-padt":    {"created", "authed", "addressed", "established"},
	"admin-id":       {"created", "authed", "addressed", "established"},
	"admin-mac":      {"created", "authed", "addressed", "established"},
	"admin-user":     {"authed", "addressed", "established"},
	"coa-disconnect": {"created", "authed", "addressed", "established"},
	"terminate-all":  {"created", "authed", "addressed", "established"},
}

// staleCells: the "stale reference" family.  A snapshot-based mass termination (TerminateAll / TerminateByUsername
// take the list of sessions first and then work through it) is parked while it is busy with the FIRST session of
// its list; meanwhile another session of that list ends completely by a path of its own; the mass termination is
// released and reaches that session through the pointer it took before.
func teardownStaleCells() []cellSpec {
	var out []cellSpec
	for _, mass := range []string{"terminate-all", "admin-user"} {
		for _, pre := range teardownPrefixes[mass] {
			for _, s := range []string{"stale:client-padt", "stale:admin-id", "stale:admin-mac", "stale:coa-disconnect"} {
				out = append(out, cellSpec{Kind: "teardown", Path: mass, Prefix: pre, Second: s, ParkAt: "padt"})
			}
		}
	}
	return out
}

// teardownFaultCells: one release operation of cleanup() fails once - the eBPF map update (harness-owned callback
// returns an error and removes nothing) or the Accounting-Stop (scripted RADIUS server refuses it).  The pool's
// Release has no error return.
func teardownFaultCells() []cellSpec {
	var out []cellSpec
	for _, p := range teardownPaths {
		for _, f := range []string{"maps", "acct-stop"} {
			out = append(out, cellSpec{Kind: "teardown", Path: p, Prefix: "established", Second: "none", Fault: f})
		}
	}
	return out
}

func teardownCells(parked bool) []cellSpec {
	var out []cellSpec
	for _, p := range teardownPaths {
		for _, pre := range teardownPrefixes[p] {
			if !parked {
				for _, s := range []string{"none", "seq:client-padt", "seq:admin-id", "seq:coa-disconnect", "seq:terminate-all"} {
					out = append(out, cellSpec{Kind: "teardown", Path: p, Prefix: pre, Second: s})
				}
				continue
			}
			parks := []string{"padt", "maps", "alloc"}
			if p == "client-padt" {
				parks = []string{"maps", "alloc"} // a client PADT is not answered with a PADT
			}
			for _, at := range parks {
				if at == "alloc" && (pre == "created" || pre == "authed") {
					continue // no address yet: the pool's Release is never reached
				}
				for _, s := range []string{"parked:client-padt", "parked:admin-id", "parked:admin-mac", "parked:coa-disconnect"} {
					out = append(out, cellSpec{Kind: "teardown", Path: p, Prefix: pre, Second: s, ParkAt: at})
				}
			}
		}
	}
	return out
}

func genTeardown(s src, c cellSpec, base *params) *tcase {
	tc := &tcase{Kind: c.Kind, Path: c.Path, Prefix: c.Prefix, Second: c.Second, ParkAt: c.ParkAt}
	if base != nil {
		tc.P = *base
	} else {
		genCommon(s, &tc.P)
	}
	tc.P.RadiusAuth = false
	tc.P.PADTRetr = s.intn("padt.retries", 0, 2)
	by := []string{"id", "mac"}
	if c.Prefix == "addressed" || c.Prefix == "established" {
		by = append(by, "ip")
	}
	tc.P.CoABy = pick(s, "coa.by", by)
	if secondPath(c.Second) == "terminate-all" {
		tc.P.BgMACs = nil // the second termination would legitimately end the background sessions too
	}
	tc.Fault = c.Fault
	switch c.Fault {
	case "maps":
		tc.P.NAT, tc.P.QoS = true, true
	case "acct-stop":
		tc.P.Radius = true
	}
	if secondShape(c.Second) == "stale" && len(tc.P.BgMACs) == 0 {
		tc.P.BgMACs = []hexb{genMAC(s, "bg0", 1)} // the mass termination needs a list of at least two sessions
	}
	return tc
}

// parkPool wraps the real pool: it delegates every call, keeps its own book and can hold one Release.
type parkPool struct {
	real  pppoe.IPPoolAllocator
	mu    sync.Mutex
	owner map[string]net.IP
	calls map[string]int // Release calls per session id
	gate  *gate
}

func (p *parkPool) Allocate(id string) net.IP {
	ip := p.real.Allocate(id)
	if ip != nil {
		p.mu.Lock()
		p.owner[id] = ip
		p.mu.Unlock()
	}
	return ip
}

func (p *parkPool) Release(id string) {
	p.mu.Lock()
	p.calls[id]++
	p.mu.Unlock()
	p.gate.pass("alloc", id)
	p.real.Release(id)
	p.mu.Lock()
	delete(p.owner, id)
	p.mu.Unlock()
}

func (p *parkPool) allocated() int {
	p.mu.Lock()
	defer p.mu.Unlock()
	return len(p.owner)
}

// gate parks the FIRST call that reaches point `at` on behalf of session `id` until open() is called.
type gate struct {
	mu      sync.Mutex
	at, id  string
	hitID   string // the id on whose behalf the parked call was made
	armed   bool
	parked  chan struct{} // closed when a goroutine is parked
	release chan struct{}
}

func newGate() *gate { return &gate{parked: make(chan struct{}), release: make(chan struct{})} }

func (g *gate) arm(at, id string) {
	g.mu.Lock()
	g.at, g.id, g.armed = at, id, true
	g.mu.Unlock()
}

func (g *gate) pass(at, id string) {
	g.mu.Lock()
	hit := g.armed && g.at == at && (g.id == id || g.id == "*")
	if hit {
		g.armed = false
		g.hitID = id
	}
	g.mu.Unlock()
	if hit {
		close(g.parked)
		<-g.release
	}
}

func (g *gate) open() { close(g.release) }

type tdSess struct {
	mac  net.HardwareAddr
	user string
	s    *pppoe.Session
	sid  uint16
	acct string
	ip   net.IP
}

type tdRun struct {
	tc   *tcase
	res  *result
	w    *world
	rs   *radServer
	rc   *bngradius.Client
	sm   *pppoe.SessionManager
	pool *parkPool
	td   *pppoe.SessionTeardown
	proc *bngradius.CoAProcessor
	gate *gate

	mu       sync.Mutex
	failMaps int            // the next n map removals for the session under test fail (and remove nothing)
	padtsFor map[string]int // PADTs sent per Acct-Session-Id
	padts    int
	termReqs int
	second   chan struct{} // closed when the second termination has got hold of the session (its first PADT)
	secondMe bool

	me       *tdSess
	bg       []*tdSess
	allEnded bool
}

// ebpfUpdate is the updateEBPFMaps callback: add (remove=false) or remove the session's fast-path state.
func (x *tdRun) ebpfUpdate(s *pppoe.Session, remove bool) error {
	if remove {
		x.mu.Lock()
		fail := x.failMaps > 0 && x.me != nil && s == x.me.s
		if fail {
			x.failMaps--
		}
		x.mu.Unlock()
		if fail {
			return fmt.Errorf("map update failed (injected)")
		}
		x.gate.pass("maps", s.SessionID)
		_ = x.w.loader.RemoveSubscriber(ebpf.MACToUint64(s.ClientMAC))
		if s.ClientIP != nil {
			if x.w.nat != nil {
				_ = x.w.nat.DeallocateNAT(s.ClientIP)
			}
			if x.w.qos != nil {
				_ = x.w.qos.RemoveSubscriberQoS(s.ClientIP)
			}
		}
		return nil
	}
	if err := x.w.loader.AddSubscriber(ebpf.MACToUint64(s.ClientMAC), &ebpf.PoolAssignment{PoolID: 1, AllocatedIP: ebpf.IPToUint32(s.ClientIP), LeaseExpiry: uint64(time.Now().Add(time.Hour).Unix())}); err != nil {
		return err
	}
	if x.w.nat != nil {
		if _, err := x.w.nat.AllocateNAT(s.ClientIP); err != nil {
			return err
		}
	}
	if x.w.qos != nil {
		if err := x.w.qos.SetSubscriberQoS(&qos.SubscriberQoS{IP: s.ClientIP, DownloadBPS: 100_000_000, UploadBPS: 50_000_000, PolicyName: "pppoe"}); err != nil {
			return err
		}
	}
	return nil
}

func (x *tdRun) establish(ts *tdSess, upto string) bool {
	serverMAC := net.HardwareAddr{0x02, 0xAC, 0, 0, 0, 1}
	s, err := x.sm.CreateSession(ts.mac, serverMAC)
	if err != nil {
		x.res.harness = err.Error()
		return false
	}
	ts.s, ts.sid, ts.acct = s, s.ID, s.SessionID
	s.SetState(pppoe.StateLCPNegotiation)
	if upto == "created" {
		return true
	}
	s.SetState(pppoe.StateAuthentication)
	s.Username = ts.user
	s.Authenticated = true
	s.AuthMethod = "PAP"
	s.Class = append([]byte(nil), x.tc.P.Class...)
	s.SetState(pppoe.StateIPCPNegotiation)
	if x.rc != nil {
		if err := x.rc.SendAccounting(context.Background(), &bngradius.AcctRequest{SessionID: s.SessionID, Username: s.Username, MAC: s.ClientMAC,
			StatusType: bngradius.AcctStatusStart, Class: s.Class}); err != nil {
			x.res.harness = "Accounting-Start: " + err.Error()
			return false
		}
	}
	if upto == "authed" {
		return true
	}
	s.ClientIP = x.pool.Allocate(s.SessionID)
	if s.ClientIP == nil {
		x.res.harness = "pool exhausted during establishment"
		return false
	}
	s.ServerIP = net.IPv4(10, 0, 0, 1)
	ts.ip = s.ClientIP
	if upto == "addressed" {
		return true
	}
	if err := x.ebpfUpdate(s, false); err != nil {
		x.res.harness = "establishment could not write the maps: " + err.Error()
		return false
	}
	s.SetState(pppoe.StateEstablished)
	s.BytesIn, s.BytesOut = x.tc.P.In, x.tc.P.Out
	return true
}

func (x *tdRun) findByAcct(id string) *pppoe.Session {
	for _, s := range x.sm.GetAllSessions() {
		if s.SessionID == id {
			return s
		}
	}
	return nil
}

func (x *tdRun) info(s *pppoe.Session) *bngradius.SessionInfo {
	return &bngradius.SessionInfo{SessionID: s.SessionID, Username: s.Username, MAC: s.ClientMAC, FramedIP: s.ClientIP, State: s.GetState().String()}
}

func (x *tdRun) wireCoA() {
	p := bngradius.NewCoAProcessor(zap.NewNop())
	p.SetSessionLookup(func(id string) (*bngradius.SessionInfo, bool) {
		if s := x.findByAcct(id); s != nil {
			return x.info(s), true
		}
		return nil, false
	})
	p.SetSessionLookupByIP(func(ip net.IP) (*bngradius.SessionInfo, bool) {
		for _, s := range x.sm.GetAllSessions() {
			if s.ClientIP != nil && s.ClientIP.Equal(ip) {
				return x.info(s), true
			}
		}
		return nil, false
	})
	p.SetSessionLookupByMAC(func(m string) (*bngradius.SessionInfo, bool) {
		hw, err := net.ParseMAC(m)
		if err != nil {
			return nil, false
		}
		if s := x.sm.GetSessionByMAC(hw); s != nil {
			return x.info(s), true
		}
		return nil, false
	})
	p.SetSessionTerminator(func(ctx context.Context, id string, reason uint32) error {
		s := x.findByAcct(id)
		if s == nil {
			return fmt.Errorf("session %s not found", id)
		}
		return x.td.TerminateSession(s, pppoe.TerminateCause(reason), "")
	})
	x.proc = p
}

// terminate performs one termination path on the session under test (synchronously).
func (x *tdRun) terminate(path string) { x.terminateOn(path, x.me) }

func (x *tdRun) terminateOn(path string, me *tdSess) {
	switch path {
	case "client-padt":
		// what a PADT handler does: look the session up, hand it to the teardown
		if s := x.sm.GetSession(me.sid); s != nil {
			_ = x.td.HandleClientPADT(s, me.mac, me.sid)
		}
	case "admin-id":
		_ = x.td.TerminateByID(me.sid, "operator")
	case "admin-mac":
		_ = x.td.TerminateByMAC(me.mac, "operator")
	case "admin-user":
		x.td.TerminateByUsername(me.user, "operator")
	case "coa-disconnect":
		req := &bngradius.DisconnectRequest{Username: me.user}
		switch x.tc.P.CoABy {
		case "ip":
			req.FramedIP = me.ip
		case "mac":
			req.CallingStation = me.mac.String()
		default:
			req.SessionID, req.AcctSessionID = me.acct, me.acct
		}
		resp := x.proc.HandleDisconnect(context.Background(), req)
		x.res.logf("    Disconnect-Request by %s -> success=%v cause=%d %s", x.tc.P.CoABy, resp.Success, resp.ErrorCause, resp.Message)
	case "terminate-all":
		n := x.td.TerminateAll(pppoe.TerminateCauseNASReboot, "maintenance")
		x.res.logf("    TerminateAll -> %d", n)
		x.allEnded = true
	}
}

// massTerminate runs a snapshot-based mass termination: TerminateAll, or TerminateByUsername for a user all of whose
// sessions (in the stale family: every session of the case) carry that name.
func (x *tdRun) massTerminate(path string) {
	switch path {
	case "terminate-all":
		n := x.td.TerminateAll(pppoe.TerminateCauseNASReboot, "maintenance")
		x.res.logf("    TerminateAll -> %d", n)
	case "admin-user":
		n := x.td.TerminateByUsername(x.me.user, "operator")
		x.res.logf("    TerminateByUsername(%s) -> %d", x.me.user, n)
	}
}

func runTeardown(t testing.TB, tc *tcase) *result {
	rs := scriptedRadius(t)
	res := &result{}
	synctest.Test(t.(*testing.T), func(t *testing.T) {
		runTeardownInBubble(tc, rs, res)
	})
	return res
}

func runTeardownInBubble(tc *tcase, rs *radServer, res *result) {
	p := &tc.P
	rs.reset()
	w, err := newWorld(p)
	if err != nil {
		res.harness = err.Error()
		return
	}
	defer w.close()
	x := &tdRun{tc: tc, res: res, w: w, rs: rs, gate: newGate(), second: make(chan struct{}), padtsFor: map[string]int{}}
	if p.Radius {
		if x.rc, err = newRadiusClient(rs); err != nil {
			res.harness = err.Error()
			return
		}
	}
	network := fmt.Sprintf("10.%d.%d.0/%d", p.Net, p.Net3&^0x3f, p.PoolBits)
	_, ipn, _ := net.ParseCIDR(network)
	base := ipn.IP.To4()
	gw := net.IPv4(base[0], base[1], base[2], base[3]+1).To4()
	real, err := pppoe.NewIPPool(ipn.String(), gw.String())
	if err != nil {
		res.harness = err.Error()
		return
	}
	x.pool = &parkPool{real: real, owner: map[string]net.IP{}, calls: map[string]int{}, gate: x.gate}
	x.sm = pppoe.NewSessionManager()
	cfg := pppoe.DefaultTeardownConfig()
	cfg.PADTRetries = p.PADTRetr
	x.td = pppoe.NewSessionTeardown(cfg, zap.NewNop())
	x.td.SetSessionManager(x.sm)
	x.td.SetIPPool(x.pool)
	if x.rc != nil {
		x.td.SetRADIUSClient(x.rc)
	}
	x.td.SetSendPADT(func(s *pppoe.Session, tags []pppoe.Tag) {
		x.mu.Lock()
		x.padts++
		x.padtsFor[s.SessionID]++
		sig := x.secondMe && s == x.me.s
		if sig {
			x.secondMe = false
		}
		x.mu.Unlock()
		if sig {
			close(x.second)
			return
		}
		x.gate.pass("padt", s.SessionID)
	})
	x.td.SetSendLCPTermReq(func(s *pppoe.Session, reason string) {
		x.mu.Lock()
		x.termReqs++
		x.mu.Unlock()
	})
	x.td.SetUpdateEBPFMaps(x.ebpfUpdate)
	x.wireCoA()

	pre0, err := w.census()
	if err != nil {
		res.harness = err.Error()
		return
	}
	for i, m := range p.BgMACs {
		b := &tdSess{mac: net.HardwareAddr(m), user: fmt.Sprintf("bg%d", i)}
		if tc.shape() == "stale" && tc.Path == "admin-user" {
			b.user = p.User // one subscriber name with several sessions: TerminateByUsername ends them all
		}
		if !x.establish(b, "established") {
			return
		}
		x.bg = append(x.bg, b)
	}
	pre, err := w.census()
	if err != nil {
		res.harness = err.Error()
		return
	}
	preAlloc := x.pool.allocated()
	res.logf("before: %s pool.allocated=%d sessions=%d", pre, preAlloc, x.sm.Count())

	x.me = &tdSess{mac: net.HardwareAddr(p.MAC), user: p.User}
	if !x.establish(x.me, tc.Prefix) {
		return
	}
	res.hold("entry")
	if x.me.ip != nil {
		res.hold("pool")
	}
	w.planeHeld(res, pre)
	for _, r := range rs.records() {
		if r.Type == acctStart && r.SID == x.me.acct {
			res.hold("acct")
		}
	}
	if res.harness != "" {
		return
	}
	res.logf("  established to %q: sid=%d acct=%s ip=%v holds %v", tc.Prefix, x.me.sid, x.me.acct, x.me.ip, res.held)

	switch tc.shape() {
	case "none", "seq":
		switch tc.Fault {
		case "maps":
			x.mu.Lock()
			x.failMaps = 1
			x.mu.Unlock()
		case "acct-stop":
			rs.failNextStops(1)
		}
		if tc.Fault != "" {
			res.logf("  (fault: the next %s of the session fails)", tc.Fault)
		}
		res.logf("  %s", tc.Path)
		x.terminate(tc.Path)
		synctest.Wait()
		x.oracle(tc.Path, pre0, pre, preAlloc)
		if len(res.viol) > 0 || res.harness != "" || tc.Second == "none" {
			break
		}
		sp := secondPath(tc.Second)
		sigPath := tc.Path + "+" + sp
		c1, err := w.census()
		if err != nil {
			res.harness = err.Error()
			return
		}
		a1, n1, r1 := x.pool.allocated(), x.sm.Count(), len(rs.records())
		x.mu.Lock()
		padt1 := x.padts
		x.mu.Unlock()
		res.logf("  then %s", sp)
		x.terminate(sp)
		synctest.Wait()
		c2, err := w.census()
		if err != nil {
			res.harness = err.Error()
			return
		}
		w.unchanged(res, tc, sigPath, c1, c2)
		if a2 := x.pool.allocated(); a2 != a1 {
			res.fail("C16/teardown/"+sigPath+"/second-changes-pool", "the second termination changed the pool: %d -> %d allocations", a1, a2)
		}
		if n2 := x.sm.Count(); n2 != n1 {
			res.fail("C16/teardown/"+sigPath+"/second-changes-entry", "the second termination changed the session table: %d -> %d", n1, n2)
		}
		if recs := rs.records(); len(recs) != r1 {
			res.fail("C16/teardown/"+sigPath+"/second-sends-acct", "the second termination sent accounting records: %v", recs[r1:])
		}
		x.mu.Lock()
		padt2 := x.padts
		x.mu.Unlock()
		if padt2 != padt1 {
			res.fail("C16/teardown/"+sigPath+"/second-sends-padt", "the second termination of a session that no longer exists sent %d PADT(s)", padt2-padt1)
		}
		if len(res.viol) == 0 {
			x.oracle(sigPath, pre0, pre, preAlloc)
		}
	case "stale":
		sp := secondPath(tc.Second)
		all := append([]*tdSess{x.me}, x.bg...)
		inList := func(ts *tdSess) bool { return tc.Path == "terminate-all" || ts.s.Username == x.me.user }
		x.gate.arm("padt", "*")
		x.allEnded = true // every session of the case is in the mass termination's list
		for _, ts := range all {
			if !inList(ts) {
				x.allEnded = false
			}
		}
		d1 := make(chan struct{})
		go func() { defer close(d1); x.massTerminate(tc.Path) }()
		select {
		case <-x.gate.parked:
		case <-d1:
			res.harness = "the mass termination sent no PADT at all"
			return
		}
		// the mass termination holds its snapshot and is busy with the first session of it; pick as victim the first
		// session (in harness order) of the list that it has not reached yet
		var victim *tdSess
		for _, ts := range all {
			if inList(ts) && ts.acct != x.gate.hitID {
				victim = ts
				break
			}
		}
		if victim == nil {
			res.classes = append(res.classes, "stale:single-session-list")
			x.gate.open()
			<-d1
			synctest.Wait()
			x.oracle("stale", pre0, pre, preAlloc)
			break
		}
		if victim == x.me {
			res.classes = append(res.classes, "stale:victim-is-test-session")
		} else {
			res.classes = append(res.classes, "stale:victim-is-background-session")
		}
		res.logf("  %s took its list and is busy with session %s; meanwhile session %d (%s) ends by %s", tc.Path, x.gate.hitID, victim.sid, victim.acct, sp)
		x.terminateOn(sp, victim)
		synctest.Wait()
		x.mu.Lock()
		padt1 := x.padtsFor[victim.acct]
		x.mu.Unlock()
		recs1 := 0
		for _, r := range rs.records() {
			if r.SID == victim.acct {
				recs1++
			}
		}
		if s := x.sm.GetSession(victim.sid); s != nil {
			res.fail("C16/teardown/"+sp+"/entry", "session %d is still in the session manager after %s (a mass termination was in progress on another session)", victim.sid, sp)
			x.gate.open()
			<-d1
			break
		}
		x.gate.open()
		<-d1
		synctest.Wait()
		res.classes = append(res.classes, "stale:reached")
		recs2 := 0
		for _, r := range rs.records() {
			if r.SID == victim.acct {
				recs2++
			}
		}
		if recs2 != recs1 {
			res.fail("C16/teardown/stale/second-sends-acct", "%s reached session %d through the reference it took before %s had ended it, and sent %d more accounting record(s) for %s; stream: %v", tc.Path, victim.sid, sp, recs2-recs1, victim.acct, rs.records())
		}
		x.mu.Lock()
		padt2 := x.padtsFor[victim.acct]
		x.mu.Unlock()
		if padt2 != padt1 && len(res.viol) == 0 {
			res.fail("C16/teardown/stale/padt-resent", "%s reached session %d through the reference it took before %s had ended it, and sent %d more PADT(s) for the ended session (a second termination sends nothing)", tc.Path, victim.sid, sp, padt2-padt1)
		}
		if len(res.viol) == 0 {
			x.oracle("stale", pre0, pre, preAlloc)
		}
	case "parked":
		sp := secondPath(tc.Second)
		x.gate.arm(tc.ParkAt, x.me.acct)
		d1 := make(chan struct{})
		go func() { defer close(d1); x.terminate(tc.Path) }()
		select {
		case <-x.gate.parked:
		case <-d1:
			// the first termination never reached the park point (e.g. no address to release at this prefix):
			// degenerate to a sequential double termination
			res.classes = append(res.classes, "parked:not-reached")
			x.terminate(sp)
			synctest.Wait()
			x.oracle("parked", pre0, pre, preAlloc)
			x.effectsOnce("parked")
			return
		}
		res.logf("  %s parked in %s; meanwhile %s", tc.Path, tc.ParkAt, sp)
		d2 := make(chan struct{})
		if sp == "client-padt" {
			// the PADT handler has looked the session up before the first termination removes it
			s := x.sm.GetSession(x.me.sid)
			go func() {
				defer close(d2)
				if s != nil {
					_ = x.td.HandleClientPADT(s, x.me.mac, x.me.sid)
				}
			}()
		} else {
			x.mu.Lock()
			x.secondMe = true
			x.mu.Unlock()
			go func() { defer close(d2); x.terminate(sp) }()
			select {
			case <-x.second: // the second termination holds the session and has sent its first PADT
			case <-d2:
			}
		}
		if tc.ParkAt == "padt" {
			// the parked goroutine holds no lock: let the second termination run to completion first
			<-d2
		}
		x.gate.open()
		<-d1
		<-d2
		synctest.Wait()
		res.classes = append(res.classes, "parked:at-"+tc.ParkAt)
		x.oracle("parked", pre0, pre, preAlloc)
		x.effectsOnce("parked")
	}

	if len(res.viol) > 0 || res.harness != "" {
		return
	}
	// drain probe on the real pool
	want := 0
	{
		// count what a fresh pool of this geometry hands out
		fresh, _ := pppoe.NewIPPool(ipn.String(), gw.String())
		for i := 0; ; i++ {
			if fresh.Allocate(fmt.Sprintf("count-%d", i)) == nil {
				break
			}
			want++
		}
	}
	alive := 0
	if !x.allEnded {
		alive = len(x.bg)
	}
	got := 0
	for i := 0; i < want+2; i++ {
		if real.Allocate(fmt.Sprintf("drain-%d", i)) == nil {
			break
		}
		got++
	}
	if got != want-alive {
		res.fail("C16/teardown/"+tc.Path+"/pool-drain", "drain probe: the pool handed out %d addresses, expected %d (capacity %d, %d sessions alive)", got, want-alive, want, alive)
	}
}

// effectsOnce records (as a class, not a verdict) whether the pool saw two Release calls for the session: the
// real pool ignores the second one and session ids are never reused, so a repeated call has no effect by itself.
// The effects that matter - Accounting-Stops, map entries, pool census - are decided by the oracle.
func (x *tdRun) effectsOnce(sigPath string) {
	x.pool.mu.Lock()
	n := x.pool.calls[x.me.acct]
	x.pool.mu.Unlock()
	if n > 1 {
		x.res.classes = append(x.res.classes, "parked:release-called-twice")
	}
}

func (x *tdRun) oracle(sigPath string, pre0, pre *census, preAlloc int) {
	tc, res := x.tc, x.res
	sig := func(r string) string { return "C16/teardown/" + sigPath + "/" + r }
	ended := map[string]bool{x.me.acct: true}
	base := pre
	wantAlloc := preAlloc
	if x.allEnded {
		for _, b := range x.bg {
			ended[b.acct] = true
		}
		base = pre0
		wantAlloc = 0
	}
	acctOracle(res, tc, x.rs.records(), func(r acctRec) bool { return ended[r.SID] }, sigPath)
	for _, b := range x.rs.problems() {
		res.harness = "scripted RADIUS server: " + b
	}
	if s := x.sm.GetSession(x.me.sid); s != nil {
		res.fail(sig("entry"), "session %d is still in the session manager (state %v)", x.me.sid, s.GetState())
	}
	if s := x.sm.GetSessionByMAC(x.me.mac); s != nil {
		res.fail(sig("entry"), "the MAC index still resolves %s to session %d", x.me.mac, s.ID)
	}
	if n := x.pool.allocated(); n != wantAlloc {
		res.fail(sig("pool"), "pool holds %d allocations, expected %d (session %s, address %v)", n, wantAlloc, x.me.acct, x.me.ip)
	}
	for _, b := range x.bg {
		if s := x.sm.GetSession(b.sid); (s != nil) == x.allEnded {
			if x.allEnded {
				res.fail(sig("entry"), "TerminateAll left session %d in the session manager", b.sid)
			} else {
				res.fail(sig("foreign-entry"), "background session %d disappeared", b.sid)
			}
		}
	}
	x.w.planeOracle(res, tc, sigPath, base, sessionIdent{MAC: x.me.mac, IP: x.me.ip})
}
