package c16

// Kind "pppoe": the real pppoe.Server wired as cmd/bng/main.go wires it - NewServer(cfg) plus
// SetRADIUSClient when RADIUS is enabled, and nothing else: main.go attaches neither NAT, QoS, the
// fast-path loader nor any accounting to PPPoE sessions, so what such a session holds is its entry in
// the session table (session id + MAC index) and, once authenticated, an address of the client pool.
// Frames are delivered at the entry points receiveLoop calls (verif hook, in-memory raw socket); the
// idle sweep is the server's real cleanupLoop goroutine (verif hook VerifC16CleanupLoop), its 30 s
// ticker running on virtual time.  pppoe.Server has no administrative terminate and no accounting; handlers run on the
// single receive goroutine, so "two at once" does not exist for it and only sequential double
// terminations are generated.
//
// establishment prefixes: padr (PADS sent), lcp (LCP opened, authentication phase), authed (PAP
// acknowledged, address allocated, IPCP started), established (IPCP acknowledged)
// paths: second-padr (the same MAC opens and uses a second session, the first is abandoned and reaped; then PADT of
// the second), padt, lcp-term, auth-fail (RADIUS rejects a PAP request; the closed session is reaped by the
// next idle sweep, after which the oracle runs), idle, shutdown (Server.Stop()).

import (
	"context"
	"encoding/binary"
	"fmt"
	"net"
	"sync"
	"testing"
	"testing/synctest"
	"time"

	"github.com/codelaboratoryltd/bng/pkg/pppoe"
)

const (
	etDiscovery = 0x8863
	etSession   = 0x8864

	codePADI = 0x09
	codePADO = 0x07
	codePADR = 0x19
	codePADS = 0x65
	codePADT = 0xA7

	tagServiceName = 0x0101
	tagHostUniq    = 0x0103
	tagACCookie    = 0x0104

	protoLCP  = 0xC021
	protoPAP  = 0xC023
	protoIPCP = 0x8021

	cpConfReq = 1
	cpConfAck = 2
	cpConfNak = 3
	cpTermReq = 5
	cpEchoReq = 9

	papReq = 1
	papAck = 2
	papNak = 3

	lcpOptMRU   = 1
	lcpOptMagic = 5

	ipcpOptAddress = 3
)

func pppoeHdr(code byte, sid uint16, payload []byte) []byte {
	b := make([]byte, 6+len(payload))
	b[0] = 0x11
	b[1] = code
	binary.BigEndian.PutUint16(b[2:4], sid)
	binary.BigEndian.PutUint16(b[4:6], uint16(len(payload)))
	copy(b[6:], payload)
	return b
}

func tag(t uint16, v []byte) []byte {
	b := make([]byte, 4+len(v))
	binary.BigEndian.PutUint16(b[0:2], t)
	binary.BigEndian.PutUint16(b[2:4], uint16(len(v)))
	copy(b[4:], v)
	return b
}

func cat(bs ...[]byte) []byte {
	var out []byte
	for _, b := range bs {
		out = append(out, b...)
	}
	return out
}

func pppFrame(sid uint16, proto uint16, body []byte) []byte {
	p := make([]byte, 2+len(body))
	binary.BigEndian.PutUint16(p[0:2], proto)
	copy(p[2:], body)
	return pppoeHdr(0x00, sid, p)
}

func cpPacket(code, id byte, data []byte) []byte {
	b := make([]byte, 4+len(data))
	b[0], b[1] = code, id
	binary.BigEndian.PutUint16(b[2:4], uint16(4+len(data)))
	copy(b[4:], data)
	return b
}

func opt(t byte, d []byte) []byte { return append([]byte{t, byte(2 + len(d))}, d...) }

func papRequest(id byte, user, pass string) []byte {
	d := cat([]byte{byte(len(user))}, []byte(user), []byte{byte(len(pass))}, []byte(pass))
	return cpPacket(papReq, id, d)
}

func findTag(b []byte, t uint16) []byte {
	for len(b) >= 4 {
		typ, l := binary.BigEndian.Uint16(b[0:2]), int(binary.BigEndian.Uint16(b[2:4]))
		if 4+l > len(b) {
			return nil
		}
		if typ == t {
			return append([]byte(nil), b[4:4+l]...)
		}
		b = b[4+l:]
	}
	return nil
}

type emitted struct {
	dst       [6]byte
	etherType uint16
	code      byte
	sid       uint16
	proto     uint16
	cpCode    byte
	cpID      byte
	cpData    []byte
	tags      []byte
	ok        bool
}

func parseEmitted(f pppoe.VerifFrame) emitted {
	var e emitted
	b := f.Frame
	if len(b) < 14+6 {
		return e
	}
	copy(e.dst[:], b[0:6])
	e.etherType = binary.BigEndian.Uint16(b[12:14])
	e.code = b[15]
	e.sid = binary.BigEndian.Uint16(b[16:18])
	l := int(binary.BigEndian.Uint16(b[18:20]))
	p := b[20:]
	if l < len(p) {
		p = p[:l]
	}
	e.ok = true
	if e.etherType == etDiscovery {
		e.tags = p
	}
	if e.etherType == etSession && len(p) >= 2 {
		e.proto = binary.BigEndian.Uint16(p[0:2])
		if len(p) >= 6 {
			e.cpCode, e.cpID = p[2], p[3]
			e.cpData = p[6:]
		}
	}
	return e
}

type pppSink struct {
	mu  sync.Mutex
	out []pppoe.VerifFrame
	n   int
}

func (s *pppSink) put(f pppoe.VerifFrame) {
	s.mu.Lock()
	s.out = append(s.out, f)
	s.n++
	s.mu.Unlock()
}
func (s *pppSink) drain() []emitted {
	s.mu.Lock()
	o := s.out
	s.out = nil
	s.mu.Unlock()
	es := make([]emitted, 0, len(o))
	for _, f := range o {
		es = append(es, parseEmitted(f))
	}
	return es
}
func (s *pppSink) count() int {
	s.mu.Lock()
	defer s.mu.Unlock()
	return s.n
}

var pppoePaths = []string{"padt", "lcp-term", "auth-fail", "idle", "shutdown", "second-padr"}

var pppoePrefixes = map[string][]string{
	"padt":      {"padr", "lcp", "authed", "established"},
	"lcp-term":  {"padr", "lcp", "authed", "established"},
	"auth-fail": {"lcp", "authed", "established"},
	"idle":      {"padr", "lcp", "authed", "established"},
	"shutdown":  {"authed", "established"},
	// superseded family: the same MAC opens a second session (pppoe.Server allows several sessions per MAC, RFC 2516),
	// abandons the first one and keeps using the second
	"second-padr": {"padr", "lcp", "authed", "established"},
}

func pppoeCells() []cellSpec {
	var out []cellSpec
	for _, p := range pppoePaths {
		for _, pre := range pppoePrefixes[p] {
			seconds := []string{"none", "seq:padt", "seq:lcp-term", "seq:idle"}
			if p == "shutdown" {
				seconds = []string{"none", "seq:shutdown"}
			}
			for _, s := range seconds {
				out = append(out, cellSpec{Kind: "pppoe", Path: p, Prefix: pre, Second: s})
			}
		}
	}
	return out
}

func genPPPoE(s src, c cellSpec, base *params) *tcase {
	tc := &tcase{Kind: c.Kind, Path: c.Path, Prefix: c.Prefix, Second: c.Second}
	if base != nil {
		tc.P = *base
	} else {
		genCommon(s, &tc.P)
	}
	tc.P.QoS, tc.P.NAT, tc.P.Policies = false, false, false // never attached to PPPoE sessions by main.go
	tc.P.RadiusAuth = false
	if c.Path == "auth-fail" {
		tc.P.Radius = true
	}
	// --pppoe-session-timeout: main.go's default is 30 min; 0 makes cleanupLoop fall back to 5 min
	tc.P.IdleS = pick(s, "idle", []int{0, 30, 300, 1800})
	return tc
}

type pppSess struct {
	mac     net.HardwareAddr
	sid     uint16
	acctSID string
	ip      net.IP
	user    string
	papID   byte
}

type pppRun struct {
	tc   *tcase
	res  *result
	rs   *radServer
	srv  *pppoe.Server
	sink *pppSink
	me   *pppSess
	bg   []*pppSess
	succ *pppSess // superseded family: the second session of the same MAC while it is alive
}

func (x *pppRun) timeout() time.Duration {
	// the computation of cleanupLoop
	t := time.Duration(x.tc.P.IdleS) * time.Second
	if t == 0 {
		t = 5 * time.Minute
	}
	return t
}

// establish drives the dialogue up to the given prefix.
func (x *pppRun) establish(s *pppSess, upto string) bool {
	res := x.res
	x.sink.drain()
	x.srv.VerifHandleDiscovery(s.mac, pppoeHdr(codePADI, 0, cat(tag(tagServiceName, nil), tag(tagHostUniq, []byte{1, 2, 3, 4}))))
	var cookie []byte
	for _, e := range x.sink.drain() {
		if e.ok && e.etherType == etDiscovery && e.code == codePADO {
			cookie = findTag(e.tags, tagACCookie)
		}
	}
	if cookie == nil {
		res.harness = "no PADO"
		return false
	}
	x.srv.VerifHandleDiscovery(s.mac, pppoeHdr(codePADR, 0, cat(tag(tagServiceName, nil), tag(tagACCookie, cookie))))
	synctest.Wait() // go startLCPNegotiation
	var srvLCPID byte
	gotPADS := false
	for _, e := range x.sink.drain() {
		if e.ok && e.etherType == etDiscovery && e.code == codePADS {
			s.sid = e.sid
			gotPADS = true
		}
		if e.ok && e.etherType == etSession && e.proto == protoLCP && e.cpCode == cpConfReq {
			srvLCPID = e.cpID
		}
	}
	if !gotPADS {
		res.harness = "no PADS"
		return false
	}
	if vs, ok := x.srv.VerifSession(s.sid); ok {
		s.acctSID = vs.AcctSessionID
	}
	if upto == "padr" {
		return true
	}
	x.srv.VerifHandleSession(s.mac, pppFrame(s.sid, protoLCP, cpPacket(cpConfReq, 1, cat(opt(lcpOptMRU, []byte{0x05, 0xd4}), opt(lcpOptMagic, []byte{1, 2, 3, byte(s.sid)})))))
	x.srv.VerifHandleSession(s.mac, pppFrame(s.sid, protoLCP, cpPacket(cpConfAck, srvLCPID, nil)))
	x.sink.drain()
	if upto == "lcp" {
		return true
	}
	s.papID++
	x.srv.VerifHandleSession(s.mac, pppFrame(s.sid, protoPAP, papRequest(s.papID, s.user, x.tc.P.Pass)))
	synctest.Wait()
	acked := false
	var srvIPCPID byte
	for _, e := range x.sink.drain() {
		if e.ok && e.proto == protoPAP && e.cpCode == papAck {
			acked = true
		}
		if e.ok && e.proto == protoIPCP && e.cpCode == cpConfReq {
			srvIPCPID = e.cpID
		}
	}
	if !acked {
		res.harness = "PAP request was not acknowledged during establishment"
		return false
	}
	if vs, ok := x.srv.VerifSession(s.sid); ok {
		s.ip = vs.ClientIP
	}
	if upto == "authed" {
		return true
	}
	x.srv.VerifHandleSession(s.mac, pppFrame(s.sid, protoIPCP, cpPacket(cpConfReq, 1, opt(ipcpOptAddress, []byte{0, 0, 0, 0}))))
	x.srv.VerifHandleSession(s.mac, pppFrame(s.sid, protoIPCP, cpPacket(cpConfAck, srvIPCPID, opt(ipcpOptAddress, []byte{0, 0, 0, 0}))))
	x.sink.drain()
	if vs, ok := x.srv.VerifSession(s.sid); !ok || vs.State != pppoe.StateEstablished {
		res.harness = "session did not reach Established"
		return false
	}
	return true
}

// keepalive: background peers send an LCP Echo-Request, which refreshes their activity stamp.
func (x *pppRun) keepalive() {
	for _, b := range x.bg {
		x.srv.VerifHandleSession(b.mac, pppFrame(b.sid, protoLCP, cpPacket(cpEchoReq, 9, []byte{0, 0, 0, 0})))
	}
	if x.succ != nil {
		x.srv.VerifHandleSession(x.succ.mac, pppFrame(x.succ.sid, protoLCP, cpPacket(cpEchoReq, 9, []byte{0, 0, 0, 0})))
	}
	x.sink.drain()
}

// idleSweep lets virtual time run until the server's own cleanup loop (30 s ticker) has had a tick after the
// silent session's idle timeout ran out; the background peers keep talking all the while.
func (x *pppRun) idleSweep() {
	to := x.timeout()
	before := len(x.srv.VerifSessions())
	step := 10 * time.Second
	for el := time.Duration(0); el < to+31*time.Second; el += step {
		time.Sleep(step)
		x.keepalive()
	}
	synctest.Wait()
	x.res.logf("    %s of silence: the cleanup loop removed %d session(s)", to+31*time.Second, before-len(x.srv.VerifSessions()))
}

func (x *pppRun) terminate(path string) {
	s := x.me
	switch path {
	case "padt":
		x.res.logf("  PADT sid=%d", s.sid)
		x.srv.VerifHandleDiscovery(s.mac, pppoeHdr(codePADT, s.sid, nil))
	case "lcp-term":
		x.res.logf("  LCP Terminate-Request sid=%d", s.sid)
		x.srv.VerifHandleSession(s.mac, pppFrame(s.sid, protoLCP, cpPacket(cpTermReq, 7, nil)))
	case "auth-fail":
		x.rs.setAuth(s.user, authScript{Accept: false})
		s.papID++
		x.srv.VerifHandleSession(s.mac, pppFrame(s.sid, protoPAP, papRequest(s.papID, s.user, "wrong")))
		synctest.Wait()
		nak := false
		for _, e := range x.sink.drain() {
			if e.ok && e.proto == protoPAP && e.cpCode == papNak {
				nak = true
			}
		}
		x.res.logf("  PAP request rejected by RADIUS (Nak=%v); closed session is left to the idle sweep", nak)
		if !nak {
			x.res.harness = "PAP request was not refused although RADIUS rejects"
			return
		}
		x.idleSweep()
	case "idle":
		x.res.logf("  peer goes silent")
		x.idleSweep()
	case "second-padr":
		// the client reconnects without a PADT: PADI/PADR from the same MAC, a second session is established and
		// used; the first one is abandoned and must go - with its address - when its idle time is up
		s2 := &pppSess{mac: s.mac, user: s.user}
		if !x.establish(s2, "established") {
			if x.res.harness == "" {
				x.res.harness = "second session of the same MAC was not established"
			}
			return
		}
		x.succ = s2
		x.res.logf("  second PADR from %s: session %d (%v) next to session %d", s.mac, s2.sid, s2.ip, s.sid)
		x.idleSweep()
		pool := x.srv.VerifPool()
		if _, ok := x.srv.VerifSession(s.sid); ok {
			x.res.fail("C16/pppoe/second-padr/entry", "the abandoned first session %d is still in the table after its idle time", s.sid)
		}
		if ip, ok := pool.Allocated[s.acctSID]; ok {
			x.res.fail("C16/pppoe/second-padr/pool", "the abandoned first session %d still holds %s", s.sid, ip)
		}
		if _, ok := x.srv.VerifSession(s2.sid); !ok {
			x.res.fail("C16/pppoe/second-padr/successor-entry", "ending the abandoned session %d took the client's live session %d with it", s.sid, s2.sid)
		} else if _, ok := pool.Allocated[s2.acctSID]; !ok {
			x.res.fail("C16/pppoe/second-padr/successor-pool", "ending the abandoned session %d released the address of the client's live session %d", s.sid, s2.sid)
		}
		if len(x.res.viol) > 0 {
			return
		}
		x.res.logf("  PADT sid=%d (the second session)", s2.sid)
		x.srv.VerifHandleDiscovery(s2.mac, pppoeHdr(codePADT, s2.sid, nil))
		x.succ = nil
		if ip, ok := x.srv.VerifPool().Allocated[s2.acctSID]; ok {
			x.res.fail("C16/pppoe/second-padr/successor-pool", "PADT of the second session %d left %s allocated", s2.sid, ip)
		}
	case "shutdown":
		x.res.logf("  Server.Stop()")
		_ = x.srv.Stop()
	}
	synctest.Wait()
}

type pppSnap struct {
	sessions []pppoe.VerifSession
	pool     pppoe.VerifPool
	frames   int
	recs     int
}

func (x *pppRun) snap() pppSnap {
	return pppSnap{sessions: x.srv.VerifSessions(), pool: x.srv.VerifPool(), frames: x.sink.count(), recs: len(x.rs.records())}
}

func runPPPoE(t testing.TB, tc *tcase) *result {
	rs := scriptedRadius(t)
	res := &result{}
	synctest.Test(t.(*testing.T), func(t *testing.T) {
		runPPPoEInBubble(tc, rs, res)
	})
	return res
}

func runPPPoEInBubble(tc *tcase, rs *radServer, res *result) {
	p := &tc.P
	rs.reset()
	x := &pppRun{tc: tc, res: res, rs: rs, sink: &pppSink{}}
	serverMAC := net.HardwareAddr{0x02, 0xAC, 0x00, 0x00, 0x00, 0x01}
	network := fmt.Sprintf("10.%d.%d.0/%d", p.Net, p.Net3&^0x3f, p.PoolBits)
	_, ipn, err := net.ParseCIDR(network)
	if err != nil {
		res.harness = err.Error()
		return
	}
	base := ipn.IP.To4()
	gw := net.IPv4(base[0], base[1], base[2], base[3]+1).To4()
	srv, err := pppoe.VerifNewServer(pppoe.ServerConfig{
		ACName: "BNG-AC", ServiceName: "internet", ServerIP: gw.String(), ClientPool: ipn.String(), PoolGateway: gw.String(),
		PrimaryDNS: "192.0.2.53", AuthType: "pap", SessionTimeout: time.Duration(p.IdleS) * time.Second, MRU: 1492,
	}, "lo", serverMAC, x.sink.put)
	if err != nil {
		res.harness = err.Error()
		return
	}
	x.srv = srv
	if p.Radius {
		c, err := newRadiusClient(rs)
		if err != nil {
			res.harness = err.Error()
			return
		}
		srv.SetRADIUSClient(c)
	}
	// what Start launches besides the receive loop: the real cleanup loop, on virtual time
	ctx, cancel := context.WithCancel(context.Background())
	loopDone := make(chan struct{})
	go func() { defer close(loopDone); srv.VerifC16CleanupLoop(ctx) }()
	defer func() { cancel(); <-loopDone }()
	for i, m := range p.BgMACs {
		b := &pppSess{mac: net.HardwareAddr(m), user: fmt.Sprintf("bg%d", i)}
		if !x.establish(b, "established") {
			if res.harness == "" {
				res.harness = "background session not established"
			}
			return
		}
		x.bg = append(x.bg, b)
	}
	prePool := srv.VerifPool()
	preSessions := len(srv.VerifSessions())
	res.logf("before: sessions=%d pool.allocated=%d available=%d", preSessions, len(prePool.Allocated), len(prePool.Available))

	x.me = &pppSess{mac: net.HardwareAddr(p.MAC), user: p.User}
	if !x.establish(x.me, tc.Prefix) {
		if res.harness == "" {
			res.harness = "session not established"
		}
		return
	}
	x.keepalive()
	if _, ok := srv.VerifSession(x.me.sid); ok {
		res.hold("entry")
	}
	if _, ok := srv.VerifPool().Allocated[x.me.acctSID]; ok {
		res.hold("pool")
	}
	res.logf("  established to %q: sid=%d acct-sid=%s ip=%v holds %v", tc.Prefix, x.me.sid, x.me.acctSID, x.me.ip, res.held)

	x.terminate(tc.Path)
	if res.harness != "" {
		return
	}
	x.oracle(tc.Path, prePool, preSessions)
	if len(res.viol) > 0 || res.harness != "" {
		return
	}
	if tc.Second != "none" {
		sp := secondPath(tc.Second)
		sigPath := tc.Path + "+" + sp
		s1 := x.snap()
		x.terminate(sp)
		if res.harness != "" {
			return
		}
		s2 := x.snap()
		if len(s1.sessions) != len(s2.sessions) {
			res.fail("C16/pppoe/"+sigPath+"/second-changes-entry", "the second termination changed the session table: %d -> %d sessions", len(s1.sessions), len(s2.sessions))
		}
		if len(s1.pool.Allocated) != len(s2.pool.Allocated) || len(s1.pool.Available) != len(s2.pool.Available) {
			res.fail("C16/pppoe/"+sigPath+"/second-changes-pool", "the second termination changed the pool: allocated %d->%d available %d->%d",
				len(s1.pool.Allocated), len(s2.pool.Allocated), len(s1.pool.Available), len(s2.pool.Available))
		}
		if s2.recs != s1.recs {
			res.fail("C16/pppoe/"+sigPath+"/second-sends-acct", "the second termination sent accounting records")
		}
		if sp != "idle" && s2.frames != s1.frames {
			// (during an idle sweep the background peers' keep-alives are answered)
			res.fail("C16/pppoe/"+sigPath+"/second-sends-frames", "the second termination of a session that no longer exists made the server emit %d frame(s)", s2.frames-s1.frames)
		}
		if len(res.viol) > 0 {
			return
		}
		x.oracle(sigPath, prePool, preSessions)
	}
}

func (x *pppRun) oracle(sigPath string, prePool pppoe.VerifPool, preSessions int) {
	tc, res := x.tc, x.res
	sig := func(r string) string { return "C16/pppoe/" + sigPath + "/" + r }
	// pppoe.Server sends no accounting at all: nothing may appear, whatever the path
	acctOracle(res, tc, x.rs.records(), func(acctRec) bool { return true }, sigPath)
	if firstPath(sigPath) == "shutdown" {
		// the process ends: only what outlives it (RADIUS records) is demanded
		return
	}
	if vs, ok := x.srv.VerifSession(x.me.sid); ok {
		res.fail(sig("entry"), "session %d (%s, state %v) is still in the session table after it ended", vs.ID, vs.ClientMAC, vs.State)
	}
	for _, vs := range x.srv.VerifSessions() {
		if vs.ClientMAC.String() == x.me.mac.String() {
			res.fail(sig("entry"), "the session table still has session %d for MAC %s", vs.ID, vs.ClientMAC)
		}
	}
	pool := x.srv.VerifPool()
	if ip, ok := pool.Allocated[x.me.acctSID]; ok {
		res.fail(sig("pool"), "client pool still has %s allocated to the ended session %d (%s)", ip, x.me.sid, x.me.acctSID)
	} else if len(pool.Available) != len(prePool.Available) {
		res.fail(sig("pool"), "client pool has %d free addresses, %d before the session was created", len(pool.Available), len(prePool.Available))
	}
	for _, b := range x.bg {
		if _, ok := x.srv.VerifSession(b.sid); !ok {
			res.fail(sig("foreign-entry"), "background session %d disappeared", b.sid)
		}
		if _, ok := pool.Allocated[b.acctSID]; !ok {
			res.fail(sig("foreign-pool"), "background session %d lost its address", b.sid)
		}
	}
}

func firstPath(sigPath string) string {
	for i := 0; i < len(sigPath); i++ {
		if sigPath[i] == '+' {
			return sigPath[:i]
		}
	}
	return sigPath
}
