package c16

// The resource plane every session kind attaches to: a real ebpf.Loader, nat.Manager and qos.Manager
// whose tables are REAL kernel maps (created per case, injected through the verif hooks, closed when
// the case ends), plus the radius.PolicyManager main.go hands to dhcp.Server and qos.Manager.
//
// Map value sizes are taken from the Go types the managers marshal (binary.Size), so that every Put
// the managers issue succeeds whatever the state of the layout fixes (C06's subject, not ours).
// The census reads the maps back as raw keys: it does not depend on how a manager derives a key.

import (
	"encoding/binary"
	"encoding/hex"
	"fmt"
	"net"
	"sort"
	"strings"

	cebpf "github.com/cilium/ebpf"
	"github.com/codelaboratoryltd/bng/pkg/ebpf"
	"github.com/codelaboratoryltd/bng/pkg/nat"
	"github.com/codelaboratoryltd/bng/pkg/qos"
	bngradius "github.com/codelaboratoryltd/bng/pkg/radius"
	"go.uber.org/zap"
)

type world struct {
	maps   map[string]*cebpf.Map
	loader *ebpf.Loader
	nat    *nat.Manager // nil when the case runs without NAT
	qos    *qos.Manager // nil when the case runs without QoS
	policy *bngradius.PolicyManager
	pubIPs []net.IP
}

// session maps: every table in which a session may leave an entry
var sessionMaps = []string{"subscriber_pools", "vlan_subscriber_pools", "circuit_id_map", "circuit_id_subscribers", "subscriber_nat", "qos_egress", "qos_ingress"}

func newHash(name string, key, val int) (*cebpf.Map, error) {
	n := name
	if len(n) > 15 {
		n = n[:15]
	}
	return cebpf.NewMap(&cebpf.MapSpec{Name: n, Type: cebpf.Hash, KeySize: uint32(key), ValueSize: uint32(val), MaxEntries: 64})
}

func newWorld(p *params) (*world, error) {
	w := &world{maps: map[string]*cebpf.Map{}}
	ok := false
	defer func() {
		if !ok {
			w.close()
		}
	}()
	pa := binary.Size(ebpf.PoolAssignment{})
	specs := []struct {
		name     string
		key, val int
	}{
		{"subscriber_pools", 8, pa},
		{"vlan_subscriber_pools", binary.Size(ebpf.VLANKey{}), pa},
		{"ip_pools", 4, binary.Size(ebpf.IPPool{})},
		{"circuit_id_map", 8, 8},
		{"circuit_id_subscribers", ebpf.CircuitIDKeyLen, pa},
		{"subscriber_nat", 4, binary.Size(nat.SubscriberNAT{})},
		{"qos_egress", 4, binary.Size(qos.TokenBucket{})},
		{"qos_ingress", 4, binary.Size(qos.TokenBucket{})},
	}
	for _, s := range specs {
		if s.key <= 0 || s.val <= 0 {
			return nil, fmt.Errorf("map %s: cannot size key/value from the Go type", s.name)
		}
		m, err := newHash(s.name, s.key, s.val)
		if err != nil {
			return nil, fmt.Errorf("kernel map %s: %w", s.name, err)
		}
		w.maps[s.name] = m
	}
	logger := zap.NewNop()
	loader, err := ebpf.NewLoader("lo", logger)
	if err != nil {
		return nil, err
	}
	loader.VerifC06SetMaps(map[string]*cebpf.Map{
		"subscriber_pools": w.maps["subscriber_pools"], "vlan_subscriber_pools": w.maps["vlan_subscriber_pools"],
		"ip_pools": w.maps["ip_pools"], "circuit_id_map": w.maps["circuit_id_map"], "circuit_id_subscribers": w.maps["circuit_id_subscribers"],
	})
	w.loader = loader

	// main.go: policyMgr = radius.NewPolicyManager() - and nothing ever adds a policy to it
	w.policy = bngradius.NewPolicyManager()
	if p.Policies {
		w.policy.LoadDefaultPolicies()
	}
	if p.QoS {
		qm, err := qos.NewManager(qos.ManagerConfig{Interface: "lo"}, w.policy, logger)
		if err != nil {
			return nil, err
		}
		qm.VerifC06SetMaps(map[string]*cebpf.Map{"qos_egress": w.maps["qos_egress"], "qos_ingress": w.maps["qos_ingress"]})
		w.qos = qm
	}
	if p.NAT {
		nm, err := nat.NewManager(nat.ManagerConfig{Interface: "lo", PortsPerSubscriber: p.NATPorts}, logger)
		if err != nil {
			return nil, err
		}
		nm.VerifC06SetMaps(map[string]*cebpf.Map{"subscriber_nat": w.maps["subscriber_nat"]})
		for i := 0; i < p.NATIPs; i++ {
			ip := net.IPv4(203, 0, 113, byte(10+i)).To4()
			if err := nm.AddPublicIP(ip); err != nil {
				return nil, err
			}
			w.pubIPs = append(w.pubIPs, ip)
		}
		w.nat = nm
	}
	ok = true
	return w, nil
}

func (w *world) close() {
	for _, m := range w.maps {
		m.Close()
	}
}

// rawKeys returns the keys of a kernel map as sorted hex strings.
func rawKeys(m *cebpf.Map) ([]string, error) {
	var out []string
	var cur []byte
	for i := 0; i <= int(m.MaxEntries())+1; i++ {
		var next []byte
		var err error
		if cur == nil {
			next, err = m.NextKeyBytes(nil)
		} else {
			next, err = m.NextKeyBytes(cur)
		}
		if err != nil {
			return nil, err
		}
		if next == nil {
			break
		}
		cur = next
		out = append(out, hex.EncodeToString(cur))
	}
	sort.Strings(out)
	return out, nil
}

// census is a snapshot of everything the resource plane holds.
type census struct {
	Maps     map[string][]string // map name -> sorted raw keys
	NATCount int                 // nat.Manager.GetAllocationCount
	NATSubs  []int               // per public IP: PoolEntry.Subscribers
	QoSCount int                 // qos.Manager.GetSubscriberCount
}

func (w *world) census() (*census, error) {
	c := &census{Maps: map[string][]string{}}
	for _, n := range sessionMaps {
		ks, err := rawKeys(w.maps[n])
		if err != nil {
			return nil, fmt.Errorf("iterate %s: %w", n, err)
		}
		c.Maps[n] = ks
	}
	if w.nat != nil {
		c.NATCount = w.nat.GetAllocationCount()
		for _, e := range w.nat.GetPoolStats() {
			c.NATSubs = append(c.NATSubs, e.Subscribers)
		}
	}
	if w.qos != nil {
		c.QoSCount = w.qos.GetSubscriberCount()
	}
	return c, nil
}

func (c *census) String() string {
	var b strings.Builder
	for _, n := range sessionMaps {
		fmt.Fprintf(&b, "%s=%d ", n, len(c.Maps[n]))
	}
	fmt.Fprintf(&b, "nat.allocs=%d nat.subs=%v qos.subs=%d", c.NATCount, c.NATSubs, c.QoSCount)
	return b.String()
}

func equalStrings(a, b []string) bool {
	if len(a) != len(b) {
		return false
	}
	for i := range a {
		if a[i] != b[i] {
			return false
		}
	}
	return true
}

func diffKeys(pre, post []string) (extra, missing []string) {
	in := map[string]bool{}
	for _, k := range pre {
		in[k] = true
	}
	seen := map[string]bool{}
	for _, k := range post {
		seen[k] = true
		if !in[k] {
			extra = append(extra, k)
		}
	}
	for _, k := range pre {
		if !seen[k] {
			missing = append(missing, k)
		}
	}
	return
}

// resource names used in signatures
var mapResource = map[string]string{
	"subscriber_pools":       "cache-mac",
	"vlan_subscriber_pools":  "cache-vlan",
	"circuit_id_map":         "cache-circuit-id",
	"circuit_id_subscribers": "cache-circuit-id",
	"subscriber_nat":         "nat",
	"qos_egress":             "qos",
	"qos_ingress":            "qos",
}

// sessionIdent is what the plane-level oracle needs to know about the terminated session.
type sessionIdent struct {
	MAC       net.HardwareAddr
	IP        net.IP // nil if the session never got an address
	Cid       []byte
	STag      uint16
	CTag      uint16
	HasVLAN   bool
	Lifetimes string
}

// planeOracle decides clauses (2) and (3) of the statement for one terminated session: compared with the
// census taken before the session was established nothing may remain, and the lookups the fast path /
// the managers offer for this session's identifiers must not answer.  sigPath is the path component of
// the signatures it raises ("release", "release+decline", "parked", ...).
func (w *world) planeOracle(res *result, tc *tcase, sigPath string, pre *census, id sessionIdent) {
	post, err := w.census()
	if err != nil {
		res.harness = err.Error()
		return
	}
	sig := func(resource string) string { return "C16/" + tc.sigKind() + "/" + sigPath + "/" + resource }
	reported := map[string]bool{}
	for _, n := range sessionMaps {
		extra, missing := diffKeys(pre.Maps[n], post.Maps[n])
		r := mapResource[n]
		if len(extra) > 0 && !reported[r] {
			reported[r] = true
			res.fail(sig(r), "kernel map %s still holds %d entr(y/ies) that did not exist before the session was established: keys %v (session mac=%s ip=%v cid=%x)", n, len(extra), extra, id.MAC, id.IP, id.Cid)
		}
		if len(missing) > 0 {
			res.fail(sig("foreign-"+r), "kernel map %s lost %d entr(y/ies) of OTHER sessions: keys %v", n, len(missing), missing)
		}
	}
	// lookups by the session's own identifiers
	if id.MAC != nil {
		if a, err := w.loader.GetSubscriber(ebpf.MACToUint64(id.MAC)); err == nil && a != nil && !reported["cache-mac"] {
			reported["cache-mac"] = true
			res.fail(sig("cache-mac"), "fast-path cache still answers for MAC %s after the session ended: %+v", id.MAC, *a)
		}
	}
	if len(id.Cid) > 0 {
		if m, err := w.loader.GetCircuitIDMapping(id.Cid); err == nil && !reported["cache-circuit-id"] {
			reported["cache-circuit-id"] = true
			res.fail(sig("cache-circuit-id"), "circuit_id_map still maps circuit-id %x to MAC %012x after the session ended", id.Cid, m)
		}
		if len(id.Cid) <= ebpf.CircuitIDKeyLen {
			if a, err := w.loader.GetCircuitIDSubscriber(id.Cid); err == nil && a != nil && !reported["cache-circuit-id"] {
				reported["cache-circuit-id"] = true
				res.fail(sig("cache-circuit-id"), "circuit_id_subscribers still answers for circuit-id %x after the session ended: %+v", id.Cid, *a)
			}
		}
	}
	if id.HasVLAN {
		if a, err := w.loader.GetVLANSubscriber(id.STag, id.CTag); err == nil && a != nil && !reported["cache-vlan"] {
			reported["cache-vlan"] = true
			res.fail(sig("cache-vlan"), "vlan_subscriber_pools still answers for S-tag %d / C-tag %d after the session ended: %+v", id.STag, id.CTag, *a)
		}
	}
	if w.nat != nil {
		if id.IP != nil {
			if a := w.nat.GetAllocation(id.IP); a != nil && !reported["nat"] {
				reported["nat"] = true
				res.fail(sig("nat"), "nat.Manager still holds port block %s:%d-%d for %s after the session ended", a.PublicIP, a.PortStart, a.PortEnd, id.IP)
			}
		}
		if post.NATCount != pre.NATCount && !reported["nat"] {
			reported["nat"] = true
			res.fail(sig("nat"), "nat.Manager allocation count %d, before the session %d", post.NATCount, pre.NATCount)
		}
		if fmt.Sprint(post.NATSubs) != fmt.Sprint(pre.NATSubs) && !reported["nat"] {
			reported["nat"] = true
			res.fail(sig("nat"), "nat public-IP occupancy %v, before the session %v", post.NATSubs, pre.NATSubs)
		}
	}
	if w.qos != nil && post.QoSCount != pre.QoSCount && !reported["qos"] {
		reported["qos"] = true
		res.fail(sig("qos"), "qos.Manager holds %d subscriber policies, before the session %d (session ip=%v)", post.QoSCount, pre.QoSCount, id.IP)
	}
}

// planeHeld adds to res.held the resource kinds of the plane that the session holds right now
// (difference against the pre-establishment census).
func (w *world) planeHeld(res *result, pre *census) {
	now, err := w.census()
	if err != nil {
		res.harness = err.Error()
		return
	}
	for _, n := range sessionMaps {
		if extra, _ := diffKeys(pre.Maps[n], now.Maps[n]); len(extra) > 0 {
			res.hold(mapResource[n])
		}
	}
	if now.NATCount > pre.NATCount {
		res.hold("nat")
	}
	if now.QoSCount > pre.QoSCount {
		res.hold("qos")
	}
}

// unchanged compares two censuses (second-termination clause: "changes nothing").
func (w *world) unchanged(res *result, tc *tcase, sigPath string, a, b *census) {
	for _, n := range sessionMaps {
		if !equalStrings(a.Maps[n], b.Maps[n]) {
			res.fail("C16/"+tc.sigKind()+"/"+sigPath+"/second-changes-"+mapResource[n], "the second termination changed kernel map %s: %v -> %v", n, a.Maps[n], b.Maps[n])
		}
	}
	if a.NATCount != b.NATCount || fmt.Sprint(a.NATSubs) != fmt.Sprint(b.NATSubs) {
		res.fail("C16/"+tc.sigKind()+"/"+sigPath+"/second-changes-nat", "the second termination changed NAT state: %d %v -> %d %v", a.NATCount, a.NATSubs, b.NATCount, b.NATSubs)
	}
	if a.QoSCount != b.QoSCount {
		res.fail("C16/"+tc.sigKind()+"/"+sigPath+"/second-changes-qos", "the second termination changed the QoS subscriber count: %d -> %d", a.QoSCount, b.QoSCount)
	}
}
