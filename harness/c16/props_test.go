package c16

import (
	"fmt"
	"sort"
	"testing"

	"pgregory.net/rapid"

	"bngverif/internal/vstat"
)

func genFor(c cellSpec) func(src, cellSpec, *params) *tcase {
	switch c.Kind {
	case "dhcp", "dhcp-relay":
		return genDHCP
	case "pppoe":
		return genPPPoE
	case "teardown":
		return genTeardown
	case "submgr":
		return genSubMgr
	}
	return nil
}

// faultCells: every kind x the release operations a harness-owned fake (or harness-owned kernel map / RADIUS server)
// can make fail once.  pppoe.Server has no fallible release operation (its pool's Release returns nothing, main.go
// attaches nothing else), so it has no fault cells.
func faultCells() []cellSpec {
	var out []cellSpec
	out = append(out, dhcpFaultCells("dhcp")...)
	out = append(out, dhcpFaultCells("dhcp-relay")...)
	out = append(out, teardownFaultCells()...)
	out = append(out, submgrFaultCells()...)
	return out
}

// allCells is the enumerated product {kind} x {path} x {prefix} x {second termination (+ park point)}.
func allCells() []cellSpec {
	var out []cellSpec
	out = append(out, dhcpCells("dhcp")...)
	out = append(out, dhcpCells("dhcp-relay")...)
	out = append(out, pppoeCells()...)
	out = append(out, teardownCells(false)...)
	out = append(out, teardownCells(true)...)
	out = append(out, teardownStaleCells()...)
	out = append(out, submgrCells(false)...)
	out = append(out, submgrCells(true)...)
	out = append(out, submgrStaleCells()...)
	out = append(out, faultCells()...)
	return out
}

// drawCase draws the common parameters first and lets them (hashed) rotate the drawn cell index: rapid's integer
// generators favour small values, so a bare index would pile the cases onto the first cells of the list; mixed
// with ~30 other draws the choice is close to uniform and still a pure function of the drawn data (replayable).
func drawCase(rt *rapid.T, cells []cellSpec) *tcase {
	var base params
	s := rapidSrc{rt}
	genCommon(s, &base)
	idx := (uint64(rapid.IntRange(0, len(cells)-1).Draw(rt, "cell")) + vstat.Hash(jsonOf(base))) % uint64(len(cells))
	c := cells[idx]
	return genFor(c)(s, c, &base)
}

func propRandom(t *testing.T, name string, cells []cellSpec, q, th int) {
	vstat.Checks(q, th)
	rapid.Check(t, func(rt *rapid.T) {
		check(t, rt, drawCase(rt, cells))
	})
	noteCells(name)
}

func TestPropDHCPDirect(t *testing.T) {
	propRandom(t, "TestPropDHCPDirect", dhcpCells("dhcp"), 1000, 20000)
}
func TestPropDHCPRelay(t *testing.T) {
	propRandom(t, "TestPropDHCPRelay", dhcpCells("dhcp-relay"), 1000, 20000)
}
func TestPropPPPoEServer(t *testing.T) {
	propRandom(t, "TestPropPPPoEServer", pppoeCells(), 1500, 30000)
}
func TestPropTeardown(t *testing.T) {
	propRandom(t, "TestPropTeardown", teardownCells(false), 1200, 24000)
}
func TestPropTeardownParked(t *testing.T) {
	propRandom(t, "TestPropTeardownParked", teardownCells(true), 1200, 24000)
}
func TestPropTeardownStale(t *testing.T) {
	propRandom(t, "TestPropTeardownStale", teardownStaleCells(), 600, 12000)
}
func TestPropSubMgr(t *testing.T) { propRandom(t, "TestPropSubMgr", submgrCells(false), 800, 16000) }
func TestPropSubMgrParked(t *testing.T) {
	propRandom(t, "TestPropSubMgrParked", submgrCells(true), 500, 10000)
}

func TestPropFaults(t *testing.T) { propRandom(t, "TestPropFaults", faultCells(), 900, 18000) }

func TestPropSubMgrStale(t *testing.T) {
	propRandom(t, "TestPropSubMgrStale", submgrStaleCells(), 300, 6000)
}

// TestPropSweep enumerates the whole product deterministically: every cell is executed (quick: once, thorough:
// several times) with parameters from a PRNG seeded by the driver.  This is what guarantees that no
// (kind, path, prefix, second) cell is ever missing from a run; the test fails if one was not executed.
func TestPropSweep(t *testing.T) {
	all := allCells()
	shard, n := vstat.Shard()
	reps := vstat.Scale(1, 8)
	prng := &prngSrc{s: vstat.Seed() ^ uint64(shard)*0x9e3779b97f4a7c15}
	mine := 0
	for i, c := range all {
		if i%n != shard {
			continue
		}
		mine++
		for r := 0; r < reps; r++ {
			tc := genFor(c)(prng, c, nil)
			check(t, t, tc)
		}
	}
	cellMu.Lock()
	var missing []string
	for i, c := range all {
		if i%n == shard && fullCounts[c.key()] < reps {
			missing = append(missing, c.key())
		}
	}
	pairs := make([]string, 0, len(pairCounts))
	for k, v := range pairCounts {
		pairs = append(pairs, fmt.Sprintf("%s=%d", k, v))
	}
	cellMu.Unlock()
	sort.Strings(pairs)
	if len(missing) > 0 {
		t.Fatalf("cells of the product that were never executed: %v", missing)
	}
	vstat.Note(fmt.Sprintf("sweep#%d/%d", shard, n), fmt.Sprintf("%d cells x %d parameterisations, all executed; product size %d", mine, reps, len(all)))
	vstat.Exhaustive(true)
	noteCells("TestPropSweep")
}
