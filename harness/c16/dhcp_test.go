package c16

// Kinds "dhcp" (directly attached client) and "dhcp-relay" (giaddr + option 82 circuit-id/remote-id):
// the real dhcp.Server wired exactly as cmd/bng/main.go wires it -
//
//	dhcp.NewServer(cfg{RADIUSAuthEnabled}, loader, poolMgr)          loader on real kernel maps
//	SetRADIUSClient(client)      only with --radius-enabled          real client -> scripted server
//	SetPolicyManager(policyMgr)  always (main.go leaves it EMPTY; "policies" loads the default set)
//	SetQoSManager(qosMgr)        only with --qos-enabled             real qos.Manager on kernel maps
//	SetNATManager(natMgr)        only with --nat-enabled             real nat.Manager on kernel maps
//
// - and driven through the packet handler server4 calls for every datagram (verif hook VerifHandle)
// and the cleanup tick (VerifCleanupExpired = one iteration of leaseCleanup).
//
// establishment prefixes: fresh (nothing), offered (DISCOVER/OFFER), acked (+REQUEST/ACK),
// renewed (+ a renewal at T1), initreboot (REQUEST without DISCOVER: the server claims the address)
// termination paths: release, decline, expiry (virtual time passes the lease, cleanup tick runs),
// expiry-rediscover (the lease runs out and the client starts over before the tick: DISCOVER retires the
// stale lease; the new session is then RELEASEd and the census taken),
// auth-fail (RADIUS rejects the REQUEST), shutdown (the sequence main.go runs after ctx.Done()).

import (
	"encoding/hex"
	"fmt"
	"net"
	"strings"
	"testing"
	"testing/synctest"
	"time"

	"github.com/codelaboratoryltd/bng/pkg/dhcp"
	"github.com/codelaboratoryltd/bng/pkg/ebpf"
	"github.com/insomniacslk/dhcp/dhcpv4"
	"go.uber.org/zap"
)

type capConn struct{ out [][]byte }

func (c *capConn) WriteTo(b []byte, a net.Addr) (int, error) {
	c.out = append(c.out, append([]byte(nil), b...))
	return len(b), nil
}
func (c *capConn) ReadFrom([]byte) (int, net.Addr, error) { return 0, nil, net.ErrClosed }
func (c *capConn) Close() error                           { return nil }
func (c *capConn) LocalAddr() net.Addr                    { return &net.UDPAddr{IP: net.IPv4zero, Port: 67} }
func (c *capConn) SetDeadline(time.Time) error            { return nil }
func (c *capConn) SetReadDeadline(time.Time) error        { return nil }
func (c *capConn) SetWriteDeadline(time.Time) error       { return nil }

var dhcpPaths = []string{"release", "decline", "expiry", "expiry-rediscover", "auth-fail", "shutdown",
	"expiry-rerequest", "release-rerequest", "reboot-rediscover", "replace-cpe", "move-circuit",
	"release-odd", "decline-odd"}

var dhcpPrefixes = map[string][]string{
	"release":           {"acked", "renewed", "initreboot"},
	"decline":           {"offered", "acked", "renewed", "initreboot"},
	"expiry":            {"offered", "acked", "renewed", "initreboot"},
	"expiry-rediscover": {"acked", "renewed", "initreboot"},
	"auth-fail":         {"fresh", "offered"},
	"shutdown":          {"acked", "renewed"},
	// "superseded" family: the client's session is continued or replaced by a new exchange of the same client
	"expiry-rerequest":  {"acked", "renewed", "initreboot"},
	"release-rerequest": {"acked", "renewed", "initreboot"},
	"reboot-rediscover": {"acked", "renewed", "initreboot"},
	// odd-fields family: a RELEASE / DECLINE whose ciaddr, requested-address, server-id or arrival path is not what an
	// orderly client of this session would send
	"release-odd":  {"acked", "renewed", "initreboot"},
	"decline-odd":  {"acked", "renewed", "initreboot"},
	"replace-cpe":  {"acked", "renewed", "initreboot"}, // relayed sessions only
	"move-circuit": {"acked", "renewed", "initreboot"}, // relayed sessions only
}

func dhcpPathValid(kind, path string) bool {
	if path == "replace-cpe" || path == "move-circuit" {
		return kind == "dhcp-relay"
	}
	return true
}

// rediscover family: a termination that leaves the client without a lease is followed by a DISCOVER of the same
// client (-> OFFER, no lease), and the OFFER then meets one of five fates.  "" = REQUEST acknowledged, then RELEASE.
var rediscoverStages = []string{"expiry", "release", "decline"}
var rediscoverConts = []string{"", "abandon", "decline", "release", "auth-fail"}

func rediscoverPath(stage, cont string) string {
	if cont == "" {
		return stage + "-rediscover"
	}
	return stage + "-rediscover." + cont
}

func dhcpCells(kind string) []cellSpec {
	var out []cellSpec
	for _, p := range dhcpPaths {
		if !dhcpPathValid(kind, p) {
			continue
		}
		for _, pre := range dhcpPrefixes[p] {
			seconds := []string{"none", "seq:release", "seq:decline", "seq:expiry"}
			if p == "shutdown" {
				seconds = []string{"none"}
			}
			if p == "release-odd" || p == "decline-odd" {
				seconds = []string{"none", "seq:release"}
			}
			for _, s := range seconds {
				out = append(out, cellSpec{Kind: kind, Path: p, Prefix: pre, Second: s})
			}
		}
	}
	for _, st := range rediscoverStages {
		for _, ct := range rediscoverConts {
			if st == "expiry" && ct == "" {
				continue // = dhcpPaths' expiry-rediscover
			}
			seconds := []string{"none", "seq:release"}
			if ct == "" {
				seconds = []string{"none", "seq:release", "seq:decline", "seq:expiry"}
			}
			for _, pre := range []string{"acked", "renewed", "initreboot"} {
				for _, s := range seconds {
					out = append(out, cellSpec{Kind: kind, Path: rediscoverPath(st, ct), Prefix: pre, Second: s})
				}
			}
		}
	}
	return out
}

// dhcpFaultCells: one removal the termination makes fails once.  dhcp.Server's resources are real, so the failure is
// produced on what the harness owns: the kernel map entry is deleted beforehand (the manager's / loader's Delete then
// returns ENOENT), or the scripted RADIUS server refuses the Accounting-Stop.
func dhcpFaultCells(kind string) []cellSpec {
	var out []cellSpec
	faults := []string{"rm-cache-mac", "rm-nat-entry", "rm-qos-entry", "acct-stop"}
	if kind == "dhcp-relay" {
		faults = append(faults, "rm-cache-circuit-id")
	}
	for _, p := range []string{"release", "decline", "expiry"} {
		for _, pre := range []string{"acked", "renewed"} {
			for _, f := range faults {
				out = append(out, cellSpec{Kind: kind, Path: p, Prefix: pre, Second: "none", Fault: f})
			}
		}
	}
	return out
}

func genDHCP(s src, c cellSpec, base *params) *tcase {
	tc := &tcase{Kind: c.Kind, Path: c.Path, Prefix: c.Prefix, Second: c.Second}
	if base != nil {
		tc.P = *base
	} else {
		genCommon(s, &tc.P)
	}
	if c.Path == "auth-fail" || strings.HasSuffix(c.Path, ".auth-fail") {
		tc.P.Radius, tc.P.RadiusAuth = true, true
	}
	tc.Fault = c.Fault
	if c.Fault != "" {
		tc.P.Radius, tc.P.Policies, tc.P.QoS, tc.P.NAT, tc.P.FilterID = true, true, true, true, ""
	}
	if c.Kind == "dhcp-relay" {
		switch s.intn("cid.cls", 0, 5) {
		case 0:
			tc.P.Cid = genBytes(s, "cid", 1, 4)
		case 1:
			tc.P.Cid = genBytes(s, "cid", 32, 32) // exactly the fixed fast-path key
		case 2:
			tc.P.Cid = genBytes(s, "cid", 33, 40) // longer than the fixed key: only the hashed table can hold it
		default:
			tc.P.Cid = []byte(fmt.Sprintf("eth 0/%d/%d:%d", s.intn("cid.a", 0, 9), s.intn("cid.b", 0, 48), s.intn("cid.c", 1, 4094)))
		}
		if chance(s, "rid", 1, 2) {
			tc.P.RemoteID = genBytes(s, "rid.b", 1, 12)
		}
	}
	if chance(s, "hostname", 1, 3) {
		tc.P.Hostname = fmt.Sprintf("cpe-%d", s.intn("hostname.n", 0, 999))
	}
	switch c.Path {
	case "release-odd", "decline-odd":
		addrs := []string{"correct", "zero", "other", "free", "outside"}
		tc.P.OddCi = pick(s, "odd.ci", addrs)
		tc.P.OddSid = pick(s, "odd.sid", []string{"correct", "absent", "other"})
		tc.P.OddVia = pick(s, "odd.via", []string{"same", "same", "direct", "relay"})
		if c.Path == "decline-odd" {
			tc.P.OddReq = pick(s, "odd.req", addrs)
			tc.P.OddCi = pick(s, "odd.ci2", []string{"zero", "zero", "correct", "other"})
		}
		if len(tc.P.BgMACs) == 0 {
			tc.P.BgMACs = []hexb{genMAC(s, "bg0", 1)} // "another client's address" needs another client
		}
	case "expiry-rerequest":
		tc.P.ReqShape = pick(s, "req.shape", []string{"renewing", "initreboot", "selecting"})
	case "release-rerequest":
		tc.P.ReqShape = pick(s, "req.shape", []string{"renewing", "initreboot"})
	case "replace-cpe":
		tc.P.MAC2 = genMAC(s, "mac2", 0x20)
	case "move-circuit":
		tc.P.Cid2 = []byte(fmt.Sprintf("eth 1/%d/%d:%d", s.intn("cid2.a", 0, 9), s.intn("cid2.b", 0, 48), s.intn("cid2.c", 1, 4094)))
	}
	return tc
}

type dhcpRun struct {
	tc   *tcase
	res  *result
	w    *world
	rs   *radServer
	pool *dhcp.Pool
	srv  *dhcp.Server
	conn *capConn
	gw   net.IP
	xid  uint32
	ip   net.IP // address of the session under test (offered or leased)
	via  string // odd-fields family: overrides how the next message arrives ("direct" | "relay")
	ip2  net.IP // rediscover family: the address of the ended session if the new OFFER names another one
	bgIP []net.IP

	quarantined int // effective DECLINEs of the session's address

	// identity of the session under test; the superseded family changes it (replacement CPE, other circuit)
	curMAC net.HardwareAddr
	curCid []byte
	macs   []net.HardwareAddr // every MAC the session (chain) has used
	cids   [][]byte           // every circuit-id it has used
}

func normMAC(s string) string {
	s = strings.ToLower(s)
	s = strings.ReplaceAll(s, "-", "")
	s = strings.ReplaceAll(s, ":", "")
	return s
}

func (x *dhcpRun) relayInfo(cid, rid []byte) []byte {
	var b []byte
	if len(cid) > 0 {
		b = append(b, 1, byte(len(cid)))
		b = append(b, cid...)
	}
	if len(rid) > 0 {
		b = append(b, 2, byte(len(rid)))
		b = append(b, rid...)
	}
	return b
}

// msg builds a client message; relayed messages carry giaddr and option 82.
func (x *dhcpRun) msg(typ dhcpv4.MessageType, mac net.HardwareAddr, cid, rid []byte, mods ...dhcpv4.Modifier) (*dhcpv4.DHCPv4, error) {
	x.xid++
	var xid dhcpv4.TransactionID
	xid[0], xid[1], xid[2], xid[3] = byte(x.xid>>24), byte(x.xid>>16), byte(x.xid>>8), byte(x.xid)
	all := []dhcpv4.Modifier{dhcpv4.WithMessageType(typ), dhcpv4.WithHwAddr(mac), dhcpv4.WithTransactionID(xid)}
	relayed := x.tc.Kind == "dhcp-relay"
	switch x.via {
	case "direct":
		relayed = false
	case "relay":
		relayed = true
	}
	if relayed {
		all = append(all, dhcpv4.WithGatewayIP(net.IPv4(172, 30, 0, 1).To4()))
		if ri := x.relayInfo(cid, rid); len(ri) > 0 {
			all = append(all, dhcpv4.WithOption(dhcpv4.OptGeneric(dhcpv4.OptionRelayAgentInformation, ri)))
		}
	}
	all = append(all, mods...)
	return dhcpv4.New(all...)
}

// send delivers one message through the handler server4 would call and returns the reply (nil if none).
func (x *dhcpRun) send(m *dhcpv4.DHCPv4) *dhcpv4.DHCPv4 {
	n := len(x.conn.out)
	x.srv.VerifHandle(x.conn, &net.UDPAddr{IP: net.IPv4bcast, Port: 68}, m)
	synctest.Wait() // accounting goroutines the handler started have finished their exchange
	if len(x.conn.out) == n {
		return nil
	}
	r, err := dhcpv4.FromBytes(x.conn.out[len(x.conn.out)-1])
	if err != nil {
		x.res.harness = "unparsable reply: " + err.Error()
		return nil
	}
	return r
}

func (x *dhcpRun) discover(mac net.HardwareAddr, cid, rid []byte) net.IP {
	m, err := x.msg(dhcpv4.MessageTypeDiscover, mac, cid, rid)
	if err != nil {
		x.res.harness = err.Error()
		return nil
	}
	r := x.send(m)
	if r == nil || r.MessageType() != dhcpv4.MessageTypeOffer {
		return nil
	}
	return r.YourIPAddr.To4()
}

// request: shape selecting (requested-ip + server-id), renewing (ciaddr), initreboot (requested-ip only)
func (x *dhcpRun) request(mac net.HardwareAddr, cid, rid []byte, shape string, ip net.IP) (ack bool, replied bool) {
	var mods []dhcpv4.Modifier
	switch shape {
	case "selecting":
		mods = append(mods, dhcpv4.WithOption(dhcpv4.OptRequestedIPAddress(ip)), dhcpv4.WithOption(dhcpv4.OptServerIdentifier(x.gw)))
	case "renewing":
		mods = append(mods, dhcpv4.WithClientIP(ip))
	case "initreboot":
		mods = append(mods, dhcpv4.WithOption(dhcpv4.OptRequestedIPAddress(ip)))
	}
	if x.tc.P.Hostname != "" {
		mods = append(mods, dhcpv4.WithOption(dhcpv4.OptHostName(x.tc.P.Hostname)))
	}
	m, err := x.msg(dhcpv4.MessageTypeRequest, mac, cid, rid, mods...)
	if err != nil {
		x.res.harness = err.Error()
		return false, false
	}
	r := x.send(m)
	if r == nil {
		return false, false
	}
	return r.MessageType() == dhcpv4.MessageTypeAck, true
}

func (x *dhcpRun) release(mac net.HardwareAddr, cid, rid []byte, ip net.IP) {
	m, err := x.msg(dhcpv4.MessageTypeRelease, mac, cid, rid, dhcpv4.WithClientIP(ip), dhcpv4.WithOption(dhcpv4.OptServerIdentifier(x.gw)))
	if err != nil {
		x.res.harness = err.Error()
		return
	}
	if r := x.send(m); r != nil {
		x.res.logf("    (RELEASE was answered with %s)", r.MessageType())
	}
}

func (x *dhcpRun) decline(mac net.HardwareAddr, cid, rid []byte, ip net.IP) {
	m, err := x.msg(dhcpv4.MessageTypeDecline, mac, cid, rid, dhcpv4.WithOption(dhcpv4.OptRequestedIPAddress(ip)), dhcpv4.WithOption(dhcpv4.OptServerIdentifier(x.gw)))
	if err != nil {
		x.res.harness = err.Error()
		return
	}
	if r := x.send(m); r != nil {
		x.res.logf("    (DECLINE was answered with %s)", r.MessageType())
	}
}

func (x *dhcpRun) bgCid(i int) []byte {
	if x.tc.Kind != "dhcp-relay" {
		return nil
	}
	return []byte(fmt.Sprintf("bg-port-%d", i))
}

// renewBackground keeps the background clients' leases alive the way real clients do (renewal at T1).
func (x *dhcpRun) renewBackground() {
	for i, m := range x.tc.P.BgMACs {
		if ok, _ := x.request(net.HardwareAddr(m), x.bgCid(i), nil, "renewing", x.bgIP[i]); !ok {
			x.res.harness = fmt.Sprintf("background client %d could not renew %s", i, x.bgIP[i])
		}
	}
}

// passLease lets virtual time run past the lease of the session under test (which last (re)started at the
// current instant) while the background clients renew at T1, then runs one cleanup tick.
func (x *dhcpRun) passLease() {
	lease := time.Duration(x.tc.P.LeaseS) * time.Second
	x.renewBackground()
	time.Sleep(lease / 2)
	synctest.Wait()
	x.renewBackground()
	time.Sleep(lease/2 + 2*time.Second)
	synctest.Wait()
	x.srv.VerifCleanupExpired()
	synctest.Wait()
}

func (x *dhcpRun) mac() net.HardwareAddr { return x.curMAC }

func (x *dhcpRun) isMine(calling string) bool {
	for _, m := range x.macs {
		if normMAC(calling) == normMAC(m.String()) {
			return true
		}
	}
	return false
}

// openAcct: accounting sessions of the client (chain) that have a Start and no Stop yet.
func (x *dhcpRun) openAcct() []string {
	starts, stops := map[string]int{}, map[string]int{}
	var order []string
	for _, r := range x.rs.records() {
		if !x.isMine(r.Calling) || !r.OK {
			continue
		}
		if _, ok := starts[r.SID]; !ok {
			order = append(order, r.SID)
			starts[r.SID] = 0
		}
		switch r.Type {
		case acctStart:
			starts[r.SID]++
		case acctStop:
			stops[r.SID]++
		}
	}
	var open []string
	for _, sid := range order {
		if starts[sid] > stops[sid] {
			open = append(open, sid)
		}
	}
	return open
}

// superseded is the interim census of the "superseded" family, taken after the client's new exchange and before
// the successor session is ended.  Inheritance rule (from what handleRequest documents): the successor keeps the
// address, so the pool allocation and whatever is keyed by the address (NAT block, QoS policy) may stay; the
// accounting session either continues under the SAME Acct-Session-Id without a second Start, or is stopped before
// the new Start - in both cases exactly one accounting session of the client is open; everything keyed by an
// identifier the successor no longer uses (old MAC, old circuit-id) must be gone.
func (x *dhcpRun) superseded(oldMAC net.HardwareAddr, oldCid []byte, live bool) {
	res, tc := x.res, x.tc
	sig := func(r string) string { return "C16/dhcp/" + tc.Path + "/" + r }
	open := x.openAcct()
	want := 0
	if live && x.tc.P.Radius {
		want = 1
	}
	if len(open) > want {
		res.fail(sig("acct-superseded-session-open"), "after the client's new exchange %d accounting sessions of the client are open (%v): the superseded session was neither continued under its Acct-Session-Id nor stopped; stream: %v", len(open), open, x.rs.records())
	}
	if live && len(open) < want {
		res.fail(sig("acct-live-session-closed"), "the client holds a lease but none of its accounting sessions is open; stream: %v", x.rs.records())
	}
	if oldMAC != nil && oldMAC.String() != x.curMAC.String() {
		for _, l := range x.srv.VerifLeases() {
			if l.Key == oldMAC.String() {
				res.fail(sig("lease"), "the replaced CPE %s still has a lease (%s)", oldMAC, l.Lease.IP)
			}
		}
		if ip := x.pool.VerifState().Allocated[oldMAC.String()]; ip != "" {
			res.fail(sig("pool"), "the pool still has %s allocated to the replaced CPE %s", ip, oldMAC)
		}
		if a, err := x.w.loader.GetSubscriber(ebpf.MACToUint64(oldMAC)); err == nil && a != nil {
			res.fail(sig("cache-mac"), "the fast path still answers for the replaced CPE %s", oldMAC)
		}
	}
	if len(oldCid) > 0 && string(oldCid) != string(x.curCid) {
		for _, l := range x.srv.VerifLeasesByCircuitID() {
			if l.Key == fmt.Sprintf("%x", oldCid) {
				res.fail(sig("lease"), "the circuit-id index still resolves the circuit the client left (%x)", oldCid)
			}
		}
		if _, err := x.w.loader.GetCircuitIDMapping(oldCid); err == nil {
			res.fail(sig("cache-circuit-id"), "circuit_id_map still answers for the circuit the client left (%x)", oldCid)
		}
		if len(oldCid) <= ebpf.CircuitIDKeyLen {
			if a, err := x.w.loader.GetCircuitIDSubscriber(oldCid); err == nil && a != nil {
				res.fail(sig("cache-circuit-id"), "circuit_id_subscribers still answers for the circuit the client left (%x)", oldCid)
			}
		}
	}
}

// lapse lets the lease of the session under test run out WITHOUT a cleanup tick (background clients renew at T1).
func (x *dhcpRun) lapse() {
	lease := time.Duration(x.tc.P.LeaseS) * time.Second
	x.renewBackground()
	time.Sleep(lease / 2)
	synctest.Wait()
	x.renewBackground()
	time.Sleep(lease/2 + 2*time.Second)
	synctest.Wait()
}

// finish ends the successor session the ordinary way: a cleanup tick comes round (it must not touch the live
// lease), then the client RELEASEs.
func (x *dhcpRun) finish() {
	x.srv.VerifCleanupExpired()
	synctest.Wait()
	found := false
	for _, l := range x.srv.VerifLeases() {
		if l.Key == x.curMAC.String() {
			found = true
		}
	}
	if found {
		x.res.logf("  cleanup tick (lease stays); RELEASE %s by %s", x.ip, x.curMAC)
	} else {
		x.res.logf("  cleanup tick; the client holds no lease; RELEASE %s by %s", x.ip, x.curMAC)
	}
	x.release(x.curMAC, x.curCid, x.tc.P.RemoteID, x.ip)
}

// terminate performs one termination path on the session under test.
func (x *dhcpRun) declineCounted() {
	before := len(x.pool.VerifState().Unavailable)
	x.decline(x.mac(), x.curCid, x.tc.P.RemoteID, x.ip)
	if len(x.pool.VerifState().Unavailable) > before {
		x.quarantined++
	}
}

// rediscover: stage (the lease lapses without a tick | RELEASE | DECLINE), then the same client DISCOVERs again and
// holds an OFFER but no lease, then the continuation decides the fate of that OFFER.  Whatever it is, once the
// client has no lease nothing of the ended session may remain on its address.
func (x *dhcpRun) rediscover(stage, cont string) {
	p := &x.tc.P
	switch stage {
	case "expiry":
		x.lapse()
		x.res.logf("  lease ran out (%ds, no cleanup tick yet)", p.LeaseS)
	case "release":
		x.res.logf("  RELEASE %s", x.ip)
		x.release(x.mac(), x.curCid, p.RemoteID, x.ip)
	case "decline":
		x.res.logf("  DECLINE %s", x.ip)
		x.declineCounted()
	}
	if cont == "auth-fail" {
		x.rs.setAuth(x.mac().String(), authScript{Accept: false})
	}
	ip := x.discover(x.mac(), x.curCid, p.RemoteID)
	if ip == nil {
		x.res.harness = "DISCOVER after " + stage + " got no OFFER"
		return
	}
	x.res.logf("  DISCOVER -> OFFER %s", ip)
	x.ip2 = x.ip
	x.ip = ip
	switch cont {
	case "":
		if ok, _ := x.request(x.mac(), x.curCid, p.RemoteID, "selecting", ip); !ok {
			x.res.harness = "REQUEST after the re-DISCOVER got no ACK"
			return
		}
		x.res.logf("  REQUEST -> ACK %s (new session); RELEASE", ip)
		x.release(x.mac(), x.curCid, p.RemoteID, x.ip)
	case "abandon":
		x.res.logf("  the client never comes back for the OFFER: its hold time (%ds) passes, cleanup tick", p.LeaseS)
		x.passLease()
	case "decline":
		x.res.logf("  DECLINE of the offered %s", ip)
		x.declineCounted()
	case "release":
		x.res.logf("  RELEASE of the offered %s", ip)
		x.release(x.mac(), x.curCid, p.RemoteID, x.ip)
	case "auth-fail":
		ok, replied := x.request(x.mac(), x.curCid, p.RemoteID, "selecting", ip)
		x.res.logf("  REQUEST %s with RADIUS rejecting -> ack=%v replied=%v", ip, ok, replied)
		if ok {
			x.res.fail("C16/dhcp/"+x.tc.Path+"/acked-despite-reject", "RADIUS rejected %s but the REQUEST for %s was acknowledged", x.mac(), ip)
		}
	}
}

func (x *dhcpRun) oddAddr(kind string, prePool dhcp.VerifPoolState) net.IP {
	switch kind {
	case "correct":
		return x.ip
	case "other":
		return x.bgIP[0]
	case "free":
		st := x.pool.VerifState()
		if len(st.Available) > 0 {
			return net.ParseIP(st.Available[len(st.Available)-1]).To4()
		}
		return net.IPv4(192, 0, 2, 78).To4()
	case "outside":
		return net.IPv4(192, 0, 2, 77).To4()
	}
	return nil // zero: field left empty
}

// sendOdd sends the terminating RELEASE / DECLINE with the generated protocol fields.
func (x *dhcpRun) sendOdd(typ dhcpv4.MessageType, prePool dhcp.VerifPoolState) {
	p := &x.tc.P
	var mods []dhcpv4.Modifier
	if ci := x.oddAddr(p.OddCi, prePool); ci != nil {
		mods = append(mods, dhcpv4.WithClientIP(ci))
	}
	if typ == dhcpv4.MessageTypeDecline {
		if rq := x.oddAddr(p.OddReq, prePool); rq != nil {
			mods = append(mods, dhcpv4.WithOption(dhcpv4.OptRequestedIPAddress(rq)))
		}
	}
	switch p.OddSid {
	case "correct":
		mods = append(mods, dhcpv4.WithOption(dhcpv4.OptServerIdentifier(x.gw)))
	case "other":
		mods = append(mods, dhcpv4.WithOption(dhcpv4.OptServerIdentifier(net.IPv4(198, 51, 100, 1).To4())))
	}
	cid := x.curCid
	if p.OddVia != "same" && p.OddVia != "" {
		x.via = p.OddVia
		if x.via == "relay" && len(cid) == 0 {
			cid = []byte("odd-relay-port")
		}
	}
	m, err := x.msg(typ, x.mac(), cid, p.RemoteID, mods...)
	x.via = ""
	if err != nil {
		x.res.harness = err.Error()
		return
	}
	before := len(x.pool.VerifState().Unavailable)
	x.res.logf("  %s ciaddr=%s requested=%s server-id=%s via=%s", typ, p.OddCi, p.OddReq, p.OddSid, p.OddVia)
	if r := x.send(m); r != nil {
		x.res.logf("    (answered with %s)", r.MessageType())
	}
	if typ == dhcpv4.MessageTypeDecline && p.OddReq == "correct" && len(x.pool.VerifState().Unavailable) > before {
		x.quarantined++
	}
}

// estSnap is the state of the established session, for the "ignored => fully intact" half of the odd-fields oracle.
type estSnap struct {
	c     *census
	pool  dhcp.VerifPoolState
	recs  int
	lease dhcp.Lease
}

func (x *dhcpRun) snapEstablished() (*estSnap, bool) {
	c, err := x.w.census()
	if err != nil {
		x.res.harness = err.Error()
		return nil, false
	}
	e := &estSnap{c: c, pool: x.pool.VerifState(), recs: len(x.rs.records())}
	for _, l := range x.srv.VerifLeases() {
		if l.Key == x.mac().String() {
			e.lease = l.Lease
			return e, true
		}
	}
	x.res.harness = "established session has no lease"
	return nil, false
}

// oddOracle: after a RELEASE / DECLINE with unusual fields EITHER the session is over and everything is released, OR
// the message was ignored and the session is fully intact (a proper RELEASE then cleans up) - never a half state.
func (x *dhcpRun) oddOracle(est *estSnap, pre *census, prePool dhcp.VerifPoolState) {
	res, tc := x.res, x.tc
	half := func(from int) {
		for i := from; i < len(res.viol); i++ {
			parts := strings.Split(res.viol[i].Sig, "/")
			res.viol[i].Sig = "C16/dhcp/" + tc.Path + "/half-terminated/" + parts[len(parts)-1]
		}
	}
	var cur *dhcp.Lease
	for _, l := range x.srv.VerifLeases() {
		if l.Key == x.mac().String() {
			c := l.Lease
			cur = &c
		}
	}
	n0 := len(res.viol)
	if cur == nil {
		res.logf("    the lease is gone: the session must be over completely")
		res.classes = append(res.classes, "odd:session-ended")
		x.oracle(tc.Path, pre, prePool)
		half(n0)
		return
	}
	res.logf("    the lease is still there: the session must be fully intact")
	res.classes = append(res.classes, "odd:message-ignored")
	sig := func(r string) string { return "C16/dhcp/" + tc.Path + "/half-terminated/" + r }
	if !cur.IP.Equal(est.lease.IP) || cur.SessionID != est.lease.SessionID {
		res.fail(sig("lease"), "the lease changed although the session was not ended: %s/%s -> %s/%s", est.lease.IP, est.lease.SessionID, cur.IP, cur.SessionID)
	}
	now, err := x.w.census()
	if err != nil {
		res.harness = err.Error()
		return
	}
	for _, n := range sessionMaps {
		if !equalStrings(est.c.Maps[n], now.Maps[n]) {
			res.fail(sig(mapResource[n]), "the session still has its lease but kernel map %s changed: %v -> %v", n, est.c.Maps[n], now.Maps[n])
		}
	}
	if now.NATCount != est.c.NATCount || fmt.Sprint(now.NATSubs) != fmt.Sprint(est.c.NATSubs) {
		res.fail(sig("nat"), "the session still has its lease but the NAT state changed: %d %v -> %d %v", est.c.NATCount, est.c.NATSubs, now.NATCount, now.NATSubs)
	}
	if now.QoSCount != est.c.QoSCount {
		res.fail(sig("qos"), "the session still has its lease but the QoS subscriber count changed: %d -> %d", est.c.QoSCount, now.QoSCount)
	}
	st := x.pool.VerifState()
	if st.Allocated[x.mac().String()] != est.pool.Allocated[x.mac().String()] || len(st.Available) != len(est.pool.Available) || len(st.Unavailable) != len(est.pool.Unavailable) {
		res.fail(sig("pool"), "the session still has its lease but the pool changed: allocation %q -> %q, available %d -> %d, unavailable %d -> %d",
			est.pool.Allocated[x.mac().String()], st.Allocated[x.mac().String()], len(est.pool.Available), len(st.Available), len(est.pool.Unavailable), len(st.Unavailable))
	}
	if recs := x.rs.records(); len(recs) != est.recs {
		res.fail(sig("acct"), "the session still has its lease but accounting records were sent: %v", recs[est.recs:])
	}
	for i, m := range tc.P.BgMACs {
		if st.Allocated[net.HardwareAddr(m).String()] != x.bgIP[i].String() {
			res.fail(sig("foreign-pool"), "background client %d lost its allocation %s", i, x.bgIP[i])
		}
	}
	if len(res.viol) > n0 || res.harness != "" {
		return
	}
	// the orderly RELEASE the client sends next ends the session completely
	res.logf("  RELEASE %s (orderly)", x.ip)
	x.release(x.mac(), x.curCid, tc.P.RemoteID, x.ip)
	x.oracle(tc.Path, pre, prePool)
}

// injectFault makes one removal of the coming termination fail (see dhcpFaultCells).
func (x *dhcpRun) injectFault(pre *census) {
	del := func(name string) {
		m := x.w.maps[name]
		now, err := rawKeys(m)
		if err != nil {
			x.res.harness = err.Error()
			return
		}
		extra, _ := diffKeys(pre.Maps[name], now)
		if len(extra) == 0 {
			x.res.classes = append(x.res.classes, "fault:vacuous")
		}
		for _, k := range extra {
			b, _ := hex.DecodeString(k)
			if err := m.Delete(b); err != nil {
				x.res.harness = "fault injection: " + err.Error()
			}
		}
		x.res.logf("  (fault: %d entr(y/ies) of %s deleted beforehand: the removal will fail)", len(extra), name)
	}
	switch x.tc.Fault {
	case "rm-cache-mac":
		del("subscriber_pools")
	case "rm-cache-circuit-id":
		del("circuit_id_map")
	case "rm-nat-entry":
		del("subscriber_nat")
	case "rm-qos-entry":
		del("qos_egress")
	case "acct-stop":
		x.rs.failNextStops(1)
		x.res.logf("  (fault: the next Accounting-Stop is refused by the RADIUS server)")
	}
}

func (x *dhcpRun) terminate(path string) {
	p := &x.tc.P
	if base, cont, _ := strings.Cut(path, "."); strings.HasSuffix(base, "-rediscover") {
		x.rediscover(strings.TrimSuffix(base, "-rediscover"), cont)
		return
	}
	switch path {
	case "release":
		x.res.logf("  RELEASE %s", x.ip)
		x.release(x.mac(), x.curCid, p.RemoteID, x.ip)
	case "decline":
		x.res.logf("  DECLINE %s", x.ip)
		x.declineCounted()
	case "expiry":
		x.res.logf("  lease time passes (%ds), cleanup tick", p.LeaseS)
		x.passLease()
	case "expiry-rediscover":
		// the lease runs out, and before the cleanup tick comes round the client starts over: DISCOVER (the server
		// retires the stale lease), REQUEST (a new session), and finally a clean RELEASE of that new session
		lease := time.Duration(p.LeaseS) * time.Second
		x.renewBackground()
		time.Sleep(lease / 2)
		synctest.Wait()
		x.renewBackground()
		time.Sleep(lease/2 + 2*time.Second)
		synctest.Wait()
		ip := x.discover(x.mac(), x.curCid, p.RemoteID)
		if ip == nil {
			x.res.harness = "DISCOVER after expiry got no OFFER"
			return
		}
		x.res.logf("  lease ran out (%ds, no cleanup tick yet); DISCOVER -> OFFER %s", p.LeaseS, ip)
		if ok, _ := x.request(x.mac(), x.curCid, p.RemoteID, "selecting", ip); !ok {
			x.res.harness = "REQUEST after expiry got no ACK"
			return
		}
		x.ip = ip
		x.res.logf("  REQUEST -> ACK %s (new session); RELEASE", ip)
		x.release(x.mac(), x.curCid, p.RemoteID, x.ip)
	case "expiry-rerequest":
		// the lease runs out and, before the cleanup tick comes round, the client sends a late REQUEST
		x.lapse()
		ok, replied := x.request(x.mac(), x.curCid, p.RemoteID, p.ReqShape, x.ip)
		x.res.logf("  lease ran out (%ds, no tick yet); REQUEST[%s] %s -> ack=%v replied=%v", p.LeaseS, p.ReqShape, x.ip, ok, replied)
		if !ok {
			// the server may refuse a lapsed lease; the client then starts over
			ip := x.discover(x.mac(), x.curCid, p.RemoteID)
			if ip == nil {
				x.res.harness = "after a refused late REQUEST the DISCOVER got no OFFER"
				return
			}
			if ok2, _ := x.request(x.mac(), x.curCid, p.RemoteID, "selecting", ip); !ok2 {
				x.res.harness = "after a refused late REQUEST the client could not get a lease at all"
				return
			}
			x.ip = ip
		}
		x.superseded(nil, nil, true)
		x.finish()
	case "release-rerequest":
		// RELEASE, and a (late / retransmitted) REQUEST of the same client for the same address behind it
		x.release(x.mac(), x.curCid, p.RemoteID, x.ip)
		ok, replied := x.request(x.mac(), x.curCid, p.RemoteID, p.ReqShape, x.ip)
		x.res.logf("  RELEASE %s; REQUEST[%s] %s -> ack=%v replied=%v", x.ip, p.ReqShape, x.ip, ok, replied)
		x.superseded(nil, nil, ok)
		if ok {
			x.finish()
		}
	case "reboot-rediscover":
		// the client reboots while its lease is valid: DISCOVER, REQUEST - the session goes on
		ip := x.discover(x.mac(), x.curCid, p.RemoteID)
		if ip == nil {
			x.res.harness = "DISCOVER of a client with a valid lease got no OFFER"
			return
		}
		ok, _ := x.request(x.mac(), x.curCid, p.RemoteID, "selecting", ip)
		x.res.logf("  reboot: DISCOVER -> OFFER %s (lease was %s); REQUEST -> ack=%v", ip, x.ip, ok)
		if !ok {
			x.res.harness = "REQUEST after the re-DISCOVER got no ACK"
			return
		}
		x.ip = ip
		x.superseded(nil, nil, true)
		x.finish()
	case "replace-cpe":
		// a replacement CPE (other MAC) comes up on the same circuit while the lease is valid and takes it over
		old := x.curMAC
		nm := net.HardwareAddr(p.MAC2)
		ip := x.discover(nm, x.curCid, p.RemoteID)
		if ip == nil {
			x.res.harness = "DISCOVER of the replacement CPE got no OFFER"
			return
		}
		ok, _ := x.request(nm, x.curCid, p.RemoteID, "selecting", ip)
		x.res.logf("  replacement CPE %s on the same circuit: DISCOVER -> OFFER %s (lease of %s was %s); REQUEST -> ack=%v", nm, ip, old, x.ip, ok)
		if !ok {
			x.res.harness = "the replacement CPE got no ACK"
			return
		}
		x.macs = append(x.macs, nm)
		x.curMAC = nm
		if !ip.Equal(x.ip) {
			// the replacement got an address of its own: then the old CPE's session is a separate one and still alive
			x.res.harness = fmt.Sprintf("the replacement CPE was given %s instead of taking over %s", ip, x.ip)
			return
		}
		x.superseded(old, nil, true)
		x.finish()
	case "move-circuit":
		// the client renews through another port: its lease moves to the new circuit-id
		oldCid := x.curCid
		nc := []byte(p.Cid2)
		ok, _ := x.request(x.mac(), nc, p.RemoteID, "renewing", x.ip)
		x.res.logf("  renewal arrives on circuit %q (was %q) -> ack=%v", nc, oldCid, ok)
		if !ok {
			x.res.harness = "the renewal through the other circuit got no ACK"
			return
		}
		x.cids = append(x.cids, nc)
		x.curCid = nc
		x.superseded(nil, oldCid, true)
		x.finish()
	case "shutdown":
		x.res.logf("  shutdown sequence of main.go: qosMgr.Stop(), natMgr.Stop(), loader.Close()")
		if x.w.qos != nil {
			_ = x.w.qos.Stop()
		}
		if x.w.nat != nil {
			_ = x.w.nat.Stop()
		}
		_ = x.w.loader.Close()
		time.Sleep(10 * time.Second)
		synctest.Wait()
	}
}

func runDHCP(t testing.TB, tc *tcase) *result {
	rs := scriptedRadius(t)
	res := &result{}
	synctest.Test(t.(*testing.T), func(t *testing.T) {
		runDHCPInBubble(tc, rs, res)
	})
	return res
}

func runDHCPInBubble(tc *tcase, rs *radServer, res *result) {
	p := &tc.P
	rs.reset()
	w, err := newWorld(p)
	if err != nil {
		res.harness = err.Error()
		return
	}
	defer w.close()
	x := &dhcpRun{tc: tc, res: res, w: w, rs: rs, conn: &capConn{}}
	x.curMAC, x.curCid = net.HardwareAddr(p.MAC), []byte(p.Cid)
	x.macs, x.cids = []net.HardwareAddr{x.curMAC}, [][]byte{x.curCid}
	logger := zap.NewNop()
	network := fmt.Sprintf("10.%d.%d.0/%d", p.Net, p.Net3, p.PoolBits)
	_, ipn, _ := net.ParseCIDR(network)
	base := ipn.IP.To4()
	x.gw = net.IPv4(base[0], base[1], base[2], base[3]+1).To4()
	pm := dhcp.NewPoolManager(w.loader, logger)
	pool, err := dhcp.NewPool(dhcp.PoolConfig{ID: 1, Name: "default", Network: ipn.String(), Gateway: x.gw.String(),
		DNSServers: []string{"192.0.2.53"}, LeaseTime: time.Duration(p.LeaseS) * time.Second, ClientClass: dhcp.ClientClassResidential})
	if err != nil {
		res.harness = err.Error()
		return
	}
	if err := pm.AddPool(pool); err != nil {
		res.harness = err.Error()
		return
	}
	x.pool = pool
	srv, err := dhcp.NewServer(dhcp.ServerConfig{Interface: "lo", ServerIP: x.gw, RADIUSAuthEnabled: p.RadiusAuth}, w.loader, pm, logger)
	if err != nil {
		res.harness = err.Error()
		return
	}
	x.srv = srv
	if p.Radius {
		c, err := newRadiusClient(rs)
		if err != nil {
			res.harness = err.Error()
			return
		}
		srv.SetRADIUSClient(c)
		rs.setDefaultAuth(authScript{Accept: true, FilterID: p.FilterID, Class: p.Class})
	}
	srv.SetPolicyManager(w.policy)
	if w.qos != nil {
		srv.SetQoSManager(w.qos)
	}
	if w.nat != nil {
		srv.SetNATManager(w.nat)
	}

	// background sessions
	for i, m := range p.BgMACs {
		mac := net.HardwareAddr(m)
		ip := x.discover(mac, x.bgCid(i), nil)
		if ip == nil {
			res.harness = "background DISCOVER got no OFFER"
			return
		}
		if ok, _ := x.request(mac, x.bgCid(i), nil, "selecting", ip); !ok {
			res.harness = "background REQUEST got no ACK"
			return
		}
		x.bgIP = append(x.bgIP, ip)
	}
	if res.harness != "" {
		return
	}
	pre, err := w.census()
	if err != nil {
		res.harness = err.Error()
		return
	}
	prePool := pool.VerifState()
	res.logf("before: %s pool.allocated=%d available=%d", pre, len(prePool.Allocated), len(prePool.Available))

	// ---- establishment up to the prefix
	if tc.Path == "auth-fail" {
		rs.setAuth(x.mac().String(), authScript{Accept: false})
	}
	acked := false
	switch tc.Prefix {
	case "fresh":
		// nothing: the first message of the client is the REQUEST that fails
		if len(prePool.Available) > 0 {
			x.ip = net.ParseIP(prePool.Available[0]).To4()
		}
	case "offered", "acked", "renewed":
		x.ip = x.discover(x.mac(), x.curCid, p.RemoteID)
		if x.ip == nil {
			res.harness = "DISCOVER got no OFFER"
			return
		}
		res.logf("  DISCOVER -> OFFER %s", x.ip)
		if tc.Prefix != "offered" {
			ok, _ := x.request(x.mac(), x.curCid, p.RemoteID, "selecting", x.ip)
			if !ok {
				res.harness = "REQUEST got no ACK"
				return
			}
			acked = true
			res.logf("  REQUEST -> ACK %s", x.ip)
		}
		if tc.Prefix == "renewed" {
			time.Sleep(time.Duration(p.LeaseS) * time.Second / 2)
			synctest.Wait()
			x.renewBackground()
			ok, _ := x.request(x.mac(), x.curCid, p.RemoteID, "renewing", x.ip)
			if !ok {
				res.harness = "renewal got no ACK"
				return
			}
			res.logf("  renewal at T1 -> ACK")
		}
	case "initreboot":
		if len(prePool.Available) == 0 {
			res.harness = "no free address for INIT-REBOOT"
			return
		}
		x.ip = net.ParseIP(prePool.Available[len(prePool.Available)/2]).To4()
		ok, _ := x.request(x.mac(), x.curCid, p.RemoteID, "initreboot", x.ip)
		if !ok {
			res.harness = "INIT-REBOOT REQUEST got no ACK"
			return
		}
		acked = true
		res.logf("  INIT-REBOOT REQUEST -> ACK %s", x.ip)
	}
	if res.harness != "" {
		return
	}

	// ---- what does the session hold now?
	if st := pool.VerifState(); st.Allocated[x.mac().String()] != "" {
		res.hold("pool")
	}
	for _, l := range srv.VerifLeases() {
		if l.Key == x.mac().String() {
			res.hold("lease")
		}
	}
	w.planeHeld(res, pre)
	for _, r := range rs.records() {
		if r.Type == acctStart && x.isMine(r.Calling) {
			res.hold("acct")
		}
	}
	if res.harness != "" {
		return
	}
	res.logf("  holds: %v", res.held)

	// ---- first termination
	if tc.Path == "auth-fail" {
		shape := "selecting"
		if tc.Prefix == "fresh" {
			shape = "initreboot"
		}
		if x.ip == nil {
			res.harness = "no address to request"
			return
		}
		ok, replied := x.request(x.mac(), x.curCid, p.RemoteID, shape, x.ip)
		res.logf("  REQUEST %s with RADIUS rejecting -> ack=%v replied=%v", x.ip, ok, replied)
		if ok {
			res.fail("C16/"+tc.Kind+"/auth-fail/acked-despite-reject", "RADIUS rejected %s but the REQUEST for %s was acknowledged", x.mac(), x.ip)
			return
		}
	} else if tc.Path == "release-odd" || tc.Path == "decline-odd" {
		est, ok := x.snapEstablished()
		if !ok {
			return
		}
		typ := dhcpv4.MessageTypeRelease
		if tc.Path == "decline-odd" {
			typ = dhcpv4.MessageTypeDecline
		}
		x.sendOdd(typ, prePool)
		if res.harness != "" {
			return
		}
		x.oddOracle(est, pre, prePool)
		if len(res.viol) > 0 || res.harness != "" {
			return
		}
	} else {
		if tc.Fault != "" {
			x.injectFault(pre)
			if res.harness != "" {
				return
			}
		}
		x.terminate(tc.Path)
	}
	if res.harness != "" {
		return
	}
	_ = acked
	firstSig := tc.Path
	if tc.Prefix == "offered" && tc.Path != "auth-fail" {
		firstSig = tc.Path + "@offered" // nothing but the pool allocation is held: a different code path decides its fate
	}
	x.oracle(firstSig, pre, prePool)
	if len(res.viol) > 0 || res.harness != "" || tc.Path == "shutdown" {
		return
	}

	// ---- second termination
	if tc.Second != "none" {
		sp := secondPath(tc.Second)
		sigPath := firstSig + "+" + sp
		c1, err := w.census()
		if err != nil {
			res.harness = err.Error()
			return
		}
		pool1 := pool.VerifState()
		leases1 := len(srv.VerifLeases())
		recs1 := len(rs.records())
		x.terminate(sp)
		if res.harness != "" {
			return
		}
		c2, err := w.census()
		if err != nil {
			res.harness = err.Error()
			return
		}
		w.unchanged(res, tc, sigPath, c1, c2)
		pool2 := pool.VerifState()
		if len(pool2.Allocated) != len(pool1.Allocated) || len(pool2.Available) != len(pool1.Available) || len(pool2.Unavailable) != len(pool1.Unavailable) {
			// a DECLINE after the end may not take the (now free) address out of service either: the session no longer holds it
			res.fail("C16/"+tc.sigKind()+"/"+sigPath+"/second-changes-pool", "the second termination changed the pool: allocated %d->%d available %d->%d unavailable %d->%d",
				len(pool1.Allocated), len(pool2.Allocated), len(pool1.Available), len(pool2.Available), len(pool1.Unavailable), len(pool2.Unavailable))
		}
		if n := len(srv.VerifLeases()); n != leases1 {
			res.fail("C16/"+tc.sigKind()+"/"+sigPath+"/second-changes-lease", "the second termination changed the lease table: %d -> %d leases", leases1, n)
		}
		if recs := rs.records(); len(recs) != recs1 {
			res.fail("C16/"+tc.sigKind()+"/"+sigPath+"/second-sends-acct", "the second termination sent accounting records: %v", recs[recs1:])
		}
		if len(res.viol) > 0 {
			return
		}
		x.oracle(sigPath, pre, prePool)
		if len(res.viol) > 0 || res.harness != "" {
			return
		}
	}

	// ---- drain probe: the pool hands out exactly as many addresses as before the session existed
	want := len(prePool.Available) - x.quarantined
	got := 0
	for i := 0; i < want+4; i++ {
		m := net.HardwareAddr{0x06, 0xdd, 0, 0, byte(i >> 8), byte(i)}
		if _, err := pool.Allocate(m); err != nil {
			break
		}
		got++
	}
	if got != want {
		res.fail("C16/"+tc.sigKind()+"/"+tc.Path+"/pool-drain", "drain probe: the pool handed out %d addresses, %d were free before the session was established (quarantined by DECLINE: %d)", got, want, x.quarantined)
	}
}

// oracle: the clauses of the statement for the session under test after a termination.
func (x *dhcpRun) oracle(sigPath string, pre *census, prePool dhcp.VerifPoolState) {
	tc, res := x.tc, x.res
	sig := func(r string) string { return "C16/" + tc.sigKind() + "/" + sigPath + "/" + r }
	// (4) accounting: only what outlives the process is demanded of a shutdown
	recs := x.rs.records()
	acctOracle(res, tc, recs, func(r acctRec) bool { return x.isMine(r.Calling) }, sigPath)
	for _, b := range x.rs.problems() {
		res.harness = "scripted RADIUS server: " + b
	}
	if firstPath(sigPath) == "shutdown" {
		return
	}
	// the server's own tables
	for _, l := range x.srv.VerifLeases() {
		for _, m := range x.macs {
			if l.Key == m.String() {
				res.fail(sig("lease"), "lease table still holds a lease for %s (%s) after the session ended", l.Key, l.Lease.IP)
			}
		}
	}
	for _, cid := range x.cids {
		if len(cid) == 0 {
			continue
		}
		for _, l := range x.srv.VerifLeasesByCircuitID() {
			if l.Key == fmt.Sprintf("%x", cid) {
				res.fail(sig("lease"), "circuit-id lease index still resolves %x to %s/%s after the session ended", cid, l.Lease.MAC, l.Lease.IP)
			}
		}
	}
	// (1) the address is back in the pool (a DECLINEd address is deliberately quarantined, RFC 2131 4.3.3:
	// it must no longer be charged to the client and is accounted for as unavailable)
	st := x.pool.VerifState()
	stillAllocated := false
	for _, m := range x.macs {
		if ip := st.Allocated[m.String()]; ip != "" {
			stillAllocated = true
			res.fail(sig("pool"), "pool still has %s allocated to %s after the session ended", ip, m)
		}
	}
	if !stillAllocated {
		newUnavail := len(st.Unavailable) - len(prePool.Unavailable)
		if newUnavail != x.quarantined {
			res.fail(sig("pool"), "pool quarantined %d addresses, the session declined %d", newUnavail, x.quarantined)
		} else if len(st.Available)+x.quarantined != len(prePool.Available) {
			res.fail(sig("pool"), "pool has %d available addresses (+%d quarantined by this session's DECLINE), %d were available before the session was established", len(st.Available), x.quarantined, len(prePool.Available))
		}
	}
	for i, m := range tc.P.BgMACs {
		if st.Allocated[net.HardwareAddr(m).String()] != x.bgIP[i].String() {
			res.fail(sig("foreign-pool"), "background client %d lost its allocation %s", i, x.bgIP[i])
		}
	}
	// (2)+(3)
	for i, m := range x.macs {
		var cid []byte
		if i == 0 {
			cid = x.cids[0]
		}
		x.w.planeOracle(res, tc, sigPath, pre, sessionIdent{MAC: m, IP: x.ip, Cid: cid})
		if len(res.viol) > 0 {
			return
		}
	}
	if x.ip2 != nil && !x.ip2.Equal(x.ip) && len(res.viol) == 0 {
		x.w.planeOracle(res, tc, sigPath, pre, sessionIdent{MAC: x.curMAC, IP: x.ip2, Cid: x.cids[0]})
	}
	for _, cid := range x.cids[1:] {
		x.w.planeOracle(res, tc, sigPath, pre, sessionIdent{MAC: x.curMAC, IP: x.ip, Cid: cid})
	}
}
