package c17

import (
	"hash/fnv"
	"testing"

	"bngverif/internal/vstat"
)

func fnv64a(s string) uint64 {
	h := fnv.New64a()
	h.Write([]byte(s))
	return h.Sum64()
}

// TestReplayFixtures: the tie fixtures really are distinct strings with one FNV-1a-64 value
// (otherwise the tie classes of the generated tier would silently test nothing).
func TestReplayFixtures(t *testing.T) {
	for _, cp := range collisionPairs {
		if cp[0] == cp[1] || fnv64a(cp[0]) != fnv64a(cp[1]) {
			t.Fatalf("INCONCLUSIVE harness fixture broken: %q/%q do not collide under FNV-1a-64", cp[0], cp[1])
		}
	}
}

// TestReplayTies: fixed regression cases around score ties (the only inputs on which list order, the
// strictness of the max search and the ranking sort are observable) and the documented 3-node example.
func TestReplayTies(t *testing.T) {
	a, b := collisionPairs[0][0], collisionPairs[0][1]
	sets := [][]string{
		{a, b},
		{b, a},
		{b, "node-0", a},
		{"node-2", b, "node-0", a, "node-1"},
		{collisionPairs[1][1], b, collisionPairs[1][0], a},
		{"node-0", "node-1", "node-2"},
	}
	subs := []string{"", "sub-0", "sub-1", "sub-2", "sub-3", "sub-4", "sub-5", "aa:bb:cc:dd:ee:ff", a, b, "\xff\xfe", "sub-6", "sub-7", "sub-8", "sub-9", "sub-10", "sub-11"}
	for _, ids := range sets {
		sorted := sortedCopy(ids)
		ref := newPool(t, sorted[0], sorted, "")
		refOwner := map[string]string{}
		refRanked := map[string][]string{}
		for _, s := range subs {
			refOwner[s] = ref.GetOwner(s)
			refRanked[s] = ref.VerifRanked(s)
		}
		for _, perm := range allPerms(len(ids)) {
			list := apply(ids, perm)
			node := list[0]
			if checkView(t, newPool(t, node, list, ""), node, ids, subs, refOwner, refRanked, "config-list", "config list "+q(list)) {
				return
			}
			p := newPool(t, node, nil, "")
			for _, x := range list[1:] {
				p.AddPeer(x)
			}
			if checkView(t, p, node, ids, subs, refOwner, refRanked, "add-order", "AddPeer "+q(list[1:])) {
				return
			}
		}
		vstat.Case(len(ids) >= 3, vstat.Hash("replay-ties", q(ids)), nil, "replay")
	}
}
