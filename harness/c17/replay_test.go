package c17

import (
	"context"
	"fmt"
	"hash/fnv"
	"testing"

	"bngverif/internal/vstat"
)

func fnv64a(s string) uint64 {
	h := fnv.New64a()
	h.Write([]byte(s))
	return h.Sum64()
}

// TestReplayFixtures: the tie fixtures really are distinct strings with one FNV-1a-64 value
// (otherwise the tie classes of the generated tier would silently test nothing).
func TestReplayFixtures(t *testing.T) {
	for _, cp := range collisionPairs {
		if cp[0] == cp[1] || fnv64a(cp[0]) != fnv64a(cp[1]) {
			t.Fatalf("INCONCLUSIVE harness fixture broken: %q/%q do not collide under FNV-1a-64", cp[0], cp[1])
		}
	}
}

// TestReplayTies: fixed regression cases around score ties (the only inputs on which list order, the
// strictness of the max search and the ranking sort are observable) and the documented 3-node example.
func TestReplayTies(t *testing.T) {
	a, b := collisionPairs[0][0], collisionPairs[0][1]
	sets := [][]string{
		{a, b},
		{b, a},
		{b, "node-0", a},
		{"node-2", b, "node-0", a, "node-1"},
		{collisionPairs[1][1], b, collisionPairs[1][0], a},
		{"node-0", "node-1", "node-2"},
	}
	subs := []string{"", "sub-0", "sub-1", "sub-2", "sub-3", "sub-4", "sub-5", "aa:bb:cc:dd:ee:ff", a, b, "\xff\xfe", "sub-6", "sub-7", "sub-8", "sub-9", "sub-10", "sub-11"}
	for _, ids := range sets {
		sorted := sortedCopy(ids)
		ref := newPool(t, sorted[0], sorted, "")
		refOwner := map[string]string{}
		refRanked := map[string][]string{}
		for _, s := range subs {
			refOwner[s] = ref.GetOwner(s)
			refRanked[s] = ref.VerifRanked(s)
		}
		for _, perm := range allPerms(len(ids)) {
			list := apply(ids, perm)
			node := list[0]
			if checkView(t, newPool(t, node, list, ""), node, ids, subs, refOwner, refRanked, "config-list", "config list "+q(list)) {
				return
			}
			p := newPool(t, node, nil, "")
			for _, x := range list[1:] {
				p.AddPeer(x)
			}
			if checkView(t, p, node, ids, subs, refOwner, refRanked, "add-order", "AddPeer "+q(list[1:])) {
				return
			}
		}
		vstat.Case(len(ids) >= 3, vstat.Hash("replay-ties", q(ids)), nil, "replay")
	}
}

// replayAlias builds the three-node cluster {X, X:8081, C} over loopback (host names resolved by the
// harness), configures C as given, and sends an allocation for a subscriber owned by X in through C and
// through X.  It asserts through the same signatures as the generated search: silent while the finding
// is listed (STALE if it no longer fires), a VIOLATION once it is not.
func replayAlias(t *testing.T, cfgC []string, addC []string, wantSig string) {
	t.Helper()
	ids := []string{"bng-x", "bng-x:8081", "core-c:9000"}
	plan := relPlan{style: "replay", named: true, ids: func(int) []string { return ids }}
	full := relCfg{Order: []int{0, 1, 2}, FromConfig: 3, DupAdd: -1}
	c := buildRelCluster(t, plan, []relCfg{full, full, full})
	if c == nil {
		t.Skip("INCONCLUSIVE: no loopback listener")
	}
	defer c.close()
	// node C as the finding describes it (buildRelCluster's generic shapes cannot say "cfg [..] then AddPeer [..]" directly)
	pc := newPool(t, ids[2], cfgC, "10.99.0.0/24")
	for _, x := range addC {
		pc.AddPeer(x)
	}
	pc.VerifSetTransport(c.tr)
	c.pools[2], c.cfgd[2], c.added[2] = pc, cfgC, addC

	fired := false
	fail := func(sig, format string, args ...any) {
		if sig == wantSig {
			fired = true
		}
		vstat.Fail(t, sig, format, args...)
	}
	// pure: every member resolves to itself
	for _, m := range ids {
		if got := pc.VerifPeerAddr(m); got != m {
			fail(addrSig(m, got, ids[2], cfgC), "node %q (cfg.Peers=%s then AddPeer %s) resolves member %q to the address %q", ids[2], q(cfgC), q(addC), m, got)
		}
	}
	// end to end: a subscriber every node assigns to X, entering at C and at X
	ctx := context.Background()
	for k := 0; k < 400; k++ {
		sub := fmt.Sprintf("sub-%d", k)
		if c.pools[0].GetOwner(sub) != ids[0] || pc.GetOwner(sub) != ids[0] || c.pools[1].GetOwner(sub) != ids[0] {
			continue
		}
		viaC, err := pc.Allocate(ctx, sub, nil)
		if err != nil {
			t.Fatalf("INCONCLUSIVE: allocate via C: %v", err)
		}
		viaX, err := c.pools[0].Allocate(ctx, sub, nil)
		if err != nil {
			t.Fatalf("INCONCLUSIVE: allocate via X: %v", err)
		}
		if viaC.NodeID != viaX.NodeID {
			fail(addrSig(ids[0], viaC.NodeID, ids[2], cfgC), "%q is owned by %q on every node; entering at %q it is served by %q, entering at %q by %q; pools holding it: %v",
				sub, ids[0], ids[2], viaC.NodeID, ids[0], viaX.NodeID, c.holders(sub))
		}
		break
	}
	vstat.Case(true, vstat.Hash("replay-alias", q(cfgC), q(addC)), nil, "replay")
	if vstat.IsListed(wantSig) && !fired {
		t.Errorf("STALE known finding: cfg.Peers=%s then AddPeer %s no longer produces %s", q(cfgC), q(addC), wantSig)
	}
}

// KF-C17-1: X:8081 listed before X in cfg.Peers of a node that does not list itself.
func TestReplayAliasBothListed(t *testing.T) {
	replayAlias(t, []string{"bng-x:8081", "bng-x"}, nil, sigAliasListed)
}

// KF-C17-2: X:8081 configured, X learnt through AddPeer.
func TestReplayAliasAddedAtRuntime(t *testing.T) {
	replayAlias(t, []string{"bng-x:8081"}, []string{"bng-x"}, sigAliasAdded)
}

// The same two shapes without the ":8081" coincidence must resolve correctly (guards the classification:
// a prefix / suffix confusion would not be filed under the listed alias signatures).
func TestReplayRelatedIdsResolve(t *testing.T) {
	for _, cs := range [][2][]string{
		{{"127.0.0.1:40010", "127.0.0.1:4001"}, nil},
		{{"127.0.0.1:40010"}, {"127.0.0.1:4001"}},
		{{"xbng-1:8081", "bng-1:8081"}, nil},
		{{"bng-10:8081"}, {"bng-1"}},
	} {
		p := newPool(t, "core-c:9000", cs[0], "")
		for _, x := range cs[1] {
			p.AddPeer(x)
		}
		for _, m := range append(append([]string{}, cs[0]...), cs[1]...) {
			if got := p.VerifPeerAddr(m); got != m {
				vstat.Fail(t, addrSig(m, got, "core-c:9000", cs[0]), "node core-c:9000 (cfg.Peers=%s then AddPeer %s) resolves member %q to the address %q", q(cs[0]), q(cs[1]), m, got)
			}
		}
		vstat.Case(true, vstat.Hash("replay-related", q(cs[0]), q(cs[1])), nil, "replay")
	}
}
