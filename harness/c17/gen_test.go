package c17

// Generators and helpers shared by the C17 checks.
//
// Domain (from the statement): a peer SET is 1..8 DISTINCT arbitrary strings; every
// node of the cluster is a member of the set; a node is configured with the set in
// any order (its own id may be omitted from the list: the constructor adds it) or
// learns the other members through AddPeer in any order.

import (
	"fmt"
	"sort"
	"strings"
	"testing"
	"time"

	"github.com/codelaboratoryltd/bng/pkg/pool"
	"pgregory.net/rapid"

	"bngverif/internal/vstat"
)

func TestMain(m *testing.M) { vstat.Main(m, "C17") }

type fataler = vstat.Fataler

// collisionPairs are pairs of DISTINCT strings with the same 64-bit FNV-1a value
// (found offline by a distinguished-point birthday search, verified by
// TestReplayFixtures).  Under highest-random-weight hashing two such peers score
// identically for every subscriber, so the owner is decided by the tie-break
// alone: this is the only place where the order of the peer list (sorted or
// not), the strictness of the max search and the stability of the ranking sort
// become observable.
var collisionPairs = [][2]string{
	{"bng-70a01d288e43488a", "bng-26394e37860f1677"},
	{"bng-dca63f8939e45119", "bng-b6cc88e0b99b8f77"},
	{"bng-749ddb005a3b4928", "bng-9b3275e4a56b6f70"},
}

type peerSet struct {
	ids       []string // distinct, in generated order
	style     string
	collision bool
}

func dedupe(in []string) []string {
	seen := map[string]bool{}
	out := in[:0:0]
	for _, s := range in {
		if !seen[s] {
			seen[s] = true
			out = append(out, s)
		}
	}
	return out
}

func genArbitraryID() *rapid.Generator[string] {
	return rapid.OneOf(
		rapid.String(),
		rapid.StringN(0, 3, -1),
		rapid.Custom(func(t *rapid.T) string { return string(rapid.SliceOfN(rapid.Byte(), 0, 10).Draw(t, "bytes")) }),
		genHostPort(),
		rapid.Custom(func(t *rapid.T) string { return fmt.Sprintf("node-%d", rapid.IntRange(0, 12).Draw(t, "k")) }),
	)
}

func genHostPort() *rapid.Generator[string] {
	return rapid.Custom(func(t *rapid.T) string {
		k := rapid.IntRange(0, 20).Draw(t, "host")
		port := rapid.SampledFrom([]int{8080, 8081, 80, 18081}).Draw(t, "port")
		switch rapid.IntRange(0, 5).Draw(t, "form") {
		case 0:
			return fmt.Sprintf("10.0.0.%d:%d", k, port)
		case 1:
			return fmt.Sprintf("bng-%d:%d", k, port)
		case 2:
			return fmt.Sprintf("bng-%d", k) // same host without a port: a prefix of form 1
		case 3:
			return fmt.Sprintf("[2001:db8::%x]:%d", k, port)
		case 4:
			return fmt.Sprintf("bng-%d.pop%d.example.net:%d", k, k%3, port)
		default:
			return fmt.Sprintf("192.168.%d.%d:%d", k, k, port)
		}
	})
}

// genPeerSet draws a set of minN..maxN distinct ids (fewer if a style cannot supply maxN distinct ones, never fewer than minN).
func genPeerSet(minN, maxN int) *rapid.Generator[peerSet] {
	return rapid.Custom(func(t *rapid.T) peerSet {
		n := rapid.IntRange(minN, maxN).Draw(t, "n")
		style := rapid.SampledFrom([]string{"arbitrary", "arbitrary", "unicode", "prefix", "hostport", "collide", "collide", "similar"}).Draw(t, "style")
		var ids []string
		coll := false
		switch style {
		case "unicode":
			ids = rapid.SliceOfN(rapid.String(), n, n).Draw(t, "ids")
		case "prefix":
			cur := rapid.StringN(0, 3, -1).Draw(t, "base")
			for i := 0; i < n; i++ {
				ids = append(ids, cur)
				cur += rapid.StringN(1, 3, -1).Draw(t, "ext")
			}
			ids = shuffle(t, ids)
		case "hostport":
			ids = rapid.SliceOfN(genHostPort(), n, n).Draw(t, "ids")
		case "collide":
			if n >= 2 {
				np := rapid.IntRange(1, min(3, n/2)).Draw(t, "pairs")
				order := rapid.Permutation([]int{0, 1, 2}).Draw(t, "whichPairs")
				for i := 0; i < np; i++ {
					ids = append(ids, collisionPairs[order[i]][0], collisionPairs[order[i]][1])
				}
				coll = true
			}
			for len(ids) < n {
				ids = append(ids, genArbitraryID().Draw(t, "filler"))
			}
			ids = shuffle(t, ids)
		case "similar":
			b := rapid.StringN(1, 6, -1).Draw(t, "base")
			vars := []string{b, b + " ", " " + b, b + "\x00", strings.ToUpper(b), strings.ToLower(b), b + b, b + ":8081", b[:len(b)-1], b + "\n", "", b + "/"}
			ids = shuffle(t, vars)
		default:
			ids = rapid.SliceOfN(genArbitraryID(), n, n).Draw(t, "ids")
		}
		ids = dedupe(ids)
		for i := 0; len(ids) < minN; i++ { // top up deterministically (never triggers for sensible styles)
			ids = dedupe(append(ids, fmt.Sprintf("fill-%d", i)))
		}
		if len(ids) > n {
			ids = ids[:n]
		}
		if coll { // the truncation/dedupe may have split a pair
			coll = false
			for _, cp := range collisionPairs {
				if contains(ids, cp[0]) && contains(ids, cp[1]) {
					coll = true
				}
			}
		}
		return peerSet{ids: ids, style: style, collision: coll}
	})
}

func contains(l []string, s string) bool {
	for _, x := range l {
		if x == s {
			return true
		}
	}
	return false
}

func shuffle(t *rapid.T, in []string) []string {
	if len(in) < 2 {
		return in
	}
	return rapid.Permutation(in).Draw(t, "shuffle")
}

// genSubs draws subscriber ids: arbitrary strings, MAC-like, numbered, raw bytes, empty, and ids that equal a peer id.
func genSubs(peers []string, minN, maxN int) *rapid.Generator[[]string] {
	one := rapid.OneOf(
		rapid.String(),
		rapid.Custom(func(t *rapid.T) string {
			b := rapid.SliceOfN(rapid.Byte(), 6, 6).Draw(t, "mac")
			return fmt.Sprintf("%02x:%02x:%02x:%02x:%02x:%02x", b[0], b[1], b[2], b[3], b[4], b[5])
		}),
		rapid.Custom(func(t *rapid.T) string { return fmt.Sprintf("sub-%d", rapid.IntRange(0, 100000).Draw(t, "k")) }),
		rapid.Custom(func(t *rapid.T) string { return string(rapid.SliceOfN(rapid.Byte(), 0, 16).Draw(t, "raw")) }),
		rapid.SampledFrom(append([]string{""}, peers...)),
	)
	return rapid.Custom(func(t *rapid.T) []string {
		return dedupe(rapid.SliceOfN(one, minN, maxN).Draw(t, "subs"))
	})
}

// newPool builds a node. The peer list is copied: NewPeerPool sorts the caller's slice in place.
func newPool(t fataler, node string, peers []string, network string) *pool.PeerPool {
	t.Helper()
	cp := append([]string(nil), peers...)
	if network == "" {
		network = "10.99.0.0/29"
	}
	p, err := pool.NewPeerPool(pool.PeerPoolConfig{
		NodeID: node, Peers: cp, Network: network, Gateway: "10.99.0.1",
		DNSServers: []string{"10.99.0.2"}, LeaseTime: time.Hour, ListenAddr: "127.0.0.1:0",
	})
	if err != nil {
		t.Fatalf("harness: NewPeerPool rejected a valid config: %v", err)
	}
	return p
}

func sortedCopy(in []string) []string {
	out := append([]string(nil), in...)
	sort.Strings(out)
	return out
}

func without(in []string, x string) []string {
	out := make([]string, 0, len(in))
	for _, s := range in {
		if s != x {
			out = append(out, s)
		}
	}
	return out
}

func sameSet(a, b []string) bool {
	if len(a) != len(b) {
		return false
	}
	x, y := sortedCopy(a), sortedCopy(b)
	for i := range x {
		if x[i] != y[i] {
			return false
		}
	}
	return true
}

func allPerms(n int) [][]int {
	var out [][]int
	idx := make([]int, n)
	for i := range idx {
		idx[i] = i
	}
	var rec func(k int)
	rec = func(k int) {
		if k == n {
			out = append(out, append([]int(nil), idx...))
			return
		}
		for i := k; i < n; i++ {
			idx[k], idx[i] = idx[i], idx[k]
			rec(k + 1)
			idx[k], idx[i] = idx[i], idx[k]
		}
	}
	rec(0)
	return out
}

func apply(ids []string, perm []int) []string {
	out := make([]string, len(perm))
	for i, j := range perm {
		out[i] = ids[j]
	}
	return out
}

// firstNotIn returns the first element of ranked that is not in the excluded set.
func firstNotIn(ranked []string, excluded map[string]bool) (string, bool) {
	for _, r := range ranked {
		if !excluded[r] {
			return r, true
		}
	}
	return "", false
}

func q(l []string) string { return fmt.Sprintf("%q", l) }

func sizeClass(n int) string { return fmt.Sprintf("size:%d", n) }
