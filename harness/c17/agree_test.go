package c17

import (
	"fmt"
	"strings"
	"testing"

	"github.com/codelaboratoryltd/bng/pkg/pool"
	"pgregory.net/rapid"

	"bngverif/internal/vstat"
)

// checkView compares one node's view (owner, local-owner flag, ranked list) with the reference view.
// mode names how the node was configured and becomes part of the violation signature.
func checkView(t fataler, p *pool.PeerPool, node string, ids, subs []string, refOwner map[string]string, refRanked map[string][]string, mode, how string) bool {
	t.Helper()
	for _, s := range subs {
		o := p.GetOwner(s)
		if !contains(ids, o) {
			return vstat.Fail(t, "C17/owner/not-member/"+mode, "node %q (%s) computes owner %q for subscriber %q, not a member of the peer set %s", node, how, o, s, q(ids))
		}
		if want, ok := refOwner[s]; ok && o != want {
			return vstat.Fail(t, "C17/owner/differs/"+mode, "subscriber %q: node %q (%s) computes owner %q, reference node (sorted config list) computes %q; peer set %s", s, node, how, o, want, q(ids))
		}
		if p.IsLocalOwner(s) != (o == node) {
			return vstat.Fail(t, "C17/owner/islocal-mismatch/"+mode, "subscriber %q at node %q: IsLocalOwner=%v but GetOwner=%q", s, node, p.IsLocalOwner(s), o)
		}
		r := p.VerifRanked(s)
		if !sameSet(r, ids) {
			return vstat.Fail(t, "C17/ranked/not-permutation/"+mode, "subscriber %q at node %q (%s): ranked list %s is not a permutation of the peer set %s", s, node, how, q(r), q(ids))
		}
		if r[0] != o {
			return vstat.Fail(t, "C17/ranked/head-not-owner/"+mode, "subscriber %q at node %q (%s): ranked list %s does not start with the owner %q", s, node, how, q(r), o)
		}
		if want, ok := refRanked[s]; ok && strings.Join(r, "\x00") != strings.Join(want, "\x00") {
			// nodes that disagree on the fallback order disagree on the owner as soon as the head is unhealthy
			return vstat.Fail(t, "C17/ranked/differs/"+mode, "subscriber %q: node %q (%s) ranks %s, reference ranks %s", s, node, how, q(r), q(want))
		}
	}
	return false
}

// TestPropAgreementOrders: every node of a peer set, configured in every order (all permutations for
// sets of <= 5, sampled above) through a config list, a config list without the node itself, incremental
// AddPeer, and AddPeer/RemovePeer detours, computes the same owner and the same ranked list for every subscriber.
func TestPropAgreementOrders(t *testing.T) {
	vstat.Checks(1200, 40000)
	rapid.Check(t, func(rt *rapid.T) {
		ps := genPeerSet(1, 8).Draw(rt, "peers")
		ids := ps.ids
		n := len(ids)
		subs := genSubs(ids, 3, 8).Draw(rt, "subs")
		outsider := "outsider-" + rapid.StringN(0, 4, -1).Draw(rt, "outsider")
		for contains(ids, outsider) {
			outsider += "x"
		}

		var perms [][]int
		exhaustive := n <= 5
		if exhaustive {
			perms = allPerms(n)
		} else {
			idx := make([]int, n)
			for i := range idx {
				idx[i] = i
			}
			k := 12
			if vstat.Thorough() {
				k = 40
			}
			for i := 0; i < k; i++ {
				perms = append(perms, rapid.Permutation(idx).Draw(rt, "perm"))
			}
		}

		// reference view: the node with the smallest id configured with the sorted list
		sorted := sortedCopy(ids)
		ref := newPool(rt, sorted[0], sorted, "")
		refOwner := map[string]string{}
		refRanked := map[string][]string{}
		if checkView(rt, ref, sorted[0], ids, subs, nil, nil, "config-list", "sorted list") {
			return
		}
		for _, s := range subs {
			refOwner[s] = ref.GetOwner(s)
			refRanked[s] = ref.VerifRanked(s)
		}

		for pi, perm := range perms {
			list := apply(ids, perm)
			node := list[0] // over all permutations every member is the local node equally often
			// (A) full config list in this order
			if checkView(rt, newPool(rt, node, list, ""), node, ids, subs, refOwner, refRanked, "config-list", "config list "+q(list)) {
				return
			}
			// (B) config list without the node itself (the constructor adds it)
			if checkView(rt, newPool(rt, node, list[1:], ""), node, ids, subs, refOwner, refRanked, "config-list-without-self", "config list "+q(list[1:])) {
				return
			}
			// (C) incremental: first k others from the config list, the rest through AddPeer in this order; duplicates are no-ops
			k := 0
			if n > 1 {
				k = pi % n
			}
			if k > n-1 {
				k = n - 1
			}
			pc := newPool(rt, node, list[1:1+k], "")
			for _, x := range list[1+k:] {
				pc.AddPeer(x)
			}
			pc.AddPeer(node)
			if n > 1 {
				pc.AddPeer(list[1+(pi%(n-1))])
			}
			if checkView(rt, pc, node, ids, subs, refOwner, refRanked, "add-order", fmt.Sprintf("config %s then AddPeer %s", q(list[1:1+k]), q(list[1+k:]))) {
				return
			}
			// (D) detours: an outsider joins and leaves, a member leaves and rejoins; the final set is the same
			pd := newPool(rt, node, nil, "")
			cut := pi % n
			for i, x := range list[1:] {
				if i == cut {
					pd.AddPeer(outsider)
				}
				pd.AddPeer(x)
			}
			pd.AddPeer(outsider)
			if n > 1 {
				victim := list[1+(pi%(n-1))]
				pd.RemovePeer(victim)
				pd.RemovePeer(outsider)
				pd.AddPeer(victim)
			} else {
				pd.RemovePeer(outsider)
			}
			if checkView(rt, pd, node, ids, subs, refOwner, refRanked, "add-remove-detour", "AddPeer order "+q(list[1:])+" with outsider joining/leaving and one member leaving/rejoining") {
				return
			}
		}

		cls := []string{sizeClass(n), "style:" + ps.style}
		if exhaustive {
			cls = append(cls, "perms:all")
		} else {
			cls = append(cls, "perms:sampled")
		}
		if ps.collision {
			cls = append(cls, "tie:fnv-collision-pair")
		}
		remote := false
		for _, s := range subs {
			if refOwner[s] != sorted[0] {
				remote = true
			}
		}
		nt := n >= 3 && remote
		if nt {
			cls = append(cls, "nt:>=3-peers-remote-owner")
		}
		vstat.Case(nt, vstat.Hash("orders", strings.Join(ids, "\x00"), strings.Join(subs, "\x00")), func() any {
			return map[string]any{"test": "orders", "peers": ids, "subs": subs, "perms": len(perms)}
		}, cls...)
	})
}
