package c17

// End-to-end layer over clusters whose node ids / addresses are TEXTUALLY RELATED.
//
// The owner computation (agree_test, disrupt_test) is only half of "a request entering at any node is
// served from exactly one node's pool": the entry node also has to turn the owner's id into the owner's
// address (forwardAllocation / forwardRelease / checkPeer -> getPeerAddr).  That step compares strings, so
// it is exercised here with ids that are prefixes / suffixes of each other, differ only in the port, or
// differ only in the presence of the default ":8081" suffix - over real loopback listeners on ports
// found at run time (p and p*10+d), and over generated host names that a harness-owned resolver
// (the transport's DialContext, the part DNS plays in a deployment) maps to loopback listeners.

import (
	"context"
	"errors"
	"fmt"
	"net"
	"net/http"
	"net/http/httptest"
	"os"
	"sort"
	"strings"
	"sync/atomic"
	"testing"
	"time"

	"github.com/codelaboratoryltd/bng/pkg/pool"
	"pgregory.net/rapid"

	"bngverif/internal/vstat"
)

// The one way in which a member's id resolves to ANOTHER member on the pinned tree: getPeerAddr treats a
// configured entry "<id>:8081" as the address of <id>, although that entry is itself the id of a different
// member.  Two variants with different repairs, hence two signatures: <id> is itself in cfg.Peers but listed
// after "<id>:8081" (the answer depends on the list order), and <id> was learnt through AddPeer only (an exact
// entry does not exist).  Any other mis-resolution reports under sigAddrOther.
const (
	sigAliasListed = "C17/addr/8081-alias-names-another-member/both-in-config-list"
	sigAliasAdded  = "C17/addr/8081-alias-names-another-member/member-learnt-by-AddPeer"
	sigAddrOther   = "C17/addr/resolves-to-other-member"
)

// addrSig classifies "the address of owner resolved to / a request for owner arrived at got" at a node that
// was given cfgPeers in cfg.Peers.
//
// The two alias signatures are keyed by the root cause, not by the look of the wrong answer: getPeerAddr matches a
// CONFIGURED entry "<id>:8081".  An answer "<id>:8081" that is not an entry of this node's cfg.Peers (the other
// member was learnt through AddPeer too, or is no member at all) cannot come from that match: it has another cause
// and reports under sigAddrOther (never listed) - while KF-C17-2 is listed it would otherwise be swallowed.
// self is the resolving node's own id: p.peers is documented as "list of peer addresses (including self)", and
// NewPeerPool sorts cfg.Peers + self in place when the caller's slice has spare capacity, so the node's own id can be
// one of the entries the match runs over.
func addrSig(owner, got, self string, cfgPeers []string) string {
	if got == owner+":8081" && (contains(cfgPeers, got) || got == self) {
		if contains(cfgPeers, owner) {
			return sigAliasListed
		}
		return sigAliasAdded
	}
	return sigAddrOther
}

func isTimeout(err error) bool {
	var ne net.Error
	return errors.As(err, &ne) && ne.Timeout()
}

func related(a, b string) bool {
	return a != b && (strings.HasPrefix(a, b) || strings.HasPrefix(b, a) || strings.HasSuffix(a, b) || strings.HasSuffix(b, a))
}

func dialAddr(id string) string {
	if _, _, err := net.SplitHostPort(id); err != nil {
		return id + ":80" // "http://<id>/..." without a port
	}
	return id
}

// relPlan is a generated cluster shape; ids(attempt) gives the node ids for the attempt-th try (styles on
// real addresses move to other ports / hosts when a listener cannot be bound).
type relPlan struct {
	style string
	named bool
	ids   func(attempt int) []string
}

// Listener addresses of the real-address styles are node ids, so they are generated: random hosts in
// 127.128.0.0/9, never 127.0.0.1 (where every other program on the machine asks the kernel for ports, and
// where the source ports of all loopback connections live).  A port freed by a stopped node can then only
// be bound again by this process - a probe of a dead node can never be answered by somebody else's server,
// and nobody else's probe can reach one of these nodes.
func genLoopHost(t *rapid.T) [3]int {
	return [3]int{rapid.IntRange(128, 255).Draw(t, "a"), rapid.IntRange(0, 255).Draw(t, "b"), rapid.IntRange(1, 24).Draw(t, "c")}
}

// privateLoopIP is where the listeners behind generated host names live: an address in 127.64.0.0/10 derived
// from the pid, so that kernel-assigned ports are never recycled between concurrently running test processes
// (the names, not these addresses, are the node ids: the case stays reproducible).
func privateLoopIP() string {
	pid := os.Getpid()
	return fmt.Sprintf("127.%d.%d.%d", 64+(pid>>14)&63, (pid>>7)&127, 1+pid&127)
}

func hostStr(h [3]int) string { return fmt.Sprintf("127.%d.%d.%d", h[0], h[1], h[2]) }

func genRelPlan(aliasPct int) *rapid.Generator[relPlan] {
	return rapid.Custom(func(t *rapid.T) relPlan {
		styles := []string{"real:port-prefix", "real:port-prefix", "real:port-prefix", "real:port-chain", "real:port-only", "real:no-port", "named:prefix", "named:prefix", "named:suffix", "named:mixed"}
		style := rapid.SampledFrom(styles).Draw(t, "style")
		// the ":8081"-alias pair (X and X:8081 both members) ends most cases at the listed finding: keep it a minority class while listed
		wantAlias := rapid.IntRange(0, 99).Draw(t, "aliasPair") < aliasPct
		n := rapid.IntRange(3, 4).Draw(t, "n")
		h := genLoopHost(t)
		h2 := [3]int{rapid.IntRange(128, 255).Draw(t, "a2"), rapid.IntRange(0, 255).Draw(t, "b2"), rapid.IntRange(30, 250).Draw(t, "c2")}
		switch style {
		case "real:port-prefix":
			p := rapid.IntRange(1025, 6552).Draw(t, "p")
			d := rapid.IntRange(0, 9).Draw(t, "d")
			third := rapid.IntRange(0, 3).Draw(t, "third")
			d2 := (d + 1 + rapid.IntRange(0, 8).Draw(t, "d2")) % 10
			perm := rapid.Permutation([]int{0, 1, 2, 3}).Draw(t, "idOrder")
			return relPlan{style: style, ids: func(a int) []string {
				q := 1025 + (p-1025+a*37)%(6552-1025+1)
				host := hostStr(h)
				ids := []string{fmt.Sprintf("%s:%d", host, q), fmt.Sprintf("%s:%d", host, q*10+d)}
				switch third {
				case 0:
					ids = append(ids, fmt.Sprintf("%s:%d", host, q*10+d2)) // two longer ports over one short one
				case 1:
					ids = append(ids, fmt.Sprintf("%s:%d", host, q+1)) // differs from the short id in the last digit only
				case 2:
					ids = append(ids, fmt.Sprintf("%s:%d", hostStr(h2), q)) // same port, other host
				default:
					ids = append(ids, fmt.Sprintf("%s:8081", hostStr(h2)))
				}
				ids = append(ids, fmt.Sprintf("%s:%d", hostStr(h2), 18081))
				return permute(dedupe(ids), perm)[:min(n, len(dedupe(ids)))]
			}}
		case "real:port-chain":
			p := rapid.IntRange(110, 654).Draw(t, "p")
			d, e := rapid.IntRange(0, 9).Draw(t, "d"), rapid.IntRange(0, 9).Draw(t, "e")
			perm := rapid.Permutation([]int{0, 1, 2, 3}).Draw(t, "idOrder")
			return relPlan{style: style, ids: func(a int) []string {
				q := 110 + (p-110+a*37)%(654-110+1)
				host := hostStr(h)
				ids := []string{fmt.Sprintf("%s:%d", host, q), fmt.Sprintf("%s:%d", host, q*10+d), fmt.Sprintf("%s:%d", host, (q*10+d)*10+e), fmt.Sprintf("%s:8081", hostStr(h2))}
				return permute(ids, perm)[:n]
			}}
		case "real:port-only":
			ports := rapid.Permutation([]int{8081, 8082, 18081, 8080, 8181, 808}).Draw(t, "ports")
			return relPlan{style: style, ids: func(a int) []string {
				hh := h
				hh[1] = (hh[1] + a) % 256
				var ids []string
				for _, pt := range ports[:n] {
					ids = append(ids, fmt.Sprintf("%s:%d", hostStr(hh), pt))
				}
				return ids
			}}
		case "real:no-port":
			// ids without a port are reached at port 80 ("http://<id>/pool/...")
			third := rapid.IntRange(0, 3).Draw(t, "third")
			perm := rapid.Permutation([]int{0, 1, 2, 3}).Draw(t, "idOrder")
			return relPlan{style: style, ids: func(a int) []string {
				hh := h
				hh[1] = (hh[1] + a) % 256
				host := hostStr(hh)
				ids := []string{host}
				if wantAlias {
					ids = append(ids, host+":8081")
				} else {
					ids = append(ids, host+":18081")
				}
				switch third {
				case 0:
					ids = append(ids, host+"0") // 127.a.b.c and 127.a.b.c0
				case 1:
					ids = append(ids, host+":808")
				case 2:
					ids = append(ids, host+"0:8081")
				default:
					ids = append(ids, hostStr(h2))
				}
				ids = append(ids, hostStr(h2)+":8081")
				return permute(ids, perm)[:n]
			}}
		default: // named:*
			base := rapid.SampledFrom([]string{"bng-1", "bng", "n", "core.bng.example.net", "10.0.0.1", "a-b"}).Draw(t, "base")
			var vars []string
			switch style {
			case "named:prefix":
				vars = []string{base, base + "0", base + "0:8081", base + ":808", base + ":18081", base + "-a:8081", base + ":8080", base + "01:8081"}
			case "named:suffix":
				vars = []string{base, "x" + base, "xx" + base, base + ":18081", "x" + base + ":18081", "0" + base + ":18081", "x" + base + ":808"}
			default:
				vars = []string{base, base + "0", "x" + base, base + ":18081", "x" + base + ":18081", base + "0:18081", base + ":808", "x" + base + ":808", base + ".example.net:8081", "other:8081"}
			}
			vars = dedupe(vars)
			pick := rapid.Permutation(vars).Draw(t, "variants")[:n]
			if wantAlias {
				// X and X:8081 (distinct members; X is reached at port 80, X:8081 at port 8081)
				x := pick[0]
				if strings.Contains(x, ":") {
					x = x[:strings.Index(x, ":")]
				}
				pick = dedupe(append([]string{x, x + ":8081"}, pick[1:]...))
				if len(pick) > 4 {
					pick = pick[:4]
				}
				pick = rapid.Permutation(pick).Draw(t, "withAlias")
			} else {
				// an accidental pair of that shape would make the class a majority again
				for i, x := range pick {
					if strings.HasSuffix(x, ":8081") && contains(pick, strings.TrimSuffix(x, ":8081")) {
						pick[i] = strings.TrimSuffix(x, ":8081") + ":18082"
					}
				}
				pick = dedupe(pick)
			}
			// two ids must not name one endpoint (X and X:80)
			seen := map[string]bool{}
			var ids []string
			for _, x := range pick {
				if !seen[dialAddr(x)] {
					seen[dialAddr(x)] = true
					ids = append(ids, x)
				}
			}
			for i := 0; len(ids) < 3; i++ {
				ids = dedupe(append(ids, fmt.Sprintf("fill-%d:8081", i)))
			}
			return relPlan{style: style, named: true, ids: func(int) []string { return ids }}
		}
	})
}

func permute(ids []string, perm []int) []string {
	var out []string
	for _, j := range perm {
		if j < len(ids) {
			out = append(out, ids[j])
		}
	}
	return out
}

// relCfg: how one node learns the peer set.
type relCfg struct {
	Order      []int `json:"order"`       // permutation of the node indexes (the node itself included)
	OmitSelf   bool  `json:"omit_self"`   // the node does not list itself (NewPeerPool adds it)
	FromConfig int   `json:"from_config"` // this many entries come from cfg.Peers, the rest through AddPeer in order
	Slack      int   `json:"cap_slack"`   // spare capacity of the cfg.Peers slice (NewPeerPool appends to and sorts the caller's slice)
	DupAdd     int   `json:"dup_add"`     // >= 0: AddPeer of this (already known) member again at the end
}

func genRelCfg(n int) *rapid.Generator[relCfg] {
	idx := make([]int, n)
	for i := range idx {
		idx[i] = i
	}
	return rapid.Custom(func(t *rapid.T) relCfg {
		return relCfg{
			Order:      rapid.Permutation(idx).Draw(t, "order"),
			OmitSelf:   rapid.Bool().Draw(t, "omitSelf"),
			FromConfig: rapid.SampledFrom([]int{n, n, n, 0, 1, 2, n - 1}).Draw(t, "fromConfig"),
			Slack:      rapid.SampledFrom([]int{0, 0, 1, 3}).Draw(t, "slack"),
			DupAdd:     rapid.IntRange(-2, n-1).Draw(t, "dupAdd"),
		}
	})
}

type relCounters struct{ alloc, release, status atomic.Int64 }

type relCluster struct {
	ids    []string
	srv    []*httptest.Server
	pools  []*pool.PeerPool
	alive  []bool
	hits   []*relCounters
	tr     *http.Transport
	cfgd   [][]string // per node: entries given in cfg.Peers (in order)
	added  [][]string // per node: AddPeer calls (in order)
	listen []string
}

func (c *relCluster) close() {
	for i, s := range c.srv {
		if c.alive[i] {
			s.Close()
		}
	}
	if c.tr != nil {
		c.tr.CloseIdleConnections()
	}
	if tr, ok := http.DefaultTransport.(*http.Transport); ok {
		tr.CloseIdleConnections()
	}
}

func (c *relCluster) index(id string) int {
	for i, x := range c.ids {
		if x == id {
			return i
		}
	}
	return -1
}

// buildRelCluster binds the listeners (moving to another port / host when an address is taken) and
// configures every node as generated.  nil = nothing bindable (case discarded).
func buildRelCluster(rt fataler, plan relPlan, cfgs []relCfg) *relCluster {
	var lns []net.Listener
	var ids []string
	for attempt := 0; attempt < 25 && lns == nil; attempt++ {
		ids = plan.ids(attempt)
		for _, id := range ids {
			la := dialAddr(id)
			if plan.named {
				la = privateLoopIP() + ":0"
			}
			ln, err := net.Listen("tcp4", la)
			if err != nil {
				for _, l := range lns {
					l.Close()
				}
				lns = nil
				break
			}
			lns = append(lns, ln)
		}
	}
	if lns == nil {
		return nil
	}
	n := len(ids)
	c := &relCluster{ids: ids}
	table := map[string]string{}
	muxes := make([]*http.ServeMux, n)
	for i := range ids {
		mux := http.NewServeMux()
		muxes[i] = mux
		h := &relCounters{}
		c.hits = append(c.hits, h)
		s := httptest.NewUnstartedServer(http.HandlerFunc(func(w http.ResponseWriter, r *http.Request) {
			switch {
			case r.URL.Path == "/pool/allocate":
				h.alloc.Add(1)
			case strings.HasPrefix(r.URL.Path, "/pool/release/"):
				h.release.Add(1)
			case r.URL.Path == "/pool/status":
				h.status.Add(1)
			}
			mux.ServeHTTP(w, r)
		}))
		s.Listener.Close()
		s.Listener = lns[i]
		s.Start()
		c.srv = append(c.srv, s)
		c.alive = append(c.alive, true)
		c.listen = append(c.listen, lns[i].Addr().String())
		table[dialAddr(ids[i])] = lns[i].Addr().String()
	}
	if plan.named {
		d := &net.Dialer{Timeout: 5 * time.Second}
		c.tr = &http.Transport{
			DialContext: func(ctx context.Context, network, addr string) (net.Conn, error) {
				real, ok := table[addr]
				if !ok {
					return nil, &net.DNSError{Err: "no such host", Name: addr, IsNotFound: true}
				}
				return d.DialContext(ctx, "tcp4", real)
			},
			MaxIdleConnsPerHost: 4,
		}
	}
	for i := range ids {
		cf := cfgs[i]
		var list []string
		for _, j := range cf.Order {
			if j >= n || (cf.OmitSelf && j == i) {
				continue
			}
			list = append(list, ids[j])
		}
		k := min(cf.FromConfig, len(list))
		peers := make([]string, k, k+cf.Slack)
		copy(peers, list[:k])
		p, err := pool.NewPeerPool(pool.PeerPoolConfig{
			NodeID: ids[i], Peers: peers, Network: "10.99.0.0/24", Gateway: "10.99.0.1",
			DNSServers: []string{"10.99.0.2"}, LeaseTime: time.Hour, ListenAddr: c.listen[i],
		})
		if err != nil {
			rt.Fatalf("harness: NewPeerPool rejected a valid config: %v", err)
		}
		adds := append([]string(nil), list[k:]...)
		if cf.DupAdd >= 0 && cf.DupAdd < n {
			adds = append(adds, ids[cf.DupAdd])
		}
		for _, x := range adds {
			p.AddPeer(x)
		}
		if c.tr != nil {
			p.VerifSetTransport(c.tr)
		}
		p.RegisterHandlers(muxes[i])
		c.pools = append(c.pools, p)
		c.cfgd = append(c.cfgd, append([]string(nil), list[:k]...))
		c.added = append(c.added, adds)
	}
	return c
}

type hitSnap struct{ alloc, release, status []int64 }

func (c *relCluster) snap() hitSnap {
	var s hitSnap
	for _, h := range c.hits {
		s.alloc = append(s.alloc, h.alloc.Load())
		s.release = append(s.release, h.release.Load())
		s.status = append(s.status, h.status.Load())
	}
	return s
}

func (c *relCluster) holders(sub string) []int {
	var out []int
	for i, p := range c.pools {
		if !c.alive[i] {
			continue
		}
		if _, ok := p.VerifLocalHolds(sub); ok {
			out = append(out, i)
		}
	}
	return out
}

func (c *relCluster) allocated() []int {
	out := make([]int, len(c.pools))
	for i, p := range c.pools {
		out[i] = p.Stats().Allocated
	}
	return out
}

// routed judges where one forwarded request went: exactly one request at the target (when the sender is
// not the target itself and the target is alive), none anywhere else.  kind names the request in the message.
func (c *relCluster) routed(rt fataler, desc, kind string, before, after []int64, sender int, target string) (abandon bool) {
	ti := c.index(target)
	want := func(i int) int64 {
		if i == ti && i != sender {
			return 1
		}
		return 0
	}
	for i := range c.ids { // first: a request that arrived where it should not
		if got := after[i] - before[i]; c.alive[i] && got > want(i) {
			return vstat.Fail(rt, addrSig(target, c.ids[i], c.ids[sender], c.cfgd[sender]), "%s: the %s request of node %q meant for %q arrived at node %q (%d requests, want %d); node %q was configured with cfg.Peers=%s then AddPeer %s",
				desc, kind, c.ids[sender], target, c.ids[i], got, want(i), c.ids[sender], q(c.cfgd[sender]), q(c.added[sender]))
		}
	}
	for i := range c.ids {
		if !c.alive[i] || after[i]-before[i] == want(i) {
			continue
		}
		// the target saw nothing: find out from the address the sender resolves (classification only)
		res := c.pools[sender].VerifPeerAddr(target)
		sig := "C17/e2e/request-never-reached-owner"
		if res != target {
			sig = addrSig(target, res, c.ids[sender], c.cfgd[sender])
		}
		return vstat.Fail(rt, sig, "%s: the %s request of node %q meant for the live node %q never arrived there (node %q resolves %q to the address %q); cfg.Peers=%s then AddPeer %s",
			desc, kind, c.ids[sender], target, c.ids[sender], target, res, q(c.cfgd[sender]), q(c.added[sender]))
	}
	return false
}

type relOp struct {
	Kind  string `json:"op"` // alloc | allocAll | release | probe | kill | detect
	Sub   string `json:"sub,omitempty"`
	Entry int    `json:"entry"`
	Order []int  `json:"order,omitempty"`
}

// TestPropEndToEndRelatedAddrs: 3-4 nodes whose ids are textually related, every node configured its own
// way (config order, with/without itself, cfg.Peers vs AddPeer in any split, spare slice capacity).
// Allocations, renewals (a second allocate for a held subscriber) and releases enter at every node; health
// probe rounds run as the real loop runs them; one node may die and be detected.  Oracle: every live node
// computes the same serving node; a forwarded request (and a probe) arrives at exactly that node and nowhere
// else; the NodeID and address in the response are the same whichever the entry node; afterwards exactly that
// node's pool holds the subscriber and no other pool changed; a probe of peer j changes node i's opinion of j
// only, never before three consecutive failures, and after three rounds opinion = liveness.  At the end every
// node must resolve every member's id to that member's own address.
func TestPropEndToEndRelatedAddrs(t *testing.T) {
	vstat.Checks(260, 5000)
	ctx := context.Background()
	aliasListed := vstat.IsListed(sigAliasListed) || vstat.IsListed(sigAliasAdded)
	rapid.Check(t, func(rt *rapid.T) {
		// "failure first": a node dies and is detected before any request is routed.  Where requests come first, a cluster
		// with an X / X:8081 pair mostly ends at the listed alias finding before its health attribution is ever looked at,
		// so these cases carry most of the pairs.
		failureFirst := rapid.IntRange(0, 3).Draw(rt, "failureFirst") == 0
		aliasPct := map[bool]int{true: 12, false: 40}[aliasListed]
		if failureFirst {
			aliasPct = 50
		}
		plan := genRelPlan(aliasPct).Draw(rt, "plan")
		n := len(plan.ids(0))
		cfgs := make([]relCfg, n)
		for i := range cfgs {
			cfgs[i] = genRelCfg(n).Draw(rt, "cfg")
		}
		idx := make([]int, n)
		for i := range idx {
			idx[i] = i
		}
		subGen := rapid.OneOf(
			rapid.Custom(func(t *rapid.T) string { return fmt.Sprintf("sub-%d", rapid.IntRange(0, 40).Draw(t, "k")) }),
			rapid.Custom(func(t *rapid.T) string {
				b := rapid.SliceOfN(rapid.Byte(), 6, 6).Draw(t, "mac")
				return net.HardwareAddr(b).String()
			}),
			rapid.StringMatching(`[a-zA-Z0-9_.:-]{1,12}`).Filter(urlSafe),
		)
		alphabet := dedupe(rapid.SliceOfN(subGen, 6, 12).Draw(rt, "subscribers"))
		nops := rapid.IntRange(8, 28).Draw(rt, "nops")
		killAt, detectAfter, victim := -1, 0, 0
		if failureFirst || rapid.IntRange(0, 9).Draw(rt, "withFailure") < 4 {
			killAt = rapid.IntRange(1, nops-1).Draw(rt, "killAt")
			if failureFirst {
				killAt = 0
			}
			victim = rapid.IntRange(0, n-1).Draw(rt, "victim")
			ids0 := plan.ids(0)
			for i, x := range ids0 { // where a pair X / X:8081 exists, the death of either end is the interesting one
				if (contains(ids0, x+":8081") || (strings.HasSuffix(x, ":8081") && contains(ids0, strings.TrimSuffix(x, ":8081")))) && rapid.Bool().Draw(rt, "victimInPair") {
					victim = i
				}
			}
			detectAfter = rapid.SampledFrom([]int{0, 1, 2, 4}).Draw(rt, "detectAfter")
			if failureFirst {
				detectAfter = 0
			}
		}
		var ops []relOp
		var touched []string
		for i := 0; i < nops; i++ {
			if i == killAt {
				ops = append(ops, relOp{Kind: "kill", Entry: victim})
				continue
			}
			if killAt >= 0 && i == killAt+1+detectAfter {
				ops = append(ops, relOp{Kind: "detect", Entry: victim})
			}
			s := rapid.SampledFrom(alphabet).Draw(rt, "sub")
			if len(touched) > 0 && rapid.IntRange(0, 2).Draw(rt, "again") == 0 {
				s = rapid.SampledFrom(touched).Draw(rt, "heldSub") // renewal / release of something allocated before
			}
			op := relOp{Sub: s, Entry: rapid.IntRange(0, n-1).Draw(rt, "entry")}
			switch rapid.IntRange(0, 9).Draw(rt, "kind") {
			case 0, 1, 2, 3:
				op.Kind = "alloc"
			case 4, 5:
				op.Kind = "allocAll"
				op.Order = rapid.Permutation(idx).Draw(rt, "entryOrder")
			case 6, 7:
				op.Kind = "release"
			default:
				op = relOp{Kind: "probe", Entry: op.Entry}
			}
			if op.Kind == "alloc" || op.Kind == "allocAll" {
				touched = append(touched, s)
			}
			ops = append(ops, op)
		}

		c := buildRelCluster(rt, plan, cfgs)
		if c == nil {
			rt.Skip("no bindable loopback addresses for this shape")
		}
		defer c.close()
		ids := c.ids

		type held struct{ node, ip string }
		model := map[string]held{}
		dead, detected := -1, false
		forwarded, relatedForward, sawFailover, sawUndetected, renewed, probed := false, false, false, false, false, false
		isRelated := func(id string) bool {
			for _, o := range ids {
				if related(id, o) {
					return true
				}
			}
			return false
		}

		// the serving node every live node computes (agreement is part of the oracle)
		agreed := func(desc, sub string) (string, bool) {
			var eff []string
			for i, p := range c.pools {
				if i != dead {
					eff = append(eff, p.VerifHealthyOwner(sub))
				}
			}
			for _, e := range eff[1:] {
				if e != eff[0] {
					return "", vstat.Fail(rt, "C17/e2e/nodes-disagree", "%s: live nodes compute different serving nodes %s for %q", desc, q(eff), sub)
				}
			}
			if c.index(eff[0]) < 0 {
				return "", vstat.Fail(rt, "C17/e2e/owner-not-member", "%s: serving node %q for %q is not a member of %s", desc, eff[0], sub, q(ids))
			}
			return eff[0], false
		}

		allocAt := func(desc string, entry int, sub string) (abandon bool) {
			owner, ab := agreed(desc, sub)
			if ab {
				return true
			}
			oi := c.index(owner)
			ownerDown := oi == dead
			if ownerDown && detected {
				return vstat.Fail(rt, "C17/e2e/dead-node-chosen", "%s: live nodes chose the dead node %q for %q", desc, owner, sub)
			}
			before, hb := c.allocated(), c.snap()
			resp, err := c.pools[entry].Allocate(ctx, sub, net.HardwareAddr{2, 0, 0, 0, 0, byte(entry)})
			ha := c.snap()
			if c.routed(rt, desc, "allocate", hb.alloc, ha.alloc, entry, owner) {
				return true
			}
			if ownerDown {
				sawUndetected = true
				if err == nil {
					return vstat.Fail(rt, "C17/e2e/served-by-non-owner-while-owner-down", "%s: every live node computes the (stopped, undetected) node %q for %q, yet the request was served by %q", desc, owner, sub, resp.NodeID)
				}
				for i, a := range c.allocated() {
					if a != before[i] {
						return vstat.Fail(rt, "C17/e2e/other-pool-changed", "%s: request failed (%v) but node %d's pool went from %d to %d allocations", desc, err, i, before[i], a)
					}
				}
				return false
			}
			if isTimeout(err) {
				rt.Skip("the forwarding client's 5 s timeout expired on loopback (overloaded machine): the case is inconclusive")
			}
			if err != nil {
				return vstat.Fail(rt, "C17/e2e/alloc-error", "%s: allocation failed although the chosen node %q is alive (pool /24, <=12 subscribers): %v", desc, owner, err)
			}
			if entry != oi {
				forwarded = true
				if isRelated(owner) {
					relatedForward = true
				}
			}
			if resp.NodeID != owner {
				return vstat.Fail(rt, "C17/e2e/node-differs", "%s: response NodeID %q but every node computes %q as the serving node", desc, resp.NodeID, owner)
			}
			if h, ok := model[sub]; ok {
				renewed = true
				if h.node != resp.NodeID {
					if dead < 0 {
						return vstat.Fail(rt, "C17/e2e/node-differs-by-entry", "%s: %q was served by %q before, now by %q (entry node %q)", desc, sub, h.node, resp.NodeID, ids[entry])
					}
					return vstat.Fail(rt, "C17/e2e/failover-moved-foreign-subscriber", "%s: %q was held by live node %q, after node %q died it is served by %q", desc, sub, h.node, ids[dead], resp.NodeID)
				}
				if h.ip != resp.IP {
					return vstat.Fail(rt, "C17/e2e/address-differs-by-entry", "%s: %q got %s before and %s now from the same node", desc, sub, h.ip, resp.IP)
				}
			} else if dead >= 0 {
				sawFailover = true
			}
			for i, a := range c.allocated() {
				if i != oi && a != before[i] && i != dead {
					return vstat.Fail(rt, "C17/e2e/other-pool-changed", "%s: served by %q but node %q's pool went from %d to %d allocations", desc, resp.NodeID, ids[i], before[i], a)
				}
			}
			if hs := c.holders(sub); len(hs) != 1 || hs[0] != oi {
				return vstat.Fail(rt, "C17/e2e/holders", "%s: after the request the live nodes holding %q are %v, want exactly the node %q", desc, sub, hs, owner)
			}
			model[sub] = held{resp.NodeID, resp.IP}
			return false
		}

		// one probe of peer j by node i, as healthCheckLoop issues it
		// The routing verdict of a probe is returned as a closure: a detection phase judges the nodes' opinions first
		// (after every round) and where the probes went afterwards.
		probe := func(desc string, i int, j string) (abandon bool, routing func() bool) {
			ji := c.index(j)
			view := map[string]bool{}
			for _, m := range ids {
				view[m] = c.pools[i].IsPeerHealthy(m)
			}
			hb := c.snap()
			c.pools[i].VerifCheckPeer(ctx, j)
			ha := c.snap()
			for _, m := range ids {
				if m != j && c.pools[i].IsPeerHealthy(m) != view[m] {
					return vstat.Fail(rt, "C17/e2e/probe-changed-other-peers-health", "%s: node %q probed %q and its opinion of %q went from healthy=%v to %v", desc, ids[i], j, m, view[m], !view[m]), nil
				}
			}
			targetAlive := ji >= 0 && c.alive[ji]
			return false, func() bool {
				if targetAlive {
					return c.routed(rt, desc, "health-probe", hb.status, ha.status, i, j)
				}
				for k := range ids {
					if c.alive[k] && ha.status[k] != hb.status[k] {
						return vstat.Fail(rt, addrSig(j, ids[k], ids[i], c.cfgd[i]), "%s: node %q probed the stopped node %q and the probe was answered by node %q", desc, ids[i], j, ids[k])
					}
				}
				return false
			}
		}
		round := func(desc string, i int, later *[]func() bool) (abandon bool) {
			nodes := c.pools[i].VerifPeerNodes()
			sort.Strings(nodes)
			for _, j := range nodes {
				if j == ids[i] {
					continue
				}
				ab, routing := probe(desc, i, j)
				if ab {
					return true
				}
				if later != nil {
					*later = append(*later, routing)
				} else if routing() {
					return true
				}
			}
			return false
		}
		opinions := func(desc string, i int, final bool) (abandon bool) {
			for k, m := range ids {
				if k == i {
					continue
				}
				got := c.pools[i].IsPeerHealthy(m)
				want := c.alive[k] || !final
				if got == want {
					continue
				}
				if ai := c.index(m + ":8081"); ai >= 0 && c.alive[ai] == got {
					return vstat.Fail(rt, addrSig(m, m+":8081", ids[i], c.cfgd[i]), "%s: node %q considers %q healthy=%v (it is alive=%v); that is the state of the other member %q", desc, ids[i], m, got, c.alive[k], m+":8081")
				}
				if !final {
					return vstat.Fail(rt, "C17/e2e/unhealthy-before-threshold", "%s: node %q considers %q unhealthy before three consecutive failed probes of it", desc, ids[i], m)
				}
				if got {
					return vstat.Fail(rt, "C17/e2e/dead-peer-still-healthy", "%s: node %q still considers the stopped node %q healthy after 3 failed probe rounds", desc, ids[i], m)
				}
				return vstat.Fail(rt, "C17/e2e/live-peer-marked-unhealthy", "%s: node %q considers the live node %q unhealthy after the probe rounds", desc, ids[i], m)
			}
			return false
		}

		for step, op := range ops {
			desc := fmt.Sprintf("step %d %+v", step, op)
			entry := op.Entry
			if entry == dead {
				entry = (entry + 1) % n // nobody can enter at a dead node
			}
			switch op.Kind {
			case "kill":
				dead = op.Entry
				c.srv[dead].Close()
				c.alive[dead] = false
				for s, h := range model {
					if h.node == ids[dead] {
						delete(model, s) // what the dead node held is gone with it
					}
				}
			case "detect":
				var later []func() bool
				for r := 1; r <= 3; r++ {
					for i := range c.pools {
						if i == dead {
							continue
						}
						if round(desc, i, &later) || opinions(fmt.Sprintf("%s round %d", desc, r), i, r == 3) {
							return
						}
					}
				}
				for _, routing := range later {
					if routing() {
						return
					}
				}
				detected = true
			case "probe":
				if dead >= 0 && !detected {
					continue // between a death and its detection the nodes' opinions legitimately differ for a while: no probe rounds there
				}
				probed = true
				if round(desc, entry, nil) || opinions(desc, entry, dead < 0 || detected) {
					return
				}
			case "alloc":
				if allocAt(desc, entry, op.Sub) {
					return
				}
			case "allocAll":
				for _, e := range op.Order {
					if e != dead && allocAt(fmt.Sprintf("%s via %q", desc, ids[e]), e, op.Sub) {
						return
					}
				}
			case "release":
				owner, ab := agreed(desc, op.Sub)
				if ab {
					return
				}
				oi := c.index(owner)
				hb := c.snap()
				err := c.pools[entry].Release(ctx, op.Sub)
				ha := c.snap()
				if c.routed(rt, desc, "release", hb.release, ha.release, entry, owner) {
					return
				}
				if oi == dead {
					continue // the serving node is down and not yet detected: the release cannot be carried out
				}
				if entry != oi {
					forwarded = true
					if isRelated(owner) {
						relatedForward = true
					}
				}
				if isTimeout(err) {
					rt.Skip("the forwarding client's 5 s timeout expired on loopback (overloaded machine): the case is inconclusive")
				}
				if err != nil {
					if vstat.Fail(rt, "C17/e2e/release-error", "%s: release failed although every chosen node is alive: %v", desc, err) {
						return
					}
				}
				if hs := c.holders(op.Sub); len(hs) != 0 {
					if vstat.Fail(rt, "C17/e2e/release-left-holder", "%s: after the release nodes %v still hold %q", desc, hs, op.Sub) {
						return
					}
				}
				delete(model, op.Sub)
			}
		}

		// direct probe of the owner -> address step: every node resolves every member to that member's own address
		for i, p := range c.pools {
			if i == dead {
				continue
			}
			for _, m := range ids {
				if got := p.VerifPeerAddr(m); got != m {
					if vstat.Fail(rt, addrSig(m, got, ids[i], c.cfgd[i]), "node %q (cfg.Peers=%s then AddPeer %s) resolves member %q to the address %q", ids[i], q(c.cfgd[i]), q(c.added[i]), m, got) {
						return
					}
				}
			}
		}

		cls := []string{"e2e-related", "rel-style:" + plan.style, fmt.Sprintf("rel-nodes:%d", n)}
		pre, suf, alias, portOnly, noPort := false, false, false, false, false
		for _, a := range ids {
			if !strings.Contains(a, ":") {
				noPort = true
			}
			for _, b := range ids {
				if a == b {
					continue
				}
				if strings.HasPrefix(b, a) {
					pre = true
				}
				if strings.HasSuffix(b, a) {
					suf = true
				}
				if b == a+":8081" {
					alias = true
				}
				ha, _, ea := net.SplitHostPort(a)
				hb, _, eb := net.SplitHostPort(b)
				if ea == nil && eb == nil && ha == hb {
					portOnly = true
				}
			}
		}
		for name, on := range map[string]bool{"rel:id-is-prefix-of-another": pre, "rel:id-is-suffix-of-another": suf, "rel:X-and-X:8081": alias,
			"rel:differ-only-by-port": portOnly, "rel:id-without-port": noPort, "rel:named-hosts": plan.named, "rel:real-addresses": !plan.named,
			"rel:node-failure": dead >= 0, "rel:alloc-after-failure": sawFailover, "rel:request-for-undetected-dead-owner": sawUndetected,
			"rel:renewal": renewed, "rel:probe-round": probed || detected, "rel:failure-before-any-request": failureFirst, "rel:forward-to-related-owner": relatedForward} {
			if on {
				cls = append(cls, name)
			}
		}
		for i, cf := range cfgs {
			if cf.OmitSelf {
				cls = append(cls, "rel-cfg:a-node-omits-itself")
			}
			if len(c.added[i]) > 0 {
				cls = append(cls, "rel-cfg:a-node-uses-AddPeer")
			}
			if len(c.cfgd[i]) == 0 {
				cls = append(cls, "rel-cfg:a-node-only-AddPeer")
			}
		}
		cls = dedupe(cls)
		if forwarded {
			cls = append(cls, "nt:>=3-peers-remote-owner")
		}
		vstat.Case(forwarded, vstat.Hash("e2e-related", plan.style, strings.Join(plan.ids(0), ","), fmt.Sprint(cfgs), fmt.Sprintf("%q", ops)), func() any {
			return map[string]any{"test": "e2e-related", "style": plan.style, "nodes": ids, "configs": cfgs, "ops": ops}
		}, cls...)
	})
}

// TestPropAddressResolution: the owner -> address step on its own, over generated peer sets of distinct ids
// (the styles of genPeerSet plus chains of suffixes, host:port families and ":8081" pairs), every member as
// the local node, learnt through cfg.Peers in a generated order (with / without the node itself, spare slice
// capacity) and AddPeer for the rest.  A node id is the node's address, so every member must resolve to itself.
func TestPropAddressResolution(t *testing.T) {
	vstat.Checks(1500, 60000)
	aliasListed := vstat.IsListed(sigAliasListed) || vstat.IsListed(sigAliasAdded)
	rapid.Check(t, func(rt *rapid.T) {
		var ids []string
		style := rapid.SampledFrom([]string{"peerset", "peerset", "suffix-chain", "port-family", "port-family"}).Draw(rt, "style")
		switch style {
		case "peerset":
			ps := genPeerSet(2, 8).Draw(rt, "peers")
			ids, style = ps.ids, "peerset:"+ps.style
		case "suffix-chain":
			cur := rapid.StringN(0, 3, -1).Draw(rt, "base")
			for i, k := 0, rapid.IntRange(2, 6).Draw(rt, "n"); i < k; i++ {
				ids = append(ids, cur)
				cur = rapid.StringN(1, 3, -1).Draw(rt, "ext") + cur
			}
		default:
			host := rapid.SampledFrom([]string{"127.0.0.1", "10.0.0.1", "bng-1", "bng"}).Draw(rt, "host")
			p := rapid.IntRange(1, 6553).Draw(rt, "p")
			ids = []string{fmt.Sprintf("%s:%d", host, p), fmt.Sprintf("%s:%d", host, p*10+rapid.IntRange(0, 9).Draw(rt, "d")), host + "0:" + fmt.Sprint(p),
				fmt.Sprintf("%s:%d", host, p*10+rapid.IntRange(0, 9).Draw(rt, "d2")), "x" + host + ":" + fmt.Sprint(p), host}
			if rapid.IntRange(0, 99).Draw(rt, "alias") < map[bool]int{true: 20, false: 40}[aliasListed] {
				ids = append(ids, host+":8081")
			}
			ids = dedupe(ids)
			ids = rapid.Permutation(ids).Draw(rt, "order")[:rapid.IntRange(2, len(ids)).Draw(rt, "n")]
		}
		ids = dedupe(ids)
		if aliasListed && style != "port-family" { // keep the listed ":8081" pair a minority class
			keep := ids[:0:0]
			for _, x := range ids {
				if !(strings.HasSuffix(x, ":8081") && contains(ids, strings.TrimSuffix(x, ":8081"))) || rapid.IntRange(0, 3).Draw(rt, "keepAlias") == 0 {
					keep = append(keep, x)
				}
			}
			ids = keep
		}
		n := len(ids)
		rel, alias := false, false
		for _, a := range ids {
			for _, b := range ids {
				rel = rel || related(a, b)
				alias = alias || b == a+":8081"
			}
		}
		var trace []string
		for i := 0; i < min(n, 4); i++ {
			self := rapid.IntRange(0, n-1).Draw(rt, "self")
			cf := genRelCfg(n).Draw(rt, "cfg")
			var list []string
			for _, j := range cf.Order {
				if cf.OmitSelf && j == self {
					continue
				}
				list = append(list, ids[j])
			}
			k := min(cf.FromConfig, len(list))
			peers := make([]string, k, k+cf.Slack)
			copy(peers, list[:k])
			p, err := pool.NewPeerPool(pool.PeerPoolConfig{NodeID: ids[self], Peers: peers, Network: "10.99.0.0/29", Gateway: "10.99.0.1", LeaseTime: time.Hour, ListenAddr: "127.0.0.1:0"})
			if err != nil {
				rt.Fatalf("harness: NewPeerPool rejected a valid config: %v", err)
			}
			for _, x := range list[k:] {
				p.AddPeer(x)
			}
			trace = append(trace, fmt.Sprint(self, cf))
			if !sameSet(p.VerifPeerNodes(), ids) {
				rt.Fatalf("harness: node %q does not know the whole set", ids[self])
			}
			for _, m := range ids {
				if got := p.VerifPeerAddr(m); got != m {
					if vstat.Fail(rt, addrSig(m, got, ids[self], list[:k]), "node %q (cfg.Peers=%s then AddPeer %s) resolves member %q to the address %q; peer set %s", ids[self], q(list[:k]), q(list[k:]), m, got, q(ids)) {
						return
					}
				}
			}
		}
		cls := []string{"addr", "addr-style:" + style, sizeClass(n)}
		if rel {
			cls = append(cls, "addr:related-ids")
		}
		if alias {
			cls = append(cls, "addr:X-and-X:8081")
		}
		vstat.Case(n >= 3 && rel, vstat.Hash("addr", strings.Join(ids, "\x00"), strings.Join(trace, ";")), func() any {
			return map[string]any{"test": "addr", "peers": ids, "configs": trace}
		}, cls...)
	})
}
