package c17

import (
	"context"
	"fmt"
	"net"
	"net/http"
	"net/http/httptest"
	"strings"
	"sync/atomic"
	"testing"
	"unicode/utf8"

	"github.com/codelaboratoryltd/bng/pkg/pool"
	"pgregory.net/rapid"

	"bngverif/internal/vstat"
)

// cluster is three PeerPools behind real HTTP servers on loopback.  Node ids are the
// servers' host:port (the pool forwards to "http://<node id>/pool/...").
type cluster struct {
	ids   []string
	srv   []*httptest.Server
	pools []*pool.PeerPool
	alive []bool
	hits  []*atomic.Int64 // /pool/allocate requests served per node
}

func (c *cluster) close() {
	for i, s := range c.srv {
		if c.alive[i] {
			s.Close()
		}
	}
	if tr, ok := http.DefaultTransport.(*http.Transport); ok {
		tr.CloseIdleConnections()
	}
}

type e2eOp struct {
	Kind  string `json:"op"` // alloc | release | kill
	Sub   string `json:"sub,omitempty"`
	Entry int    `json:"entry"`
}

// urlSafe: ids that survive being pasted unescaped into the path of the release URL
// ("/pool/release/<id>": forwardRelease does not escape, and "." / ".." segments are cleaned by ServeMux).
// Releases are only generated for such ids; the escaping defect itself is not an ownership question.
func urlSafe(s string) bool {
	if s == "" || s == "." || s == ".." {
		return false
	}
	for _, r := range s {
		if !(r >= 'a' && r <= 'z' || r >= 'A' && r <= 'Z' || r >= '0' && r <= '9' || r == '-' || r == '.' || r == '_' || r == ':') {
			return false
		}
	}
	return true
}

// buildCluster listens on the GENERATED loopback addresses (127.a.b.c:port, so the node ids - and with
// them the whole case - are reproducible).  It returns nil if an address cannot be bound (case is discarded).
func buildCluster(rt fataler, addrs []string, lists [][]int, incremental []bool) *cluster {
	c := &cluster{}
	muxes := make([]*http.ServeMux, 3)
	for i := 0; i < 3; i++ {
		muxes[i] = http.NewServeMux()
		h := &atomic.Int64{}
		c.hits = append(c.hits, h)
		mux := muxes[i]
		ln, err := net.Listen("tcp4", addrs[i])
		if err != nil {
			c.close()
			return nil
		}
		s := httptest.NewUnstartedServer(http.HandlerFunc(func(w http.ResponseWriter, r *http.Request) {
			if r.URL.Path == "/pool/allocate" {
				h.Add(1)
			}
			mux.ServeHTTP(w, r)
		}))
		s.Listener.Close()
		s.Listener = ln
		s.Start()
		c.srv = append(c.srv, s)
		c.ids = append(c.ids, addrs[i])
		c.alive = append(c.alive, true)
	}
	for i := 0; i < 3; i++ {
		var list []string
		for _, j := range lists[i] {
			list = append(list, c.ids[j])
		}
		var p *pool.PeerPool
		if incremental[i] {
			p = newPool(rt, c.ids[i], nil, "10.99.0.0/24")
			for _, x := range list {
				p.AddPeer(x)
			}
		} else {
			p = newPool(rt, c.ids[i], list, "10.99.0.0/24")
		}
		p.RegisterHandlers(muxes[i])
		c.pools = append(c.pools, p)
	}
	return c
}

func (c *cluster) holders(sub string) []int {
	var out []int
	for i, p := range c.pools {
		if !c.alive[i] {
			continue
		}
		if _, ok := p.VerifLocalHolds(sub); ok {
			out = append(out, i)
		}
	}
	return out
}

func (c *cluster) hitCounts() []int64 {
	out := make([]int64, len(c.hits))
	for i, h := range c.hits {
		out[i] = h.Load()
	}
	return out
}

func (c *cluster) allocated() []int {
	out := make([]int, len(c.pools))
	for i, p := range c.pools {
		out[i] = p.Stats().Allocated
	}
	return out
}

// TestPropEndToEnd: three nodes with real HTTP servers on loopback.  An allocation request for a
// subscriber entering at any node is answered with the same NodeID (the owner every node computes) and
// the same address; afterwards exactly one live node's local pool holds the subscriber and no other
// node's pool changed.  A release entering at any node empties that pool again.  After one node dies and
// the survivors' real probe (checkPeer, three failures) marks it unhealthy, the survivors still agree,
// subscribers the dead node did not own keep their owner and address, and the dead node's subscribers
// are served by exactly one survivor.
func TestPropEndToEnd(t *testing.T) {
	vstat.Checks(150, 3000)
	ctx := context.Background()
	rapid.Check(t, func(rt *rapid.T) {
		perm3 := rapid.Permutation([]int{0, 1, 2})
		lists := make([][]int, 3)
		incr := make([]bool, 3)
		for i := range lists {
			l := perm3.Draw(rt, "configOrder")
			if rapid.Bool().Draw(rt, "omitSelf") {
				var l2 []int
				for _, j := range l {
					if j != i {
						l2 = append(l2, j)
					}
				}
				l = l2
			}
			lists[i] = l
			incr[i] = rapid.Bool().Draw(rt, "incremental")
		}
		var addrs []string
		for len(addrs) < 3 {
			a := fmt.Sprintf("127.%d.%d.%d:%d", rapid.IntRange(0, 255).Draw(rt, "a"), rapid.IntRange(0, 255).Draw(rt, "b"), rapid.IntRange(1, 254).Draw(rt, "c"),
				rapid.SampledFrom([]int{8081, 8081, 18081, 20000 + rapid.IntRange(0, 9999).Draw(rt, "p")}).Draw(rt, "port"))
			if !contains(addrs, a) {
				addrs = append(addrs, a)
			}
		}
		subGen := rapid.OneOf(
			rapid.Custom(func(t *rapid.T) string { return fmt.Sprintf("sub-%d", rapid.IntRange(0, 30).Draw(t, "k")) }),
			rapid.Custom(func(t *rapid.T) string {
				b := rapid.SliceOfN(rapid.Byte(), 6, 6).Draw(t, "mac")
				return net.HardwareAddr(b).String()
			}),
			rapid.String(),
			rapid.Custom(func(t *rapid.T) string { return string(rapid.SliceOfN(rapid.Byte(), 1, 12).Draw(t, "raw")) }),
		)
		alphabet := dedupe(rapid.SliceOfN(subGen, 4, 10).Draw(rt, "subscribers"))
		// The peer API carries the subscriber id as a JSON string, which rewrites every invalid UTF-8 byte to
		// U+FFFD: a forwarded id "\xff" is stored at the owner as "\ufffd".  That rewriting is not an ownership
		// question (every node still names the same owner), but it would make the pool entry of one generated
		// subscriber look like an entry of another generated subscriber whose id really contains U+FFFD.  Keep
		// the two kinds of id out of one case so that "which pool holds s" stays attributable.
		hasInvalid := false
		for _, s := range alphabet {
			if !utf8.ValidString(s) {
				hasInvalid = true
			}
		}
		if hasInvalid {
			kept := alphabet[:0:0]
			for _, s := range alphabet {
				if !strings.ContainsRune(s, utf8.RuneError) || !utf8.ValidString(s) {
					kept = append(kept, s)
				}
			}
			alphabet = kept
		}
		nops := rapid.IntRange(6, 30).Draw(rt, "nops")
		killAt, detectAfter := -1, 0
		victim := 0
		if rapid.Bool().Draw(rt, "withFailure") {
			killAt = rapid.IntRange(1, nops-1).Draw(rt, "killAt")
			victim = rapid.IntRange(0, 2).Draw(rt, "victim")
			detectAfter = rapid.SampledFrom([]int{0, 0, 1, 2, 4}).Draw(rt, "detectAfter") // requests handled before the probes notice
		}
		var ops []e2eOp
		for i := 0; i < nops; i++ {
			if i == killAt {
				ops = append(ops, e2eOp{Kind: "kill", Entry: victim})
				continue
			}
			if killAt >= 0 && i == killAt+1+detectAfter {
				ops = append(ops, e2eOp{Kind: "detect", Entry: victim})
			}
			s := rapid.SampledFrom(alphabet).Draw(rt, "sub")
			kind := "alloc"
			if urlSafe(s) && rapid.IntRange(0, 3).Draw(rt, "rel") == 0 {
				kind = "release"
			}
			ops = append(ops, e2eOp{Kind: kind, Sub: s, Entry: rapid.IntRange(0, 2).Draw(rt, "entry")})
		}

		c := buildCluster(rt, addrs, lists, incr)
		if c == nil {
			rt.Skip("generated loopback address not bindable")
		}
		defer c.close()

		type held struct {
			node string
			ip   string
		}
		model := map[string]held{} // subscriber -> where it is held (valid UTF-8 ids: exact; see below)
		remoteEntry, sawFailover, sawKeep := false, false, false
		dead, detected, sawUndetected := -1, false, false
		for step, op := range ops {
			desc := fmt.Sprintf("step %d %+v", step, op)
			switch op.Kind {
			case "kill":
				dead = op.Entry
				c.srv[dead].Close()
				c.alive[dead] = false
				// what the dead node held is gone with it
				for s, h := range model {
					if h.node == c.ids[dead] {
						delete(model, s)
					}
				}
			case "detect":
				detected = true
				// the survivors' real health probe notices (threshold = 3 consecutive failures)
				for i, p := range c.pools {
					if i == dead {
						continue
					}
					for k := 0; k < 3; k++ {
						p.VerifCheckPeer(ctx, c.ids[dead])
					}
					if p.IsPeerHealthy(c.ids[dead]) {
						if vstat.Fail(rt, "C17/e2e/dead-peer-still-healthy", "node %d still considers the stopped node %d healthy after 3 failed probes", i, dead) {
							return
						}
					}
				}
			case "alloc", "release":
				entry := op.Entry
				if entry == dead {
					entry = (entry + 1) % 3 // nobody can enter at a dead node
				}
				// the owner every live node computes right now (agreement is part of the oracle)
				var eff []string
				for i, p := range c.pools {
					if i != dead {
						eff = append(eff, p.VerifHealthyOwner(op.Sub))
					}
				}
				for _, e := range eff[1:] {
					if e != eff[0] {
						if vstat.Fail(rt, "C17/e2e/nodes-disagree", "%s: live nodes compute different serving nodes %s for %q", desc, q(eff), op.Sub) {
							return
						}
					}
				}
				ownerDown := dead >= 0 && eff[0] == c.ids[dead]
				if ownerDown && detected {
					if vstat.Fail(rt, "C17/e2e/dead-node-chosen", "%s: live nodes chose the dead node %q for %q", desc, eff[0], op.Sub) {
						return
					}
				}
				before := c.allocated()
				hitsBefore := c.hitCounts()
				if op.Kind == "release" {
					err := c.pools[entry].Release(ctx, op.Sub)
					if ownerDown {
						continue // the serving node is down and not yet detected: the release cannot be carried out
					}
					if err != nil {
						if vstat.Fail(rt, "C17/e2e/release-error", "%s: release failed although every chosen node is alive: %v", desc, err) {
							return
						}
					}
					if hs := c.holders(op.Sub); len(hs) != 0 {
						if vstat.Fail(rt, "C17/e2e/release-left-holder", "%s: after the release nodes %v still hold %q", desc, hs, op.Sub) {
							return
						}
					}
					delete(model, op.Sub)
					continue
				}
				resp, err := c.pools[entry].Allocate(ctx, op.Sub, net.HardwareAddr{2, 0, 0, 0, 0, byte(step)})
				if ownerDown {
					// the serving node is down but the probes have not noticed yet: the request cannot be served;
					// serving it from any other pool would put the subscriber on two nodes once the owner is back
					sawUndetected = true
					if err == nil {
						if vstat.Fail(rt, "C17/e2e/served-by-non-owner-while-owner-down", "%s: every live node computes the (stopped, undetected) node %q for %q, yet the request was served by %q", desc, eff[0], op.Sub, resp.NodeID) {
							return
						}
					}
					after := c.allocated()
					for i := range after {
						if after[i] != before[i] {
							if vstat.Fail(rt, "C17/e2e/other-pool-changed", "%s: request failed (%v) but node %d's pool went from %d to %d allocations", desc, err, i, before[i], after[i]) {
								return
							}
						}
					}
					continue
				}
				if err != nil {
					if vstat.Fail(rt, "C17/e2e/alloc-error", "%s: allocation failed although the chosen node %q is alive (pool /24, <=10 subscribers): %v", desc, eff[0], err) {
						return
					}
					continue
				}
				if c.ids[entry] != resp.NodeID {
					remoteEntry = true
				}
				if resp.NodeID != eff[0] {
					if vstat.Fail(rt, "C17/e2e/node-differs", "%s: response NodeID %q but every node computes %q as the serving node", desc, resp.NodeID, eff[0]) {
						return
					}
				}
				if h, ok := model[op.Sub]; ok && utf8.ValidString(op.Sub) {
					if h.node != resp.NodeID {
						if dead < 0 {
							if vstat.Fail(rt, "C17/e2e/node-differs-by-entry", "%s: %q was served by %q before, now by %q (entry node %d)", desc, op.Sub, h.node, resp.NodeID, entry) {
								return
							}
						} else if vstat.Fail(rt, "C17/e2e/failover-moved-foreign-subscriber", "%s: %q was held by live node %q, after node %d died it is served by %q", desc, op.Sub, h.node, dead, resp.NodeID) {
							return
						}
					} else if h.ip != resp.IP {
						if vstat.Fail(rt, "C17/e2e/address-differs-by-entry", "%s: %q got %s before and %s now from the same node", desc, op.Sub, h.ip, resp.IP) {
							return
						}
					} else if dead >= 0 {
						sawKeep = true
					}
				} else if dead >= 0 {
					sawFailover = true
				}
				for i, hb := range hitsBefore {
					d := c.hits[i].Load() - hb
					if d != 0 && (c.ids[i] != resp.NodeID || i == entry || d > 1) {
						if vstat.Fail(rt, "C17/e2e/forwarded-to-wrong-node", "%s: served by %q, entry node %d, but node %d handled %d forwarded allocate requests", desc, resp.NodeID, entry, i, d) {
							return
						}
					}
				}
				after := c.allocated()
				for i := range after {
					if c.ids[i] != resp.NodeID && after[i] != before[i] && i != dead {
						if vstat.Fail(rt, "C17/e2e/other-pool-changed", "%s: served by %q but node %d's pool went from %d to %d allocations", desc, resp.NodeID, i, before[i], after[i]) {
							return
						}
					}
				}
				if utf8.ValidString(op.Sub) {
					// JSON transports valid UTF-8 exactly; ids with invalid bytes are only checked through NodeID and the pool counters
					hs := c.holders(op.Sub)
					if len(hs) != 1 || c.ids[hs[0]] != resp.NodeID {
						if vstat.Fail(rt, "C17/e2e/holders", "%s: after the request the live nodes holding %q are %v, want exactly the node %q", desc, op.Sub, hs, resp.NodeID) {
							return
						}
					}
					model[op.Sub] = held{resp.NodeID, resp.IP}
				}
			}
		}
		cls := []string{"e2e"}
		if dead >= 0 {
			cls = append(cls, "e2e:node-failure")
		}
		if sawUndetected {
			cls = append(cls, "e2e:request-for-undetected-dead-owner")
		}
		if sawFailover {
			cls = append(cls, "e2e:alloc-after-failure")
		}
		if sawKeep {
			cls = append(cls, "e2e:kept-owner-after-failure")
		}
		if remoteEntry {
			cls = append(cls, "nt:>=3-peers-remote-owner")
		}
		vstat.Case(remoteEntry, vstat.Hash("e2e", strings.Join(addrs, ","), fmt.Sprint(lists, incr), fmt.Sprintf("%q", ops)), func() any {
			return map[string]any{"test": "e2e", "nodes": addrs, "config_orders": lists, "incremental": incr, "ops": ops}
		}, cls...)
	})
}
